(* Properties_C20.v — C20: bounding volumes, intervals and point-set extents enclose exactly what they should.
   Only statements, each closed by [exact <lemma>] and followed by Print Assumptions.
   [v.[i]] is [nth i v 0]; vectors are lists of reals, point sets are lists of vectors. *)
From Coq Require Import Reals ZArith List Bool Lra Lia.
From Flocq Require Import Core.
From Romea Require Import Num NumR BoxModel BoxProofs BoxLits GridMapFloat BoxFloat SrcTieC20.
From Romea.gen Require Import SrcBoxes.
Import ListNotations.
Local Open Scope R_scope.

(* --- an axis-aligned box built from an interval reproduces that interval (any dimension) --- *)
Theorem C20_aabb_interval_roundtrip : forall lo hi : list R, length lo = length hi ->
  aabb_to_interval ROps (aabb_of_interval ROps {| i_lower := lo; i_upper := hi |}) = {| i_lower := lo; i_upper := hi |}.
Proof. exact aabb_interval_roundtrip. Qed.
Print Assumptions C20_aabb_interval_roundtrip.

Theorem C20_aabb_to_interval : forall (c h : list R) i, length c = length h -> (i < length c)%nat ->
  (i_lower (aabb_to_interval ROps {| a_center := c; a_half := h |})).[i] = c.[i] - h.[i] /\
  (i_upper (aabb_to_interval ROps {| a_center := c; a_half := h |})).[i] = c.[i] + h.[i].
Proof. exact aabb_to_interval_nth. Qed.

(* --- containment: exactly when every coordinate lies within centre +- half-extent (closed) --- *)
Theorem C20_aabb_inside_iff : forall c h p : list R, length c = length h -> length p = length c ->
  (aabb_inside ROps {| a_center := c; a_half := h |} p = true <->
   forall i, (i < length c)%nat -> c.[i] - h.[i] <= p.[i] <= c.[i] + h.[i]).
Proof. exact aabb_inside_iff. Qed.
Print Assumptions C20_aabb_inside_iff.

(* --- interval union is the componentwise hull; membership is closed --- *)
Theorem C20_include_is_hull : forall (lo1 hi1 lo2 hi2 : list R) i,
  length lo1 = length lo2 -> length hi1 = length hi2 -> (i < length lo1)%nat -> (i < length hi1)%nat ->
  let u := interval_include ROps {| i_lower := lo1; i_upper := hi1 |} {| i_lower := lo2; i_upper := hi2 |} in
  (i_lower u).[i] = Rmin lo1.[i] lo2.[i] /\ (i_upper u).[i] = Rmax hi1.[i] hi2.[i].
Proof. exact include_is_hull. Qed.
Print Assumptions C20_include_is_hull.

Theorem C20_interval_inside_iff : forall lo hi v : list R, length lo = length v -> length hi = length v ->
  (interval_inside ROps {| i_lower := lo; i_upper := hi |} v = true <->
   forall i, (i < length v)%nat -> lo.[i] <= v.[i] <= hi.[i]).
Proof. exact interval_inside_iff. Qed.

Theorem C20_include_encloses_and_is_minimal : forall lo1 hi1 lo2 hi2 : list R,
  length lo1 = length lo2 -> length hi1 = length hi2 -> length lo1 = length hi1 ->
  let u := interval_include ROps {| i_lower := lo1; i_upper := hi1 |} {| i_lower := lo2; i_upper := hi2 |} in
  (forall v, length v = length lo1 ->
     interval_inside ROps {| i_lower := lo1; i_upper := hi1 |} v = true \/
     interval_inside ROps {| i_lower := lo2; i_upper := hi2 |} v = true -> interval_inside ROps u v = true) /\
  (forall lo hi, length lo = length lo1 -> length hi = length lo1 ->
     (forall i, (i < length lo1)%nat -> lo.[i] <= lo1.[i] /\ lo.[i] <= lo2.[i] /\ hi1.[i] <= hi.[i] /\ hi2.[i] <= hi.[i]) ->
     forall i, (i < length lo1)%nat -> lo.[i] <= (i_lower u).[i] /\ (i_upper u).[i] <= hi.[i]).
Proof. exact include_encloses_minimal. Qed.
Print Assumptions C20_include_encloses_and_is_minimal.

(* --- min / max / mean of a container: true componentwise extrema and centroid, for every non-empty list of
       points of size n with finite coordinates (|x| <= numeric_limits::max()) --- *)
Theorem C20_container_min_max_mean_correct : forall n (pts : list (list R)),
  pts <> [] -> Forall (fun p => length p = n) pts -> bounded pts ->
  forall i, (i < n)%nat ->
    is_min (coords pts i) (cont_min ROps n pts).[i] /\
    is_max (coords pts i) (cont_max ROps n pts).[i] /\
    (cont_mean ROps n pts).[i] = Rsum (coords pts i) / INR (length pts).
Proof. exact container_extents_correct. Qed.
Print Assumptions C20_container_min_max_mean_correct.

(* --- PointSetPreconditioner::compute --- *)
(* the code of the snapshot (running maximum started from numeric_limits::min(), the smallest positive normal):
   false on the all-negative set (-3,-4),(-1,-2): the reported maximum is not a coordinate of any point and the scale
   is not the reciprocal of the largest side (2).  Replayed on the implementation by checks/C20.py. *)
Theorem C20_preconditioner_extents_correct_minpos_refuted :
  exists pts : list (list R), pts <> [] /\ Forall (fun p => length p = 2%nat) pts /\ bounded pts /\
    let pc := precond_compute_minpos ROps 2 2 pts in
    ~ is_max (coords pts 0) (pc_max pc).[0%nat] /\
    (exists L, is_max [ -1 - -3; -2 - -4 ] L /\ 0 < L /\ pc_scale pc <> / L).
Proof. exact precond_minpos_refuted. Qed.
Print Assumptions C20_preconditioner_extents_correct_minpos_refuted.

(* what a running maximum started from an arbitrary value m0 reports: max(m0, true maximum) *)
Theorem C20_preconditioner_max_characterised : forall m0 size cdim (pts : list (list R)) i,
  Forall (fun p => length p = size) pts -> (i < size)%nat ->
  (pc_max (precond_with ROps m0 size cdim pts)).[i] = fold_left Rmax (coords pts i) m0.
Proof. exact precond_max_characterised. Qed.

(* with the running maximum started from lowest() = -max(): extents, centroid, scale = 1 / largest side
   (when that side is > 0) and translation = -centroid * scale, for every non-empty set *)
Theorem C20_preconditioner_extents_correct : forall size cdim (pts : list (list R)),
  pts <> [] -> (0 < size)%nat -> (cdim <= size)%nat -> Forall (fun p => length p = size) pts -> bounded pts ->
  let pc := precond_compute ROps size cdim pts in
  (forall i, (i < size)%nat ->
     is_min (coords pts i) (pc_min pc).[i] /\ is_max (coords pts i) (pc_max pc).[i] /\
     (pc_mean pc).[i] = Rsum (coords pts i) / INR (length pts)) /\
  (exists L, is_max (map (fun i => (pc_max pc).[i] - (pc_min pc).[i]) (seq 0 size)) L /\
             (0 < L -> pc_scale pc = / L)) /\
  (forall j, (j < cdim)%nat -> (pc_translation pc).[j] = - (pc_mean pc).[j] * pc_scale pc).
Proof. exact precond_lowest_correct. Qed.
Print Assumptions C20_preconditioner_extents_correct.

(* --- oriented boxes, 2D and 3D (the instantiated dimensions).  [orthogonal2/3]: R R^T = I and R^T R = I, which every
       proper rotation satisfies (C20_ex_rotation2, C20_ex_rotation3_z, C20_ex_rotation3_perm). --- *)

(* containment = the point expressed in the box frame, R^T (p - c), lies within +- half extents (closed) *)
Theorem C20_obb_inside_iff_2d : forall c0 c1 h0 h1 r00 r01 r10 r11 p0 p1 : R,
  obb_inside ROps {| o_center := [c0; c1]; o_half := [h0; h1]; o_rot := [[r00; r01]; [r10; r11]] |} [p0; p1] = true <->
  Rabs (r00 * (p0 - c0) + r10 * (p1 - c1)) <= h0 /\ Rabs (r01 * (p0 - c0) + r11 * (p1 - c1)) <= h1.
Proof. exact obb2_inside_frame. Qed.
Print Assumptions C20_obb_inside_iff_2d.

(* ... which, for a rotation, is membership in the rotated and translated box {c + R q : |q_j| <= h_j} *)
Theorem C20_obb_inside_is_rigid_image_2d : forall c0 c1 h0 h1 r00 r01 r10 r11 p0 p1 : R,
  orthogonal2 r00 r01 r10 r11 ->
  (obb_inside ROps {| o_center := [c0; c1]; o_half := [h0; h1]; o_rot := [[r00; r01]; [r10; r11]] |} [p0; p1] = true <->
   exists q0 q1, Rabs q0 <= h0 /\ Rabs q1 <= h1 /\ p0 = c0 + (r00 * q0 + r01 * q1) /\ p1 = c1 + (r10 * q0 + r11 * q1)).
Proof. exact obb2_inside_geometric. Qed.
Print Assumptions C20_obb_inside_is_rigid_image_2d.

Theorem C20_obb_to_aabb_encloses_2d : forall c0 c1 h0 h1 r00 r01 r10 r11 p0 p1 : R,
  orthogonal2 r00 r01 r10 r11 ->
  let o := {| o_center := [c0; c1]; o_half := [h0; h1]; o_rot := [[r00; r01]; [r10; r11]] |} in
  obb_inside ROps o [p0; p1] = true -> aabb_inside ROps (obb_to_aabb ROps o) [p0; p1] = true.
Proof. exact obb2_to_aabb_encloses. Qed.
Print Assumptions C20_obb_to_aabb_encloses_2d.

(* tight: each of the four faces x = c0 +- e0, y = c1 +- e1 of the derived box is touched by a corner c + R(+-h0, +-h1),
   and the corners belong to the oriented box *)
Theorem C20_obb_to_aabb_tight_2d : forall c0 c1 h0 h1 r00 r01 r10 r11 : R, 0 <= h0 -> 0 <= h1 ->
  let o := {| o_center := [c0; c1]; o_half := [h0; h1]; o_rot := [[r00; r01]; [r10; r11]] |} in
  let e0 := (a_half (obb_to_aabb ROps o)).[0%nat] in let e1 := (a_half (obb_to_aabb ROps o)).[1%nat] in
  let corner := corner2 c0 c1 h0 h1 r00 r01 r10 r11 in
  (exists p0 p1, corner p0 p1 /\ p0 = c0 + e0) /\ (exists p0 p1, corner p0 p1 /\ p0 = c0 - e0) /\
  (exists p0 p1, corner p0 p1 /\ p1 = c1 + e1) /\ (exists p0 p1, corner p0 p1 /\ p1 = c1 - e1).
Proof. exact obb2_to_aabb_tight. Qed.
Print Assumptions C20_obb_to_aabb_tight_2d.

Theorem C20_obb_corners_belong_2d : forall c0 c1 h0 h1 r00 r01 r10 r11 p0 p1 : R,
  0 <= h0 -> 0 <= h1 -> orthogonal2 r00 r01 r10 r11 -> corner2 c0 c1 h0 h1 r00 r01 r10 r11 p0 p1 ->
  obb_inside ROps {| o_center := [c0; c1]; o_half := [h0; h1]; o_rot := [[r00; r01]; [r10; r11]] |} [p0; p1] = true.
Proof. exact corner2_inside. Qed.

Theorem C20_obb_inside_iff_3d : forall c0 c1 c2 h0 h1 h2 r00 r01 r02 r10 r11 r12 r20 r21 r22 p0 p1 p2 : R,
  obb_inside ROps {| o_center := [c0; c1; c2]; o_half := [h0; h1; h2];
                     o_rot := [[r00; r01; r02]; [r10; r11; r12]; [r20; r21; r22]] |} [p0; p1; p2] = true <->
  Rabs (r00 * (p0 - c0) + r10 * (p1 - c1) + r20 * (p2 - c2)) <= h0 /\
  Rabs (r01 * (p0 - c0) + r11 * (p1 - c1) + r21 * (p2 - c2)) <= h1 /\
  Rabs (r02 * (p0 - c0) + r12 * (p1 - c1) + r22 * (p2 - c2)) <= h2.
Proof. exact obb3_inside_frame. Qed.
Print Assumptions C20_obb_inside_iff_3d.

Theorem C20_obb_inside_is_rigid_image_3d : forall c0 c1 c2 h0 h1 h2 r00 r01 r02 r10 r11 r12 r20 r21 r22 p0 p1 p2 : R,
  orthogonal3 r00 r01 r02 r10 r11 r12 r20 r21 r22 ->
  (obb_inside ROps {| o_center := [c0; c1; c2]; o_half := [h0; h1; h2];
                      o_rot := [[r00; r01; r02]; [r10; r11; r12]; [r20; r21; r22]] |} [p0; p1; p2] = true <->
   exists q0 q1 q2, Rabs q0 <= h0 /\ Rabs q1 <= h1 /\ Rabs q2 <= h2 /\
     p0 = c0 + (r00 * q0 + r01 * q1 + r02 * q2) /\ p1 = c1 + (r10 * q0 + r11 * q1 + r12 * q2) /\
     p2 = c2 + (r20 * q0 + r21 * q1 + r22 * q2)).
Proof. exact obb3_inside_geometric. Qed.
Print Assumptions C20_obb_inside_is_rigid_image_3d.

Theorem C20_obb_to_aabb_encloses_3d : forall c0 c1 c2 h0 h1 h2 r00 r01 r02 r10 r11 r12 r20 r21 r22 p0 p1 p2 : R,
  orthogonal3 r00 r01 r02 r10 r11 r12 r20 r21 r22 ->
  let o := {| o_center := [c0; c1; c2]; o_half := [h0; h1; h2];
              o_rot := [[r00; r01; r02]; [r10; r11; r12]; [r20; r21; r22]] |} in
  obb_inside ROps o [p0; p1; p2] = true -> aabb_inside ROps (obb_to_aabb ROps o) [p0; p1; p2] = true.
Proof. exact obb3_to_aabb_encloses. Qed.
Print Assumptions C20_obb_to_aabb_encloses_3d.

Theorem C20_obb_to_aabb_tight_3d : forall c0 c1 c2 h0 h1 h2 r00 r01 r02 r10 r11 r12 r20 r21 r22 : R,
  0 <= h0 -> 0 <= h1 -> 0 <= h2 ->
  let o := {| o_center := [c0; c1; c2]; o_half := [h0; h1; h2];
              o_rot := [[r00; r01; r02]; [r10; r11; r12]; [r20; r21; r22]] |} in
  let e0 := (a_half (obb_to_aabb ROps o)).[0%nat] in let e1 := (a_half (obb_to_aabb ROps o)).[1%nat] in
  let e2 := (a_half (obb_to_aabb ROps o)).[2%nat] in
  let corner := corner3 c0 c1 c2 h0 h1 h2 r00 r01 r02 r10 r11 r12 r20 r21 r22 in
  (exists p0 p1 p2, corner p0 p1 p2 /\ p0 = c0 + e0) /\ (exists p0 p1 p2, corner p0 p1 p2 /\ p0 = c0 - e0) /\
  (exists p0 p1 p2, corner p0 p1 p2 /\ p1 = c1 + e1) /\ (exists p0 p1 p2, corner p0 p1 p2 /\ p1 = c1 - e1) /\
  (exists p0 p1 p2, corner p0 p1 p2 /\ p2 = c2 + e2) /\ (exists p0 p1 p2, corner p0 p1 p2 /\ p2 = c2 - e2).
Proof. exact obb3_to_aabb_tight. Qed.
Print Assumptions C20_obb_to_aabb_tight_3d.

Theorem C20_obb_corners_belong_3d : forall c0 c1 c2 h0 h1 h2 r00 r01 r02 r10 r11 r12 r20 r21 r22 p0 p1 p2 : R,
  0 <= h0 -> 0 <= h1 -> 0 <= h2 -> orthogonal3 r00 r01 r02 r10 r11 r12 r20 r21 r22 ->
  corner3 c0 c1 c2 h0 h1 h2 r00 r01 r02 r10 r11 r12 r20 r21 r22 p0 p1 p2 ->
  obb_inside ROps {| o_center := [c0; c1; c2]; o_half := [h0; h1; h2];
                     o_rot := [[r00; r01; r02]; [r10; r11; r12]; [r20; r21; r22]] |} [p0; p1; p2] = true.
Proof. exact corner3_inside. Qed.

(* --- oriented box -> axis-aligned box in ANY dimension, with the oriented box read as the point set
       { c + R q : |q_j| <= h_j } (= what isInside accepts for 2D/3D rotations, theorems ..._is_rigid_image_2d/3d);
       no orthogonality needed: every such point is inside the derived box, and for every axis i some corner
       q in {+-h} puts coordinate i on the face c_i + e_i and the opposite corner on c_i - e_i. --- *)
Theorem C20_obb_to_aabb_encloses : forall (c h : list R) (Rm : list (list R)) q,
  length Rm = length c -> Forall2 (fun q h => Rabs q <= h) q h ->
  aabb_inside ROps (obb_to_aabb ROps {| o_center := c; o_half := h; o_rot := Rm |}) (vadd ROps c (mul_vec ROps Rm q)) = true.
Proof. exact obb_image_in_aabb. Qed.
Print Assumptions C20_obb_to_aabb_encloses.

Theorem C20_obb_to_aabb_tight : forall (c h : list R) (Rm : list (list R)) i,
  length Rm = length c -> (i < length c)%nat -> Forall (fun x => 0 <= x) h ->
  let e := (a_half (obb_to_aabb ROps {| o_center := c; o_half := h; o_rot := Rm |})).[i] in
  exists q, Forall2 (fun q h => q = h \/ q = - h) q h /\
    (vadd ROps c (mul_vec ROps Rm q)).[i] = c.[i] + e /\
    (vadd ROps c (mul_vec ROps Rm (map Ropp q))).[i] = c.[i] - e.
Proof. exact obb_aabb_face_touched. Qed.
Print Assumptions C20_obb_to_aabb_tight.

(* ====================================================================================================================
   SYNTACTIC SOURCE TIE.  gen/SrcBoxes.v is regenerated on every run by translate/tr_C20_boxes.py from the clang AST of the
   class templates instantiated at Scalar = double, DIM = 2 and 3 (per-axis scalar reading of the Eigen expressions; the loop
   over the points is one fold over the list).  The generated terms equal the BoxModel.v functions all theorems above are
   about — for EVERY numeric dictionary satisfying the literal laws NumLits (0, 1, 2. are nzero, n_one, ntwo; + and *
   commute): the reals (C20_ex_lits_R) and the rounded binary64 / binary32 dictionaries (C20_ex_lits_binary64/32), so the
   floating-point theorems below are about the source's operation sequence as well.
   Signature of a generated term: parameters flattened in declaration order, then the data members in declaration order.
   ==================================================================================================================== *)
Theorem C20_source_tie_aabb_constructors : forall T (N : NumOps T), NumLits N ->
  (forall c0 c1 h0 h1 : T, aabb2 (src_aabb_ctor_2 c0 c1 h0 h1) = {| a_center := [c0; c1]; a_half := [h0; h1] |}) /\
  (forall c0 c1 c2 h0 h1 h2 : T,
     aabb3 (src_aabb_ctor_3 c0 c1 c2 h0 h1 h2) = {| a_center := [c0; c1; c2]; a_half := [h0; h1; h2] |}) /\
  (forall l0 l1 u0 u1, aabb2 (src_aabb_of_interval_2 N l0 l1 u0 u1) =
     aabb_of_interval N {| i_lower := [l0; l1]; i_upper := [u0; u1] |}) /\
  (forall l0 l1 l2 u0 u1 u2, aabb3 (src_aabb_of_interval_3 N l0 l1 l2 u0 u1 u2) =
     aabb_of_interval N {| i_lower := [l0; l1; l2]; i_upper := [u0; u1; u2] |}).
Proof.
  exact (fun T N L => conj (tie_aabb_ctor_2 N L) (conj (tie_aabb_ctor_3 N L)
                      (conj (tie_aabb_of_interval_2 N L) (tie_aabb_of_interval_3 N L)))).
Qed.
Print Assumptions C20_source_tie_aabb_constructors.

Theorem C20_source_tie_aabb_isInside : forall T (N : NumOps T), NumLits N ->
  (forall p0 p1 c0 c1 h0 h1,
     src_aabb_isInside_2 N p0 p1 c0 c1 h0 h1 = aabb_inside N {| a_center := [c0; c1]; a_half := [h0; h1] |} [p0; p1]) /\
  (forall p0 p1 p2 c0 c1 c2 h0 h1 h2,
     src_aabb_isInside_3 N p0 p1 p2 c0 c1 c2 h0 h1 h2 =
     aabb_inside N {| a_center := [c0; c1; c2]; a_half := [h0; h1; h2] |} [p0; p1; p2]).
Proof. exact (fun T N L => conj (tie_aabb_isInside_2 N L) (tie_aabb_isInside_3 N L)). Qed.
Print Assumptions C20_source_tie_aabb_isInside.

Theorem C20_source_tie_aabb_toInterval_getters : forall T (N : NumOps T), NumLits N ->
  (forall c0 c1 h0 h1, ival2 (src_aabb_toInterval_2 N c0 c1 h0 h1) =
     aabb_to_interval N {| a_center := [c0; c1]; a_half := [h0; h1] |}) /\
  (forall c0 c1 c2 h0 h1 h2, ival3 (src_aabb_toInterval_3 N c0 c1 c2 h0 h1 h2) =
     aabb_to_interval N {| a_center := [c0; c1; c2]; a_half := [h0; h1; h2] |}) /\
  (forall c0 c1 h0 h1 : T, vec2 (src_aabb_getCenterPosition_2 c0 c1 h0 h1) = [c0; c1] /\
                           vec2 (src_aabb_getHalfWidthExtents_2 c0 c1 h0 h1) = [h0; h1]) /\
  (forall c0 c1 c2 h0 h1 h2 : T, vec3 (src_aabb_getCenterPosition_3 c0 c1 c2 h0 h1 h2) = [c0; c1; c2] /\
                                 vec3 (src_aabb_getHalfWidthExtents_3 c0 c1 c2 h0 h1 h2) = [h0; h1; h2]).
Proof.
  exact (fun T N L => conj (tie_aabb_toInterval_2 N L) (conj (tie_aabb_toInterval_3 N L)
                      (conj (tie_aabb_getters_2 N L) (tie_aabb_getters_3 N L)))).
Qed.

Theorem C20_source_tie_interval_basics : forall T (N : NumOps T), NumLits N ->
  (forall l0 l1 u0 u1 : T, let i := {| i_lower := [l0; l1]; i_upper := [u0; u1] |} in
     ival2 (src_interval_ctor_2 l0 l1 u0 u1) = i /\
     vec2 (src_interval_lower_2 l0 l1 u0 u1) = i_lower i /\ vec2 (src_interval_upper_2 l0 l1 u0 u1) = i_upper i /\
     vec2 (src_interval_width_2 N l0 l1 u0 u1) = interval_width N i /\
     vec2 (src_interval_center_2 N l0 l1 u0 u1) = interval_center N i) /\
  (forall l0 l1 l2 u0 u1 u2 : T, let i := {| i_lower := [l0; l1; l2]; i_upper := [u0; u1; u2] |} in
     ival3 (src_interval_ctor_3 l0 l1 l2 u0 u1 u2) = i /\
     vec3 (src_interval_lower_3 l0 l1 l2 u0 u1 u2) = i_lower i /\ vec3 (src_interval_upper_3 l0 l1 l2 u0 u1 u2) = i_upper i /\
     vec3 (src_interval_width_3 N l0 l1 l2 u0 u1 u2) = interval_width N i /\
     vec3 (src_interval_center_3 N l0 l1 l2 u0 u1 u2) = interval_center N i).
Proof. exact (fun T N L => conj (tie_interval_basics_2 N L) (tie_interval_basics_3 N L)). Qed.

(* this->include(other): the parameter (other) comes first, then the members of this *)
Theorem C20_source_tie_interval_include : forall T (N : NumOps T), NumLits N ->
  (forall jl0 jl1 ju0 ju1 l0 l1 u0 u1,
     ival2 (src_interval_include_2 N jl0 jl1 ju0 ju1 l0 l1 u0 u1) =
     interval_include N {| i_lower := [l0; l1]; i_upper := [u0; u1] |} {| i_lower := [jl0; jl1]; i_upper := [ju0; ju1] |}) /\
  (forall jl0 jl1 jl2 ju0 ju1 ju2 l0 l1 l2 u0 u1 u2,
     ival3 (src_interval_include_3 N jl0 jl1 jl2 ju0 ju1 ju2 l0 l1 l2 u0 u1 u2) =
     interval_include N {| i_lower := [l0; l1; l2]; i_upper := [u0; u1; u2] |}
                        {| i_lower := [jl0; jl1; jl2]; i_upper := [ju0; ju1; ju2] |}).
Proof. exact (fun T N L => conj (tie_interval_include_2 N L) (tie_interval_include_3 N L)). Qed.
Print Assumptions C20_source_tie_interval_include.

Theorem C20_source_tie_interval_inside : forall T (N : NumOps T), NumLits N ->
  (forall v0 v1 l0 l1 u0 u1,
     src_interval_inside_2 N v0 v1 l0 l1 u0 u1 = interval_inside N {| i_lower := [l0; l1]; i_upper := [u0; u1] |} [v0; v1]) /\
  (forall v0 v1 v2 l0 l1 l2 u0 u1 u2,
     src_interval_inside_3 N v0 v1 v2 l0 l1 l2 u0 u1 u2 =
     interval_inside N {| i_lower := [l0; l1; l2]; i_upper := [u0; u1; u2] |} [v0; v1; v2]).
Proof. exact (fun T N L => conj (tie_interval_inside_2 N L) (tie_interval_inside_3 N L)). Qed.

(* OrientedBoundingBox: members aabb_ (centre, half extents) and rotation_ (row-major) *)
Theorem C20_source_tie_obb_constructor_getters : forall T (N : NumOps T), NumLits N ->
  (forall c0 c1 h0 h1 r00 r01 r10 r11 : T,
     obb2 (src_obb_ctor_2 c0 c1 h0 h1 r00 r01 r10 r11) =
       {| o_center := [c0; c1]; o_half := [h0; h1]; o_rot := [[r00; r01]; [r10; r11]] |} /\
     vec2 (src_obb_getCenterPosition_2 c0 c1 h0 h1 r00 r01 r10 r11) = [c0; c1] /\
     vec2 (src_obb_getHalfWidthExtents_2 c0 c1 h0 h1 r00 r01 r10 r11) = [h0; h1] /\
     src_obb_getRotationMatrix_2 c0 c1 h0 h1 r00 r01 r10 r11 = (r00, r01, r10, r11)) /\
  (forall c0 c1 c2 h0 h1 h2 r00 r01 r02 r10 r11 r12 r20 r21 r22 : T,
     obb3 (src_obb_ctor_3 c0 c1 c2 h0 h1 h2 r00 r01 r02 r10 r11 r12 r20 r21 r22) =
       {| o_center := [c0; c1; c2]; o_half := [h0; h1; h2]; o_rot := [[r00; r01; r02]; [r10; r11; r12]; [r20; r21; r22]] |} /\
     vec3 (src_obb_getCenterPosition_3 c0 c1 c2 h0 h1 h2 r00 r01 r02 r10 r11 r12 r20 r21 r22) = [c0; c1; c2] /\
     vec3 (src_obb_getHalfWidthExtents_3 c0 c1 c2 h0 h1 h2 r00 r01 r02 r10 r11 r12 r20 r21 r22) = [h0; h1; h2] /\
     src_obb_getRotationMatrix_3 c0 c1 c2 h0 h1 h2 r00 r01 r02 r10 r11 r12 r20 r21 r22 =
       (r00, r01, r02, r10, r11, r12, r20, r21, r22)).
Proof.
  exact (fun T N L =>
    conj (fun c0 c1 h0 h1 r00 r01 r10 r11 =>
            conj (tie_obb_ctor_2 N L c0 c1 h0 h1 r00 r01 r10 r11) (tie_obb_getters_2 N L c0 c1 h0 h1 r00 r01 r10 r11))
         (fun c0 c1 c2 h0 h1 h2 r00 r01 r02 r10 r11 r12 r20 r21 r22 =>
            conj (tie_obb_ctor_3 N L c0 c1 c2 h0 h1 h2 r00 r01 r02 r10 r11 r12 r20 r21 r22)
                 (tie_obb_getters_3 N L c0 c1 c2 h0 h1 h2 r00 r01 r02 r10 r11 r12 r20 r21 r22))).
Qed.

Theorem C20_source_tie_obb_isInside : forall T (N : NumOps T), NumLits N ->
  (forall p0 p1 c0 c1 h0 h1 r00 r01 r10 r11,
     src_obb_isInside_2 N p0 p1 c0 c1 h0 h1 r00 r01 r10 r11 =
     obb_inside N {| o_center := [c0; c1]; o_half := [h0; h1]; o_rot := [[r00; r01]; [r10; r11]] |} [p0; p1]) /\
  (forall p0 p1 p2 c0 c1 c2 h0 h1 h2 r00 r01 r02 r10 r11 r12 r20 r21 r22,
     src_obb_isInside_3 N p0 p1 p2 c0 c1 c2 h0 h1 h2 r00 r01 r02 r10 r11 r12 r20 r21 r22 =
     obb_inside N {| o_center := [c0; c1; c2]; o_half := [h0; h1; h2];
                     o_rot := [[r00; r01; r02]; [r10; r11; r12]; [r20; r21; r22]] |} [p0; p1; p2]).
Proof. exact (fun T N L => conj (tie_obb_isInside_2 N L) (tie_obb_isInside_3 N L)). Qed.
Print Assumptions C20_source_tie_obb_isInside.

(* the per-column accumulation loop `for n < DIM: ext.array() += (rotation_.col(n) * half(n)).array().abs()` unrolled *)
Theorem C20_source_tie_obb_toAxisAlignedBoundingBox : forall T (N : NumOps T), NumLits N ->
  (forall c0 c1 h0 h1 r00 r01 r10 r11,
     aabb2 (src_obb_toAABB_2 N c0 c1 h0 h1 r00 r01 r10 r11) =
     obb_to_aabb N {| o_center := [c0; c1]; o_half := [h0; h1]; o_rot := [[r00; r01]; [r10; r11]] |}) /\
  (forall c0 c1 c2 h0 h1 h2 r00 r01 r02 r10 r11 r12 r20 r21 r22,
     aabb3 (src_obb_toAABB_3 N c0 c1 c2 h0 h1 h2 r00 r01 r02 r10 r11 r12 r20 r21 r22) =
     obb_to_aabb N {| o_center := [c0; c1; c2]; o_half := [h0; h1; h2];
                      o_rot := [[r00; r01; r02]; [r10; r11; r12]; [r20; r21; r22]] |}).
Proof. exact (fun T N L => conj (tie_obb_toAABB_2 N L) (tie_obb_toAABB_3 N L)). Qed.
Print Assumptions C20_source_tie_obb_toAxisAlignedBoundingBox.

(* PointSetPreconditioner<Vector2d|Vector3d>::compute: for EVERY list of points and whatever the members held before the
   call (s .. ma*: the old member values are parameters of the generated term — a mean that is not reset shows up here) *)
Theorem C20_source_tie_preconditioner_compute : forall T (N : NumOps T), NumLits N ->
  (forall (points : list (T * T)) s t0 t1 me0 me1 mi0 mi1 ma0 ma1,
     pc2 (src_precond_compute_2 N points s t0 t1 me0 me1 mi0 mi1 ma0 ma1) = precond_compute N 2 2 (map pt2 points)) /\
  (forall (points : list (T * T * T)) s t0 t1 t2 me0 me1 me2 mi0 mi1 mi2 ma0 ma1 ma2,
     pc3 (src_precond_compute_3 N points s t0 t1 t2 me0 me1 me2 mi0 mi1 mi2 ma0 ma1 ma2) =
     precond_compute N 3 3 (map pt3 points)).
Proof. exact (fun T N L => conj (tie_precond_compute_2 N L) (tie_precond_compute_3 N L)). Qed.
Print Assumptions C20_source_tie_preconditioner_compute.

(* end to end over the reals: the generated terms themselves have the properties *)
Theorem C20_source_aabb_isInside_is_closed_box :
  (forall p0 p1 c0 c1 h0 h1 : R,
     src_aabb_isInside_2 ROps p0 p1 c0 c1 h0 h1 = true <-> (c0 - h0 <= p0 <= c0 + h0 /\ c1 - h1 <= p1 <= c1 + h1)) /\
  (forall p0 p1 p2 c0 c1 c2 h0 h1 h2 : R,
     src_aabb_isInside_3 ROps p0 p1 p2 c0 c1 c2 h0 h1 h2 = true <->
     (c0 - h0 <= p0 <= c0 + h0 /\ c1 - h1 <= p1 <= c1 + h1 /\ c2 - h2 <= p2 <= c2 + h2)).
Proof. exact (conj src_aabb_isInside_2_closed src_aabb_isInside_3_closed). Qed.
Print Assumptions C20_source_aabb_isInside_is_closed_box.

Theorem C20_source_preconditioner_extents_correct : forall (points : list (R * R)) s t0 t1 me0 me1 mi0 mi1 ma0 ma1,
  points <> [] -> (forall p, In p points -> Rabs (fst p) <= nmaxval ROps /\ Rabs (snd p) <= nmaxval ROps) ->
  let pc := pc2 (src_precond_compute_2 ROps points s t0 t1 me0 me1 mi0 mi1 ma0 ma1) in
  is_min (map fst points) (pc_min pc).[0%nat] /\ is_max (map fst points) (pc_max pc).[0%nat] /\
  is_min (map snd points) (pc_min pc).[1%nat] /\ is_max (map snd points) (pc_max pc).[1%nat] /\
  (pc_mean pc).[0%nat] = Rsum (map fst points) / INR (length points) /\
  (pc_mean pc).[1%nat] = Rsum (map snd points) / INR (length points).
Proof. exact src_precond_compute_2_extents. Qed.
Print Assumptions C20_source_preconditioner_extents_correct.

Example C20_ex_lits_R : NumLits ROps.
Proof. exact NumLits_R. Qed.
Example C20_ex_lits_binary64 : NumLits B64Ops.
Proof. exact NumLits_B64. Qed.
Example C20_ex_lits_binary32 : NumLits B32Ops.
Proof. exact NumLits_B32. Qed.

(* ====================================================================================================================
   FLOATING-POINT LEVEL (Flocq).  B64Ops / B32Ops (GridMapFloat.v): + - * / are the real operation followed by ONE rounding
   to nearest-even in binary64 / binary32 (rnd64, rnd32); comparisons, negation, |.| exact; b64 x / b32 x = "x is a
   floating-point number".  The format has no largest exponent: overflow is excluded by hypothesis / not modelled.
   ==================================================================================================================== *)
(* (a) running minimum / maximum are EXACT: the reported extents are elements of the data bounding all the data, for every
       non-empty point list within the finite range (nmaxval B64Ops = DBL_MAX = nmaxval ROps, C20_maxval_binary64) *)
Theorem C20_extents_exact_binary64 : forall n (pts : list (list R)),
  pts <> [] -> Forall (fun p => length p = n) pts ->
  (forall p x, In p pts -> In x p -> Rabs x <= nmaxval B64Ops) ->
  forall i, (i < n)%nat ->
    is_min (coords pts i) (cont_min B64Ops n pts).[i] /\ is_max (coords pts i) (cont_max B64Ops n pts).[i].
Proof. exact box_extents_exact_binary64. Qed.
Print Assumptions C20_extents_exact_binary64.

Theorem C20_preconditioner_extents_exact_binary64 : forall size cdim (pts : list (list R)),
  pts <> [] -> Forall (fun p => length p = size) pts ->
  (forall p x, In p pts -> In x p -> Rabs x <= nmaxval B64Ops) ->
  forall i, (i < size)%nat ->
    is_min (coords pts i) (pc_min (precond_compute B64Ops size cdim pts)).[i] /\
    is_max (coords pts i) (pc_max (precond_compute B64Ops size cdim pts)).[i].
Proof. exact box_precond_extents_exact_binary64. Qed.
Print Assumptions C20_preconditioner_extents_exact_binary64.

Theorem C20_extents_exact_binary32 : forall n (pts : list (list R)),
  pts <> [] -> Forall (fun p => length p = n) pts ->
  (forall p x, In p pts -> In x p -> Rabs x <= nmaxval B32Ops) ->
  forall i, (i < n)%nat ->
    is_min (coords pts i) (cont_min B32Ops n pts).[i] /\ is_max (coords pts i) (cont_max B32Ops n pts).[i].
Proof. exact box_extents_exact_binary32. Qed.

Theorem C20_preconditioner_extents_exact_binary32 : forall size cdim (pts : list (list R)),
  pts <> [] -> Forall (fun p => length p = size) pts ->
  (forall p x, In p pts -> In x p -> Rabs x <= nmaxval B32Ops) ->
  forall i, (i < size)%nat ->
    is_min (coords pts i) (pc_min (precond_compute B32Ops size cdim pts)).[i] /\
    is_max (coords pts i) (pc_max (precond_compute B32Ops size cdim pts)).[i].
Proof. exact box_precond_extents_exact_binary32. Qed.

Theorem C20_maxval_binary64 : nmaxval B64Ops = nmaxval ROps.
Proof. exact nmaxval_B64_R. Qed.

(* (b) AxisAlignedBoundingBox::isInside in floats: the subtraction rounds once, |.| and <= are exact *)
Theorem C20_aabb_inside_iff_binary64 : forall c h p : list R, length c = length h -> length p = length c ->
  (aabb_inside B64Ops {| a_center := c; a_half := h |} p = true <->
   forall i, (i < length c)%nat -> Rabs (rnd64 (p.[i] - c.[i])) <= h.[i]).
Proof. exact box_aabb_inside_iff_binary64. Qed.
Print Assumptions C20_aabb_inside_iff_binary64.

(* real-inside => float-inside, with NO margin, when the half extents are floats (monotonicity of rounding) *)
Theorem C20_aabb_real_inside_float_inside_binary64 : forall c h p : list R, length c = length h -> length p = length c ->
  (forall i, (i < length c)%nat -> b64 h.[i]) ->
  (forall i, (i < length c)%nat -> Rabs (p.[i] - c.[i]) <= h.[i]) ->
  aabb_inside B64Ops {| a_center := c; a_half := h |} p = true.
Proof. exact box_aabb_real_inside_float_inside_binary64. Qed.
Print Assumptions C20_aabb_real_inside_float_inside_binary64.

(* float-inside => real-inside within half a unit in the last place of the half extent *)
Theorem C20_aabb_float_inside_real_inside_binary64 : forall c h p : list R, length c = length h -> length p = length c ->
  (forall i, (i < length c)%nat -> b64 h.[i]) ->
  aabb_inside B64Ops {| a_center := c; a_half := h |} p = true ->
  forall i, (i < length c)%nat -> Rabs (p.[i] - c.[i]) <= h.[i] + / 2 * ulp radix2 (FLT_exp (-1074) 53) h.[i].
Proof. exact box_aabb_float_inside_real_inside_binary64. Qed.
Print Assumptions C20_aabb_float_inside_real_inside_binary64.

(* ... and that margin is needed: a float box and a float point OUTSIDE the real box that isInside accepts *)
Theorem C20_aabb_float_inside_implies_real_inside_binary64_refuted :
  exists c h p : list R, length c = length h /\ length p = length c /\
    (forall i, (i < length c)%nat -> b64 c.[i] /\ b64 h.[i] /\ b64 p.[i]) /\
    aabb_inside B64Ops {| a_center := c; a_half := h |} p = true /\
    aabb_inside ROps {| a_center := c; a_half := h |} p = false.
Proof. exact box_aabb_float_inside_not_real_inside_binary64. Qed.
Print Assumptions C20_aabb_float_inside_implies_real_inside_binary64_refuted.

(* when p - c is representable (e.g. Sterbenz: c/2 <= p <= 2c) the float test IS the real test *)
Theorem C20_aabb_inside_exact_subtraction_binary64 : forall c h p : list R, length c = length h -> length p = length c ->
  (forall i, (i < length c)%nat -> b64 (p.[i] - c.[i])) ->
  aabb_inside B64Ops {| a_center := c; a_half := h |} p = aabb_inside ROps {| a_center := c; a_half := h |} p /\
  (aabb_inside B64Ops {| a_center := c; a_half := h |} p = true <->
   forall i, (i < length c)%nat -> Rabs (p.[i] - c.[i]) <= h.[i]).
Proof. exact box_aabb_inside_exact_sub_binary64. Qed.

Theorem C20_sterbenz_binary64 : forall x y, b64 x -> b64 y -> y / 2 <= x <= 2 * y -> b64 (x - y).
Proof. exact box_sterbenz_binary64. Qed.

(* the interval form lower <= p <= upper does no arithmetic: exact *)
Theorem C20_interval_inside_exact_binary64 : forall lo hi v : list R, length lo = length v -> length hi = length v ->
  (interval_inside B64Ops {| i_lower := lo; i_upper := hi |} v = true <->
   forall i, (i < length v)%nat -> lo.[i] <= v.[i] <= hi.[i]).
Proof. exact box_interval_inside_iff_binary64. Qed.
Print Assumptions C20_interval_inside_exact_binary64.

Theorem C20_aabb_inside_iff_binary32 : forall c h p : list R, length c = length h -> length p = length c ->
  (aabb_inside B32Ops {| a_center := c; a_half := h |} p = true <->
   forall i, (i < length c)%nat -> Rabs (rnd32 (p.[i] - c.[i])) <= h.[i]).
Proof. exact box_aabb_inside_iff_binary32. Qed.

Theorem C20_aabb_float_inside_real_inside_binary32 : forall c h p : list R, length c = length h -> length p = length c ->
  (forall i, (i < length c)%nat -> b32 h.[i]) ->
  aabb_inside B32Ops {| a_center := c; a_half := h |} p = true ->
  forall i, (i < length c)%nat -> Rabs (p.[i] - c.[i]) <= h.[i] + / 2 * ulp radix2 (FLT_exp (-149) 24) h.[i].
Proof. exact box_aabb_float_inside_real_inside_binary32. Qed.

(* (c) interval -> box -> interval in floats: centre = rnd (rnd (hi + lo) / 2), half = rnd (rnd (hi - lo) / 2),
       lower' = rnd (centre - half), upper' = rnd (centre + half); for ALL real bounds, u = 2^-53, eta = 2^-1075 *)
Theorem C20_roundtrip_error_binary64 : forall (lo hi : list R) i, length lo = length hi -> (i < length lo)%nat ->
  Rabs ((i_lower (aabb_to_interval B64Ops (aabb_of_interval B64Ops {| i_lower := lo; i_upper := hi |}))).[i] - lo.[i])
    <= 6 * (bpow radix2 (-53) * Rmax (Rabs lo.[i]) (Rabs hi.[i])) + 5 * bpow radix2 (-1075) /\
  Rabs ((i_upper (aabb_to_interval B64Ops (aabb_of_interval B64Ops {| i_lower := lo; i_upper := hi |}))).[i] - hi.[i])
    <= 6 * (bpow radix2 (-53) * Rmax (Rabs lo.[i]) (Rabs hi.[i])) + 5 * bpow radix2 (-1075).
Proof. exact box_roundtrip_error_binary64. Qed.
Print Assumptions C20_roundtrip_error_binary64.

Theorem C20_roundtrip_error_binary32 : forall (lo hi : list R) i, length lo = length hi -> (i < length lo)%nat ->
  Rabs ((i_lower (aabb_to_interval B32Ops (aabb_of_interval B32Ops {| i_lower := lo; i_upper := hi |}))).[i] - lo.[i])
    <= 6 * (bpow radix2 (-24) * Rmax (Rabs lo.[i]) (Rabs hi.[i])) + 5 * bpow radix2 (-150) /\
  Rabs ((i_upper (aabb_to_interval B32Ops (aabb_of_interval B32Ops {| i_lower := lo; i_upper := hi |}))).[i] - hi.[i])
    <= 6 * (bpow radix2 (-24) * Rmax (Rabs lo.[i]) (Rabs hi.[i])) + 5 * bpow radix2 (-150).
Proof. exact box_roundtrip_error_binary32. Qed.

(* exact when hi + lo, hi - lo, their halves, lo and hi are representable (dyadic data) *)
Theorem C20_roundtrip_exact_binary64 : forall (lo hi : list R) i, length lo = length hi -> (i < length lo)%nat ->
  b64 (hi.[i] + lo.[i]) -> b64 (hi.[i] - lo.[i]) -> b64 ((hi.[i] + lo.[i]) / 2) -> b64 ((hi.[i] - lo.[i]) / 2) ->
  b64 lo.[i] -> b64 hi.[i] ->
  (i_lower (aabb_to_interval B64Ops (aabb_of_interval B64Ops {| i_lower := lo; i_upper := hi |}))).[i] = lo.[i] /\
  (i_upper (aabb_to_interval B64Ops (aabb_of_interval B64Ops {| i_lower := lo; i_upper := hi |}))).[i] = hi.[i].
Proof. exact box_roundtrip_exact_binary64. Qed.
Print Assumptions C20_roundtrip_exact_binary64.

(* the real-number round-trip theorem (C20_aabb_interval_roundtrip) is FALSE in binary64: [2^-55, 1] comes back as [0, 1] *)
Theorem C20_aabb_interval_roundtrip_binary64_refuted :
  exists lo hi : list R, length lo = length hi /\ b64 lo.[0%nat] /\ b64 hi.[0%nat] /\ 0 < lo.[0%nat] < hi.[0%nat] /\
    (i_lower (aabb_to_interval B64Ops (aabb_of_interval B64Ops {| i_lower := lo; i_upper := hi |}))).[0%nat] = 0 /\
    (i_upper (aabb_to_interval B64Ops (aabb_of_interval B64Ops {| i_lower := lo; i_upper := hi |}))).[0%nat] = 1.
Proof. exact box_roundtrip_inexact_binary64. Qed.
Print Assumptions C20_aabb_interval_roundtrip_binary64_refuted.

Example C20_ex_extents_hyps_binary64 :
  [[1; 2]; [3; -4]] <> [] /\ Forall (fun p : list R => length p = 2%nat) [[1; 2]; [3; -4]] /\
  (forall p x, In p [[1; 2]; [3; -4]] -> In x p -> Rabs x <= nmaxval B64Ops).
Proof. exact box_extents_hyps_sat_binary64. Qed.
Example C20_ex_roundtrip_exact_hyps_binary64 :
  b64 (3 + 1) /\ b64 (3 - 1) /\ b64 ((3 + 1) / 2) /\ b64 ((3 - 1) / 2) /\ b64 1 /\ b64 3.
Proof. exact box_roundtrip_exact_hyps_sat_binary64. Qed.

(* --- non-vacuity --- *)
Example C20_ex_rotation2 : forall a, orthogonal2 (cos a) (- sin a) (sin a) (cos a).
Proof. exact rotation2_orthogonal. Qed.
Example C20_ex_rotation3_z : forall a, orthogonal3 (cos a) (- sin a) 0 (sin a) (cos a) 0 0 0 1.
Proof. exact rotation3_z_orthogonal. Qed.
Example C20_ex_rotation3_perm : orthogonal3 0 0 1 1 0 0 0 1 0.
Proof. exact rotation3_perm_orthogonal. Qed.
Example C20_ex_bounded : bounded [[-3; -4]; [-1; -2]].
Proof.
  pose proof maxval_ge_4 as M4.
  intros p x [<-|[<-|[]]] Hx; simpl in Hx;
    repeat (destruct Hx as [<-|Hx]; [rewrite Rabs_left by lra; lra|]); contradiction.
Qed.
Example C20_ex_inside : aabb_inside ROps {| a_center := [1; 2]; a_half := [1; 0] |} [2; 2] = true.
Proof. apply C20_aabb_inside_iff; auto. intros [|[|i]] Hi; cbn in *; try lia; lra. Qed.
