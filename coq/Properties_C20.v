(* Properties_C20.v — C20: bounding volumes, intervals and point-set extents enclose exactly what they should.
   Only statements, each closed by [exact <lemma>] and followed by Print Assumptions.
   [v.[i]] is [nth i v 0]; vectors are lists of reals, point sets are lists of vectors. *)
From Coq Require Import Reals ZArith List Bool Lra Lia.
From Romea Require Import Num NumR BoxModel BoxProofs.
Import ListNotations.
Local Open Scope R_scope.

(* --- an axis-aligned box built from an interval reproduces that interval (any dimension) --- *)
Theorem C20_aabb_interval_roundtrip : forall lo hi : list R, length lo = length hi ->
  aabb_to_interval ROps (aabb_of_interval ROps {| i_lower := lo; i_upper := hi |}) = {| i_lower := lo; i_upper := hi |}.
Proof. exact aabb_interval_roundtrip. Qed.
Print Assumptions C20_aabb_interval_roundtrip.

Theorem C20_aabb_to_interval : forall (c h : list R) i, length c = length h -> (i < length c)%nat ->
  (i_lower (aabb_to_interval ROps {| a_center := c; a_half := h |})).[i] = c.[i] - h.[i] /\
  (i_upper (aabb_to_interval ROps {| a_center := c; a_half := h |})).[i] = c.[i] + h.[i].
Proof. exact aabb_to_interval_nth. Qed.

(* --- containment: exactly when every coordinate lies within centre +- half-extent (closed) --- *)
Theorem C20_aabb_inside_iff : forall c h p : list R, length c = length h -> length p = length c ->
  (aabb_inside ROps {| a_center := c; a_half := h |} p = true <->
   forall i, (i < length c)%nat -> c.[i] - h.[i] <= p.[i] <= c.[i] + h.[i]).
Proof. exact aabb_inside_iff. Qed.
Print Assumptions C20_aabb_inside_iff.

(* --- interval union is the componentwise hull; membership is closed --- *)
Theorem C20_include_is_hull : forall (lo1 hi1 lo2 hi2 : list R) i,
  length lo1 = length lo2 -> length hi1 = length hi2 -> (i < length lo1)%nat -> (i < length hi1)%nat ->
  let u := interval_include ROps {| i_lower := lo1; i_upper := hi1 |} {| i_lower := lo2; i_upper := hi2 |} in
  (i_lower u).[i] = Rmin lo1.[i] lo2.[i] /\ (i_upper u).[i] = Rmax hi1.[i] hi2.[i].
Proof. exact include_is_hull. Qed.
Print Assumptions C20_include_is_hull.

Theorem C20_interval_inside_iff : forall lo hi v : list R, length lo = length v -> length hi = length v ->
  (interval_inside ROps {| i_lower := lo; i_upper := hi |} v = true <->
   forall i, (i < length v)%nat -> lo.[i] <= v.[i] <= hi.[i]).
Proof. exact interval_inside_iff. Qed.

Theorem C20_include_encloses_and_is_minimal : forall lo1 hi1 lo2 hi2 : list R,
  length lo1 = length lo2 -> length hi1 = length hi2 -> length lo1 = length hi1 ->
  let u := interval_include ROps {| i_lower := lo1; i_upper := hi1 |} {| i_lower := lo2; i_upper := hi2 |} in
  (forall v, length v = length lo1 ->
     interval_inside ROps {| i_lower := lo1; i_upper := hi1 |} v = true \/
     interval_inside ROps {| i_lower := lo2; i_upper := hi2 |} v = true -> interval_inside ROps u v = true) /\
  (forall lo hi, length lo = length lo1 -> length hi = length lo1 ->
     (forall i, (i < length lo1)%nat -> lo.[i] <= lo1.[i] /\ lo.[i] <= lo2.[i] /\ hi1.[i] <= hi.[i] /\ hi2.[i] <= hi.[i]) ->
     forall i, (i < length lo1)%nat -> lo.[i] <= (i_lower u).[i] /\ (i_upper u).[i] <= hi.[i]).
Proof. exact include_encloses_minimal. Qed.
Print Assumptions C20_include_encloses_and_is_minimal.

(* --- min / max / mean of a container: true componentwise extrema and centroid, for every non-empty list of
       points of size n with finite coordinates (|x| <= numeric_limits::max()) --- *)
Theorem C20_container_min_max_mean_correct : forall n (pts : list (list R)),
  pts <> [] -> Forall (fun p => length p = n) pts -> bounded pts ->
  forall i, (i < n)%nat ->
    is_min (coords pts i) (cont_min ROps n pts).[i] /\
    is_max (coords pts i) (cont_max ROps n pts).[i] /\
    (cont_mean ROps n pts).[i] = Rsum (coords pts i) / INR (length pts).
Proof. exact container_extents_correct. Qed.
Print Assumptions C20_container_min_max_mean_correct.

(* --- PointSetPreconditioner::compute --- *)
(* the code of the snapshot (running maximum started from numeric_limits::min(), the smallest positive normal):
   false on the all-negative set (-3,-4),(-1,-2): the reported maximum is not a coordinate of any point and the scale
   is not the reciprocal of the largest side (2).  Replayed on the implementation by checks/C20.py. *)
Theorem C20_preconditioner_extents_correct_minpos_refuted :
  exists pts : list (list R), pts <> [] /\ Forall (fun p => length p = 2%nat) pts /\ bounded pts /\
    let pc := precond_compute_minpos ROps 2 2 pts in
    ~ is_max (coords pts 0) (pc_max pc).[0%nat] /\
    (exists L, is_max [ -1 - -3; -2 - -4 ] L /\ 0 < L /\ pc_scale pc <> / L).
Proof. exact precond_minpos_refuted. Qed.
Print Assumptions C20_preconditioner_extents_correct_minpos_refuted.

(* what a running maximum started from an arbitrary value m0 reports: max(m0, true maximum) *)
Theorem C20_preconditioner_max_characterised : forall m0 size cdim (pts : list (list R)) i,
  Forall (fun p => length p = size) pts -> (i < size)%nat ->
  (pc_max (precond_with ROps m0 size cdim pts)).[i] = fold_left Rmax (coords pts i) m0.
Proof. exact precond_max_characterised. Qed.

(* with the running maximum started from lowest() = -max(): extents, centroid, scale = 1 / largest side
   (when that side is > 0) and translation = -centroid * scale, for every non-empty set *)
Theorem C20_preconditioner_extents_correct : forall size cdim (pts : list (list R)),
  pts <> [] -> (0 < size)%nat -> (cdim <= size)%nat -> Forall (fun p => length p = size) pts -> bounded pts ->
  let pc := precond_compute ROps size cdim pts in
  (forall i, (i < size)%nat ->
     is_min (coords pts i) (pc_min pc).[i] /\ is_max (coords pts i) (pc_max pc).[i] /\
     (pc_mean pc).[i] = Rsum (coords pts i) / INR (length pts)) /\
  (exists L, is_max (map (fun i => (pc_max pc).[i] - (pc_min pc).[i]) (seq 0 size)) L /\
             (0 < L -> pc_scale pc = / L)) /\
  (forall j, (j < cdim)%nat -> (pc_translation pc).[j] = - (pc_mean pc).[j] * pc_scale pc).
Proof. exact precond_lowest_correct. Qed.
Print Assumptions C20_preconditioner_extents_correct.

(* --- oriented boxes, 2D and 3D (the instantiated dimensions).  [orthogonal2/3]: R R^T = I and R^T R = I, which every
       proper rotation satisfies (C20_ex_rotation2, C20_ex_rotation3_z, C20_ex_rotation3_perm). --- *)

(* containment = the point expressed in the box frame, R^T (p - c), lies within +- half extents (closed) *)
Theorem C20_obb_inside_iff_2d : forall c0 c1 h0 h1 r00 r01 r10 r11 p0 p1 : R,
  obb_inside ROps {| o_center := [c0; c1]; o_half := [h0; h1]; o_rot := [[r00; r01]; [r10; r11]] |} [p0; p1] = true <->
  Rabs (r00 * (p0 - c0) + r10 * (p1 - c1)) <= h0 /\ Rabs (r01 * (p0 - c0) + r11 * (p1 - c1)) <= h1.
Proof. exact obb2_inside_frame. Qed.
Print Assumptions C20_obb_inside_iff_2d.

(* ... which, for a rotation, is membership in the rotated and translated box {c + R q : |q_j| <= h_j} *)
Theorem C20_obb_inside_is_rigid_image_2d : forall c0 c1 h0 h1 r00 r01 r10 r11 p0 p1 : R,
  orthogonal2 r00 r01 r10 r11 ->
  (obb_inside ROps {| o_center := [c0; c1]; o_half := [h0; h1]; o_rot := [[r00; r01]; [r10; r11]] |} [p0; p1] = true <->
   exists q0 q1, Rabs q0 <= h0 /\ Rabs q1 <= h1 /\ p0 = c0 + (r00 * q0 + r01 * q1) /\ p1 = c1 + (r10 * q0 + r11 * q1)).
Proof. exact obb2_inside_geometric. Qed.
Print Assumptions C20_obb_inside_is_rigid_image_2d.

Theorem C20_obb_to_aabb_encloses_2d : forall c0 c1 h0 h1 r00 r01 r10 r11 p0 p1 : R,
  orthogonal2 r00 r01 r10 r11 ->
  let o := {| o_center := [c0; c1]; o_half := [h0; h1]; o_rot := [[r00; r01]; [r10; r11]] |} in
  obb_inside ROps o [p0; p1] = true -> aabb_inside ROps (obb_to_aabb ROps o) [p0; p1] = true.
Proof. exact obb2_to_aabb_encloses. Qed.
Print Assumptions C20_obb_to_aabb_encloses_2d.

(* tight: each of the four faces x = c0 +- e0, y = c1 +- e1 of the derived box is touched by a corner c + R(+-h0, +-h1),
   and the corners belong to the oriented box *)
Theorem C20_obb_to_aabb_tight_2d : forall c0 c1 h0 h1 r00 r01 r10 r11 : R, 0 <= h0 -> 0 <= h1 ->
  let o := {| o_center := [c0; c1]; o_half := [h0; h1]; o_rot := [[r00; r01]; [r10; r11]] |} in
  let e0 := (a_half (obb_to_aabb ROps o)).[0%nat] in let e1 := (a_half (obb_to_aabb ROps o)).[1%nat] in
  let corner := corner2 c0 c1 h0 h1 r00 r01 r10 r11 in
  (exists p0 p1, corner p0 p1 /\ p0 = c0 + e0) /\ (exists p0 p1, corner p0 p1 /\ p0 = c0 - e0) /\
  (exists p0 p1, corner p0 p1 /\ p1 = c1 + e1) /\ (exists p0 p1, corner p0 p1 /\ p1 = c1 - e1).
Proof. exact obb2_to_aabb_tight. Qed.
Print Assumptions C20_obb_to_aabb_tight_2d.

Theorem C20_obb_corners_belong_2d : forall c0 c1 h0 h1 r00 r01 r10 r11 p0 p1 : R,
  0 <= h0 -> 0 <= h1 -> orthogonal2 r00 r01 r10 r11 -> corner2 c0 c1 h0 h1 r00 r01 r10 r11 p0 p1 ->
  obb_inside ROps {| o_center := [c0; c1]; o_half := [h0; h1]; o_rot := [[r00; r01]; [r10; r11]] |} [p0; p1] = true.
Proof. exact corner2_inside. Qed.

Theorem C20_obb_inside_iff_3d : forall c0 c1 c2 h0 h1 h2 r00 r01 r02 r10 r11 r12 r20 r21 r22 p0 p1 p2 : R,
  obb_inside ROps {| o_center := [c0; c1; c2]; o_half := [h0; h1; h2];
                     o_rot := [[r00; r01; r02]; [r10; r11; r12]; [r20; r21; r22]] |} [p0; p1; p2] = true <->
  Rabs (r00 * (p0 - c0) + r10 * (p1 - c1) + r20 * (p2 - c2)) <= h0 /\
  Rabs (r01 * (p0 - c0) + r11 * (p1 - c1) + r21 * (p2 - c2)) <= h1 /\
  Rabs (r02 * (p0 - c0) + r12 * (p1 - c1) + r22 * (p2 - c2)) <= h2.
Proof. exact obb3_inside_frame. Qed.
Print Assumptions C20_obb_inside_iff_3d.

Theorem C20_obb_inside_is_rigid_image_3d : forall c0 c1 c2 h0 h1 h2 r00 r01 r02 r10 r11 r12 r20 r21 r22 p0 p1 p2 : R,
  orthogonal3 r00 r01 r02 r10 r11 r12 r20 r21 r22 ->
  (obb_inside ROps {| o_center := [c0; c1; c2]; o_half := [h0; h1; h2];
                      o_rot := [[r00; r01; r02]; [r10; r11; r12]; [r20; r21; r22]] |} [p0; p1; p2] = true <->
   exists q0 q1 q2, Rabs q0 <= h0 /\ Rabs q1 <= h1 /\ Rabs q2 <= h2 /\
     p0 = c0 + (r00 * q0 + r01 * q1 + r02 * q2) /\ p1 = c1 + (r10 * q0 + r11 * q1 + r12 * q2) /\
     p2 = c2 + (r20 * q0 + r21 * q1 + r22 * q2)).
Proof. exact obb3_inside_geometric. Qed.
Print Assumptions C20_obb_inside_is_rigid_image_3d.

Theorem C20_obb_to_aabb_encloses_3d : forall c0 c1 c2 h0 h1 h2 r00 r01 r02 r10 r11 r12 r20 r21 r22 p0 p1 p2 : R,
  orthogonal3 r00 r01 r02 r10 r11 r12 r20 r21 r22 ->
  let o := {| o_center := [c0; c1; c2]; o_half := [h0; h1; h2];
              o_rot := [[r00; r01; r02]; [r10; r11; r12]; [r20; r21; r22]] |} in
  obb_inside ROps o [p0; p1; p2] = true -> aabb_inside ROps (obb_to_aabb ROps o) [p0; p1; p2] = true.
Proof. exact obb3_to_aabb_encloses. Qed.
Print Assumptions C20_obb_to_aabb_encloses_3d.

Theorem C20_obb_to_aabb_tight_3d : forall c0 c1 c2 h0 h1 h2 r00 r01 r02 r10 r11 r12 r20 r21 r22 : R,
  0 <= h0 -> 0 <= h1 -> 0 <= h2 ->
  let o := {| o_center := [c0; c1; c2]; o_half := [h0; h1; h2];
              o_rot := [[r00; r01; r02]; [r10; r11; r12]; [r20; r21; r22]] |} in
  let e0 := (a_half (obb_to_aabb ROps o)).[0%nat] in let e1 := (a_half (obb_to_aabb ROps o)).[1%nat] in
  let e2 := (a_half (obb_to_aabb ROps o)).[2%nat] in
  let corner := corner3 c0 c1 c2 h0 h1 h2 r00 r01 r02 r10 r11 r12 r20 r21 r22 in
  (exists p0 p1 p2, corner p0 p1 p2 /\ p0 = c0 + e0) /\ (exists p0 p1 p2, corner p0 p1 p2 /\ p0 = c0 - e0) /\
  (exists p0 p1 p2, corner p0 p1 p2 /\ p1 = c1 + e1) /\ (exists p0 p1 p2, corner p0 p1 p2 /\ p1 = c1 - e1) /\
  (exists p0 p1 p2, corner p0 p1 p2 /\ p2 = c2 + e2) /\ (exists p0 p1 p2, corner p0 p1 p2 /\ p2 = c2 - e2).
Proof. exact obb3_to_aabb_tight. Qed.
Print Assumptions C20_obb_to_aabb_tight_3d.

Theorem C20_obb_corners_belong_3d : forall c0 c1 c2 h0 h1 h2 r00 r01 r02 r10 r11 r12 r20 r21 r22 p0 p1 p2 : R,
  0 <= h0 -> 0 <= h1 -> 0 <= h2 -> orthogonal3 r00 r01 r02 r10 r11 r12 r20 r21 r22 ->
  corner3 c0 c1 c2 h0 h1 h2 r00 r01 r02 r10 r11 r12 r20 r21 r22 p0 p1 p2 ->
  obb_inside ROps {| o_center := [c0; c1; c2]; o_half := [h0; h1; h2];
                     o_rot := [[r00; r01; r02]; [r10; r11; r12]; [r20; r21; r22]] |} [p0; p1; p2] = true.
Proof. exact corner3_inside. Qed.

(* --- oriented box -> axis-aligned box in ANY dimension, with the oriented box read as the point set
       { c + R q : |q_j| <= h_j } (= what isInside accepts for 2D/3D rotations, theorems ..._is_rigid_image_2d/3d);
       no orthogonality needed: every such point is inside the derived box, and for every axis i some corner
       q in {+-h} puts coordinate i on the face c_i + e_i and the opposite corner on c_i - e_i. --- *)
Theorem C20_obb_to_aabb_encloses : forall (c h : list R) (Rm : list (list R)) q,
  length Rm = length c -> Forall2 (fun q h => Rabs q <= h) q h ->
  aabb_inside ROps (obb_to_aabb ROps {| o_center := c; o_half := h; o_rot := Rm |}) (vadd ROps c (mul_vec ROps Rm q)) = true.
Proof. exact obb_image_in_aabb. Qed.
Print Assumptions C20_obb_to_aabb_encloses.

Theorem C20_obb_to_aabb_tight : forall (c h : list R) (Rm : list (list R)) i,
  length Rm = length c -> (i < length c)%nat -> Forall (fun x => 0 <= x) h ->
  let e := (a_half (obb_to_aabb ROps {| o_center := c; o_half := h; o_rot := Rm |})).[i] in
  exists q, Forall2 (fun q h => q = h \/ q = - h) q h /\
    (vadd ROps c (mul_vec ROps Rm q)).[i] = c.[i] + e /\
    (vadd ROps c (mul_vec ROps Rm (map Ropp q))).[i] = c.[i] - e.
Proof. exact obb_aabb_face_touched. Qed.
Print Assumptions C20_obb_to_aabb_tight.

(* --- non-vacuity --- *)
Example C20_ex_rotation2 : forall a, orthogonal2 (cos a) (- sin a) (sin a) (cos a).
Proof. exact rotation2_orthogonal. Qed.
Example C20_ex_rotation3_z : forall a, orthogonal3 (cos a) (- sin a) 0 (sin a) (cos a) 0 0 0 1.
Proof. exact rotation3_z_orthogonal. Qed.
Example C20_ex_rotation3_perm : orthogonal3 0 0 1 1 0 0 0 1 0.
Proof. exact rotation3_perm_orthogonal. Qed.
Example C20_ex_bounded : bounded [[-3; -4]; [-1; -2]].
Proof.
  pose proof maxval_ge_4 as M4.
  intros p x [<-|[<-|[]]] Hx; simpl in Hx;
    repeat (destruct Hx as [<-|Hx]; [rewrite Rabs_left by lra; lra|]); contradiction.
Qed.
Example C20_ex_inside : aabb_inside ROps {| a_center := [1; 2]; a_half := [1; 0] |} [2; 2] = true.
Proof. apply C20_aabb_inside_iff; auto. intros [|[|i]] Hi; cbn in *; try lia; lra. Qed.
