(* Extract.v — extraction of the executable models to OCaml (run from build/ocaml by bin/build-ocaml).
   Directives: ExtrOcamlBasic only (bool, option, list, prod, unit, sumbool -> OCaml natives).
   Z / positive / N / nat stay the extracted inductive types.  No Extract Constant of our own. *)
From Coq Require Import Extraction ExtrOcamlBasic ZArith.
From Romea Require Num DiagModel.
Extraction Language OCaml.
Separate Extraction Num DiagModel BinInt.Z.add BinInt.Z.mul BinInt.Z.opp BinInt.Z.sub
  BinInt.Z.div BinInt.Z.modulo BinInt.Z.ltb BinInt.Z.leb BinInt.Z.eqb BinInt.Z.of_nat BinInt.Z.to_nat.
