(* IcpProofs.v — lemmas about coq/IcpModel.v (real-number instance): one-to-one filter, loop exit, best estimate. *)
From Coq Require Import Reals ZArith List Bool Lra Lia Sorted Permutation.
From Romea Require Import Num NumR RansacModel IcpModel RigidProofs.
Import ListNotations.
Local Open Scope R_scope.

(* ================================================================================================
   one-to-one filter: std::sort by (source, distance) then std::unique on the source index.
   Stated for ANY arrangement std::sort may produce: a permutation in which no later element is
   "less" than an earlier one under the predicate. *)
Definition sorted_by_src_dist (l : list corrR) : Prop :=
  StronglySorted (fun a b => src_dist_lt ROps b a = false) l.

Lemma src_dist_ge a b : src_dist_lt ROps b a = false ->
  (c_src a <= c_src b)%Z /\ (c_src a = c_src b -> c_sq a <= c_sq b).
Proof.
  unfold src_dist_lt. cbn [nltb ROps]. rewrite orb_false_iff, andb_false_iff, Z.ltb_ge.
  intros [H1 H2]. split; [lia|]. intros E. destruct H2 as [H2|H2].
  - apply Z.eqb_neq in H2. congruence.
  - apply Rltb_false in H2. exact H2.
Qed.

Definition src_lt (a b : corrR) : Prop := (c_src a < c_src b)%Z.

Lemma unique_sorted_spec r : forall a, sorted_by_src_dist (a :: r) ->
  let u := unique_from (eq_src (T:=R)) a r in
  Forall (src_lt a) u /\ StronglySorted src_lt u /\
  (forall y, In y u -> In y r /\ forall c, In c (a :: r) -> c_src c = c_src y -> c_sq y <= c_sq c) /\
  (forall c, In c r -> c_src c = c_src a \/ exists y, In y u /\ c_src y = c_src c) /\
  (forall c, In c r -> c_src c = c_src a -> c_sq a <= c_sq c).
Proof.
  induction r as [|x r IH]; intros a Hs; cbv zeta.
  - cbn [unique_from]. repeat split; try constructor; intros; contradiction.
  - assert (Hax : Forall (fun b => src_dist_lt ROps b a = false) (x :: r)) by (inversion Hs; assumption).
    assert (Hxr : sorted_by_src_dist (x :: r)) by (inversion Hs; assumption).
    assert (Har : sorted_by_src_dist (a :: r)).
    { constructor; [inversion Hxr; assumption | inversion Hax; assumption]. }
    assert (Hmin : forall c, In c (x :: r) -> c_src c = c_src a -> c_sq a <= c_sq c).
    { intros c Hc E. rewrite Forall_forall in Hax. destruct (src_dist_ge a c (Hax c Hc)) as [_ H]. auto. }
    assert (Hge : forall c, In c (x :: r) -> (c_src a <= c_src c)%Z).
    { intros c Hc. rewrite Forall_forall in Hax. destruct (src_dist_ge a c (Hax c Hc)) as [H _]. exact H. }
    cbn [unique_from]. replace (eq_src a x) with (c_src a =? c_src x)%Z by reflexivity.
    destruct (Z.eqb_spec (c_src a) (c_src x)) as [E|NE].
    + destruct (IH a Har) as (A & B & C & D & F). cbv zeta in *.
      split; [exact A|]. split; [exact B|]. split; [|split; [|exact Hmin]].
      * intros y Hy. destruct (C y Hy) as [Hin Hm]. split; [right; exact Hin|].
        intros c [<-|[<-|Hc]] Ec.
        -- apply Hm; [left; reflexivity | exact Ec].
        -- exfalso. rewrite Forall_forall in A. specialize (A y Hy). unfold src_lt in A. lia.
        -- apply Hm; [right; exact Hc | exact Ec].
      * intros c [<-|Hc]; [left; symmetry; exact E | apply D; exact Hc].
    + assert (Hlt : (c_src a < c_src x)%Z) by (specialize (Hge x (or_introl eq_refl)); lia).
      destruct (IH x Hxr) as (A & B & C & D & F). cbv zeta in *.
      split; [|split; [|split; [|split; [|exact Hmin]]]].
      * constructor; [exact Hlt|]. eapply Forall_impl; [|exact A]. unfold src_lt. intros; lia.
      * constructor; assumption.
      * intros y [<-|Hy].
        -- split; [left; reflexivity|]. intros c [<-|[<-|Hc]] Ec; [lia | lra | apply F; assumption].
        -- destruct (C y Hy) as [Hin Hm]. split; [right; exact Hin|].
           intros c [<-|Hc] Ec; [|apply Hm; assumption].
           exfalso. rewrite Forall_forall in A. specialize (A y Hy). unfold src_lt in A. lia.
      * intros c [<-|Hc]; [right; exists x; split; [left; reflexivity | reflexivity]|].
        destruct (D c Hc) as [Ec|(y & Hy & Ey)].
        -- right. exists x. split; [left; reflexivity | symmetry; exact Ec].
        -- right. exists y. split; [right; exact Hy | exact Ey].
Qed.

Lemma src_lt_sorted_nodup u : StronglySorted src_lt u -> NoDup (map c_src u).
Proof.
  induction 1 as [|a r Hs IH Hf]; cbn [map]; constructor; [|exact IH].
  intros Hin. apply in_map_iff in Hin. destruct Hin as (y & Ey & Hy).
  rewrite Forall_forall in Hf. specialize (Hf y Hy). unfold src_lt in Hf. lia.
Qed.

Lemma one_to_one_lemma (l l' : list corrR) :
  Permutation l l' -> sorted_by_src_dist l' ->
  let u := unique_by (eq_src (T:=R)) l' in
  NoDup (map c_src u) /\
  (forall c, In c l -> exists y, In y u /\ c_src y = c_src c) /\
  (forall y, In y u -> In y l /\ forall c, In c l -> c_src c = c_src y -> c_sq y <= c_sq c).
Proof.
  intros Hp Hs. destruct l' as [|a r]; cbv zeta; cbn [unique_by].
  - split; [constructor|]. split; [|intros y []].
    intros c Hc. exfalso. eapply Permutation_in in Hc; [|exact Hp]. exact Hc.
  - destruct (unique_sorted_spec r a Hs) as (A & B & C & D & F). cbv zeta in *.
    split; [|split].
    + apply src_lt_sorted_nodup. constructor; assumption.
    + intros c Hc. eapply Permutation_in in Hc; [|exact Hp]. destruct Hc as [<-|Hc].
      * exists a. split; [left; reflexivity | reflexivity].
      * destruct (D c Hc) as [E|(y & Hy & E)].
        -- exists a. split; [left; reflexivity | symmetry; exact E].
        -- exists y. split; [right; exact Hy | exact E].
    + assert (Hback : forall c, In c (a :: r) -> In c l) by (intros c Hc; eapply Permutation_in; [apply Permutation_sym; exact Hp | exact Hc]).
      intros y [<-|Hy].
      * split; [apply Hback; left; reflexivity|]. intros c Hc Ec.
        eapply Permutation_in in Hc; [|exact Hp]. destruct Hc as [<-|Hc]; [lra | apply F; assumption].
      * destruct (C y Hy) as [Hin Hm]. split; [apply Hback; right; exact Hin|].
        intros c Hc Ec. eapply Permutation_in in Hc; [|exact Hp]. apply Hm; assumption.
Qed.

(* ================================================================================================
   the ICP loop *)
Notation outcomeR := (icp_outcome R).

(* previousEstimatedTransformation after the outcomes [done] (none of which broke the loop) *)
Definition last_ok (id : list R) (done : list outcomeR) : list R :=
  fold_left (fun m o => if io_ok o then io_M o else m) done id.

(* the break test of iteration o, the outcomes [pre] having been processed before it *)
Definition breaks (eps : R) (id : list R) (pre : list outcomeR) (o : outcomeR) : Prop :=
  io_ok o = true /\ mat_absdiff ROps (io_M o) (last_ok id pre) < eps.

Lemma last_ok_snoc id done o : last_ok id (done ++ [o]) = if io_ok o then io_M o else last_ok id done.
Proof. unfold last_ok. rewrite fold_left_app. reflexivity. Qed.

Lemma icp_step_spec eps n st o :
  let d := mat_absdiff ROps (io_M o) (is_prev st) in
  (d < eps -> snd (icp_step ROps eps n st o) = true) /\
  (eps <= d -> snd (icp_step ROps eps n st o) = false /\ is_prev (fst (icp_step ROps eps n st o)) = io_M o).
Proof.
  cbv zeta. unfold icp_step. cbn [nltb ROps].
  destruct (Rltb (mat_absdiff ROps (io_M o) (is_prev st)) eps) eqn:E.
  - apply Rltb_true in E. split; [reflexivity | lra].
  - apply Rltb_false in E. split; [lra | split; reflexivity].
Qed.

Lemma icp_loop_spec eps id fuel : forall n st os r done,
  icp_loop ROps eps fuel n st os = Some r ->
  is_prev st = last_ok id done ->
  (ir_found r = true ->
     exists pre o post, os = pre ++ o :: post /\ (length pre < fuel)%nat /\ ir_n r = (n + Z.of_nat (length pre))%Z /\
       breaks eps id (done ++ pre) o /\
       forall pre1 o1 post1, pre = pre1 ++ o1 :: post1 -> ~ breaks eps id (done ++ pre1) o1) /\
  (ir_found r = false ->
     ir_n r = (n + Z.of_nat fuel)%Z /\
     forall pre o post, os = pre ++ o :: post -> (length pre < fuel)%nat -> ~ breaks eps id (done ++ pre) o).
Proof.
  induction fuel as [|f IH]; intros n st os r done H Hprev; cbn [icp_loop] in H.
  - inversion H; subst; clear H. cbn. split; [discriminate|]. intros _. split; [lia|]. intros; lia.
  - destruct os as [|o rest]; [discriminate|].
    assert (Hcons : forall (tl pre : list outcomeR) o' post, o :: tl = pre ++ o' :: post ->
              (pre = [] /\ o' = o /\ post = tl) \/ exists pre', pre = o :: pre' /\ tl = pre' ++ o' :: post).
    { intros tl pre o' post E. destruct pre as [|p pre']; cbn in E; inversion E; subst; [left; auto | right; eexists; eauto]. }
    assert (Hlift : forall st', icp_loop ROps eps f (n + 1) st' rest = Some r ->
              is_prev st' = last_ok id (done ++ [o]) -> ~ breaks eps id done o ->
              (ir_found r = true ->
                 exists pre o0 post, o :: rest = pre ++ o0 :: post /\ (length pre < S f)%nat /\
                   ir_n r = (n + Z.of_nat (length pre))%Z /\ breaks eps id (done ++ pre) o0 /\
                   forall pre1 o1 post1, pre = pre1 ++ o1 :: post1 -> ~ breaks eps id (done ++ pre1) o1) /\
              (ir_found r = false ->
                 ir_n r = (n + Z.of_nat (S f))%Z /\
                 forall pre o0 post, o :: rest = pre ++ o0 :: post -> (length pre < S f)%nat -> ~ breaks eps id (done ++ pre) o0)).
    { intros st' H' Hprev' Hnb. destruct (IH _ _ _ _ _ H' Hprev') as [Ht Hf]. split.
      - intros Hfound. destruct (Ht Hfound) as (pre & o' & post & Eos & Hl & Hn & Hbr & Hearlier).
        exists (o :: pre), o', post.
        split; [rewrite Eos; reflexivity|]. split; [cbn [length]; lia|]. split; [cbn [length]; lia|].
        split; [rewrite (app_cons_assoc done o pre); exact Hbr|].
        intros pre1 o1 post1 E. destruct (Hcons pre pre1 o1 post1 E) as [(-> & -> & _)|(pre' & -> & E')].
        + rewrite app_nil_r. exact Hnb.
        + rewrite (app_cons_assoc done o pre'). eapply Hearlier. exact E'.
      - intros Hnf. destruct (Hf Hnf) as [Hn Hall]. split; [lia|].
        intros pre o' post E Hl. destruct (Hcons rest pre o' post E) as [(-> & -> & _)|(pre' & -> & E')].
        + rewrite app_nil_r. exact Hnb.
        + rewrite (app_cons_assoc done o pre'). eapply Hall; [exact E' | cbn [length] in Hl; lia]. }
    destruct (io_ok o) eqn:Hok.
    + pose proof (icp_step_spec eps n st o) as Hstep. cbv zeta in Hstep.
      destruct (icp_step ROps eps n st o) as [st' brk] eqn:Est. cbn [fst snd] in Hstep.
      destruct (Rlt_dec (mat_absdiff ROps (io_M o) (is_prev st)) eps) as [Hd|Hd].
      * destruct Hstep as [Hb _]. rewrite (Hb Hd) in H. inversion H; subst; clear H. cbn [ir_found ir_n].
        split; [|discriminate]. intros _. exists [], o, rest. cbn [length]. rewrite app_nil_r.
        split; [reflexivity|]. split; [lia|]. split; [lia|].
        split; [split; [exact Hok | rewrite <- Hprev; exact Hd]|].
        intros pre1 o1 post1 E. destruct pre1; discriminate.
      * destruct Hstep as [_ Hb]. destruct (Hb ltac:(lra)) as [Hb1 Hb2]. rewrite Hb1 in H.
        apply (Hlift st' H).
        -- rewrite last_ok_snoc, Hok. exact Hb2.
        -- unfold breaks. rewrite <- Hprev. intros [_ X]. lra.
    + apply (Hlift st H).
      * rewrite last_ok_snoc, Hok. exact Hprev.
      * unfold breaks. intros [X _]. congruence.
Qed.

Lemma icp_run_spec eps maxit id os r :
  (0 <= maxit)%Z -> icp_run ROps eps maxit id os = Some r ->
  (ir_found r = true <->
     exists pre o post, os = pre ++ o :: post /\ (Z.of_nat (length pre) < maxit)%Z /\ breaks eps id pre o) /\
  (ir_found r = true ->
     exists pre o post, os = pre ++ o :: post /\ ir_n r = Z.of_nat (length pre) /\ (ir_n r < maxit)%Z /\
       breaks eps id pre o /\ forall pre1 o1 post1, pre = pre1 ++ o1 :: post1 -> ~ breaks eps id pre1 o1) /\
  (ir_found r = false -> ir_n r = maxit).
Proof.
  intros Hm H. unfold icp_run in H.
  destruct (icp_loop_spec eps id _ _ _ _ _ [] H eq_refl) as [Ht Hf]. cbn [app] in Ht, Hf.
  split; [split|split].
  - intros Hfound. destruct (Ht Hfound) as (pre & o & post & E & Hl & _ & Hb & _).
    exists pre, o, post. split; [exact E|]. split; [lia | exact Hb].
  - intros (pre & o & post & E & Hl & Hb). destruct (ir_found r) eqn:F; [reflexivity|exfalso].
    destruct (Hf eq_refl) as [_ Hall]. apply (Hall pre o post E); [lia | exact Hb].
  - intros Hfound. destruct (Ht Hfound) as (pre & o & post & E & Hl & Hn & Hb & He).
    exists pre, o, post. split; [exact E|]. split; [lia|]. split; [lia|]. split; [exact Hb | exact He].
  - intros Hnf. destruct (Hf Hnf) as [Hn _]. lia.
Qed.

(* ---- best estimate: minimal rmse among the successful iterations that ran ---- *)
Definition best_ok (st : icp_state R) (done : list outcomeR) : Prop :=
  (forall o, In o done -> io_ok o = true -> is_best_rmse st <= io_rmse o) /\
  match is_best st with
  | None => is_best_rmse st = nmaxval ROps
  | Some k => exists o, nth_error done (Z.to_nat k) = Some o /\ io_ok o = true /\ io_rmse o = is_best_rmse st
  end.

Lemma icp_step_best eps st o done :
  best_ok st done -> io_ok o = true ->
  best_ok (fst (icp_step ROps eps (Z.of_nat (length done)) st o)) (done ++ [o]).
Proof.
  intros [Hmin Hb] Hok. unfold icp_step. cbn [nltb ROps].
  destruct (Rltb (io_rmse o) (is_best_rmse st)) eqn:E.
  - apply Rltb_true in E.
    assert (G : best_ok (mkIcpState (Some (Z.of_nat (length done))) (io_rmse o) (is_prev st)) (done ++ [o])).
    { split; cbn [is_best is_best_rmse].
      - intros o' Hin Hok'. apply in_app_or in Hin. destruct Hin as [Hin|[<-|[]]]; [|lra].
        specialize (Hmin o' Hin Hok'). lra.
      - exists o. rewrite Nat2Z.id, nth_error_app2, Nat.sub_diag by lia. auto. }
    destruct (Rltb _ eps); cbn [fst]; [exact G|]. destruct G as [G1 G2]. split; assumption.
  - apply Rltb_false in E.
    assert (G : best_ok st (done ++ [o])).
    { split.
      - intros o' Hin Hok'. apply in_app_or in Hin. destruct Hin as [Hin|[<-|[]]]; [auto | exact E].
      - destruct (is_best st) as [k|]; [|exact Hb]. destruct Hb as (o' & Hn & Ho & Er).
        exists o'. split; [|auto]. rewrite nth_error_app1; [exact Hn|]. apply nth_error_Some. congruence. }
    destruct (Rltb _ eps); cbn [fst]; [exact G|]. destruct G as [G1 G2]. split; assumption.
Qed.

Lemma best_ok_skip st done o : best_ok st done -> io_ok o = false -> best_ok st (done ++ [o]).
Proof.
  intros [Hmin Hb] Hno. split.
  - intros o' Hin Hok'. apply in_app_or in Hin. destruct Hin as [Hin|[<-|[]]]; [auto | congruence].
  - destruct (is_best st) as [k|]; [|exact Hb]. destruct Hb as (o' & Hn & Ho & Er).
    exists o'. split; [|auto]. rewrite nth_error_app1; [exact Hn|]. apply nth_error_Some. congruence.
Qed.

Lemma icp_loop_best eps fuel : forall st os r done,
  icp_loop ROps eps fuel (Z.of_nat (length done)) st os = Some r -> best_ok st done ->
  exists ran rest, os = ran ++ rest /\ best_ok (ir_state r) (done ++ ran) /\
    Z.of_nat (length (done ++ ran)) = (if ir_found r then ir_n r + 1 else ir_n r)%Z.
Proof.
  induction fuel as [|f IH]; intros st os r done H Hb; cbn [icp_loop] in H.
  - inversion H; subst; clear H. exists [], os. cbn [ir_state ir_found ir_n]. rewrite app_nil_r. auto.
  - destruct os as [|o rest]; [discriminate|]. destruct (io_ok o) eqn:Hok.
    + pose proof (icp_step_best eps st o done Hb Hok) as Hb'.
      destruct (icp_step ROps eps (Z.of_nat (length done)) st o) as [st' brk]. cbn [fst] in Hb'. destruct brk.
      * inversion H; subst; clear H. exists [o], rest. cbn [ir_state ir_found ir_n].
        split; [reflexivity|]. split; [exact Hb'|]. rewrite app_length. cbn [length]. lia.
      * replace (Z.of_nat (length done) + 1)%Z with (Z.of_nat (length (done ++ [o]))) in H
          by (rewrite app_length; cbn [length]; lia).
        destruct (IH _ _ _ _ H Hb') as (ran & rest' & -> & Hb'' & Hl).
        exists (o :: ran), rest'. rewrite app_cons_assoc. auto.
    + replace (Z.of_nat (length done) + 1)%Z with (Z.of_nat (length (done ++ [o]))) in H
        by (rewrite app_length; cbn [length]; lia).
      destruct (IH _ _ _ _ H (best_ok_skip st done o Hb Hok)) as (ran & rest' & -> & Hb'' & Hl).
      exists (o :: ran), rest'. rewrite app_cons_assoc. auto.
Qed.

Lemma icp_best_lemma eps maxit id os r :
  icp_run ROps eps maxit id os = Some r ->
  exists ran rest, os = ran ++ rest /\
    Z.of_nat (length ran) = (if ir_found r then ir_n r + 1 else ir_n r)%Z /\
    (forall o, In o ran -> io_ok o = true -> is_best_rmse (ir_state r) <= io_rmse o) /\
    match is_best (ir_state r) with
    | None => is_best_rmse (ir_state r) = nmaxval ROps
    | Some k => exists o, nth_error ran (Z.to_nat k) = Some o /\ io_ok o = true /\ io_rmse o = is_best_rmse (ir_state r)
    end.
Proof.
  intros H. unfold icp_run in H.
  destruct (icp_loop_best eps _ (icp_init ROps id) os r [] H) as (ran & rest & E & [Hb1 Hb2] & Hl).
  { split; [intros o []|reflexivity]. }
  exists ran, rest. cbn [app] in *. auto.
Qed.

(* ================================================================================================
   the model's own sort (stable insertion sort) returns such an arrangement, so the filter theorem applies to
   [one_to_one] as it is executed in the correspondence run *)
Definition le_sd (a b : corrR) : Prop := src_dist_lt ROps b a = false.

Lemma le_sd_iff a b : le_sd a b <-> (c_src a < c_src b)%Z \/ (c_src a = c_src b /\ c_sq a <= c_sq b).
Proof.
  unfold le_sd, src_dist_lt. cbn [nltb ROps]. rewrite orb_false_iff, andb_false_iff, Z.ltb_ge, Z.eqb_neq.
  split.
  - intros [H1 [H2|H2]]; [left; lia|]. apply Rltb_false in H2.
    destruct (Z.eq_dec (c_src a) (c_src b)); [right; split; assumption | left; lia].
  - intros [H|[H1 H2]]; [split; [lia | left; lia] | split; [lia | right; apply Rltb_false; exact H2]].
Qed.

Lemma le_sd_trans a b c : le_sd a b -> le_sd b c -> le_sd a c.
Proof. rewrite !le_sd_iff. intros [H1|[H1 H1']] [H2|[H2 H2']]; [left; lia | left; lia | left; lia | right; split; [lia | lra]]. Qed.

Lemma lt_sd_le a b : src_dist_lt ROps a b = true -> le_sd a b.
Proof.
  intros H. apply le_sd_iff. unfold src_dist_lt in H. cbn [nltb ROps] in H.
  apply orb_true_iff in H. destruct H as [H|H]; [left; apply Z.ltb_lt; exact H|].
  apply andb_true_iff in H. destruct H as [H1 H2]. apply Z.eqb_eq in H1. apply Rltb_true in H2. right. split; [exact H1 | lra].
Qed.

Lemma insert_by_perm (x : corrR) l : Permutation (x :: l) (insert_by (src_dist_lt ROps) x l).
Proof.
  induction l as [|y r IH]; cbn [insert_by]; [apply Permutation_refl|].
  destruct (src_dist_lt ROps x y); [apply Permutation_refl|].
  eapply Permutation_trans; [apply perm_swap | apply perm_skip; exact IH].
Qed.

Lemma insert_by_sorted (x : corrR) l : StronglySorted le_sd l -> StronglySorted le_sd (insert_by (src_dist_lt ROps) x l).
Proof.
  induction l as [|y r IH]; intros Hs; cbn [insert_by]; [repeat constructor|].
  inversion Hs as [|y' r' Hr Hy]; subst.
  destruct (src_dist_lt ROps x y) eqn:E.
  - constructor; [exact Hs|]. constructor; [apply lt_sd_le; exact E|].
    eapply Forall_impl; [|exact Hy]. intros z Hz. eapply le_sd_trans; [apply lt_sd_le; exact E | exact Hz].
  - constructor; [apply IH; exact Hr|].
    apply Forall_forall. intros z Hz.
    eapply Permutation_in in Hz; [|apply Permutation_sym; apply insert_by_perm].
    destruct Hz as [<-|Hz]; [exact E | rewrite Forall_forall in Hy; apply Hy; exact Hz].
Qed.

Lemma sort_by_spec_acc l : forall acc, StronglySorted le_sd acc ->
  let s := fold_left (fun a x => insert_by (src_dist_lt ROps) x a) l acc in
  Permutation (l ++ acc) s /\ StronglySorted le_sd s.
Proof.
  induction l as [|x r IH]; intros acc Ha; cbv zeta; cbn [fold_left app]; [split; [apply Permutation_refl | exact Ha]|].
  destruct (IH (insert_by (src_dist_lt ROps) x acc) (insert_by_sorted x acc Ha)) as [P S]. cbv zeta in P, S.
  split; [|exact S]. eapply Permutation_trans; [|exact P].
  eapply Permutation_trans; [apply Permutation_middle|]. apply Permutation_app_head. apply insert_by_perm.
Qed.

Lemma sort_by_spec (l : list corrR) :
  Permutation l (sort_by (src_dist_lt ROps) l) /\ sorted_by_src_dist (sort_by (src_dist_lt ROps) l).
Proof.
  destruct (sort_by_spec_acc l [] ltac:(constructor)) as [P S]. cbv zeta in P, S. rewrite app_nil_r in P.
  split; [exact P | exact S].
Qed.
