(* RayCastProofs.v — C14 lemmas: the walk performed by cast() over exact (real) arithmetic. *)
From Coq Require Import Reals ZArith List Bool Arith Lia Lra.
From Romea Require Import Num NumR GridMapModel RayCastModel.
Import ListNotations.

(* ------------------------------------------------------------------ list update toolkit *)
Lemma upd_length {A} (l : list A) i f : length (upd l i f) = length l.
Proof. revert i. induction l as [|x l IH]; intros [|i]; cbn; auto. Qed.

Lemma nth_upd_same {A} (l : list A) i f d : i < length l -> nth i (upd l i f) d = f (nth i l d).
Proof. revert i. induction l as [|x l IH]; intros [|i] H; cbn in *; try lia; auto. apply IH. lia. Qed.

Lemma nth_upd_other {A} (l : list A) i j f d : i <> j -> nth j (upd l i f) d = nth j l d.
Proof. revert i j. induction l as [|x l IH]; intros [|i] [|j] H; cbn; try reflexivity; try lia. apply IH. lia. Qed.

(* ------------------------------------------------------------------ the choice never lands on a finished axis *)
Definition M : R := nmaxval ROps.

Lemma pick_not_exhausted d cell e tmax : (d = 2 \/ d = 3) ->
  length cell = d -> length e = d -> length tmax = d ->
  (forall i, i < d -> nth i cell 0%Z <> nth i e 0%Z -> (nth i tmax 0%R < M)%R) ->
  (exists j, j < d /\ nth j cell 0%Z <> nth j e 0%Z) ->
  let i := pick ROps (eff_tmax ROps cell e tmax) in
  i < d /\ nth i cell 0%Z <> nth i e 0%Z.
Proof.
  intros Hd Lc Le Lt Hfin [j [Hj Hne]]. fold M in *.
  destruct Hd as [-> | ->].
  - destruct cell as [|c0 [|c1 [|]]]; try discriminate. destruct e as [|e0 [|e1 [|]]]; try discriminate.
    destruct tmax as [|t0 [|t1 [|]]]; try discriminate.
    pose proof (Hfin 0 ltac:(lia)) as F0. pose proof (Hfin 1 ltac:(lia)) as F1. cbn [nth] in F0, F1.
    cbv zeta. unfold eff_tmax, pick. cbn [combine map nltb ROps]. fold M.
    destruct (Z.eqb_spec c0 e0) as [E0|E0]; destruct (Z.eqb_spec c1 e1) as [E1|E1].
    + exfalso. destruct j as [|[|j]]; cbn in Hne; try lia; congruence.
    + specialize (F1 E1). replace (Rltb M t1) with false by (symmetry; apply Rltb_false; lra).
      cbn [nth]. split; [lia|exact E1].
    + specialize (F0 E0). replace (Rltb t0 M) with true by (symmetry; apply Rltb_true; lra).
      cbn [nth]. split; [lia|exact E0].
    + destruct (Rltb t0 t1); cbn [nth]; (split; [lia|assumption]).
  - destruct cell as [|c0 [|c1 [|c2 [|]]]]; try discriminate. destruct e as [|e0 [|e1 [|e2 [|]]]]; try discriminate.
    destruct tmax as [|t0 [|t1 [|t2 [|]]]]; try discriminate.
    pose proof (Hfin 0 ltac:(lia)) as F0. pose proof (Hfin 1 ltac:(lia)) as F1. pose proof (Hfin 2 ltac:(lia)) as F2.
    cbn [nth] in F0, F1, F2.
    cbv zeta. unfold eff_tmax, pick. cbn [combine map nltb ROps]. fold M.
    destruct (Z.eqb_spec c0 e0) as [E0|E0]; destruct (Z.eqb_spec c1 e1) as [E1|E1]; destruct (Z.eqb_spec c2 e2) as [E2|E2];
      try specialize (F0 E0); try specialize (F1 E1); try specialize (F2 E2).
    + exfalso. destruct j as [|[|[|j]]]; cbn in Hne; try lia; congruence.
    + replace (Rltb M M) with false by (symmetry; apply Rltb_false; lra).
      replace (Rltb M t2) with false by (symmetry; apply Rltb_false; lra). cbn [nth]. split; [lia|exact E2].
    + replace (Rltb M t1) with false by (symmetry; apply Rltb_false; lra).
      replace (Rltb t1 M) with true by (symmetry; apply Rltb_true; lra). cbn [nth]. split; [lia|exact E1].
    + replace (Rltb M t1) with false by (symmetry; apply Rltb_false; lra).
      destruct (Rltb t1 t2); cbn [nth]; (split; [lia|assumption]).
    + replace (Rltb t0 M) with true by (symmetry; apply Rltb_true; lra). cbn [nth]. split; [lia|exact E0].
    + replace (Rltb t0 M) with true by (symmetry; apply Rltb_true; lra).
      destruct (Rltb t0 t2); cbn [nth]; (split; [lia|assumption]).
    + destruct (Rltb t0 t1) eqn:C.
      * replace (Rltb t0 M) with true by (symmetry; apply Rltb_true; lra). cbn [nth]. split; [lia|exact E0].
      * replace (Rltb t1 M) with true by (symmetry; apply Rltb_true; lra). cbn [nth]. split; [lia|exact E1].
    + destruct (Rltb t0 t1); [destruct (Rltb t0 t2)|destruct (Rltb t1 t2)]; cbn [nth]; (split; [lia|assumption]).
Qed.

(* ------------------------------------------------------------------ the walk *)
Fixpoint sumf (n : nat) (f : nat -> Z) : Z := match n with O => 0%Z | S k => (sumf k f + f k)%Z end.


Lemma sumf_ext n f g : (forall i, i < n -> f i = g i) -> sumf n f = sumf n g.
Proof. induction n as [|n IH]; intros H; cbn; [reflexivity|]. rewrite IH by (intros; apply H; lia). rewrite H by lia. reflexivity. Qed.

Lemma sumf_change n f g k : k < n -> (forall i, i < n -> i <> k -> f i = g i) ->
  (sumf n g = sumf n f - f k + g k)%Z.
Proof.
  induction n as [|n IH]; intros Hk H; [lia|]. cbn. destruct (Nat.eq_dec k n) as [->|Hne].
  - rewrite (sumf_ext n f g) by (intros; apply H; lia). lia.
  - rewrite IH by (try lia; intros; apply H; lia). rewrite (H n) by lia. lia.
Qed.

Lemma sumf_nonneg n f : (forall i, i < n -> (0 <= f i)%Z) -> (0 <= sumf n f)%Z.
Proof. induction n as [|n IH]; intros H; cbn; [lia|]. specialize (H n ltac:(lia)) as Hn. assert (0 <= sumf n f)%Z by (apply IH; intros; apply H; lia). lia. Qed.

Lemma sumf_pos_ex n f : (forall i, i < n -> (0 <= f i)%Z) -> (0 < sumf n f)%Z -> exists j, j < n /\ (0 < f j)%Z.
Proof.
  induction n as [|n IH]; intros H Hp; cbn in Hp; [lia|].
  destruct (Z_lt_le_dec 0 (f n)) as [P|P]; [exists n; split; [lia|exact P]|].
  destruct IH as [j [Hj Hf]]; [intros; apply H; lia|specialize (H n ltac:(lia)); lia|]. exists j. split; [lia|exact Hf].
Qed.

Lemma sumf_zero_all n f : (forall i, i < n -> (0 <= f i)%Z) -> sumf n f = 0%Z -> forall i, i < n -> f i = 0%Z.
Proof.
  induction n as [|n IH]; intros H Hz i Hi; [lia|]. cbn in Hz.
  assert (0 <= sumf n f)%Z by (apply sumf_nonneg; intros; apply H; lia).
  pose proof (H n ltac:(lia)). destruct (Nat.eq_dec i n) as [->|]; [lia|]. apply IH; try lia. intros; apply H; lia.
Qed.


Section Walk.
Variable d : nat.
Hypothesis Hd : d = 2 \/ d = 3.
Variables (eidx step : list Z) (tdelta : list R) (B : R).
Hypothesis Le : length eidx = d.
Hypothesis Ls : length step = d.
Hypothesis Ld : length tdelta = d.
Hypothesis HB : (B < M)%R.
Hypothesis Hdelta : forall i, i < d -> (0 <= nth i tdelta 0)%R.

Definition remaining (cell : list Z) (i : nat) : Z := Z.abs (nth i eidx 0 - nth i cell 0)%Z.

Definition potential (cell : list Z) : Z := sumf d (remaining cell).

Definition winv (st : list Z * list R) : Prop :=
  let '(cell, tmax) := st in
  length cell = d /\ length tmax = d /\
  (forall i, i < d -> (nth i eidx 0 - nth i cell 0 = nth i step 0 * remaining cell i)%Z) /\
  (forall i, i < d -> (0 < remaining cell i)%Z -> (nth i tmax 0 + IZR (remaining cell i) * nth i tdelta 0 <= B)%R).

(* one next(): the invariant is kept, exactly one coordinate moves by its step (+-1), the potential drops by 1 *)
Lemma next_step st : winv st -> (0 < potential (fst st))%Z ->
  let st' := next ROps eidx step tdelta st in
  winv st' /\ potential (fst st') = (potential (fst st) - 1)%Z /\
  exists i, i < d /\ (nth i step 0 = 1 \/ nth i step 0 = -1)%Z /\
            nth i (fst st') 0%Z = (nth i (fst st) 0 + nth i step 0)%Z /\
            (forall j, j <> i -> nth j (fst st') 0%Z = nth j (fst st) 0%Z) /\
            (remaining (fst st') i = remaining (fst st) i - 1)%Z.
Proof.
  destruct st as [cell tmax]. intros (Lc & Lt & Hsign & Hfin) Hpot. cbn [fst] in *.
  assert (Hex : exists j, j < d /\ nth j cell 0%Z <> nth j eidx 0%Z).
  { destruct (sumf_pos_ex d (remaining cell)) as [j [Hj Hr]]; [intros; unfold remaining; lia|exact Hpot|].
    exists j. split; [exact Hj|]. unfold remaining in Hr. lia. }
  assert (HfinM : forall i, i < d -> nth i cell 0%Z <> nth i eidx 0%Z -> (nth i tmax 0 < M)%R).
  { intros i Hi Hne. assert (Hr : (0 < remaining cell i)%Z) by (unfold remaining; lia).
    specialize (Hfin i Hi Hr). specialize (Hdelta i Hi).
    assert (0 <= IZR (remaining cell i) * nth i tdelta 0)%R by (apply Rmult_le_pos; [apply IZR_le; lia|exact Hdelta]). lra. }
  destruct (pick_not_exhausted d cell eidx tmax Hd Lc Le Lt HfinM Hex) as [Hi Hne].
  cbv zeta. unfold next. set (i := pick ROps (eff_tmax ROps cell eidx tmax)) in *. cbn [fst].
  assert (Hr : (0 < remaining cell i)%Z) by (unfold remaining; lia).
  pose proof (Hsign i Hi) as Hs.
  assert (Hstep : (nth i step 0 = 1 \/ nth i step 0 = -1)%Z).
  { unfold remaining in Hs, Hr. nia. }
  assert (Hnew : nth i (upd cell i (fun v => (v + nth i step 0)%Z)) 0%Z = (nth i cell 0 + nth i step 0)%Z)
    by (rewrite nth_upd_same by lia; reflexivity).
  assert (Hoth : forall j, j <> i -> nth j (upd cell i (fun v => (v + nth i step 0)%Z)) 0%Z = nth j cell 0%Z)
    by (intros j Hj; rewrite nth_upd_other by lia; reflexivity).
  assert (Hrem : (remaining (upd cell i (fun v => (v + nth i step 0)%Z)) i = remaining cell i - 1)%Z).
  { unfold remaining. rewrite Hnew. unfold remaining in Hs, Hr. nia. }
  assert (Hremo : forall j, j <> i -> remaining (upd cell i (fun v => (v + nth i step 0)%Z)) j = remaining cell j).
  { intros j Hj. unfold remaining. rewrite Hoth by exact Hj. reflexivity. }
  split; [|split].
  - unfold winv. rewrite !upd_length. split; [exact Lc|]. split; [exact Lt|]. split.
    + intros j Hj. destruct (Nat.eq_dec j i) as [->|Hji].
      * rewrite Hrem, Hnew. unfold remaining in *. nia.
      * rewrite Hremo, Hoth by exact Hji. apply Hsign. exact Hj.
    + intros j Hj Hrj. destruct (Nat.eq_dec j i) as [->|Hji].
      * rewrite Hrem in *. rewrite nth_upd_same by lia. cbn [nadd nzero ROps].
        specialize (Hfin i Hi Hr). rewrite minus_IZR. lra.
      * rewrite Hremo in * by exact Hji. rewrite nth_upd_other by lia. apply Hfin; assumption.
  - unfold potential. rewrite (sumf_change d (remaining cell) _ i Hi) by (intros j _ Hj; symmetry; apply Hremo; exact Hj).
    rewrite Hrem. lia.
  - exists i. repeat split; assumption.
Qed.

(* iterating: after [potential] steps the current cell is the end cell *)
Lemma walk_reaches_end : forall n st, winv st -> potential (fst st) = Z.of_nat n ->
  fst (iter_state ROps n eidx step tdelta st) = eidx /\ winv (iter_state ROps n eidx step tdelta st).
Proof.
  induction n as [|n IH]; intros st Hinv Hpot; cbn [iter_state].
  - split; [|exact Hinv]. destruct st as [cell tmax]. destruct Hinv as (Lc & _ & _ & _). cbn [fst] in *.
    apply nth_ext with (d := 0%Z) (d' := 0%Z); [lia|]. intros i Hi. rewrite Lc in Hi.
    pose proof (sumf_zero_all d (remaining cell) ltac:(intros; unfold remaining; lia) Hpot i Hi) as Z0.
    unfold remaining in Z0. lia.
  - destruct (next_step st Hinv ltac:(lia)) as (Hinv' & Hpot' & _). apply IH; [exact Hinv'|lia].
Qed.

(* the visited cells: each is obtained from the previous one by moving one coordinate by +-1 towards the end cell,
   so consecutive cells are face-adjacent and every cell stays in the index box spanned by the origin and end cells *)
Definition adjacent (a b : list Z) : Prop :=
  exists i, i < d /\ (nth i b 0 = nth i a 0 + 1 \/ nth i b 0 = nth i a 0 - 1)%Z /\ forall j, j <> i -> nth j b 0%Z = nth j a 0%Z.

Fixpoint chain (prev : list Z) (l : list (list Z)) : Prop :=
  match l with [] => True | c :: r => adjacent prev c /\ chain c r end.

Lemma walk_chain : forall n st, winv st -> potential (fst st) = Z.of_nat n ->
  length (iter_cast ROps n eidx step tdelta st) = n /\
  chain (fst st) (iter_cast ROps n eidx step tdelta st) /\
  Forall (fun c => forall i, i < d -> (remaining c i <= remaining (fst st) i)%Z /\
                                     (nth i eidx 0 - nth i c 0 = nth i step 0 * remaining c i)%Z)
         (iter_cast ROps n eidx step tdelta st).
Proof.
  induction n as [|n IH]; intros st Hinv Hpot; cbn [iter_cast]; [repeat split; constructor|].
  destruct (next_step st Hinv ltac:(lia)) as (Hinv' & Hpot' & i & Hi & Hs & Hnew & Hoth & Hrem).
  destruct (IH _ Hinv' ltac:(lia)) as (L & C & F).
  split; [cbn [length]; lia|]. split.
  - cbn [chain]. split; [|exact C]. exists i. split; [exact Hi|]. split; [rewrite Hnew; lia|exact Hoth].
  - assert (Hle : forall j, j < d -> (remaining (fst (next ROps eidx step tdelta st)) j <= remaining (fst st) j)%Z).
    { intros j Hj. destruct (Nat.eq_dec j i) as [->|Hji]; [lia|]. unfold remaining. rewrite Hoth by exact Hji. lia. }
    constructor.
    + intros j Hj. split; [apply Hle; exact Hj|].
      destruct (next ROps eidx step tdelta st) as [cell' tmax'] eqn:En. destruct Hinv' as (_ & _ & Hsg & _). apply Hsg. exact Hj.
    + eapply Forall_impl; [|exact F]. cbn. intros c Hc j Hj. destruct (Hc j Hj) as [H1 H2]. specialize (Hle j Hj). split; [lia|exact H2].
Qed.
End Walk.

Lemma last_default {A} (l : list A) x d d' : last (x :: l) d = last (x :: l) d'.
Proof. revert x. induction l as [|y l IH]; intros x; [reflexivity|]. cbn [last] in *. apply IH. Qed.

Lemma last_cons_default {A} (l : list A) x d : last (x :: l) d = last l x.
Proof. destruct l as [|a l]; [reflexivity|]. change (last (x :: a :: l) d) with (last (a :: l) d). apply last_default. Qed.

Lemma iter_cast_last {T} (N : NumOps T) : forall n eidx step tdelta st,
  last (iter_cast N n eidx step tdelta st) (fst st) = fst (iter_state N n eidx step tdelta st).
Proof.
  induction n as [|n IH]; intros eidx step tdelta st; cbn [iter_cast iter_state]; [reflexivity|].
  rewrite <- IH. destruct n; [reflexivity|]. cbn [iter_cast].
  set (a := fst (next N eidx step tdelta st)).
  change (last (a :: ?y :: ?r) ?dd) with (last (y :: r) dd). apply last_default.
Qed.

Lemma fold_abs_sumf d (e o : list Z) : (d = 2 \/ d = 3) -> length e = d -> length o = d ->
  fold_left (fun s '(x, y) => (s + Z.abs (x - y))%Z) (combine e o) 0%Z
  = sumf d (fun i => Z.abs (nth i e 0 - nth i o 0))%Z.
Proof.
  intros [-> | ->] Le Lo.
  - destruct e as [|e0 [|e1 [|]]]; try discriminate. destruct o as [|o0 [|o1 [|]]]; try discriminate. cbn. lia.
  - destruct e as [|e0 [|e1 [|e2 [|]]]]; try discriminate. destruct o as [|o0 [|o1 [|o2 [|]]]]; try discriminate. cbn. lia.
Qed.

(* ------------------------------------------------------------------ the cast as a whole *)
Theorem cast_walk (c : caster (T:=R)) d B : (d = 2 \/ d = 3) ->
  length (rc_oidx c) = d -> length (rc_eidx c) = d -> length (rc_tmax c) = d ->
  length (rc_step c) = d -> length (rc_tdelta c) = d ->
  (B < M)%R -> (forall i, i < d -> (0 <= nth i (rc_tdelta c) 0)%R) ->
  (* the step of an axis points from the origin index to the end index *)
  (forall i, i < d -> (nth i (rc_eidx c) 0 - nth i (rc_oidx c) 0 = nth i (rc_step c) 0 * Z.abs (nth i (rc_eidx c) 0 - nth i (rc_oidx c) 0))%Z) ->
  (* the crossing parameters needed by the walk stay below numeric_limits::max() *)
  (forall i, i < d -> (0 < Z.abs (nth i (rc_eidx c) 0 - nth i (rc_oidx c) 0))%Z ->
     (nth i (rc_tmax c) 0 + IZR (Z.abs (nth i (rc_eidx c) 0 - nth i (rc_oidx c) 0)%Z) * nth i (rc_tdelta c) 0 <= B)%R) ->
  let cells := cast_cells ROps c in
  let l1 := sumf d (fun i => Z.abs (nth i (rc_eidx c) 0 - nth i (rc_oidx c) 0)%Z) in
  Z.of_nat (length cells) = (l1 + 1)%Z /\
  hd [] cells = rc_oidx c /\
  last cells [] = rc_eidx c /\
  chain d (rc_oidx c) (tl cells) /\
  Forall (fun cl => forall i, i < d ->
            (Z.min (nth i (rc_oidx c) 0) (nth i (rc_eidx c) 0) <= nth i cl 0 <= Z.max (nth i (rc_oidx c) 0) (nth i (rc_eidx c) 0))%Z) cells.
Proof.
  intros Hd Lo Le Lt Ls Ld HB Hdel Hsign Hbound. cbv zeta.
  set (l1 := sumf d (fun i => Z.abs (nth i (rc_eidx c) 0 - nth i (rc_oidx c) 0)%Z)).
  assert (Hl1 : (0 <= l1)%Z) by (apply sumf_nonneg; intros; lia).
  assert (Hn : ncells c = (l1 + 1)%Z).
  { unfold ncells. rewrite (fold_abs_sumf d) by assumption. unfold l1. lia. }
  assert (Hinv : winv d (rc_eidx c) (rc_step c) (rc_tdelta c) B (rc_oidx c, rc_tmax c)).
  { unfold winv. split; [exact Lo|]. split; [exact Lt|]. split; [exact Hsign|exact Hbound]. }
  assert (Hpot : potential d (rc_eidx c) (rc_oidx c) = Z.of_nat (Z.to_nat (ncells c - 1))).
  { unfold potential, remaining. rewrite Hn. fold l1. lia. }
  destruct (walk_chain d Hd (rc_eidx c) (rc_step c) (rc_tdelta c) B Le Ls Ld HB Hdel _ (rc_oidx c, rc_tmax c) Hinv Hpot) as (L & C & F).
  destruct (walk_reaches_end d Hd (rc_eidx c) (rc_step c) (rc_tdelta c) B Le Ls Ld HB Hdel _ (rc_oidx c, rc_tmax c) Hinv Hpot) as (Hend & _).
  unfold cast_cells. cbn [hd tl length fst] in *.
  split; [rewrite L; rewrite Hn; lia|]. split; [reflexivity|]. split.
  - rewrite last_cons_default. etransitivity; [|exact Hend].
    exact (iter_cast_last ROps _ (rc_eidx c) (rc_step c) (rc_tdelta c) (rc_oidx c, rc_tmax c)).
  - split; [exact C|]. constructor.
    + intros i Hi. lia.
    + eapply Forall_impl; [|exact F]. cbn. intros cl Hc i Hi. destruct (Hc i Hi) as [H1 H2]. specialize (Hsign i Hi).
      unfold remaining in *. nia.
Qed.


(* ------------------------------------------------------------------ history independence *)
Lemma set_end_depends_only (c1 c2 : caster (T:=R)) e :
  rc_axes c1 = rc_axes c2 -> rc_origin c1 = rc_origin c2 -> rc_oidx c1 = rc_oidx c2 ->
  cast_cells ROps (set_end ROps c1 e) = cast_cells ROps (set_end ROps c2 e).
Proof.
  intros Ha Ho Hi. unfold cast_cells, ncells, set_end. cbn [rc_oidx rc_eidx rc_step rc_tdelta rc_tmax rc_axes rc_origin].
  rewrite Ha, Ho, Hi. reflexivity.
Qed.

Lemma cast_oe_depends_only (c1 c2 : caster (T:=R)) o e : rc_axes c1 = rc_axes c2 ->
  cast_cells ROps (set_end ROps (set_origin ROps c1 o) e) = cast_cells ROps (set_end ROps (set_origin ROps c2 o) e).
Proof.
  intros Ha. apply set_end_depends_only; unfold set_origin; cbn; rewrite ?Ha; reflexivity.
Qed.

(* the grid mapping is never modified by any operation *)
Lemma step_keeps_axes (c : caster (T:=R)) o : rc_axes (fst (rc_step_op ROps c o)) = rc_axes c.
Proof. destruct o; reflexivity. Qed.

(* ------------------------------------------------------------------ the premises of cast_walk, per axis, for the state set_end builds *)
From Flocq Require Import Core.Raux.
Local Open Scope R_scope.

Lemma gm_index_mono r org p q : 0 < r -> p <= q -> (gm_index ROps r org p <= gm_index ROps r org q)%Z.
Proof.
  intros Hr Hpq. unfold gm_index. cbn [ntruncZ ndiv nsub ROps]. apply Ztrunc_le.
  apply Rmult_le_compat_r; [left; apply Rinv_0_lt_compat; exact Hr|lra].
Qed.

(* the step chosen from the sign of the direction points from the origin index to the end index *)
Lemma axis_step_consistent (a : axis (T:=R)) o e range oi :
  0 < ax_r a -> 0 < range ->
  let step := fst (fst (axis_setup ROps a o oi ((e - o) / range))) in
  let ei := gm_index ROps (ax_r a) (ax_org a) e in
  let oi' := gm_index ROps (ax_r a) (ax_org a) o in
  (ei - oi' = step * Z.abs (ei - oi'))%Z.
Proof.
  intros Hr Hrange. cbv zeta. unfold axis_setup. cbn [nltb nzero ROps].
  assert (Hinv : 0 < / range) by (apply Rinv_0_lt_compat; exact Hrange).
  destruct (Rltb 0 ((e - o) / range)) eqn:E1.
  - apply Rltb_true in E1. cbn [Z.eqb fst]. assert (o <= e) by (unfold Rdiv in E1; nra).
    pose proof (gm_index_mono (ax_r a) (ax_org a) o e Hr H). lia.
  - apply Rltb_false in E1. destruct (Rltb ((e - o) / range) 0) eqn:E2.
    + apply Rltb_true in E2. cbn [Z.eqb fst]. assert (e <= o) by (unfold Rdiv in E2; nra).
      pose proof (gm_index_mono (ax_r a) (ax_org a) e o Hr H). lia.
    + apply Rltb_false in E2. cbn [Z.eqb fst]. assert (e = o) by (unfold Rdiv in *; nra). subst e. lia.
Qed.

(* the increment of the crossing parameter is non-negative *)
Lemma axis_tdelta_nonneg (a : axis (T:=R)) o oi dir : 0 < ax_r a -> 0 < M ->
  0 <= snd (axis_setup ROps a o oi dir).
Proof.
  intros Hr HM. unfold axis_setup. cbn [nltb nzero ROps].
  destruct (Rltb 0 dir) eqn:E1; [apply Rltb_true in E1|apply Rltb_false in E1; destruct (Rltb dir 0) eqn:E2;
     [apply Rltb_true in E2|apply Rltb_false in E2]]; cbn [Z.eqb snd ndiv nabs ROps]; fold M; try lra.
  - apply Rmult_le_pos; [lra|]. left. apply Rinv_0_lt_compat. apply Rabs_pos_lt. lra.
  - apply Rmult_le_pos; [lra|]. left. apply Rinv_0_lt_compat. apply Rabs_pos_lt. lra.
Qed.

Lemma M_big : 100 < M.
Proof.
  unfold M. cbn [nmaxval ROps].
  assert (A : 1024 <= powerRZ 2 1023).
  { change (powerRZ 2 1023) with (2 ^ Pos.to_nat 1023). replace 1024 with (2 ^ 10) by (cbn; lra).
    apply Rle_pow; [lra|]. apply Nat.leb_le. vm_compute. reflexivity. }
  assert (Bd : 0 < powerRZ 2 (-52) <= 1).
  { change (powerRZ 2 (-52)) with (/ 2 ^ Pos.to_nat 52).
    assert (1 <= 2 ^ Pos.to_nat 52) by (replace 1 with (2 ^ 0) by reflexivity; apply Rle_pow; [lra|lia]).
    split; [apply Rinv_0_lt_compat; lra|]. rewrite <- Rinv_1. apply Rinv_le_contravar; lra. }
  nra.
Qed.
