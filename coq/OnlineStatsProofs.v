(* OnlineStatsProofs.v — lemmas about OnlineStatsModel.v (C16). *)
From Coq Require Import ZArith List Bool Arith Lia Reals Lra.
From Romea Require Import Num NumR OnlineStatsModel.
Import ListNotations.

(* ------------------------------------------------------------------ list toolkit *)
Definition lastn {A} (n : nat) (l : list A) : list A := skipn (length l - n) l.

Lemma lastn_length {A} n (l : list A) : length (lastn n l) = Nat.min n (length l).
Proof. unfold lastn. rewrite skipn_length. lia. Qed.

Lemma lastn_all {A} n (l : list A) : length l <= n -> lastn n l = l.
Proof. intros H. unfold lastn. replace (length l - n) with 0 by lia. reflexivity. Qed.

Lemma skipn_app_le {A} n (l1 l2 : list A) : n <= length l1 -> skipn n (l1 ++ l2) = skipn n l1 ++ l2.
Proof. intros H. rewrite skipn_app. replace (n - length l1) with 0 by lia. reflexivity. Qed.

Lemma skipn_S_tl {A} n (l : list A) : skipn (S n) l = tl (skipn n l).
Proof.
  revert l. induction n as [|n IH]; intros l.
  - destruct l as [|a [|b l]]; reflexivity.
  - destruct l as [|a l]; [reflexivity|].
    change (skipn (S (S n)) (a :: l)) with (skipn (S n) l).
    change (skipn (S n) (a :: l)) with (skipn n l). apply IH.
Qed.

(* appending one item to a history: the last-n window slides *)
Lemma lastn_snoc {A} n (l : list A) x : 0 < n ->
  lastn n (l ++ [x]) = if Nat.ltb (length l) n then l ++ [x] else tl (lastn n l) ++ [x].
Proof.
  intros Hn. unfold lastn. rewrite app_length. cbn [length].
  destruct (Nat.ltb_spec (length l) n) as [H|H].
  - replace (length l + 1 - n) with 0 by lia. reflexivity.
  - replace (length l + 1 - n) with (S (length l - n)) by lia.
    rewrite skipn_app_le by lia. rewrite skipn_S_tl.
    assert (L : 0 < length (skipn (length l - n) l)) by (rewrite skipn_length; lia).
    destruct (skipn (length l - n) l) as [|a r]; [cbn in L; lia|reflexivity].
Qed.

Lemma replace_nth_length {A} p (x : A) l : length (replace_nth p x l) = length l.
Proof. revert p. induction l as [|a l IH]; intros [|p]; cbn; auto. Qed.

Lemma replace_nth_split {A} p (x : A) l : p < length l ->
  replace_nth p x l = firstn p l ++ x :: skipn (S p) l.
Proof.
  revert p. induction l as [|a l IH]; intros [|p] H; cbn in *; try lia; [reflexivity|].
  f_equal. apply IH. lia.
Qed.

Lemma nth_split_list {A} p (l : list A) d : p < length l ->
  l = firstn p l ++ nth p l d :: skipn (S p) l.
Proof.
  revert p. induction l as [|a l IH]; intros [|p] H; cbn in *; try lia; [reflexivity|].
  f_equal. apply IH. lia.
Qed.

(* ------------------------------------------------------------------ the generic ring *)
Section RingFacts.
Context {A : Type}.
Variable cap : nat.
Hypothesis cap_pos : 0 < cap.

(* p is the next write position *)
Definition ring_inv (data : list A) (p : nat) : Prop :=
  length data <= cap /\ (length data < cap -> p = length data) /\ (length data = cap -> p < cap).

Definition slide (l : list A) (x : A) : list A :=
  if Nat.ltb (length l) cap then l ++ [x] else tl l ++ [x].

Lemma ring_logical_length data p : ring_inv data p -> length (ring_logical cap data p) = length data.
Proof.
  intros [H1 [H2 H3]]. unfold ring_logical. destruct (Nat.eqb_spec (length data) cap) as [E|E]; [|reflexivity].
  rewrite app_length, skipn_length, firstn_length. specialize (H3 E). lia.
Qed.

Lemma ring_write_step data p x : ring_inv data p ->
  ring_inv (ring_write cap data p x) ((p + 1) mod cap) /\
  ring_logical cap (ring_write cap data p x) ((p + 1) mod cap) = slide (ring_logical cap data p) x.
Proof.
  intros [H1 [H2 H3]]. unfold ring_write, ring_logical, slide.
  destruct (Nat.eqb_spec (length data) cap) as [E|E].
  - (* full: overwrite slot p *)
    specialize (H3 E). rewrite replace_nth_length. rewrite (proj2 (Nat.eqb_eq _ _) E).
    assert (Hm : (p + 1) mod cap < cap) by (apply Nat.mod_upper_bound; lia).
    split; [unfold ring_inv; rewrite replace_nth_length; repeat split; lia|].
    rewrite app_length, skipn_length, firstn_length.
    replace (Nat.ltb (length data - p + Nat.min p (length data)) cap) with false
      by (symmetry; apply Nat.ltb_ge; lia).
    rewrite replace_nth_split by lia.
    destruct (Nat.eq_dec (p + 1) cap) as [Ep|Ep].
    + (* wrap to 0 *)
      replace ((p + 1) mod cap) with 0 by (rewrite Ep, Nat.mod_same; lia).
      rewrite skipn_O, firstn_O, app_nil_r.
      assert (Hs : skipn (S p) data = []) by (apply skipn_all2; lia).
      rewrite Hs.
      assert (Hp : skipn p data = [nth p data x]).
      { rewrite (nth_split_list p data x) at 1 by lia. rewrite Hs.
        rewrite skipn_app_le by (rewrite firstn_length; lia).
        rewrite skipn_all2 by (rewrite firstn_length; lia). reflexivity. }
      rewrite Hp. reflexivity.
    + replace ((p + 1) mod cap) with (S p) by (rewrite Nat.mod_small; lia).
      assert (Lf : length (firstn p data) = p) by (rewrite firstn_length; lia).
      (* skipn (S p) (firstn p data ++ x :: rest) = rest ; firstn (S p) (...) = firstn p data ++ [x] *)
      rewrite skipn_app. rewrite (skipn_all2 (firstn p data)) by lia. rewrite Lf.
      replace (S p - p) with 1 by lia. cbn [skipn app].
      rewrite firstn_app. rewrite Lf. replace (S p - p) with 1 by lia.
      rewrite (firstn_all2 (firstn p data)) by lia. cbn [firstn].
      rewrite (nth_split_list p data x) at 3 by lia.
      rewrite skipn_app. rewrite (skipn_all2 (firstn p data)) by lia. rewrite Lf, Nat.sub_diag.
      cbn [skipn app tl]. rewrite <- app_assoc. reflexivity.
  - (* not yet full: push_back *)
    assert (Hlt : length data < cap) by lia. specialize (H2 Hlt). subst p.
    rewrite app_length. cbn [length].
    split.
    + unfold ring_inv. rewrite app_length. cbn [length].
      destruct (Nat.eq_dec (length data + 1) cap) as [Ep|Ep].
      * rewrite Ep, Nat.mod_same by lia. repeat split; lia.
      * rewrite Nat.mod_small by lia. repeat split; lia.
    + replace (Nat.ltb (length data) cap) with true by (symmetry; apply Nat.ltb_lt; lia).
      destruct (Nat.eqb_spec (length data + 1) cap) as [Ep|Ep]; [|reflexivity].
      replace ((length data + 1) mod cap) with 0 by (rewrite Ep, Nat.mod_same; lia).
      rewrite skipn_O, firstn_O, app_nil_r. reflexivity.
Qed.

(* the logical content after any sequence of writes is the last-cap window of what was written *)
Lemma slide_lastn xs x : lastn cap (xs ++ [x]) = slide (lastn cap xs) x.
Proof.
  rewrite lastn_snoc by exact cap_pos. unfold slide. rewrite lastn_length.
  destruct (Nat.ltb_spec (length xs) cap) as [H|H].
  - rewrite lastn_all by lia. replace (Nat.ltb (Nat.min cap (length xs)) cap) with true
      by (symmetry; apply Nat.ltb_lt; lia). reflexivity.
  - replace (Nat.ltb (Nat.min cap (length xs)) cap) with false by (symmetry; apply Nat.ltb_ge; lia). reflexivity.
Qed.
End RingFacts.

(* ------------------------------------------------------------------ OnlineAverage / OnlineVariance *)
Fixpoint zsum (l : list Z) : Z := match l with [] => 0%Z | x :: r => (x + zsum r)%Z end.

Lemma zsum_app a b : zsum (a ++ b) = (zsum a + zsum b)%Z.
Proof. induction a as [|x a IH]; cbn [app zsum]; lia. Qed.

Inductive iop := IUpdate (x : Z) | IReset.

Definition i_step (s : ostate) (o : iop) : ostate :=
  match o with IUpdate x => o_update s x | IReset => o_reset s end.

(* samples (already truncated) since the last reset, oldest first *)
Fixpoint since_reset (h : list iop) (acc : list Z) : list Z :=
  match h with
  | [] => acc
  | IUpdate x :: r => since_reset r (acc ++ [x])
  | IReset :: r => since_reset r []
  end.

Definition o_window (s : ostate) : list Z := ring_logical (o_W s) (o_data s) (o_index s).
Definition o_window_sq (s : ostate) : list Z := ring_logical (o_W s) (o_sq s) (o_index s).

Definition o_inv (W : nat) (s : ostate) (xs : list Z) : Prop :=
  o_W s = W /\
  ring_inv W (o_data s) (o_index s) /\ ring_inv W (o_sq s) (o_index s) /\
  o_window s = lastn W xs /\ o_window_sq s = map (fun x => (x * x)%Z) (lastn W xs) /\
  o_sum s = zsum (o_data s) /\ o_sumsq s = zsum (o_sq s).

Lemma zsum_replace p x l : p < length l ->
  zsum (replace_nth p x l) = (zsum l + x - nth p l 0)%Z.
Proof.
  intros H. rewrite replace_nth_split by exact H.
  rewrite (nth_split_list p l 0%Z) at 3 by exact H.
  rewrite !zsum_app. cbn [zsum]. lia.
Qed.

Lemma map_tl {A B} (f : A -> B) l : map f (tl l) = tl (map f l).
Proof. destruct l; reflexivity. Qed.

Lemma o_inv_init W : 0 < W -> o_inv W (o_init W) [].
Proof.
  intros HW. destruct W as [|W']; [lia|].
  unfold o_inv, o_init, o_window, o_window_sq, ring_logical, ring_inv. cbn.
  repeat split; try reflexivity; try lia.
Qed.

Lemma o_inv_reset W s xs : 0 < W -> o_inv W s xs -> o_inv W (o_reset s) [].
Proof.
  intros HW [HWs _]. destruct W as [|W']; [lia|].
  unfold o_inv, o_reset, o_window, o_window_sq, ring_logical, ring_inv. cbn.
  rewrite HWs. cbn. repeat split; try reflexivity; try lia.
Qed.

Lemma o_inv_update W s xs x : 0 < W -> o_inv W s xs -> o_inv W (o_update s x) (xs ++ [x]).
Proof.
  intros HW (HWs & Rd & Rq & Wd & Wq & Sd & Sq).
  destruct (ring_write_step W HW (o_data s) (o_index s) x Rd) as [Rd' Ld'].
  destruct (ring_write_step W HW (o_sq s) (o_index s) (x * x)%Z Rq) as [Rq' Lq'].
  unfold o_window, o_window_sq in *. unfold o_inv, o_update, o_window, o_window_sq. cbn. rewrite HWs in *.
  split; [reflexivity|]. split; [exact Rd'|]. split; [exact Rq'|].
  split; [rewrite Ld', Wd; symmetry; apply slide_lastn; exact HW|].
  split.
  { rewrite Lq', Wq. rewrite slide_lastn by exact HW. unfold slide. rewrite !map_length.
    destruct (Nat.ltb _ W); rewrite map_app; cbn [map]; [reflexivity|]. rewrite map_tl. reflexivity. }
  assert (Hlen : length (o_sq s) = length (o_data s)).
  { pose proof (f_equal (@length Z) Wd) as L1. pose proof (f_equal (@length Z) Wq) as L2.
    rewrite map_length in L2.
    rewrite (ring_logical_length W HW) in L1 by exact Rd.
    rewrite (ring_logical_length W HW) in L2 by exact Rq. lia. }
  split.
  - unfold ring_write. destruct Rd as [R1 [R2 R3]].
    destruct (Nat.eqb_spec (length (o_data s)) W) as [E|E].
    + rewrite zsum_replace by (specialize (R3 E); lia). lia.
    + rewrite zsum_app. cbn [zsum]. lia.
  - unfold ring_write. destruct Rq as [R1 [R2 R3]]. rewrite <- Hlen.
    destruct (Nat.eqb_spec (length (o_sq s)) W) as [E|E].
    + rewrite zsum_replace by (specialize (R3 E); lia). lia.
    + rewrite zsum_app. cbn [zsum]. lia.
Qed.

Lemma since_reset_app h acc : forall x, since_reset (h ++ [IUpdate x]) acc = since_reset h acc ++ [x].
Proof. revert acc. induction h as [|[y|] h IH]; intros acc x; cbn; auto. Qed.

Lemma since_reset_app_reset h acc : since_reset (h ++ [IReset]) acc = [].
Proof. revert acc. induction h as [|[y|] h IH]; intros acc; cbn; auto. Qed.

(* main invariant, for every history *)
Lemma o_inv_run W : 0 < W -> forall h, o_inv W (fold_left i_step h (o_init W)) (since_reset h []).
Proof.
  intros HW h. induction h as [|o h IH] using rev_ind.
  - apply o_inv_init. exact HW.
  - rewrite fold_left_app. cbn [fold_left]. destruct o as [x|].
    + rewrite since_reset_app. apply o_inv_update; assumption.
    + rewrite since_reset_app_reset. eapply o_inv_reset; eassumption.
Qed.

Lemma zsum_rot (l : list Z) p : zsum (skipn p l ++ firstn p l) = zsum l.
Proof. rewrite zsum_app. rewrite <- (firstn_skipn p l) at 3. rewrite zsum_app. lia. Qed.

Lemma zsum_logical W l p : zsum (ring_logical W l p) = zsum l.
Proof. unfold ring_logical. destruct (Nat.eqb _ _); [apply zsum_rot|reflexivity]. Qed.

(* The window statement of the property. *)
Lemma window_is_last_W W h : 0 < W ->
  let s := fold_left i_step h (o_init W) in
  let xs := since_reset h [] in
  o_window s = lastn W xs /\
  length (o_data s) = Nat.min W (length xs) /\
  o_sum s = zsum (lastn W xs) /\
  o_sumsq s = zsum (map (fun x => (x * x)%Z) (lastn W xs)) /\
  (o_available s = true <-> W <= length xs).
Proof.
  intros HW s xs. destruct (o_inv_run W HW h) as (HWs & Rd & Rq & Wd & Wq & Sd & Sq).
  fold s xs in HWs, Rd, Rq, Wd, Wq, Sd, Sq.
  assert (Hlen : length (o_data s) = Nat.min W (length xs)).
  { pose proof (f_equal (@length Z) Wd) as L. unfold o_window in L. rewrite HWs in L.
    rewrite (ring_logical_length W HW) in L by exact Rd. rewrite lastn_length in L. exact L. }
  split; [exact Wd|]. split; [exact Hlen|]. split; [|split].
  - rewrite Sd, <- Wd. unfold o_window. symmetry. apply zsum_logical.
  - rewrite Sq, <- Wq. unfold o_window_sq. symmetry. apply zsum_logical.
  - unfold o_available. rewrite HWs, Hlen. rewrite Nat.eqb_eq. lia.
Qed.

(* no 64-bit overflow under the property's bounds *)
Lemma zsum_bound l B : (0 <= B)%Z -> Forall (fun x => (Z.abs x <= B)%Z) l -> (Z.abs (zsum l) <= Z.of_nat (length l) * B)%Z.
Proof.
  intros HB. induction 1 as [|x l Hx Hl IH]; cbn [zsum length]; [lia|].
  rewrite Nat2Z.inj_succ. lia.
Qed.

Lemma Forall_skipn {A} (P : A -> Prop) n l : Forall P l -> Forall P (skipn n l).
Proof. revert l. induction n as [|n IH]; intros l H; [exact H|]. destruct l; [constructor|]. inversion H; subst. apply IH. assumption. Qed.

Lemma sums_bounded W h B : 0 < W -> (W <= 64)%nat -> (0 <= B <= 100000000)%Z ->
  Forall (fun x => (Z.abs x <= B)%Z) (since_reset h []) ->
  let s := fold_left i_step h (o_init W) in
  (Z.abs (o_sum s) < 2 ^ 63)%Z /\ (Z.abs (o_sumsq s) < 2 ^ 63)%Z.
Proof.
  intros HW HW64 HB HF s.
  destruct (window_is_last_W W h HW) as (_ & _ & Hs & Hq & _). fold s in Hs, Hq.
  assert (HL : (Z.of_nat (length (lastn W (since_reset h []))) <= 64)%Z) by (rewrite lastn_length; lia).
  assert (HF' : Forall (fun x => (Z.abs x <= B)%Z) (lastn W (since_reset h []))) by (apply Forall_skipn; exact HF).
  split.
  - rewrite Hs. pose proof (zsum_bound _ B (proj1 HB) HF') as Hb.
    assert (Z.of_nat (length (lastn W (since_reset h []))) * B <= 64 * 100000000)%Z by nia. lia.
  - rewrite Hq.
    assert (HF2 : Forall (fun x => (Z.abs x <= B * B)%Z) (map (fun x => (x * x)%Z) (lastn W (since_reset h [])))).
    { rewrite Forall_map. eapply Forall_impl; [|exact HF']. cbn. intros a Ha. nia. }
    pose proof (zsum_bound _ (B * B)%Z ltac:(nia) HF2) as Hb. rewrite map_length in Hb.
    assert (Z.of_nat (length (lastn W (since_reset h []))) * (B * B) <= 64 * (100000000 * 100000000))%Z by nia. lia.
Qed.

(* ------------------------------------------------------------------ real-number reading of the outputs *)
Local Open Scope R_scope.

Fixpoint rsum (l : list R) : R := match l with [] => 0 | x :: r => x + rsum r end.

Lemma IZR_zsum l : IZR (zsum l) = rsum (map IZR l).
Proof. induction l as [|x l IH]; cbn [zsum map rsum]; [reflexivity|]. rewrite plus_IZR, IH. reflexivity. Qed.

Lemma rsum_scale c l : rsum (map (fun x => x / c) l) = rsum l / c.
Proof. induction l as [|x l IH]; cbn [map rsum]; [unfold Rdiv; ring|]. rewrite IH. unfold Rdiv. ring. Qed.

Lemma rsum_sq_shift c l :
  rsum (map (fun y => (y - c) * (y - c)) l) = rsum (map (fun y => y * y) l) - 2 * c * rsum l + INR (length l) * c * c.
Proof.
  induction l as [|y l IH]; [cbn; ring|].
  change (length (y :: l)) with (S (length l)). rewrite S_INR. cbn [map rsum]. rewrite IH. ring.
Qed.

(* mean of the samples y_i = x_i / m *)
Lemma average_formula (m : Z) s x xs' : (0 < m)%Z -> o_data s = x :: xs' ->
  o_sum s = zsum (o_data s) ->
  o_average ROps m s = Some (rsum (map (fun z => IZR z / IZR m) (o_data s)) / INR (length (o_data s))).
Proof.
  intros Hm Hd Hs. unfold o_average. rewrite Hd. rewrite <- Hd. f_equal. cbn [ndiv nofZ nmul ROps].
  rewrite Hs, IZR_zsum. rewrite <- INR_IZR_INZ.
  assert (IZR m <> 0) by (apply not_0_IZR; lia).
  assert (INR (length (o_data s)) <> 0) by (rewrite Hd; cbn [length]; apply not_0_INR; lia).
  replace (map (fun z => IZR z / IZR m) (o_data s)) with (map (fun x => x / IZR m) (map IZR (o_data s)))
    by (rewrite map_map; reflexivity).
  rewrite rsum_scale. field. split; assumption.
Qed.

(* with a full window (n = W >= 2) the reported variance is the unbiased sample variance of the y_i *)
Lemma variance_formula (m : Z) s x xs' : (0 < m)%Z -> o_data s = x :: xs' ->
  length (o_data s) = o_W s -> (2 <= o_W s)%nat ->
  o_sum s = zsum (o_data s) -> o_sumsq s = zsum (map (fun z => (z * z)%Z) (o_data s)) ->
  let ys := map (fun z => IZR z / IZR m) (o_data s) in
  let mean := rsum ys / INR (length ys) in
  o_variance ROps m s = Some (rsum (map (fun y => (y - mean) * (y - mean)) ys) / (INR (length ys) - 1)).
Proof.
  intros Hm Hd Hfull HW Hs Hq ys mean. unfold o_variance.
  rewrite (average_formula m s x xs' Hm Hd Hs). fold ys. cbn [ndiv nofZ nmul nsub ROps].
  f_equal. rewrite rsum_sq_shift.
  assert (Hn : length ys = length (o_data s)) by (unfold ys; apply map_length).
  assert (Hm0 : IZR m <> 0) by (apply not_0_IZR; lia).
  assert (Hn0 : INR (length ys) <> 0) by (rewrite Hn, Hd; cbn [length]; apply not_0_INR; lia).
  assert (Hn1 : INR (length ys) - 1 <> 0).
  { rewrite Hn, Hfull. replace 1 with (INR 1) by reflexivity. rewrite <- minus_INR by lia. apply not_0_INR. lia. }
  rewrite minus_IZR. rewrite <- INR_IZR_INZ. rewrite <- Hfull, <- Hn. rewrite <- INR_IZR_INZ.
  rewrite Hq, IZR_zsum, mult_IZR.
  assert (Hsq : rsum (map (fun y => y * y) ys) = rsum (map IZR (map (fun z => (z * z)%Z) (o_data s))) / (IZR m * IZR m)).
  { unfold ys. rewrite <- rsum_scale. rewrite !map_map. f_equal. apply map_ext. intros a. rewrite mult_IZR. field. exact Hm0. }
  rewrite Hsq. unfold mean. field. repeat split; assumption.
Qed.

(* ------------------------------------------------------------------ RingOfEigenVector *)
Local Close Scope R_scope.
Local Open Scope Z_scope.

Section RingBuf.
Context {A : Type}.

Fixpoint since_clear (h : list (rop A)) (acc : list A) : list A :=
  match h with
  | [] => acc
  | RAppend x :: r => since_clear r (acc ++ [x])
  | RClear :: r => since_clear r []
  end.

Lemma since_clear_app h acc x : since_clear (h ++ [RAppend x]) acc = since_clear h acc ++ [x].
Proof. revert acc. induction h as [|[y|] h IH]; intros acc; cbn; auto. Qed.
Lemma since_clear_app_clear h acc : since_clear (h ++ [RClear]) acc = [].
Proof. revert acc. induction h as [|[y|] h IH]; intros acc; cbn; auto. Qed.

(* next write position of the buffer *)
Definition r_next (s : rstate A) : nat := Z.to_nat (((r_index s + 1) mod two64) mod Z.of_nat (r_cap s)).

Definition r_inv (cap : nat) (s : rstate A) (xs : list A) : Prop :=
  r_cap s = cap /\ ring_inv cap (r_ring s) (r_next s) /\
  ring_logical cap (r_ring s) (r_next s) = lastn cap xs /\
  (r_ring s = [] -> r_index s = two64 - 1) /\
  (r_ring s <> [] -> 0 <= r_index s < Z.of_nat cap /\ (Z.to_nat (r_index s) < length (r_ring s))%nat).

Lemma two64_pos : 0 < two64. Proof. reflexivity. Qed.

Lemma r_inv_init cap : (0 < cap)%nat -> r_inv cap (r_init cap) [].
Proof.
  intros Hc. unfold r_inv, r_init, r_next, ring_inv, ring_logical. cbn [r_cap r_index r_ring length].
  replace ((two64 - 1 + 1) mod two64) with 0 by reflexivity.
  rewrite Z.mod_0_l by lia. cbn [Z.to_nat].
  destruct (Nat.eqb_spec 0 cap); [lia|]. repeat split; try reflexivity; try lia; try congruence.
Qed.

Lemma r_inv_clear cap s xs : (0 < cap)%nat -> r_inv cap s xs -> r_inv cap (r_clear s) [].
Proof.
  intros Hc [Hcap _]. unfold r_inv, r_clear, r_next, ring_inv, ring_logical. cbn [r_cap r_index r_ring length].
  rewrite Hcap. replace ((two64 - 1 + 1) mod two64) with 0 by reflexivity.
  rewrite Z.mod_0_l by lia. cbn [Z.to_nat].
  destruct (Nat.eqb_spec 0 cap); [lia|]. repeat split; try reflexivity; try lia; try congruence.
Qed.

Lemma r_inv_append cap s xs x : (0 < cap)%nat -> Z.of_nat cap < two64 ->
  r_inv cap s xs -> r_inv cap (r_append s x) (xs ++ [x]).
Proof.
  intros Hc Hc64 (Hcap & Rinv & Rlog & Hemp & Hne).
  destruct (ring_write_step cap Hc (r_ring s) (r_next s) x Rinv) as [Rinv' Rlog'].
  (* the appended state's ring is ring_write at r_next, and its index is r_next *)
  assert (Hidx : r_index (r_append s x) = Z.of_nat (r_next s)).
  { unfold r_append, r_next. cbn [r_index]. rewrite Z2Nat.id; [reflexivity|].
    apply Z.mod_pos_bound. rewrite Hcap. lia. }
  assert (Hring : r_ring (r_append s x) = ring_write cap (r_ring s) (r_next s) x).
  { unfold r_append, ring_write, r_next. cbn [r_ring]. rewrite Hcap. reflexivity. }
  assert (Hnlt : (r_next s < cap)%nat).
  { unfold r_next. rewrite Hcap. apply Nat2Z.inj_lt. rewrite Z2Nat.id by (apply Z.mod_pos_bound; lia).
    apply Z.mod_pos_bound. lia. }
  assert (Hnext' : r_next (r_append s x) = ((r_next s + 1) mod cap)%nat).
  { unfold r_next at 1. rewrite Hidx. cbn [r_cap r_append]. rewrite Hcap.
    rewrite (Z.mod_small (Z.of_nat (r_next s) + 1)) by lia.
    replace (Z.of_nat (r_next s) + 1) with (Z.of_nat (r_next s + 1)) by lia.
    rewrite <- Nat2Z.inj_mod. apply Nat2Z.id. }
  unfold r_inv. rewrite Hnext', Hring. cbn [r_cap r_append]. split; [exact Hcap|].
  split; [exact Rinv'|]. split; [rewrite Rlog', Rlog; symmetry; apply slide_lastn; exact Hc|].
  split.
  - intros E. exfalso. unfold ring_write in E. destruct (Nat.eqb_spec (length (r_ring s)) cap) as [E2|E2].
    + apply (f_equal (@length A)) in E. rewrite replace_nth_length in E. cbn in E. lia.
    + destruct (r_ring s); discriminate.
  - intros _. rewrite Hidx. rewrite Nat2Z.id. split; [lia|].
    unfold ring_write. destruct Rinv as [R1 [R2 R3]].
    destruct (Nat.eqb_spec (length (r_ring s)) cap) as [E2|E2].
    + rewrite replace_nth_length. specialize (R3 E2). lia.
    + rewrite app_length. cbn [length]. rewrite (R2 ltac:(lia)). lia.
Qed.

Lemma r_inv_run cap : (0 < cap)%nat -> Z.of_nat cap < two64 ->
  forall h, r_inv cap (fold_left r_step h (r_init cap)) (since_clear h []).
Proof.
  intros Hc Hc64 h. induction h as [|o h IH] using rev_ind.
  - apply r_inv_init. exact Hc.
  - rewrite fold_left_app. cbn [fold_left]. destruct o as [x|].
    + rewrite since_clear_app. apply r_inv_append; assumption.
    + rewrite since_clear_app_clear. eapply r_inv_clear; eassumption.
Qed.

(* reading: entry k is the k-th most recent item *)
Lemma nth_error_rot (l : list A) p k : (p <= length l)%nat -> (k < length l)%nat ->
  nth_error (rev (skipn p l ++ firstn p l)) k =
  nth_error l (if Nat.ltb k p then p - 1 - k else length l + p - 1 - k)%nat.
Proof.
  intros Hp Hk. rewrite rev_app_distr.
  assert (Lf : length (firstn p l) = p) by (rewrite firstn_length; lia).
  assert (Ls : length (skipn p l) = (length l - p)%nat) by (rewrite skipn_length; lia).
  destruct (Nat.ltb_spec k p) as [H|H].
  - rewrite nth_error_app1 by (rewrite rev_length; lia).
    rewrite <- (firstn_skipn p l) at 2.
    rewrite nth_error_app1 by lia.
    destruct (nth_error (rev (firstn p l)) k) eqn:E.
    + apply nth_error_nth with (d := a) in E. rewrite rev_nth in E by lia. rewrite Lf in E.
      symmetry. replace (p - 1 - k)%nat with (p - S k)%nat by lia.
      rewrite <- E. apply nth_error_nth'. lia.
    + apply nth_error_None in E. rewrite rev_length in E. lia.
  - rewrite nth_error_app2 by (rewrite rev_length; lia). rewrite rev_length, Lf.
    rewrite <- (firstn_skipn p l) at 2.
    rewrite nth_error_app2 by lia. rewrite Lf.
    destruct (nth_error (rev (skipn p l)) (k - p)) eqn:E.
    + apply nth_error_nth with (d := a) in E. rewrite rev_nth in E by lia. rewrite Ls in E.
      symmetry. replace (length l + p - 1 - k - p)%nat with (length l - p - S (k - p))%nat by lia.
      rewrite <- E. apply nth_error_nth'. lia.
    + apply nth_error_None in E. rewrite rev_length in E. lia.
Qed.

Lemma ring_kth cap h k : (0 < cap)%nat -> 2 * Z.of_nat cap <= two64 ->
  let s := fold_left r_step h (r_init cap) in
  let xs := since_clear h [] in
  r_size s = Nat.min cap (length xs) /\
  ((k < r_size s)%nat -> r_get s k = nth_error (rev xs) k).
Proof.
  intros Hc Hc2 s xs. assert (Hc64 : Z.of_nat cap < two64) by lia.
  destruct (r_inv_run cap Hc Hc64 h) as (Hcap & Rinv & Rlog & Hemp & Hne).
  fold s xs in Hcap, Rinv, Rlog, Hemp, Hne.
  assert (Hsize : r_size s = Nat.min cap (length xs)).
  { pose proof (f_equal (@length A) Rlog) as L. rewrite (ring_logical_length cap Hc) in L by exact Rinv.
    rewrite lastn_length in L. exact L. }
  split; [exact Hsize|]. intros Hk. unfold r_size in *.
  (* rev xs agrees with rev (lastn cap xs) on the first min(cap,|xs|) entries *)
  assert (Hrev : nth_error (rev xs) k = nth_error (rev (lastn cap xs)) k).
  { unfold lastn. rewrite <- (firstn_skipn (length xs - cap) xs) at 1. rewrite rev_app_distr.
    rewrite nth_error_app1; [reflexivity|]. rewrite rev_length, skipn_length. lia. }
  rewrite Hrev, <- Rlog.
  unfold r_get. destruct (r_ring s) as [|a0 r0] eqn:Er; [cbn in Hk; lia|]. rewrite <- Er in *.
  destruct (Hne ltac:(rewrite Er; discriminate)) as [[Hi0 Hi1] Hi2].
  set (sz := Z.of_nat (length (r_ring s))) in *.
  assert (Hsz : 0 < sz <= Z.of_nat cap) by (destruct Rinv as [R1 _]; unfold sz; lia).
  rewrite (Z.mod_small (r_index s + sz)) by lia.
  rewrite (Z.mod_small (r_index s + sz - Z.of_nat k)) by lia.
  destruct Rinv as [R1 [R2 R3]].
  unfold ring_logical. destruct (Nat.eqb_spec (length (r_ring s)) cap) as [E|E].
  - (* full ring: next write position p = (index+1) mod cap *)
    assert (Hp : r_next s = Z.to_nat ((r_index s + 1) mod Z.of_nat cap)).
    { unfold r_next. rewrite Hcap. rewrite (Z.mod_small (r_index s + 1)) by lia. reflexivity. }
    rewrite nth_error_rot by (specialize (R3 E); lia). f_equal.
    assert (Hszc : sz = Z.of_nat cap) by (unfold sz; lia).
    destruct (Z.eq_dec (r_index s + 1) (Z.of_nat cap)) as [Ew|Ew].
    + (* p = 0 *)
      assert (P0 : r_next s = 0%nat) by (rewrite Hp, Ew, Z.mod_same by lia; reflexivity).
      rewrite P0. cbn [Nat.ltb]. replace (Nat.ltb k 0) with false by reflexivity.
      rewrite Hszc. replace (r_index s + Z.of_nat cap - Z.of_nat k) with ((Z.of_nat cap - 1 - Z.of_nat k) + 1 * Z.of_nat cap) by lia.
      rewrite Z.mod_add by lia. rewrite Z.mod_small by lia. lia.
    + assert (P1 : r_next s = Z.to_nat (r_index s + 1)) by (rewrite Hp, Z.mod_small by lia; reflexivity).
      rewrite P1. destruct (Nat.ltb_spec k (Z.to_nat (r_index s + 1))) as [Hl|Hl].
      * rewrite Hszc. replace (r_index s + Z.of_nat cap - Z.of_nat k) with ((r_index s - Z.of_nat k) + 1 * Z.of_nat cap) by lia.
        rewrite Z.mod_add by lia. rewrite Z.mod_small by lia. lia.
      * rewrite Z.mod_small by lia. lia.
  - (* not full: ring = items since clear, index = size - 1 *)
    assert (Hlt : (length (r_ring s) < cap)%nat) by lia. specialize (R2 Hlt).
    assert (Hidx : r_index s = sz - 1).
    { unfold r_next in R2. rewrite Hcap in R2. rewrite (Z.mod_small (r_index s + 1)) in R2 by lia.
      destruct (Z.eq_dec (r_index s + 1) (Z.of_nat cap)) as [Ew|Ew].
      - rewrite Ew, Z.mod_same in R2 by lia. cbn in R2. rewrite <- R2 in Hk. lia.
      - rewrite Z.mod_small in R2 by lia. unfold sz. lia. }
    rewrite Hidx. replace (sz - 1 + sz - Z.of_nat k) with ((sz - 1 - Z.of_nat k) + 1 * sz) by lia.
    rewrite Z.mod_add by lia. rewrite Z.mod_small by lia.
    destruct (nth_error (rev (r_ring s)) k) eqn:E2.
    + apply nth_error_nth with (d := a) in E2. rewrite rev_nth in E2 by lia.
      rewrite <- E2. replace (Z.to_nat (sz - 1 - Z.of_nat k)) with (length (r_ring s) - S k)%nat by (unfold sz; lia).
      apply nth_error_nth'. lia.
    + apply nth_error_None in E2. rewrite rev_length in E2. lia.
Qed.
End RingBuf.
