(* RansacModel.v — executable model (definitions only) of
     src/regression/ransac/RansacIterations.cpp      (constructor, update, get)
     src/regression/ransac/Ransac.cpp                (Ransac::estimateModel over an abstract RansacModel)
     src/transform/estimation/RansacRigidTransformationModel.cpp
                                                     (countInliers / check_ / best-consensus bookkeeping,
                                                      the rigid estimator itself is abstract: a candidate is a matrix)
   Numeric code is polymorphic in the dictionary [N : NumOps T]; integers are Z.
   Literal constants come from coq/gen/RepoConstants.v (regenerated from the sources on every run). *)
From Coq Require Import ZArith List Bool.
From Romea Require Import Num.
From Romea.gen Require Import RepoConstants.
Import ListNotations.
Local Open Scope Z_scope.

(* ------------------------------------------------------------------------------------------------
   size_t -> float -> size_t : Ransac.cpp stores the value returned by countInliers in a [float]
   (round to nearest even on 24 significant bits) and converts it back.  Identity below 2^24. *)
Definition f32round (z : Z) : Z :=
  if z <? 2 ^ 24 then z
  else
    let e := Z.log2 z - 23 in
    let q := z / 2 ^ e in
    let r := z mod 2 ^ e in
    let h := 2 ^ (e - 1) in
    let q' := if r <? h then q else if h <? r then q + 1 else if Z.even q then q else q + 1 in
    q' * 2 ^ e.

(* ------------------------------------------------------------------------------------------------
   RansacIterations *)
Section Iterations.
  Context {T : Type} (N : NumOps T).

  Record iters : Type := mkIters {
    it_logopp : T;      (* logOfFittingOppositeProbability_ = log(1 - p)            *)
    it_oneovern : T;    (* oneOverNumberOfPoints_           = 1 / numberOfPoints    *)
    it_n : Z            (* numberOfIterations_ (a double holding an integer value)  *)
  }.

  (* RansacIterations(numberOfPoints, fittingProbability, maximalNumberOfIterations) *)
  Definition iters_init (npoints : Z) (p : T) (maxit : Z) : iters :=
    mkIters (nln N (nsub N (n_one N) p)) (ndiv N (n_one N) (nofZ N npoints)) maxit.

  (* the clamped probability that a draw contains an outlier *)
  Definition iters_q (s : iters) (k sdraw : Z) : T :=
    let w := nmul N (nofZ N k) (it_oneovern s) in
    let q := nsub N (n_one N) (npow N w (nofZ N sdraw)) in
    let q := nmax2 N (nepsilon N) q in                          (* std::max(EPSILON, q)     *)
    nmin2 N (nsub N (n_one N) (nepsilon N)) q.                  (* std::min(1 - EPSILON, q) *)

  (* value converted to size_t (truncation) *)
  Definition iters_ratio (s : iters) (k sdraw : Z) : T :=
    ndiv N (it_logopp s) (nln N (iters_q s k sdraw)).

  (* update(numberOfInliers, numberOfPointsToDrawModel) *)
  Definition iters_update (s : iters) (k sdraw : Z) : iters :=
    mkIters (it_logopp s) (it_oneovern s) (Z.min (it_n s) (ntruncZ N (iters_ratio s k sdraw))).

  Definition iters_get (s : iters) : Z := it_n s.

  (* a sequence of updates, as driven by the direct tie: bound after the constructor and after every update *)
  Fixpoint iters_run (s : iters) (sdraw : Z) (ks : list Z) : list Z :=
    match ks with
    | [] => [it_n s]
    | k :: r => it_n s :: iters_run (iters_update s k sdraw) sdraw r
    end.

  Definition iters_fold (s : iters) (sdraw : Z) (ks : list Z) : iters :=
    fold_left (fun a k => iters_update a k sdraw) ks s.
End Iterations.
Arguments iters : clear implicits.

(* MAXIMAL_NUMBER_OF_ITERATIONS *)
Definition ransac_maxit : Z := ransac_max_iterations.

(* FITTING_PROBABILITY_ = 0.99f : evaluate with the binary32 dictionary to get the float literal *)
Definition ransac_probability {T} (N : NumOps T) : T :=
  nofDec N ransac_fitting_probability_m ransac_fitting_probability_e.

(* ------------------------------------------------------------------------------------------------
   Ransac::estimateModel over an abstract model.
   The model object is a state [S] with three oracles; every call is logged as an event. *)
Inductive rcall : Type := EvDraw | EvCount (returned : Z) | EvRefine.

Record est_result (S : Type) : Type := mkEst {
  er_ok : bool;              (* return value                                                   *)
  er_iters : Z;              (* iterations run = number of draw calls                          *)
  er_best : Z;               (* bestNumberOfInliers at exit                                    *)
  er_chosen : option Z;      (* iteration at which bestNumberOfInliers was last raised         *)
  er_events : list rcall;    (* calls made on the model object, in order                       *)
  er_state : S               (* model object at exit                                           *)
}.
Arguments mkEst {S}. Arguments er_ok {S}. Arguments er_iters {S}. Arguments er_best {S}.
Arguments er_chosen {S}. Arguments er_events {S}. Arguments er_state {S}.

Record loop_result (S : Type) : Type := mkLoop {
  lr_iters : Z; lr_best : Z; lr_chosen : option Z; lr_events : list rcall; lr_state : S }.
Arguments mkLoop {S}. Arguments lr_iters {S}. Arguments lr_best {S}. Arguments lr_chosen {S}.
Arguments lr_events {S}. Arguments lr_state {S}.

Section Estimate.
  Context {T : Type} (N : NumOps T) {S : Type}.
  Variable draw : S -> S * bool.       (* ransacModel_->draw(sigma)          *)
  Variable count : S -> S * Z.         (* ransacModel_->countInliers(sigma)  *)
  Variable refine : S -> S.            (* ransacModel_->refine()             *)
  Variable sdraw : Z.                  (* getNumberOfPointsToDrawModel()     *)

  (* while (iteration < ransacIterations.get()) { ... ++iteration; }   — fuel: None when exhausted *)
  Fixpoint est_loop (fuel : nat) (iter best : Z) (chosen : option Z) (its : iters T) (s : S)
    : option (loop_result S) :=
    if iter <? it_n its then
      match fuel with
      | O => None
      | Datatypes.S f =>
        let (s1, ok) := draw s in
        if ok then
          let (s2, c) := count s1 in
          let cf := f32round c in                      (* float numberOfInliers = countInliers() *)
          if f32round best <? cf then                  (* numberOfInliers > bestNumberOfInliers  *)
            match est_loop f (iter + 1) cf (Some iter) (iters_update N its cf sdraw) s2 with
            | Some r => Some (mkLoop (lr_iters r) (lr_best r) (lr_chosen r) (EvDraw :: EvCount c :: lr_events r) (lr_state r))
            | None => None
            end
          else
            match est_loop f (iter + 1) best chosen its s2 with
            | Some r => Some (mkLoop (lr_iters r) (lr_best r) (lr_chosen r) (EvDraw :: EvCount c :: lr_events r) (lr_state r))
            | None => None
            end
        else
          match est_loop f (iter + 1) best chosen its s1 with
          | Some r => Some (mkLoop (lr_iters r) (lr_best r) (lr_chosen r) (EvDraw :: lr_events r) (lr_state r))
          | None => None
          end
      end
    else Some (mkLoop iter best chosen [] s).

  (* bool Ransac::estimateModel() *)
  Definition estimate (npoints mininl : Z) (p : T) (maxit : Z) (s : S) : option (est_result S) :=
    if npoints <? mininl then Some (mkEst false 0 0 None [] s)
    else
      match est_loop (Z.to_nat maxit) 0 0 None (iters_init N npoints p maxit) s with
      | None => None
      | Some r =>
        if lr_best r <=? sdraw
        then Some (mkEst false (lr_iters r) (lr_best r) (lr_chosen r) (lr_events r) (lr_state r))
        else Some (mkEst true (lr_iters r) (lr_best r) (lr_chosen r) (lr_events r ++ [EvRefine]) (refine (lr_state r)))
      end.
End Estimate.

(* scripted model object used by tie (i): the state is the remaining script; draw pops an entry *)
Definition script_state : Type := (list (bool * Z) * Z)%type.     (* remaining script, count the pending entry returns *)
Definition script_draw (s : script_state) : script_state * bool :=
  match fst s with
  | [] => (([], 0), false)
  | (d, c) :: r => ((r, c), d)
  end.
Definition script_count (s : script_state) : script_state * Z := (s, snd s).
Definition script_refine (s : script_state) : script_state := s.

Definition estimate_scripted {T} (N : NumOps T) (npoints sdraw mininl : Z) (p : T) (maxit : Z)
  (script : list (bool * Z)) : option (est_result script_state) :=
  estimate N script_draw script_count script_refine sdraw npoints mininl p maxit (script, 0).

(* ------------------------------------------------------------------------------------------------
   generic list algorithms used by the rigid model and by the ICP filter *)
Section ListAlgos.
  Context {A : Type}.

  (* stable insertion sort by a strict "less" predicate (std::sort is not stable: elements that the predicate
     does not order may come out in another order; the tie treats such cases as tie-prone) *)
  Fixpoint insert_by (lt : A -> A -> bool) (x : A) (l : list A) : list A :=
    match l with
    | [] => [x]
    | y :: r => if lt x y then x :: y :: r else y :: insert_by lt x r
    end.
  Definition sort_by (lt : A -> A -> bool) (l : list A) : list A := fold_left (fun acc x => insert_by lt x acc) l [].

  (* std::unique, erased form: first element of every run, comparing with the last kept element *)
  Fixpoint unique_from (eq : A -> A -> bool) (last : A) (l : list A) : list A :=
    match l with
    | [] => []
    | x :: r => if eq last x then unique_from eq last r else x :: unique_from eq x r
    end.
  Definition unique_by (eq : A -> A -> bool) (l : list A) : list A :=
    match l with [] => [] | x :: r => x :: unique_from eq x r end.

  (* std::unique whose result is discarded (libstdc++, trivially copyable elements): the vector keeps its
     length; the kept elements are moved to the front and the tail keeps what was there *)
  Definition unique_inplace (eq : A -> A -> bool) (l : list A) : list A :=
    let u := unique_by eq l in u ++ skipn (length u) l.
End ListAlgos.

(* ------------------------------------------------------------------------------------------------
   RansacRigidTransformationModel *)
Record corr (T : Type) : Type := mkCorr { c_src : Z; c_tgt : Z; c_sq : T }.
Arguments mkCorr {T}. Arguments c_src {T}. Arguments c_tgt {T}. Arguments c_sq {T}.

Definition rigid_draw_size (dim : Z) : Z := if dim =? 2 then rigid_draw_size_2d else rigid_draw_size_3d.
Definition rigid_min_inliers (dim : Z) : Z := rigid_min_inliers_factor * rigid_draw_size dim.

Section Rigid.
  Context {T : Type} (N : NumOps T).

  Definition sum_list (l : list T) : T := fold_left (nadd N) l (nzero N).
  Definition dot (a b : list T) : T := sum_list (map (fun p => nmul N (fst p) (snd p)) (combine a b)).

  (* projection(): Cartesian points use the rotation block and the last column; homogeneous points the whole matrix.
     [M] is the list of rows, points are coordinate lists (SIZE entries). *)
  Definition project (hom : bool) (dim : nat) (M : list (list T)) (p : list T) : list T :=
    if hom then map (fun row => dot row p) M
    else map (fun row => nadd N (dot (firstn dim row) p) (nth dim row (nzero N))) (firstn dim M).

  Definition sq_dist (a b : list T) : T :=
    sum_list (map (fun p => nsq N (nsub N (fst p) (snd p))) (combine a b)).

  Definition nth_point (pts : list (list T)) (i : Z) : list T := nth (Z.to_nat i) pts [].

  (* squared residual of one correspondence under the candidate [M] *)
  Definition residual (hom : bool) (dim : nat) (M : list (list T)) (src tgt : list (list T)) (c : corr T) : T :=
    sq_dist (nth_point tgt (c_tgt c)) (project hom dim M (nth_point src (c_src c))).

  (* Scalar threshold = 9 * modelDeviationError * modelDeviationError *)
  Definition gate (sigma : T) : T := nmul N (nmul N (nofZ N rigid_gate_factor) sigma) sigma.

  Definition tgt_dist_lt (a b : corr T) : bool :=      (* sortByTargetIndexAndDistancePredicate *)
    (c_tgt a <? c_tgt b) || ((c_tgt a =? c_tgt b) && nltb N (c_sq a) (c_sq b)).
  Definition src_dist_lt (a b : corr T) : bool :=      (* sortBySourceIndexAndDistancePredicate *)
    (c_src a <? c_src b) || ((c_src a =? c_src b) && nltb N (c_sq a) (c_sq b)).
  Definition eq_tgt (a b : corr T) : bool := c_tgt a =? c_tgt b.   (* equalTargetIndexesPredicate *)
  Definition eq_src (a b : corr T) : bool := c_src a =? c_src b.   (* equalSourceIndexesPredicate *)

  (* residuals of all correspondences (in sorted order), then the 3-sigma filter *)
  Definition with_residuals hom dim M src tgt (sorted : list (corr T)) : list (corr T) :=
    map (fun c => mkCorr (c_src c) (c_tgt c) (residual hom dim M src tgt c)) sorted.
  Definition gate_filter (sigma : T) (l : list (corr T)) : list (corr T) :=
    filter (fun c => nltb N (c_sq c) (gate sigma)) l.
  Definition inliers hom dim M src tgt sigma sorted : list (corr T) :=
    gate_filter sigma (with_residuals hom dim M src tgt sorted).

  Definition rmse_of (l : list (corr T)) : T :=
    nsqrt N (ndiv N (sum_list (map c_sq l)) (nofZ N (Z.of_nat (length l)))).

  (* stored best consensus *)
  Record rigid_state : Type := mkRigid { rs_best : list (corr T); rs_rmse : T }.
  Definition rigid_init : rigid_state := mkRigid [] (nmaxval N).

  Definition cand_passes (mininl : Z) (sigma : T) (len : Z) (rmse : T) : bool :=
    (mininl <=? len) && nltb N rmse sigma.
  Definition cand_better (len : Z) (rmse : T) (blen : Z) (brmse : T) : bool :=
    (blen <? len) || ((len =? blen) && nltb N rmse brmse).

  (* the bookkeeping at the end of countInliers, on an already computed consensus (list, rmse) *)
  Definition rigid_store (mininl : Z) (sigma : T) (st : rigid_state) (inl : list (corr T)) (rmse : T) : rigid_state :=
    let len := Z.of_nat (length inl) in
    if cand_passes mininl sigma len rmse && cand_better len rmse (Z.of_nat (length (rs_best st))) (rs_rmse st)
    then mkRigid inl rmse else st.

  (* the consensus vector countInliers builds for candidate M: filter, then std::unique without erase *)
  Definition consensus hom dim M src tgt sigma sorted : list (corr T) :=
    unique_inplace eq_tgt (inliers hom dim M src tgt sigma sorted).

  (* size_t countInliers(sigma) *)
  Definition rigid_count hom dim mininl src tgt sigma sorted (M : list (list T)) (st : rigid_state) : rigid_state * Z :=
    let inl := consensus hom dim M src tgt sigma sorted in
    let st' := rigid_store mininl sigma st inl (rmse_of inl) in
    (st', Z.of_nat (length (rs_best st'))).

  (* bool check_(sample) *)
  Definition check_sample hom dim M src tgt (sigma : T) (sample : list (corr T)) : bool :=
    let mse := fold_left (fun a c => nadd N a (residual hom dim M src tgt c)) sample (nzero N) in
    nltb N (ndiv N mse (nofZ N (Z.of_nat (length sample)))) (nmul N sigma sigma).

  (* candidates applied in sequence to one model object (tie iii): state after each *)
  Definition rigid_fold hom dim mininl src tgt sigma sorted (Ms : list (list (list T))) (st : rigid_state) : rigid_state :=
    fold_left (fun s M => fst (rigid_count hom dim mininl src tgt sigma sorted M s)) Ms st.

  (* the rigid model object driven by Ransac::estimateModel with scripted candidates (composed tie):
     state = (remaining candidates with their samples, current candidate, best consensus, was refine called on) *)
  Record rigid_obj : Type := mkObj {
    ro_script : list (list (list T) * list (corr T));
    ro_M : list (list T);
    ro_st : rigid_state;
    ro_refit : option (list (corr T))      (* input handed to the estimator by refine() *)
  }.
  Definition obj_draw hom dim src tgt sigma (o : rigid_obj) : rigid_obj * bool :=
    match ro_script o with
    | [] => (o, false)
    | (M, sample) :: r => (mkObj r M (ro_st o) (ro_refit o), check_sample hom dim M src tgt sigma sample)
    end.
  Definition obj_count hom dim mininl src tgt sigma sorted (o : rigid_obj) : rigid_obj * Z :=
    let (st', n) := rigid_count hom dim mininl src tgt sigma sorted (ro_M o) (ro_st o) in
    (mkObj (ro_script o) (ro_M o) st' (ro_refit o), n).
  Definition obj_refine (o : rigid_obj) : rigid_obj :=
    mkObj (ro_script o) (ro_M o) (ro_st o) (Some (rs_best (ro_st o))).

  Definition estimate_rigid hom (dim : nat) src tgt (sigma : T) (corrs : list (corr T)) (npoints : Z) (p : T) (maxit : Z)
    (script : list (list (list T) * list (corr T))) : option (est_result rigid_obj) :=
    let d := Z.of_nat dim in
    let sorted := sort_by tgt_dist_lt corrs in
    estimate N (obj_draw hom dim src tgt sigma) (obj_count hom dim (rigid_min_inliers d) src tgt sigma sorted) obj_refine
      (rigid_draw_size d) npoints (rigid_min_inliers d) p maxit (mkObj script [] rigid_init None).
End Rigid.
Arguments rigid_state : clear implicits.
Arguments rigid_obj : clear implicits.
