(* SrcTie.v — tactics and literal lemmas shared by the source-tie files SrcTieC01.v, SrcTieC02.v, SrcTieC03.v,
   SrcTieAngles.v (one per property, so that a function the translator can no longer handle breaks the tie of its own
   property only).  The closed-form leaves of the models equal the terms regenerated from the C++ source:
   gen/SrcFuns<id>.v is produced on every run by translate/srcfuns.py from the clang AST of /repo; the lemmas below are
   proved for the real-number instance (the one the theorems are about).  Literals differ in representation only
   (the source's `1`, `2`, `1.0`, `1.5` become nofZ / nofDec, the model writes n_one, ntwo, the constant table), so the
   proofs are by computation plus the value of the decimal literals.  If the C++ expression is edited, the generated
   term changes and these lemmas must be re-proved: they fail when the meaning over the reals changes. *)
From Coq Require Import Reals ZArith Lra.
From Romea Require Import Num NumR.
Local Open Scope R_scope.

(* [dict] exposes the real operations behind the dictionary projections; [req] closes an equation between two real terms
   that are the same up to the ring laws at some depth (same function symbols applied to ring-equal arguments): a
   re-association or a commutation in the C++ expression does not break a tie lemma, a change of meaning does. *)
Ltac dict := cbn [nadd nsub nmul ndiv nneg nsqrt nsin ncos ntan natan nasin nacos nexp nln nabs natan2 npow npi nofZ nofDec
                  nfmod nltb nleb neqb nzero n_one ntwo nhalf ROps].
Ltac unify1 f :=
  match goal with |- context [f ?a] => match goal with |- context [f ?b] =>
    tryif constr_eq a b then fail else replace (f b) with (f a) by (f_equal; ring) end end.
Ltac unify2 f :=
  match goal with |- context [f ?a ?c] => match goal with |- context [f ?b ?d] =>
    tryif (constr_eq a b; constr_eq c d) then fail else replace (f b d) with (f a c) by (f_equal; ring) end end.
(* arguments of the same function symbol that are ring-equal are made syntactically equal, innermost first *)
Ltac unify_apps :=
  repeat first [ unify1 sin | unify1 cos | unify1 tan | unify1 atan | unify1 asin | unify1 acos | unify1 exp | unify1 ln
               | unify1 sqrt | unify1 Rabs | unify1 Rinv | unify2 Ratan2 | unify2 Rpower | unify2 Rfmod
               | unify2 Rltb | unify2 Rleb ].
Ltac req_n n :=
  lazymatch n with
  | O => fail "terms differ"
  | S ?m => first [ reflexivity | ring | (progress f_equal; req_n m) ]
  end.
Ltac req := unfold Rdiv; unify_apps; req_n 12%nat.

Lemma dec_1_0 : IZR 1 * powerRZ 10 0 = 1.
Proof. simpl. lra. Qed.

Lemma izr2 : IZR 2 = 1 + 1.
Proof. replace (IZR 2) with 2 by reflexivity. lra. Qed.
Lemma dec_2_0 : IZR 2 * powerRZ 10 0 = 1 + 1.
Proof. simpl. lra. Qed.
Ltac lits := rewrite ?dec_2_0, ?dec_1_0, ?izr2.

Lemma dec_0_0 : IZR 0 * powerRZ 10 0 = 0.
Proof. simpl. lra. Qed.
