(* SrcTie.v — the closed-form leaves of the geodesy models equal the terms regenerated from the C++ source.
   gen/SrcFuns.v is produced on every run by translate/srcfuns.py from the clang AST of /repo; the lemmas below are
   proved for the real-number instance (the one the theorems are about).  Literals differ in representation only
   (the source's `1`, `2`, `1.0`, `1.5` become nofZ / nofDec, the model writes n_one, ntwo, the constant table), so the
   proofs are by computation plus the value of the decimal literals.  If the C++ expression is edited, the generated
   term changes and these lemmas must be re-proved: they fail when the meaning over the reals changes. *)
From Coq Require Import Reals ZArith Lra.
From Romea Require Import Num NumR GeodesyModel LambertModel.
From Romea.gen Require Import RepoConstants SrcFuns.
Local Open Scope R_scope.

(* [dict] exposes the real operations behind the dictionary projections; [req] closes an equation between two real terms
   that are the same up to the ring laws at some depth (same function symbols applied to ring-equal arguments): a
   re-association or a commutation in the C++ expression does not break a tie lemma, a change of meaning does. *)
Ltac dict := cbn [nadd nsub nmul ndiv nneg nsqrt nsin ncos ntan natan nasin nacos nexp nln nabs natan2 npow npi nofZ nofDec
                  nfmod nltb nleb neqb nzero n_one ntwo nhalf ROps].
Ltac unify1 f :=
  match goal with |- context [f ?a] => match goal with |- context [f ?b] =>
    tryif constr_eq a b then fail else replace (f b) with (f a) by (f_equal; ring) end end.
Ltac unify2 f :=
  match goal with |- context [f ?a ?c] => match goal with |- context [f ?b ?d] =>
    tryif (constr_eq a b; constr_eq c d) then fail else replace (f b d) with (f a c) by (f_equal; ring) end end.
(* arguments of the same function symbol that are ring-equal are made syntactically equal, innermost first *)
Ltac unify_apps :=
  repeat first [ unify1 sin | unify1 cos | unify1 tan | unify1 atan | unify1 asin | unify1 acos | unify1 exp | unify1 ln
               | unify1 sqrt | unify1 Rabs | unify1 Rinv | unify2 Ratan2 | unify2 Rpower | unify2 Rfmod
               | unify2 Rltb | unify2 Rleb ].
Ltac req_n n :=
  lazymatch n with
  | O => fail "terms differ"
  | S ?m => first [ reflexivity | ring | (progress f_equal; req_n m) ]
  end.
Ltac req := unfold Rdiv; unify_apps; req_n 12%nat.

Lemma dec_1_0 : IZR 1 * powerRZ 10 0 = 1.
Proof. simpl. lra. Qed.

Lemma dec_15_m1 : IZR 15 * powerRZ 10 (-1) = IZR meridional_radius_exponent_m * powerRZ 10 meridional_radius_exponent_e.
Proof. reflexivity. Qed.

Lemma izr2 : IZR 2 = 1 + 1.
Proof. replace (IZR 2) with 2 by reflexivity. lra. Qed.
Lemma dec_2_0 : IZR 2 * powerRZ 10 0 = 1 + 1.
Proof. simpl. lra. Qed.
Ltac lits := rewrite ?dec_2_0, ?dec_1_0, ?izr2.

Lemma tie_isometricLatitude lat e : src_isometricLatitude ROps lat e = isometricLatitude ROps lat e.
Proof. unfold src_isometricLatitude, isometricLatitude. dict. lits. req. Qed.

Lemma tie_grandeNormale lat a e : src_grandeNormale ROps lat a e = grandeNormale ROps lat a e.
Proof. unfold src_grandeNormale, grandeNormale, pow2. dict. lits. req. Qed.

Lemma tie_meridionalRadius lat (el : ellipsoid (T:=R)) :
  src_meridionalRadius ROps lat (el_a el) (el_e el) (el_e2 el) = meridionalRadius ROps el lat.
Proof. unfold src_meridionalRadius, meridionalRadius, pow2. dict. rewrite dec_15_m1. lits. req. Qed.

Lemma tie_transversalRadius lat (el : ellipsoid (T:=R)) :
  src_transversalRadius ROps lat (el_a el) (el_e el) = transversalRadius ROps el lat.
Proof. unfold src_transversalRadius, transversalRadius, pow2. dict. lits. req. Qed.

Lemma tie_toECEF (el : ellipsoid (T:=R)) (g : geodetic (T:=R)) :
  src_toECEF ROps (el_a el) (el_e2 el) (g_alt g) (g_lat g) (g_lon g)
  = (vx (toECEF ROps el g), vy (toECEF ROps el g), vz (toECEF ROps el g)).
Proof.
  unfold src_toECEF, toECEF, primeVertical. cbv zeta. cbn [vx vy vz]. dict. lits. req.
Qed.

Lemma tie_toLambert (pr : projection (T:=R)) e (w : wgs84 (T:=R)) :
  src_toLambert ROps (p_c pr) e (p_lon0 pr) (p_n pr) (w_lat w) (w_lon w) (p_xs pr) (p_ys pr)
  = (v2x (toLambert ROps pr e w), v2y (toLambert ROps pr e w)).
Proof.
  unfold src_toLambert, toLambert. cbv zeta. rewrite tie_isometricLatitude. cbn [v2x v2y]. dict. req.
Qed.

(* ENUConverter::setAnchor: the 3x3 block written column by column equals the model's frame (rows of the generated tuple
   are rows of the matrix).  The only representational difference is the literal 0.0 in the east column. *)
From Romea Require Import EnuModel.

Lemma dec_0_0 : IZR 0 * powerRZ 10 0 = 0.
Proof. simpl. lra. Qed.

Lemma tie_enuFrame lat lon :
  src_enuFrame ROps lat lon =
  (let m := frame_rotation ROps lat lon in
   (m00 m, m01 m, m02 m, m10 m, m11 m, m12 m, m20 m, m21 m, m22 m)).
Proof.
  unfold src_enuFrame, frame_rotation. cbv zeta. cbn [m00 m01 m02 m10 m11 m12 m20 m21 m22]. dict.
  rewrite dec_0_0. req.
Qed.
