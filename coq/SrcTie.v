(* SrcTie.v — the closed-form leaves of the geodesy models equal the terms regenerated from the C++ source.
   gen/SrcFuns.v is produced on every run by translate/srcfuns.py from the clang AST of /repo; the lemmas below are
   proved for the real-number instance (the one the theorems are about).  Literals differ in representation only
   (the source's `1`, `2`, `1.0`, `1.5` become nofZ / nofDec, the model writes n_one, ntwo, the constant table), so the
   proofs are by computation plus the value of the decimal literals.  If the C++ expression is edited, the generated
   term changes and these lemmas must be re-proved: they fail when the meaning over the reals changes. *)
From Coq Require Import Reals ZArith Lra.
From Romea Require Import Num NumR GeodesyModel LambertModel.
From Romea.gen Require Import RepoConstants SrcFuns.
Local Open Scope R_scope.

Lemma dec_1_0 : IZR 1 * powerRZ 10 0 = 1.
Proof. simpl. lra. Qed.

Lemma dec_15_m1 : IZR 15 * powerRZ 10 (-1) = IZR meridional_radius_exponent_m * powerRZ 10 meridional_radius_exponent_e.
Proof. reflexivity. Qed.

Lemma tie_isometricLatitude lat e : src_isometricLatitude ROps lat e = isometricLatitude ROps lat e.
Proof. reflexivity. Qed.

Lemma tie_grandeNormale lat a e : src_grandeNormale ROps lat a e = grandeNormale ROps lat a e.
Proof. reflexivity. Qed.

Lemma tie_meridionalRadius lat (el : ellipsoid (T:=R)) :
  src_meridionalRadius ROps lat (el_a el) (el_e2 el) (el_e el) = meridionalRadius ROps el lat.
Proof. reflexivity. Qed.

Lemma tie_transversalRadius lat (el : ellipsoid (T:=R)) :
  src_transversalRadius ROps lat (el_a el) (el_e el) = transversalRadius ROps el lat.
Proof. reflexivity. Qed.

Lemma tie_toECEF (el : ellipsoid (T:=R)) (g : geodetic (T:=R)) :
  src_toECEF ROps (g_lon g) (g_lat g) (g_alt g) (el_a el) (el_e2 el)
  = (vx (toECEF ROps el g), vy (toECEF ROps el g), vz (toECEF ROps el g)).
Proof.
  unfold src_toECEF, toECEF, primeVertical. cbn [vx vy vz nofDec nadd nsub nmul ndiv nsqrt nsin ncos n_one ROps].
  rewrite !dec_1_0. reflexivity.
Qed.

Lemma tie_toLambert (pr : projection (T:=R)) e (w : wgs84 (T:=R)) :
  src_toLambert ROps (w_lon w) (w_lat w) e (p_xs pr) (p_c pr) (p_n pr) (p_lon0 pr) (p_ys pr)
  = (v2x (toLambert ROps pr e w), v2y (toLambert ROps pr e w)).
Proof. reflexivity. Qed.

(* ENUConverter::setAnchor: the 3x3 block written column by column equals the model's frame (rows of the generated tuple
   are rows of the matrix).  The only representational difference is the literal 0.0 in the east column. *)
From Romea Require Import EnuModel.

Lemma dec_0_0 : IZR 0 * powerRZ 10 0 = 0.
Proof. simpl. lra. Qed.

Lemma tie_enuFrame lat lon :
  src_enuFrame ROps lat lon =
  (let m := frame_rotation ROps lat lon in
   (m00 m, m01 m, m02 m, m10 m, m11 m, m12 m, m20 m, m21 m, m22 m)).
Proof.
  unfold src_enuFrame, frame_rotation. cbn [m00 m01 m02 m10 m11 m12 m20 m21 m22 nofDec nzero nmul ROps].
  rewrite dec_0_0. reflexivity.
Qed.
