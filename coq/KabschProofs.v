(* KabschProofs.v — lemmas about the closed-form rigid registration model (KabschModel.v), real-number instance.
   Eigen::JacobiSVD is the function argument [svd_of]; its contract is [svd_contract] of LsProofs.v
   (M = U diag(sigma) V^T, U and V orthogonal, sigma >= 0 non-increasing). *)
From Coq Require Import Reals List Arith Lia Lra Bool Psatz Permutation.
From Romea Require Import Num NumR LinAlgBModel LinAlgBProofs LsProofs KabschModel.
Import ListNotations.
Local Open Scope R_scope.

Local Notation mg := (mget ROps).
Local Notation vg := (vget ROps).

(* sum_a sum_b alpha_a beta_b (sum_l W l a W l b) collapses when the columns of W are orthonormal *)
Lemma collapse d (W : nat -> nat -> R) (al be : nat -> R) :
  (forall a b, (a < d)%nat -> (b < d)%nat -> Rsum d (fun l => W l a * W l b) = delta a b) ->
  Rsum d (fun l => Rsum d (fun a => W l a * al a) * Rsum d (fun b => W l b * be b)) = Rsum d (fun a => al a * be a).
Proof.
  intros HW.
  transitivity (Rsum d (fun l => Rsum d (fun a => Rsum d (fun b => (al a * be b) * (W l a * W l b))))).
  { apply Rsum_ext. intros l _. rewrite <- Rsum_scal_r. apply Rsum_ext. intros a _. rewrite <- Rsum_scal_l.
    apply Rsum_ext. intros b _. ring. }
  rewrite Rsum_swap. apply Rsum_ext. intros a Ha. rewrite Rsum_swap.
  rewrite (Rsum_ext d _ (fun b => (al a * be b) * delta a b)).
  - now rewrite Rsum_delta_r'.
  - intros b Hb. rewrite Rsum_scal_l. now rewrite HW.
Qed.

Section Abstract.
Variable d : nat.
Variables U V : nat -> nat -> R.
Variable sg : nat -> R.
Hypothesis HUtU : forall a b, (a < d)%nat -> (b < d)%nat -> Rsum d (fun l => U l a * U l b) = delta a b.
Hypothesis HUUt : forall i j, (i < d)%nat -> (j < d)%nat -> Rsum d (fun a => U i a * U j a) = delta i j.
Hypothesis HVtV : forall a b, (a < d)%nat -> (b < d)%nat -> Rsum d (fun l => V l a * V l b) = delta a b.
Hypothesis HVVt : forall i j, (i < d)%nat -> (j < d)%nat -> Rsum d (fun a => V i a * V j a) = delta i j.
Hypothesis Hsg : forall a, (a < d)%nat -> 0 <= sg a.

(* R_e = V diag(e) U^T *)
Definition Re (e : nat -> R) (i j : nat) : R := Rsum d (fun a => V i a * e a * U j a).

Lemma Re_orthogonal e : (forall a, (a < d)%nat -> e a * e a = 1) ->
  forall i j, (i < d)%nat -> (j < d)%nat -> Rsum d (fun l => Re e l i * Re e l j) = delta i j.
Proof.
  intros He i j Hi Hj. unfold Re.
  rewrite (Rsum_ext d _ (fun l => Rsum d (fun a => V l a * (e a * U i a)) * Rsum d (fun b => V l b * (e b * U j b)))).
  2:{ intros l _. f_equal; apply Rsum_ext; intros; ring. }
  rewrite (collapse d V _ _ HVtV). rewrite <- (HUUt i j Hi Hj). apply Rsum_ext. intros a Ha.
  transitivity ((e a * e a) * (U i a * U j a)); [ring|]. rewrite He by exact Ha. ring.
Qed.

(* the cross covariance as the SVD gives it *)
Definition Cm (i j : nat) : R := Rsum d (fun a => U i a * sg a * V j a).

(* trace(Q C) = sum_a sigma_a (V^T Q U)_aa *)
Definition trQC (Q : nat -> nat -> R) : R := Rsum d (fun i => Rsum d (fun j => Q i j * Cm j i)).
Definition Zdiag (Q : nat -> nat -> R) (a : nat) : R := Rsum d (fun i => V i a * Rsum d (fun j => Q i j * U j a)).

Lemma trQC_diag Q : trQC Q = Rsum d (fun a => sg a * Zdiag Q a).
Proof.
  unfold trQC, Cm, Zdiag.
  transitivity (Rsum d (fun i => Rsum d (fun a => Rsum d (fun j => sg a * (V i a * (Q i j * U j a)))))).
  { apply Rsum_ext. intros i _. rewrite Rsum_swap. apply Rsum_ext. intros j _.
    rewrite <- Rsum_scal_l. apply Rsum_ext. intros a _. ring. }
  rewrite Rsum_swap. apply Rsum_ext. intros a _. rewrite <- Rsum_scal_l. apply Rsum_ext. intros i _.
  rewrite Rsum_scal_l. f_equal. now rewrite Rsum_scal_l.
Qed.

(* an orthogonal Q keeps lengths: |Q u|^2 = |u|^2 *)
Lemma orth_norm Q (u : nat -> R) :
  (forall a b, (a < d)%nat -> (b < d)%nat -> Rsum d (fun l => Q l a * Q l b) = delta a b) ->
  Rsum d (fun i => Rsum d (fun j => Q i j * u j) * Rsum d (fun j => Q i j * u j)) = Rsum d (fun j => u j * u j).
Proof. intros HQ. exact (collapse d Q u u HQ). Qed.

Lemma Zdiag_le_1 Q a : (a < d)%nat ->
  (forall a b, (a < d)%nat -> (b < d)%nat -> Rsum d (fun l => Q l a * Q l b) = delta a b) -> Zdiag Q a <= 1.
Proof.
  intros Ha HQ. unfold Zdiag.
  set (w := fun i => Rsum d (fun j => Q i j * U j a)).
  assert (Hw : Rsum d (fun i => w i * w i) = 1).
  { unfold w. rewrite (orth_norm Q (fun j => U j a) HQ). rewrite HUtU by exact Ha. apply delta_same. }
  assert (Hv : Rsum d (fun i => V i a * V i a) = 1) by (rewrite HVtV by exact Ha; apply delta_same).
  assert (Hsq : 0 <= Rsum d (fun i => (V i a - w i) * (V i a - w i))) by (apply Rsum_nonneg; intros; apply Rle_0_sqr).
  rewrite (Rsum_ext d _ (fun i => V i a * V i a + w i * w i - 2 * (V i a * w i))) in Hsq by (intros; ring).
  rewrite Rsum_minus, Rsum_plus, Rsum_scal_l, Hv, Hw in Hsq. change (Rsum d (fun i => V i a * w i) <= 1). lra.
Qed.

Lemma Zdiag_Re e a : (a < d)%nat -> Zdiag (Re e) a = e a.
Proof.
  intros Ha. unfold Zdiag, Re.
  transitivity (Rsum d (fun i => V i a * (V i a * e a))).
  - apply Rsum_ext; intros i _. f_equal.
    transitivity (Rsum d (fun b => V i b * e b * delta b a)).
    + transitivity (Rsum d (fun j => Rsum d (fun b => V i b * e b * (U j b * U j a)))).
      { apply Rsum_ext. intros j _. rewrite <- Rsum_scal_r. apply Rsum_ext. intros; ring. }
      rewrite Rsum_swap. apply Rsum_ext. intros b Hb. rewrite Rsum_scal_l, HUtU by assumption. ring.
    + now rewrite Rsum_delta_r.
  - transitivity (Rsum d (fun i => e a * (V i a * V i a))); [apply Rsum_ext; intros; ring|].
    rewrite Rsum_scal_l, HVtV, delta_same by exact Ha. ring.
Qed.

(* optimality: R = V U^T maximises trace(Q C) over all orthogonal Q *)
Lemma trace_optimal Q :
  (forall a b, (a < d)%nat -> (b < d)%nat -> Rsum d (fun l => Q l a * Q l b) = delta a b) ->
  trQC Q <= trQC (Re (fun _ => 1)).
Proof.
  intros HQ. rewrite !trQC_diag. apply Rsum_le. intros a Ha.
  rewrite Zdiag_Re by exact Ha. pose proof (Zdiag_le_1 Q a Ha HQ). pose proof (Hsg a Ha). nra.
Qed.

(* with the last direction flipped the trace only loses 2 sigma_last *)
Lemma trace_Re e : trQC (Re e) = Rsum d (fun a => sg a * e a).
Proof. rewrite trQC_diag. apply Rsum_ext. intros a Ha. now rewrite Zdiag_Re. Qed.

End Abstract.

(* ---- registration cost of N centred pairs: sum_n |Q s_n - t_n|^2 = sum|s|^2 + sum|t|^2 - 2 trace(Q C) ---- *)
Section Cost.
Variables (d N : nat) (S T : nat -> nat -> R).     (* S n i, T n i: centred source / target coordinates *)
Definition Ccov (j i : nat) : R := Rsum N (fun n => S n j * T n i).
Definition rcost (Q : nat -> nat -> R) : R :=
  Rsum N (fun n => Rsum d (fun i => (Rsum d (fun j => Q i j * S n j) - T n i) * (Rsum d (fun j => Q i j * S n j) - T n i))).

Lemma rcost_expand Q :
  (forall a b, (a < d)%nat -> (b < d)%nat -> Rsum d (fun l => Q l a * Q l b) = delta a b) ->
  rcost Q = Rsum N (fun n => Rsum d (fun j => S n j * S n j)) + Rsum N (fun n => Rsum d (fun i => T n i * T n i))
            - 2 * Rsum d (fun i => Rsum d (fun j => Q i j * Ccov j i)).
Proof.
  intros HQ. unfold rcost, Ccov.
  rewrite (Rsum_ext N _ (fun n => Rsum d (fun j => S n j * S n j) + Rsum d (fun i => T n i * T n i)
                                  - 2 * Rsum d (fun i => Rsum d (fun j => Q i j * (S n j * T n i))))).
  - rewrite Rsum_minus, Rsum_plus, Rsum_scal_l. f_equal. f_equal.
    rewrite Rsum_swap. apply Rsum_ext. intros i _. rewrite Rsum_swap. apply Rsum_ext. intros j _.
    now rewrite Rsum_scal_l.
  - intros n _. rewrite <- (orth_norm d Q (fun j => S n j) HQ).
    rewrite <- Rsum_scal_l, <- Rsum_plus, <- Rsum_minus. apply Rsum_ext. intros i _.
    rewrite (Rsum_ext d (fun j => Q i j * (S n j * T n i)) (fun j => Q i j * S n j * T n i)) by (intros; ring).
    rewrite Rsum_scal_r. ring.
Qed.
End Cost.

(* ---- the model's rotation block ---- *)
Section Model.
Variable svd_of : nat -> list (list R) -> (list (list R) * list R) * list (list R).

Definition elast (d : nat) (a : nat) : R := if Nat.eqb (S a) d then -1 else 1.

Lemma elast_sq d a : elast d a * elast d a = 1.
Proof. unfold elast. destruct (Nat.eqb (S a) d); lra. Qed.

Lemma R0_get d U V i j : (i < d)%nat -> (j < d)%nat ->
  mg (mmul ROps d d d V (mtrans ROps d d U)) i j = Re d (mg U) (mg V) (fun _ => 1) i j.
Proof.
  intros Hi Hj. unfold mmul, mtrans, Re. rewrite mget_mtab by assumption. unfold fmmul. rsimpl.
  apply Rsum_ext. intros a Ha. rewrite mget_mtab by assumption. unfold ftr. ring.
Qed.

Lemma R1_get d U V i j : (i < d)%nat -> (j < d)%nat ->
  mg (mmul ROps d d d (negate_last_col ROps d V) (mtrans ROps d d U)) i j = Re d (mg U) (mg V) (elast d) i j.
Proof.
  intros Hi Hj. unfold mmul, mtrans, Re, negate_last_col. rewrite mget_mtab by assumption. unfold fmmul. rsimpl.
  apply Rsum_ext. intros a Ha. rewrite !mget_mtab by assumption. unfold ftr, elast. rsimpl.
  destruct (Nat.eqb (S a) d); ring.
Qed.

Definition is_orthogonal (d : nat) (R : list (list R)) : Prop :=
  forall i j, (i < d)%nat -> (j < d)%nat -> Rsum d (fun l => mg R l i * mg R l j) = delta i j.

Lemma det_delta d : (d = 2 \/ d = 3)%nat -> fdet ROps d delta = 1.
Proof. intros [->| ->]; cbn; unfold fdet2, fdet3, delta; cbn; ring. Qed.

Lemma fdet_ext d A B : (d = 2 \/ d = 3)%nat ->
  (forall i j, (i < d)%nat -> (j < d)%nat -> A i j = B i j) -> fdet ROps d A = fdet ROps d B.
Proof. intros [->| ->] H; cbn; [now apply fdet2_ext|now apply fdet3_ext]. Qed.

Lemma fdet_mul d A B : (d = 2 \/ d = 3)%nat ->
  fdet ROps d (fun i j => Rsum d (fun l => A i l * B l j)) = fdet ROps d A * fdet ROps d B.
Proof. intros [->| ->]; cbn; [exact (fdet2_mul A B)|exact (fdet3_mul A B)]. Qed.

Lemma fdet_tr d A : (d = 2 \/ d = 3)%nat -> fdet ROps d (fun i j => A j i) = fdet ROps d A.
Proof. intros [->| ->]; cbn; [exact (fdet2_tr A)|exact (fdet3_tr A)]. Qed.

(* an orthogonal matrix has determinant +1 or -1 *)
Lemma orthogonal_det_sq d (Rm : nat -> nat -> R) : (d = 2 \/ d = 3)%nat ->
  (forall i j, (i < d)%nat -> (j < d)%nat -> Rsum d (fun l => Rm l i * Rm l j) = delta i j) ->
  fdet ROps d Rm * fdet ROps d Rm = 1.
Proof.
  intros Hd H. rewrite <- (det_delta d Hd). rewrite <- (fdet_tr d Rm Hd) at 1.
  rewrite <- fdet_mul by exact Hd. apply fdet_ext; [exact Hd|]. intros i j Hi Hj. now apply H.
Qed.

(* flipping the last column of V flips the determinant of V diag(e) U^T *)
Lemma det_Re_flip d U V : (d = 2 \/ d = 3)%nat ->
  fdet ROps d (Re d U V (elast d)) = - fdet ROps d (Re d U V (fun _ => 1)).
Proof.
  intros [->| ->]; cbn; unfold fdet2, fdet3, Re, elast; cbn [sumn Nat.eqb]; rsimpl; ring.
Qed.

Section WithContract.
Variables (d : nat) (cov : list (list R)).
Hypothesis Hd : (d = 2 \/ d = 3)%nat.
Hypothesis Hc : svd_contract d cov (svd_of d cov).

Lemma rotation_cases fixed :
  exists e, (e = (fun _ => 1) \/ e = elast d) /\
    let '(U, _, V) := svd_of d cov in
    forall i j, (i < d)%nat -> (j < d)%nat -> mg (rotation_of ROps svd_of fixed d cov) i j = Re d (mg U) (mg V) e i j.
Proof.
  unfold rotation_of. destruct (svd_of d cov) as [[U sg] V].
  destruct (andb fixed _).
  - exists (elast d). split; [now right|]. intros. now apply R1_get.
  - exists (fun _ => 1). split; [now left|]. intros. now apply R0_get.
Qed.

(* R^T R = I, original and repaired code *)
Theorem rotation_orthogonal fixed : is_orthogonal d (rotation_of ROps svd_of fixed d cov).
Proof.
  destruct (rotation_cases fixed) as (e & He & Hget). unfold svd_contract in Hc.
  destruct (svd_of d cov) as [[U sg] V]. destruct Hc as (_ & HUtU & HUUt & HVtV & HVVt & _ & _).
  intros i j Hi Hj.
  rewrite (Rsum_ext d _ (fun l => Re d (mg U) (mg V) e l i * Re d (mg U) (mg V) e l j))
    by (intros l Hl; now rewrite !Hget).
  apply (Re_orthogonal d (mg U) (mg V) HUUt HVtV); [|assumption|assumption].
  intros a _. destruct He as [-> | ->]; [lra|apply elast_sq].
Qed.

(* det R = +1 for the repaired code *)
Theorem rotation_proper : fdet ROps d (mg (rotation_of ROps svd_of true d cov)) = 1.
Proof.
  pose proof (rotation_orthogonal true) as Horth.
  pose proof (orthogonal_det_sq d (mg (rotation_of ROps svd_of true d cov)) Hd Horth) as Hsq.
  assert (Hpos : 0 <= fdet ROps d (mg (rotation_of ROps svd_of true d cov))).
  { unfold rotation_of in *. destruct (svd_of d cov) as [[U sg] V]. cbn [andb].
    set (R0 := mmul ROps d d d V (mtrans ROps d d U)) in *. rsimpl.
    destruct (Rltb (fdet ROps d (mg R0)) 0) eqn:E.
    - apply Rltb_true in E.
      rewrite (fdet_ext d _ (Re d (mg U) (mg V) (elast d)) Hd) by (intros; now apply R1_get).
      rewrite det_Re_flip by exact Hd.
      rewrite <- (fdet_ext d (mg R0) (Re d (mg U) (mg V) (fun _ => 1)) Hd) by (intros; now apply R0_get). lra.
    - apply Rltb_false in E. exact E. }
  nra.
Qed.

End WithContract.

(* ---- the original code returns a reflection on a coplanar set ---- *)
Definition cop_cov : list (list R) := [[1;0;0];[0;1;0];[0;0;0]].
Definition cop_svd (k : nat) (M : list (list R)) : (list (list R) * list R) * list (list R) :=
  (([[1;0;0];[0;1;0];[0;0;1]], [1;1;0]), [[1;0;0];[0;1;0];[0;0;-1]]).

Lemma cop_contract : svd_contract 3 cop_cov (cop_svd 3 cop_cov).
Proof.
  unfold svd_contract, cop_svd, cop_cov.
  repeat split; intros;
    repeat match goal with
           | i : nat |- _ => destruct i as [|i]; [|try lia]
           end; try lia; cbn; unfold delta; cbn; try lra.
Qed.

End Model.

Lemma cop_refuted : fdet ROps 3 (mg (rotation_of ROps cop_svd false 3 cop_cov)) = -1.
Proof. cbn. unfold fdet3. cbn. ring. Qed.

Lemma cop_fixed : fdet ROps 3 (mg (rotation_of ROps cop_svd true 3 cop_cov)) = 1.
Proof. apply rotation_proper; [now right|apply cop_contract]. Qed.

(* ---- order of the correspondences ---- *)
Lemma sum_list_acc {A} (f : A -> R) l acc : fold_left (fun a x => a + f x) l acc = acc + fold_left (fun a x => a + f x) l 0.
Proof.
  revert acc. induction l as [|x l IH]; intros acc; cbn; [lra|]. rewrite IH. rewrite (IH (0 + f x)). lra.
Qed.

Lemma sum_list_cons {A} (f : A -> R) x l : sum_list ROps f (x :: l) = f x + sum_list ROps f l.
Proof. unfold sum_list. cbn. rsimpl. rewrite sum_list_acc. lra. Qed.

Lemma sum_list_perm {A} (f : A -> R) l l' : Permutation l l' -> sum_list ROps f l = sum_list ROps f l'.
Proof.
  induction 1.
  - reflexivity.
  - rewrite !sum_list_cons. now rewrite IHPermutation.
  - rewrite !sum_list_cons. lra.
  - congruence.
Qed.

Theorem estimate_pairs_perm svd_of fixed d ps (l l' : list (list R * list R)) :
  Permutation l l' -> estimate_pairs ROps svd_of fixed d ps l = estimate_pairs ROps svd_of fixed d ps l'.
Proof.
  intros HP. unfold estimate_pairs.
  assert (Hm1 : mean_of ROps ps (map fst l) = mean_of ROps ps (map fst l')).
  { unfold mean_of. rewrite !map_length, (Permutation_length HP). apply tab_ext. intros c _.
    f_equal. apply sum_list_perm. now apply Permutation_map. }
  assert (Hm2 : mean_of ROps ps (map snd l) = mean_of ROps ps (map snd l')).
  { unfold mean_of. rewrite !map_length, (Permutation_length HP). apply tab_ext. intros c _.
    f_equal. apply sum_list_perm. now apply Permutation_map. }
  rewrite Hm1, Hm2. f_equal. f_equal. unfold cross_cov. apply mtab_ext. intros i j _ _. now apply sum_list_perm.
Qed.

(* ---- least-squares optimality and exact data (N centred pairs S n, T n; C = sum_n S_n T_n^T = U diag(sg) V^T) ---- *)
Section Optimal.
Variables (d N : nat) (S T : nat -> nat -> R) (U V : nat -> nat -> R) (sg : nat -> R).
Hypothesis HUtU : forall a b, (a < d)%nat -> (b < d)%nat -> Rsum d (fun l => U l a * U l b) = delta a b.
Hypothesis HUUt : forall i j, (i < d)%nat -> (j < d)%nat -> Rsum d (fun a => U i a * U j a) = delta i j.
Hypothesis HVtV : forall a b, (a < d)%nat -> (b < d)%nat -> Rsum d (fun l => V l a * V l b) = delta a b.
Hypothesis Hsg : forall a, (a < d)%nat -> 0 <= sg a.
Hypothesis HC : forall j i, (j < d)%nat -> (i < d)%nat -> Ccov N S T j i = Cm d U V sg j i.

Definition is_orth (Q : nat -> nat -> R) : Prop :=
  forall a b, (a < d)%nat -> (b < d)%nat -> Rsum d (fun l => Q l a * Q l b) = delta a b.

Lemma rcost_trace Q : is_orth Q ->
  rcost d N S T Q = Rsum N (fun n => Rsum d (fun j => S n j * S n j)) + Rsum N (fun n => Rsum d (fun i => T n i * T n i))
                    - 2 * trQC d U V sg Q.
Proof.
  intros HQ. rewrite (rcost_expand d N S T Q HQ). f_equal. f_equal. unfold trQC.
  apply Rsum_ext. intros i Hi. apply Rsum_ext. intros j Hj. now rewrite HC.
Qed.

(* R = V U^T is a least-squares optimal orthogonal matrix *)
Theorem kabsch_optimal Q : is_orth Q -> rcost d N S T (Re d U V (fun _ => 1)) <= rcost d N S T Q.
Proof.
  intros HQ.
  assert (HR : is_orth (Re d U V (fun _ => 1))).
  { intros a b Ha Hb. apply (Re_orthogonal d U V HUUt HVtV); auto. intros; lra. }
  rewrite (rcost_trace Q HQ), (rcost_trace _ HR).
  pose proof (trace_optimal d U V sg HUtU HVtV Hsg Q HQ). lra.
Qed.

Lemma rcost_zero_maps Q : rcost d N S T Q <= 0 ->
  forall n i, (n < N)%nat -> (i < d)%nat -> Rsum d (fun j => Q i j * S n j) = T n i.
Proof.
  intros H n i Hn Hi.
  assert (Hnn : forall n, (n < N)%nat -> 0 <= Rsum d (fun i => (Rsum d (fun j => Q i j * S n j) - T n i) * (Rsum d (fun j => Q i j * S n j) - T n i)))
    by (intros; apply Rsum_nonneg; intros; apply Rle_0_sqr).
  assert (H0 : rcost d N S T Q = 0).
  { assert (0 <= rcost d N S T Q) by (unfold rcost; now apply Rsum_nonneg). lra. }
  pose proof (Rsum_nonneg_zero N _ Hnn H0 n Hn) as Hz.
  pose proof (Rsum_sq_zero d _ Hz i Hi) as E. cbv beta in E. lra.
Qed.

(* exact data T_n = R0 S_n with R0 orthogonal: the estimate maps every (centred) source onto its target —
   also when the cross covariance is singular (coplanar sets) *)
Theorem kabsch_exact_maps R0 : is_orth R0 ->
  (forall n i, (n < N)%nat -> (i < d)%nat -> T n i = Rsum d (fun j => R0 i j * S n j)) ->
  forall n i, (n < N)%nat -> (i < d)%nat -> Rsum d (fun j => Re d U V (fun _ => 1) i j * S n j) = T n i.
Proof.
  intros H0 Hex. apply rcost_zero_maps.
  assert (E : rcost d N S T R0 = 0).
  { unfold rcost. apply Rsum_zero. intros n Hn. apply Rsum_zero. intros i Hi. rewrite (Hex n i Hn Hi). ring. }
  pose proof (kabsch_optimal R0 H0). lra.
Qed.

(* the repaired code flips the last direction when det < 0; if the last singular value is 0 (coplanar data) the
   flipped matrix is still optimal, hence still maps exact data exactly *)
Theorem kabsch_exact_maps_flipped R0 : is_orth R0 -> (1 <= d)%nat -> sg (d - 1)%nat = 0 ->
  (forall n i, (n < N)%nat -> (i < d)%nat -> T n i = Rsum d (fun j => R0 i j * S n j)) ->
  forall n i, (n < N)%nat -> (i < d)%nat -> Rsum d (fun j => Re d U V (elast d) i j * S n j) = T n i.
Proof.
  intros H0 Hd1 Hs Hex. apply rcost_zero_maps.
  assert (E : rcost d N S T R0 = 0).
  { unfold rcost. apply Rsum_zero. intros n Hn. apply Rsum_zero. intros i Hi. rewrite (Hex n i Hn Hi). ring. }
  assert (HRe : is_orth (Re d U V (elast d))).
  { intros a b Ha Hb. apply (Re_orthogonal d U V HUUt HVtV); auto. intros; apply elast_sq. }
  assert (HR1 : is_orth (Re d U V (fun _ => 1))).
  { intros a b Ha Hb. apply (Re_orthogonal d U V HUUt HVtV); auto. intros; lra. }
  rewrite (rcost_trace _ HRe).
  pose proof (kabsch_optimal R0 H0) as Hopt. rewrite (rcost_trace _ HR1), E in Hopt.
  rewrite (trace_Re d U V sg HUtU HVtV) in *.
  assert (Rsum d (fun a => sg a * elast d a) = Rsum d (fun a => sg a * 1)).
  { apply Rsum_ext. intros a Ha. unfold elast. destruct (Nat.eqb (Datatypes.S a) d) eqn:Ea; [|reflexivity].
    apply Nat.eqb_eq in Ea. replace a with (d - 1)%nat by lia. rewrite Hs. ring. }
  rewrite (rcost_trace _ H0) in E. lra.
Qed.

End Optimal.

(* translation: t = tm - R sm maps s onto R (s - sm) + tm *)
Lemma translation_maps d (Rm : nat -> nat -> R) (s sm tm : nat -> R) i :
  Rsum d (fun j => Rm i j * s j) + (tm i - Rsum d (fun j => Rm i j * sm j)) = Rsum d (fun j => Rm i j * (s j - sm j)) + tm i.
Proof.
  rewrite (Rsum_ext d (fun j => Rm i j * (s j - sm j)) (fun j => Rm i j * s j - Rm i j * sm j)) by (intros; ring).
  rewrite Rsum_minus. ring.
Qed.
