(* LsCovGeneral.v — C12, least-squares sentence for an ARBITRARY configured preconditioner (after the repair 870e444):
   the reported matrix is variance * A * inv * A^T; with the oracle contract inv * (J^T J) = I and any left inverse B of A
   (B * A = I), stripping the preconditioner gives the data variance times the inverse normal matrix:
       (B * cov * B^T) * (J^T J) = variance * I .
   No symmetry or diagonality of A is needed any more. *)
From Coq Require Import Reals ZArith Lra Lia Arith Bool.
From Romea Require Import Num NumR AnglesModel AnglesProofs AnglesRoundtrip PoseCovModel PoseCovProofs PoseJacProofs LsCovContract.
Local Open Scope R_scope.

Definition delta (i k : nat) : R := if Nat.eqb i k then 1 else 0.

Lemma rsum_delta_l n i f : (i < n)%nat -> rsum n (fun s => delta i s * f s) = f i.
Proof.
  intros Hi. rewrite (rsum_single n i); [unfold delta; rewrite Nat.eqb_refl; ring|assumption|].
  intros s Hs Hne. unfold delta. assert (E : Nat.eqb i s = false) by (apply Nat.eqb_neq; auto). rewrite E. ring.
Qed.

(* ---- a little matrix algebra on the function view (all sums run over indices < n) ---- *)
Notation gm := (gmul ROps).

Lemma gmul_unfold n (a b : mat R) i j : gm n a b i j = rsum n (fun k => a i k * b k j).
Proof. reflexivity. Qed.

Lemma gmul_ext n (a a' b b' : mat R) i j :
  (forall k, (k < n)%nat -> a i k = a' i k) -> (forall k, (k < n)%nat -> b k j = b' k j) -> gm n a b i j = gm n a' b' i j.
Proof. intros Ha Hb. rewrite !gmul_unfold. apply rsum_ext. intros k Hk. rewrite (Ha k Hk), (Hb k Hk). reflexivity. Qed.

Lemma gmul_assoc n (a b c : mat R) i j : gm n (gm n a b) c i j = gm n a (gm n b c) i j.
Proof.
  rewrite (gmul_unfold n (gm n a b) c), (gmul_unfold n a (gm n b c)).
  transitivity (rsum n (fun k => rsum n (fun l => a i l * b l k * c k j))).
  - apply rsum_ext. intros k Hk. rewrite gmul_unfold, <- rsum_scal_r. reflexivity.
  - rewrite rsum_swap. apply rsum_ext. intros l Hl. rewrite gmul_unfold, <- rsum_scal.
    apply rsum_ext. intros k Hk. ring.
Qed.

Lemma gtrans_gmul n (a b : mat R) i j : gtrans (gm n a b) i j = gm n (gtrans b) (gtrans a) i j.
Proof. unfold gtrans. rewrite !gmul_unfold. apply rsum_ext. intros k Hk. ring. Qed.

Lemma gmul_delta_l n (e x : mat R) i j :
  (i < n)%nat -> (forall s, (s < n)%nat -> e i s = delta i s) -> gm n e x i j = x i j.
Proof.
  intros Hi He. rewrite gmul_unfold.
  transitivity (rsum n (fun s => delta i s * x s j)); [apply rsum_ext; intros s Hs; rewrite (He s Hs); reflexivity|].
  apply (rsum_delta_l n i (fun s => x s j) Hi).
Qed.

Lemma gmul_delta_r n (x e : mat R) i j :
  (j < n)%nat -> (forall s, (s < n)%nat -> e s j = delta j s) -> gm n x e i j = x i j.
Proof.
  intros Hj He. rewrite gmul_unfold.
  transitivity (rsum n (fun s => delta j s * x i s)); [apply rsum_ext; intros s Hs; rewrite (He s Hs); ring|].
  apply (rsum_delta_l n j (fun s => x i s) Hj).
Qed.

(* B * (A * X * A^T) * B^T = X when B * A = I *)
Lemma strip_preconditioner n (a b x : mat R) :
  (forall i s, (i < n)%nat -> (s < n)%nat -> gm n b a i s = delta i s) ->
  forall i j, (i < n)%nat -> (j < n)%nat ->
    gm n (gm n b (gm n (gm n a x) (gtrans a))) (gtrans b) i j = x i j.
Proof.
  intros HB i j Hi Hj.
  (* = ((B A) X) (B A)^T *)
  transitivity (gm n (gm n (gm n b a) x) (gtrans (gm n b a)) i j).
  - transitivity (gm n (gm n (gm n (gm n b a) x) (gtrans a)) (gtrans b) i j).
    + apply gmul_ext; [|reflexivity]. intros k Hk.
      rewrite <- gmul_assoc. apply gmul_ext; [|reflexivity]. intros l Hl. rewrite <- gmul_assoc. reflexivity.
    + rewrite gmul_assoc. apply gmul_ext; [reflexivity|]. intros k Hk. rewrite gtrans_gmul. reflexivity.
  - rewrite gmul_delta_r; [|assumption|intros s Hs; unfold gtrans; apply HB; assumption].
    rewrite gmul_delta_l; [reflexivity|assumption|intros s Hs; apply HB; assumption].
Qed.

Lemma ls_covariance_inverse_normal_general m n (jac a b inv : mat R) v :
  (forall i s, (i < n)%nat -> (s < n)%nat -> gm n b a i s = delta i s) ->
  ls_inv_contract n inv (ls_JtJ ROps m n jac) ->
  forall i k, (i < n)%nat -> (k < n)%nat ->
    gm n (gm n (gm n b (ls_covariance ROps n a inv v)) (gtrans b)) (ls_JtJ ROps m n jac) i k = if Nat.eqb i k then v else 0.
Proof.
  intros HB Hc i k Hi Hk.
  rewrite gmul_unfold.
  transitivity (rsum n (fun j => v * (inv i j * ls_JtJ ROps m n jac j k))).
  - apply rsum_ext. intros j Hj.
    replace (gm n (gm n b (ls_covariance ROps n a inv v)) (gtrans b) i j) with (v * inv i j); [ring|].
    rewrite <- (strip_preconditioner n a b inv HB i j Hi Hj).
    rewrite (gmul_unfold n (gm n b (ls_covariance ROps n a inv v))), (gmul_unfold n (gm n b (gm n (gm n a inv) (gtrans a)))).
    rewrite <- rsum_scal. apply rsum_ext. intros q Hq.
    rewrite !gmul_unfold. rewrite <- Rmult_assoc, <- rsum_scal. f_equal.
    apply rsum_ext. intros p Hp.
    unfold ls_covariance, gscale. change (gmul ROps) with gm. change (nmul ROps) with Rmult. ring.
  - rewrite rsum_scal, (Hc i k Hi Hk). destruct (Nat.eqb i k); ring.
Qed.

(* witness: two unknowns, J = I, a shear preconditioner A = [[1,1],[0,1]] with inverse B = [[1,-1],[0,1]] *)
Definition ex_shear : mat R := fun i j => match i, j with 1%nat, 0%nat => 0 | _, _ => 1 end.
Definition ex_shear_inv : mat R := fun i j => match i, j with 0%nat, 1%nat => -1 | 1%nat, 0%nat => 0 | _, _ => 1 end.
Lemma ex_ls_general_contract :
  (forall i s, (i < 2)%nat -> (s < 2)%nat -> gm 2 ex_shear_inv ex_shear i s = delta i s) /\
  ls_inv_contract 2 (fun i j => delta i j) (ls_JtJ ROps 2 2 (fun i j => delta i j)) /\
  ex_shear 0%nat 1%nat <> ex_shear 1%nat 0%nat.
Proof.
  split; [|split].
  - intros i s Hi Hs. destruct i as [|[|i]]; destruct s as [|[|s]]; try lia; unfold gmul, ex_shear, ex_shear_inv, delta; cbn; lra.
  - intros i k Hi Hk. destruct i as [|[|i]]; destruct k as [|[|k]]; try lia; unfold ls_JtJ, delta; cbn; lra.
  - unfold ex_shear. lra.
Qed.
