(* Properties_C09.v — placeholder, theorems follow *)
From Romea Require Import Num NormalsModel.
