(* Properties_C09.v — C09: normal and curvature estimation (NormalAndCurvatureEstimation.cpp).
   The eigen-solver is an oracle [eig]; every theorem carries its contract [eig_contract] as a hypothesis
   about the one call the code makes (on the covariance of the neighbours).  [old_rule = false] is the code as
   it is now (flip test on the Cartesian parts), [old_rule = true] the original flip rule.
   Only statements, each closed by [exact <lemma>] and followed by Print Assumptions. *)
From Coq Require Import Reals ZArith List Bool Arith Lra Lia.
From Romea Require Import Num NumR NormalsModel NormalsProofs SrcEigen SrcNormalsLib SrcTieC09 NormalsRotationCore NormalsRotation.
From Romea.gen Require Import SrcNormals.
Import ListNotations.
Local Open Scope R_scope.

(* the Cartesian part of the written normal has unit length *)
Theorem C09_normal_unit : forall eig dim size p nb normal_in,
  dim = 2%nat \/ dim = 3%nat ->
  eig_contract dim (covariance ROps dim size nb) (eig (covariance ROps dim size nb)) ->
  let n := firstn dim (e_normal (estimate_point ROps eig false dim size p nb normal_in)) in
  vdot ROps n n = 1.
Proof. exact normal_unit. Qed.
Print Assumptions C09_normal_unit.

(* ... and points toward the sensor (origin): n . p_cart <= 0, for every p (also p = 0), every point size *)
Theorem C09_normal_faces_sensor : forall eig dim size p nb normal_in,
  dim = 2%nat \/ dim = 3%nat ->
  eig_contract dim (covariance ROps dim size nb) (eig (covariance ROps dim size nb)) ->
  let n := firstn dim (e_normal (estimate_point ROps eig false dim size p nb normal_in)) in
  vdot ROps n (firstn dim p) <= 0.
Proof. exact normal_faces_sensor. Qed.
Print Assumptions C09_normal_faces_sensor.

(* the original rule (test on the full homogeneous vectors, caller's w = 1) violates it *)
Theorem C09_normal_flip_homog_refuted :
  exists (eig : list (list R) -> list R * list (list R)) dim size p nb normal_in,
    eig_contract dim (covariance ROps dim size nb) (eig (covariance ROps dim size nb)) /\
    (size = S dim /\ length p = size /\ vcoord ROps p dim = 1 /\
     Forall (fun q => length q = size /\ vcoord ROps q dim = 1) nb) /\
    normal_in = [0; 0; 0; 1] /\
    vdot ROps (firstn dim (e_normal (estimate_point ROps eig true dim size p nb normal_in))) (firstn dim p) > 0.
Proof. exact normal_flip_homog_refuted. Qed.
Print Assumptions C09_normal_flip_homog_refuted.

(* where the original rule was right: the caller's extra entry of the normal (index dim) is 0 — which covers
   Cartesian point types (length normal_in = dim, so that entry reads as 0) and homogeneous normals with w = 0 *)
Theorem C09_normal_faces_sensor_old_rule_w0 : forall eig dim size p nb normal_in,
  dim = 2%nat \/ dim = 3%nat ->
  eig_contract dim (covariance ROps dim size nb) (eig (covariance ROps dim size nb)) ->
  (length p <= S dim)%nat -> vcoord ROps normal_in dim = 0 ->
  let n := firstn dim (e_normal (estimate_point ROps eig true dim size p nb normal_in)) in
  vdot ROps n (firstn dim p) <= 0.
Proof. exact normal_faces_sensor_old_rule_w0. Qed.
Print Assumptions C09_normal_faces_sensor_old_rule_w0.

(* the normal is the direction of least variance: n^T C n = lambda_0 <= x^T C x for every unit x *)
Theorem C09_normal_least_variance : forall eig dim size p nb normal_in,
  dim = 2%nat \/ dim = 3%nat ->
  eig_contract dim (covariance ROps dim size nb) (eig (covariance ROps dim size nb)) ->
  let C := covariance ROps dim size nb in
  let e := estimate_point ROps eig false dim size p nb normal_in in
  let n := firstn dim (e_normal e) in
  quad dim C n = vcoord ROps (e_lambda e) 0 /\
  forall x, length x = dim -> vdot ROps x x = 1 -> vcoord ROps (e_lambda e) 0 <= quad dim C x.
Proof. exact normal_least_variance. Qed.
Print Assumptions C09_normal_least_variance.

(* what x^T C x is: the mean square deviation of the neighbours from their mean along x
   ([lsum g l] = fold_right Rplus 0 (map g l); no hypothesis on the neighbour list is needed) *)
Theorem C09_quad_cov_is_variance : forall dim size nb x,
  dim = 2%nat \/ dim = 3%nat -> length x = dim ->
  quad dim (covariance ROps dim size nb) x =
  lsum (fun q => (vdot ROps (firstn dim (vsub ROps q (mean ROps size nb))) x) ^ 2) nb / INR (length nb).
Proof. exact quad_cov_is_variance. Qed.
Print Assumptions C09_quad_cov_is_variance.

Theorem C09_quad_cov_nonneg : forall dim size nb x,
  dim = 2%nat \/ dim = 3%nat -> length x = dim -> 0 <= quad dim (covariance ROps dim size nb) x.
Proof. exact quad_cov_nonneg. Qed.
Print Assumptions C09_quad_cov_nonneg.

(* curvature = lambda_0 / sum(lambda) lies in [0, 1/dim] whenever the sum is positive (otherwise the C++ divides 0 by 0) *)
Theorem C09_curvature_range : forall eig dim size p nb normal_in,
  dim = 2%nat \/ dim = 3%nat ->
  eig_contract dim (covariance ROps dim size nb) (eig (covariance ROps dim size nb)) ->
  let e := estimate_point ROps eig false dim size p nb normal_in in
  0 < vsum ROps (e_lambda e) -> 0 <= e_curvature e <= 1 / INR dim.
Proof. exact curvature_range. Qed.
Print Assumptions C09_curvature_range.

(* neighbours in a common hyperplane m . x = c (|m| = 1), not all on a lower-dimensional set (lambda_1 > 0):
   the normal is exactly +-m and the curvature exactly 0 *)
Theorem C09_planar_exact : forall eig dim size p nb normal_in m c,
  dim = 2%nat \/ dim = 3%nat ->
  eig_contract dim (covariance ROps dim size nb) (eig (covariance ROps dim size nb)) ->
  (forall q, In q nb -> length q = size) ->
  length m = dim -> vdot ROps m m = 1 ->
  (forall q, In q nb -> vdot ROps m (firstn dim q) = c) ->
  let e := estimate_point ROps eig false dim size p nb normal_in in
  let n := firstn dim (e_normal e) in
  0 < vcoord ROps (e_lambda e) 1 ->
  (n = m \/ n = map Ropp m) /\ e_curvature e = 0.
Proof. exact planar_exact. Qed.
Print Assumptions C09_planar_exact.

(* rotation equivariance, at the level of the covariance matrix: if C' = Rm C Rm^T for a rotation Rm and the
   smallest eigenvalue of C is simple, any two results meeting the contract have lam'_0 = lam_0 and the first
   eigenvector of C' is +- Rm (first eigenvector of C).
   (Formerly C09_rotation_least_variance_direction: a statement about matrices only.  It is kept as the linear-algebra core; the
   two links to the model that were missing — (a) the covariance of the rotated neighbours is Rm C Rm^T, (b) what the flip
   does to the sign — are C09_covariance_rotated and C09_rotation_equivariance below, so nothing is partial any more.) *)
Theorem C09_rotation_least_variance_direction : forall dim Rm C C' lam cols lam' cols',
  dim = 2%nat \/ dim = 3%nat ->
  is_rotation dim Rm -> conj_by dim Rm C C' ->
  eig_contract dim C (lam, cols) -> eig_contract dim C' (lam', cols') ->
  vcoord ROps lam 0 < vcoord ROps lam 1 ->
  vcoord ROps lam' 0 = vcoord ROps lam 0 /\
  (nth 0 cols' [] = rot_apply dim Rm (nth 0 cols []) \/
   nth 0 cols' [] = vneg ROps (rot_apply dim Rm (nth 0 cols []))).
Proof. exact rotation_equivariance_partial. Qed.   (* the lemma keeps its historical name in NormalsProofs.v *)
Print Assumptions C09_rotation_least_variance_direction.

(* (a) two-pass mean/covariance is equivariant: [rot_point dim Rm q] applies Rm to the first dim entries of q and
   keeps the rest (w).  Holds for any matrix Rm. *)
Theorem C09_covariance_rotated : forall dim size Rm nb,
  dim = 2%nat \/ dim = 3%nat -> (dim <= size)%nat -> (forall q, In q nb -> length q = size) ->
  conj_by dim Rm (covariance ROps dim size nb) (covariance ROps dim size (map (rot_point dim Rm) nb)).
Proof. exact covariance_rotated. Qed.
Print Assumptions C09_covariance_rotated.

(* the full property: rotating the neighbours and the point about the sensor (origin) leaves lambda_0 and the curvature
   unchanged and turns the normal into +- the rotated normal whenever the normal is determined up to sign at all (lambda_0
   simple); the sign is + whenever n . p <> 0.  For n . p = 0 the code keeps the sign the solver returned, which the
   contract does not fix: there only the +- statement holds.  The caller-supplied contents of the two normals may differ.
   (Strengthened: the former statement had n . p <> 0 as a premise of everything.) *)
Theorem C09_rotation_equivariance : forall eig dim size p nb normal_in normal_in' Rm,
  dim = 2%nat \/ dim = 3%nat -> is_rotation dim Rm ->
  (dim <= size)%nat -> (forall q, In q nb -> length q = size) ->
  let nb' := map (rot_point dim Rm) nb in
  let p' := rot_point dim Rm p in
  eig_contract dim (covariance ROps dim size nb) (eig (covariance ROps dim size nb)) ->
  eig_contract dim (covariance ROps dim size nb') (eig (covariance ROps dim size nb')) ->
  let e := estimate_point ROps eig false dim size p nb normal_in in
  let e' := estimate_point ROps eig false dim size p' nb' normal_in' in
  vcoord ROps (e_lambda e) 0 < vcoord ROps (e_lambda e) 1 ->
  (firstn dim (e_normal e') = rot_apply dim Rm (firstn dim (e_normal e)) \/
   firstn dim (e_normal e') = vneg ROps (rot_apply dim Rm (firstn dim (e_normal e)))) /\
  (vdot ROps (firstn dim (e_normal e)) (firstn dim p) <> 0 ->
   firstn dim (e_normal e') = rot_apply dim Rm (firstn dim (e_normal e))) /\
  vcoord ROps (e_lambda e') 0 = vcoord ROps (e_lambda e) 0 /\
  e_curvature e' = e_curvature e.
Proof. exact rotation_equivariance_any_sign. Qed.
Print Assumptions C09_rotation_equivariance.


(* ================================================================================================================
   SYNTACTIC SOURCE TIE.  coq/gen/SrcNormals.v is regenerated on every run by translate/tr_C09_normals.py from the clang AST
   of src/pointset/algorithms/NormalAndCurvatureEstimation.cpp (instantiations V2 = Vector2d, V3 = Vector3d,
   H2 = HomogeneousCoordinates2d, H3 = HomogeneousCoordinates3d; a point is the tuple of its components, [l2]/[l3]/[l4] turn
   it into the model's list).  The kd-tree query is the abstract function [kd_find] (neighbour index list) and
   Eigen::SelfAdjointEigenSolver the oracle [eig], as in the model; their contracts stay hypotheses.
   The theorems below hold for EVERY numeric dictionary N (reals of the theorems above, binary64 / binary32 of the
   correspondence run): the generated term and the model perform the same operations in the same order. *)

(* planeEstimation_ : the k neighbour indexes, then the eigen-solver applied to the model's two-pass covariance of those
   neighbours (mean over the full vectors divided by k, DIM x DIM block), eigenvalues / eigenvectors copied into the members *)
Theorem C09_source_tie_plane_estimation : forall (T : Type) (N : NumOps T) (K : Type) (eig : list (list T) -> list T * list (list T)),
  (forall (kd_find : K -> T * T -> Z -> list Z) points kd idx k,
    (0 <= k)%Z -> length (kd_find kd (points idx) k) = Z.to_nat k ->
    src_planeEstimation_V2 N kd_find eig points kd idx k =
      let nbi := kd_find kd (points idx) k in
      let es := eig (covariance N 2 2 (map (fun i => l2 (points i)) nbi)) in
      (nbi, es, eig_val N es 0, eig_val N es 1, eig_vec N es 0 0, eig_vec N es 0 1, eig_vec N es 1 0, eig_vec N es 1 1)) /\
  (forall (kd_find : K -> T * T * T -> Z -> list Z) points kd idx k,
    (0 <= k)%Z -> length (kd_find kd (points idx) k) = Z.to_nat k ->
    src_planeEstimation_V3 N kd_find eig points kd idx k =
      let nbi := kd_find kd (points idx) k in
      let es := eig (covariance N 3 3 (map (fun i => l3 (points i)) nbi)) in
      (nbi, es, eig_val N es 0, eig_val N es 1, eig_val N es 2, eig_vec N es 0 0, eig_vec N es 0 1, eig_vec N es 0 2, eig_vec N es 1 0, eig_vec N es 1 1, eig_vec N es 1 2, eig_vec N es 2 0, eig_vec N es 2 1, eig_vec N es 2 2)) /\
  (forall (kd_find : K -> T * T * T -> Z -> list Z) points kd idx k,
    (0 <= k)%Z -> length (kd_find kd (points idx) k) = Z.to_nat k ->
    src_planeEstimation_H2 N kd_find eig points kd idx k =
      let nbi := kd_find kd (points idx) k in
      let es := eig (covariance N 2 3 (map (fun i => l3 (points i)) nbi)) in
      (nbi, es, eig_val N es 0, eig_val N es 1, eig_vec N es 0 0, eig_vec N es 0 1, eig_vec N es 1 0, eig_vec N es 1 1)) /\
  (forall (kd_find : K -> T * T * T * T -> Z -> list Z) points kd idx k,
    (0 <= k)%Z -> length (kd_find kd (points idx) k) = Z.to_nat k ->
    src_planeEstimation_H3 N kd_find eig points kd idx k =
      let nbi := kd_find kd (points idx) k in
      let es := eig (covariance N 3 4 (map (fun i => l4 (points i)) nbi)) in
      (nbi, es, eig_val N es 0, eig_val N es 1, eig_val N es 2, eig_vec N es 0 0, eig_vec N es 0 1, eig_vec N es 0 2, eig_vec N es 1 0, eig_vec N es 1 1, eig_vec N es 1 2, eig_vec N es 2 0, eig_vec N es 2 1, eig_vec N es 2 2)).
Proof.
  intros T N K eig. repeat split; intros.
  - apply tie_plane_V2; assumption.
  - apply tie_plane_V3; assumption.
  - apply tie_plane_H2; assumption.
  - apply tie_plane_H3; assumption.
Qed.
Print Assumptions C09_source_tie_plane_estimation.

(* compute(points, kdTree, normals, curvatures, normalsReliability): entry j of the three outputs is the model's estimate_point
   (repaired flip rule) at point j with the neighbours the kd-tree returns for it and the caller's normal (whose w is kept);
   entries outside 0..size-1 are untouched.  [eig_shape dim r]: r has dim eigenvalues and its first eigenvector dim entries
   (part of the eigen-solver contract).  NormLits N: the literal 0 is the dictionary's zero and x * (-1) = -x. *)
Theorem C09_source_tie_compute_V2 : (* Eigen::Vector2d *)
  forall (T : Type) (N : NumOps T), NormLits N -> forall (K : Type) (eig : list (list T) -> list T * list (list T))
    (kd_find : K -> T * T -> Z -> list Z) points size kd normals curvatures reliab k nbi0 es0 a0 a1 v00 v01 v10 v11,
  (0 <= k)%Z -> (0 <= size)%Z -> (forall p, length (kd_find kd p k) = Z.to_nat k) ->
  (forall j, (0 <= j < size)%Z ->
     eig_shape 2 (eig (covariance N 2 2 (map (fun i => l2 (points i)) (kd_find kd (points j) k))))) ->
  let '(nrm, cv, rl, _, _, _, _, _, _, _, _) :=
    src_compute_kd_ncr_V2 N kd_find eig points size kd normals curvatures reliab k nbi0 es0 a0 a1 v00 v01 v10 v11 in
  forall j,
    ((0 <= j < size)%Z ->
     let e := estimate_point N eig false 2 2 (l2 (points j)) (map (fun i => l2 (points i)) (kd_find kd (points j) k)) (l2 (normals j)) in
     (l2 (nrm j), cv j, rl j) = (e_normal e, e_curvature e, e_reliability e)) /\
    (~ (0 <= j < size)%Z -> (l2 (nrm j), cv j, rl j) = (l2 (normals j), curvatures j, reliab j)).
Proof. exact (@tie_compute_kd_ncr_V2). Qed.
Print Assumptions C09_source_tie_compute_V2.

Theorem C09_source_tie_compute_V3 : (* Eigen::Vector3d *)
  forall (T : Type) (N : NumOps T), NormLits N -> forall (K : Type) (eig : list (list T) -> list T * list (list T))
    (kd_find : K -> T * T * T -> Z -> list Z) points size kd normals curvatures reliab k nbi0 es0 a0 a1 a2 v00 v01 v02 v10 v11 v12 v20 v21 v22,
  (0 <= k)%Z -> (0 <= size)%Z -> (forall p, length (kd_find kd p k) = Z.to_nat k) ->
  (forall j, (0 <= j < size)%Z ->
     eig_shape 3 (eig (covariance N 3 3 (map (fun i => l3 (points i)) (kd_find kd (points j) k))))) ->
  let '(nrm, cv, rl, _, _, _, _, _, _, _, _, _, _, _, _, _, _) :=
    src_compute_kd_ncr_V3 N kd_find eig points size kd normals curvatures reliab k nbi0 es0 a0 a1 a2 v00 v01 v02 v10 v11 v12 v20 v21 v22 in
  forall j,
    ((0 <= j < size)%Z ->
     let e := estimate_point N eig false 3 3 (l3 (points j)) (map (fun i => l3 (points i)) (kd_find kd (points j) k)) (l3 (normals j)) in
     (l3 (nrm j), cv j, rl j) = (e_normal e, e_curvature e, e_reliability e)) /\
    (~ (0 <= j < size)%Z -> (l3 (nrm j), cv j, rl j) = (l3 (normals j), curvatures j, reliab j)).
Proof. exact (@tie_compute_kd_ncr_V3). Qed.
Print Assumptions C09_source_tie_compute_V3.

Theorem C09_source_tie_compute_H2 : (* HomogeneousCoordinates2d *)
  forall (T : Type) (N : NumOps T), NormLits N -> forall (K : Type) (eig : list (list T) -> list T * list (list T))
    (kd_find : K -> T * T * T -> Z -> list Z) points size kd normals curvatures reliab k nbi0 es0 a0 a1 v00 v01 v10 v11,
  (0 <= k)%Z -> (0 <= size)%Z -> (forall p, length (kd_find kd p k) = Z.to_nat k) ->
  (forall j, (0 <= j < size)%Z ->
     eig_shape 2 (eig (covariance N 2 3 (map (fun i => l3 (points i)) (kd_find kd (points j) k))))) ->
  let '(nrm, cv, rl, _, _, _, _, _, _, _, _) :=
    src_compute_kd_ncr_H2 N kd_find eig points size kd normals curvatures reliab k nbi0 es0 a0 a1 v00 v01 v10 v11 in
  forall j,
    ((0 <= j < size)%Z ->
     let e := estimate_point N eig false 2 3 (l3 (points j)) (map (fun i => l3 (points i)) (kd_find kd (points j) k)) (l3 (normals j)) in
     (l3 (nrm j), cv j, rl j) = (e_normal e, e_curvature e, e_reliability e)) /\
    (~ (0 <= j < size)%Z -> (l3 (nrm j), cv j, rl j) = (l3 (normals j), curvatures j, reliab j)).
Proof. exact (@tie_compute_kd_ncr_H2). Qed.
Print Assumptions C09_source_tie_compute_H2.

Theorem C09_source_tie_compute_H3 : (* HomogeneousCoordinates3d *)
  forall (T : Type) (N : NumOps T), NormLits N -> forall (K : Type) (eig : list (list T) -> list T * list (list T))
    (kd_find : K -> T * T * T * T -> Z -> list Z) points size kd normals curvatures reliab k nbi0 es0 a0 a1 a2 v00 v01 v02 v10 v11 v12 v20 v21 v22,
  (0 <= k)%Z -> (0 <= size)%Z -> (forall p, length (kd_find kd p k) = Z.to_nat k) ->
  (forall j, (0 <= j < size)%Z ->
     eig_shape 3 (eig (covariance N 3 4 (map (fun i => l4 (points i)) (kd_find kd (points j) k))))) ->
  let '(nrm, cv, rl, _, _, _, _, _, _, _, _, _, _, _, _, _, _) :=
    src_compute_kd_ncr_H3 N kd_find eig points size kd normals curvatures reliab k nbi0 es0 a0 a1 a2 v00 v01 v02 v10 v11 v12 v20 v21 v22 in
  forall j,
    ((0 <= j < size)%Z ->
     let e := estimate_point N eig false 3 4 (l4 (points j)) (map (fun i => l4 (points i)) (kd_find kd (points j) k)) (l4 (normals j)) in
     (l4 (nrm j), cv j, rl j) = (e_normal e, e_curvature e, e_reliability e)) /\
    (~ (0 <= j < size)%Z -> (l4 (nrm j), cv j, rl j) = (l4 (normals j), curvatures j, reliab j)).
Proof. exact (@tie_compute_kd_ncr_H3). Qed.
Print Assumptions C09_source_tie_compute_H3.

(* the overloads without reliability / without curvature: the same statement on the outputs they have *)
Theorem C09_source_tie_compute_fewer_outputs :
  (forall (T : Type) (N : NumOps T), NormLits N -> forall (K : Type) (eig : list (list T) -> list T * list (list T))
    (kd_find : K -> T * T -> Z -> list Z) points size kd normals k nbi0 es0 a0 a1 v00 v01 v10 v11,
  (0 <= k)%Z -> (0 <= size)%Z -> (forall p, length (kd_find kd p k) = Z.to_nat k) ->
  (forall j, (0 <= j < size)%Z ->
     eig_shape 2 (eig (covariance N 2 2 (map (fun i => l2 (points i)) (kd_find kd (points j) k))))) ->
  let '(nrm, _, _, _, _, _, _, _, _) :=
    src_compute_kd_n_V2 N kd_find eig points size kd normals k nbi0 es0 a0 a1 v00 v01 v10 v11 in
  forall j,
    ((0 <= j < size)%Z ->
     let e := estimate_point N eig false 2 2 (l2 (points j)) (map (fun i => l2 (points i)) (kd_find kd (points j) k)) (l2 (normals j)) in
     l2 (nrm j) = e_normal e) /\
    (~ (0 <= j < size)%Z -> l2 (nrm j) = l2 (normals j))) /\
  (forall (T : Type) (N : NumOps T), NormLits N -> forall (K : Type) (eig : list (list T) -> list T * list (list T))
    (kd_find : K -> T * T -> Z -> list Z) points size kd normals curvatures k nbi0 es0 a0 a1 v00 v01 v10 v11,
  (0 <= k)%Z -> (0 <= size)%Z -> (forall p, length (kd_find kd p k) = Z.to_nat k) ->
  (forall j, (0 <= j < size)%Z ->
     eig_shape 2 (eig (covariance N 2 2 (map (fun i => l2 (points i)) (kd_find kd (points j) k))))) ->
  let '(nrm, cv, _, _, _, _, _, _, _, _) :=
    src_compute_kd_nc_V2 N kd_find eig points size kd normals curvatures k nbi0 es0 a0 a1 v00 v01 v10 v11 in
  forall j,
    ((0 <= j < size)%Z ->
     let e := estimate_point N eig false 2 2 (l2 (points j)) (map (fun i => l2 (points i)) (kd_find kd (points j) k)) (l2 (normals j)) in
     (l2 (nrm j), cv j) = (e_normal e, e_curvature e)) /\
    (~ (0 <= j < size)%Z -> (l2 (nrm j), cv j) = (l2 (normals j), curvatures j))) /\
  (forall (T : Type) (N : NumOps T), NormLits N -> forall (K : Type) (eig : list (list T) -> list T * list (list T))
    (kd_find : K -> T * T * T -> Z -> list Z) points size kd normals k nbi0 es0 a0 a1 a2 v00 v01 v02 v10 v11 v12 v20 v21 v22,
  (0 <= k)%Z -> (0 <= size)%Z -> (forall p, length (kd_find kd p k) = Z.to_nat k) ->
  (forall j, (0 <= j < size)%Z ->
     eig_shape 3 (eig (covariance N 3 3 (map (fun i => l3 (points i)) (kd_find kd (points j) k))))) ->
  let '(nrm, _, _, _, _, _, _, _, _, _, _, _, _, _, _) :=
    src_compute_kd_n_V3 N kd_find eig points size kd normals k nbi0 es0 a0 a1 a2 v00 v01 v02 v10 v11 v12 v20 v21 v22 in
  forall j,
    ((0 <= j < size)%Z ->
     let e := estimate_point N eig false 3 3 (l3 (points j)) (map (fun i => l3 (points i)) (kd_find kd (points j) k)) (l3 (normals j)) in
     l3 (nrm j) = e_normal e) /\
    (~ (0 <= j < size)%Z -> l3 (nrm j) = l3 (normals j))) /\
  (forall (T : Type) (N : NumOps T), NormLits N -> forall (K : Type) (eig : list (list T) -> list T * list (list T))
    (kd_find : K -> T * T * T -> Z -> list Z) points size kd normals curvatures k nbi0 es0 a0 a1 a2 v00 v01 v02 v10 v11 v12 v20 v21 v22,
  (0 <= k)%Z -> (0 <= size)%Z -> (forall p, length (kd_find kd p k) = Z.to_nat k) ->
  (forall j, (0 <= j < size)%Z ->
     eig_shape 3 (eig (covariance N 3 3 (map (fun i => l3 (points i)) (kd_find kd (points j) k))))) ->
  let '(nrm, cv, _, _, _, _, _, _, _, _, _, _, _, _, _, _) :=
    src_compute_kd_nc_V3 N kd_find eig points size kd normals curvatures k nbi0 es0 a0 a1 a2 v00 v01 v02 v10 v11 v12 v20 v21 v22 in
  forall j,
    ((0 <= j < size)%Z ->
     let e := estimate_point N eig false 3 3 (l3 (points j)) (map (fun i => l3 (points i)) (kd_find kd (points j) k)) (l3 (normals j)) in
     (l3 (nrm j), cv j) = (e_normal e, e_curvature e)) /\
    (~ (0 <= j < size)%Z -> (l3 (nrm j), cv j) = (l3 (normals j), curvatures j))) /\
  (forall (T : Type) (N : NumOps T), NormLits N -> forall (K : Type) (eig : list (list T) -> list T * list (list T))
    (kd_find : K -> T * T * T -> Z -> list Z) points size kd normals k nbi0 es0 a0 a1 v00 v01 v10 v11,
  (0 <= k)%Z -> (0 <= size)%Z -> (forall p, length (kd_find kd p k) = Z.to_nat k) ->
  (forall j, (0 <= j < size)%Z ->
     eig_shape 2 (eig (covariance N 2 3 (map (fun i => l3 (points i)) (kd_find kd (points j) k))))) ->
  let '(nrm, _, _, _, _, _, _, _, _) :=
    src_compute_kd_n_H2 N kd_find eig points size kd normals k nbi0 es0 a0 a1 v00 v01 v10 v11 in
  forall j,
    ((0 <= j < size)%Z ->
     let e := estimate_point N eig false 2 3 (l3 (points j)) (map (fun i => l3 (points i)) (kd_find kd (points j) k)) (l3 (normals j)) in
     l3 (nrm j) = e_normal e) /\
    (~ (0 <= j < size)%Z -> l3 (nrm j) = l3 (normals j))) /\
  (forall (T : Type) (N : NumOps T), NormLits N -> forall (K : Type) (eig : list (list T) -> list T * list (list T))
    (kd_find : K -> T * T * T -> Z -> list Z) points size kd normals curvatures k nbi0 es0 a0 a1 v00 v01 v10 v11,
  (0 <= k)%Z -> (0 <= size)%Z -> (forall p, length (kd_find kd p k) = Z.to_nat k) ->
  (forall j, (0 <= j < size)%Z ->
     eig_shape 2 (eig (covariance N 2 3 (map (fun i => l3 (points i)) (kd_find kd (points j) k))))) ->
  let '(nrm, cv, _, _, _, _, _, _, _, _) :=
    src_compute_kd_nc_H2 N kd_find eig points size kd normals curvatures k nbi0 es0 a0 a1 v00 v01 v10 v11 in
  forall j,
    ((0 <= j < size)%Z ->
     let e := estimate_point N eig false 2 3 (l3 (points j)) (map (fun i => l3 (points i)) (kd_find kd (points j) k)) (l3 (normals j)) in
     (l3 (nrm j), cv j) = (e_normal e, e_curvature e)) /\
    (~ (0 <= j < size)%Z -> (l3 (nrm j), cv j) = (l3 (normals j), curvatures j))) /\
  (forall (T : Type) (N : NumOps T), NormLits N -> forall (K : Type) (eig : list (list T) -> list T * list (list T))
    (kd_find : K -> T * T * T * T -> Z -> list Z) points size kd normals k nbi0 es0 a0 a1 a2 v00 v01 v02 v10 v11 v12 v20 v21 v22,
  (0 <= k)%Z -> (0 <= size)%Z -> (forall p, length (kd_find kd p k) = Z.to_nat k) ->
  (forall j, (0 <= j < size)%Z ->
     eig_shape 3 (eig (covariance N 3 4 (map (fun i => l4 (points i)) (kd_find kd (points j) k))))) ->
  let '(nrm, _, _, _, _, _, _, _, _, _, _, _, _, _, _) :=
    src_compute_kd_n_H3 N kd_find eig points size kd normals k nbi0 es0 a0 a1 a2 v00 v01 v02 v10 v11 v12 v20 v21 v22 in
  forall j,
    ((0 <= j < size)%Z ->
     let e := estimate_point N eig false 3 4 (l4 (points j)) (map (fun i => l4 (points i)) (kd_find kd (points j) k)) (l4 (normals j)) in
     l4 (nrm j) = e_normal e) /\
    (~ (0 <= j < size)%Z -> l4 (nrm j) = l4 (normals j))) /\
  (forall (T : Type) (N : NumOps T), NormLits N -> forall (K : Type) (eig : list (list T) -> list T * list (list T))
    (kd_find : K -> T * T * T * T -> Z -> list Z) points size kd normals curvatures k nbi0 es0 a0 a1 a2 v00 v01 v02 v10 v11 v12 v20 v21 v22,
  (0 <= k)%Z -> (0 <= size)%Z -> (forall p, length (kd_find kd p k) = Z.to_nat k) ->
  (forall j, (0 <= j < size)%Z ->
     eig_shape 3 (eig (covariance N 3 4 (map (fun i => l4 (points i)) (kd_find kd (points j) k))))) ->
  let '(nrm, cv, _, _, _, _, _, _, _, _, _, _, _, _, _, _) :=
    src_compute_kd_nc_H3 N kd_find eig points size kd normals curvatures k nbi0 es0 a0 a1 a2 v00 v01 v02 v10 v11 v12 v20 v21 v22 in
  forall j,
    ((0 <= j < size)%Z ->
     let e := estimate_point N eig false 3 4 (l4 (points j)) (map (fun i => l4 (points i)) (kd_find kd (points j) k)) (l4 (normals j)) in
     (l4 (nrm j), cv j) = (e_normal e, e_curvature e)) /\
    (~ (0 <= j < size)%Z -> (l4 (nrm j), cv j) = (l4 (normals j), curvatures j))).
Proof.
  repeat split.
  - exact (@tie_compute_kd_n_V2).
  - exact (@tie_compute_kd_nc_V2).
  - exact (@tie_compute_kd_n_V3).
  - exact (@tie_compute_kd_nc_V3).
  - exact (@tie_compute_kd_n_H2).
  - exact (@tie_compute_kd_nc_H2).
  - exact (@tie_compute_kd_n_H3).
  - exact (@tie_compute_kd_nc_H3).
Qed.
Print Assumptions C09_source_tie_compute_fewer_outputs.

(* the overloads that build their own kd-tree: [kd_build size points], then the overload above *)
Theorem C09_source_tie_compute_own_kdtree : forall (T : Type) (N : NumOps T) (K : Type) (eig : list (list T) -> list T * list (list T)),
  (forall (kd_find : K -> T * T -> Z -> list Z) kd_build points size normals k nbi0 es0 a0 a1 v00 v01 v10 v11,
    src_compute_n_V2 N kd_find kd_build eig points size normals k nbi0 es0 a0 a1 v00 v01 v10 v11 =
    src_compute_kd_n_V2 N kd_find eig points size (kd_build size points) normals k nbi0 es0 a0 a1 v00 v01 v10 v11) /\
  (forall (kd_find : K -> T * T -> Z -> list Z) kd_build points size normals curvatures k nbi0 es0 a0 a1 v00 v01 v10 v11,
    src_compute_nc_V2 N kd_find kd_build eig points size normals curvatures k nbi0 es0 a0 a1 v00 v01 v10 v11 =
    src_compute_kd_nc_V2 N kd_find eig points size (kd_build size points) normals curvatures k nbi0 es0 a0 a1 v00 v01 v10 v11) /\
  (forall (kd_find : K -> T * T -> Z -> list Z) kd_build points size normals curvatures reliab k nbi0 es0 a0 a1 v00 v01 v10 v11,
    src_compute_ncr_V2 N kd_find kd_build eig points size normals curvatures reliab k nbi0 es0 a0 a1 v00 v01 v10 v11 =
    src_compute_kd_ncr_V2 N kd_find eig points size (kd_build size points) normals curvatures reliab k nbi0 es0 a0 a1 v00 v01 v10 v11) /\
  (forall (kd_find : K -> T * T * T -> Z -> list Z) kd_build points size normals k nbi0 es0 a0 a1 a2 v00 v01 v02 v10 v11 v12 v20 v21 v22,
    src_compute_n_V3 N kd_find kd_build eig points size normals k nbi0 es0 a0 a1 a2 v00 v01 v02 v10 v11 v12 v20 v21 v22 =
    src_compute_kd_n_V3 N kd_find eig points size (kd_build size points) normals k nbi0 es0 a0 a1 a2 v00 v01 v02 v10 v11 v12 v20 v21 v22) /\
  (forall (kd_find : K -> T * T * T -> Z -> list Z) kd_build points size normals curvatures k nbi0 es0 a0 a1 a2 v00 v01 v02 v10 v11 v12 v20 v21 v22,
    src_compute_nc_V3 N kd_find kd_build eig points size normals curvatures k nbi0 es0 a0 a1 a2 v00 v01 v02 v10 v11 v12 v20 v21 v22 =
    src_compute_kd_nc_V3 N kd_find eig points size (kd_build size points) normals curvatures k nbi0 es0 a0 a1 a2 v00 v01 v02 v10 v11 v12 v20 v21 v22) /\
  (forall (kd_find : K -> T * T * T -> Z -> list Z) kd_build points size normals curvatures reliab k nbi0 es0 a0 a1 a2 v00 v01 v02 v10 v11 v12 v20 v21 v22,
    src_compute_ncr_V3 N kd_find kd_build eig points size normals curvatures reliab k nbi0 es0 a0 a1 a2 v00 v01 v02 v10 v11 v12 v20 v21 v22 =
    src_compute_kd_ncr_V3 N kd_find eig points size (kd_build size points) normals curvatures reliab k nbi0 es0 a0 a1 a2 v00 v01 v02 v10 v11 v12 v20 v21 v22) /\
  (forall (kd_find : K -> T * T * T -> Z -> list Z) kd_build points size normals k nbi0 es0 a0 a1 v00 v01 v10 v11,
    src_compute_n_H2 N kd_find kd_build eig points size normals k nbi0 es0 a0 a1 v00 v01 v10 v11 =
    src_compute_kd_n_H2 N kd_find eig points size (kd_build size points) normals k nbi0 es0 a0 a1 v00 v01 v10 v11) /\
  (forall (kd_find : K -> T * T * T -> Z -> list Z) kd_build points size normals curvatures k nbi0 es0 a0 a1 v00 v01 v10 v11,
    src_compute_nc_H2 N kd_find kd_build eig points size normals curvatures k nbi0 es0 a0 a1 v00 v01 v10 v11 =
    src_compute_kd_nc_H2 N kd_find eig points size (kd_build size points) normals curvatures k nbi0 es0 a0 a1 v00 v01 v10 v11) /\
  (forall (kd_find : K -> T * T * T -> Z -> list Z) kd_build points size normals curvatures reliab k nbi0 es0 a0 a1 v00 v01 v10 v11,
    src_compute_ncr_H2 N kd_find kd_build eig points size normals curvatures reliab k nbi0 es0 a0 a1 v00 v01 v10 v11 =
    src_compute_kd_ncr_H2 N kd_find eig points size (kd_build size points) normals curvatures reliab k nbi0 es0 a0 a1 v00 v01 v10 v11) /\
  (forall (kd_find : K -> T * T * T * T -> Z -> list Z) kd_build points size normals k nbi0 es0 a0 a1 a2 v00 v01 v02 v10 v11 v12 v20 v21 v22,
    src_compute_n_H3 N kd_find kd_build eig points size normals k nbi0 es0 a0 a1 a2 v00 v01 v02 v10 v11 v12 v20 v21 v22 =
    src_compute_kd_n_H3 N kd_find eig points size (kd_build size points) normals k nbi0 es0 a0 a1 a2 v00 v01 v02 v10 v11 v12 v20 v21 v22) /\
  (forall (kd_find : K -> T * T * T * T -> Z -> list Z) kd_build points size normals curvatures k nbi0 es0 a0 a1 a2 v00 v01 v02 v10 v11 v12 v20 v21 v22,
    src_compute_nc_H3 N kd_find kd_build eig points size normals curvatures k nbi0 es0 a0 a1 a2 v00 v01 v02 v10 v11 v12 v20 v21 v22 =
    src_compute_kd_nc_H3 N kd_find eig points size (kd_build size points) normals curvatures k nbi0 es0 a0 a1 a2 v00 v01 v02 v10 v11 v12 v20 v21 v22) /\
  (forall (kd_find : K -> T * T * T * T -> Z -> list Z) kd_build points size normals curvatures reliab k nbi0 es0 a0 a1 a2 v00 v01 v02 v10 v11 v12 v20 v21 v22,
    src_compute_ncr_H3 N kd_find kd_build eig points size normals curvatures reliab k nbi0 es0 a0 a1 a2 v00 v01 v02 v10 v11 v12 v20 v21 v22 =
    src_compute_kd_ncr_H3 N kd_find eig points size (kd_build size points) normals curvatures reliab k nbi0 es0 a0 a1 a2 v00 v01 v02 v10 v11 v12 v20 v21 v22).
Proof.
  intros T N K eig. repeat split; intros.
  - apply tie_compute_n_V2.
  - apply tie_compute_nc_V2.
  - apply tie_compute_ncr_V2.
  - apply tie_compute_n_V3.
  - apply tie_compute_nc_V3.
  - apply tie_compute_ncr_V3.
  - apply tie_compute_n_H2.
  - apply tie_compute_nc_H2.
  - apply tie_compute_ncr_H2.
  - apply tie_compute_n_H3.
  - apply tie_compute_nc_H3.
  - apply tie_compute_ncr_H3.
Qed.
Print Assumptions C09_source_tie_compute_own_kdtree.

(* COROLLARY, directly about the generated terms over the reals: under the eigen-solver contract for the covariance of every
   neighbourhood, and k indexes returned by every kd-tree query, every normal written by compute() has unit Cartesian length and
   n . p <= 0 — for the four point types *)
Theorem C09_source_normals_unit_and_facing :
  (forall (K : Type) (eig : list (list R) -> list R * list (list R)) (kd_find : K -> R * R -> Z -> list Z) points size kd normals curvatures reliab k nbi0 es0 a0 a1 v00 v01 v10 v11,
  (0 <= k)%Z -> (0 <= size)%Z -> (forall p, length (kd_find kd p k) = Z.to_nat k) ->
  (forall j, (0 <= j < size)%Z ->
     let C := covariance ROps 2 2 (map (fun i => l2 (points i)) (kd_find kd (points j) k)) in eig_contract 2 C (eig C)) ->
  let '(nrm, cv, rl, _, _, _, _, _, _, _, _) :=
    src_compute_kd_ncr_V2 ROps kd_find eig points size kd normals curvatures reliab k nbi0 es0 a0 a1 v00 v01 v10 v11 in
  forall j, (0 <= j < size)%Z ->
    let n := firstn 2 (l2 (nrm j)) in
    vdot ROps n n = 1 /\ vdot ROps n (firstn 2 (l2 (points j))) <= 0) /\
  (forall (K : Type) (eig : list (list R) -> list R * list (list R)) (kd_find : K -> R * R * R -> Z -> list Z) points size kd normals curvatures reliab k nbi0 es0 a0 a1 a2 v00 v01 v02 v10 v11 v12 v20 v21 v22,
  (0 <= k)%Z -> (0 <= size)%Z -> (forall p, length (kd_find kd p k) = Z.to_nat k) ->
  (forall j, (0 <= j < size)%Z ->
     let C := covariance ROps 3 3 (map (fun i => l3 (points i)) (kd_find kd (points j) k)) in eig_contract 3 C (eig C)) ->
  let '(nrm, cv, rl, _, _, _, _, _, _, _, _, _, _, _, _, _, _) :=
    src_compute_kd_ncr_V3 ROps kd_find eig points size kd normals curvatures reliab k nbi0 es0 a0 a1 a2 v00 v01 v02 v10 v11 v12 v20 v21 v22 in
  forall j, (0 <= j < size)%Z ->
    let n := firstn 3 (l3 (nrm j)) in
    vdot ROps n n = 1 /\ vdot ROps n (firstn 3 (l3 (points j))) <= 0) /\
  (forall (K : Type) (eig : list (list R) -> list R * list (list R)) (kd_find : K -> R * R * R -> Z -> list Z) points size kd normals curvatures reliab k nbi0 es0 a0 a1 v00 v01 v10 v11,
  (0 <= k)%Z -> (0 <= size)%Z -> (forall p, length (kd_find kd p k) = Z.to_nat k) ->
  (forall j, (0 <= j < size)%Z ->
     let C := covariance ROps 2 3 (map (fun i => l3 (points i)) (kd_find kd (points j) k)) in eig_contract 2 C (eig C)) ->
  let '(nrm, cv, rl, _, _, _, _, _, _, _, _) :=
    src_compute_kd_ncr_H2 ROps kd_find eig points size kd normals curvatures reliab k nbi0 es0 a0 a1 v00 v01 v10 v11 in
  forall j, (0 <= j < size)%Z ->
    let n := firstn 2 (l3 (nrm j)) in
    vdot ROps n n = 1 /\ vdot ROps n (firstn 2 (l3 (points j))) <= 0) /\
  (forall (K : Type) (eig : list (list R) -> list R * list (list R)) (kd_find : K -> R * R * R * R -> Z -> list Z) points size kd normals curvatures reliab k nbi0 es0 a0 a1 a2 v00 v01 v02 v10 v11 v12 v20 v21 v22,
  (0 <= k)%Z -> (0 <= size)%Z -> (forall p, length (kd_find kd p k) = Z.to_nat k) ->
  (forall j, (0 <= j < size)%Z ->
     let C := covariance ROps 3 4 (map (fun i => l4 (points i)) (kd_find kd (points j) k)) in eig_contract 3 C (eig C)) ->
  let '(nrm, cv, rl, _, _, _, _, _, _, _, _, _, _, _, _, _, _) :=
    src_compute_kd_ncr_H3 ROps kd_find eig points size kd normals curvatures reliab k nbi0 es0 a0 a1 a2 v00 v01 v02 v10 v11 v12 v20 v21 v22 in
  forall j, (0 <= j < size)%Z ->
    let n := firstn 3 (l4 (nrm j)) in
    vdot ROps n n = 1 /\ vdot ROps n (firstn 3 (l4 (points j))) <= 0).
Proof.
  repeat split.
  - exact (@src_normals_unit_facing_V2).
  - exact (@src_normals_unit_facing_V3).
  - exact (@src_normals_unit_facing_H2).
  - exact (@src_normals_unit_facing_H3).
Qed.
Print Assumptions C09_source_normals_unit_and_facing.

(* ROTATION OF THE WHOLE CLOUD, on the terms generated from the source: two runs of compute(), on a cloud and on the same cloud
   turned about the sensor by Rm ([points' i] = [points i] with Rm applied to the Cartesian part, w kept).  A rotation keeps
   distances, so an exact k-nearest-neighbour search returns the same indexes for both clouds unless two distances tie: that is
   the premise on [kd_find] (the search is C08's; the premise is not derived here).  Then, for every point whose lambda_0 is
   simple: the curvature is unchanged and the new normal is +- the rotated one, with sign + whenever n . p <> 0. *)
Theorem C09_source_rotation_equivariance :
  (forall (K : Type) (eig : list (list R) -> list R * list (list R)) (kd_find : K -> R * R -> Z -> list Z) points points' size kd kd'
      normals normals' curvatures curvatures' reliab reliab' k nbi0 es0 a0 a1 v00 v01 v10 v11 nbi0' es0' a0' a1' v00' v01' v10' v11' Rm,
  is_rotation 2 Rm -> (0 <= k)%Z -> (0 <= size)%Z ->
  (forall t p, length (kd_find t p k) = Z.to_nat k) ->
  (forall i, SrcTieC09.l2 (points' i) = rot_point 2 Rm (SrcTieC09.l2 (points i))) ->
  (forall j, (0 <= j < size)%Z -> kd_find kd' (points' j) k = kd_find kd (points j) k) ->
  (forall j, (0 <= j < size)%Z ->
     let C := covariance ROps 2 2 (map (fun i => SrcTieC09.l2 (points i)) (kd_find kd (points j) k)) in eig_contract 2 C (eig C)) ->
  (forall j, (0 <= j < size)%Z ->
     let C := covariance ROps 2 2 (map (fun i => SrcTieC09.l2 (points' i)) (kd_find kd' (points' j) k)) in eig_contract 2 C (eig C)) ->
  let '(nrm, cv, rl, _, _, _, _, _, _, _, _) :=
    src_compute_kd_ncr_V2 ROps kd_find eig points size kd normals curvatures reliab k nbi0 es0 a0 a1 v00 v01 v10 v11 in
  let '(nrm', cv', rl', _, _, _, _, _, _, _, _) :=
    src_compute_kd_ncr_V2 ROps kd_find eig points' size kd' normals' curvatures' reliab' k nbi0' es0' a0' a1' v00' v01' v10' v11' in
  forall j, (0 <= j < size)%Z ->
    let lam := fst (eig (covariance ROps 2 2 (map (fun i => SrcTieC09.l2 (points i)) (kd_find kd (points j) k)))) in
    vcoord ROps lam 0 < vcoord ROps lam 1 ->
    let n := firstn 2 (SrcTieC09.l2 (nrm j)) in
    let n' := firstn 2 (SrcTieC09.l2 (nrm' j)) in
    (n' = rot_apply 2 Rm n \/ n' = vneg ROps (rot_apply 2 Rm n)) /\
    (vdot ROps n (firstn 2 (SrcTieC09.l2 (points j))) <> 0 -> n' = rot_apply 2 Rm n) /\
    cv' j = cv j) /\
  (forall (K : Type) (eig : list (list R) -> list R * list (list R)) (kd_find : K -> R * R * R -> Z -> list Z) points points' size kd kd'
      normals normals' curvatures curvatures' reliab reliab' k nbi0 es0 a0 a1 a2 v00 v01 v02 v10 v11 v12 v20 v21 v22 nbi0' es0' a0' a1' a2' v00' v01' v02' v10' v11' v12' v20' v21' v22' Rm,
  is_rotation 3 Rm -> (0 <= k)%Z -> (0 <= size)%Z ->
  (forall t p, length (kd_find t p k) = Z.to_nat k) ->
  (forall i, SrcTieC09.l3 (points' i) = rot_point 3 Rm (SrcTieC09.l3 (points i))) ->
  (forall j, (0 <= j < size)%Z -> kd_find kd' (points' j) k = kd_find kd (points j) k) ->
  (forall j, (0 <= j < size)%Z ->
     let C := covariance ROps 3 3 (map (fun i => SrcTieC09.l3 (points i)) (kd_find kd (points j) k)) in eig_contract 3 C (eig C)) ->
  (forall j, (0 <= j < size)%Z ->
     let C := covariance ROps 3 3 (map (fun i => SrcTieC09.l3 (points' i)) (kd_find kd' (points' j) k)) in eig_contract 3 C (eig C)) ->
  let '(nrm, cv, rl, _, _, _, _, _, _, _, _, _, _, _, _, _, _) :=
    src_compute_kd_ncr_V3 ROps kd_find eig points size kd normals curvatures reliab k nbi0 es0 a0 a1 a2 v00 v01 v02 v10 v11 v12 v20 v21 v22 in
  let '(nrm', cv', rl', _, _, _, _, _, _, _, _, _, _, _, _, _, _) :=
    src_compute_kd_ncr_V3 ROps kd_find eig points' size kd' normals' curvatures' reliab' k nbi0' es0' a0' a1' a2' v00' v01' v02' v10' v11' v12' v20' v21' v22' in
  forall j, (0 <= j < size)%Z ->
    let lam := fst (eig (covariance ROps 3 3 (map (fun i => SrcTieC09.l3 (points i)) (kd_find kd (points j) k)))) in
    vcoord ROps lam 0 < vcoord ROps lam 1 ->
    let n := firstn 3 (SrcTieC09.l3 (nrm j)) in
    let n' := firstn 3 (SrcTieC09.l3 (nrm' j)) in
    (n' = rot_apply 3 Rm n \/ n' = vneg ROps (rot_apply 3 Rm n)) /\
    (vdot ROps n (firstn 3 (SrcTieC09.l3 (points j))) <> 0 -> n' = rot_apply 3 Rm n) /\
    cv' j = cv j) /\
  (forall (K : Type) (eig : list (list R) -> list R * list (list R)) (kd_find : K -> R * R * R -> Z -> list Z) points points' size kd kd'
      normals normals' curvatures curvatures' reliab reliab' k nbi0 es0 a0 a1 v00 v01 v10 v11 nbi0' es0' a0' a1' v00' v01' v10' v11' Rm,
  is_rotation 2 Rm -> (0 <= k)%Z -> (0 <= size)%Z ->
  (forall t p, length (kd_find t p k) = Z.to_nat k) ->
  (forall i, SrcTieC09.l3 (points' i) = rot_point 2 Rm (SrcTieC09.l3 (points i))) ->
  (forall j, (0 <= j < size)%Z -> kd_find kd' (points' j) k = kd_find kd (points j) k) ->
  (forall j, (0 <= j < size)%Z ->
     let C := covariance ROps 2 3 (map (fun i => SrcTieC09.l3 (points i)) (kd_find kd (points j) k)) in eig_contract 2 C (eig C)) ->
  (forall j, (0 <= j < size)%Z ->
     let C := covariance ROps 2 3 (map (fun i => SrcTieC09.l3 (points' i)) (kd_find kd' (points' j) k)) in eig_contract 2 C (eig C)) ->
  let '(nrm, cv, rl, _, _, _, _, _, _, _, _) :=
    src_compute_kd_ncr_H2 ROps kd_find eig points size kd normals curvatures reliab k nbi0 es0 a0 a1 v00 v01 v10 v11 in
  let '(nrm', cv', rl', _, _, _, _, _, _, _, _) :=
    src_compute_kd_ncr_H2 ROps kd_find eig points' size kd' normals' curvatures' reliab' k nbi0' es0' a0' a1' v00' v01' v10' v11' in
  forall j, (0 <= j < size)%Z ->
    let lam := fst (eig (covariance ROps 2 3 (map (fun i => SrcTieC09.l3 (points i)) (kd_find kd (points j) k)))) in
    vcoord ROps lam 0 < vcoord ROps lam 1 ->
    let n := firstn 2 (SrcTieC09.l3 (nrm j)) in
    let n' := firstn 2 (SrcTieC09.l3 (nrm' j)) in
    (n' = rot_apply 2 Rm n \/ n' = vneg ROps (rot_apply 2 Rm n)) /\
    (vdot ROps n (firstn 2 (SrcTieC09.l3 (points j))) <> 0 -> n' = rot_apply 2 Rm n) /\
    cv' j = cv j) /\
  (forall (K : Type) (eig : list (list R) -> list R * list (list R)) (kd_find : K -> R * R * R * R -> Z -> list Z) points points' size kd kd'
      normals normals' curvatures curvatures' reliab reliab' k nbi0 es0 a0 a1 a2 v00 v01 v02 v10 v11 v12 v20 v21 v22 nbi0' es0' a0' a1' a2' v00' v01' v02' v10' v11' v12' v20' v21' v22' Rm,
  is_rotation 3 Rm -> (0 <= k)%Z -> (0 <= size)%Z ->
  (forall t p, length (kd_find t p k) = Z.to_nat k) ->
  (forall i, SrcTieC09.l4 (points' i) = rot_point 3 Rm (SrcTieC09.l4 (points i))) ->
  (forall j, (0 <= j < size)%Z -> kd_find kd' (points' j) k = kd_find kd (points j) k) ->
  (forall j, (0 <= j < size)%Z ->
     let C := covariance ROps 3 4 (map (fun i => SrcTieC09.l4 (points i)) (kd_find kd (points j) k)) in eig_contract 3 C (eig C)) ->
  (forall j, (0 <= j < size)%Z ->
     let C := covariance ROps 3 4 (map (fun i => SrcTieC09.l4 (points' i)) (kd_find kd' (points' j) k)) in eig_contract 3 C (eig C)) ->
  let '(nrm, cv, rl, _, _, _, _, _, _, _, _, _, _, _, _, _, _) :=
    src_compute_kd_ncr_H3 ROps kd_find eig points size kd normals curvatures reliab k nbi0 es0 a0 a1 a2 v00 v01 v02 v10 v11 v12 v20 v21 v22 in
  let '(nrm', cv', rl', _, _, _, _, _, _, _, _, _, _, _, _, _, _) :=
    src_compute_kd_ncr_H3 ROps kd_find eig points' size kd' normals' curvatures' reliab' k nbi0' es0' a0' a1' a2' v00' v01' v02' v10' v11' v12' v20' v21' v22' in
  forall j, (0 <= j < size)%Z ->
    let lam := fst (eig (covariance ROps 3 4 (map (fun i => SrcTieC09.l4 (points i)) (kd_find kd (points j) k)))) in
    vcoord ROps lam 0 < vcoord ROps lam 1 ->
    let n := firstn 3 (SrcTieC09.l4 (nrm j)) in
    let n' := firstn 3 (SrcTieC09.l4 (nrm' j)) in
    (n' = rot_apply 3 Rm n \/ n' = vneg ROps (rot_apply 3 Rm n)) /\
    (vdot ROps n (firstn 3 (SrcTieC09.l4 (points j))) <> 0 -> n' = rot_apply 3 Rm n) /\
    cv' j = cv j).
Proof.
  repeat split.
  - exact (@src_rotation_equivariance_V2).
  - exact (@src_rotation_equivariance_V3).
  - exact (@src_rotation_equivariance_H2).
  - exact (@src_rotation_equivariance_H3).
Qed.
Print Assumptions C09_source_rotation_equivariance.

(* non-vacuity of the tie hypotheses: the real dictionary reads the literals as required *)
Example C09_NormLits_satisfiable : NormLits ROps.
Proof. exact NormLits_R. Qed.

(* --- non-vacuity: the contract is satisfiable on a concrete cloud, and the theorems apply to it --- *)
Example C09_contract_satisfiable :
  eig_contract 3 (covariance ROps 3 4 wit_nb) (wit_eig (covariance ROps 3 4 wit_nb)).
Proof. exact wit_contract. Qed.

Example C09_repaired_rule_on_witness :
  vdot ROps (firstn 3 (e_normal (estimate_point ROps wit_eig false 3 4 wit_p wit_nb [0; 0; 0; 1]))) (firstn 3 wit_p) <= 0.
Proof. apply C09_normal_faces_sensor; [right; reflexivity|exact C09_contract_satisfiable]. Qed.

Example C09_planar_on_witness :
  let e := estimate_point ROps wit_eig false 3 4 wit_p wit_nb [0; 0; 0; 1] in
  (firstn 3 (e_normal e) = [0; 0; 1] \/ firstn 3 (e_normal e) = map Ropp [0; 0; 1]) /\ e_curvature e = 0.
Proof.
  apply (C09_planar_exact wit_eig 3 4 wit_p wit_nb [0; 0; 0; 1] [0; 0; 1] (-1/2)).
  - right; reflexivity.
  - exact C09_contract_satisfiable.
  - intros q [<-|[<-|[<-|[<-|[]]]]]; reflexivity.
  - reflexivity.
  - cbn; lra.
  - intros q [<-|[<-|[<-|[<-|[]]]]]; cbn; lra.
  - cbn; lra.
Qed.

Example C09_curvature_on_witness :
  0 <= e_curvature (estimate_point ROps wit_eig false 3 4 wit_p wit_nb [0; 0; 0; 1]) <= 1 / INR 3.
Proof.
  apply (C09_curvature_range wit_eig 3 4 wit_p wit_nb [0; 0; 0; 1]).
  - right; reflexivity.
  - exact C09_contract_satisfiable.
  - cbn; lra.
Qed.

(* the hypotheses of the rotation theorem are satisfiable: quarter turn in the plane, C = diag(1,2) *)
Example C09_rotation_hypotheses_satisfiable :
  let Rm := [[0; -1]; [1; 0]] in
  let C := [[1; 0]; [0; 2]] in
  let C' := [[2; 0]; [0; 1]] in
  is_rotation 2 Rm /\ conj_by 2 Rm C C' /\
  eig_contract 2 C ([1; 2], [[1; 0]; [0; 1]]) /\ eig_contract 2 C' ([1; 2], [[0; 1]; [1; 0]]) /\
  vcoord ROps [1; 2] 0 < vcoord ROps [1; 2] 1 /\
  nth 0 [[0; 1]; [1; 0]] [] = rot_apply 2 Rm (nth 0 [[1; 0]; [0; 1]] []).
Proof.
  cbv zeta.
  assert (forall P : nat -> nat -> Prop, P 0%nat 0%nat -> P 0%nat 1%nat -> P 1%nat 0%nat -> P 1%nat 1%nat ->
          forall i j, (i < 2)%nat -> (j < 2)%nat -> P i j) as two.
  { intros P ? ? ? ? i j Hi Hj. destruct i as [|[|i]]; try lia; destruct j as [|[|j]]; try lia; assumption. }
  assert (forall P : nat -> Prop, P 0%nat -> P 1%nat -> forall i, (i < 2)%nat -> P i) as one.
  { intros P ? ? i Hi. destruct i as [|[|i]]; try lia; assumption. }
  split; [split; apply two; cbn; lra|].
  split; [unfold conj_by; apply two; cbn; lra|].
  split; [|split; [|split]].
  - unfold eig_contract; cbn [fst snd]. repeat split; try reflexivity.
    + apply one; reflexivity.
    + apply two; cbn; lra.
    + apply two; cbn; lra.
    + intros c Hc. assert (c = 0%nat) as -> by lia. cbn; lra.
    + apply two; cbn; lra.
  - unfold eig_contract; cbn [fst snd]. repeat split; try reflexivity.
    + apply one; reflexivity.
    + apply two; cbn; lra.
    + apply two; cbn; lra.
    + intros c Hc. assert (c = 0%nat) as -> by lia. cbn; lra.
    + apply two; cbn; lra.
  - cbn; lra.
  - cbn. f_equal; [lra|f_equal; lra].
Qed.

(* the full rotation theorem applies to the witness cloud turned by a quarter about the z axis *)
Example C09_rotation_on_witness :
  let Rm := [[0; -1; 0]; [1; 0; 0]; [0; 0; 1]] in
  let e := estimate_point ROps wit_eig false 3 4 wit_p wit_nb [0; 0; 0; 1] in
  let e' := estimate_point ROps wit_eig false 3 4 (rot_point 3 Rm wit_p) (map (rot_point 3 Rm) wit_nb) [0; 0; 0; 1] in
  firstn 3 (e_normal e') = rot_apply 3 Rm (firstn 3 (e_normal e)) /\
  vcoord ROps (e_lambda e') 0 = vcoord ROps (e_lambda e) 0 /\ e_curvature e' = e_curvature e.
Proof.
  cbv zeta.
  assert (forall P : nat -> nat -> Prop,
            P 0%nat 0%nat -> P 0%nat 1%nat -> P 0%nat 2%nat -> P 1%nat 0%nat -> P 1%nat 1%nat -> P 1%nat 2%nat ->
            P 2%nat 0%nat -> P 2%nat 1%nat -> P 2%nat 2%nat ->
            forall i j, (i < 3)%nat -> (j < 3)%nat -> P i j) as three.
  { intros P ? ? ? ? ? ? ? ? ? i j Hi Hj.
    destruct i as [|[|[|i]]]; try lia; destruct j as [|[|[|j]]]; try lia; assumption. }
  set (Rm := [[0; -1; 0]; [1; 0; 0]; [0; 0; 1]]).
  assert (D : 3%nat = 2%nat \/ 3%nat = 3%nat) by (right; reflexivity).
  assert (HRm : is_rotation 3 Rm) by (split; apply three; cbn; lra).
  assert (Hl : forall q, In q wit_nb -> length q = 4%nat) by (intros q [<-|[<-|[<-|[<-|[]]]]]; reflexivity).
  assert (Hc' : eig_contract 3 (covariance ROps 3 4 (map (rot_point 3 Rm) wit_nb))
                  (wit_eig (covariance ROps 3 4 (map (rot_point 3 Rm) wit_nb)))).
  { unfold eig_contract, wit_eig. cbn [fst snd]. repeat split; try reflexivity.
    + intros c Hc. destruct c as [|[|[|c]]]; try lia; reflexivity.
    + apply three; cbn; lra.
    + apply three; cbn; lra.
    + intros c Hc. destruct c as [|[|c]]; try lia; cbn; lra.
    + apply three; cbn; lra. }
  assert (Gap : vcoord ROps (e_lambda (estimate_point ROps wit_eig false 3 4 wit_p wit_nb [0; 0; 0; 1])) 0
              < vcoord ROps (e_lambda (estimate_point ROps wit_eig false 3 4 wit_p wit_nb [0; 0; 0; 1])) 1) by (cbn; lra).
  destruct (C09_rotation_equivariance wit_eig 3 4 wit_p wit_nb [0; 0; 0; 1] [0; 0; 0; 1] Rm D HRm ltac:(lia) Hl
              C09_contract_satisfiable Hc' Gap) as (_ & A2 & A3 & A4).
  split; [apply A2|split; [exact A3|exact A4]].
  unfold estimate_point, wit_eig. cbn [e_normal nth]. unfold write_normal, flip_cart.
  cbn [firstn skipn app wit_p]. destruct (ngtb ROps _ _); cbn; lra.
Qed.
