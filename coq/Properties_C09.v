(* Properties_C09.v — C09: normal and curvature estimation (NormalAndCurvatureEstimation.cpp).
   The eigen-solver is an oracle [eig]; every theorem carries its contract [eig_contract] as a hypothesis
   about the one call the code makes (on the covariance of the neighbours).  [old_rule = false] is the code as
   it is now (flip test on the Cartesian parts), [old_rule = true] the original flip rule.
   Only statements, each closed by [exact <lemma>] and followed by Print Assumptions. *)
From Coq Require Import Reals ZArith List Bool Arith Lra Lia.
From Romea Require Import Num NumR NormalsModel NormalsProofs.
Import ListNotations.
Local Open Scope R_scope.

(* the Cartesian part of the written normal has unit length *)
Theorem C09_normal_unit : forall eig dim size p nb normal_in,
  dim = 2%nat \/ dim = 3%nat ->
  eig_contract dim (covariance ROps dim size nb) (eig (covariance ROps dim size nb)) ->
  let n := firstn dim (e_normal (estimate_point ROps eig false dim size p nb normal_in)) in
  vdot ROps n n = 1.
Proof. exact normal_unit. Qed.
Print Assumptions C09_normal_unit.

(* ... and points toward the sensor (origin): n . p_cart <= 0, for every p (also p = 0), every point size *)
Theorem C09_normal_faces_sensor : forall eig dim size p nb normal_in,
  dim = 2%nat \/ dim = 3%nat ->
  eig_contract dim (covariance ROps dim size nb) (eig (covariance ROps dim size nb)) ->
  let n := firstn dim (e_normal (estimate_point ROps eig false dim size p nb normal_in)) in
  vdot ROps n (firstn dim p) <= 0.
Proof. exact normal_faces_sensor. Qed.
Print Assumptions C09_normal_faces_sensor.

(* the original rule (test on the full homogeneous vectors, caller's w = 1) violates it *)
Theorem C09_normal_flip_homog_refuted :
  exists (eig : list (list R) -> list R * list (list R)) dim size p nb normal_in,
    eig_contract dim (covariance ROps dim size nb) (eig (covariance ROps dim size nb)) /\
    (size = S dim /\ length p = size /\ vcoord ROps p dim = 1 /\
     Forall (fun q => length q = size /\ vcoord ROps q dim = 1) nb) /\
    normal_in = [0; 0; 0; 1] /\
    vdot ROps (firstn dim (e_normal (estimate_point ROps eig true dim size p nb normal_in))) (firstn dim p) > 0.
Proof. exact normal_flip_homog_refuted. Qed.
Print Assumptions C09_normal_flip_homog_refuted.

(* where the original rule was right: the caller's extra entry of the normal (index dim) is 0 — which covers
   Cartesian point types (length normal_in = dim, so that entry reads as 0) and homogeneous normals with w = 0 *)
Theorem C09_normal_faces_sensor_old_rule_w0 : forall eig dim size p nb normal_in,
  dim = 2%nat \/ dim = 3%nat ->
  eig_contract dim (covariance ROps dim size nb) (eig (covariance ROps dim size nb)) ->
  (length p <= S dim)%nat -> vcoord ROps normal_in dim = 0 ->
  let n := firstn dim (e_normal (estimate_point ROps eig true dim size p nb normal_in)) in
  vdot ROps n (firstn dim p) <= 0.
Proof. exact normal_faces_sensor_old_rule_w0. Qed.
Print Assumptions C09_normal_faces_sensor_old_rule_w0.

(* the normal is the direction of least variance: n^T C n = lambda_0 <= x^T C x for every unit x *)
Theorem C09_normal_least_variance : forall eig dim size p nb normal_in,
  dim = 2%nat \/ dim = 3%nat ->
  eig_contract dim (covariance ROps dim size nb) (eig (covariance ROps dim size nb)) ->
  let C := covariance ROps dim size nb in
  let e := estimate_point ROps eig false dim size p nb normal_in in
  let n := firstn dim (e_normal e) in
  quad dim C n = vcoord ROps (e_lambda e) 0 /\
  forall x, length x = dim -> vdot ROps x x = 1 -> vcoord ROps (e_lambda e) 0 <= quad dim C x.
Proof. exact normal_least_variance. Qed.
Print Assumptions C09_normal_least_variance.

(* what x^T C x is: the mean square deviation of the neighbours from their mean along x
   ([lsum g l] = fold_right Rplus 0 (map g l); no hypothesis on the neighbour list is needed) *)
Theorem C09_quad_cov_is_variance : forall dim size nb x,
  dim = 2%nat \/ dim = 3%nat -> length x = dim ->
  quad dim (covariance ROps dim size nb) x =
  lsum (fun q => (vdot ROps (firstn dim (vsub ROps q (mean ROps size nb))) x) ^ 2) nb / INR (length nb).
Proof. exact quad_cov_is_variance. Qed.
Print Assumptions C09_quad_cov_is_variance.

Theorem C09_quad_cov_nonneg : forall dim size nb x,
  dim = 2%nat \/ dim = 3%nat -> length x = dim -> 0 <= quad dim (covariance ROps dim size nb) x.
Proof. exact quad_cov_nonneg. Qed.
Print Assumptions C09_quad_cov_nonneg.

(* curvature = lambda_0 / sum(lambda) lies in [0, 1/dim] whenever the sum is positive (otherwise the C++ divides 0 by 0) *)
Theorem C09_curvature_range : forall eig dim size p nb normal_in,
  dim = 2%nat \/ dim = 3%nat ->
  eig_contract dim (covariance ROps dim size nb) (eig (covariance ROps dim size nb)) ->
  let e := estimate_point ROps eig false dim size p nb normal_in in
  0 < vsum ROps (e_lambda e) -> 0 <= e_curvature e <= 1 / INR dim.
Proof. exact curvature_range. Qed.
Print Assumptions C09_curvature_range.

(* neighbours in a common hyperplane m . x = c (|m| = 1), not all on a lower-dimensional set (lambda_1 > 0):
   the normal is exactly +-m and the curvature exactly 0 *)
Theorem C09_planar_exact : forall eig dim size p nb normal_in m c,
  dim = 2%nat \/ dim = 3%nat ->
  eig_contract dim (covariance ROps dim size nb) (eig (covariance ROps dim size nb)) ->
  (forall q, In q nb -> length q = size) ->
  length m = dim -> vdot ROps m m = 1 ->
  (forall q, In q nb -> vdot ROps m (firstn dim q) = c) ->
  let e := estimate_point ROps eig false dim size p nb normal_in in
  let n := firstn dim (e_normal e) in
  0 < vcoord ROps (e_lambda e) 1 ->
  (n = m \/ n = map Ropp m) /\ e_curvature e = 0.
Proof. exact planar_exact. Qed.
Print Assumptions C09_planar_exact.

(* rotation equivariance, at the level of the covariance matrix: if C' = Rm C Rm^T for a rotation Rm and the
   smallest eigenvalue of C is simple, any two results meeting the contract have lam'_0 = lam_0 and the first
   eigenvector of C' is +- Rm (first eigenvector of C).
   PARTIAL: a statement about matrices only.  The two missing links to the model — (a) the covariance of the
   rotated neighbours is Rm C Rm^T, (b) the flip selects the same sign — are C09_covariance_rotated and
   C09_rotation_equivariance below. *)
Theorem C09_rotation_equivariance_partial : forall dim Rm C C' lam cols lam' cols',
  dim = 2%nat \/ dim = 3%nat ->
  is_rotation dim Rm -> conj_by dim Rm C C' ->
  eig_contract dim C (lam, cols) -> eig_contract dim C' (lam', cols') ->
  vcoord ROps lam 0 < vcoord ROps lam 1 ->
  vcoord ROps lam' 0 = vcoord ROps lam 0 /\
  (nth 0 cols' [] = rot_apply dim Rm (nth 0 cols []) \/
   nth 0 cols' [] = vneg ROps (rot_apply dim Rm (nth 0 cols []))).
Proof. exact rotation_equivariance_partial. Qed.
Print Assumptions C09_rotation_equivariance_partial.

(* (a) two-pass mean/covariance is equivariant: [rot_point dim Rm q] applies Rm to the first dim entries of q and
   keeps the rest (w).  Holds for any matrix Rm. *)
Theorem C09_covariance_rotated : forall dim size Rm nb,
  dim = 2%nat \/ dim = 3%nat -> (dim <= size)%nat -> (forall q, In q nb -> length q = size) ->
  conj_by dim Rm (covariance ROps dim size nb) (covariance ROps dim size (map (rot_point dim Rm) nb)).
Proof. exact covariance_rotated. Qed.
Print Assumptions C09_covariance_rotated.

(* the full property: rotating the neighbours and the point about the sensor (origin) rotates the normal and
   leaves lambda_0 and the curvature unchanged — whenever the normal is determined at all: lambda_0 simple and
   n . p <> 0 (for n . p = 0 the code keeps the sign the solver returned, which the contract does not fix).
   The caller-supplied contents of the two normals may differ. *)
Theorem C09_rotation_equivariance : forall eig dim size p nb normal_in normal_in' Rm,
  dim = 2%nat \/ dim = 3%nat -> is_rotation dim Rm ->
  (dim <= size)%nat -> (forall q, In q nb -> length q = size) ->
  let nb' := map (rot_point dim Rm) nb in
  let p' := rot_point dim Rm p in
  eig_contract dim (covariance ROps dim size nb) (eig (covariance ROps dim size nb)) ->
  eig_contract dim (covariance ROps dim size nb') (eig (covariance ROps dim size nb')) ->
  let e := estimate_point ROps eig false dim size p nb normal_in in
  let e' := estimate_point ROps eig false dim size p' nb' normal_in' in
  vcoord ROps (e_lambda e) 0 < vcoord ROps (e_lambda e) 1 ->
  vdot ROps (firstn dim (e_normal e)) (firstn dim p) <> 0 ->
  firstn dim (e_normal e') = rot_apply dim Rm (firstn dim (e_normal e)) /\
  vcoord ROps (e_lambda e') 0 = vcoord ROps (e_lambda e) 0 /\
  e_curvature e' = e_curvature e.
Proof. exact rotation_equivariance. Qed.
Print Assumptions C09_rotation_equivariance.

(* --- non-vacuity: the contract is satisfiable on a concrete cloud, and the theorems apply to it --- *)
Example C09_contract_satisfiable :
  eig_contract 3 (covariance ROps 3 4 wit_nb) (wit_eig (covariance ROps 3 4 wit_nb)).
Proof. exact wit_contract. Qed.

Example C09_repaired_rule_on_witness :
  vdot ROps (firstn 3 (e_normal (estimate_point ROps wit_eig false 3 4 wit_p wit_nb [0; 0; 0; 1]))) (firstn 3 wit_p) <= 0.
Proof. apply C09_normal_faces_sensor; [right; reflexivity|exact C09_contract_satisfiable]. Qed.

Example C09_planar_on_witness :
  let e := estimate_point ROps wit_eig false 3 4 wit_p wit_nb [0; 0; 0; 1] in
  (firstn 3 (e_normal e) = [0; 0; 1] \/ firstn 3 (e_normal e) = map Ropp [0; 0; 1]) /\ e_curvature e = 0.
Proof.
  apply (C09_planar_exact wit_eig 3 4 wit_p wit_nb [0; 0; 0; 1] [0; 0; 1] (-1/2)).
  - right; reflexivity.
  - exact C09_contract_satisfiable.
  - intros q [<-|[<-|[<-|[<-|[]]]]]; reflexivity.
  - reflexivity.
  - cbn; lra.
  - intros q [<-|[<-|[<-|[<-|[]]]]]; cbn; lra.
  - cbn; lra.
Qed.

Example C09_curvature_on_witness :
  0 <= e_curvature (estimate_point ROps wit_eig false 3 4 wit_p wit_nb [0; 0; 0; 1]) <= 1 / INR 3.
Proof.
  apply (C09_curvature_range wit_eig 3 4 wit_p wit_nb [0; 0; 0; 1]).
  - right; reflexivity.
  - exact C09_contract_satisfiable.
  - cbn; lra.
Qed.

(* the hypotheses of the rotation theorem are satisfiable: quarter turn in the plane, C = diag(1,2) *)
Example C09_rotation_hypotheses_satisfiable :
  let Rm := [[0; -1]; [1; 0]] in
  let C := [[1; 0]; [0; 2]] in
  let C' := [[2; 0]; [0; 1]] in
  is_rotation 2 Rm /\ conj_by 2 Rm C C' /\
  eig_contract 2 C ([1; 2], [[1; 0]; [0; 1]]) /\ eig_contract 2 C' ([1; 2], [[0; 1]; [1; 0]]) /\
  vcoord ROps [1; 2] 0 < vcoord ROps [1; 2] 1 /\
  nth 0 [[0; 1]; [1; 0]] [] = rot_apply 2 Rm (nth 0 [[1; 0]; [0; 1]] []).
Proof.
  cbv zeta.
  assert (forall P : nat -> nat -> Prop, P 0%nat 0%nat -> P 0%nat 1%nat -> P 1%nat 0%nat -> P 1%nat 1%nat ->
          forall i j, (i < 2)%nat -> (j < 2)%nat -> P i j) as two.
  { intros P ? ? ? ? i j Hi Hj. destruct i as [|[|i]]; try lia; destruct j as [|[|j]]; try lia; assumption. }
  assert (forall P : nat -> Prop, P 0%nat -> P 1%nat -> forall i, (i < 2)%nat -> P i) as one.
  { intros P ? ? i Hi. destruct i as [|[|i]]; try lia; assumption. }
  split; [split; apply two; cbn; lra|].
  split; [unfold conj_by; apply two; cbn; lra|].
  split; [|split; [|split]].
  - unfold eig_contract; cbn [fst snd]. repeat split; try reflexivity.
    + apply one; reflexivity.
    + apply two; cbn; lra.
    + apply two; cbn; lra.
    + intros c Hc. assert (c = 0%nat) as -> by lia. cbn; lra.
    + apply two; cbn; lra.
  - unfold eig_contract; cbn [fst snd]. repeat split; try reflexivity.
    + apply one; reflexivity.
    + apply two; cbn; lra.
    + apply two; cbn; lra.
    + intros c Hc. assert (c = 0%nat) as -> by lia. cbn; lra.
    + apply two; cbn; lra.
  - cbn; lra.
  - cbn. f_equal; [lra|f_equal; lra].
Qed.

(* the full rotation theorem applies to the witness cloud turned by a quarter about the z axis *)
Example C09_rotation_on_witness :
  let Rm := [[0; -1; 0]; [1; 0; 0]; [0; 0; 1]] in
  let e := estimate_point ROps wit_eig false 3 4 wit_p wit_nb [0; 0; 0; 1] in
  let e' := estimate_point ROps wit_eig false 3 4 (rot_point 3 Rm wit_p) (map (rot_point 3 Rm) wit_nb) [0; 0; 0; 1] in
  firstn 3 (e_normal e') = rot_apply 3 Rm (firstn 3 (e_normal e)) /\
  vcoord ROps (e_lambda e') 0 = vcoord ROps (e_lambda e) 0 /\ e_curvature e' = e_curvature e.
Proof.
  cbv zeta.
  assert (forall P : nat -> nat -> Prop,
            P 0%nat 0%nat -> P 0%nat 1%nat -> P 0%nat 2%nat -> P 1%nat 0%nat -> P 1%nat 1%nat -> P 1%nat 2%nat ->
            P 2%nat 0%nat -> P 2%nat 1%nat -> P 2%nat 2%nat ->
            forall i j, (i < 3)%nat -> (j < 3)%nat -> P i j) as three.
  { intros P ? ? ? ? ? ? ? ? ? i j Hi Hj.
    destruct i as [|[|[|i]]]; try lia; destruct j as [|[|[|j]]]; try lia; assumption. }
  apply C09_rotation_equivariance.
  - right; reflexivity.
  - split; apply three; cbn; lra.
  - lia.
  - intros q [<-|[<-|[<-|[<-|[]]]]]; reflexivity.
  - exact C09_contract_satisfiable.
  - unfold eig_contract, wit_eig. cbn [fst snd]. repeat split; try reflexivity.
    + intros c Hc. destruct c as [|[|[|c]]]; try lia; reflexivity.
    + apply three; cbn; lra.
    + apply three; cbn; lra.
    + intros c Hc. destruct c as [|[|c]]; try lia; cbn; lra.
    + apply three; cbn; lra.
  - cbn; lra.
  - unfold estimate_point, wit_eig. cbn [e_normal nth]. unfold write_normal, flip_cart.
    cbn [firstn skipn app wit_p]. destruct (ngtb ROps _ _); cbn; lra.
Qed.
