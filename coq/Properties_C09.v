(* Properties_C09.v — C09: normal and curvature estimation (NormalAndCurvatureEstimation.cpp).
   The eigen-solver is an oracle [eig]; every theorem carries its contract [eig_contract] as a hypothesis
   about the one call the code makes (on the covariance of the neighbours).  [old_rule = false] is the code as
   it is now (flip test on the Cartesian parts), [old_rule = true] the original flip rule.
   Only statements, each closed by [exact <lemma>] and followed by Print Assumptions. *)
From Coq Require Import Reals ZArith List Bool Arith Lra Lia.
From Romea Require Import Num NumR NormalsModel NormalsProofs.
Import ListNotations.
Local Open Scope R_scope.

(* the Cartesian part of the written normal has unit length *)
Theorem C09_normal_unit : forall eig dim size p nb normal_in,
  dim = 2%nat \/ dim = 3%nat ->
  eig_contract dim (covariance ROps dim size nb) (eig (covariance ROps dim size nb)) ->
  let n := firstn dim (e_normal (estimate_point ROps eig false dim size p nb normal_in)) in
  vdot ROps n n = 1.
Proof. exact normal_unit. Qed.
Print Assumptions C09_normal_unit.

(* ... and points toward the sensor (origin): n . p_cart <= 0, for every p (also p = 0), every point size *)
Theorem C09_normal_faces_sensor : forall eig dim size p nb normal_in,
  dim = 2%nat \/ dim = 3%nat ->
  eig_contract dim (covariance ROps dim size nb) (eig (covariance ROps dim size nb)) ->
  let n := firstn dim (e_normal (estimate_point ROps eig false dim size p nb normal_in)) in
  vdot ROps n (firstn dim p) <= 0.
Proof. exact normal_faces_sensor. Qed.
Print Assumptions C09_normal_faces_sensor.

(* the original rule (test on the full homogeneous vectors, caller's w = 1) violates it *)
Theorem C09_normal_flip_homog_refuted :
  exists (eig : list (list R) -> list R * list (list R)) dim size p nb normal_in,
    eig_contract dim (covariance ROps dim size nb) (eig (covariance ROps dim size nb)) /\
    (size = S dim /\ length p = size /\ vcoord ROps p dim = 1 /\
     Forall (fun q => length q = size /\ vcoord ROps q dim = 1) nb) /\
    normal_in = [0; 0; 0; 1] /\
    vdot ROps (firstn dim (e_normal (estimate_point ROps eig true dim size p nb normal_in))) (firstn dim p) > 0.
Proof. exact normal_flip_homog_refuted. Qed.
Print Assumptions C09_normal_flip_homog_refuted.

(* the normal is the direction of least variance: n^T C n = lambda_0 <= x^T C x for every unit x *)
Theorem C09_normal_least_variance : forall eig dim size p nb normal_in,
  dim = 2%nat \/ dim = 3%nat ->
  eig_contract dim (covariance ROps dim size nb) (eig (covariance ROps dim size nb)) ->
  let C := covariance ROps dim size nb in
  let e := estimate_point ROps eig false dim size p nb normal_in in
  let n := firstn dim (e_normal e) in
  quad dim C n = vcoord ROps (e_lambda e) 0 /\
  forall x, length x = dim -> vdot ROps x x = 1 -> vcoord ROps (e_lambda e) 0 <= quad dim C x.
Proof. exact normal_least_variance. Qed.
Print Assumptions C09_normal_least_variance.

(* what x^T C x is: the mean square deviation of the neighbours from their mean along x
   ([lsum g l] = fold_right Rplus 0 (map g l); no hypothesis on the neighbour list is needed) *)
Theorem C09_quad_cov_is_variance : forall dim size nb x,
  dim = 2%nat \/ dim = 3%nat -> length x = dim ->
  quad dim (covariance ROps dim size nb) x =
  lsum (fun q => (vdot ROps (firstn dim (vsub ROps q (mean ROps size nb))) x) ^ 2) nb / INR (length nb).
Proof. exact quad_cov_is_variance. Qed.
Print Assumptions C09_quad_cov_is_variance.

Theorem C09_quad_cov_nonneg : forall dim size nb x,
  dim = 2%nat \/ dim = 3%nat -> length x = dim -> 0 <= quad dim (covariance ROps dim size nb) x.
Proof. exact quad_cov_nonneg. Qed.
Print Assumptions C09_quad_cov_nonneg.

(* curvature = lambda_0 / sum(lambda) lies in [0, 1/dim] whenever the sum is positive (otherwise the C++ divides 0 by 0) *)
Theorem C09_curvature_range : forall eig dim size p nb normal_in,
  dim = 2%nat \/ dim = 3%nat ->
  eig_contract dim (covariance ROps dim size nb) (eig (covariance ROps dim size nb)) ->
  let e := estimate_point ROps eig false dim size p nb normal_in in
  0 < vsum ROps (e_lambda e) -> 0 <= e_curvature e <= 1 / INR dim.
Proof. exact curvature_range. Qed.
Print Assumptions C09_curvature_range.

(* neighbours in a common hyperplane m . x = c (|m| = 1), not all on a lower-dimensional set (lambda_1 > 0):
   the normal is exactly +-m and the curvature exactly 0 *)
Theorem C09_planar_exact : forall eig dim size p nb normal_in m c,
  dim = 2%nat \/ dim = 3%nat ->
  eig_contract dim (covariance ROps dim size nb) (eig (covariance ROps dim size nb)) ->
  (forall q, In q nb -> length q = size) ->
  length m = dim -> vdot ROps m m = 1 ->
  (forall q, In q nb -> vdot ROps m (firstn dim q) = c) ->
  let e := estimate_point ROps eig false dim size p nb normal_in in
  let n := firstn dim (e_normal e) in
  0 < vcoord ROps (e_lambda e) 1 ->
  (n = m \/ n = map Ropp m) /\ e_curvature e = 0.
Proof. exact planar_exact. Qed.
Print Assumptions C09_planar_exact.

(* --- non-vacuity: the contract is satisfiable on a concrete cloud, and the theorems apply to it --- *)
Example C09_contract_satisfiable :
  eig_contract 3 (covariance ROps 3 4 wit_nb) (wit_eig (covariance ROps 3 4 wit_nb)).
Proof. exact wit_contract. Qed.

Example C09_repaired_rule_on_witness :
  vdot ROps (firstn 3 (e_normal (estimate_point ROps wit_eig false 3 4 wit_p wit_nb [0; 0; 0; 1]))) (firstn 3 wit_p) <= 0.
Proof. apply C09_normal_faces_sensor; [right; reflexivity|exact C09_contract_satisfiable]. Qed.

Example C09_planar_on_witness :
  let e := estimate_point ROps wit_eig false 3 4 wit_p wit_nb [0; 0; 0; 1] in
  (firstn 3 (e_normal e) = [0; 0; 1] \/ firstn 3 (e_normal e) = map Ropp [0; 0; 1]) /\ e_curvature e = 0.
Proof.
  apply (C09_planar_exact wit_eig 3 4 wit_p wit_nb [0; 0; 0; 1] [0; 0; 1] (-1/2)).
  - right; reflexivity.
  - exact C09_contract_satisfiable.
  - intros q [<-|[<-|[<-|[<-|[]]]]]; reflexivity.
  - reflexivity.
  - cbn; lra.
  - intros q [<-|[<-|[<-|[<-|[]]]]]; cbn; lra.
  - cbn; lra.
Qed.
