(* KabschLists.v — C04: the list sums of the model ([mean_of], [cross_cov], [assemble] of KabschModel.v) identified with the
   finite sums of the function view used by the optimality theorems (KabschProofs.v, KabschProper.v), and the resulting
   theorems about the output of [estimate_pairs] itself: least-squares optimal among all proper rigid motions (rotation
   AND translation), exact recovery of (R0, tau0) from exact data of rank >= d-1. *)
From Coq Require Import Reals List Arith ZArith Lia Lra Bool Psatz.
From Romea Require Import Num NumR LinAlgBModel LinAlgBProofs LsProofs KabschModel KabschProofs KabschProper.
Import ListNotations.
Local Open Scope R_scope.

Local Notation mg := (mget ROps).
Local Notation vg := (vget ROps).

(* ---- finite sums ---- *)
Lemma Rsum_shift n f : Rsum (Datatypes.S n) f = f 0%nat + Rsum n (fun i => f (Datatypes.S i)).
Proof.
  induction n as [|n IH].
  - cbn [sumn]. rsimpl. ring.
  - rewrite (Rsum_S (Datatypes.S n)), IH, (Rsum_S n (fun i => f (Datatypes.S i))). ring.
Qed.

Lemma Rsum_const n c : Rsum n (fun _ => c) = IZR (Z.of_nat n) * c.
Proof.
  induction n as [|n IH].
  - cbn. ring.
  - rewrite Rsum_S, IH, Nat2Z.inj_succ, succ_IZR. ring.
Qed.

Lemma Rsum_tail_zero d n f : (d <= n)%nat -> (forall l, (d <= l)%nat -> f l = 0) -> Rsum n f = Rsum d f.
Proof.
  intros Hdn Hz. induction n as [|n IH].
  - now replace d with 0%nat by lia.
  - destruct (Nat.eq_dec d (Datatypes.S n)) as [->|Hne]; [reflexivity|].
    rewrite Rsum_S, IH by lia. rewrite (Hz n) by lia. ring.
Qed.

(* ---- list sums ---- *)
Lemma sum_list_nil {A} (f : A -> R) : sum_list ROps f [] = 0.
Proof. reflexivity. Qed.

Lemma sum_list_Rsum {A} (f : A -> R) (dflt : A) l :
  sum_list ROps f l = Rsum (length l) (fun n => f (nth n l dflt)).
Proof.
  induction l as [|x l IH].
  - reflexivity.
  - rewrite sum_list_cons, IH. cbn [length]. rewrite Rsum_shift. reflexivity.
Qed.

Lemma sum_list_map {A B} (g : A -> B) (f : B -> R) l : sum_list ROps f (map g l) = sum_list ROps (fun x => f (g x)) l.
Proof.
  induction l as [|x l IH]; [reflexivity|]. cbn [map]. now rewrite !sum_list_cons, IH.
Qed.

(* ---- the function view of a list of pairs ---- *)
Section Pairs.
Variables (d ps : nat) (pairs : list (list R * list R)).

Definition p_N : nat := length pairs.
Definition p_src (n i : nat) : R := vg (fst (nth n pairs ([], []))) i.
Definition p_tgt (n i : nat) : R := vg (snd (nth n pairs ([], []))) i.
Definition p_sm : list R := mean_of ROps ps (map fst pairs).
Definition p_tm : list R := mean_of ROps ps (map snd pairs).
(* centred coordinates *)
Definition Sc (n i : nat) : R := p_src n i - vg p_sm i.
Definition Tc (n i : nat) : R := p_tgt n i - vg p_tm i.

Lemma p_sm_get i : (i < ps)%nat -> vg p_sm i = Rsum p_N (fun n => p_src n i) / IZR (Z.of_nat p_N).
Proof.
  intros Hi. unfold p_sm, mean_of. rewrite vget_tab by exact Hi. rsimpl. unfold nat_to_T. rsimpl.
  rewrite map_length, sum_list_map, (sum_list_Rsum _ ([], [])). reflexivity.
Qed.
Lemma p_tm_get i : (i < ps)%nat -> vg p_tm i = Rsum p_N (fun n => p_tgt n i) / IZR (Z.of_nat p_N).
Proof.
  intros Hi. unfold p_tm, mean_of. rewrite vget_tab by exact Hi. rsimpl. unfold nat_to_T. rsimpl.
  rewrite map_length, sum_list_map, (sum_list_Rsum _ ([], [])). reflexivity.
Qed.

Lemma p_N_nonzero : pairs <> [] -> IZR (Z.of_nat p_N) <> 0.
Proof.
  intros Hne. unfold p_N. destruct pairs as [|x l]; [congruence|]. apply not_0_IZR. cbn [length]. lia.
Qed.

(* (c): the cross covariance computed by the model is the finite sum of the function view *)
Lemma cross_cov_get i j : (i < d)%nat -> (j < d)%nat ->
  mg (cross_cov ROps d pairs p_sm p_tm) i j = Ccov p_N Sc Tc i j.
Proof.
  intros Hi Hj. unfold cross_cov. rewrite mget_mtab by assumption.
  rewrite (sum_list_Rsum _ ([], [])). unfold Ccov. apply Rsum_ext. intros n _. reflexivity.
Qed.

(* the means computed by the model centre the pairs *)
Lemma Sc_centred i : (i < ps)%nat -> pairs <> [] -> Rsum p_N (fun n => Sc n i) = 0.
Proof.
  intros Hi Hne. unfold Sc. rewrite Rsum_minus, Rsum_const, (p_sm_get i Hi). field. now apply p_N_nonzero.
Qed.
Lemma Tc_centred i : (i < ps)%nat -> pairs <> [] -> Rsum p_N (fun n => Tc n i) = 0.
Proof.
  intros Hi Hne. unfold Tc. rewrite Rsum_minus, Rsum_const, (p_tm_get i Hi). field. now apply p_N_nonzero.
Qed.

(* ---- the matrix assembled by the model ---- *)
Lemma assemble_block Rm sm tm i j : (i < d)%nat -> (j < d)%nat -> mg (assemble ROps d ps Rm sm tm) i j = mg Rm i j.
Proof.
  intros Hi Hj. unfold assemble. rewrite mget_mtab by lia.
  replace (Nat.eqb j d) with false by (symmetry; apply Nat.eqb_neq; lia). cbn [andb].
  replace (Nat.ltb i d) with true by (symmetry; apply Nat.ltb_lt; lia).
  replace (Nat.ltb j d) with true by (symmetry; apply Nat.ltb_lt; lia). reflexivity.
Qed.

Lemma assemble_col Rm sm tm i : (i < d)%nat -> (d <= ps)%nat ->
  mg (assemble ROps d ps Rm sm tm) i d = vg tm i - Rsum d (fun l => mg Rm i l * vg sm l).
Proof.
  intros Hi Hps. unfold assemble. rewrite mget_mtab by lia.
  rewrite Nat.eqb_refl. replace (Nat.ltb i ps) with true by (symmetry; apply Nat.ltb_lt; lia). cbn [andb].
  replace (Nat.ltb i d) with true by (symmetry; apply Nat.ltb_lt; lia).
  rewrite Nat.ltb_irrefl. cbn [andb]. rewrite fid_delta, (delta_diff i d) by lia. rsimpl.
  rewrite (Rsum_tail_zero d ps).
  - rewrite (Rsum_ext d _ (fun l => mg Rm i l * vg sm l)); [lra|].
    intros l Hl. replace (Nat.ltb l d) with true by (symmetry; apply Nat.ltb_lt; lia). reflexivity.
  - exact Hps.
  - intros l Hl. replace (Nat.ltb l d) with false by (symmetry; apply Nat.ltb_ge; lia). cbn [andb].
    rewrite fid_delta, (delta_diff i l) by lia. ring.
Qed.

(* ---- the registration cost of a rigid motion (Rm, t) on the listed pairs themselves (not centred) ---- *)
Definition fcost (Rm : nat -> nat -> R) (t : nat -> R) : R :=
  Rsum p_N (fun n => Rsum d (fun i =>
    (Rsum d (fun j => Rm i j * p_src n j) + t i - p_tgt n i) * (Rsum d (fun j => Rm i j * p_src n j) + t i - p_tgt n i))).

(* with the translation tm - Rm sm the cost is the cost of Rm on the centred pairs *)
Lemma fcost_centred Rm :
  fcost Rm (fun i => vg p_tm i - Rsum d (fun j => Rm i j * vg p_sm j)) = rcost d p_N Sc Tc Rm.
Proof.
  unfold fcost, rcost. apply Rsum_ext. intros n _. apply Rsum_ext. intros i _.
  pose proof (translation_maps d Rm (p_src n) (vg p_sm) (vg p_tm) i) as E. unfold Sc, Tc.
  assert (E' : Rsum d (fun j => Rm i j * p_src n j) + (vg p_tm i - Rsum d (fun j => Rm i j * vg p_sm j)) - p_tgt n i
             = Rsum d (fun j => Rm i j * (p_src n j - vg p_sm j)) - (p_tgt n i - vg p_tm i)) by lra.
  now rewrite E'.
Qed.

(* any other translation costs more: fcost Q tau = rcost Q + N |Q sm + tau - tm|^2 *)
Lemma fcost_ge_rcost Q tau : (d <= ps)%nat -> pairs <> [] -> rcost d p_N Sc Tc Q <= fcost Q tau.
Proof.
  intros Hps Hne.
  set (c := fun i => Rsum d (fun j => Q i j * vg p_sm j) + tau i - vg p_tm i).
  set (r := fun n i => Rsum d (fun j => Q i j * Sc n j) - Tc n i).
  assert (Hterm : forall n i, Rsum d (fun j => Q i j * p_src n j) + tau i - p_tgt n i = r n i + c i).
  { intros n i. unfold r, c, Sc, Tc.
    rewrite (Rsum_ext d (fun j => Q i j * (p_src n j - vg p_sm j)) (fun j => Q i j * p_src n j - Q i j * vg p_sm j)) by (intros; ring).
    rewrite Rsum_minus. ring. }
  assert (Hr0 : forall i, (i < d)%nat -> Rsum p_N (fun n => r n i) = 0).
  { intros i Hi. unfold r. rewrite Rsum_minus, (Tc_centred i) by (assumption || lia).
    rewrite Rsum_swap. rewrite (Rsum_ext d _ (fun j => Q i j * Rsum p_N (fun n => Sc n j))) by (intros; now rewrite Rsum_scal_l).
    rewrite (Rsum_zero d); [ring|]. intros j Hj. rewrite (Sc_centred j) by (assumption || lia). ring. }
  unfold fcost.
  rewrite (Rsum_ext p_N _ (fun n => Rsum d (fun i => r n i * r n i) + (2 * Rsum d (fun i => c i * r n i) + Rsum d (fun i => c i * c i)))).
  2:{ intros n _. rewrite <- Rsum_scal_l, <- !Rsum_plus. apply Rsum_ext. intros i _. rewrite Hterm. ring. }
  rewrite !Rsum_plus, Rsum_scal_l.
  assert (Hcross : Rsum p_N (fun n => Rsum d (fun i => c i * r n i)) = 0).
  { rewrite Rsum_swap. apply Rsum_zero. intros i Hi. rewrite Rsum_scal_l, (Hr0 i Hi). ring. }
  rewrite Hcross.
  assert (Hsq : 0 <= Rsum p_N (fun _ => Rsum d (fun i => c i * c i))).
  { apply Rsum_nonneg. intros. apply Rsum_nonneg. intros. apply Rle_0_sqr. }
  change (rcost d p_N Sc Tc Q) with (Rsum p_N (fun n => Rsum d (fun i => r n i * r n i))). lra.
Qed.

(* exact data t_n = R0 s_n + tau0: the centred targets are R0 times the centred sources, and tm = R0 sm + tau0 *)
Lemma exact_mean R0 tau0 : (d <= ps)%nat -> pairs <> [] ->
  (forall n i, (n < p_N)%nat -> (i < d)%nat -> p_tgt n i = Rsum d (fun j => R0 i j * p_src n j) + tau0 i) ->
  forall i, (i < d)%nat -> vg p_tm i = Rsum d (fun j => R0 i j * vg p_sm j) + tau0 i.
Proof.
  intros Hps Hne Hex i Hi. pose proof (p_N_nonzero Hne) as HN.
  rewrite p_tm_get by lia.
  rewrite (Rsum_ext p_N _ (fun n => Rsum d (fun j => R0 i j * p_src n j) + tau0 i)) by (intros n Hn; now apply Hex).
  rewrite Rsum_plus, Rsum_const, Rsum_swap.
  rewrite (Rsum_ext d (fun j => R0 i j * vg p_sm j) (fun j => Rsum p_N (fun n => R0 i j * p_src n j) / IZR (Z.of_nat p_N))).
  2:{ intros j Hj. rewrite p_sm_get by lia. rewrite Rsum_scal_l. field. exact HN. }
  unfold Rdiv at 2. rewrite Rsum_scal_r. field. exact HN.
Qed.

Lemma exact_centred R0 tau0 : (d <= ps)%nat -> pairs <> [] ->
  (forall n i, (n < p_N)%nat -> (i < d)%nat -> p_tgt n i = Rsum d (fun j => R0 i j * p_src n j) + tau0 i) ->
  forall n i, (n < p_N)%nat -> (i < d)%nat -> Tc n i = Rsum d (fun j => R0 i j * Sc n j).
Proof.
  intros Hps Hne Hex n i Hn Hi. unfold Tc, Sc. rewrite (Hex n i Hn Hi), (exact_mean R0 tau0 Hps Hne Hex i Hi).
  rewrite (Rsum_ext d (fun j => R0 i j * (p_src n j - vg p_sm j)) (fun j => R0 i j * p_src n j - R0 i j * vg p_sm j)) by (intros; ring).
  rewrite Rsum_minus. ring.
Qed.

End Pairs.

(* ---- the output of [estimate_pairs] (repaired code) ---- *)
Section Estimate.
Variable svd_of : nat -> list (list R) -> (list (list R) * list R) * list (list R).
Variables (d ps : nat) (pairs : list (list R * list R)).
Hypothesis Hd : (d = 2 \/ d = 3)%nat.
Hypothesis Hps : (d <= ps)%nat.
Hypothesis Hne : pairs <> [].

Let cov := cross_cov ROps d pairs (p_sm ps pairs) (p_tm ps pairs).
Let H := estimate_pairs ROps svd_of true d ps pairs.
Let Rblock := rotation_of ROps svd_of true d cov.

Hypothesis Hc : svd_contract d cov (svd_of d cov).

Lemma estimate_block i j : (i < d)%nat -> (j < d)%nat -> mg H i j = mg Rblock i j.
Proof. intros Hi Hj. unfold H, estimate_pairs. now apply assemble_block. Qed.

Lemma estimate_col i : (i < d)%nat ->
  mg H i d = vg (p_tm ps pairs) i - Rsum d (fun l => mg H i l * vg (p_sm ps pairs) l).
Proof.
  intros Hi. unfold H at 1. unfold estimate_pairs. rewrite assemble_col by assumption.
  f_equal. apply Rsum_ext. intros l Hl. now rewrite estimate_block.
Qed.

Lemma fcost_ext Rm Rm' t t' :
  (forall i j, (i < d)%nat -> (j < d)%nat -> Rm i j = Rm' i j) -> (forall i, (i < d)%nat -> t i = t' i) ->
  fcost d pairs Rm t = fcost d pairs Rm' t'.
Proof.
  intros HR Ht. unfold fcost. apply Rsum_ext. intros n _. apply Rsum_ext. intros i Hi.
  rewrite (Rsum_ext d (fun j => Rm i j * p_src pairs n j) (fun j => Rm' i j * p_src pairs n j)) by (intros j Hj; now rewrite HR).
  now rewrite Ht.
Qed.

(* the linear part of the estimate is a proper rotation *)
Theorem estimate_is_proper_rotation : is_orth d (mg H) /\ fdet ROps d (mg H) = 1.
Proof.
  split.
  - intros a b Ha Hb.
    rewrite (Rsum_ext d _ (fun l => mg Rblock l a * mg Rblock l b)) by (intros l Hl; now rewrite !estimate_block).
    exact (rotation_orthogonal svd_of d cov Hc true a b Ha Hb).
  - rewrite (fdet_ext d (mg H) (mg Rblock) Hd) by (intros; now apply estimate_block).
    exact (rotation_proper svd_of d cov Hd Hc).
Qed.

(* least-squares optimality of the estimate among ALL proper rigid motions x -> Q x + tau *)
Theorem estimate_optimal Q tau : is_orth d Q -> fdet ROps d Q = 1 ->
  fcost d pairs (mg H) (fun i => mg H i d) <= fcost d pairs Q tau.
Proof.
  intros HQ HdQ.
  rewrite (fcost_ext (mg H) (mg H) (fun i => mg H i d)
             (fun i => vg (p_tm ps pairs) i - Rsum d (fun j => mg H i j * vg (p_sm ps pairs) j))
             (fun _ _ _ _ => eq_refl) estimate_col).
  rewrite fcost_centred.
  rewrite (rcost_ext d _ _ _ (mg H) (mg Rblock)) by (intros; now apply estimate_block).
  apply Rle_trans with (rcost d (p_N pairs) (Sc ps pairs) (Tc ps pairs) Q).
  - apply (rotation_of_optimal_proper svd_of d cov (p_N pairs) (Sc ps pairs) (Tc ps pairs) Hd Hc); [|exact HQ|exact HdQ].
    intros j i Hj Hi. symmetry. now apply cross_cov_get.
  - now apply fcost_ge_rcost.
Qed.

(* exact recovery: if every target is R0 s + tau0 (R0 a proper rotation) and the sources are not all collinear (3D) /
   not all coincident (2D), the estimate is (R0, tau0) *)
Theorem estimate_exact_recovery R0 tau0 : is_orth d R0 -> fdet ROps d R0 = 1 ->
  rank_ge_dm1 d (p_N pairs) (Sc ps pairs) ->
  (forall n i, (n < p_N pairs)%nat -> (i < d)%nat ->
     p_tgt pairs n i = Rsum d (fun j => R0 i j * p_src pairs n j) + tau0 i) ->
  (forall i j, (i < d)%nat -> (j < d)%nat -> mg H i j = R0 i j) /\ (forall i, (i < d)%nat -> mg H i d = tau0 i).
Proof.
  intros H0 Hd0 Hr Hex.
  assert (HB : forall i j, (i < d)%nat -> (j < d)%nat -> mg H i j = R0 i j).
  { intros i j Hi Hj. rewrite estimate_block by assumption.
    apply (rotation_of_exact_recovery svd_of d cov (p_N pairs) (Sc ps pairs) (Tc ps pairs) Hd Hc); try assumption.
    - intros j' i' Hj' Hi'. symmetry. now apply cross_cov_get.
    - intros n i' Hn Hi'. now apply (exact_centred d ps pairs R0 tau0). }
  split; [exact HB|].
  intros i Hi. rewrite estimate_col by exact Hi.
  rewrite (exact_mean d ps pairs R0 tau0 Hps Hne Hex i Hi).
  rewrite (Rsum_ext d (fun l => mg H i l * vg (p_sm ps pairs) l) (fun l => R0 i l * vg (p_sm ps pairs) l))
    by (intros l Hl; now rewrite HB).
  ring.
Qed.

(* and then every source is mapped onto its target *)
Corollary estimate_exact_maps R0 tau0 : is_orth d R0 -> fdet ROps d R0 = 1 ->
  rank_ge_dm1 d (p_N pairs) (Sc ps pairs) ->
  (forall n i, (n < p_N pairs)%nat -> (i < d)%nat ->
     p_tgt pairs n i = Rsum d (fun j => R0 i j * p_src pairs n j) + tau0 i) ->
  forall n i, (n < p_N pairs)%nat -> (i < d)%nat ->
    Rsum d (fun j => mg H i j * p_src pairs n j) + mg H i d = p_tgt pairs n i.
Proof.
  intros H0 Hd0 Hr Hex n i Hn Hi. destruct (estimate_exact_recovery R0 tau0 H0 Hd0 Hr Hex) as (HB & HT).
  rewrite (Hex n i Hn Hi), (HT i Hi). f_equal. apply Rsum_ext. intros j Hj. now rewrite HB.
Qed.

End Estimate.
