(* SrcTieAngles.v — the angle normalisers and rotation -> angle extractors of EulerAngles.hpp, regenerated from the clang
   AST of their instantiation at Scalar = double (gen/SrcFunsC10.v, translate/srcfuns.py), equal the model functions the C10
   theorems are about (real instance; the normalisers' internal `double` is the same type, conversions = identity).
   The if / else-if chain with `value += M_2PI` / `value -= M_2PI` is translated to nested conditionals on the locals;
   M_2PI is read from its own initialiser `2 * M_PI` in the source. *)
From Coq Require Import Reals ZArith Lra.
From Romea Require Import Num NumR AnglesModel AnglesRoundtrip SrcTie.
From Romea.gen Require Import SrcFunsC10.
Local Open Scope R_scope.

Lemma two_pi_src : IZR 2 * PI = (1 + 1) * PI.
Proof. replace (IZR 2) with 2 by reflexivity. lra. Qed.

Lemma tie_between0And2Pi v : src_between0And2Pi ROps v = b02 v.
Proof.
  unfold src_between0And2Pi, b02, between0And2Pi, m_2pi, idR.
  cbv zeta. dict. rewrite ?two_pi_src.
  match goal with |- (if ?c then _ else _) = (if ?c' then _ else _) => replace c with c' by req; destruct c' end; req.
Qed.

Lemma tie_betweenMinusPiAndPi v : src_betweenMinusPiAndPi ROps v = bpi v.
Proof.
  unfold src_betweenMinusPiAndPi, bpi, betweenMinusPiAndPi, m_2pi, idR.
  cbv zeta. dict. rewrite ?two_pi_src.
  repeat (match goal with |- (if ?c then _ else _) = (if ?c' then _ else _) => replace c with c' by req; destruct c' end); req.
Qed.

Lemma tie_rotation2DToEulerAngle (m : mat2 R) :
  src_rotation2DToEulerAngle ROps (a00 m) (a01 m) (a10 m) (a11 m) = rotation2DToEulerAngle ROps ROps idR idR m.
Proof.
  unfold src_rotation2DToEulerAngle, rotation2DToEulerAngle. rewrite tie_between0And2Pi. unfold b02. dict. req.
Qed.

(* the model returns None where asin would be NaN (|m20| > 1); on the domain of asin the three angles are the source's *)
Lemma tie_rotation3DToEulerAngles (m : mat3 R) :
  nleb ROps (nabs ROps (m20 m)) (n_one ROps) = true ->
  rotation3DToEulerAngles ROps ROps idR idR m =
  (let '(r, p, y) := src_rotation3DToEulerAngles ROps (m00 m) (m10 m) (m20 m) (m21 m) (m22 m) in Some (mkV3 r p y)).
Proof.
  intros H. unfold rotation3DToEulerAngles, src_rotation3DToEulerAngles. rewrite H.
  rewrite !tie_between0And2Pi. unfold b02. dict. req.
Qed.
