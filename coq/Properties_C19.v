(* Properties_C19.v — C19: shared variables, statistics and check-ups are safe under concurrent use (partial). *)
From Coq Require Import List String Bool.
From Romea Require Import Conc ConcSerial ConcModel ConcProofs.
From Romea.gen Require Import ConcFacts.
Import ListNotations.

(* Lock discipline implies data-race freedom, for ANY number of threads, each performing ANY sequence of operations
   of the class, in EVERY interleaving (small-step semantics at access granularity). *)
Theorem C19_well_locked_no_race : forall c progs, class_ok c = true -> (forall l, In l progs -> thread_of c l) ->
  forall st, reach {| holder := None; todo := progs |} st -> ~ race st.
Proof. exact class_no_race. Qed.
Print Assumptions C19_well_locked_no_race.

(* Generated obligation, re-proved on every run against the facts regenerated from the current sources: every
   operation named by the property, of every class, keeps all plain shared accesses inside the critical section. *)
Theorem C19_all_classes_well_locked : forallb class_ok all_classes = true.
Proof. vm_compute. reflexivity. Qed.

Theorem C19_no_race_in_any_class : forall c, In c all_classes -> forall progs, (forall l, In l progs -> thread_of c l) ->
  forall st, reach {| holder := None; todo := progs |} st -> ~ race st.
Proof.
  intros c Hc progs. apply class_no_race. pose proof C19_all_classes_well_locked as H. rewrite forallb_forall in H. exact (H c Hc).
Qed.
Print Assumptions C19_no_race_in_any_class.

(* serial specifications *)
Theorem C19_shared_variable_loads_last_store : forall (V : Type) (pre : list (svop (V:=V))) s,
  sv_run s (pre ++ [SvLoad]) = sv_run s pre ++ [Some (last_store s pre)].
Proof. exact @sv_load_reads_last_store. Qed.

Theorem C19_shared_variable_reads_a_stored_value : forall (V : Type) (ops : list (svop (V:=V))) s x,
  In (Some x) (sv_run s ops) -> x = s \/ In x (stores_sv ops).
Proof. exact @sv_loads_are_stored. Qed.

Theorem C19_optional_exactly_once_in_order : forall (V : Type) (ops : list (soop (V:=V))), NoDup (stores ops) ->
  subseq (consumed (so_run None ops)) (stores ops) /\ NoDup (consumed (so_run None ops)).
Proof. exact @so_exactly_once_in_order. Qed.
Print Assumptions C19_optional_exactly_once_in_order.

(* Serialisability at critical-section granularity: while a thread holds the lock NO other thread can take any step
   (each of its pending actions is a Lock or lies inside a section it does not own), so every execution trace of a
   well-locked class is a sequence of uninterrupted critical sections — the interleaved run IS a sequential ordering of
   the calls, in lock-acquisition order, and what each call reads and writes is what that ordering produces. *)
Theorem C19_only_the_holder_moves : forall st t a st', inv st -> lstep st (t, a) st' ->
  match holder st with Some h => h = t /\ a <> Lock | None => a = Lock end.
Proof. exact only_holder_steps. Qed.

Theorem C19_well_locked_traces_serial : forall c progs, class_ok c = true -> (forall l, In l progs -> thread_of c l) ->
  forall tr st, run {| holder := None; todo := progs |} tr st -> serial_trace None tr = true.
Proof. exact well_locked_traces_serial. Qed.
Print Assumptions C19_well_locked_traces_serial.

Theorem C19_every_class_runs_serially : forall c, In c all_classes -> forall progs, (forall l, In l progs -> thread_of c l) ->
  forall tr st, run {| holder := None; todo := progs |} tr st -> serial_trace None tr = true.
Proof.
  intros c Hc progs. apply well_locked_traces_serial.
  pose proof C19_all_classes_well_locked as H. rewrite forallb_forall in H. exact (H c Hc).
Qed.

(* NOT PROVED: the C++ memory model (std::mutex is assumed to give mutual exclusion and happens-before, atomics to be
   sequentially consistent), the fidelity of the AST analysis (cross-validated by ThreadSanitizer on every run), and
   operations that are not a single critical section at this level of abstraction (an operation whose body is empty
   here — RateMonitoring::getRate reads an atomic — is treated as an atomic read).  The serial specifications above and
   C18_report_consistent apply to the serial order given by C19_well_locked_traces_serial. *)

Example C19_ex_thread : thread_of cls_SharedVariable_int ([Lock; Wr 0; Unlock] ++ [Lock; Rd 0; Unlock] ++ []).
Proof. apply (t_call _ "store"%string); [cbn; auto|]. apply (t_call _ "load"%string); [cbn; auto|]. constructor. Qed.
