(* ZeroDispRansac.v — C06, zero displacement, the RANSAC rigid-motion model (RansacModel.v): when every correspondence
   pairs a target point with an identical source point and the drawn candidate is the identity matrix (which is what the
   point-to-plane estimator returns on ANY sample of such correspondences, ZeroDispProofs.v), then
     - every residual is 0, so countInliers' consensus has the size of the whole correspondence list, its rmse is 0,
     - check_ accepts the sample, the consensus passes both gates (given enough correspondences) and is stored,
     - countInliers returns the number of correspondences, for a fresh object and for every later identity candidate,
   and, driven by Ransac::estimateModel: the first draw already raises the best count above the draw size, so
   estimateModel returns true and the refit is handed the full consensus. *)
From Coq Require Import Reals ZArith List Bool Lra Lia.
From Romea Require Import Num NumR LinAlgBModel RansacModel RansacProofs EstimateProofs RigidProofs.
From Romea.gen Require Import RepoConstants.
Import ListNotations.
Local Open Scope R_scope.

(* a stored point of a [dim]-dimensional set: dim Cartesian coordinates (+ the homogeneous one) *)
Definition point_ok (hom : bool) (dim : nat) (p : list R) : Prop := length p = (if hom then S dim else dim).

Lemma project_identity hom dim p : (dim = 2 \/ dim = 3)%nat -> point_ok hom dim p ->
  project ROps hom dim (midentity ROps (S dim)) p = p.
Proof.
  intros [->| ->] Hp; unfold point_ok in Hp; destruct hom;
    repeat (destruct p as [|? p]; [discriminate Hp|]); (destruct p; [|discriminate Hp]);
    cbn; repeat (f_equal; try ring).
Qed.

Lemma sum_list_zero (l : list R) : Forall (fun x => x = 0) l -> sum_list ROps l = 0.
Proof.
  unfold sum_list. cbn [nadd nzero ROps].
  assert (H : forall acc, Forall (fun x => x = 0) l -> fold_left Rplus l acc = acc).
  { induction l as [|x r IH]; intros acc Hl; cbn [fold_left]; [reflexivity|]. inversion Hl; subst. rewrite IH by assumption. lra. }
  apply H.
Qed.

Lemma sq_dist_same (p : list R) : sq_dist ROps p p = 0.
Proof.
  unfold sq_dist. apply sum_list_zero. apply Forall_forall. intros x Hx. apply in_map_iff in Hx.
  destruct Hx as ((a & b) & <- & Hin). cbn [fst snd nsq nsub nmul ROps].
  assert (a = b). { revert Hin. clear. induction p as [|y r IH]; cbn [combine]; [intros []|]. intros [E|H]; [now inversion E | now apply IH]. }
  subst. ring.
Qed.

Section Zero.
  Variables (hom : bool) (dim : nat) (src tgt : list (list R)) (sigma : R).
  Hypothesis Hdim : (dim = 2 \/ dim = 3)%nat.
  Hypothesis Hsigma : 0 < sigma.

  Notation Id := (midentity ROps (S dim)).

  (* the pair of a correspondence: identical, well-formed points *)
  Definition pair_zero (c : corr R) : Prop :=
    nth_point tgt (c_tgt c) = nth_point src (c_src c) /\ point_ok hom dim (nth_point src (c_src c)).

  Lemma residual_zero c : pair_zero c -> residual ROps hom dim Id src tgt c = 0.
  Proof. intros [E Hp]. unfold residual. rewrite project_identity by assumption. rewrite E. apply sq_dist_same. Qed.

  Lemma gate_pos : 0 < gate ROps sigma.
  Proof.
    unfold gate. cbn [nmul nofZ ROps]. assert (0 < IZR rigid_gate_factor) by (apply IZR_lt; reflexivity).
    apply Rmult_lt_0_compat; [apply Rmult_lt_0_compat|]; assumption.
  Qed.

  Definition zeroed (c : corr R) : corr R := mkCorr (c_src c) (c_tgt c) 0.

  Lemma inliers_all sorted : Forall pair_zero sorted ->
    inliers ROps hom dim Id src tgt sigma sorted = map zeroed sorted.
  Proof.
    intros H. unfold inliers, gate_filter, with_residuals. induction H as [|c r Hc Hr IH]; [reflexivity|].
    cbn [map filter c_sq]. rewrite residual_zero by exact Hc. cbn [nltb ROps].
    replace (Rltb 0 (gate ROps sigma)) with true by (symmetry; apply Rltb_true; exact gate_pos).
    unfold zeroed at 1. f_equal. exact IH.
  Qed.

  (* the consensus countInliers builds: as many entries as correspondences, all with residual 0, rmse 0 *)
  Lemma consensus_all sorted : Forall pair_zero sorted ->
    let cs := consensus ROps hom dim Id src tgt sigma sorted in
    length cs = length sorted /\ Forall (fun c => c_sq c = 0 /\ exists c0, In c0 sorted /\ c = zeroed c0) cs /\ rmse_of ROps cs = 0.
  Proof.
    intros H cs. unfold cs, consensus. rewrite (inliers_all sorted H).
    assert (Hall : Forall (fun c => c_sq c = 0 /\ exists c0, In c0 sorted /\ c = zeroed c0) (unique_inplace (eq_tgt (T:=R)) (map zeroed sorted))).
    { apply Forall_forall. intros c Hc. apply unique_inplace_incl in Hc. apply in_map_iff in Hc. destruct Hc as (c0 & <- & Hin).
      split; [reflexivity | eauto]. }
    split; [rewrite unique_inplace_length; apply map_length|]. split; [exact Hall|].
    unfold rmse_of. cbn [nsqrt ndiv ROps]. rewrite sum_list_zero.
    - unfold Rdiv. rewrite Rmult_0_l. apply sqrt_0.
    - rewrite Forall_map. eapply Forall_impl; [|exact Hall]. intros c [E _]. exact E.
  Qed.

  (* check_ accepts every sample of such correspondences *)
  Lemma check_sample_zero sample : Forall pair_zero sample -> check_sample ROps hom dim Id src tgt sigma sample = true.
  Proof.
    intros H. unfold check_sample.
    assert (E : forall acc, fold_left (fun a c => nadd ROps a (residual ROps hom dim Id src tgt c)) sample acc = acc).
    { cbn [nadd ROps]. induction H as [|c r Hc Hr IH]; intros acc; cbn [fold_left]; [reflexivity|].
      rewrite IH, residual_zero by assumption. lra. }
    rewrite E. cbn [nltb ndiv nmul nzero ROps]. apply Rltb_true. unfold Rdiv. rewrite Rmult_0_l. nra.
  Qed.

  (* countInliers with the identity candidate, on a fresh object and on one that already stored this consensus:
     returns the number of correspondences; the stored consensus is the full one with rmse 0 *)
  Lemma rigid_count_zero mininl sorted st :
    Forall pair_zero sorted -> (1 <= mininl <= Z.of_nat (length sorted))%Z ->
    st = rigid_init ROps \/ (length (rs_best st) = length sorted /\ rs_rmse st = 0) ->
    let r := rigid_count ROps hom dim mininl src tgt sigma sorted Id st in
    snd r = Z.of_nat (length sorted) /\ length (rs_best (fst r)) = length sorted /\ rs_rmse (fst r) = 0 /\
    (st = rigid_init ROps -> rs_best (fst r) = consensus ROps hom dim Id src tgt sigma sorted) /\
    (st <> rigid_init ROps -> fst r = st).
  Proof.
    intros H Hm Hst r. unfold r, rigid_count.
    destruct (consensus_all sorted H) as (Hl & _ & Hr). cbv zeta in Hl, Hr.
    unfold rigid_store. rewrite Hr, Hl. unfold cand_passes, cand_better. cbn [nltb ROps].
    replace (mininl <=? Z.of_nat (length sorted))%Z with true by (symmetry; apply Z.leb_le; lia).
    replace (Rltb 0 sigma) with true by (symmetry; apply Rltb_true; exact Hsigma). cbn [andb].
    destruct Hst as [->|[Hb Hz]].
    - cbn [rigid_init rs_best rs_rmse length].
      replace (Z.of_nat 0 <? Z.of_nat (length sorted))%Z with true by (symmetry; apply Z.ltb_lt; lia). cbn [orb fst snd rs_best rs_rmse].
      rewrite Hl. repeat split; try reflexivity. intros X. now elim X.
    - rewrite Hb, Hz, Z.ltb_irrefl, Z.eqb_refl. cbn [orb andb].
      replace (Rltb 0 0) with false by (symmetry; apply Rltb_false; lra). cbn [fst snd].
      rewrite Hb. repeat split; try assumption; try reflexivity.
      intros E. subst st. cbn in Hb. exfalso. lia.
  Qed.
End Zero.

(* ================================================================================================
   driven by Ransac::estimateModel *)
(* a first draw that succeeds with a count above the draw size settles the outcome, whatever the later draws do *)
Section FirstDraw.
  Context {T : Type} (N : NumOps T) {S : Type}.
  Variables (draw : S -> S * bool) (count : S -> S * Z) (refine : S -> S) (sdraw : Z).
  Hypothesis count_nonneg : forall s, (0 <= snd (count s))%Z.

  Lemma estimate_first_draw_succeeds (I : S -> Prop)
    (Hdraw : forall s, I s -> I (fst (draw s))) (Hcount : forall s, I s -> I (fst (count s)))
    npoints mininl p maxit s s1 s2 c :
    (mininl <= npoints)%Z -> (1 <= maxit)%Z -> draw s = (s1, true) -> count s1 = (s2, c) ->
    (0 <= sdraw < f32round c)%Z -> I s2 ->
    exists r sl, estimate N draw count refine sdraw npoints mininl p maxit s = Some r /\ er_ok r = true /\
                 er_state r = refine sl /\ I sl.
  Proof.
    intros Hn Hm Hd Hc Hs HI. unfold estimate. destruct (Z.ltb_spec npoints mininl); [lia|].
    assert (Hc0 : (0 <= c)%Z) by (pose proof (count_nonneg s1) as X; rewrite Hc in X; exact X).
    destruct (Z.to_nat maxit) as [|f] eqn:Ef; [lia|].
    rewrite est_loop_unfold. cbn [iters_init it_n]. replace (0 <? maxit)%Z with true by (symmetry; apply Z.ltb_lt; lia).
    rewrite Hd, Hc. cbv zeta. rewrite (f32round_small 0) by reflexivity.
    replace (0 <? f32round c)%Z with true by (symmetry; apply Z.ltb_lt; lia).
    destruct (est_loop_some N draw count sdraw f (0 + 1)%Z (f32round c) (Some 0%Z)
                (iters_update N (iters_init N npoints p maxit) (f32round c) sdraw) s2) as [r' Hr'].
    { pose proof (iters_update_le N (iters_init N npoints p maxit) (f32round c) sdraw) as X. cbn [iters_init it_n] in X. lia. }
    rewrite Hr'.
    destruct (est_loop_spec N draw count sdraw count_nonneg _ _ _ _ _ _ _ Hr' (f32round_idem c Hc0) (or_intror Logic.I)) as (A & _).
    pose proof (max_rounded_ge (counts_of (lr_events r')) (f32round c)) as G.
    cbn [lr_best]. replace (lr_best r' <=? sdraw)%Z with false by (symmetry; apply Z.leb_gt; lia).
    eexists _, (lr_state r'). split; [reflexivity|]. cbn [er_ok er_state lr_state]. split; [reflexivity|]. split; [reflexivity|].
    exact (est_loop_inv N draw count sdraw I Hdraw Hcount _ _ _ _ _ _ _ Hr' HI).
  Qed.
End FirstDraw.

(* std::sort modelled by the stable insertion sort: a permutation, for any predicate *)
Lemma insert_by_in {A} (lt : A -> A -> bool) x l y : In y (insert_by lt x l) <-> y = x \/ In y l.
Proof.
  induction l as [|z r IH]; cbn [insert_by In]; [intuition|]. destruct (lt x z); cbn [In]; [intuition|]. rewrite IH. intuition.
Qed.
Lemma insert_by_length {A} (lt : A -> A -> bool) x l : length (insert_by lt x l) = S (length l).
Proof. induction l as [|z r IH]; cbn [insert_by length]; [reflexivity|]. destruct (lt x z); cbn [length]; [reflexivity | now rewrite IH]. Qed.
Lemma sort_by_in_length {A} (lt : A -> A -> bool) l :
  (forall y, In y (sort_by lt l) -> In y l) /\ length (sort_by lt l) = length l.
Proof.
  unfold sort_by.
  assert (H : forall acc, (forall y, In y (fold_left (fun a x => insert_by lt x a) l acc) -> In y l \/ In y acc) /\
                          length (fold_left (fun a x => insert_by lt x a) l acc) = (length l + length acc)%nat).
  { induction l as [|x r IH]; intros acc; cbn [fold_left length]; [split; [auto | reflexivity]|].
    destruct (IH (insert_by lt x acc)) as [I1 I2]. split.
    - intros y Hy. destruct (I1 y Hy) as [H|H]; [left; right; exact H|]. apply insert_by_in in H. destruct H as [->|H]; [left; left; reflexivity | right; exact H].
    - rewrite I2, insert_by_length. lia. }
  destruct (H []) as [H1 H2]. split; [intros y Hy; destruct (H1 y Hy) as [X|[]]; exact X | rewrite H2; cbn; lia].
Qed.

Section ZeroRansac.
  Variables (hom : bool) (dim : nat) (src tgt : list (list R)) (sigma : R).
  Hypothesis Hdim : (dim = 2 \/ dim = 3)%nat.
  Hypothesis Hsigma : 0 < sigma.
  Notation Id := (midentity ROps (S dim)).
  Notation pz := (pair_zero hom dim src tgt).

  Theorem zero_disp_ransac_succeeds corrs npoints p maxit sample script :
    Forall pz corrs -> Forall pz sample ->
    Forall (fun e : list (list R) * list (corr R) => fst e = Id /\ Forall pz (snd e)) script ->
    (rigid_min_inliers (Z.of_nat dim) <= npoints)%Z ->
    (rigid_min_inliers (Z.of_nat dim) <= Z.of_nat (length corrs) < 2 ^ 24)%Z -> (1 <= maxit)%Z ->
    exists r, estimate_rigid ROps hom dim src tgt sigma corrs npoints p maxit ((Id, sample) :: script) = Some r /\
      er_ok r = true /\ rs_rmse (ro_st (er_state r)) = 0 /\
      length (rs_best (ro_st (er_state r))) = length corrs /\
      ro_refit (er_state r) = Some (rs_best (ro_st (er_state r))).
  Proof.
    intros Hc Hs Hscr Hnp Hlen Hm. unfold estimate_rigid. cbv zeta.
    set (d := Z.of_nat dim) in *. set (sorted := sort_by (tgt_dist_lt ROps) corrs).
    destruct (sort_by_in_length (tgt_dist_lt ROps) corrs) as [Hin Hl]. fold sorted in Hin, Hl.
    assert (Hsorted : Forall pz sorted).
    { apply Forall_forall. intros c Hcin. rewrite Forall_forall in Hc. apply Hc. now apply Hin. }
    assert (Hds : (rigid_draw_size d = 3 \/ rigid_draw_size d = 4)%Z /\ (rigid_min_inliers d = 2 * rigid_draw_size d)%Z).
    { unfold d. destruct Hdim as [->| ->]; vm_compute; auto. }
    destruct Hds as [Hds Hmi].
    (* invariant of the object after the first successful draw + count *)
    set (I := fun o : rigid_obj R =>
                ro_M o = Id /\ ro_refit o = None /\ length (rs_best (ro_st o)) = length sorted /\ rs_rmse (ro_st o) = 0 /\
                Forall (fun e : list (list R) * list (corr R) => fst e = Id /\ Forall pz (snd e)) (ro_script o)).
    assert (Hcnt : forall o, I o -> I (fst (obj_count ROps hom dim (rigid_min_inliers d) src tgt sigma sorted o)) /\
                                   snd (obj_count ROps hom dim (rigid_min_inliers d) src tgt sigma sorted o) = Z.of_nat (length sorted)).
    { intros o (HM & Hrf & Hb & Hr & Hsc). unfold obj_count. rewrite HM.
      pose proof (rigid_count_zero hom dim src tgt sigma Hdim Hsigma (rigid_min_inliers d) sorted (ro_st o) Hsorted
                    ltac:(lia) (or_intror (conj Hb Hr))) as X. cbv zeta in X.
      destruct (rigid_count ROps hom dim (rigid_min_inliers d) src tgt sigma sorted Id (ro_st o)) as [st' n].
      cbn [fst snd] in *. destruct X as (X1 & X2 & X3 & _). split; [|exact X1]. unfold I. cbn [ro_M ro_refit ro_st ro_script]. auto. }
    assert (Hdrw : forall o, I o -> I (fst (obj_draw ROps hom dim src tgt sigma o))).
    { intros o (HM & Hrf & Hb & Hr & Hsc). unfold obj_draw. destruct (ro_script o) as [|[M smp] rest] eqn:E; cbn [fst].
      - unfold I. rewrite E. auto.
      - inversion Hsc as [|? ? [HM' _] Hrest]; subst. cbn [fst] in HM'. unfold I. cbn [ro_M ro_refit ro_st ro_script]. auto. }
    assert (Hnn : forall o, (0 <= snd (obj_count ROps hom dim (rigid_min_inliers d) src tgt sigma sorted o))%Z).
    { intros o. unfold obj_count, rigid_count. cbn [fst snd]. lia. }
    pose (o0 := mkObj ((Id, sample) :: script) [] (rigid_init ROps) None : rigid_obj R).
    pose (o1 := mkObj script Id (rigid_init ROps) None : rigid_obj R).
    pose proof (rigid_count_zero hom dim src tgt sigma Hdim Hsigma (rigid_min_inliers d) sorted (rigid_init ROps) Hsorted
                  ltac:(lia) (or_introl eq_refl)) as X. cbv zeta in X.
    destruct (rigid_count ROps hom dim (rigid_min_inliers d) src tgt sigma sorted Id (rigid_init ROps)) as [st1 n1] eqn:Ec.
    cbn [fst snd] in X. destruct X as (X1 & X2 & X3 & _).
    assert (Hd0 : obj_draw ROps hom dim src tgt sigma o0 = (o1, true)).
    { unfold obj_draw, o0, o1. cbn [ro_script ro_st ro_refit]. now rewrite (check_sample_zero hom dim src tgt sigma Hdim Hsigma sample Hs). }
    assert (Hc0 : obj_count ROps hom dim (rigid_min_inliers d) src tgt sigma sorted o1 = (mkObj script Id st1 None, n1)).
    { unfold obj_count, o1. cbn [ro_M ro_st ro_script ro_refit]. now rewrite Ec. }
    assert (HI1 : I (mkObj script Id st1 None)).
    { unfold I. cbn [ro_M ro_refit ro_st ro_script]. auto. }
    destruct (estimate_first_draw_succeeds ROps (obj_draw ROps hom dim src tgt sigma)
                (obj_count ROps hom dim (rigid_min_inliers d) src tgt sigma sorted) (obj_refine (T:=R)) (rigid_draw_size d)
                Hnn I Hdrw (fun o Ho => proj1 (Hcnt o Ho))
                npoints (rigid_min_inliers d) p maxit o0 o1 (mkObj script Id st1 None) n1 Hnp Hm Hd0 Hc0)
      as (r & sl & E & Hok & Hst & (_ & Hrf & Hb & Hr & _)); [|exact HI1|].
    { subst n1. rewrite f32round_small by lia. lia. }
    exists r. split; [exact E|]. split; [exact Hok|]. rewrite Hst. unfold obj_refine. cbn [ro_st ro_refit].
    split; [exact Hr|]. split; [congruence | reflexivity].
  Qed.
End ZeroRansac.
