(* BoxLits.v — the few laws of a numeric dictionary that the dictionary-generic source ties of C20 (SrcTieC20.v) need:
   the source writes the literals `0`, `1`, `2.` (translated to nofZ 0, nofZ 1, nofDec 2 0) where the model BoxModel.v
   writes nzero, n_one, ntwo; and + and * commute, (-a)*b = -(a*b)
   (so that a commuted operand pair or a moved negation in the C++ does not break a tie).
   They hold of the real instance ROps (here) and of the rounded binary64 / binary32 dictionaries (BoxFloat.v). *)
From Coq Require Import Reals ZArith Lra.
From Romea Require Import Num NumR.
Local Open Scope R_scope.

Record NumLits {T} (N : NumOps T) : Prop := {
  lit_addC : forall a b, nadd N a b = nadd N b a;
  lit_mulC : forall a b, nmul N a b = nmul N b a;
  lit_ofZ0 : nofZ N 0%Z = nzero N;
  lit_ofZ1 : nofZ N 1%Z = n_one N;
  lit_dec2 : nofDec N 2%Z 0%Z = ntwo N;
  lit_negmul : forall a b, nmul N (nneg N a) b = nneg N (nmul N a b) }.   (* rounding is sign-symmetric *)

Lemma NumLits_R : NumLits ROps.
Proof.
  split; cbn [nadd nmul nneg nofZ nofDec nzero n_one ntwo ROps]; intros; try ring; try reflexivity.
  unfold ntwo. cbn [nadd n_one ROps]. simpl. lra.
Qed.
