(* RayCastMerge.v — the abstract merge lemma behind the voxel walk (C14): if every axis' crossing parameters are
   split by [range] into "legitimate" (<= range) and "illegitimate" (>= range) ones and the walk always advances
   an axis whose next crossing parameter is minimal, then — unless a legitimate and an illegitimate crossing tie
   exactly at [range] — after s <= sum m steps no axis has been advanced beyond its number m i of legitimate
   crossings.  In exact arithmetic the rule "skip axes that reached the end index" therefore never changes the
   choice; it only matters when rounding breaks the premises. *)
From Coq Require Import Reals Arith Lia Lra.
Local Open Scope R_scope.
Fixpoint sumf (d:nat) (f:nat->nat) : nat := match d with O => O | S d' => (sumf d' f + f d')%nat end.
Definition upd (f:nat->nat) (a v:nat) := fun i => if Nat.eqb i a then v else f i.
Lemma sumf_upd d f a : (a < d)%nat -> sumf d (upd f a (S (f a))) = S (sumf d f).
Proof.
  induction d as [|d IH]; intros Ha; [lia|]. simpl.
  destruct (Nat.eq_dec a d) as [->|Hne].
  - unfold upd at 2. rewrite Nat.eqb_refl.
    assert (E: sumf d (upd f d (S (f d))) = sumf d f).
    { clear IH Ha. assert (G: forall e, (e <= d)%nat -> sumf e (upd f d (S (f d))) = sumf e f).
      { induction e as [|e IHe]; intros He; [reflexivity|]. simpl. rewrite IHe by lia.
        unfold upd. destruct (Nat.eqb_spec e d); [lia|reflexivity]. }
      apply G; lia. }
    rewrite E. lia.
  - rewrite IH by lia. unfold upd at 1. destruct (Nat.eqb_spec d a); [lia|]. lia.
Qed.
Lemma sumf_lt_ex d f g : (forall i, (i<d)%nat -> (f i <= g i)%nat) -> (sumf d f < sumf d g)%nat ->
  exists i, (i<d)%nat /\ (f i < g i)%nat.
Proof.
  induction d as [|d IH]; simpl; intros Hle Hlt; [lia|].
  destruct (Nat.lt_ge_cases (f d) (g d)) as [H|H]; [exists d; split; lia|].
  destruct IH as [i [Hi Hfi]]; [intros; apply Hle; lia| specialize (Hle d); lia |]. exists i; split; lia.
Qed.
Lemma sumf_zero d : sumf d (fun _ => O) = O.
Proof. induction d; simpl; lia. Qed.
Section Merge.
Variable d : nat. Variable m : nat -> nat. Variable c : nat -> nat -> R. Variable range : R.
Variable pick : (nat->nat) -> nat.
Hypothesis pick_lt : forall k, (pick k < d)%nat.
Hypothesis legit_le : forall i j, (i<d)%nat -> (1 <= j <= m i)%nat -> c i j <= range.
Hypothesis illegit_ge : forall i j, (i<d)%nat -> (m i < j)%nat -> range <= c i j.
Hypothesis weak_min : forall k i, (i<d)%nat -> c (pick k) (S (k (pick k))) <= c i (S (k i)).
Definition tie := exists a b, (a<d)%nat /\ (b<d)%nat /\ a <> b /\ c a (S (m a)) = range /\
   exists j, (1<=j<=m b)%nat /\ c b j = range.
Definition step (k:nat->nat) := upd k (pick k) (S (k (pick k))).
Fixpoint steps (s:nat) : nat->nat := match s with O => fun _ => O | S s' => step (steps s') end.
Theorem merge_counts : ~ tie -> forall s, (s <= sumf d m)%nat ->
  (forall i, (i<d)%nat -> (steps s i <= m i)%nat) /\ sumf d (steps s) = s.
Proof.
  intros Hnt. induction s as [|s IH]; intros Hs.
  - split; [intros; simpl; lia|]. simpl. apply sumf_zero.
  - destruct IH as [IHle IHsum]; [lia|]. simpl. unfold step. set (k := steps s) in *. set (a := pick k).
    assert (Ha: (a<d)%nat) by apply pick_lt.
    split; [|rewrite sumf_upd by exact Ha; lia].
    assert (Hka: (k a < m a)%nat).
    { destruct (Nat.lt_ge_cases (k a) (m a)) as [H|H]; [exact H|exfalso].
      assert (Heq: k a = m a) by (specialize (IHle a Ha); lia).
      destruct (sumf_lt_ex d k m IHle) as [b [Hb Hkb]]; [lia|].
      assert (Hab: a <> b) by (intros ->; lia).
      pose proof (weak_min k b Hb) as Hw. fold a in Hw. rewrite Heq in Hw.
      pose proof (illegit_ge a (S (m a)) Ha ltac:(lia)) as H1.
      pose proof (legit_le b (S (k b)) Hb ltac:(lia)) as H2.
      apply Hnt. exists a, b. repeat split; try assumption; [lra|].
      exists (S (k b)). split; [lia|lra]. }
    intros i Hi. unfold upd. destruct (Nat.eqb_spec i a) as [->|]; [lia|apply IHle; exact Hi].
Qed.
End Merge.
