(* AnglesCoords.v — planar pair, quaternion paths, polar and spherical maps (C10). *)
From Coq Require Import Reals ZArith Lra Lia Psatz Nsatz.
From Romea Require Import Num NumR AnglesModel AnglesProofs AnglesRoundtrip.
Local Open Scope R_scope.

(* ---------------- planar angle <-> 2x2 rotation ---------------- *)
Definition r2a (m : mat2 R) : R := rotation2DToEulerAngle ROps ROps idR idR m.
Definition a2r (a : R) : mat2 R := eulerAngleToRotation2D ROps a.
Definition proper_rotation2 (m : mat2 R) : Prop :=
  a00 m * a00 m + a10 m * a10 m = 1 /\ a01 m * a01 m + a11 m * a11 m = 1 /\
  a00 m * a01 m + a10 m * a11 m = 0 /\ a00 m * a11 m - a01 m * a10 m = 1.

Lemma a2r_proper a : proper_rotation2 (a2r a).
Proof. unfold proper_rotation2, a2r, eulerAngleToRotation2D. rcbn. pose proof (sc1 a). repeat split; nra. Qed.

Lemma rot2d_angle_roundtrip a : cong2pi (r2a (a2r a)) a /\ 0 <= r2a (a2r a) < 2 * PI.
Proof.
  destruct (principal_rep a) as [t [Ht C]]. destruct (cong2pi_sincos _ _ C) as [S K].
  unfold r2a, a2r, rotation2DToEulerAngle, eulerAngleToRotation2D. rcbn.
  change (between0And2Pi ROps idR idR) with b02.
  replace (sin a - - sin a) with (2 * sin t) by (rewrite S; ring).
  replace (cos a + cos a) with (2 * cos t) by (rewrite K; ring).
  rewrite Ratan2_spec by lra.
  destruct (b02_spec t) as [C2 Rg]. split; [|exact Rg].
  eapply cong2pi_trans; [exact C2|exact C].
Qed.

Lemma rot2d_matrix_roundtrip m : proper_rotation2 m -> a2r (r2a m) = m.
Proof.
  intros [H1 [H2 [H3 H4]]]. destruct m as [a b c d]. cbn [a00 a01 a10 a11] in *.
  assert (Ead : a = d /\ c = - b).
  { assert ((a - d) * (a - d) + (c + b) * (c + b) = 0) by nra.
    pose proof (Rle_0_sqr (a - d)) as P1. pose proof (Rle_0_sqr (c + b)) as P2. unfold Rsqr in P1, P2.
    assert (U : a - d = 0) by (apply Rsqr_0_uniq; unfold Rsqr; lra).
    assert (V : c + b = 0) by (apply Rsqr_0_uniq; unfold Rsqr; lra).
    split; lra. }
  destruct Ead as [-> ->].
  unfold r2a, a2r, rotation2DToEulerAngle, eulerAngleToRotation2D. rcbn.
  change (between0And2Pi ROps idR idR) with b02.
  assert (Hn : (d + d) * (d + d) + (- b - b) * (- b - b) = 2 * 2) by nra.
  destruct (atan2_polar (d + d) (- b - b) 2 ltac:(lra) Hn) as [_ [Hc Hs]].
  destruct (b02_spec (Ratan2 (- b - b) (d + d))) as [C _]. destruct (cong2pi_sincos _ _ C) as [S K].
  rewrite S, K. f_equal; lra.
Qed.

(* ---------------- quaternion paths ---------------- *)
Definition q2e (q : quat R) : option (vec3 R) := quaternionToEulerAngles ROps ROps idR idR q.

Lemma qnormalized_unit q : qnorm2 ROps q = 1 -> qnormalized ROps q = q.
Proof.
  intros H. unfold qnormalized. rewrite H. rcbn.
  replace (Rltb 0 1) with true by (symmetry; apply Rltb_true; lra).
  rewrite sqrt_1. destruct q. cbn. f_equal; field.
Qed.

(* angles -> quaternion -> angles *)
Lemma quat_angles_roundtrip x y z : - PI / 2 < y < PI / 2 ->
  exists a b c, q2e (eulerAnglesToQuaternion ROps (mkV3 x y z)) = Some (mkV3 a b c) /\
    cong2pi a x /\ cong2pi b y /\ cong2pi c z /\
    0 <= a < 2 * PI /\ 0 <= b < 2 * PI /\ 0 <= c < 2 * PI.
Proof.
  intros Hy. unfold q2e, quaternionToEulerAngles.
  rewrite (qnormalized_unit _ (euler_quat_unit x y z)).
  change (quat_to_mat ROps (eulerAnglesToQuaternion ROps (mkV3 x y z))) with (eulerAnglesToRotation3D ROps (mkV3 x y z)).
  rewrite quat_builder_eq_matrix_builder. apply angles_roundtrip_rzyx. exact Hy.
Qed.

(* scaling a quaternion by s > 0 does not change what quaternionToEulerAngles sees *)
Definition qscale (s : R) (q : quat R) : quat R := mkQ (s * qw q) (s * qx q) (s * qy q) (s * qz q).

Lemma quat_scale_invariant s q : 0 < s -> 0 < qnorm2 ROps q ->
  qnormalized ROps (qscale s q) = qnormalized ROps q /\ qnorm2 ROps (qnormalized ROps q) = 1.
Proof.
  intros Hs Hq. destruct q as [w x y z]. unfold qnormalized, qscale, qnorm2 in *. rcbn in Hq. rcbn.
  set (n := x * x + y * y + z * z + w * w) in *.
  replace (s * x * (s * x) + s * y * (s * y) + s * z * (s * z) + s * w * (s * w)) with (s * s * n) by (unfold n; ring).
  assert (Hsn : 0 < s * s * n) by (apply Rmult_lt_0_compat; nra).
  replace (Rltb 0 (s * s * n)) with true by (symmetry; apply Rltb_true; exact Hsn).
  replace (Rltb 0 n) with true by (symmetry; apply Rltb_true; exact Hq).
  assert (Hsq : sqrt (s * s * n) = s * sqrt n).
  { rewrite sqrt_mult by nra. rewrite sqrt_square by lra. reflexivity. }
  assert (Hn0 : sqrt n <> 0) by (pose proof (sqrt_lt_R0 n Hq); lra).
  rcbn. split.
  - rewrite Hsq. f_equal; field; lra.
  - pose proof (sqrt_sqrt n ltac:(lra)) as Hss.
    replace (x / sqrt n * (x / sqrt n) + y / sqrt n * (y / sqrt n) + z / sqrt n * (z / sqrt n) + w / sqrt n * (w / sqrt n))
      with (n / (sqrt n * sqrt n)) by (unfold n; field; exact Hn0).
    rewrite Hss. field. lra.
Qed.

(* the matrix of a normalised quaternion is a proper rotation: with the round trip above this gives
   quaternion -> angles -> rotation = the rotation of q/|q| *)
Lemma quat_to_mat_proper q : qnorm2 ROps q = 1 -> proper_rotation (quat_to_mat ROps q).
Proof.
  destruct q as [w x y z]. unfold qnorm2, proper_rotation, quat_to_mat, mmul3, mtrans3, mid3, det3. rcbn.
  intros H. split; [f_equal|]; nsatz.
Qed.

(* ---------------- polar ---------------- *)
Lemma polar_roundtrip x y : 0 < x * x + y * y ->
  let '(r, az) := toPolar ROps x y in
  polarToCartesian ROps r az = (x, y) /\ r * r = x * x + y * y /\ 0 < r /\ - PI < az <= PI.
Proof.
  intros H. unfold toPolar, polarToCartesian. rcbn.
  set (r := sqrt (x * x + y * y)).
  assert (Hr : 0 < r) by (apply sqrt_lt_R0; exact H).
  assert (Hrr : x * x + y * y = r * r) by (unfold r; rewrite sqrt_sqrt; lra).
  destruct (atan2_polar x y r Hr Hrr) as [Hrg [Hc Hs]].
  rewrite Hc, Hs. repeat split; lra.
Qed.

Lemma polar_roundtrip_inv r az : 0 < r -> - PI < az <= PI ->
  let '(x, y) := polarToCartesian ROps r az in toPolar ROps x y = (r, az).
Proof.
  intros Hr Ha. unfold toPolar, polarToCartesian. rcbn.
  replace (r * cos az * (r * cos az) + r * sin az * (r * sin az)) with (r * r) by (pose proof (sc1 az); nra).
  rewrite sqrt_square by lra. rewrite Ratan2_spec by assumption. reflexivity.
Qed.

(* ---------------- spherical ---------------- *)
Lemma spherical_roundtrip x y z : 0 < x * x + y * y + z * z ->
  exists r az el, toSpherical ROps x y z = Some (r, az, el) /\
    sphericalToCartesian ROps r az el = mkV3 x y z /\
    r * r = x * x + y * y + z * z /\ 0 < r /\ - PI <= az <= PI /\ 0 <= el <= PI.
Proof.
  intros H. unfold toSpherical, sphericalToCartesian. rcbn.
  set (r := sqrt (x * x + y * y + z * z)).
  assert (Hr : 0 < r) by (apply sqrt_lt_R0; exact H).
  assert (Hrr : r * r = x * x + y * y + z * z) by (unfold r; rewrite sqrt_sqrt; lra).
  replace (Rltb 0 r) with true by (symmetry; apply Rltb_true; exact Hr).
  assert (Hq : -1 <= z / r <= 1).
  { assert (z <= r /\ - r <= z) by nra. split.
    - apply Rmult_le_reg_r with r; [lra|]. unfold Rdiv. rewrite Rmult_assoc, Rinv_l by lra. lra.
    - apply Rmult_le_reg_r with r; [lra|]. unfold Rdiv. rewrite Rmult_assoc, Rinv_l by lra. lra. }
  replace (Rleb (Rabs (z / r)) 1) with true by (symmetry; apply Rleb_true, Rabs_le; lra).
  exists r, (Ratan2 y x), (acos (z / r)). split; [reflexivity|].
  pose proof (acos_bound (z / r)) as Hel. pose proof (Ratan2_range y x) as Haz.
  split; [|repeat split; lra].
  rewrite cos_acos by lra. rewrite sin_acos by lra.
  set (hh := x * x + y * y).
  assert (Hh0 : 0 <= hh) by (unfold hh; nra).
  assert (Hsq : 1 - (z / r)² = hh / (r * r)).
  { unfold Rsqr, hh. replace (x * x + y * y) with (r * r - z * z) by lra. field. lra. }
  rewrite Hsq. rewrite sqrt_div_alt by nra. rewrite sqrt_square by lra.
  destruct (Req_dec hh 0) as [E0|E0].
  - assert (x = 0 /\ y = 0) as [Ex0 Ey0].
    { unfold hh in E0. pose proof (Rle_0_sqr x) as P1. pose proof (Rle_0_sqr y) as P2. unfold Rsqr in P1, P2.
      split; apply Rsqr_0_uniq; unfold Rsqr; lra. }
    subst x y.
    rewrite E0, sqrt_0. f_equal; field; lra.
  - assert (Hh : 0 < sqrt hh) by (apply sqrt_lt_R0; lra).
    assert (Hhh : x * x + y * y = sqrt hh * sqrt hh) by (rewrite sqrt_sqrt by exact Hh0; reflexivity).
    destruct (atan2_polar x y (sqrt hh) Hh Hhh) as [_ [Hc Hs]].
    f_equal.
    + transitivity (sqrt hh * cos (Ratan2 y x)); [field; lra|exact Hc].
    + transitivity (sqrt hh * sin (Ratan2 y x)); [field; lra|exact Hs].
    + field; lra.
Qed.

Lemma spherical_roundtrip_inv r az el : 0 < r -> - PI < az <= PI -> 0 < el < PI ->
  let p := sphericalToCartesian ROps r az el in toSpherical ROps (v0 p) (v1 p) (v2 p) = Some (r, az, el).
Proof.
  intros Hr Ha He. unfold toSpherical, sphericalToCartesian. cbn [v0 v1 v2]. rcbn.
  pose proof (sc1 az) as Saz. pose proof (sc1 el) as Sel.
  replace (r * cos az * sin el * (r * cos az * sin el) + r * sin az * sin el * (r * sin az * sin el) + r * cos el * (r * cos el))
    with (r * r).
  2:{ transitivity (r * r * ((sin az * sin az + cos az * cos az) * (sin el * sin el) + cos el * cos el)); [|ring].
      rewrite Saz. replace (1 * (sin el * sin el) + cos el * cos el) with 1 by lra. ring. }
  rewrite sqrt_square by lra.
  replace (Rltb 0 r) with true by (symmetry; apply Rltb_true; exact Hr).
  replace (r * cos el / r) with (cos el) by (field; lra).
  replace (Rleb (Rabs (cos el)) 1) with true by (symmetry; apply Rleb_true, Rabs_le; pose proof (COS_bound el); lra).
  rewrite acos_cos by lra.
  assert (Hs : 0 < sin el) by (apply sin_gt_0; lra).
  replace (r * sin az * sin el) with ((r * sin el) * sin az) by ring.
  replace (r * cos az * sin el) with ((r * sin el) * cos az) by ring.
  rewrite Ratan2_spec; [reflexivity| nra | exact Ha].
Qed.
