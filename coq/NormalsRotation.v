(* NormalsRotation.v — C09: rotation equivariance of the estimated normal without the premise n.p <> 0, and at the level of the
   whole cloud for the terms generated from the source (gen/SrcNormals.v). *)
From Coq Require Import Reals ZArith List Bool Arith Lra Lia.
From Romea Require Import Num NumR NormalsModel NormalsProofs SrcEigen SrcNormalsLib SrcTieC09.
From Romea.gen Require Import SrcNormals.
Import ListNotations.
Local Open Scope R_scope.

(* rotating the neighbours and the point about the sensor: lambda_0 and the curvature are unchanged and the new normal is
   +- the rotated old one whenever lambda_0 is simple; the sign is + whenever the old normal is not tangent to the line of sight
   (n . p <> 0); for n . p = 0 the code keeps the sign the solver returned, which the contract does not fix *)
Lemma rotation_equivariance_any_sign : forall eig dim size p nb normal_in normal_in' Rm,
  dim = 2%nat \/ dim = 3%nat -> is_rotation dim Rm ->
  (dim <= size)%nat -> (forall q, In q nb -> length q = size) ->
  let nb' := map (rot_point dim Rm) nb in
  let p' := rot_point dim Rm p in
  eig_contract dim (covariance ROps dim size nb) (eig (covariance ROps dim size nb)) ->
  eig_contract dim (covariance ROps dim size nb') (eig (covariance ROps dim size nb')) ->
  let e := estimate_point ROps eig false dim size p nb normal_in in
  let e' := estimate_point ROps eig false dim size p' nb' normal_in' in
  vcoord ROps (e_lambda e) 0 < vcoord ROps (e_lambda e) 1 ->
  (firstn dim (e_normal e') = rot_apply dim Rm (firstn dim (e_normal e)) \/
   firstn dim (e_normal e') = vneg ROps (rot_apply dim Rm (firstn dim (e_normal e)))) /\
  (vdot ROps (firstn dim (e_normal e)) (firstn dim p) <> 0 ->
   firstn dim (e_normal e') = rot_apply dim Rm (firstn dim (e_normal e))) /\
  vcoord ROps (e_lambda e') 0 = vcoord ROps (e_lambda e) 0 /\
  e_curvature e' = e_curvature e.
Proof.
  intros eig dim size p nb normal_in normal_in' Rm D HR Ds Hl. cbv zeta. intros H H'.
  pose proof (normal_faces_sensor eig dim size p nb normal_in D H) as F.
  pose proof (normal_faces_sensor eig dim size (rot_point dim Rm p) _ normal_in' D H') as F'.
  cbv zeta in F, F'. rewrite rot_point_firstn in F'.
  destruct (normal_cases eig dim size p nb normal_in D H) as (-> & -> & L & _ & Hn).
  destruct (normal_cases eig dim size (rot_point dim Rm p) _ normal_in' D H') as (-> & -> & L' & _ & Hn').
  pose proof (covariance_rotated dim size Rm nb D Ds Hl) as HC.
  set (C := covariance ROps dim size nb) in *.
  set (C' := covariance ROps dim size (map (rot_point dim Rm) nb)) in *.
  destruct (eig C) as [lam cols]. destruct (eig C') as [lam' cols']. cbn [fst snd] in *.
  intros Gap.
  destruct (rotation_equivariance_partial dim Rm C C' lam cols lam' cols' D HR HC H H' Gap) as (E0 & Hv).
  set (n := firstn dim (e_normal (estimate_point ROps eig false dim size p nb normal_in))) in *.
  set (n' := firstn dim (e_normal (estimate_point ROps eig false dim size (rot_point dim Rm p)
                                                  (map (rot_point dim Rm) nb) normal_in'))) in *.
  assert (length n = dim) as Ln.
  { destruct Hn as [[-> _]|[-> _]]; [exact L|rewrite vneg_length; exact L]. }
  assert (n' = rot_apply dim Rm n \/ n' = vneg ROps (rot_apply dim Rm n)) as Hc.
  { destruct Hn as [[-> _]|[-> _]]; destruct Hn' as [[-> _]|[-> _]]; destruct Hv as [->| ->];
      rewrite ?(rot_apply_vneg dim Rm _ D L), ?vneg_vneg; auto. }
  split; [exact Hc|]. split; [|split; [exact E0|]].
  - intros NZ. destruct Hc as [->|Eq]; [reflexivity|exfalso].
    rewrite Eq, vdot_vneg_l, (rot_dot dim Rm n p D HR Ln) in F'. lra.
  - unfold curvature. cbn [ndiv ROps]. rewrite E0.
    rewrite (trace_contract dim C lam cols D H), (trace_contract dim C' lam' cols' D H').
    rewrite (trace_conj dim Rm C C' D HR HC). reflexivity.
Qed.


(* ---------------------------------------------------------------- the whole cloud, on the terms generated from the source.
   Two runs of compute(): on a cloud and on the same cloud turned about the sensor by the rotation Rm ([points' i] is
   [points i] with Rm applied to its Cartesian part).  A rotation keeps distances, so an exact k-nearest-neighbour search
   returns the same indexes for both clouds when no two distances tie: that is the hypothesis [Hnb] (the search itself is
   C08's).  Then every normal whose lambda_0 is simple and which is not tangent to the line of sight is rotated by Rm,
   and every curvature is unchanged. *)
Lemma e_lambda_fst eig dim size p nb nin :
  e_lambda (estimate_point ROps eig false dim size p nb nin) = fst (eig (covariance ROps dim size nb)).
Proof. unfold estimate_point. destruct (eig (covariance ROps dim size nb)); reflexivity. Qed.


Section Cloud.
Context {K : Type} (eig : list (list R) -> list R * list (list R)).

Lemma src_rotation_equivariance_V2 (kd_find : K -> R * R -> Z -> list Z) points points' size kd kd'
      normals normals' curvatures curvatures' reliab reliab' k nbi0 es0 a0 a1 v00 v01 v10 v11 nbi0' es0' a0' a1' v00' v01' v10' v11' Rm :
  is_rotation 2 Rm -> (0 <= k)%Z -> (0 <= size)%Z ->
  (forall t p, length (kd_find t p k) = Z.to_nat k) ->
  (forall i, SrcTieC09.l2 (points' i) = rot_point 2 Rm (SrcTieC09.l2 (points i))) ->
  (forall j, (0 <= j < size)%Z -> kd_find kd' (points' j) k = kd_find kd (points j) k) ->
  (forall j, (0 <= j < size)%Z ->
     let C := covariance ROps 2 2 (map (fun i => SrcTieC09.l2 (points i)) (kd_find kd (points j) k)) in eig_contract 2 C (eig C)) ->
  (forall j, (0 <= j < size)%Z ->
     let C := covariance ROps 2 2 (map (fun i => SrcTieC09.l2 (points' i)) (kd_find kd' (points' j) k)) in eig_contract 2 C (eig C)) ->
  let '(nrm, cv, rl, _, _, _, _, _, _, _, _) :=
    src_compute_kd_ncr_V2 ROps kd_find eig points size kd normals curvatures reliab k nbi0 es0 a0 a1 v00 v01 v10 v11 in
  let '(nrm', cv', rl', _, _, _, _, _, _, _, _) :=
    src_compute_kd_ncr_V2 ROps kd_find eig points' size kd' normals' curvatures' reliab' k nbi0' es0' a0' a1' v00' v01' v10' v11' in
  forall j, (0 <= j < size)%Z ->
    let lam := fst (eig (covariance ROps 2 2 (map (fun i => SrcTieC09.l2 (points i)) (kd_find kd (points j) k)))) in
    vcoord ROps lam 0 < vcoord ROps lam 1 ->
    let n := firstn 2 (SrcTieC09.l2 (nrm j)) in
    let n' := firstn 2 (SrcTieC09.l2 (nrm' j)) in
    (n' = rot_apply 2 Rm n \/ n' = vneg ROps (rot_apply 2 Rm n)) /\
    (vdot ROps n (firstn 2 (SrcTieC09.l2 (points j))) <> 0 -> n' = rot_apply 2 Rm n) /\
    cv' j = cv j.
Proof.
  intros HR Hk Hsz Hkd Hrot Hnb Hc Hc'.
  pose proof (tie_compute_kd_ncr_V2 ROps NormLits_R eig kd_find points size kd normals curvatures reliab k nbi0 es0 a0 a1 v00 v01 v10 v11 Hk Hsz (Hkd kd)
                (fun j Hj => contract_shape 2 _ _ ltac:(lia) (Hc j Hj))) as Ht.
  pose proof (tie_compute_kd_ncr_V2 ROps NormLits_R eig kd_find points' size kd' normals' curvatures' reliab' k nbi0' es0' a0' a1' v00' v01' v10' v11' Hk Hsz (Hkd kd')
                (fun j Hj => contract_shape 2 _ _ ltac:(lia) (Hc' j Hj))) as Ht'.
  destruct (src_compute_kd_ncr_V2 ROps kd_find eig points size kd normals curvatures reliab k nbi0 es0 a0 a1 v00 v01 v10 v11) as [? ?].
  destruct (src_compute_kd_ncr_V2 ROps kd_find eig points' size kd' normals' curvatures' reliab' k nbi0' es0' a0' a1' v00' v01' v10' v11') as [? ?]; destruct_tuples.
  intros j Hj. destruct (Ht j) as [Ht1 _]. destruct (Ht' j) as [Ht1' _]. specialize (Ht1 Hj). specialize (Ht1' Hj).
  cbv zeta in Ht1, Ht1'. injection Ht1 as Q1 Q2 Q3. injection Ht1' as Q1' Q2' Q3'.
  specialize (Hc j Hj). specialize (Hc' j Hj). cbv zeta in Hc, Hc'.
  assert (Hmap : map (fun i => SrcTieC09.l2 (points' i)) (kd_find kd' (points' j) k)
               = map (rot_point 2 Rm) (map (fun i => SrcTieC09.l2 (points i)) (kd_find kd (points j) k))).
  { rewrite (Hnb j Hj), map_map. apply map_ext. intros i. apply Hrot. }
  rewrite Hmap in Q1', Q2', Hc'. rewrite (Hrot j) in Q1', Q2'.
  cbv zeta. intros Gap. rewrite Q1, Q1', Q2, Q2'.
  rewrite <- (e_lambda_fst eig 2 2 (SrcTieC09.l2 (points j)) _ (SrcTieC09.l2 (normals j))) in Gap.
  assert (Hlen : forall q, In q (map (fun i => SrcTieC09.l2 (points i)) (kd_find kd (points j) k)) -> length q = 2%nat).
  { intros q Hq. apply in_map_iff in Hq. destruct Hq as [i [<- _]]. destruct (points i) as [? ?]; destruct_tuples; reflexivity. }
  destruct (rotation_equivariance_any_sign eig 2 2 (SrcTieC09.l2 (points j)) _ (SrcTieC09.l2 (normals j)) (SrcTieC09.l2 (normals' j)) Rm
              ltac:(left; reflexivity) HR ltac:(lia)
              Hlen
              Hc Hc' Gap) as (A1 & A2 & _ & A4).
  split; [exact A1|]. split; [exact A2|exact A4].
Qed.

Lemma src_rotation_equivariance_V3 (kd_find : K -> R * R * R -> Z -> list Z) points points' size kd kd'
      normals normals' curvatures curvatures' reliab reliab' k nbi0 es0 a0 a1 a2 v00 v01 v02 v10 v11 v12 v20 v21 v22 nbi0' es0' a0' a1' a2' v00' v01' v02' v10' v11' v12' v20' v21' v22' Rm :
  is_rotation 3 Rm -> (0 <= k)%Z -> (0 <= size)%Z ->
  (forall t p, length (kd_find t p k) = Z.to_nat k) ->
  (forall i, SrcTieC09.l3 (points' i) = rot_point 3 Rm (SrcTieC09.l3 (points i))) ->
  (forall j, (0 <= j < size)%Z -> kd_find kd' (points' j) k = kd_find kd (points j) k) ->
  (forall j, (0 <= j < size)%Z ->
     let C := covariance ROps 3 3 (map (fun i => SrcTieC09.l3 (points i)) (kd_find kd (points j) k)) in eig_contract 3 C (eig C)) ->
  (forall j, (0 <= j < size)%Z ->
     let C := covariance ROps 3 3 (map (fun i => SrcTieC09.l3 (points' i)) (kd_find kd' (points' j) k)) in eig_contract 3 C (eig C)) ->
  let '(nrm, cv, rl, _, _, _, _, _, _, _, _, _, _, _, _, _, _) :=
    src_compute_kd_ncr_V3 ROps kd_find eig points size kd normals curvatures reliab k nbi0 es0 a0 a1 a2 v00 v01 v02 v10 v11 v12 v20 v21 v22 in
  let '(nrm', cv', rl', _, _, _, _, _, _, _, _, _, _, _, _, _, _) :=
    src_compute_kd_ncr_V3 ROps kd_find eig points' size kd' normals' curvatures' reliab' k nbi0' es0' a0' a1' a2' v00' v01' v02' v10' v11' v12' v20' v21' v22' in
  forall j, (0 <= j < size)%Z ->
    let lam := fst (eig (covariance ROps 3 3 (map (fun i => SrcTieC09.l3 (points i)) (kd_find kd (points j) k)))) in
    vcoord ROps lam 0 < vcoord ROps lam 1 ->
    let n := firstn 3 (SrcTieC09.l3 (nrm j)) in
    let n' := firstn 3 (SrcTieC09.l3 (nrm' j)) in
    (n' = rot_apply 3 Rm n \/ n' = vneg ROps (rot_apply 3 Rm n)) /\
    (vdot ROps n (firstn 3 (SrcTieC09.l3 (points j))) <> 0 -> n' = rot_apply 3 Rm n) /\
    cv' j = cv j.
Proof.
  intros HR Hk Hsz Hkd Hrot Hnb Hc Hc'.
  pose proof (tie_compute_kd_ncr_V3 ROps NormLits_R eig kd_find points size kd normals curvatures reliab k nbi0 es0 a0 a1 a2 v00 v01 v02 v10 v11 v12 v20 v21 v22 Hk Hsz (Hkd kd)
                (fun j Hj => contract_shape 3 _ _ ltac:(lia) (Hc j Hj))) as Ht.
  pose proof (tie_compute_kd_ncr_V3 ROps NormLits_R eig kd_find points' size kd' normals' curvatures' reliab' k nbi0' es0' a0' a1' a2' v00' v01' v02' v10' v11' v12' v20' v21' v22' Hk Hsz (Hkd kd')
                (fun j Hj => contract_shape 3 _ _ ltac:(lia) (Hc' j Hj))) as Ht'.
  destruct (src_compute_kd_ncr_V3 ROps kd_find eig points size kd normals curvatures reliab k nbi0 es0 a0 a1 a2 v00 v01 v02 v10 v11 v12 v20 v21 v22) as [? ?].
  destruct (src_compute_kd_ncr_V3 ROps kd_find eig points' size kd' normals' curvatures' reliab' k nbi0' es0' a0' a1' a2' v00' v01' v02' v10' v11' v12' v20' v21' v22') as [? ?]; destruct_tuples.
  intros j Hj. destruct (Ht j) as [Ht1 _]. destruct (Ht' j) as [Ht1' _]. specialize (Ht1 Hj). specialize (Ht1' Hj).
  cbv zeta in Ht1, Ht1'. injection Ht1 as Q1 Q2 Q3. injection Ht1' as Q1' Q2' Q3'.
  specialize (Hc j Hj). specialize (Hc' j Hj). cbv zeta in Hc, Hc'.
  assert (Hmap : map (fun i => SrcTieC09.l3 (points' i)) (kd_find kd' (points' j) k)
               = map (rot_point 3 Rm) (map (fun i => SrcTieC09.l3 (points i)) (kd_find kd (points j) k))).
  { rewrite (Hnb j Hj), map_map. apply map_ext. intros i. apply Hrot. }
  rewrite Hmap in Q1', Q2', Hc'. rewrite (Hrot j) in Q1', Q2'.
  cbv zeta. intros Gap. rewrite Q1, Q1', Q2, Q2'.
  rewrite <- (e_lambda_fst eig 3 3 (SrcTieC09.l3 (points j)) _ (SrcTieC09.l3 (normals j))) in Gap.
  assert (Hlen : forall q, In q (map (fun i => SrcTieC09.l3 (points i)) (kd_find kd (points j) k)) -> length q = 3%nat).
  { intros q Hq. apply in_map_iff in Hq. destruct Hq as [i [<- _]]. destruct (points i) as [? ?]; destruct_tuples; reflexivity. }
  destruct (rotation_equivariance_any_sign eig 3 3 (SrcTieC09.l3 (points j)) _ (SrcTieC09.l3 (normals j)) (SrcTieC09.l3 (normals' j)) Rm
              ltac:(right; reflexivity) HR ltac:(lia)
              Hlen
              Hc Hc' Gap) as (A1 & A2 & _ & A4).
  split; [exact A1|]. split; [exact A2|exact A4].
Qed.

Lemma src_rotation_equivariance_H2 (kd_find : K -> R * R * R -> Z -> list Z) points points' size kd kd'
      normals normals' curvatures curvatures' reliab reliab' k nbi0 es0 a0 a1 v00 v01 v10 v11 nbi0' es0' a0' a1' v00' v01' v10' v11' Rm :
  is_rotation 2 Rm -> (0 <= k)%Z -> (0 <= size)%Z ->
  (forall t p, length (kd_find t p k) = Z.to_nat k) ->
  (forall i, SrcTieC09.l3 (points' i) = rot_point 2 Rm (SrcTieC09.l3 (points i))) ->
  (forall j, (0 <= j < size)%Z -> kd_find kd' (points' j) k = kd_find kd (points j) k) ->
  (forall j, (0 <= j < size)%Z ->
     let C := covariance ROps 2 3 (map (fun i => SrcTieC09.l3 (points i)) (kd_find kd (points j) k)) in eig_contract 2 C (eig C)) ->
  (forall j, (0 <= j < size)%Z ->
     let C := covariance ROps 2 3 (map (fun i => SrcTieC09.l3 (points' i)) (kd_find kd' (points' j) k)) in eig_contract 2 C (eig C)) ->
  let '(nrm, cv, rl, _, _, _, _, _, _, _, _) :=
    src_compute_kd_ncr_H2 ROps kd_find eig points size kd normals curvatures reliab k nbi0 es0 a0 a1 v00 v01 v10 v11 in
  let '(nrm', cv', rl', _, _, _, _, _, _, _, _) :=
    src_compute_kd_ncr_H2 ROps kd_find eig points' size kd' normals' curvatures' reliab' k nbi0' es0' a0' a1' v00' v01' v10' v11' in
  forall j, (0 <= j < size)%Z ->
    let lam := fst (eig (covariance ROps 2 3 (map (fun i => SrcTieC09.l3 (points i)) (kd_find kd (points j) k)))) in
    vcoord ROps lam 0 < vcoord ROps lam 1 ->
    let n := firstn 2 (SrcTieC09.l3 (nrm j)) in
    let n' := firstn 2 (SrcTieC09.l3 (nrm' j)) in
    (n' = rot_apply 2 Rm n \/ n' = vneg ROps (rot_apply 2 Rm n)) /\
    (vdot ROps n (firstn 2 (SrcTieC09.l3 (points j))) <> 0 -> n' = rot_apply 2 Rm n) /\
    cv' j = cv j.
Proof.
  intros HR Hk Hsz Hkd Hrot Hnb Hc Hc'.
  pose proof (tie_compute_kd_ncr_H2 ROps NormLits_R eig kd_find points size kd normals curvatures reliab k nbi0 es0 a0 a1 v00 v01 v10 v11 Hk Hsz (Hkd kd)
                (fun j Hj => contract_shape 2 _ _ ltac:(lia) (Hc j Hj))) as Ht.
  pose proof (tie_compute_kd_ncr_H2 ROps NormLits_R eig kd_find points' size kd' normals' curvatures' reliab' k nbi0' es0' a0' a1' v00' v01' v10' v11' Hk Hsz (Hkd kd')
                (fun j Hj => contract_shape 2 _ _ ltac:(lia) (Hc' j Hj))) as Ht'.
  destruct (src_compute_kd_ncr_H2 ROps kd_find eig points size kd normals curvatures reliab k nbi0 es0 a0 a1 v00 v01 v10 v11) as [? ?].
  destruct (src_compute_kd_ncr_H2 ROps kd_find eig points' size kd' normals' curvatures' reliab' k nbi0' es0' a0' a1' v00' v01' v10' v11') as [? ?]; destruct_tuples.
  intros j Hj. destruct (Ht j) as [Ht1 _]. destruct (Ht' j) as [Ht1' _]. specialize (Ht1 Hj). specialize (Ht1' Hj).
  cbv zeta in Ht1, Ht1'. injection Ht1 as Q1 Q2 Q3. injection Ht1' as Q1' Q2' Q3'.
  specialize (Hc j Hj). specialize (Hc' j Hj). cbv zeta in Hc, Hc'.
  assert (Hmap : map (fun i => SrcTieC09.l3 (points' i)) (kd_find kd' (points' j) k)
               = map (rot_point 2 Rm) (map (fun i => SrcTieC09.l3 (points i)) (kd_find kd (points j) k))).
  { rewrite (Hnb j Hj), map_map. apply map_ext. intros i. apply Hrot. }
  rewrite Hmap in Q1', Q2', Hc'. rewrite (Hrot j) in Q1', Q2'.
  cbv zeta. intros Gap. rewrite Q1, Q1', Q2, Q2'.
  rewrite <- (e_lambda_fst eig 2 3 (SrcTieC09.l3 (points j)) _ (SrcTieC09.l3 (normals j))) in Gap.
  assert (Hlen : forall q, In q (map (fun i => SrcTieC09.l3 (points i)) (kd_find kd (points j) k)) -> length q = 3%nat).
  { intros q Hq. apply in_map_iff in Hq. destruct Hq as [i [<- _]]. destruct (points i) as [? ?]; destruct_tuples; reflexivity. }
  destruct (rotation_equivariance_any_sign eig 2 3 (SrcTieC09.l3 (points j)) _ (SrcTieC09.l3 (normals j)) (SrcTieC09.l3 (normals' j)) Rm
              ltac:(left; reflexivity) HR ltac:(lia)
              Hlen
              Hc Hc' Gap) as (A1 & A2 & _ & A4).
  split; [exact A1|]. split; [exact A2|exact A4].
Qed.

Lemma src_rotation_equivariance_H3 (kd_find : K -> R * R * R * R -> Z -> list Z) points points' size kd kd'
      normals normals' curvatures curvatures' reliab reliab' k nbi0 es0 a0 a1 a2 v00 v01 v02 v10 v11 v12 v20 v21 v22 nbi0' es0' a0' a1' a2' v00' v01' v02' v10' v11' v12' v20' v21' v22' Rm :
  is_rotation 3 Rm -> (0 <= k)%Z -> (0 <= size)%Z ->
  (forall t p, length (kd_find t p k) = Z.to_nat k) ->
  (forall i, SrcTieC09.l4 (points' i) = rot_point 3 Rm (SrcTieC09.l4 (points i))) ->
  (forall j, (0 <= j < size)%Z -> kd_find kd' (points' j) k = kd_find kd (points j) k) ->
  (forall j, (0 <= j < size)%Z ->
     let C := covariance ROps 3 4 (map (fun i => SrcTieC09.l4 (points i)) (kd_find kd (points j) k)) in eig_contract 3 C (eig C)) ->
  (forall j, (0 <= j < size)%Z ->
     let C := covariance ROps 3 4 (map (fun i => SrcTieC09.l4 (points' i)) (kd_find kd' (points' j) k)) in eig_contract 3 C (eig C)) ->
  let '(nrm, cv, rl, _, _, _, _, _, _, _, _, _, _, _, _, _, _) :=
    src_compute_kd_ncr_H3 ROps kd_find eig points size kd normals curvatures reliab k nbi0 es0 a0 a1 a2 v00 v01 v02 v10 v11 v12 v20 v21 v22 in
  let '(nrm', cv', rl', _, _, _, _, _, _, _, _, _, _, _, _, _, _) :=
    src_compute_kd_ncr_H3 ROps kd_find eig points' size kd' normals' curvatures' reliab' k nbi0' es0' a0' a1' a2' v00' v01' v02' v10' v11' v12' v20' v21' v22' in
  forall j, (0 <= j < size)%Z ->
    let lam := fst (eig (covariance ROps 3 4 (map (fun i => SrcTieC09.l4 (points i)) (kd_find kd (points j) k)))) in
    vcoord ROps lam 0 < vcoord ROps lam 1 ->
    let n := firstn 3 (SrcTieC09.l4 (nrm j)) in
    let n' := firstn 3 (SrcTieC09.l4 (nrm' j)) in
    (n' = rot_apply 3 Rm n \/ n' = vneg ROps (rot_apply 3 Rm n)) /\
    (vdot ROps n (firstn 3 (SrcTieC09.l4 (points j))) <> 0 -> n' = rot_apply 3 Rm n) /\
    cv' j = cv j.
Proof.
  intros HR Hk Hsz Hkd Hrot Hnb Hc Hc'.
  pose proof (tie_compute_kd_ncr_H3 ROps NormLits_R eig kd_find points size kd normals curvatures reliab k nbi0 es0 a0 a1 a2 v00 v01 v02 v10 v11 v12 v20 v21 v22 Hk Hsz (Hkd kd)
                (fun j Hj => contract_shape 3 _ _ ltac:(lia) (Hc j Hj))) as Ht.
  pose proof (tie_compute_kd_ncr_H3 ROps NormLits_R eig kd_find points' size kd' normals' curvatures' reliab' k nbi0' es0' a0' a1' a2' v00' v01' v02' v10' v11' v12' v20' v21' v22' Hk Hsz (Hkd kd')
                (fun j Hj => contract_shape 3 _ _ ltac:(lia) (Hc' j Hj))) as Ht'.
  destruct (src_compute_kd_ncr_H3 ROps kd_find eig points size kd normals curvatures reliab k nbi0 es0 a0 a1 a2 v00 v01 v02 v10 v11 v12 v20 v21 v22) as [? ?].
  destruct (src_compute_kd_ncr_H3 ROps kd_find eig points' size kd' normals' curvatures' reliab' k nbi0' es0' a0' a1' a2' v00' v01' v02' v10' v11' v12' v20' v21' v22') as [? ?]; destruct_tuples.
  intros j Hj. destruct (Ht j) as [Ht1 _]. destruct (Ht' j) as [Ht1' _]. specialize (Ht1 Hj). specialize (Ht1' Hj).
  cbv zeta in Ht1, Ht1'. injection Ht1 as Q1 Q2 Q3. injection Ht1' as Q1' Q2' Q3'.
  specialize (Hc j Hj). specialize (Hc' j Hj). cbv zeta in Hc, Hc'.
  assert (Hmap : map (fun i => SrcTieC09.l4 (points' i)) (kd_find kd' (points' j) k)
               = map (rot_point 3 Rm) (map (fun i => SrcTieC09.l4 (points i)) (kd_find kd (points j) k))).
  { rewrite (Hnb j Hj), map_map. apply map_ext. intros i. apply Hrot. }
  rewrite Hmap in Q1', Q2', Hc'. rewrite (Hrot j) in Q1', Q2'.
  cbv zeta. intros Gap. rewrite Q1, Q1', Q2, Q2'.
  rewrite <- (e_lambda_fst eig 3 4 (SrcTieC09.l4 (points j)) _ (SrcTieC09.l4 (normals j))) in Gap.
  assert (Hlen : forall q, In q (map (fun i => SrcTieC09.l4 (points i)) (kd_find kd (points j) k)) -> length q = 4%nat).
  { intros q Hq. apply in_map_iff in Hq. destruct Hq as [i [<- _]]. destruct (points i) as [? ?]; destruct_tuples; reflexivity. }
  destruct (rotation_equivariance_any_sign eig 3 4 (SrcTieC09.l4 (points j)) _ (SrcTieC09.l4 (normals j)) (SrcTieC09.l4 (normals' j)) Rm
              ltac:(right; reflexivity) HR ltac:(lia)
              Hlen
              Hc Hc' Gap) as (A1 & A2 & _ & A4).
  split; [exact A1|]. split; [exact A2|exact A4].
Qed.

End Cloud.
