(* NormalsRotation.v — C09: rotation equivariance of the estimated normal without the premise n.p <> 0, and at the level of the
   whole cloud for the terms generated from the source (gen/SrcNormals.v). *)
From Coq Require Import Reals ZArith List Bool Arith Lra Lia.
From Romea Require Import Num NumR NormalsModel NormalsProofs SrcEigen SrcNormalsLib SrcTieC09 NormalsRotationCore.
From Romea.gen Require Import SrcNormals.
Import ListNotations.
Local Open Scope R_scope.

Section Cloud.
Context {K : Type} (eig : list (list R) -> list R * list (list R)).

Lemma src_rotation_equivariance_V2 (kd_find : K -> R * R -> Z -> list Z) points points' size kd kd'
      normals normals' curvatures curvatures' reliab reliab' k nbi0 es0 a0 a1 v00 v01 v10 v11 nbi0' es0' a0' a1' v00' v01' v10' v11' Rm :
  is_rotation 2 Rm -> (0 <= k)%Z -> (0 <= size)%Z ->
  (forall t p, length (kd_find t p k) = Z.to_nat k) ->
  (forall i, SrcTieC09.l2 (points' i) = rot_point 2 Rm (SrcTieC09.l2 (points i))) ->
  (forall j, (0 <= j < size)%Z -> kd_find kd' (points' j) k = kd_find kd (points j) k) ->
  (forall j, (0 <= j < size)%Z ->
     let C := covariance ROps 2 2 (map (fun i => SrcTieC09.l2 (points i)) (kd_find kd (points j) k)) in eig_contract 2 C (eig C)) ->
  (forall j, (0 <= j < size)%Z ->
     let C := covariance ROps 2 2 (map (fun i => SrcTieC09.l2 (points' i)) (kd_find kd' (points' j) k)) in eig_contract 2 C (eig C)) ->
  let '(nrm, cv, rl, _, _, _, _, _, _, _, _) :=
    src_compute_kd_ncr_V2 ROps kd_find eig points size kd normals curvatures reliab k nbi0 es0 a0 a1 v00 v01 v10 v11 in
  let '(nrm', cv', rl', _, _, _, _, _, _, _, _) :=
    src_compute_kd_ncr_V2 ROps kd_find eig points' size kd' normals' curvatures' reliab' k nbi0' es0' a0' a1' v00' v01' v10' v11' in
  forall j, (0 <= j < size)%Z ->
    let lam := fst (eig (covariance ROps 2 2 (map (fun i => SrcTieC09.l2 (points i)) (kd_find kd (points j) k)))) in
    vcoord ROps lam 0 < vcoord ROps lam 1 ->
    let n := firstn 2 (SrcTieC09.l2 (nrm j)) in
    let n' := firstn 2 (SrcTieC09.l2 (nrm' j)) in
    (n' = rot_apply 2 Rm n \/ n' = vneg ROps (rot_apply 2 Rm n)) /\
    (vdot ROps n (firstn 2 (SrcTieC09.l2 (points j))) <> 0 -> n' = rot_apply 2 Rm n) /\
    cv' j = cv j.
Proof.
  intros HR Hk Hsz Hkd Hrot Hnb Hc Hc'.
  pose proof (tie_compute_kd_ncr_V2 ROps NormLits_R eig kd_find points size kd normals curvatures reliab k nbi0 es0 a0 a1 v00 v01 v10 v11 Hk Hsz (Hkd kd)
                (fun j Hj => contract_shape 2 _ _ ltac:(lia) (Hc j Hj))) as Ht.
  pose proof (tie_compute_kd_ncr_V2 ROps NormLits_R eig kd_find points' size kd' normals' curvatures' reliab' k nbi0' es0' a0' a1' v00' v01' v10' v11' Hk Hsz (Hkd kd')
                (fun j Hj => contract_shape 2 _ _ ltac:(lia) (Hc' j Hj))) as Ht'.
  destruct (src_compute_kd_ncr_V2 ROps kd_find eig points size kd normals curvatures reliab k nbi0 es0 a0 a1 v00 v01 v10 v11) as [? ?].
  destruct (src_compute_kd_ncr_V2 ROps kd_find eig points' size kd' normals' curvatures' reliab' k nbi0' es0' a0' a1' v00' v01' v10' v11') as [? ?]; destruct_tuples.
  intros j Hj. destruct (Ht j) as [Ht1 _]. destruct (Ht' j) as [Ht1' _]. specialize (Ht1 Hj). specialize (Ht1' Hj).
  cbv zeta in Ht1, Ht1'. injection Ht1 as Q1 Q2 Q3. injection Ht1' as Q1' Q2' Q3'.
  specialize (Hc j Hj). specialize (Hc' j Hj). cbv zeta in Hc, Hc'.
  assert (Hmap : map (fun i => SrcTieC09.l2 (points' i)) (kd_find kd' (points' j) k)
               = map (rot_point 2 Rm) (map (fun i => SrcTieC09.l2 (points i)) (kd_find kd (points j) k))).
  { rewrite (Hnb j Hj), map_map. apply map_ext. intros i. apply Hrot. }
  rewrite Hmap in Q1', Q2', Hc'. rewrite (Hrot j) in Q1', Q2'.
  cbv zeta. intros Gap. rewrite Q1, Q1', Q2, Q2'.
  rewrite <- (e_lambda_fst eig 2 2 (SrcTieC09.l2 (points j)) _ (SrcTieC09.l2 (normals j))) in Gap.
  assert (Hlen : forall q, In q (map (fun i => SrcTieC09.l2 (points i)) (kd_find kd (points j) k)) -> length q = 2%nat).
  { intros q Hq. apply in_map_iff in Hq. destruct Hq as [i [<- _]]. destruct (points i) as [? ?]; destruct_tuples; reflexivity. }
  destruct (rotation_equivariance_any_sign eig 2 2 (SrcTieC09.l2 (points j)) _ (SrcTieC09.l2 (normals j)) (SrcTieC09.l2 (normals' j)) Rm
              ltac:(left; reflexivity) HR ltac:(lia)
              Hlen
              Hc Hc' Gap) as (A1 & A2 & _ & A4).
  split; [exact A1|]. split; [exact A2|exact A4].
Qed.

Lemma src_rotation_equivariance_V3 (kd_find : K -> R * R * R -> Z -> list Z) points points' size kd kd'
      normals normals' curvatures curvatures' reliab reliab' k nbi0 es0 a0 a1 a2 v00 v01 v02 v10 v11 v12 v20 v21 v22 nbi0' es0' a0' a1' a2' v00' v01' v02' v10' v11' v12' v20' v21' v22' Rm :
  is_rotation 3 Rm -> (0 <= k)%Z -> (0 <= size)%Z ->
  (forall t p, length (kd_find t p k) = Z.to_nat k) ->
  (forall i, SrcTieC09.l3 (points' i) = rot_point 3 Rm (SrcTieC09.l3 (points i))) ->
  (forall j, (0 <= j < size)%Z -> kd_find kd' (points' j) k = kd_find kd (points j) k) ->
  (forall j, (0 <= j < size)%Z ->
     let C := covariance ROps 3 3 (map (fun i => SrcTieC09.l3 (points i)) (kd_find kd (points j) k)) in eig_contract 3 C (eig C)) ->
  (forall j, (0 <= j < size)%Z ->
     let C := covariance ROps 3 3 (map (fun i => SrcTieC09.l3 (points' i)) (kd_find kd' (points' j) k)) in eig_contract 3 C (eig C)) ->
  let '(nrm, cv, rl, _, _, _, _, _, _, _, _, _, _, _, _, _, _) :=
    src_compute_kd_ncr_V3 ROps kd_find eig points size kd normals curvatures reliab k nbi0 es0 a0 a1 a2 v00 v01 v02 v10 v11 v12 v20 v21 v22 in
  let '(nrm', cv', rl', _, _, _, _, _, _, _, _, _, _, _, _, _, _) :=
    src_compute_kd_ncr_V3 ROps kd_find eig points' size kd' normals' curvatures' reliab' k nbi0' es0' a0' a1' a2' v00' v01' v02' v10' v11' v12' v20' v21' v22' in
  forall j, (0 <= j < size)%Z ->
    let lam := fst (eig (covariance ROps 3 3 (map (fun i => SrcTieC09.l3 (points i)) (kd_find kd (points j) k)))) in
    vcoord ROps lam 0 < vcoord ROps lam 1 ->
    let n := firstn 3 (SrcTieC09.l3 (nrm j)) in
    let n' := firstn 3 (SrcTieC09.l3 (nrm' j)) in
    (n' = rot_apply 3 Rm n \/ n' = vneg ROps (rot_apply 3 Rm n)) /\
    (vdot ROps n (firstn 3 (SrcTieC09.l3 (points j))) <> 0 -> n' = rot_apply 3 Rm n) /\
    cv' j = cv j.
Proof.
  intros HR Hk Hsz Hkd Hrot Hnb Hc Hc'.
  pose proof (tie_compute_kd_ncr_V3 ROps NormLits_R eig kd_find points size kd normals curvatures reliab k nbi0 es0 a0 a1 a2 v00 v01 v02 v10 v11 v12 v20 v21 v22 Hk Hsz (Hkd kd)
                (fun j Hj => contract_shape 3 _ _ ltac:(lia) (Hc j Hj))) as Ht.
  pose proof (tie_compute_kd_ncr_V3 ROps NormLits_R eig kd_find points' size kd' normals' curvatures' reliab' k nbi0' es0' a0' a1' a2' v00' v01' v02' v10' v11' v12' v20' v21' v22' Hk Hsz (Hkd kd')
                (fun j Hj => contract_shape 3 _ _ ltac:(lia) (Hc' j Hj))) as Ht'.
  destruct (src_compute_kd_ncr_V3 ROps kd_find eig points size kd normals curvatures reliab k nbi0 es0 a0 a1 a2 v00 v01 v02 v10 v11 v12 v20 v21 v22) as [? ?].
  destruct (src_compute_kd_ncr_V3 ROps kd_find eig points' size kd' normals' curvatures' reliab' k nbi0' es0' a0' a1' a2' v00' v01' v02' v10' v11' v12' v20' v21' v22') as [? ?]; destruct_tuples.
  intros j Hj. destruct (Ht j) as [Ht1 _]. destruct (Ht' j) as [Ht1' _]. specialize (Ht1 Hj). specialize (Ht1' Hj).
  cbv zeta in Ht1, Ht1'. injection Ht1 as Q1 Q2 Q3. injection Ht1' as Q1' Q2' Q3'.
  specialize (Hc j Hj). specialize (Hc' j Hj). cbv zeta in Hc, Hc'.
  assert (Hmap : map (fun i => SrcTieC09.l3 (points' i)) (kd_find kd' (points' j) k)
               = map (rot_point 3 Rm) (map (fun i => SrcTieC09.l3 (points i)) (kd_find kd (points j) k))).
  { rewrite (Hnb j Hj), map_map. apply map_ext. intros i. apply Hrot. }
  rewrite Hmap in Q1', Q2', Hc'. rewrite (Hrot j) in Q1', Q2'.
  cbv zeta. intros Gap. rewrite Q1, Q1', Q2, Q2'.
  rewrite <- (e_lambda_fst eig 3 3 (SrcTieC09.l3 (points j)) _ (SrcTieC09.l3 (normals j))) in Gap.
  assert (Hlen : forall q, In q (map (fun i => SrcTieC09.l3 (points i)) (kd_find kd (points j) k)) -> length q = 3%nat).
  { intros q Hq. apply in_map_iff in Hq. destruct Hq as [i [<- _]]. destruct (points i) as [? ?]; destruct_tuples; reflexivity. }
  destruct (rotation_equivariance_any_sign eig 3 3 (SrcTieC09.l3 (points j)) _ (SrcTieC09.l3 (normals j)) (SrcTieC09.l3 (normals' j)) Rm
              ltac:(right; reflexivity) HR ltac:(lia)
              Hlen
              Hc Hc' Gap) as (A1 & A2 & _ & A4).
  split; [exact A1|]. split; [exact A2|exact A4].
Qed.

Lemma src_rotation_equivariance_H2 (kd_find : K -> R * R * R -> Z -> list Z) points points' size kd kd'
      normals normals' curvatures curvatures' reliab reliab' k nbi0 es0 a0 a1 v00 v01 v10 v11 nbi0' es0' a0' a1' v00' v01' v10' v11' Rm :
  is_rotation 2 Rm -> (0 <= k)%Z -> (0 <= size)%Z ->
  (forall t p, length (kd_find t p k) = Z.to_nat k) ->
  (forall i, SrcTieC09.l3 (points' i) = rot_point 2 Rm (SrcTieC09.l3 (points i))) ->
  (forall j, (0 <= j < size)%Z -> kd_find kd' (points' j) k = kd_find kd (points j) k) ->
  (forall j, (0 <= j < size)%Z ->
     let C := covariance ROps 2 3 (map (fun i => SrcTieC09.l3 (points i)) (kd_find kd (points j) k)) in eig_contract 2 C (eig C)) ->
  (forall j, (0 <= j < size)%Z ->
     let C := covariance ROps 2 3 (map (fun i => SrcTieC09.l3 (points' i)) (kd_find kd' (points' j) k)) in eig_contract 2 C (eig C)) ->
  let '(nrm, cv, rl, _, _, _, _, _, _, _, _) :=
    src_compute_kd_ncr_H2 ROps kd_find eig points size kd normals curvatures reliab k nbi0 es0 a0 a1 v00 v01 v10 v11 in
  let '(nrm', cv', rl', _, _, _, _, _, _, _, _) :=
    src_compute_kd_ncr_H2 ROps kd_find eig points' size kd' normals' curvatures' reliab' k nbi0' es0' a0' a1' v00' v01' v10' v11' in
  forall j, (0 <= j < size)%Z ->
    let lam := fst (eig (covariance ROps 2 3 (map (fun i => SrcTieC09.l3 (points i)) (kd_find kd (points j) k)))) in
    vcoord ROps lam 0 < vcoord ROps lam 1 ->
    let n := firstn 2 (SrcTieC09.l3 (nrm j)) in
    let n' := firstn 2 (SrcTieC09.l3 (nrm' j)) in
    (n' = rot_apply 2 Rm n \/ n' = vneg ROps (rot_apply 2 Rm n)) /\
    (vdot ROps n (firstn 2 (SrcTieC09.l3 (points j))) <> 0 -> n' = rot_apply 2 Rm n) /\
    cv' j = cv j.
Proof.
  intros HR Hk Hsz Hkd Hrot Hnb Hc Hc'.
  pose proof (tie_compute_kd_ncr_H2 ROps NormLits_R eig kd_find points size kd normals curvatures reliab k nbi0 es0 a0 a1 v00 v01 v10 v11 Hk Hsz (Hkd kd)
                (fun j Hj => contract_shape 2 _ _ ltac:(lia) (Hc j Hj))) as Ht.
  pose proof (tie_compute_kd_ncr_H2 ROps NormLits_R eig kd_find points' size kd' normals' curvatures' reliab' k nbi0' es0' a0' a1' v00' v01' v10' v11' Hk Hsz (Hkd kd')
                (fun j Hj => contract_shape 2 _ _ ltac:(lia) (Hc' j Hj))) as Ht'.
  destruct (src_compute_kd_ncr_H2 ROps kd_find eig points size kd normals curvatures reliab k nbi0 es0 a0 a1 v00 v01 v10 v11) as [? ?].
  destruct (src_compute_kd_ncr_H2 ROps kd_find eig points' size kd' normals' curvatures' reliab' k nbi0' es0' a0' a1' v00' v01' v10' v11') as [? ?]; destruct_tuples.
  intros j Hj. destruct (Ht j) as [Ht1 _]. destruct (Ht' j) as [Ht1' _]. specialize (Ht1 Hj). specialize (Ht1' Hj).
  cbv zeta in Ht1, Ht1'. injection Ht1 as Q1 Q2 Q3. injection Ht1' as Q1' Q2' Q3'.
  specialize (Hc j Hj). specialize (Hc' j Hj). cbv zeta in Hc, Hc'.
  assert (Hmap : map (fun i => SrcTieC09.l3 (points' i)) (kd_find kd' (points' j) k)
               = map (rot_point 2 Rm) (map (fun i => SrcTieC09.l3 (points i)) (kd_find kd (points j) k))).
  { rewrite (Hnb j Hj), map_map. apply map_ext. intros i. apply Hrot. }
  rewrite Hmap in Q1', Q2', Hc'. rewrite (Hrot j) in Q1', Q2'.
  cbv zeta. intros Gap. rewrite Q1, Q1', Q2, Q2'.
  rewrite <- (e_lambda_fst eig 2 3 (SrcTieC09.l3 (points j)) _ (SrcTieC09.l3 (normals j))) in Gap.
  assert (Hlen : forall q, In q (map (fun i => SrcTieC09.l3 (points i)) (kd_find kd (points j) k)) -> length q = 3%nat).
  { intros q Hq. apply in_map_iff in Hq. destruct Hq as [i [<- _]]. destruct (points i) as [? ?]; destruct_tuples; reflexivity. }
  destruct (rotation_equivariance_any_sign eig 2 3 (SrcTieC09.l3 (points j)) _ (SrcTieC09.l3 (normals j)) (SrcTieC09.l3 (normals' j)) Rm
              ltac:(left; reflexivity) HR ltac:(lia)
              Hlen
              Hc Hc' Gap) as (A1 & A2 & _ & A4).
  split; [exact A1|]. split; [exact A2|exact A4].
Qed.

Lemma src_rotation_equivariance_H3 (kd_find : K -> R * R * R * R -> Z -> list Z) points points' size kd kd'
      normals normals' curvatures curvatures' reliab reliab' k nbi0 es0 a0 a1 a2 v00 v01 v02 v10 v11 v12 v20 v21 v22 nbi0' es0' a0' a1' a2' v00' v01' v02' v10' v11' v12' v20' v21' v22' Rm :
  is_rotation 3 Rm -> (0 <= k)%Z -> (0 <= size)%Z ->
  (forall t p, length (kd_find t p k) = Z.to_nat k) ->
  (forall i, SrcTieC09.l4 (points' i) = rot_point 3 Rm (SrcTieC09.l4 (points i))) ->
  (forall j, (0 <= j < size)%Z -> kd_find kd' (points' j) k = kd_find kd (points j) k) ->
  (forall j, (0 <= j < size)%Z ->
     let C := covariance ROps 3 4 (map (fun i => SrcTieC09.l4 (points i)) (kd_find kd (points j) k)) in eig_contract 3 C (eig C)) ->
  (forall j, (0 <= j < size)%Z ->
     let C := covariance ROps 3 4 (map (fun i => SrcTieC09.l4 (points' i)) (kd_find kd' (points' j) k)) in eig_contract 3 C (eig C)) ->
  let '(nrm, cv, rl, _, _, _, _, _, _, _, _, _, _, _, _, _, _) :=
    src_compute_kd_ncr_H3 ROps kd_find eig points size kd normals curvatures reliab k nbi0 es0 a0 a1 a2 v00 v01 v02 v10 v11 v12 v20 v21 v22 in
  let '(nrm', cv', rl', _, _, _, _, _, _, _, _, _, _, _, _, _, _) :=
    src_compute_kd_ncr_H3 ROps kd_find eig points' size kd' normals' curvatures' reliab' k nbi0' es0' a0' a1' a2' v00' v01' v02' v10' v11' v12' v20' v21' v22' in
  forall j, (0 <= j < size)%Z ->
    let lam := fst (eig (covariance ROps 3 4 (map (fun i => SrcTieC09.l4 (points i)) (kd_find kd (points j) k)))) in
    vcoord ROps lam 0 < vcoord ROps lam 1 ->
    let n := firstn 3 (SrcTieC09.l4 (nrm j)) in
    let n' := firstn 3 (SrcTieC09.l4 (nrm' j)) in
    (n' = rot_apply 3 Rm n \/ n' = vneg ROps (rot_apply 3 Rm n)) /\
    (vdot ROps n (firstn 3 (SrcTieC09.l4 (points j))) <> 0 -> n' = rot_apply 3 Rm n) /\
    cv' j = cv j.
Proof.
  intros HR Hk Hsz Hkd Hrot Hnb Hc Hc'.
  pose proof (tie_compute_kd_ncr_H3 ROps NormLits_R eig kd_find points size kd normals curvatures reliab k nbi0 es0 a0 a1 a2 v00 v01 v02 v10 v11 v12 v20 v21 v22 Hk Hsz (Hkd kd)
                (fun j Hj => contract_shape 3 _ _ ltac:(lia) (Hc j Hj))) as Ht.
  pose proof (tie_compute_kd_ncr_H3 ROps NormLits_R eig kd_find points' size kd' normals' curvatures' reliab' k nbi0' es0' a0' a1' a2' v00' v01' v02' v10' v11' v12' v20' v21' v22' Hk Hsz (Hkd kd')
                (fun j Hj => contract_shape 3 _ _ ltac:(lia) (Hc' j Hj))) as Ht'.
  destruct (src_compute_kd_ncr_H3 ROps kd_find eig points size kd normals curvatures reliab k nbi0 es0 a0 a1 a2 v00 v01 v02 v10 v11 v12 v20 v21 v22) as [? ?].
  destruct (src_compute_kd_ncr_H3 ROps kd_find eig points' size kd' normals' curvatures' reliab' k nbi0' es0' a0' a1' a2' v00' v01' v02' v10' v11' v12' v20' v21' v22') as [? ?]; destruct_tuples.
  intros j Hj. destruct (Ht j) as [Ht1 _]. destruct (Ht' j) as [Ht1' _]. specialize (Ht1 Hj). specialize (Ht1' Hj).
  cbv zeta in Ht1, Ht1'. injection Ht1 as Q1 Q2 Q3. injection Ht1' as Q1' Q2' Q3'.
  specialize (Hc j Hj). specialize (Hc' j Hj). cbv zeta in Hc, Hc'.
  assert (Hmap : map (fun i => SrcTieC09.l4 (points' i)) (kd_find kd' (points' j) k)
               = map (rot_point 3 Rm) (map (fun i => SrcTieC09.l4 (points i)) (kd_find kd (points j) k))).
  { rewrite (Hnb j Hj), map_map. apply map_ext. intros i. apply Hrot. }
  rewrite Hmap in Q1', Q2', Hc'. rewrite (Hrot j) in Q1', Q2'.
  cbv zeta. intros Gap. rewrite Q1, Q1', Q2, Q2'.
  rewrite <- (e_lambda_fst eig 3 4 (SrcTieC09.l4 (points j)) _ (SrcTieC09.l4 (normals j))) in Gap.
  assert (Hlen : forall q, In q (map (fun i => SrcTieC09.l4 (points i)) (kd_find kd (points j) k)) -> length q = 4%nat).
  { intros q Hq. apply in_map_iff in Hq. destruct Hq as [i [<- _]]. destruct (points i) as [? ?]; destruct_tuples; reflexivity. }
  destruct (rotation_equivariance_any_sign eig 3 4 (SrcTieC09.l4 (points j)) _ (SrcTieC09.l4 (normals j)) (SrcTieC09.l4 (normals' j)) Rm
              ltac:(right; reflexivity) HR ltac:(lia)
              Hlen
              Hc Hc' Gap) as (A1 & A2 & _ & A4).
  split; [exact A1|]. split; [exact A2|exact A4].
Qed.

End Cloud.
