(* Properties_C12.v — C12: analytic derivatives and propagated covariances match the maps they describe.
   Statements only; real-number instance of AnglesModel.v / PoseCovModel.v.
   rot_zyx x y z = Rz(z)*Ry(y)*Rx(x) = SmartRotation3D::R (C10);  dRd?_true = Rz*Ry*dRx, Rz*dRy*Rx, dRz*Ry*Rx with the
   elementary derivative matrices (no identity entry);  sdX/sdY/sdZ (smart_init ...) = the model of the members
   dRdAngleX_/Y_/Z_ exactly as the code fills them;  extraX = Rz*Ry*E00, extraY = Rz*E11*Rx, extraZ = E22*Ry*Rx. *)
From Coq Require Import Reals ZArith Lra Bool.
From Coquelicot Require Import Coquelicot.
From Romea Require Import Num NumR AnglesModel AnglesProofs AnglesRoundtrip PoseCovModel PoseCovProofs DerivProofs PoseJacProofs PoseJacDeriv
  Atan2Deriv PoseJacCharts LsCovContract.
Local Open Scope R_scope.

(* --- the true derivatives of the reported rotation matrix, entry by entry, in each angle --- *)
Theorem C12_dR_true : forall x y z i j,
  is_derive (fun t => mget3 (sR (smart_init ROps t y z)) i j) x (mget3 (dRdX_true x y z) i j) /\
  is_derive (fun t => mget3 (sR (smart_init ROps x t z)) i j) y (mget3 (dRdY_true x y z) i j) /\
  is_derive (fun t => mget3 (sR (smart_init ROps x y t)) i j) z (mget3 (dRdZ_true x y z) i j).
Proof. intros. split; [exact (dR_true_x x y z i j)|split; [exact (dR_true_y x y z i j)|exact (dR_true_z x y z i j)]]. Qed.
Print Assumptions C12_dR_true.

(* --- and the derivative of a rotated vector is that matrix times the vector --- *)
Theorem C12_dRT_true : forall x y z (t : vec3 R) i,
  is_derive (fun a => vget3 (mvmul3 ROps (sR (smart_init ROps a y z)) t) i) x (vget3 (mvmul3 ROps (dRdX_true x y z) t) i) /\
  is_derive (fun a => vget3 (mvmul3 ROps (sR (smart_init ROps x a z)) t) i) y (vget3 (mvmul3 ROps (dRdY_true x y z) t) i) /\
  is_derive (fun a => vget3 (mvmul3 ROps (sR (smart_init ROps x y a)) t) i) z (vget3 (mvmul3 ROps (dRdZ_true x y z) t) i).
Proof. intros. split; [exact (dRT_true_x x y z t i)|split; [exact (dRT_true_y x y z t i)|exact (dRT_true_z x y z t i)]]. Qed.
Print Assumptions C12_dRT_true.

(* --- what the code's derivative members are instead: the true derivative plus the identity entry left behind
       (OPEN KNOWN FINDING c12-smartrotation-dRdAngle-identity-leftover; pinned by test_smart_rotation.cpp) --- *)
Theorem C12_dRdX_model_char : forall x y z,
  sdX (smart_init ROps x y z) = madd3 ROps (dRdX_true x y z) (extraX x y z) /\
  sdY (smart_init ROps x y z) = madd3 ROps (dRdY_true x y z) (extraY x y z) /\
  sdZ (smart_init ROps x y z) = madd3 ROps (dRdZ_true x y z) (extraZ x y z).
Proof. exact dRdX_model_char. Qed.
Print Assumptions C12_dRdX_model_char.

Theorem C12_extra_terms : forall x y z,
  extraX x y z = mmul3 ROps (mmul3 ROps (RZ z) (RY y)) E00 /\
  extraY x y z = mmul3 ROps (mmul3 ROps (RZ z) E11) (RX x) /\
  extraZ x y z = mmul3 ROps (mmul3 ROps E22 (RY y)) (RX x) /\
  extraX x y z = mkM3 (cos z * cos y) 0 0  (sin z * cos y) 0 0  (- sin y) 0 0 /\
  extraY x y z = mkM3 0 (- sin z * cos x) (sin z * sin x)  0 (cos z * cos x) (- (cos z * sin x))  0 0 0 /\
  extraZ x y z = mkM3 0 0 0  0 0 0  (- sin y) (cos y * sin x) (cos y * cos x).
Proof. intros. split; [reflexivity|split; [reflexivity|split; [reflexivity|exact (extra_entries x y z)]]]. Qed.

(* the statement "the reported matrices are the derivatives" is false of the faithful model, at every angle triple *)
Theorem C12_dRdX_refuted : exists x y z, sdX (smart_init ROps x y z) <> dRdX_true x y z.
Proof. exists 0, 0, 0. exact (proj1 (dRdX_never_derivative 0 0 0)). Qed.
Theorem C12_dRdX_never_derivative : forall x y z,
  sdX (smart_init ROps x y z) <> dRdX_true x y z /\
  sdY (smart_init ROps x y z) <> dRdY_true x y z /\
  sdZ (smart_init ROps x y z) <> dRdZ_true x y z.
Proof. exact dRdX_never_derivative. Qed.
Print Assumptions C12_dRdX_never_derivative.

(* --- dRTdAngles: columns (true + leftover) * T  (OPEN KNOWN FINDING c12-smartrotation-dRTdAngles-identity-leftover) --- *)
Theorem C12_dRT_model_char : forall x y z (t : vec3 R),
  smart_dRTdAngles ROps (smart_init ROps x y z) t =
  mcols3 (vadd3 ROps (mvmul3 ROps (dRdX_true x y z) t) (mvmul3 ROps (extraX x y z) t))
         (vadd3 ROps (mvmul3 ROps (dRdY_true x y z) t) (mvmul3 ROps (extraY x y z) t))
         (vadd3 ROps (mvmul3 ROps (dRdZ_true x y z) t) (mvmul3 ROps (extraZ x y z) t)).
Proof. exact dRT_model_char. Qed.
Print Assumptions C12_dRT_model_char.

(* --- pose covariance: the ORIGINAL Jacobian (commit 2218971) at the identity transform and a zero-angle pose is
       diag(1,1,1,1,-1,1), so the identity transform flips the sign of the (roll,pitch) covariance
       (fixed: d8f9844; the witness is replayed on the implementation by checks/C12.py) --- *)
Theorem C12_pose_cov_identity_refuted :
  pose_J_v0 ROps (mid3 ROps) (mkV3 0 0 0) 4%nat 4%nat <> 1 /\
  gsym 6 Cwit /\ gpsd 6 Cwit /\
  pose_cov ROps (pose_J_v0 ROps (mid3 ROps) (mkV3 0 0 0)) Cwit 3%nat 4%nat = - / 2 /\ Cwit 3%nat 4%nat = / 2.
Proof.
  destruct pose_cov_identity_refuted as [A [B C]]. destruct Cwit_sym_psd as [S P].
  split; [exact A|split; [exact S|split; [exact P|split; [exact B|exact C]]]].
Qed.
Print Assumptions C12_pose_cov_identity_refuted.

(* --- repaired code: the derivative matrices built at the call site are the true derivatives of S = Rz*Ry*Rx --- *)
Theorem C12_pose_dS_true : forall x y z,
  dSdX_of ROps (sR (smart_init ROps x y z)) = dRdX_true x y z /\
  dSdY_of ROps (sR (smart_init ROps x y z)) z = dRdY_true x y z /\
  dSdZ_of ROps (sR (smart_init ROps x y z)) = dRdZ_true x y z.
Proof. exact dSd_of_true. Qed.
Print Assumptions C12_pose_dS_true.

(* --- the derivative of atan2 (Ratan2, the real instance of the dictionary's natan2 = std::atan2) along a differentiable
       path (x(t), y(t)), at every point where atan2 is differentiable at all: off the branch cut {y = 0, x <= 0}
       (origin included).  Proved on the three charts x > 0, y > 0, y < 0.  On the cut atan2 jumps from pi to below -pi/2
       (C12_atan2_cut_jump), so the hypothesis cannot be dropped. --- *)
Theorem C12_atan2_derivative : forall (x y : R -> R) t0 x' y',
  is_derive x t0 x' -> is_derive y t0 y' -> ~ (y t0 = 0 /\ x t0 <= 0) ->
  is_derive (fun t => Ratan2 (y t) (x t)) t0 ((x t0 * y' - y t0 * x') / (x t0 ^ 2 + y t0 ^ 2)).
Proof. exact is_derive_Ratan2_xy. Qed.
Print Assumptions C12_atan2_derivative.

Theorem C12_atan2_cut_jump : forall x, x < 0 -> Ratan2 0 x = PI /\ forall y, y < 0 -> Ratan2 y x < - PI / 2.
Proof. exact Ratan2_cut_jump. Qed.

(* --- repaired code: J is the Jacobian of the library's own pose map (position' = l*p + t, angles' = angles of l*Rz*Ry*Rx).
       Position block = l (C12_pose_jacobian_blocks).  Angular block = derivatives in roll, pitch, yaw of the extracted angles
       raw_roll = atan2(M21,M22), raw_pitch = -asin(M20), raw_yaw = atan2(M10,M00) (before between0And2Pi), for EVERY matrix l,
       on every chart of atan2: wherever (M21,M22) and (M10,M00) are off the branch cut of atan2 and |M20| < 1.
       off_cut y x := ~ (y = 0 /\ x <= 0).  (Replaces C12_pose_jacobian_angular_partial, which asked M22 > 0 and M00 > 0.) --- *)
Theorem C12_pose_jacobian_angular : forall l x y z,
  off_cut (m21 (Mrot l x y z)) (m22 (Mrot l x y z)) -> off_cut (m10 (Mrot l x y z)) (m00 (Mrot l x y z)) ->
  Rabs (m20 (Mrot l x y z)) < 1 ->
  let J := pose_J_angular ROps l (mkV3 x y z) in
  (is_derive (fun t => raw_roll (Mrot l t y z)) x (m00 J) /\ is_derive (fun t => raw_pitch (Mrot l t y z)) x (m10 J) /\
   is_derive (fun t => raw_yaw (Mrot l t y z)) x (m20 J)) /\
  (is_derive (fun t => raw_roll (Mrot l x t z)) y (m01 J) /\ is_derive (fun t => raw_pitch (Mrot l x t z)) y (m11 J) /\
   is_derive (fun t => raw_yaw (Mrot l x t z)) y (m21 J)) /\
  (is_derive (fun t => raw_roll (Mrot l x y t)) z (m02 J) /\ is_derive (fun t => raw_pitch (Mrot l x y t)) z (m12 J) /\
   is_derive (fun t => raw_yaw (Mrot l x y t)) z (m22 J)).
Proof. exact pose_J_angular_is_jacobian_charts. Qed.
Print Assumptions C12_pose_jacobian_angular.

(* --- the same for the angles the library actually reports, rep_X = between0And2Pi(raw_X) (r2e = rotation3DToEulerAngles
       returns exactly these: C12_reported_angles): ordinary derivatives wherever no reported angle is 0, the only place
       where the [0,2pi) representative jumps.  off_zero y x := ~ (y = 0 /\ 0 <= x).  This covers the branch cut of atan2
       (reported roll or yaw = pi), where the raw angle is not even continuous. --- *)
Theorem C12_reported_angles : forall m, Rabs (m20 m) <= 1 ->
  rotation3DToEulerAngles ROps ROps idR idR m = Some (mkV3 (rep_roll m) (rep_pitch m) (rep_yaw m)) /\
  rep_roll m = between0And2Pi ROps idR idR (raw_roll m) /\ rep_pitch m = between0And2Pi ROps idR idR (raw_pitch m) /\
  rep_yaw m = between0And2Pi ROps idR idR (raw_yaw m).
Proof. intros m H. split; [exact (r2e_reports m H)|repeat split]. Qed.

Theorem C12_pose_jacobian_angular_reported : forall l x y z,
  off_zero (m21 (Mrot l x y z)) (m22 (Mrot l x y z)) -> off_zero (m10 (Mrot l x y z)) (m00 (Mrot l x y z)) ->
  Rabs (m20 (Mrot l x y z)) < 1 -> m20 (Mrot l x y z) <> 0 ->
  let J := pose_J_angular ROps l (mkV3 x y z) in
  (is_derive (fun t => rep_roll (Mrot l t y z)) x (m00 J) /\ is_derive (fun t => rep_pitch (Mrot l t y z)) x (m10 J) /\
   is_derive (fun t => rep_yaw (Mrot l t y z)) x (m20 J)) /\
  (is_derive (fun t => rep_roll (Mrot l x t z)) y (m01 J) /\ is_derive (fun t => rep_pitch (Mrot l x t z)) y (m11 J) /\
   is_derive (fun t => rep_yaw (Mrot l x t z)) y (m21 J)) /\
  (is_derive (fun t => rep_roll (Mrot l x y t)) z (m02 J) /\ is_derive (fun t => rep_pitch (Mrot l x y t)) z (m12 J) /\
   is_derive (fun t => rep_yaw (Mrot l x y t)) z (m22 J)).
Proof. exact pose_J_angular_is_jacobian_reported. Qed.
Print Assumptions C12_pose_jacobian_angular_reported.

(* --- the whole statement on the whole domain of the property: for every rigid transform (l a proper rotation, any t) and
       every pose whose transformed attitude is off gimbal lock (|M20| < 1), EVERY entry (i,j) of the 6x6 matrix J the code
       builds is the partial derivative, in input j, of output i of the model's own pose map
           pose_map l t q = (l*position + t, reported angles of l*Rz*Ry*Rx)      (pose_transform_mean, C12_pose_map_is_model)
       where the three angle outputs are differentiated as points of the circle R/2piZ:
           is_derive_mod2pi f t d := exists g, (near t: f = g modulo 2pi) /\ is_derive g t d
       (for the position rows: ordinary derivatives).  d is unique (C12_derive_mod2pi_unique), and equals the ordinary
       derivative whenever f itself is differentiable.  upd q j s = q with component j replaced by s. --- *)
Theorem C12_pose_map_is_model : forall l t q i,
  pose_map l t q i =
  (let r := pose_transform_mean ROps ROps idR idR l t (mkV3 (q 0%nat) (q 1%nat) (q 2%nat)) (mkV3 (q 3%nat) (q 4%nat) (q 5%nat)) in
   if Nat.ltb i 3 then vget3 (fst r) i else match snd r with Some e => vget3 e (i - 3) | None => 0 end).
Proof. reflexivity. Qed.

Theorem C12_derive_mod2pi_unique : forall f t d1 d2,
  is_derive_mod2pi f t d1 -> is_derive_mod2pi f t d2 -> d1 = d2.
Proof. exact is_derive_mod2pi_unique. Qed.
Theorem C12_derive_mod2pi_of_derive : forall f t d, is_derive f t d -> is_derive_mod2pi f t d.
Proof. exact is_derive_mod2pi_of_derive. Qed.

Theorem C12_pose_jacobian : forall l t q,
  proper_rotation l -> Rabs (m20 (Mrot l (q 3%nat) (q 4%nat) (q 5%nat))) < 1 ->
  let J := pose_J ROps l (mkV3 (q 3%nat) (q 4%nat) (q 5%nat)) in
  forall i j, (i < 6)%nat -> (j < 6)%nat ->
    ((i < 3)%nat -> is_derive (fun s => pose_map l t (upd q j s) i) (q j) (J i j)) /\
    is_derive_mod2pi (fun s => pose_map l t (upd q j s) i) (q j) (J i j).
Proof. exact pose_J_is_jacobian. Qed.   (* assumptions: printed with C12_pose_covariance, which is built on this theorem *)

(* angular block alone, same domain, the nine entries spelled out *)
Theorem C12_pose_jacobian_angular_mod2pi : forall l x y z,
  proper_rotation l -> Rabs (m20 (Mrot l x y z)) < 1 ->
  let J := pose_J_angular ROps l (mkV3 x y z) in
  (is_derive_mod2pi (fun t => rep_roll (Mrot l t y z)) x (m00 J) /\ is_derive_mod2pi (fun t => rep_pitch (Mrot l t y z)) x (m10 J) /\
   is_derive_mod2pi (fun t => rep_yaw (Mrot l t y z)) x (m20 J)) /\
  (is_derive_mod2pi (fun t => rep_roll (Mrot l x t z)) y (m01 J) /\ is_derive_mod2pi (fun t => rep_pitch (Mrot l x t z)) y (m11 J) /\
   is_derive_mod2pi (fun t => rep_yaw (Mrot l x t z)) y (m21 J)) /\
  (is_derive_mod2pi (fun t => rep_roll (Mrot l x y t)) z (m02 J) /\ is_derive_mod2pi (fun t => rep_pitch (Mrot l x y t)) z (m12 J) /\
   is_derive_mod2pi (fun t => rep_yaw (Mrot l x y t)) z (m22 J)).
Proof. exact pose_J_angular_is_jacobian_mod2pi. Qed.   (* used by C12_pose_jacobian: same assumptions *)

(* --- the covariance sentence in one statement: J is that Jacobian, the attached covariance is J*C*J^T entry by entry,
       and it is symmetric / positive semi-definite whenever C is --- *)
Theorem C12_pose_covariance : forall l t q (c : mat R),
  proper_rotation l -> Rabs (m20 (Mrot l (q 3%nat) (q 4%nat) (q 5%nat))) < 1 ->
  let J := pose_J ROps l (mkV3 (q 3%nat) (q 4%nat) (q 5%nat)) in
  let C' := pose_cov ROps J c in
  (forall i j, (i < 6)%nat -> (j < 6)%nat -> is_derive_mod2pi (fun s => pose_map l t (upd q j s) i) (q j) (J i j)) /\
  (forall a b, C' a b = nsum ROps 6 (fun m => nsum ROps 6 (fun k => J a k * c k m) * J b m)) /\
  (gsym 6 c -> gsym 6 C') /\ (gpsd 6 c -> gpsd 6 C').
Proof. exact pose_cov_propagation. Qed.
Print Assumptions C12_pose_covariance.

Theorem C12_pose_jacobian_blocks : forall l ori (t p : vec3 R),
  (forall i j, (i < 3)%nat -> (j < 3)%nat -> pose_J ROps l ori i j = mget3 l i j) /\
  (forall i j, (i < 3)%nat -> (j < 3)%nat -> pose_J ROps l ori i (3 + j)%nat = 0 /\ pose_J ROps l ori (3 + i)%nat j = 0) /\
  (forall i j, (i < 3)%nat -> (j < 3)%nat -> pose_J ROps l ori (3 + i)%nat (3 + j)%nat = mget3 (pose_J_angular ROps l ori) i j) /\
  (forall i j, is_derive (fun s => vget3 (vadd3 ROps (mvmul3 ROps l
      (match j with 0%nat => mkV3 s (v1 p) (v2 p) | 1%nat => mkV3 (v0 p) s (v2 p) | _ => mkV3 (v0 p) (v1 p) s end)) t) i)
    (vget3 p j) (mget3 l i j)).
Proof.
  intros l ori t p. split; [|split; [|split]].
  - intros i j Hi Hj. destruct (lt3_cases i Hi) as [E|[E|E]]; subst i; destruct (lt3_cases j Hj) as [E|[E|E]]; subst j; reflexivity.
  - intros i j Hi Hj. destruct (lt3_cases i Hi) as [E|[E|E]]; subst i; destruct (lt3_cases j Hj) as [E|[E|E]]; subst j; split; reflexivity.
  - intros i j Hi Hj. destruct (lt3_cases i Hi) as [E|[E|E]]; subst i; destruct (lt3_cases j Hj) as [E|[E|E]]; subst j; reflexivity.
  - exact (pose_J_position l t p).
Qed.
Print Assumptions C12_pose_jacobian_blocks.

(* --- the attached covariance J*C*J^T stays symmetric positive semi-definite, for any J (any size) --- *)
Theorem C12_pose_cov_sym_psd : forall (j c : mat R),
  (gsym 6 c -> gsym 6 (pose_cov ROps j c)) /\ (gpsd 6 c -> gpsd 6 (pose_cov ROps j c)) /\
  (forall x, quad 6 (pose_cov ROps j c) x = quad 6 c (jt_apply 6 j x)).
Proof.
  intros j c. split; [exact (congruence_sym 6 j c)|split; [exact (congruence_psd 6 j c)|exact (congruence_quad 6 j c)]].
Qed.
Print Assumptions C12_pose_cov_sym_psd.

(* --- least squares: for a diagonal preconditioner A the reported matrix Ac^T * inv * Ac * variance is
       variance * A * inv * A^T, entry (i,j) = variance * A_ii * inv_ij * A_jj; inv = inverseJtJ_ is the oracle argument
       (contract inv * J^T J = I, checked at run time on the model side, by rational arithmetic on the implementation side) --- *)
Theorem C12_ls_covariance : forall n (a inv : mat R) v i j, gdiagonal n a -> (i < n)%nat -> (j < n)%nat ->
  ls_covariance ROps n a inv v i j = v * (a i i * inv i j * a j j) /\
  ls_covariance ROps n a inv v i j = gscale ROps (gmul ROps n (gmul ROps n a inv) (gtrans a)) v i j.
Proof. exact ls_covariance_diag. Qed.
Print Assumptions C12_ls_covariance.

(* --- ... and with the contract of that oracle argument stated (ls_inv_contract n inv N: inv * N = I on indices < n, N = J^T J
       built by ls_JtJ from the m x n design matrix), the reported matrix with the preconditioner removed on both sides is
       variance times the inverse normal matrix:  A^-1 * cov * A^-1 * (J^T J) = variance * I  (a_ii <> 0).
       The contract determines inv whenever J^T J is invertible (C12_ls_inverse_unique). --- *)
Theorem C12_ls_covariance_inverse_normal : forall m n (jac a inv : mat R) v,
  gdiagonal n a -> (forall i, (i < n)%nat -> a i i <> 0) ->
  ls_inv_contract n inv (ls_JtJ ROps m n jac) ->
  forall i k, (i < n)%nat -> (k < n)%nat ->
    nsum ROps n (fun j => ls_covariance ROps n a inv v i j / (a i i * a j j) * ls_JtJ ROps m n jac j k) =
    if Nat.eqb i k then v else 0.
Proof. exact ls_covariance_inverse_normal. Qed.
Print Assumptions C12_ls_covariance_inverse_normal.

Theorem C12_ls_inverse_unique : forall n (inv1 inv2 nm rinv : mat R),
  ls_inv_contract n inv1 nm -> ls_inv_contract n inv2 nm ->
  (forall i k, (i < n)%nat -> (k < n)%nat -> nsum ROps n (fun r => nm i r * rinv r k) = if Nat.eqb i k then 1 else 0) ->
  forall i k, (i < n)%nat -> (k < n)%nat -> inv1 i k = inv2 i k.
Proof. exact ls_inv_contract_unique. Qed.

(* --- non-vacuity --- *)
Example C12_ex_ls_contract :   (* one unknown, J = (2), J^T J = 4, inv = 1/4, preconditioner 3 *)
  ls_inv_contract 1 (fun _ _ => / 4) (ls_JtJ ROps 1 1 (fun _ _ => 2)) /\
  gdiagonal 1 (fun _ _ => 3) /\ (forall i, (i < 1)%nat -> (fun _ _ : nat => 3) i i <> 0).
Proof. exact ex_ls_contract. Qed.
Example C12_ex_jacobian_hyp :   (* identity transform, zero angles *)
  0 < m22 (Mrot (mid3 ROps) 0 0 0) /\ 0 < m00 (Mrot (mid3 ROps) 0 0 0) /\ Rabs (m20 (Mrot (mid3 ROps) 0 0 0)) < 1.
Proof.
  unfold Mrot. rewrite mmul3_id_l, rot_zyx_entries. cbn [m00 m20 m22]. rewrite sin_0, cos_0, Ropp_0, Rabs_R0. lra.
Qed.
Example C12_ex_second_quadrant :   (* identity transform, roll = yaw = 2pi/3: off the cut, outside the old chart *)
  let m := Mrot (mid3 ROps) (2 * (PI / 3)) 0 (2 * (PI / 3)) in
  off_cut (m21 m) (m22 m) /\ off_cut (m10 m) (m00 m) /\ Rabs (m20 m) < 1 /\ m22 m < 0 /\ m00 m < 0.
Proof. exact ex_second_quadrant. Qed.
Example C12_ex_on_cut :   (* roll = yaw = pi, pitch = pi/6: on the cut of atan2; the reported-angle theorems apply *)
  let m := Mrot (mid3 ROps) PI (PI / 6) PI in
  ~ off_cut (m21 m) (m22 m) /\ ~ off_cut (m10 m) (m00 m) /\
  off_zero (m21 m) (m22 m) /\ off_zero (m10 m) (m00 m) /\ Rabs (m20 m) < 1 /\ m20 m <> 0.
Proof. exact ex_on_cut. Qed.
Example C12_ex_rigid : proper_rotation (mid3 ROps).
Proof. exact proper_id. Qed.
Example C12_ex_diagonal : gdiagonal 2 (fun i j => if Nat.eqb i j then 3 else 0).
Proof. intros i j _ _ H. apply Nat.eqb_neq in H. rewrite H. reflexivity. Qed.

(* --- least squares, ANY configured preconditioner (after the repair 870e444: Ac * inv * Ac^T * variance) --- *)
From Romea Require Import LsCovGeneral.
(* the reported matrix is variance * A * inv * A^T — the covariance of x = A z + b when Cov(z) = variance * inv — for
   every matrix A, symmetric or not *)
Theorem C12_ls_covariance_general : forall n (a inv : mat R) v i j,
  ls_covariance ROps n a inv v i j = v * rsum n (fun q => rsum n (fun p => a i p * inv p q) * a j q) /\
  ls_covariance ROps n a inv v = gscale ROps (gmul ROps n (gmul ROps n a inv) (gtrans a)) v.
Proof. exact ls_covariance_general. Qed.
Print Assumptions C12_ls_covariance_general.

(* with the oracle contract inv * (J^T J) = I and any left inverse B of A, stripping the preconditioner leaves the data
   variance times the inverse normal matrix:  (B * cov * B^T) * (J^T J) = variance * I *)
Theorem C12_ls_covariance_inverse_normal_general : forall m n (jac a b inv : mat R) v,
  (forall i s, (i < n)%nat -> (s < n)%nat -> gmul ROps n b a i s = delta i s) ->
  ls_inv_contract n inv (ls_JtJ ROps m n jac) ->
  forall i k, (i < n)%nat -> (k < n)%nat ->
    gmul ROps n (gmul ROps n (gmul ROps n b (ls_covariance ROps n a inv v)) (gtrans b)) (ls_JtJ ROps m n jac) i k
    = if Nat.eqb i k then v else 0.
Proof. exact ls_covariance_inverse_normal_general. Qed.
Print Assumptions C12_ls_covariance_inverse_normal_general.

(* the code before the repair (Ac^T * inv * Ac) reports a different matrix for a non-symmetric preconditioner: the shear
   A = [[1,1],[0,1]] with inv = I and variance 1 gives entry (0,0) = 1 instead of 2 (replayed on the implementation:
   checks/C12.py, group "least-squares covariance", cases "lsg") *)
Theorem C12_ls_covariance_transposed_refuted :
  exists (a inv : mat R),
    ls_covariance_old ROps 2 a inv 1 0%nat 0%nat <> gscale ROps (gmul ROps 2 (gmul ROps 2 a inv) (gtrans a)) 1 0%nat 0%nat.
Proof. exact ls_covariance_old_refuted. Qed.
Print Assumptions C12_ls_covariance_transposed_refuted.

Example C12_ex_ls_general_contract :
  (forall i s, (i < 2)%nat -> (s < 2)%nat -> gmul ROps 2 ex_shear_inv ex_shear i s = delta i s) /\
  ls_inv_contract 2 (fun i j => delta i j) (ls_JtJ ROps 2 2 (fun i j => delta i j)) /\
  ex_shear 0%nat 1%nat <> ex_shear 1%nat 0%nat.
Proof. exact ex_ls_general_contract. Qed.

(* ================= SYNTACTIC SOURCE TIE of the matrix code (translate/eigensym.py, translate/tr_C12_eigensym.py) =================
   gen/SrcEigenC12.v is regenerated on every run from the clang AST of src/transform/SmartRotation3D.cpp and
   src/geometry/Pose3D.cpp by a symbolic evaluator for small fixed-size Eigen expressions: the statements are executed over
   matrices of scalar terms (element writes on the Identity / Zero initial values of the constructor, products, comma
   initialisers with column / row blocks, cross products, the unrolled loop over k, block assignment, transpose).  The
   theorems below say that those terms are the models every other theorem of this file is about (real instance). *)
From Romea Require Import SrcTieC12 SrcTieC12Jac.
From Romea.gen Require Import SrcFunsC10 SrcEigenC12.
From Coq Require Import List String.
Import ListNotations.

(* --- SmartRotation3D(x,y,z) = default constructor ; init(x,y,z): all ten members, in declaration order, starting from the
       constructor's Identity / Zero; the four the accessors return are exactly smart_init, the model C12_dRdX_model_char
       characterises as "true derivative + identity leftover" (the open known finding) --- *)
Theorem C12_source_tie_smart_rotation : forall x y z,
  (src_smart_ctor_inputs = ["arg0"; "arg1"; "arg2"]%string /\
   src_smart_ctor_outputs = ["Rx_"; "Ry_"; "Rz_"; "R_"; "dRxdAngleX_"; "dRydAngleY_"; "dRzdAngleZ_";
                             "dRdAngleX_"; "dRdAngleY_"; "dRdAngleZ_"]%string) /\
  src_smart_ctor ROps x y z =
  (Rx_of ROps (cos x) (sin x), Ry_of ROps (cos y) (sin y), Rz_of ROps (cos z) (sin z), sR (smart_init ROps x y z),
   dRx_of ROps (cos x) (sin x), dRy_of ROps (cos y) (sin y), dRz_of ROps (cos z) (sin z),
   sdX (smart_init ROps x y z), sdY (smart_init ROps x y z), sdZ (smart_init ROps x y z)) /\
  mkSmart (src_smart_ctor_R ROps x y z) (src_smart_ctor_dRdAngleX ROps x y z)
          (src_smart_ctor_dRdAngleY ROps x y z) (src_smart_ctor_dRdAngleZ ROps x y z) = smart_init ROps x y z.
Proof. exact source_tie_smart_rotation. Qed.
Print Assumptions C12_source_tie_smart_rotation.

(* SmartRotation3D::dRTdAngles(T) over arbitrary member matrices *)
Theorem C12_source_tie_smart_dRTdAngles : forall (dx dy dz : mat3 R) (t : vec3 R),
  src_smart_dRTdAngles_inputs = ["this.dRdAngleX_"; "this.dRdAngleY_"; "this.dRdAngleZ_"; "arg0"]%string /\
  src_smart_dRTdAngles ROps dx dy dz t = smart_dRTdAngles ROps (mkSmart (mid3 ROps) dx dy dz) t.
Proof. exact tie_smart_dRTdAngles. Qed.

(* --- Pose3D operator*(const Eigen::Affine3d &, const Pose3D &): l = affine.rotation(), t = affine.translation(),
       c / ori / pos = the members of the pose.  The only 6x6 local of the function (J) equals pose_J entry by entry (all 36),
       the returned position is l*pos + t, the matrix handed to rotation3DToEulerAngles is l*S with S = SmartRotation3D(ori).R()
       (through the delegating constructor, down to src_smart_ctor), the returned orientation is the C10 unit's term
       src_rotation3DToEulerAngles applied to it, and the returned covariance is J*C*J^T — with the model's J and with the
       generated J.  pose_J is the matrix C12_pose_jacobian / C12_pose_covariance prove to be the Jacobian. --- *)
Theorem C12_source_tie_pose_jacobian : forall (l : mat3 R) (t : vec3 R) (c : nat -> nat -> R) (ori pos : vec3 R),
  (src_pose3d_mul_inputs = ["arg0.rotation()"; "arg0.translation()"; "arg1.covariance"; "arg1.orientation"; "arg1.position"]%string /\
   src_pose3d_mul_outputs = ["position"; "orientation"; "covariance"; "jacobian"; "euler_arg"]%string) /\
  (forall i j, (i < 6)%nat -> (j < 6)%nat -> src_pose3d_mul_jacobian ROps l t c ori pos i j = pose_J ROps l ori i j) /\
  src_pose3d_mul_position ROps l t c ori pos = vadd3 ROps (mvmul3 ROps l pos) t /\
  src_pose3d_mul_euler_arg ROps l t c ori pos = mmul3 ROps l (sR (smart_init ROps (v0 ori) (v1 ori) (v2 ori))) /\
  src_pose3d_mul_orientation ROps l t c ori pos =
    (let m := src_pose3d_mul_euler_arg ROps l t c ori pos in
     let '(r, p, y) := src_rotation3DToEulerAngles ROps (m00 m) (m10 m) (m20 m) (m21 m) (m22 m) in mkV3 r p y) /\
  (forall i j, (i < 6)%nat -> (j < 6)%nat ->
     src_pose3d_mul_covariance ROps l t c ori pos i j = pose_cov ROps (pose_J ROps l ori) c i j) /\
  (forall i j, (i < 6)%nat -> (j < 6)%nat ->
     src_pose3d_mul_covariance ROps l t c ori pos i j = pose_cov ROps (src_pose3d_mul_jacobian ROps l t c ori pos) c i j).
Proof. exact source_tie_pose_jacobian. Qed.
Print Assumptions C12_source_tie_pose_jacobian.

(* the mean the model computes (pose_transform_mean, what the correspondence run executes) is the generated position /
   orientation wherever asin is defined *)
Theorem C12_source_tie_pose_mean : forall (l : mat3 R) (t : vec3 R) (c : nat -> nat -> R) (ori pos : vec3 R),
  Rabs (m20 (mmul3 ROps l (sR (smart_init ROps (v0 ori) (v1 ori) (v2 ori))))) <= 1 ->
  pose_transform_mean ROps ROps idR idR l t pos ori =
  (src_pose3d_mul_position ROps l t c ori pos, Some (src_pose3d_mul_orientation ROps l t c ori pos)).
Proof. exact tie_pose_mean. Qed.

(* --- composed with C12_pose_jacobian: the 6x6 matrix GENERATED FROM THE SOURCE is, entry by entry, the Jacobian of the mean
       map generated from the source (src_pose_map = position and orientation terms), for every rigid transform and every
       pose off gimbal lock --- *)
Theorem C12_source_pose_jacobian_is_derivative : forall l t (c : nat -> nat -> R) q,
  proper_rotation l -> Rabs (m20 (Mrot l (q 3%nat) (q 4%nat) (q 5%nat))) < 1 ->
  let pos := mkV3 (q 0%nat) (q 1%nat) (q 2%nat) in
  let ori := mkV3 (q 3%nat) (q 4%nat) (q 5%nat) in
  forall i j, (i < 6)%nat -> (j < 6)%nat ->
    is_derive_mod2pi (fun s => pose_map l t (upd q j s) i) (q j) (src_pose3d_mul_jacobian ROps l t c ori pos i j) /\
    src_pose_map l t c q i = pose_map l t q i.
Proof. exact source_pose_jacobian_is_derivative. Qed.
Print Assumptions C12_source_pose_jacobian_is_derivative.

(* --- the open known finding stated about the GENERATED terms: what dRdAngleAroundX/Y/ZAxis() return (members dRdAngleX_/Y_/Z_
       after the constructor and init) is the true derivative of R plus the identity leftover of C12_extra_terms, never the
       derivative itself; R() is Rz*Ry*Rx --- *)
Theorem C12_source_smart_derivative_leftover : forall x y z,
  (src_smart_ctor_dRdAngleX ROps x y z = madd3 ROps (dRdX_true x y z) (extraX x y z) /\
   src_smart_ctor_dRdAngleY ROps x y z = madd3 ROps (dRdY_true x y z) (extraY x y z) /\
   src_smart_ctor_dRdAngleZ ROps x y z = madd3 ROps (dRdZ_true x y z) (extraZ x y z)) /\
  (src_smart_ctor_dRdAngleX ROps x y z <> dRdX_true x y z /\
   src_smart_ctor_dRdAngleY ROps x y z <> dRdY_true x y z /\
   src_smart_ctor_dRdAngleZ ROps x y z <> dRdZ_true x y z) /\
  src_smart_ctor_R ROps x y z = rot_zyx x y z.
Proof. exact source_smart_derivative_leftover. Qed.
Print Assumptions C12_source_smart_derivative_leftover.
(* ---- appended by stream S07: SYNTACTIC SOURCE TIE of LeastSquares<RealType>::computeEstimateCovariance (SrcTieLs.v / SrcTieC12Ls.v).
   The member function regenerated on every run from the clang AST of src/regression/leastsquares/LeastSquares.cpp
   (gen/SrcLs.v, translate/tr_C07_ls.py) leaves the object unchanged and returns the estimateSize_ x estimateSize_ matrix whose entries
   are [ls_covariance] of the Ac_ and inverseJtJ_ members — the function C12_ls_covariance / C12_ls_covariance_* above are about — for
   EVERY numeric dictionary.  [src_dims]: the shapes the class keeps (Ac_ square of size estimateSize_, inverseJtJ_ with as many columns). *)
From Romea Require SrcEigenDyn SrcEigenDynFacts SrcTieLs SrcTieC12Ls.
From Romea.gen Require SrcLs.
Theorem C12_source_tie_ls_covariance :
  forall (T : Type) (N : NumOps T) (var : T) (s : SrcLs.src_ls (T:=T)), SrcTieLs.src_dims s ->
  fst (SrcLs.src_computeEstimateCovariance N var s) = s /\
  SrcEigenDynFacts.dm_shape (SrcLs.estimateSize_ s) (SrcLs.estimateSize_ s) (snd (SrcLs.src_computeEstimateCovariance N var s)) /\
  forall i j, (i < SrcLs.estimateSize_ s)%nat -> (j < SrcLs.estimateSize_ s)%nat ->
    SrcEigenDyn.dm_get N (snd (SrcLs.src_computeEstimateCovariance N var s)) i j =
    ls_covariance N (SrcLs.estimateSize_ s) (LinAlgBModel.mget N (SrcEigenDyn.dm_rows (SrcLs.Ac_ s)))
                  (LinAlgBModel.mget N (SrcEigenDyn.dm_rows (SrcLs.inverseJtJ_ s))) var i j.
Proof. exact (fun T N => SrcTieC12Ls.tie_covariance_entries N). Qed.
Print Assumptions C12_source_tie_ls_covariance.
