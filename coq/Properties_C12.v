(* Properties_C12.v — C12: analytic derivatives and propagated covariances match the maps they describe.
   Statements only; real-number instance of AnglesModel.v / PoseCovModel.v.
   rot_zyx x y z = Rz(z)*Ry(y)*Rx(x) = SmartRotation3D::R (C10);  dRd?_true = Rz*Ry*dRx, Rz*dRy*Rx, dRz*Ry*Rx with the
   elementary derivative matrices (no identity entry);  sdX/sdY/sdZ (smart_init ...) = the model of the members
   dRdAngleX_/Y_/Z_ exactly as the code fills them;  extraX = Rz*Ry*E00, extraY = Rz*E11*Rx, extraZ = E22*Ry*Rx. *)
From Coq Require Import Reals ZArith Lra Bool.
From Coquelicot Require Import Coquelicot.
From Romea Require Import Num NumR AnglesModel AnglesProofs AnglesRoundtrip PoseCovModel PoseCovProofs DerivProofs PoseJacProofs PoseJacDeriv.
Local Open Scope R_scope.

(* --- the true derivatives of the reported rotation matrix, entry by entry, in each angle --- *)
Theorem C12_dR_true : forall x y z i j,
  is_derive (fun t => mget3 (sR (smart_init ROps t y z)) i j) x (mget3 (dRdX_true x y z) i j) /\
  is_derive (fun t => mget3 (sR (smart_init ROps x t z)) i j) y (mget3 (dRdY_true x y z) i j) /\
  is_derive (fun t => mget3 (sR (smart_init ROps x y t)) i j) z (mget3 (dRdZ_true x y z) i j).
Proof. intros. split; [exact (dR_true_x x y z i j)|split; [exact (dR_true_y x y z i j)|exact (dR_true_z x y z i j)]]. Qed.
Print Assumptions C12_dR_true.

(* --- and the derivative of a rotated vector is that matrix times the vector --- *)
Theorem C12_dRT_true : forall x y z (t : vec3 R) i,
  is_derive (fun a => vget3 (mvmul3 ROps (sR (smart_init ROps a y z)) t) i) x (vget3 (mvmul3 ROps (dRdX_true x y z) t) i) /\
  is_derive (fun a => vget3 (mvmul3 ROps (sR (smart_init ROps x a z)) t) i) y (vget3 (mvmul3 ROps (dRdY_true x y z) t) i) /\
  is_derive (fun a => vget3 (mvmul3 ROps (sR (smart_init ROps x y a)) t) i) z (vget3 (mvmul3 ROps (dRdZ_true x y z) t) i).
Proof. intros. split; [exact (dRT_true_x x y z t i)|split; [exact (dRT_true_y x y z t i)|exact (dRT_true_z x y z t i)]]. Qed.
Print Assumptions C12_dRT_true.

(* --- what the code's derivative members are instead: the true derivative plus the identity entry left behind
       (OPEN KNOWN FINDING c12-smartrotation-dRdAngle-identity-leftover; pinned by test_smart_rotation.cpp) --- *)
Theorem C12_dRdX_model_char : forall x y z,
  sdX (smart_init ROps x y z) = madd3 ROps (dRdX_true x y z) (extraX x y z) /\
  sdY (smart_init ROps x y z) = madd3 ROps (dRdY_true x y z) (extraY x y z) /\
  sdZ (smart_init ROps x y z) = madd3 ROps (dRdZ_true x y z) (extraZ x y z).
Proof. exact dRdX_model_char. Qed.
Print Assumptions C12_dRdX_model_char.

Theorem C12_extra_terms : forall x y z,
  extraX x y z = mmul3 ROps (mmul3 ROps (RZ z) (RY y)) E00 /\
  extraY x y z = mmul3 ROps (mmul3 ROps (RZ z) E11) (RX x) /\
  extraZ x y z = mmul3 ROps (mmul3 ROps E22 (RY y)) (RX x) /\
  extraX x y z = mkM3 (cos z * cos y) 0 0  (sin z * cos y) 0 0  (- sin y) 0 0 /\
  extraY x y z = mkM3 0 (- sin z * cos x) (sin z * sin x)  0 (cos z * cos x) (- (cos z * sin x))  0 0 0 /\
  extraZ x y z = mkM3 0 0 0  0 0 0  (- sin y) (cos y * sin x) (cos y * cos x).
Proof. intros. split; [reflexivity|split; [reflexivity|split; [reflexivity|exact (extra_entries x y z)]]]. Qed.

(* the statement "the reported matrices are the derivatives" is false of the faithful model, at every angle triple *)
Theorem C12_dRdX_refuted : exists x y z, sdX (smart_init ROps x y z) <> dRdX_true x y z.
Proof. exists 0, 0, 0. exact (proj1 (dRdX_never_derivative 0 0 0)). Qed.
Theorem C12_dRdX_never_derivative : forall x y z,
  sdX (smart_init ROps x y z) <> dRdX_true x y z /\
  sdY (smart_init ROps x y z) <> dRdY_true x y z /\
  sdZ (smart_init ROps x y z) <> dRdZ_true x y z.
Proof. exact dRdX_never_derivative. Qed.
Print Assumptions C12_dRdX_never_derivative.

(* --- dRTdAngles: columns (true + leftover) * T  (OPEN KNOWN FINDING c12-smartrotation-dRTdAngles-identity-leftover) --- *)
Theorem C12_dRT_model_char : forall x y z (t : vec3 R),
  smart_dRTdAngles ROps (smart_init ROps x y z) t =
  mcols3 (vadd3 ROps (mvmul3 ROps (dRdX_true x y z) t) (mvmul3 ROps (extraX x y z) t))
         (vadd3 ROps (mvmul3 ROps (dRdY_true x y z) t) (mvmul3 ROps (extraY x y z) t))
         (vadd3 ROps (mvmul3 ROps (dRdZ_true x y z) t) (mvmul3 ROps (extraZ x y z) t)).
Proof. exact dRT_model_char. Qed.
Print Assumptions C12_dRT_model_char.

(* --- pose covariance: the ORIGINAL Jacobian (commit 2218971) at the identity transform and a zero-angle pose is
       diag(1,1,1,1,-1,1), so the identity transform flips the sign of the (roll,pitch) covariance
       (fixed: d8f9844; the witness is replayed on the implementation by checks/C12.py) --- *)
Theorem C12_pose_cov_identity_refuted :
  pose_J_v0 ROps (mid3 ROps) (mkV3 0 0 0) 4%nat 4%nat <> 1 /\
  gsym 6 Cwit /\ gpsd 6 Cwit /\
  pose_cov ROps (pose_J_v0 ROps (mid3 ROps) (mkV3 0 0 0)) Cwit 3%nat 4%nat = - / 2 /\ Cwit 3%nat 4%nat = / 2.
Proof.
  destruct pose_cov_identity_refuted as [A [B C]]. destruct Cwit_sym_psd as [S P].
  split; [exact A|split; [exact S|split; [exact P|split; [exact B|exact C]]]].
Qed.
Print Assumptions C12_pose_cov_identity_refuted.

(* --- repaired code: the derivative matrices built at the call site are the true derivatives of S = Rz*Ry*Rx --- *)
Theorem C12_pose_dS_true : forall x y z,
  dSdX_of ROps (sR (smart_init ROps x y z)) = dRdX_true x y z /\
  dSdY_of ROps (sR (smart_init ROps x y z)) z = dRdY_true x y z /\
  dSdZ_of ROps (sR (smart_init ROps x y z)) = dRdZ_true x y z.
Proof. exact dSd_of_true. Qed.
Print Assumptions C12_pose_dS_true.

(* --- repaired code: J is the Jacobian of the library's own pose map (position' = l*p + t, angles' = angles of l*Rz*Ry*Rx).
       Position block = l (full).  Angular block = derivatives of the extracted angles (raw_roll = atan2(M21,M22),
       raw_pitch = -asin(M20), raw_yaw = atan2(M10,M00), i.e. before between0And2Pi, which is piecewise a constant shift)
       in roll, pitch, yaw.  PARTIAL: proved where M22 > 0 and M00 > 0 (transformed roll and yaw inside (-pi/2,pi/2), where
       atan2 = atan(y/x)); what is missing is the same statement on the other atan2 charts (the formula is chart
       independent; the oracle covers all quadrants numerically). --- *)
Theorem C12_pose_jacobian_angular_partial : forall l x y z,
  0 < m22 (Mrot l x y z) -> 0 < m00 (Mrot l x y z) -> Rabs (m20 (Mrot l x y z)) < 1 ->
  let J := pose_J_angular ROps l (mkV3 x y z) in
  (is_derive (fun t => raw_roll (Mrot l t y z)) x (m00 J) /\ is_derive (fun t => raw_pitch (Mrot l t y z)) x (m10 J) /\
   is_derive (fun t => raw_yaw (Mrot l t y z)) x (m20 J)) /\
  (is_derive (fun t => raw_roll (Mrot l x t z)) y (m01 J) /\ is_derive (fun t => raw_pitch (Mrot l x t z)) y (m11 J) /\
   is_derive (fun t => raw_yaw (Mrot l x t z)) y (m21 J)) /\
  (is_derive (fun t => raw_roll (Mrot l x y t)) z (m02 J) /\ is_derive (fun t => raw_pitch (Mrot l x y t)) z (m12 J) /\
   is_derive (fun t => raw_yaw (Mrot l x y t)) z (m22 J)).
Proof. exact pose_J_angular_is_jacobian. Qed.
Print Assumptions C12_pose_jacobian_angular_partial.

Theorem C12_pose_jacobian_blocks : forall l ori (t p : vec3 R),
  (forall i j, (i < 3)%nat -> (j < 3)%nat -> pose_J ROps l ori i j = mget3 l i j) /\
  (forall i j, (i < 3)%nat -> (j < 3)%nat -> pose_J ROps l ori i (3 + j)%nat = 0 /\ pose_J ROps l ori (3 + i)%nat j = 0) /\
  (forall i j, (i < 3)%nat -> (j < 3)%nat -> pose_J ROps l ori (3 + i)%nat (3 + j)%nat = mget3 (pose_J_angular ROps l ori) i j) /\
  (forall i j, is_derive (fun s => vget3 (vadd3 ROps (mvmul3 ROps l
      (match j with 0%nat => mkV3 s (v1 p) (v2 p) | 1%nat => mkV3 (v0 p) s (v2 p) | _ => mkV3 (v0 p) (v1 p) s end)) t) i)
    (vget3 p j) (mget3 l i j)).
Proof.
  intros l ori t p. split; [|split; [|split]].
  - intros i j Hi Hj. destruct (lt3_cases i Hi) as [E|[E|E]]; subst i; destruct (lt3_cases j Hj) as [E|[E|E]]; subst j; reflexivity.
  - intros i j Hi Hj. destruct (lt3_cases i Hi) as [E|[E|E]]; subst i; destruct (lt3_cases j Hj) as [E|[E|E]]; subst j; split; reflexivity.
  - intros i j Hi Hj. destruct (lt3_cases i Hi) as [E|[E|E]]; subst i; destruct (lt3_cases j Hj) as [E|[E|E]]; subst j; reflexivity.
  - exact (pose_J_position l t p).
Qed.
Print Assumptions C12_pose_jacobian_blocks.

(* --- the attached covariance J*C*J^T stays symmetric positive semi-definite, for any J (any size) --- *)
Theorem C12_pose_cov_sym_psd : forall (j c : mat R),
  (gsym 6 c -> gsym 6 (pose_cov ROps j c)) /\ (gpsd 6 c -> gpsd 6 (pose_cov ROps j c)) /\
  (forall x, quad 6 (pose_cov ROps j c) x = quad 6 c (jt_apply 6 j x)).
Proof.
  intros j c. split; [exact (congruence_sym 6 j c)|split; [exact (congruence_psd 6 j c)|exact (congruence_quad 6 j c)]].
Qed.
Print Assumptions C12_pose_cov_sym_psd.

(* --- least squares: for a diagonal preconditioner A the reported matrix Ac^T * inv * Ac * variance is
       variance * A * inv * A^T, entry (i,j) = variance * A_ii * inv_ij * A_jj; inv = inverseJtJ_ is the oracle argument
       (contract inv * J^T J = I, checked at run time on the model side, by rational arithmetic on the implementation side) --- *)
Theorem C12_ls_covariance : forall n (a inv : mat R) v i j, gdiagonal n a -> (i < n)%nat -> (j < n)%nat ->
  ls_covariance ROps n a inv v i j = v * (a i i * inv i j * a j j) /\
  ls_covariance ROps n a inv v i j = gscale ROps (gmul ROps n (gmul ROps n a inv) (gtrans a)) v i j.
Proof. exact ls_covariance_diag. Qed.
Print Assumptions C12_ls_covariance.

(* --- non-vacuity --- *)
Example C12_ex_jacobian_hyp :   (* identity transform, zero angles: inside the chart *)
  0 < m22 (Mrot (mid3 ROps) 0 0 0) /\ 0 < m00 (Mrot (mid3 ROps) 0 0 0) /\ Rabs (m20 (Mrot (mid3 ROps) 0 0 0)) < 1.
Proof.
  unfold Mrot. rewrite mmul3_id_l, rot_zyx_entries. cbn [m00 m20 m22]. rewrite sin_0, cos_0, Ropp_0, Rabs_R0. lra.
Qed.
Example C12_ex_diagonal : gdiagonal 2 (fun i j => if Nat.eqb i j then 3 else 0).
Proof. intros i j _ _ H. apply Nat.eqb_neq in H. rewrite H. reflexivity. Qed.
