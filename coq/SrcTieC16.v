(* SrcTieC16.v — the member functions of OnlineAverage, OnlineVariance and RingOfEigenVector as regenerated from the clang
   AST of the current source (gen/SrcStats.v, translate/tr_C16_stats.py) are, step for step, the transitions of
   OnlineStatsModel.v — the model the theorems C16_* are about.

   The generated transformers work on records of the C++ data members with the integer types' wrap-around explicit
   (StatsSem.v); the model works on nat / unbounded Z.  The tie is a simulation:
     avg_rel / var_rel  relate a generated record to a model state (index_, windowSize_, data_, the sums, and the cached
                        average_ / variance_ members = what the model computes from the state);
     ring_abs           maps a generated ring record to a model ring state;
   each member function preserves the relation (lemmas tie_...), provided the integer results fit their C++ types; the history
   lemmas (avg_run_tie, var_run_tie, ring_run_tie) discharge those side conditions from the property's bounds
   (W <= 64, |truncated sample| <= 1e8, multiplier in the int range) for EVERY history of update/reset (append/clear),
   so the theorems about every history apply to the code as written.
   Everything holds for any numeric dictionary N with nofZ N 1 = n_one N (the reals, binary64, ...): only the literal `1`
   of `1 / averagePrecision` is written differently in the source and in the model. *)
From Coq Require Import ZArith List Bool Arith Lia.
From Romea Require Import Num OnlineStatsModel OnlineStatsProofs StatsSem.
From Romea.gen Require Import SrcStats.
Import ListNotations.
Local Open Scope Z_scope.

(* ------------------------------------------------------------------ integer types *)
Lemma wrapU64_id z : in_u64 z -> wrapU64 z = z.
Proof. unfold in_u64, wrapU64. intros H. apply Z.mod_small. exact H. Qed.
Lemma wrapS64_id z : in_s64 z -> wrapS64 z = z.
Proof. unfold in_s64, wrapS64. intros H. rewrite Z.mod_small by lia. lia. Qed.
Lemma wrapS32_id z : in_s32 z -> wrapS32 z = z.
Proof. unfold in_s32, wrapS32. intros H. rewrite Z.mod_small by lia. lia. Qed.
Lemma two64_val : two64 = 18446744073709551616. Proof. reflexivity. Qed.

(* remove every wrap whose argument provably fits the type (innermost first: an outer wrap becomes provable later) *)
Ltac fits := unfold in_u64, in_s64, in_s32 in *; rewrite ?two64_val in *; lia.
Ltac unwrap :=
  repeat match goal with
         | |- context [wrapU64 ?e] => rewrite (wrapU64_id e) by fits
         | |- context [wrapS64 ?e] => rewrite (wrapS64_id e) by fits
         | |- context [wrapS32 ?e] => rewrite (wrapS32_id e) by fits
         end.

Lemma vec_getZ_nat l i : vec_getZ l (Z.of_nat i) = nth i l 0.
Proof. unfold vec_getZ. rewrite Nat2Z.id. reflexivity. Qed.
Lemma vec_set_nat {A} (l : list A) i x : vec_set l (Z.of_nat i) x = replace_nth i x l.
Proof. unfold vec_set. rewrite Nat2Z.id. reflexivity. Qed.

Lemma mod_nat a i W : a = Z.of_nat i -> a mod Z.of_nat W = Z.of_nat (i mod W).
Proof. intros ->. symmetry. apply Nat2Z.inj_mod. Qed.

Lemma ring_write_nonempty {A} W (l : list A) p x : (0 < W)%nat -> ring_write W l p x <> [].
Proof.
  intros HW E. unfold ring_write in E. destruct (Nat.eqb_spec (length l) W) as [e|e].
  - apply (f_equal (@length A)) in E. rewrite replace_nth_length in E. cbn in E. lia.
  - destruct l; discriminate.
Qed.

Lemma ring_write_length {A} W (l : list A) p x :
  length (ring_write W l p x) = if Nat.eqb (length l) W then length l else S (length l).
Proof.
  unfold ring_write. destruct (Nat.eqb (length l) W).
  - apply replace_nth_length.
  - rewrite app_length. cbn. lia.
Qed.

(* equality of two terms that agree up to linear integer arithmetic inside the same float / list operations *)
Ltac zeq := match goal with |- @eq Z _ _ => lia | |- @eq nat _ _ => lia end.
Ltac deep := first [ reflexivity | zeq | (progress f_equal; deep) ].
(* the same, also up to commuting the operands of a floating-point product (Hc : forall a b, nmul N a b = nmul N b a) *)
Ltac deepc Hc :=
  first [ reflexivity | zeq | (progress f_equal; deepc Hc)
        | match goal with |- nmul ?N ?a ?b = nmul ?N _ _ => rewrite (Hc a b); f_equal; deepc Hc end ].

(* the two ways the source may write the "window not yet full" test, against the model's Nat.eqb *)
Ltac split_full :=
  match goal with
  | |- context [Z.eqb (Z.of_nat ?a) (Z.of_nat ?b)] =>
      let e := fresh "Efull" in
      destruct (Z.eqb_spec (Z.of_nat a) (Z.of_nat b)) as [e|e];
      [ apply Nat2Z.inj in e; try rewrite (proj2 (Nat.eqb_eq a b) e) in *
      | assert (a <> b) as e' by (intros e'; apply e; f_equal; exact e');
        try rewrite (proj2 (Nat.eqb_neq a b) e') in * ]
  end.

(* ================================================================== OnlineAverage *)
Section Stats.
Context {T : Type} (N : NumOps T).
Hypothesis Hone : nofZ N 1 = n_one N.
(* a floating-point product does not depend on the order of its operands (true of the reals and of IEEE arithmetic): a
   source that writes `data_.size() * double(multiplier_)` denotes the same state transformer *)
Hypothesis Hcomm : forall a b : T, nmul N a b = nmul N b a.

Definition avg_rel (c : @avg_state T) (m : ostate) : Prop :=
  avg_index_ c = Z.of_nat (o_index m) /\ avg_windowSize_ c = Z.of_nat (o_W m) /\
  avg_data_ c = o_data m /\ avg_sumOfData_ c = o_sum m /\
  avg_average_ c = o_average N (avg_multiplier_ c) m.

(* OnlineAverage(averagePrecision, windowSize): the model's initial state and multiplier *)
Lemma tie_avg_ctor2 prec W :
  avg_rel (src_avg_ctor2 N prec (Z.of_nat W)) (o_init W) /\
  avg_multiplier_ (src_avg_ctor2 N prec (Z.of_nat W)) = o_multiplier N prec.
Proof.
  unfold src_avg_ctor2, avg_rel, o_init, o_multiplier, o_average. cbv zeta.
  cbn [avg_index_ avg_windowSize_ avg_data_ avg_sumOfData_ avg_average_ avg_multiplier_ o_index o_W o_data o_sum].
  rewrite Hone. repeat split.
Qed.

(* OnlineAverage(averagePrecision) delegates with window 0; setWindowSize(W) then gives what the two-argument
   constructor builds (the two public ways to configure an object, both used by the harness) *)
Lemma tie_avg_ctor1 prec : src_avg_ctor1 N prec = src_avg_ctor2 N prec 0.
Proof. reflexivity. Qed.
Lemma tie_avg_setWindowSize_ctor1 prec W : src_avg_setWindowSize (src_avg_ctor1 N prec) W = src_avg_ctor2 N prec W.
Proof. reflexivity. Qed.

Definition o_setW (m : ostate) (W : nat) : ostate :=
  {| o_index := o_index m; o_W := W; o_data := o_data m; o_sum := o_sum m; o_sq := o_sq m; o_sumsq := o_sumsq m |}.

(* setWindowSize on any object: only the window size changes *)
Lemma tie_avg_setWindowSize c m W : avg_rel c m ->
  avg_rel (src_avg_setWindowSize c (Z.of_nat W)) (o_setW m W) /\
  avg_multiplier_ (src_avg_setWindowSize c (Z.of_nat W)) = avg_multiplier_ c.
Proof.
  intros (Hi & HW & Hd & Hs & Ha). unfold src_avg_setWindowSize, avg_rel, o_setW.
  cbn [avg_index_ avg_windowSize_ avg_data_ avg_sumOfData_ avg_average_ avg_multiplier_ o_index o_W o_data o_sum].
  repeat split; assumption.
Qed.

(* reset() *)
Lemma tie_avg_reset c m : avg_rel c m ->
  avg_rel (src_avg_reset c) (o_reset m) /\ avg_multiplier_ (src_avg_reset c) = avg_multiplier_ c.
Proof.
  intros (Hi & HW & Hd & Hs & Ha). unfold src_avg_reset, avg_rel, o_reset, o_average.
  cbn [avg_index_ avg_windowSize_ avg_data_ avg_sumOfData_ avg_average_ avg_multiplier_ o_index o_W o_data o_sum].
  repeat split; assumption.
Qed.

(* isAvailable(), getAverage() *)
Lemma tie_avg_isAvailable c m : avg_rel c m -> src_avg_isAvailable c = o_available m.
Proof.
  intros (Hi & HW & Hd & Hs & Ha). unfold src_avg_isAvailable, o_available, vec_size. rewrite HW, Hd.
  destruct (Nat.eqb_spec (length (o_data m)) (o_W m)) as [e|e].
  - rewrite e. apply Z.eqb_refl.
  - apply Z.eqb_neq. lia.
Qed.
Lemma tie_avg_getAverage c m : avg_rel c m -> src_avg_getAverage c = o_average N (avg_multiplier_ c) m.
Proof. intros (Hi & HW & Hd & Hs & Ha). exact Ha. Qed.

(* update(value): the model's update with the truncated sample, provided the size_t index and the long long sums
   stay inside their types *)
Lemma tie_avg_update c m v : avg_rel c m ->
  let x := o_trunc N (avg_multiplier_ c) v in
  (0 < o_W m)%nat -> Z.of_nat (o_W m) < two64 -> (o_index m < o_W m)%nat ->
  in_s64 (o_sum m + x) -> in_s64 (o_sum (o_update m x)) ->
  avg_rel (src_avg_update N c v) (o_update m x) /\ avg_multiplier_ (src_avg_update N c v) = avg_multiplier_ c.
Proof using Hcomm.
  intros (Hi & HW & Hd & Hs & Ha) x HWpos HW64 Hidx Hs1 Hs2.
  assert (Hne : o_data (o_update m x) <> []) by (cbn [o_update o_data]; apply ring_write_nonempty; exact HWpos).
  split; [|reflexivity].
  revert Hs1 Hs2 Hne. subst x.
  unfold src_avg_update, avg_rel, o_update, o_average, o_trunc. cbv zeta.
  cbn [avg_index_ avg_windowSize_ avg_data_ avg_sumOfData_ avg_average_ avg_multiplier_ o_index o_W o_data o_sum].
  set (x := ntruncZ N _).
  rewrite Hi, HW, Hd, Hs. unfold vec_size, vec_push. rewrite ?vec_getZ_nat, ?vec_set_nat.
  unfold ring_write. intros Hs1 Hs2 Hne.
  split_full; cbn [negb] in *; unwrap;
    (split; [apply mod_nat; lia|]); (split; [reflexivity|]); (split; [reflexivity|]); (split; [lia|]);
    match goal with |- context [match ?l with [] => None | _ => _ end] => destruct l eqn:El; [congruence|] end;
    rewrite <- ?El; deepc Hcomm.
Qed.

(* ================================================================== OnlineVariance *)
Definition var_rel (c : @var_state T) (m : ostate) : Prop :=
  var_index_ c = Z.of_nat (o_index m) /\ var_windowSize_ c = Z.of_nat (o_W m) /\
  var_data_ c = o_data m /\ var_sumOfData_ c = o_sum m /\
  var_squaredData_ c = o_sq m /\ var_sumOfSquaredData_ c = o_sumsq m /\
  var_windowSizeMinusOne_ c = wrapU64 (Z.of_nat (o_W m) - 1) /\
  var_squaredMultiplier_ c = var_multiplier_ c * var_multiplier_ c /\
  var_average_ c = o_average N (var_multiplier_ c) m /\
  var_variance_ c = o_variance N (var_multiplier_ c) m.

Ltac var_fields :=
  cbn [var_index_ var_windowSize_ var_data_ var_sumOfData_ var_average_ var_multiplier_ var_windowSizeMinusOne_
       var_squaredMultiplier_ var_squaredData_ var_sumOfSquaredData_ var_variance_
       o_index o_W o_data o_sum o_sq o_sumsq].

Lemma sq_fits_s64 z : in_s32 z -> in_s64 (z * z).
Proof. unfold in_s32, in_s64. intros H. nia. Qed.

(* OnlineVariance(averagePrecision, windowSize): the squared scale factor is computed in long long; it is the exact
   square as soon as multiplier_ is an int (the defect repaired by c424f0a: an int product does not fit) *)
Lemma tie_var_ctor2 prec W : in_s32 (o_multiplier N prec) ->
  var_rel (src_var_ctor2 N prec (Z.of_nat W)) (o_init W) /\
  var_multiplier_ (src_var_ctor2 N prec (Z.of_nat W)) = o_multiplier N prec.
Proof.
  intros Hm. pose proof (sq_fits_s64 _ Hm) as Hmm. revert Hm Hmm.
  unfold src_var_ctor2, var_rel, o_init, o_multiplier, o_variance, o_average. cbv zeta. var_fields.
  rewrite Hone. intros Hm Hmm. unwrap. repeat split.
Qed.

Lemma tie_var_ctor1 prec : src_var_ctor1 N prec = src_var_ctor2 N prec 0.
Proof. reflexivity. Qed.
Lemma tie_var_setWindowSize_ctor1 prec W : src_var_setWindowSize (src_var_ctor1 N prec) W = src_var_ctor2 N prec W.
Proof. reflexivity. Qed.

(* setWindowSize before any sample (the only use the property's configurations make of it): window size and
   windowSizeMinusOne_ change together *)
Lemma tie_var_setWindowSize c m W : var_rel c m -> o_data m = [] ->
  var_rel (src_var_setWindowSize c (Z.of_nat W)) (o_setW m W) /\
  var_multiplier_ (src_var_setWindowSize c (Z.of_nat W)) = var_multiplier_ c.
Proof.
  intros (Hi & HW & Hd & Hs & Hq & Hsq & Hw1 & Hm2 & Ha & Hv) He.
  revert Ha Hv. unfold src_var_setWindowSize, var_rel, o_setW, o_variance, o_average. cbv zeta. var_fields.
  rewrite He. intros Ha Hv. repeat split; try assumption. rewrite Hd. exact He.
Qed.

Lemma tie_var_reset c m : var_rel c m ->
  var_rel (src_var_reset c) (o_reset m) /\ var_multiplier_ (src_var_reset c) = var_multiplier_ c.
Proof.
  intros (Hi & HW & Hd & Hs & Hq & Hsq & Hw1 & Hm2 & Ha & Hv).
  unfold src_var_reset, var_rel, o_reset, o_variance, o_average. var_fields.
  repeat split; assumption.
Qed.

Lemma tie_var_isAvailable c m : var_rel c m -> src_var_isAvailable c = o_available m.
Proof.
  intros (Hi & HW & Hd & _). unfold src_var_isAvailable, o_available, vec_size. rewrite HW, Hd.
  destruct (Nat.eqb_spec (length (o_data m)) (o_W m)) as [e|e].
  - rewrite e. apply Z.eqb_refl.
  - apply Z.eqb_neq. lia.
Qed.
Lemma tie_var_getAverage c m : var_rel c m -> src_var_getAverage c = o_average N (var_multiplier_ c) m.
Proof. intros (Hi & HW & Hd & Hs & Hq & Hsq & Hw1 & Hm2 & Ha & Hv). exact Ha. Qed.
Lemma tie_var_getVariance c m : var_rel c m -> src_var_getVariance c = o_variance N (var_multiplier_ c) m.
Proof. intros (Hi & HW & Hd & Hs & Hq & Hsq & Hw1 & Hm2 & Ha & Hv). exact Hv. Qed.

Lemma tie_var_update c m v : var_rel c m ->
  let x := o_trunc N (var_multiplier_ c) v in
  (0 < o_W m)%nat -> Z.of_nat (o_W m) < two64 -> (o_index m < o_W m)%nat -> length (o_sq m) = length (o_data m) ->
  in_s64 (x * x) -> in_s64 (o_sum m + x) -> in_s64 (o_sumsq m + x * x) ->
  in_s64 (o_sum (o_update m x)) -> in_s64 (o_sumsq (o_update m x)) ->
  var_rel (src_var_update N c v) (o_update m x) /\ var_multiplier_ (src_var_update N c v) = var_multiplier_ c.
Proof using Hcomm.
  intros (Hi & HW & Hd & Hs & Hq & Hsq & Hw1 & Hm2 & Ha & Hv) x HWpos HW64 Hidx Hlen Hxx Hs1 Hq1 Hs2 Hq2.
  assert (Hne : o_data (o_update m x) <> []) by (cbn [o_update o_data]; apply ring_write_nonempty; exact HWpos).
  split; [|reflexivity].
  revert Hxx Hs1 Hq1 Hs2 Hq2 Hne. subst x.
  unfold src_var_update, var_rel, o_update, o_variance, o_average, o_trunc. cbv zeta. var_fields.
  set (x := ntruncZ N _).
  rewrite Hi, HW, Hd, Hs, Hq, Hsq, Hw1, Hm2. unfold vec_size, vec_push. rewrite ?vec_getZ_nat, ?vec_set_nat.
  unfold ring_write. rewrite Hlen. intros Hxx Hs1 Hq1 Hs2 Hq2 Hne.
  split_full; cbn [negb] in *; unwrap;
    (split; [apply mod_nat; lia|]); (split; [reflexivity|]); (split; [reflexivity|]); (split; [lia|]);
    (split; [reflexivity|]); (split; [lia|]); (split; [reflexivity|]); (split; [reflexivity|]);
    match goal with |- context [match ?l with [] => None | _ => _ end] => destruct l eqn:El; [congruence|] end;
    rewrite <- ?El; split; deepc Hcomm.
Qed.
End Stats.

(* ================================================================== RingOfEigenVector *)
Section Ring.
Context {A : Type}.

Definition ring_abs (c : @ring_state A) : rstate A :=
  {| r_cap := Z.to_nat (ring_ringSize_ c); r_index := ring_ringIndex_ c; r_ring := ring_ring_ c |}.

Lemma tie_ring_ctor cap : ring_abs (src_ring_ctor (Z.of_nat cap)) = r_init cap.
Proof. unfold ring_abs, src_ring_ctor, r_init. cbn [ring_ringSize_ ring_ringIndex_ ring_ring_]. rewrite Nat2Z.id. reflexivity. Qed.

Lemma tie_ring_clear c : ring_abs (src_ring_clear c) = r_clear (ring_abs c).
Proof. reflexivity. Qed.

Lemma tie_ring_size c : src_ring_size c = Z.of_nat (r_size (ring_abs c)).
Proof. reflexivity. Qed.

(* append: ringIndex_ = (ringIndex_ + 1) % ringSize_ in size_t arithmetic, then overwrite or push_back *)
Lemma tie_ring_append c x : 0 <= ring_ringSize_ c ->
  ring_abs (src_ring_append c x) = r_append (ring_abs c) x /\ ring_ringSize_ (src_ring_append c x) = ring_ringSize_ c.
Proof.
  intros H0. split; [|reflexivity].
  unfold ring_abs, src_ring_append, r_append. cbv zeta.
  cbn [ring_ringSize_ ring_ringIndex_ ring_ring_ r_cap r_index r_ring].
  unfold vec_size, vec_push, vec_set, wrapU64. rewrite Z2Nat.id by exact H0. rewrite <- two64_val.
  f_equal; try deep.
  destruct (Nat.eqb_spec (length (ring_ring_ c)) (Z.to_nat (ring_ringSize_ c))) as [e|e].
  - rewrite (proj2 (Z.eqb_eq _ _)) by lia. cbn [negb]. deep.
  - rewrite (proj2 (Z.eqb_neq _ _)) by lia. cbn [negb]. deep.
Qed.

(* operator[](n): ring_[(ringIndex_ + ring_.size() - n) % ring_.size()] with both wraps of the size_t arithmetic *)
Lemma tie_ring_get c n : src_ring_get c (Z.of_nat n) = r_get (ring_abs c) n.
Proof.
  unfold src_ring_get, r_get, ring_abs. cbn [r_ring r_index].
  unfold vec_get, vec_size, wrapU64. rewrite <- two64_val.
  destruct (ring_ring_ c) as [|a l] eqn:E; [destruct (Z.to_nat _); reflexivity|].
  deep.
Qed.

Definition src_ring_step (c : @ring_state A) (o : rop A) : ring_state :=
  match o with RAppend x => src_ring_append c x | RClear => src_ring_clear c end.

(* every history of append / clear: the generated code and the model stay in step *)
Lemma ring_run_tie h : forall c, 0 <= ring_ringSize_ c ->
  ring_abs (fold_left src_ring_step h c) = fold_left r_step h (ring_abs c).
Proof.
  induction h as [|o h IH]; intros c H0; [reflexivity|].
  cbn [fold_left]. destruct o as [x|].
  - destruct (tie_ring_append c x H0) as [E1 E2]. cbn [src_ring_step r_step]. rewrite <- E1. apply IH. rewrite E2. exact H0.
  - cbn [src_ring_step r_step]. rewrite <- tie_ring_clear. apply IH. exact H0.
Qed.

(* the property's ring statement, about the code as written *)
Lemma ring_code_kth cap (h : list (rop A)) k : (0 < cap)%nat -> 2 * Z.of_nat cap <= two64 ->
  let c := fold_left src_ring_step h (src_ring_ctor (Z.of_nat cap)) in
  let xs := since_clear h [] in
  src_ring_size c = Z.of_nat (Nat.min cap (length xs)) /\
  (Z.of_nat k < src_ring_size c -> src_ring_get c (Z.of_nat k) = nth_error (rev xs) k).
Proof.
  intros Hc H2 c xs.
  assert (E : ring_abs c = fold_left r_step h (r_init cap)).
  { unfold c. rewrite ring_run_tie by (cbn; lia). rewrite tie_ring_ctor. reflexivity. }
  destruct (ring_kth cap h k Hc H2) as [S1 S2]. fold xs in S1, S2. rewrite <- E in S1, S2.
  rewrite tie_ring_size, tie_ring_get. split; [rewrite S1; reflexivity|].
  intros Hk. apply S2. lia.
Qed.
End Ring.

(* ================================================================== every history of update / reset *)
Lemma Forall_replace_nth {A} (P : A -> Prop) p x l : P x -> Forall P l -> Forall P (replace_nth p x l).
Proof.
  intros Hx. revert p. induction l as [|a l IH]; intros p H; destruct p; cbn; try constructor; inversion H; subst; auto.
Qed.

Lemma Forall_ring_write {A} (P : A -> Prop) W p x l : P x -> Forall P l -> Forall P (ring_write W l p x).
Proof.
  intros Hx Hl. unfold ring_write. destruct (Nat.eqb _ _).
  - apply Forall_replace_nth; assumption.
  - apply Forall_app. split; [assumption|]. constructor; [assumption|constructor].
Qed.

Lemma zsum_bound_nonneg l B : Forall (fun q => 0 <= q <= B) l -> 0 <= zsum l <= Z.of_nat (length l) * B.
Proof.
  induction 1 as [|x l Hx Hl IH]; cbn [zsum length]; [lia|]. rewrite Nat2Z.inj_succ. lia.
Qed.

(* the property's bounds on the stored data: |truncated sample| <= 1e8 *)
Definition o_bnd (m : ostate) : Prop :=
  Forall (fun x => Z.abs x <= 100000000) (o_data m) /\ Forall (fun q => 0 <= q <= 10000000000000000) (o_sq m).

Lemma o_bnd_init W : o_bnd (o_init W).
Proof. split; constructor. Qed.
Lemma o_bnd_reset m : o_bnd (o_reset m).
Proof. split; constructor. Qed.
Lemma o_bnd_update m x : Z.abs x <= 100000000 -> o_bnd m -> o_bnd (o_update m x).
Proof.
  intros Hx [H1 H2]. split; cbn [o_update o_data o_sq]; apply Forall_ring_write; try assumption. nia.
Qed.

Lemma inv_sums_fit W m xs : (0 < W)%nat -> (W <= 64)%nat -> o_inv W m xs -> o_bnd m ->
  Z.abs (o_sum m) <= 6400000000 /\ 0 <= o_sumsq m <= 640000000000000000 /\
  (o_index m < W)%nat /\ o_W m = W /\ length (o_sq m) = length (o_data m).
Proof.
  intros HW0 HW (HWs & Rd & Rq & Wd & Wq & Sd & Sq) [B1 B2].
  pose proof (zsum_bound _ 100000000 ltac:(lia) B1) as S1.
  pose proof (zsum_bound_nonneg _ _ B2) as S2.
  assert (Hlen : length (o_sq m) = length (o_data m)).
  { pose proof (f_equal (@length Z) Wd) as L1. pose proof (f_equal (@length Z) Wq) as L2.
    rewrite map_length in L2. unfold o_window, o_window_sq in L1, L2. rewrite HWs in L1, L2.
    rewrite (ring_logical_length W HW0) in L1 by exact Rd.
    rewrite (ring_logical_length W HW0) in L2 by exact Rq. lia. }
  destruct Rd as (R1 & R2 & R3).
  rewrite Sd, Sq.
  split; [nia|]. split; [nia|]. split.
  - destruct (Nat.eq_dec (length (o_data m)) W) as [e|e]; [apply R3; exact e|]. rewrite R2 by lia. lia.
  - split; [exact HWs|exact Hlen].
Qed.

Section History.
Context {T : Type} (N : NumOps T).
Hypothesis Hone : nofZ N 1 = n_one N.
Hypothesis Hcomm : forall a b : T, nmul N a b = nmul N b a.

Definition src_avg_step (c : @avg_state T) (o : oop T) : avg_state :=
  match o with OUpdate v => src_avg_update N c v | OReset => src_avg_reset c end.
Definition src_var_step (c : @var_state T) (o : oop T) : var_state :=
  match o with OUpdate v => src_var_update N c v | OReset => src_var_reset c end.

(* the integer history the float history denotes: every sample truncated as the code does *)
Definition trunc_op (mult : Z) (o : oop T) : iop :=
  match o with OUpdate v => IUpdate (o_trunc N mult v) | OReset => IReset end.

(* |value| / precision <= 1e8, read on the truncated sample *)
Definition ops_bounded (mult : Z) (ops : list (oop T)) : Prop :=
  Forall (fun o => match o with OUpdate v => Z.abs (o_trunc N mult v) <= 100000000 | OReset => True end) ops.

Lemma fold_o_step mult ops : forall s, fold_left (o_step N mult) ops s = fold_left i_step (map (trunc_op mult) ops) s.
Proof. induction ops as [|o ops IH]; intros s; [reflexivity|]. cbn [fold_left map]. rewrite IH. destruct o; reflexivity. Qed.

Lemma avg_run_tie W ops : (0 < W)%nat -> (W <= 64)%nat -> forall c m xs,
  avg_rel N c m -> o_inv W m xs -> o_bnd m -> ops_bounded (avg_multiplier_ c) ops ->
  avg_rel N (fold_left src_avg_step ops c) (fold_left (o_step N (avg_multiplier_ c)) ops m) /\
  avg_multiplier_ (fold_left src_avg_step ops c) = avg_multiplier_ c.
Proof.
  intros HW0 HW. induction ops as [|o ops IH]; intros c m xs Hrel Hinv Hb Hops; [split; [exact Hrel|reflexivity]|].
  inversion Hops as [|o' ops' Ho Hops']; subst. cbn [fold_left].
  destruct o as [v|].
  - cbn [src_avg_step o_step].
    set (x := o_trunc N (avg_multiplier_ c) v) in *.
    pose proof (o_inv_update W m xs x HW0 Hinv) as Hinv'.
    pose proof (o_bnd_update m x Ho Hb) as Hb'.
    destruct (inv_sums_fit W m xs HW0 HW Hinv Hb) as (S1 & S2 & Hidx & HWs & _).
    destruct (inv_sums_fit W _ _ HW0 HW Hinv' Hb') as (S1' & _).
    destruct (tie_avg_update N Hcomm c m v Hrel) as [Hrel' Hm'].
    { rewrite HWs. exact HW0. } { rewrite HWs, two64_val. lia. } { rewrite HWs. exact Hidx. }
    { fold x. unfold in_s64. lia. } { fold x. unfold in_s64. lia. }
    fold x in Hrel'. specialize (IH _ _ _ Hrel' Hinv' Hb'). rewrite Hm' in IH. apply IH. exact Hops'.
  - cbn [src_avg_step o_step].
    destruct (tie_avg_reset N c m Hrel) as [Hrel' Hm'].
    specialize (IH _ _ _ Hrel' (o_inv_reset W m xs HW0 Hinv) (o_bnd_reset m)). rewrite Hm' in IH. apply IH. exact Hops'.
Qed.

Lemma var_run_tie W ops : (0 < W)%nat -> (W <= 64)%nat -> forall c m xs,
  var_rel N c m -> o_inv W m xs -> o_bnd m -> ops_bounded (var_multiplier_ c) ops ->
  var_rel N (fold_left src_var_step ops c) (fold_left (o_step N (var_multiplier_ c)) ops m) /\
  var_multiplier_ (fold_left src_var_step ops c) = var_multiplier_ c.
Proof.
  intros HW0 HW. induction ops as [|o ops IH]; intros c m xs Hrel Hinv Hb Hops; [split; [exact Hrel|reflexivity]|].
  inversion Hops as [|o' ops' Ho Hops']; subst. cbn [fold_left].
  destruct o as [v|].
  - cbn [src_var_step o_step].
    set (x := o_trunc N (var_multiplier_ c) v) in *.
    pose proof (o_inv_update W m xs x HW0 Hinv) as Hinv'.
    pose proof (o_bnd_update m x Ho Hb) as Hb'.
    destruct (inv_sums_fit W m xs HW0 HW Hinv Hb) as (S1 & S2 & Hidx & HWs & Hlen).
    destruct (inv_sums_fit W _ _ HW0 HW Hinv' Hb') as (S1' & S2' & _).
    assert (Hxx : 0 <= x * x <= 10000000000000000) by nia.
    destruct (tie_var_update N Hcomm c m v Hrel) as [Hrel' Hm'].
    { rewrite HWs. exact HW0. } { rewrite HWs, two64_val. lia. } { rewrite HWs. exact Hidx. } { exact Hlen. }
    { fold x. unfold in_s64. lia. } { fold x. unfold in_s64. lia. } { fold x. unfold in_s64. lia. }
    { fold x. unfold in_s64. lia. } { fold x. unfold in_s64. lia. }
    fold x in Hrel'. specialize (IH _ _ _ Hrel' Hinv' Hb'). rewrite Hm' in IH. apply IH. exact Hops'.
  - cbn [src_var_step o_step].
    destruct (tie_var_reset N c m Hrel) as [Hrel' Hm'].
    specialize (IH _ _ _ Hrel' (o_inv_reset W m xs HW0 Hinv) (o_bnd_reset m)). rewrite Hm' in IH. apply IH. exact Hops'.
Qed.

(* ---- the property's statements, about the generated code run on any history (any dictionary N with nofZ 1 = 1) ---- *)
Lemma avg_code_model prec W ops : (0 < W)%nat -> (W <= 64)%nat ->
  let mult := o_multiplier N prec in
  ops_bounded mult ops ->
  let c := fold_left src_avg_step ops (src_avg_ctor2 N prec (Z.of_nat W)) in
  let s := fold_left i_step (map (trunc_op mult) ops) (o_init W) in
  avg_rel N c s /\ avg_multiplier_ c = mult.
Proof.
  intros HW0 HW mult Hops c s.
  destruct (tie_avg_ctor2 N Hone prec W) as [R0 M0]. fold mult in M0.
  destruct (avg_run_tie W ops HW0 HW _ _ [] R0 (o_inv_init W HW0) (o_bnd_init W)) as [R M].
  { rewrite M0. exact Hops. }
  rewrite M0 in R, M. rewrite fold_o_step in R. split; [exact R|]. exact M.
Qed.

Lemma var_code_model prec W ops : (0 < W)%nat -> (W <= 64)%nat ->
  let mult := o_multiplier N prec in
  in_s32 mult -> ops_bounded mult ops ->
  let c := fold_left src_var_step ops (src_var_ctor2 N prec (Z.of_nat W)) in
  let s := fold_left i_step (map (trunc_op mult) ops) (o_init W) in
  var_rel N c s /\ var_multiplier_ c = mult.
Proof.
  intros HW0 HW mult Hm Hops c s.
  destruct (tie_var_ctor2 N Hone prec W Hm) as [R0 M0]. fold mult in M0.
  destruct (var_run_tie W ops HW0 HW _ _ [] R0 (o_inv_init W HW0) (o_bnd_init W)) as [R M].
  { rewrite M0. exact Hops. }
  rewrite M0 in R, M. rewrite fold_o_step in R. split; [exact R|]. exact M.
Qed.

(* window, sums, availability and the cached average of the OnlineAverage code after any history *)
Lemma avg_code_window prec W ops : (0 < W)%nat -> (W <= 64)%nat ->
  let mult := o_multiplier N prec in
  ops_bounded mult ops ->
  let c := fold_left src_avg_step ops (src_avg_ctor2 N prec (Z.of_nat W)) in
  let xs := since_reset (map (trunc_op mult) ops) [] in
  ring_logical W (avg_data_ c) (Z.to_nat (avg_index_ c)) = lastn W xs /\
  vec_size (avg_data_ c) = Z.of_nat (Nat.min W (length xs)) /\
  avg_sumOfData_ c = zsum (lastn W xs) /\
  (src_avg_isAvailable c = true <-> (W <= length xs)%nat) /\
  src_avg_getAverage c =
    match lastn W xs with
    | [] => None
    | _ => Some (ndiv N (nofZ N (zsum (lastn W xs))) (nmul N (nofZ N mult) (nofZ N (Z.of_nat (Nat.min W (length xs))))))
    end.
Proof.
  intros HW0 HW mult Hops c xs.
  destruct (avg_code_model prec W ops HW0 HW Hops) as [(Hi & HWs & Hd & Hs & Ha) Hm]. fold mult c in Hi, HWs, Hd, Hs, Ha, Hm.
  destruct (window_is_last_W W (map (trunc_op mult) ops) HW0) as (V1 & V2 & V3 & _ & V5). fold xs in V1, V2, V3, V5.
  set (s := fold_left i_step (map (trunc_op mult) ops) (o_init W)) in *.
  assert (HWm : o_W s = W) by (destruct (o_inv_run W HW0 (map (trunc_op mult) ops)) as [E _]; exact E).
  split; [rewrite Hi, Hd, Nat2Z.id; unfold o_window in V1; rewrite HWm in V1; exact V1|].
  split; [unfold vec_size; rewrite Hd, V2; reflexivity|].
  split; [rewrite Hs; exact V3|].
  split; [rewrite (tie_avg_isAvailable N c s); [exact V5|repeat split; assumption]|].
  unfold src_avg_getAverage. rewrite Ha, Hm. unfold o_average. rewrite V3, V2.
  pose proof (lastn_length W xs) as L.
  destruct (o_data s) as [|a l] eqn:E1; destruct (lastn W xs) as [|b l'] eqn:E2; cbn [length] in *; try reflexivity; lia.
Qed.

(* the same for OnlineVariance, with the squared data; getAverage / getVariance are what the model computes *)
Lemma var_code_window prec W ops : (0 < W)%nat -> (W <= 64)%nat ->
  let mult := o_multiplier N prec in
  in_s32 mult -> ops_bounded mult ops ->
  let c := fold_left src_var_step ops (src_var_ctor2 N prec (Z.of_nat W)) in
  let s := fold_left i_step (map (trunc_op mult) ops) (o_init W) in
  let xs := since_reset (map (trunc_op mult) ops) [] in
  ring_logical W (var_data_ c) (Z.to_nat (var_index_ c)) = lastn W xs /\
  ring_logical W (var_squaredData_ c) (Z.to_nat (var_index_ c)) = map (fun x => x * x) (lastn W xs) /\
  var_sumOfData_ c = zsum (lastn W xs) /\
  var_sumOfSquaredData_ c = zsum (map (fun x => x * x) (lastn W xs)) /\
  (src_var_isAvailable c = true <-> (W <= length xs)%nat) /\
  src_var_getAverage c = o_average N mult s /\ src_var_getVariance c = o_variance N mult s /\
  var_data_ c = o_data s.
Proof.
  intros HW0 HW mult Hmr Hops c s xs.
  destruct (var_code_model prec W ops HW0 HW Hmr Hops) as [Hrel Hm]. fold mult c s in Hrel, Hm.
  pose proof Hrel as (Hi & HWs & Hd & Hs & Hq & Hsq & Hw1 & Hm2 & Ha & Hv).
  destruct (window_is_last_W W (map (trunc_op mult) ops) HW0) as (V1 & V2 & V3 & V4 & V5). fold xs s in V1, V2, V3, V4, V5.
  destruct (o_inv_run W HW0 (map (trunc_op mult) ops)) as (HWm & _ & _ & _ & Wq & _). fold s xs in HWm, Wq.
  split; [rewrite Hi, Hd, Nat2Z.id; unfold o_window in V1; rewrite HWm in V1; exact V1|].
  split; [rewrite Hi, Hq, Nat2Z.id; unfold o_window_sq in Wq; rewrite HWm in Wq; exact Wq|].
  split; [rewrite Hs; exact V3|]. split; [rewrite Hsq; exact V4|].
  split; [rewrite (tie_var_isAvailable N c s Hrel); exact V5|].
  split; [rewrite (tie_var_getAverage N c s Hrel), Hm; reflexivity|].
  split; [rewrite (tie_var_getVariance N c s Hrel), Hm; reflexivity|exact Hd].
Qed.
(* the partial C++ operations are never used outside their domain: after any history windowSize_ = W > 0 (so `% windowSize_`
   is defined) and 0 <= index_ < W, and when the window is full index_ < data_.size() (so `data_[index_]` — read and
   written only in that case — is inside the vector); the default value / `x mod 0` conventions of StatsSem.v are never
   exercised *)
Lemma avg_code_defined prec W ops : (0 < W)%nat -> (W <= 64)%nat ->
  let mult := o_multiplier N prec in
  ops_bounded mult ops ->
  let c := fold_left src_avg_step ops (src_avg_ctor2 N prec (Z.of_nat W)) in
  avg_windowSize_ c = Z.of_nat W /\ 0 <= avg_index_ c < Z.of_nat W /\
  vec_size (avg_data_ c) <= Z.of_nat W /\
  (vec_size (avg_data_ c) = avg_windowSize_ c -> avg_index_ c < vec_size (avg_data_ c)).
Proof.
  intros HW0 HW mult Hops c.
  destruct (avg_code_model prec W ops HW0 HW Hops) as [(Hi & HWs & Hd & _) _]. fold mult c in Hi, HWs, Hd.
  destruct (o_inv_run W HW0 (map (trunc_op mult) ops)) as (HWm & (R1 & R2 & R3) & _).
  set (s := fold_left i_step (map (trunc_op mult) ops) (o_init W)) in *.
  unfold vec_size. rewrite Hi, HWs, Hd, HWm.
  assert (o_index s < W)%nat.
  { destruct (Nat.eq_dec (length (o_data s)) W) as [e|e]; [apply R3; exact e|]. rewrite R2 by lia. lia. }
  repeat split; lia.
Qed.

Lemma var_code_defined prec W ops : (0 < W)%nat -> (W <= 64)%nat ->
  let mult := o_multiplier N prec in
  in_s32 mult -> ops_bounded mult ops ->
  let c := fold_left src_var_step ops (src_var_ctor2 N prec (Z.of_nat W)) in
  var_windowSize_ c = Z.of_nat W /\ 0 <= var_index_ c < Z.of_nat W /\
  vec_size (var_squaredData_ c) = vec_size (var_data_ c) /\ vec_size (var_data_ c) <= Z.of_nat W /\
  (vec_size (var_data_ c) = var_windowSize_ c -> var_index_ c < vec_size (var_data_ c)).
Proof.
  intros HW0 HW mult Hm Hops c.
  destruct (var_code_model prec W ops HW0 HW Hm Hops) as [(Hi & HWs & Hd & _ & Hq & _) _]. fold mult c in Hi, HWs, Hd, Hq.
  pose proof (o_inv_run W HW0 (map (trunc_op mult) ops)) as Hinv.
  set (s := fold_left i_step (map (trunc_op mult) ops) (o_init W)) in *.
  destruct Hinv as (HWm & (R1 & R2 & R3) & Rq & Wd & Wq & _).
  assert (Hlen : length (o_sq s) = length (o_data s)).
  { pose proof (f_equal (@length Z) Wd) as L1. pose proof (f_equal (@length Z) Wq) as L2.
    rewrite map_length in L2. unfold o_window, o_window_sq in L1, L2. rewrite HWm in L1, L2.
    rewrite (ring_logical_length W HW0) in L1 by (repeat split; assumption).
    rewrite (ring_logical_length W HW0) in L2 by exact Rq. lia. }
  unfold vec_size. rewrite Hi, HWs, Hd, Hq, HWm, Hlen.
  assert (o_index s < W)%nat.
  { destruct (Nat.eq_dec (length (o_data s)) W) as [e|e]; [apply R3; exact e|]. rewrite R2 by lia. lia. }
  repeat split; lia.
Qed.
End History.

(* ================================================================== real-number reading, on the code *)
From Coq Require Import Reals Lra.
From Romea Require Import NumR.

Lemma ROps_one : nofZ ROps 1 = n_one ROps.
Proof. reflexivity. Qed.
Lemma ROps_comm : forall a b : R, nmul ROps a b = nmul ROps b a.
Proof. intros a b. apply Rmult_comm. Qed.

Lemma rsum_app a b : rsum (a ++ b) = (rsum a + rsum b)%R.
Proof. induction a as [|x a IH]; cbn [app rsum]; [ring|]. rewrite IH. ring. Qed.

Lemma rsum_map_logical (g : Z -> R) W l p : rsum (map g (ring_logical W l p)) = rsum (map g l).
Proof.
  unfold ring_logical. destruct (Nat.eqb _ _); [|reflexivity].
  rewrite map_app, rsum_app. rewrite <- (firstn_skipn p l) at 3. rewrite map_app, rsum_app. ring.
Qed.

Lemma logical_length {A} W (l : list A) p : (p <= length l)%nat -> length (ring_logical W l p) = length l.
Proof.
  intros Hp. unfold ring_logical. destruct (Nat.eqb _ _); [|reflexivity].
  rewrite app_length, skipn_length, firstn_length. lia.
Qed.

Local Open Scope R_scope.

(* OnlineAverage, over the reals: after any history the code's getAverage() is the mean of the last min(n,W) truncated
   samples since the last reset, each divided by the multiplier *)
Lemma avg_code_real prec W (ops : list (oop R)) : (0 < W)%nat -> (W <= 64)%nat ->
  let mult := o_multiplier ROps prec in
  (0 < mult)%Z -> ops_bounded ROps mult ops ->
  let c := fold_left (src_avg_step ROps) ops (src_avg_ctor2 ROps prec (Z.of_nat W)) in
  let L := lastn W (since_reset (map (trunc_op ROps mult) ops) []) in
  L <> [] ->
  src_avg_getAverage c = Some (rsum (map (fun z => IZR z / IZR mult) L) / INR (length L)).
Proof.
  intros HW0 HW mult Hm Hops c L HL.
  destruct (avg_code_window ROps ROps_one ROps_comm prec W ops HW0 HW Hops) as (_ & _ & _ & _ & G). fold mult c L in G.
  rewrite G. pose proof (lastn_length W (since_reset (map (trunc_op ROps mult) ops) [])) as Len. fold L in Len.
  destruct L as [|a l] eqn:EL; [congruence|]. rewrite <- EL in *. f_equal.
  cbn [ndiv nmul nofZ ROps]. rewrite <- Len. rewrite IZR_zsum, <- INR_IZR_INZ.
  replace (map (fun z => IZR z / IZR mult) L) with (map (fun x => x / IZR mult) (map IZR L)) by (rewrite map_map; reflexivity).
  rewrite rsum_scale.
  assert (IZR mult <> 0) by (apply not_0_IZR; lia).
  assert (INR (length L) <> 0) by (rewrite EL; cbn [length]; apply not_0_INR; lia).
  field. split; assumption.
Qed.

(* OnlineVariance, over the reals: once W >= 2 samples have arrived since the last reset the code's getVariance() is
   the unbiased sample variance of the last W truncated samples *)
Lemma var_code_real prec W (ops : list (oop R)) : (2 <= W)%nat -> (W <= 64)%nat ->
  let mult := o_multiplier ROps prec in
  (0 < mult)%Z -> in_s32 mult -> ops_bounded ROps mult ops ->
  let c := fold_left (src_var_step ROps) ops (src_var_ctor2 ROps prec (Z.of_nat W)) in
  let xs := since_reset (map (trunc_op ROps mult) ops) [] in
  (W <= length xs)%nat ->
  let ys := map (fun z => IZR z / IZR mult) (lastn W xs) in
  let mean := rsum ys / INR (length ys) in
  src_var_getVariance c = Some (rsum (map (fun y => (y - mean) * (y - mean)) ys) / (INR (length ys) - 1)).
Proof.
  intros HW2 HW mult Hm Hmr Hops c xs Hfull ys mean.
  assert (HW0 : (0 < W)%nat) by lia.
  destruct (var_code_window ROps ROps_one ROps_comm prec W ops HW0 HW Hmr Hops) as (_ & _ & _ & _ & _ & _ & Gv & _).
  fold mult c in Gv. rewrite Gv. clear Gv.
  set (s := fold_left i_step (map (trunc_op ROps mult) ops) (o_init W)).
  destruct (window_is_last_W W (map (trunc_op ROps mult) ops) HW0) as (V1 & V2 & V3 & V4 & V5). fold xs s in V1, V2, V3, V4, V5.
  destruct (o_inv_run W HW0 (map (trunc_op ROps mult) ops)) as (HWm & Rd & _ & _ & Wq & Sd & Sq). fold s xs in HWm, Rd, Wq, Sd, Sq.
  assert (Hlen : length (o_data s) = W) by (rewrite V2; lia).
  assert (Hidx : (o_index s <= length (o_data s))%nat) by (destruct Rd as (R1 & R2 & R3); specialize (R3 Hlen); lia).
  destruct (o_data s) as [|a l] eqn:Ed; [cbn in Hlen; lia|]. rewrite <- Ed in *.
  (* sum of squares of the stored data *)
  assert (Hq : o_sumsq s = zsum (map (fun z => (z * z)%Z) (o_data s))).
  { rewrite V4, <- V1. unfold o_window, ring_logical. destruct (Nat.eqb _ _); [|reflexivity].
    rewrite map_app, zsum_app. rewrite <- (firstn_skipn (o_index s) (o_data s)) at 3. rewrite map_app, zsum_app. lia. }
  rewrite (variance_formula mult s a l Hm Ed) by (try assumption; rewrite ?HWm; try lia).
  (* from the stored (rotated) list to the last-W list *)
  unfold mean, ys. rewrite <- V1. unfold o_window. rewrite HWm.
  set (h := fun z => IZR z / IZR mult).
  rewrite !map_length. rewrite (logical_length W (o_data s) (o_index s) Hidx).
  rewrite (rsum_map_logical h).
  set (mu := rsum (map h (o_data s)) / INR (length (o_data s))).
  rewrite !map_map. rewrite (rsum_map_logical (fun x => (h x - mu) * (h x - mu))). reflexivity.
Qed.

(* ================================================================== member-by-member summaries *)
Local Close Scope R_scope.
Lemma avg_members_tie : forall (T : Type) (N : NumOps T), nofZ N 1 = n_one N ->
  (forall prec W, avg_rel N (src_avg_ctor2 N prec (Z.of_nat W)) (o_init W) /\
                  avg_multiplier_ (src_avg_ctor2 N prec (Z.of_nat W)) = o_multiplier N prec) /\
  (forall prec W, src_avg_setWindowSize (src_avg_ctor1 N prec) W = src_avg_ctor2 N prec W) /\
  (forall c m, avg_rel N c m -> avg_rel N (src_avg_reset c) (o_reset m) /\ avg_multiplier_ (src_avg_reset c) = avg_multiplier_ c) /\
  (forall c m, avg_rel N c m -> src_avg_isAvailable c = o_available m) /\
  (forall c m, avg_rel N c m -> src_avg_getAverage c = o_average N (avg_multiplier_ c) m).
Proof.
  intros T N H1. split; [exact (tie_avg_ctor2 N H1)|]. split; [exact (tie_avg_setWindowSize_ctor1 N)|].
  split; [exact (tie_avg_reset N)|]. split; [exact (tie_avg_isAvailable N)|exact (tie_avg_getAverage N)].
Qed.

Lemma var_members_tie : forall (T : Type) (N : NumOps T), nofZ N 1 = n_one N ->
  (forall prec W, in_s32 (o_multiplier N prec) ->
                  var_rel N (src_var_ctor2 N prec (Z.of_nat W)) (o_init W) /\
                  var_multiplier_ (src_var_ctor2 N prec (Z.of_nat W)) = o_multiplier N prec) /\
  (forall prec W, src_var_setWindowSize (src_var_ctor1 N prec) W = src_var_ctor2 N prec W) /\
  (forall c m, var_rel N c m -> var_rel N (src_var_reset c) (o_reset m) /\ var_multiplier_ (src_var_reset c) = var_multiplier_ c) /\
  (forall c m, var_rel N c m -> src_var_isAvailable c = o_available m) /\
  (forall c m, var_rel N c m -> src_var_getAverage c = o_average N (var_multiplier_ c) m) /\
  (forall c m, var_rel N c m -> src_var_getVariance c = o_variance N (var_multiplier_ c) m).
Proof.
  intros T N H1. split; [exact (tie_var_ctor2 N H1)|]. split; [exact (tie_var_setWindowSize_ctor1 N)|].
  split; [exact (tie_var_reset N)|]. split; [exact (tie_var_isAvailable N)|].
  split; [exact (tie_var_getAverage N)|exact (tie_var_getVariance N)].
Qed.

Lemma ring_members_tie : forall (A : Type),
  (forall cap, ring_abs (A:=A) (src_ring_ctor (Z.of_nat cap)) = r_init cap) /\
  (forall (c : @ring_state A) x, (0 <= ring_ringSize_ c)%Z ->
     ring_abs (src_ring_append c x) = r_append (ring_abs c) x /\ ring_ringSize_ (src_ring_append c x) = ring_ringSize_ c) /\
  (forall (c : @ring_state A) n, src_ring_get c (Z.of_nat n) = r_get (ring_abs c) n) /\
  (forall (c : @ring_state A), ring_abs (src_ring_clear c) = r_clear (ring_abs c)) /\
  (forall (c : @ring_state A), src_ring_size c = Z.of_nat (r_size (ring_abs c))).
Proof.
  intros A. split; [exact tie_ring_ctor|]. split; [exact tie_ring_append|]. split; [exact tie_ring_get|].
  split; [exact tie_ring_clear|exact tie_ring_size].
Qed.

