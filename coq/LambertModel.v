(* LambertModel.v — executable model of src/geodesy/LambertConverter.cpp.
   Definitions only; proofs in LambertProofs.v.  Expressions keep the C++ association order.
   [toWGS84_old] is the inverse before the repair (log(rho/c) — undefined for c < 0), kept for the
   _refuted theorem; [toWGS84] is the repaired code (log(rho/|c|)). *)
From Coq Require Import ZArith List Bool.
From Romea Require Import Num GeodesyModel.
From Romea.gen Require Import RepoConstants.

Section Lambert.
Context {T : Type} (N : NumOps T).

Local Notation "x +! y" := (nadd N x y) (at level 50, left associativity).
Local Notation "x -! y" := (nsub N x y) (at level 50, left associativity).
Local Notation "x *! y" := (nmul N x y) (at level 40, left associativity).
Local Notation "x /! y" := (ndiv N x y) (at level 40, left associativity).
Local Notation "'I1'" := (n_one N).
Local Notation "'I2'" := (ntwo N).

Definition half_pi : T := npi N /! I2.                       (* M_PI_2 *)
Definition lambert_eps : T := nofDec N lambert_epsilon_m lambert_epsilon_e.
Definition pole_eps : T := nofDec N lambert_pole_test_m lambert_pole_test_e.

(* log(tan(M_PI/4 + lat/2) * pow((1 - e*sin(lat))/(1 + e*sin(lat)), e/2)) *)
Definition isometricLatitude (lat e : T) : T :=
  nln N (ntan N (npi N /! nofZ N 4 +! lat /! I2) *!
         npow N ((I1 -! e *! nsin N lat) /! (I1 +! e *! nsin N lat)) (e /! I2)).

(* one pass of the loop body of computeLatitude *)
Definition latitude_step (L e lat : T) : T :=
  let alpha := npow N ((I1 +! e *! nsin N lat) /! (I1 -! e *! nsin N lat)) (e /! I2) in
  I2 *! natan N (alpha *! nexp N L) -! half_pi.

(* for (;;) { prev = lat; lat = step(lat); if (abs(lat - prev) < EPSILON) break; } *)
Fixpoint latitude_iter (fuel : nat) (L e lat : T) {struct fuel} : option T :=
  match fuel with
  | O => None
  | S f => let l' := latitude_step L e lat in
           if nltb N (nabs N (l' -! lat)) lambert_eps then Some l' else latitude_iter f L e l'
  end.

Definition computeLatitude (fuel : nat) (L e : T) : option T :=
  latitude_iter fuel L e (I2 *! natan N (nexp N L) -! half_pi).

(* a / sqrt(1 - pow(e*sin(lat), 2)) *)
Definition grandeNormale (lat a e : T) : T :=
  a /! nsqrt N (I1 -! pow2 N (e *! nsin N lat)).

Record projection := mkProj { p_lon0 : T; p_n : T; p_c : T; p_xs : T; p_ys : T }.
Record secant_params := mkSec { sp_lon0 : T; sp_lat0 : T; sp_lat1 : T; sp_lat2 : T; sp_x0 : T; sp_y0 : T }.
Record tangent_params := mkTan { tp_lat0 : T; tp_lon0 : T; tp_k0 : T; tp_x0 : T; tp_y0 : T }.

Definition secant_projection (p : secant_params) (el : ellipsoid (T:=T)) : projection :=
  let N1 := grandeNormale (sp_lat1 p) (el_a el) (el_e el) in
  let N2 := grandeNormale (sp_lat2 p) (el_a el) (el_e el) in
  let isolat0 := isometricLatitude (sp_lat0 p) (el_e el) in
  let isolat1 := isometricLatitude (sp_lat1 p) (el_e el) in
  let isolat2 := isometricLatitude (sp_lat2 p) (el_e el) in
  let coslat1 := ncos N (sp_lat1 p) in
  let coslat2 := ncos N (sp_lat2 p) in
  let n := nln N ((N2 *! coslat2) /! (N1 *! coslat1)) /! (isolat1 -! isolat2) in
  let c := N1 *! coslat1 /! n *! nexp N (n *! isolat1) in
  let ys := if nltb N pole_eps (nabs N (sp_lat0 p -! half_pi))
            then sp_y0 p +! c *! nexp N (nneg N n *! isolat0) else sp_y0 p in
  mkProj (sp_lon0 p) n c (sp_x0 p) ys.

Definition tangent_projection (p : tangent_params) (el : ellipsoid (T:=T)) : projection :=
  let Nn := grandeNormale (tp_lat0 p) (el_a el) (el_e el) in
  let cotlat := ncos N (tp_lat0 p) /! nsin N (tp_lat0 p) in
  let isolat := isometricLatitude (tp_lat0 p) (el_e el) in
  let n := nsin N (tp_lat0 p) in
  let C := tp_k0 p *! Nn *! cotlat *! nexp N (n *! isolat) in
  let YS := tp_y0 p +! tp_k0 p *! Nn *! cotlat in
  mkProj (tp_lon0 p) n C (tp_x0 p) YS.

Record vec2 := mkV2 { v2x : T; v2y : T }.
Record wgs84 := mkWgs { w_lat : T; w_lon : T }.

(* radius of the parallel in the map: c * exp(-n * isolat) *)
Definition polar_radius (pr : projection) (e lat : T) : T :=
  p_c pr *! nexp N (nneg N (p_n pr) *! isometricLatitude lat e).

Definition toLambert (pr : projection) (e : T) (w : wgs84) : vec2 :=
  let isolat := isometricLatitude (w_lat w) e in
  mkV2 (p_xs pr +! p_c pr *! nexp N (nneg N (p_n pr) *! isolat) *! nsin N (p_n pr *! (w_lon w -! p_lon0 pr)))
       (p_ys pr -! p_c pr *! nexp N (nneg N (p_n pr) *! isolat) *! ncos N (p_n pr *! (w_lon w -! p_lon0 pr))).

Definition rho_of (pr : projection) (v : vec2) : T :=
  nsqrt N (pow2 N (v2x v -! p_xs pr) +! pow2 N (v2y v -! p_ys pr)).
Definition theta_of (pr : projection) (v : vec2) : T :=
  natan N ((v2x v -! p_xs pr) /! (p_ys pr -! v2y v)).

(* repaired: computeLatitude(-log(rho/abs(c))/n, e), longitude0 + theta/n *)
Definition toWGS84 (fuel : nat) (pr : projection) (e : T) (v : vec2) : option wgs84 :=
  match computeLatitude fuel (nneg N (nln N (rho_of pr v /! nabs N (p_c pr))) /! p_n pr) e with
  | None => None
  | Some lat => Some (mkWgs lat (p_lon0 pr +! theta_of pr v /! p_n pr))
  end.

(* before the repair: log(rho/c).  The logarithm of a non-positive number is NaN/-inf in C++ (and the
   loop then never meets its exit test); the model refuses such inputs instead of totalising. *)
Definition toWGS84_old (fuel : nat) (pr : projection) (e : T) (v : vec2) : option wgs84 :=
  if nltb N (nzero N) (rho_of pr v /! p_c pr) then
    match computeLatitude fuel (nneg N (nln N (rho_of pr v /! p_c pr)) /! p_n pr) e with
    | None => None
    | Some lat => Some (mkWgs lat (p_lon0 pr +! theta_of pr v /! p_n pr))
    end
  else None.

End Lambert.

Arguments mkProj {T} _ _ _ _ _. Arguments p_lon0 {T} _. Arguments p_n {T} _. Arguments p_c {T} _.
Arguments p_xs {T} _. Arguments p_ys {T} _.
Arguments mkSec {T} _ _ _ _ _ _. Arguments sp_lon0 {T} _. Arguments sp_lat0 {T} _. Arguments sp_lat1 {T} _.
Arguments sp_lat2 {T} _. Arguments sp_x0 {T} _. Arguments sp_y0 {T} _.
Arguments mkTan {T} _ _ _ _ _. Arguments tp_lat0 {T} _. Arguments tp_lon0 {T} _. Arguments tp_k0 {T} _.
Arguments tp_x0 {T} _. Arguments tp_y0 {T} _.
Arguments mkV2 {T} _ _. Arguments v2x {T} _. Arguments v2y {T} _.
Arguments mkWgs {T} _ _. Arguments w_lat {T} _. Arguments w_lon {T} _.
