(* PoseJacDeriv.v — C12: the angular block of the repaired Jacobian of operator*(Affine3d, Pose3D) is the
   derivative of the extracted angles of l*Rz*Ry*Rx with respect to roll, pitch, yaw (before normalisation to
   [0,2pi), which is piecewise a constant shift).  Proved on the half-space chart where atan2 = atan(y/x), i.e.
   transformed roll and yaw inside (-pi/2, pi/2): hence "_partial". *)
From Coq Require Import Reals ZArith Lra Lia Psatz.
From Coquelicot Require Import Coquelicot.
From Romea Require Import Num NumR AnglesModel AnglesProofs AnglesRoundtrip PoseCovModel PoseCovProofs DerivProofs PoseJacProofs.
From Romea Require Export PoseJacMrot PoseJacDx PoseJacDy PoseJacDz.
Local Open Scope R_scope.

Lemma is_derive_Ratan2_pos (u v : R -> R) t du dv :
  is_derive u t du -> is_derive v t dv -> 0 < v t ->
  is_derive (fun s => Ratan2 (u s) (v s)) t ((v t * du - u t * dv) / (u t * u t + v t * v t)).
Proof.
  intros Hu Hv Hpos.
  apply (is_derive_ext_loc (fun s => atan (u s / v s))).
  - assert (Hc : continuous v t).
    { apply (@ex_derive_continuous R_AbsRing R_NormedModule v t). exists dv. exact Hv. }
    pose proof (Hc (fun y : R => 0 < y) (open_gt 0 (v t) Hpos)) as Hl.
    unfold filtermap in Hl. revert Hl. apply filter_imp. intros s Hs. unfold Ratan2.
    destruct (Rlt_dec 0 (v s)) as [_|N]; [reflexivity|contradiction].
  - evar_last.
    + apply (is_derive_comp atan (fun s => u s / v s)).
      * apply is_derive_atan.
      * apply is_derive_div; [exact Hu|exact Hv|lra].
    + unfold scal, opp; simpl; unfold mult, opp; simpl. unfold Rsqr. field. split; [nra|lra].
Qed.

Lemma is_derive_neg_asin (w : R -> R) t dw :
  is_derive w t dw -> -1 < w t < 1 ->
  is_derive (fun s => - asin (w s)) t (- dw / sqrt (1 - w t * w t)).
Proof.
  intros Hw Hr.
  evar_last.
  - apply (is_derive_opp (fun s => asin (w s)) t). apply (is_derive_comp asin w).
    + apply is_derive_Reals. apply (derive_pt_eq_1 asin (w t) _ (derivable_pt_asin (w t) Hr)). apply derive_pt_asin.
    + exact Hw.
  - unfold scal, opp; simpl; unfold mult, opp; simpl. unfold Rsqr. field.
    assert (0 < 1 - w t * w t) by nra. pose proof (sqrt_lt_R0 _ H). lra.
Qed.

(* the angles rotation3DToEulerAngles extracts, before between0And2Pi *)
Definition raw_roll (m : mat3 R) : R := Ratan2 (m21 m) (m22 m).
Definition raw_pitch (m : mat3 R) : R := - asin (m20 m).
Definition raw_yaw (m : mat3 R) : R := Ratan2 (m10 m) (m00 m).

(* one column of the angular block, for an arbitrary direction of differentiation *)
Lemma J_column (f : R -> mat3 R) (d : mat3 R) t :
  (forall i j, is_derive (fun s => mget3 (f s) i j) t (mget3 d i j)) ->
  0 < m22 (f t) -> 0 < m00 (f t) -> Rabs (m20 (f t)) < 1 ->
  let r := f t in
  is_derive (fun s => raw_roll (f s)) t
    (m22 r / (m21 r * m21 r + m22 r * m22 r) * m21 d - m21 r / (m21 r * m21 r + m22 r * m22 r) * m22 d) /\
  is_derive (fun s => raw_pitch (f s)) t (- 1 / sqrt (1 - m20 r * m20 r) * m20 d) /\
  is_derive (fun s => raw_yaw (f s)) t
    (m00 r / (m00 r * m00 r + m10 r * m10 r) * m10 d - m10 r / (m00 r * m00 r + m10 r * m10 r) * m00 d).
Proof.
  intros Hd H22 H00 H20. cbv zeta.
  pose proof (Hd 2%nat 1%nat) as D21. pose proof (Hd 2%nat 2%nat) as D22. pose proof (Hd 2%nat 0%nat) as D20.
  pose proof (Hd 1%nat 0%nat) as D10. pose proof (Hd 0%nat 0%nat) as D00.
  cbn [mget3] in D21, D22, D20, D10, D00.
  apply Rabs_def2 in H20.
  split; [|split].
  - evar_last. apply (is_derive_Ratan2_pos (fun s => m21 (f s)) (fun s => m22 (f s)) t _ _ D21 D22 H22).
    field. nra.
  - evar_last. apply (is_derive_neg_asin (fun s => m20 (f s)) t _ D20). lra.
    field. assert (0 < 1 - m20 (f t) * m20 (f t)) by nra. pose proof (sqrt_lt_R0 _ H). lra.
  - evar_last. apply (is_derive_Ratan2_pos (fun s => m10 (f s)) (fun s => m00 (f s)) t _ _ D10 D00 H00).
    field. nra.
Qed.

Lemma pose_J_angular_unfold l x y z :
  let r := Mrot l x y z in
  let col := fun d : mat3 R => mkV3
    (m22 r / (m21 r * m21 r + m22 r * m22 r) * m21 d - m21 r / (m21 r * m21 r + m22 r * m22 r) * m22 d)
    (- 1 / sqrt (1 - m20 r * m20 r) * m20 d)
    (m00 r / (m00 r * m00 r + m10 r * m10 r) * m10 d - m10 r / (m00 r * m00 r + m10 r * m10 r) * m00 d) in
  pose_J_angular ROps l (mkV3 x y z) =
  mcols3 (col (mmul3 ROps l (dRdX_true x y z))) (col (mmul3 ROps l (dRdY_true x y z))) (col (mmul3 ROps l (dRdZ_true x y z))).
Proof.
  cbv zeta. unfold pose_J_angular. cbn [v0 v1 v2].
  change (sR (smart_init ROps x y z)) with (rot_zyx x y z).
  destruct (dSd_of_true x y z) as [E1 [E2 E3]]. rewrite E1, E2, E3.
  fold (Mrot l x y z). unfold mcols3. cbn [v0 v1 v2]. rcbn. reflexivity.
Qed.

(* the angular block of J, column by column, is the derivative of (roll', pitch', yaw') in roll, pitch, yaw *)
Lemma pose_J_angular_is_jacobian l x y z :
  0 < m22 (Mrot l x y z) -> 0 < m00 (Mrot l x y z) -> Rabs (m20 (Mrot l x y z)) < 1 ->
  let J := pose_J_angular ROps l (mkV3 x y z) in
  (is_derive (fun t => raw_roll (Mrot l t y z)) x (m00 J) /\ is_derive (fun t => raw_pitch (Mrot l t y z)) x (m10 J) /\
   is_derive (fun t => raw_yaw (Mrot l t y z)) x (m20 J)) /\
  (is_derive (fun t => raw_roll (Mrot l x t z)) y (m01 J) /\ is_derive (fun t => raw_pitch (Mrot l x t z)) y (m11 J) /\
   is_derive (fun t => raw_yaw (Mrot l x t z)) y (m21 J)) /\
  (is_derive (fun t => raw_roll (Mrot l x y t)) z (m02 J) /\ is_derive (fun t => raw_pitch (Mrot l x y t)) z (m12 J) /\
   is_derive (fun t => raw_yaw (Mrot l x y t)) z (m22 J)).
Proof.
  intros H22 H00 H20. cbv zeta. rewrite pose_J_angular_unfold. cbv zeta. unfold mcols3.
  cbn [m00 m01 m02 m10 m11 m12 m20 m21 m22 v0 v1 v2].
  split; [|split].
  - exact (J_column (fun t => Mrot l t y z) _ x (dM_x l x y z) H22 H00 H20).
  - exact (J_column (fun t => Mrot l x t z) _ y (dM_y l x y z) H22 H00 H20).
  - exact (J_column (fun t => Mrot l x y t) _ z (dM_z l x y z) H22 H00 H20).
Qed.

(* the position block: position' = l*p + t is linear in p with matrix l *)
Lemma pose_J_position l (t p : vec3 R) i j :
  is_derive (fun s => vget3 (vadd3 ROps (mvmul3 ROps l
      (match j with 0%nat => mkV3 s (v1 p) (v2 p) | 1%nat => mkV3 (v0 p) s (v2 p) | _ => mkV3 (v0 p) (v1 p) s end)) t) i)
    (vget3 p j) (mget3 l i j).
Proof.
  destruct l as [l0 l1 l2 l3 l4 l5 l6 l7 l8], t as [t0 t1 t2], p as [p0 p1 p2].
  destruct i as [|[|i]]; destruct j as [|[|j]]; unfold vadd3, mvmul3; cbn [vget3 mget3 v0 v1 v2]; rcbn;
    auto_derive; trivial; ring.
Qed.
