(* placeholder *)
From Coq Require Import Reals.
From Romea Require Import Num NumR AnglesModel PoseCovModel.
