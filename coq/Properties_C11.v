(* Properties_C11.v — C11: pose and twist conversions keep means and covariances consistent.
   Statements only; real-number instance of PoseCovModel.v / AnglesModel.v.
   Notation: gsym n c = symmetric on indices < n; quad n c x = x^T c x; gpsd n c = forall x, 0 <= x^T c x;
             act_mean l t pos ori = mean part of operator*(Affine3d (l,t), Pose3D);  rot_of e = Rz*Ry*Rx of the angles e. *)
From Coq Require Import Reals ZArith Lra Bool.
From Romea Require Import Num NumR AnglesModel AnglesProofs AnglesRoundtrip PoseCovModel PoseCovProofs.
Local Open Scope R_scope.

(* --- the 6x6 -> 3x3 reduction keeps exactly rows/columns 0, 1, 5 --- *)
Theorem C11_se2_selects_0_1_5 : forall c : mat R,
  (forall i j, toSe2Covariance c i j = c (sel3 i) (sel3 j)) /\
  sel3 0 = 0%nat /\ sel3 1 = 1%nat /\ sel3 2 = 5%nat /\
  toSe2Covariance c 0%nat 2%nat = c 0%nat 5%nat /\ toSe2Covariance c 2%nat 1%nat = c 5%nat 1%nat /\
  toSe2Covariance c 2%nat 2%nat = c 5%nat 5%nat.
Proof. intros c. repeat split. Qed.
Print Assumptions C11_se2_selects_0_1_5.

(* --- embedding then reducing is the identity; the embedding writes the nine entries back and zero elsewhere --- *)
Theorem C11_se2_of_se3_id : forall c : mat R,
  (forall i j, (i < 3)%nat -> (j < 3)%nat -> toSe2Covariance (toSe3Covariance ROps c) i j = c i j) /\
  (forall i j, (i < 3)%nat -> (j < 3)%nat -> toSe3Covariance ROps c (sel3 i) (sel3 j) = c i j) /\
  (forall i j, (i < 6)%nat -> (j < 6)%nat -> is_planar i && is_planar j = false -> toSe3Covariance ROps c i j = 0).
Proof. intros c. split; [exact (se2_of_se3_id c)|exact (se3_embedding c)]. Qed.
Print Assumptions C11_se2_of_se3_id.

(* --- symmetry and positive semi-definiteness are preserved (reduction, embedding, position block) --- *)
Theorem C11_se2_sym_psd : forall c : mat R,
  (gsym 6 c -> gsym 3 (toSe2Covariance c)) /\ (gpsd 6 c -> gpsd 3 (toSe2Covariance c)) /\
  (forall x, quad 3 (toSe2Covariance c) x = quad 6 c (embed3 x)).
Proof. intros c. split; [exact (se2_sym c)|split; [exact (se2_psd c)|exact (se2_quad c)]]. Qed.
Print Assumptions C11_se2_sym_psd.

Theorem C11_se3_sym_psd : forall c : mat R,
  (gsym 3 c -> gsym 6 (toSe3Covariance ROps c)) /\ (gpsd 3 c -> gpsd 6 (toSe3Covariance ROps c)).
Proof. intros c. split; [exact (se3_sym c)|exact (se3_psd c)]. Qed.
Print Assumptions C11_se3_sym_psd.

(* --- the 3D -> 2D reductions keep exactly x, y, yaw / vx, vy, yaw rate and the selected covariance --- *)
Theorem C11_reductions_keep_planar : forall (p : pose3 (T:=R)) (t : twist3 (T:=R)),
  p2_x (toPose2D p) = v0 (p3_pos p) /\ p2_y (toPose2D p) = v1 (p3_pos p) /\ p2_yaw (toPose2D p) = v2 (p3_ori p) /\
  p2_cov (toPose2D p) = toSe2Covariance (p3_cov p) /\
  t2_vx (toTwist2D t) = v0 (t3_lin t) /\ t2_vy (toTwist2D t) = v1 (t3_lin t) /\ t2_w (toTwist2D t) = v2 (t3_ang t) /\
  t2_cov (toTwist2D t) = toSe2Covariance (t3_cov t) /\
  toPoseAndTwist2D (p, t) = (toPose2D p, toTwist2D t) /\
  q3_pos (toPosition3D p) = p3_pos p /\ (forall i j, q3_cov (toPosition3D p) i j = p3_cov p i j).
Proof. exact reductions_keep_planar. Qed.

Theorem C11_position3_sym_psd : forall p : pose3 (T:=R),
  (gsym 6 (p3_cov p) -> gsym 3 (q3_cov (toPosition3D p))) /\ (gpsd 6 (p3_cov p) -> gpsd 3 (q3_cov (toPosition3D p))).
Proof. exact position3_sym_psd. Qed.
Print Assumptions C11_position3_sym_psd.

(* --- SE(3) action, position: identity neutral, successive transforms compose --- *)
Theorem C11_pose_action_position : forall l t l' t' pos ori ori',
  fst (act_mean (mid3 ROps) (mkV3 0 0 0) pos ori) = pos /\
  fst (act_mean l' t' (fst (act_mean l t pos ori)) ori') =
  fst (act_mean (mmul3 ROps l' l) (vadd3 ROps (mvmul3 ROps l' t) t') pos ori).
Proof.
  intros. split; [exact (action_position_identity _ pos ori eq_refl)|exact (action_position_compose l t l' t' pos ori ori')].
Qed.
Print Assumptions C11_pose_action_position.

(* --- SE(3) action, attitude compared as a rotation (off gimbal lock): the reported angles describe l*R(angles);
       identity neutral; successive transforms compose --- *)
Theorem C11_pose_action_attitude : forall l t pos ori,
  proper_rotation l -> Rabs (m20 (mmul3 ROps l (rot_of ori))) < 1 ->
  exists e, snd (act_mean l t pos ori) = Some e /\ rot_of e = mmul3 ROps l (rot_of ori).
Proof. exact action_attitude. Qed.
Print Assumptions C11_pose_action_attitude.

Theorem C11_pose_action_identity : forall t pos ori, Rabs (m20 (rot_of ori)) < 1 ->
  exists e, snd (act_mean (mid3 ROps) t pos ori) = Some e /\ rot_of e = rot_of ori.
Proof. exact action_attitude_identity. Qed.
Print Assumptions C11_pose_action_identity.

Theorem C11_pose_action_compose : forall l t l' t' pos ori,
  proper_rotation l -> proper_rotation l' ->
  Rabs (m20 (mmul3 ROps l (rot_of ori))) < 1 -> Rabs (m20 (mmul3 ROps (mmul3 ROps l' l) (rot_of ori))) < 1 ->
  exists e1 e2 e3,
    snd (act_mean l t pos ori) = Some e1 /\
    snd (act_mean l' t' (fst (act_mean l t pos ori)) e1) = Some e2 /\
    snd (act_mean (mmul3 ROps l' l) (vadd3 ROps (mvmul3 ROps l' t) t') pos ori) = Some e3 /\
    rot_of e2 = rot_of e3 /\ rot_of e3 = mmul3 ROps (mmul3 ROps l' l) (rot_of ori).
Proof. exact action_attitude_compose. Qed.
Print Assumptions C11_pose_action_compose.

(* --- the ellipse: under the contract of the SVD oracle (U orthogonal, s0 >= s1 >= 0, cov = U diag(s) U^T — what
       JacobiSVD returns for a symmetric PSD matrix; rank-deficient allowed), major >= minor >= 0 and
       R(theta) diag(major^2, minor^2) R(theta)^T / sigma^2 is the covariance, entry by entry --- *)
Theorem C11_ellipse_reconstructs : forall svd c sigma, 0 < sigma -> svd2_contract c (svd c) ->
  let e := ellipse_of_cov ROps svd c sigma in
  let th := e_orientation e in let mj := e_major e in let mn := e_minor e in
  0 <= mn <= mj /\
  (cos th * cos th * (mj * mj) + sin th * sin th * (mn * mn)) / (sigma * sigma) = a00 c /\
  (cos th * sin th * (mj * mj - mn * mn)) / (sigma * sigma) = a01 c /\
  (cos th * sin th * (mj * mj - mn * mn)) / (sigma * sigma) = a10 c /\
  (sin th * sin th * (mj * mj) + cos th * cos th * (mn * mn)) / (sigma * sigma) = a11 c.
Proof. exact ellipse_reconstructs. Qed.
Print Assumptions C11_ellipse_reconstructs.

(* --- non-vacuity --- *)
Example C11_ex_svd_contract :   (* a rank-1 covariance and its decomposition *)
  svd2_contract (mkM2 4 0 0 0) ((4, 0), mkM2 1 0 0 1).
Proof. unfold svd2_contract. cbn. repeat split; lra. Qed.
Example C11_ex_psd : gpsd 6 (fun i j => if Nat.eqb i j then 1 else 0) /\ gsym 6 (fun i j => if Nat.eqb i j then 1 else 0).
Proof.
  split.
  - intros x. unfold quad. cbn. nra.
  - intros i j _ _. rewrite (Nat.eqb_sym i j). reflexivity.
Qed.
Example C11_ex_action_hyp : proper_rotation (mid3 ROps) /\ Rabs (m20 (rot_of (mkV3 0 0 0))) < 1.
Proof.
  split; [exact proper_id|]. unfold rot_of. rewrite rot_zyx_entries. cbn [v0 v1 v2 m20].
  rewrite sin_0, Ropp_0, Rabs_R0. lra.
Qed.

(* ================= SYNTACTIC SOURCE TIE (translate/eigensym.py, translate/tr_C11_eigensym.py -> gen/SrcEigenC11.v) =================
   The reductions of Matrix.hpp (templates instantiated at double) and the value-returning 3D -> 2D conversions of
   src/geometry/Pose3D.cpp / Twist3D.cpp (default constructors of the 2D types and the two-argument overloads inlined) are
   regenerated from the clang AST on every run by the symbolic Eigen evaluator; the generated terms equal the models above. *)
From Romea Require Import SrcTieC11.
From Romea.gen Require Import SrcEigenC11.
From Coq Require Import List String.
Import ListNotations.

Theorem C11_source_tie_reductions : forall (c : mat R) (m : mat3 R),
  (forall i j, (i < 3)%nat -> (j < 3)%nat -> mget3 (src_toSe2Covariance ROps c) i j = toSe2Covariance c i j) /\
  (forall i j, (i < 6)%nat -> (j < 6)%nat -> src_toSe3Covariance ROps m i j = toSe3Covariance ROps (mget3 m) i j).
Proof. exact source_tie_reductions. Qed.
Print Assumptions C11_source_tie_reductions.

Theorem C11_source_tie_toPose2D : forall p : pose3 (T:=R),
  src_toPose2D_inputs = ["arg0.covariance"; "arg0.orientation"; "arg0.position"]%string /\
  src_toPose2D_outputs = ["position"; "yaw"; "covariance"]%string /\
  let q := toPose2D p in
  src_toPose2D_position ROps (p3_cov p) (p3_ori p) (p3_pos p) = (p2_x q, p2_y q) /\
  src_toPose2D_yaw ROps (p3_cov p) (p3_ori p) (p3_pos p) = p2_yaw q /\
  forall i j, (i < 3)%nat -> (j < 3)%nat -> mget3 (src_toPose2D_covariance ROps (p3_cov p) (p3_ori p) (p3_pos p)) i j = p2_cov q i j.
Proof. exact tie_toPose2D. Qed.

Theorem C11_source_tie_toPosition3D : forall p : pose3 (T:=R),
  src_toPosition3D_inputs = ["arg0.covariance"; "arg0.position"]%string /\
  src_toPosition3D_outputs = ["position"; "covariance"]%string /\
  let q := toPosition3D p in
  (v0 (src_toPosition3D_position ROps (p3_cov p) (p3_pos p)) = v0 (q3_pos q) /\
   v1 (src_toPosition3D_position ROps (p3_cov p) (p3_pos p)) = v1 (q3_pos q) /\
   v2 (src_toPosition3D_position ROps (p3_cov p) (p3_pos p)) = v2 (q3_pos q)) /\
  forall i j, (i < 3)%nat -> (j < 3)%nat -> mget3 (src_toPosition3D_covariance ROps (p3_cov p) (p3_pos p)) i j = q3_cov q i j.
Proof. exact tie_toPosition3D. Qed.

Theorem C11_source_tie_toTwist2D : forall w : twist3 (T:=R),
  src_toTwist2D_inputs = ["arg0.angularSpeeds"; "arg0.covariance"; "arg0.linearSpeeds"]%string /\
  src_toTwist2D_outputs = ["linearSpeeds"; "angularSpeed"; "covariance"]%string /\
  let q := toTwist2D w in
  src_toTwist2D_linearSpeeds ROps (t3_ang w) (t3_cov w) (t3_lin w) = (t2_vx q, t2_vy q) /\
  src_toTwist2D_angularSpeed ROps (t3_ang w) (t3_cov w) (t3_lin w) = t2_w q /\
  forall i j, (i < 3)%nat -> (j < 3)%nat -> mget3 (src_toTwist2D_covariance ROps (t3_ang w) (t3_cov w) (t3_lin w)) i j = t2_cov q i j.
Proof. exact tie_toTwist2D. Qed.
Print Assumptions C11_source_tie_toTwist2D.

Theorem C11_source_tie_toPoseAndTwist2D : forall (p : pose3 (T:=R)) (w : twist3 (T:=R)),
  src_toPoseAndTwist2D_inputs = ["arg0.pose.covariance"; "arg0.pose.orientation"; "arg0.pose.position";
                                 "arg0.twist.angularSpeeds"; "arg0.twist.covariance"; "arg0.twist.linearSpeeds"]%string /\
  src_toPoseAndTwist2D_outputs = ["pose_position"; "pose_yaw"; "pose_covariance";
                                  "twist_linearSpeeds"; "twist_angularSpeed"; "twist_covariance"]%string /\
  src_toPoseAndTwist2D ROps (p3_cov p) (p3_ori p) (p3_pos p) (t3_ang w) (t3_cov w) (t3_lin w) =
  (src_toPose2D_position ROps (p3_cov p) (p3_ori p) (p3_pos p), src_toPose2D_yaw ROps (p3_cov p) (p3_ori p) (p3_pos p),
   src_toPose2D_covariance ROps (p3_cov p) (p3_ori p) (p3_pos p),
   src_toTwist2D_linearSpeeds ROps (t3_ang w) (t3_cov w) (t3_lin w), src_toTwist2D_angularSpeed ROps (t3_ang w) (t3_cov w) (t3_lin w),
   src_toTwist2D_covariance ROps (t3_ang w) (t3_cov w) (t3_lin w)) /\
  let q := toPoseAndTwist2D (p, w) in
  src_toPoseAndTwist2D_pose_position ROps (p3_cov p) (p3_ori p) (p3_pos p) (t3_ang w) (t3_cov w) (t3_lin w) = (p2_x (fst q), p2_y (fst q)) /\
  src_toPoseAndTwist2D_pose_yaw ROps (p3_cov p) (p3_ori p) (p3_pos p) (t3_ang w) (t3_cov w) (t3_lin w) = p2_yaw (fst q) /\
  src_toPoseAndTwist2D_twist_linearSpeeds ROps (p3_cov p) (p3_ori p) (p3_pos p) (t3_ang w) (t3_cov w) (t3_lin w) = (t2_vx (snd q), t2_vy (snd q)) /\
  src_toPoseAndTwist2D_twist_angularSpeed ROps (p3_cov p) (p3_ori p) (p3_pos p) (t3_ang w) (t3_cov w) (t3_lin w) = t2_w (snd q) /\
  forall i j, (i < 3)%nat -> (j < 3)%nat ->
    mget3 (src_toPoseAndTwist2D_pose_covariance ROps (p3_cov p) (p3_ori p) (p3_pos p) (t3_ang w) (t3_cov w) (t3_lin w)) i j = p2_cov (fst q) i j /\
    mget3 (src_toPoseAndTwist2D_twist_covariance ROps (p3_cov p) (p3_ori p) (p3_pos p) (t3_ang w) (t3_cov w) (t3_lin w)) i j = t2_cov (snd q) i j.
Proof. exact tie_toPoseAndTwist2D. Qed.
