(* SrcEigenDynFacts.v — lemmas about the vocabulary SrcEigenDyn.v (dynamic-size Eigen operations as the generated terms of
   gen/SrcLs.v use them), for every numeric dictionary: element reads after element stores, shapes, loops as folds with an
   invariant, and the reading of a well-shaped matrix as the table of its entries.  Used by SrcTieC07.v. *)
From Coq Require Import List Arith Bool Lia.
From Romea Require Import Num LinAlgBModel LinAlgBProofs LsHistoryProofs SrcEigenDyn.
Import ListNotations.

(* ---- lists ---- *)
Lemma nth_firstn_lt {A} (l : list A) n i d : (i < n)%nat -> nth i (firstn n l) d = nth i l d.
Proof.
  revert n i. induction l as [|a l IH]; intros n i H.
  - rewrite firstn_nil. reflexivity.
  - destruct n; [lia|]. destruct i; cbn; [reflexivity|]. apply IH. lia.
Qed.

Lemma nth_skipn_add {A} (l : list A) n i d : nth i (skipn n l) d = nth (n + i) l d.
Proof.
  revert l. induction n as [|n IH]; intros l; [reflexivity|].
  destruct l as [|a l]; cbn; [destruct i; reflexivity|]. apply IH.
Qed.

Lemma list_eq_tab {A} (l : list A) n d : length l = n -> l = tab n (fun i => nth i l d).
Proof.
  intros H. apply (nth_ext _ _ d d).
  - rewrite length_tab. exact H.
  - intros i Hi. rewrite nth_tab by lia. reflexivity.
Qed.

Lemma set_nth_beyond {A} i (x : A) l : (length l <= i)%nat -> set_nth i x l = l.
Proof.
  intros H. unfold set_nth. rewrite (skipn_all2 l H), (firstn_all2 l H), app_nil_r. reflexivity.
Qed.

(* a loop [for (i = a; i < a + len; ++i)] as a fold: invariant rule *)
Lemma fold_seq_inv {A} (f : A -> nat -> A) (P : nat -> A -> Prop) len : forall a x,
  P a x -> (forall i y, (a <= i < a + len)%nat -> P i y -> P (S i) (f y i)) ->
  P (a + len)%nat (fold_left f (seq a len) x).
Proof.
  induction len as [|len IH]; intros a x H0 Hs.
  - rewrite Nat.add_0_r. exact H0.
  - cbn [seq fold_left]. replace (a + S len)%nat with (S a + len)%nat by lia. apply IH.
    + apply Hs; [lia|exact H0].
    + intros i y Hi. apply Hs. lia.
Qed.

Section Facts.
Context {T : Type} (N : NumOps T).

(* a matrix value is well shaped: r rows of c entries, and says so *)
Definition dm_shape (r c : nat) (M : dmat (T:=T)) : Prop :=
  dm_cols M = c /\ length (dm_rows M) = r /\ Forall (fun row => length row = c) (dm_rows M).

Lemma rows_eq_mtab (rows : list (list T)) r c :
  length rows = r -> Forall (fun row => length row = c) rows -> rows = mtab r c (mget N rows).
Proof.
  intros Hr Hc. unfold mtab. rewrite (list_eq_tab rows r [] Hr) at 1. apply tab_ext. intros i Hi.
  assert (Hl : length (nth i rows []) = c).
  { rewrite Forall_forall in Hc. apply Hc. apply nth_In. lia. }
  exact (list_eq_tab (nth i rows []) c (nzero N) Hl).
Qed.

Lemma dm_shape_eq r c M : dm_shape r c M -> M = mkdm c (mtab r c (mget N (dm_rows M))).
Proof.
  intros (Hc & Hr & Hf). destruct M as [mc rows]. cbn in *. subst mc. f_equal. apply rows_eq_mtab; assumption.
Qed.

Lemma dm_shape_mtab r c f : dm_shape r c (mkdm c (mtab r c f)).
Proof. repeat split; cbn. - apply length_mtab. - apply Forall_mtab. Qed.

Lemma dm_set_shape r c M i j x : dm_shape r c M -> (i < r)%nat -> dm_shape r c (dm_set M i j x).
Proof.
  intros (Hc & Hr & Hf) Hi. repeat split; cbn.
  - exact Hc.
  - rewrite length_set_nth. exact Hr.
  - apply Forall_set_nth; [exact Hf|]. rewrite length_set_nth. rewrite Forall_forall in Hf. apply Hf. apply nth_In. lia.
Qed.

Lemma dm_get_set r c M i j x a b : dm_shape r c M -> (i < r)%nat -> (j < c)%nat ->
  dm_get N (dm_set M i j x) a b = if andb (Nat.eqb a i) (Nat.eqb b j) then x else dm_get N M a b.
Proof.
  intros (Hc & Hr & Hf) Hi Hj. unfold dm_get, dm_set, mget. cbn [dm_rows].
  assert (Hl : length (nth i (dm_rows M) []) = c).
  { rewrite Forall_forall in Hf. apply Hf. apply nth_In. lia. }
  destruct (Nat.eqb_spec a i) as [->|Ha]; cbn [andb].
  - rewrite nth_set_nth_eq by lia.
    destruct (Nat.eqb_spec b j) as [->|Hb].
    + apply nth_set_nth_eq. lia.
    + apply nth_set_nth_neq. auto.
  - rewrite nth_set_nth_neq by auto. reflexivity.
Qed.

Lemma dv_get_set (v : list T) i x a : (i < length v)%nat ->
  dv_get N (dv_set v i x) a = if Nat.eqb a i then x else dv_get N v a.
Proof.
  intros Hi. unfold dv_get, dv_set, vget. destruct (Nat.eqb_spec a i) as [->|Ha].
  - apply nth_set_nth_eq. exact Hi.
  - apply nth_set_nth_neq. auto.
Qed.

(* column heads: J_.col(i).head(n) read at r < n <= rows *)
Lemma col_head_get M i n r : (r < n)%nat -> (n <= dm_nrows M)%nat ->
  vget N (dv_head n (dm_col N M i)) r = mget N (dm_rows M) r i.
Proof.
  intros Hr Hn. unfold vget, dv_head, dm_col, mget, dm_nrows in *. rewrite nth_firstn_lt by exact Hr.
  rewrite <- (map_nth (fun row => nth i row (nzero N)) (dm_rows M) [] r).
  replace (nth i [] (nzero N)) with (nzero N) by (destruct i; reflexivity). reflexivity.
Qed.

Lemma length_col_head M i n : (n <= dm_nrows M)%nat -> length (dv_head n (dm_col N M i)) = n.
Proof. intros H. unfold dv_head, dm_col. apply firstn_length_le. rewrite map_length. exact H. Qed.

Lemma head_get (v : list T) n r : (r < n)%nat -> vget N (dv_head n v) r = vget N v r.
Proof. intros H. unfold vget, dv_head. apply nth_firstn_lt. exact H. Qed.

Lemma dot_col_col M i j n : (n <= dm_nrows M)%nat ->
  dv_dot N (dv_head n (dm_col N M i)) (dv_head n (dm_col N M j)) =
  sumn N n (fun r => nmul N (mget N (dm_rows M) r i) (mget N (dm_rows M) r j)).
Proof.
  intros Hn. unfold dv_dot. rewrite length_col_head by exact Hn. apply sumn_ext. intros r Hr.
  rewrite !col_head_get by assumption. reflexivity.
Qed.

Lemma dot_col_vec M i (y : list T) n : (n <= dm_nrows M)%nat ->
  dv_dot N (dv_head n (dm_col N M i)) (dv_head n y) =
  sumn N n (fun r => nmul N (mget N (dm_rows M) r i) (vget N y r)).
Proof.
  intros Hn. unfold dv_dot. rewrite length_col_head by exact Hn. apply sumn_ext. intros r Hr.
  rewrite col_head_get, head_get by assumption. reflexivity.
Qed.

(* two well-shaped matrices with the same entries are the same value *)
Lemma dm_shape_ext r c M (D : nat -> nat -> T) : dm_shape r c M ->
  (forall a b, (a < r)%nat -> (b < c)%nat -> dm_get N M a b = D a b) -> M = mkdm c (mtab r c D).
Proof.
  intros Hs Hg. rewrite (dm_shape_eq r c M Hs). f_equal. apply mtab_ext. intros a b Ha Hb. apply Hg; assumption.
Qed.

(* LOOP SHAPE 1: for (i = 0; i < k; ++i) for (j = i; j < k; ++j) body(i,j), where body stores D in the entries (i,j) and (j,i) only *)
Lemma sym_fill_fold k (body : dmat (T:=T) -> nat -> nat -> dmat (T:=T)) (D : nat -> nat -> T) M0 :
  (forall M i j, dm_shape k k M -> (i <= j < k)%nat ->
     dm_shape k k (body M i j) /\
     forall a b, (a < k)%nat -> (b < k)%nat ->
       dm_get N (body M i j) a b =
       if orb (andb (Nat.eqb a i) (Nat.eqb b j)) (andb (Nat.eqb a j) (Nat.eqb b i)) then D a b else dm_get N M a b) ->
  dm_shape k k M0 ->
  fold_left (fun M i => fold_left (fun M' j => body M' i j) (seq i (k - i)) M) (seq 0 k) M0 = mkdm k (mtab k k D).
Proof.
  intros Hb H0.
  pose (P := fun (i : nat) (M : dmat (T:=T)) => dm_shape k k M /\
               forall a b, (a < k)%nat -> (b < k)%nat -> (a < i \/ b < i)%nat -> dm_get N M a b = D a b).
  assert (HP : P (0 + k)%nat (fold_left (fun M i => fold_left (fun M' j => body M' i j) (seq i (k - i)) M) (seq 0 k) M0)).
  { apply (fold_seq_inv _ P).
    - split; [exact H0|]. intros a b _ _ [H|H]; lia.
    - intros i M Hi (HsM & HgM).
      pose (Q := fun (j : nat) (M' : dmat (T:=T)) => dm_shape k k M' /\
                   forall a b, (a < k)%nat -> (b < k)%nat ->
                     (a < i \/ b < i \/ (a = i /\ b < j) \/ (b = i /\ a < j))%nat -> dm_get N M' a b = D a b).
      assert (HQ : Q (i + (k - i))%nat (fold_left (fun M' j => body M' i j) (seq i (k - i)) M)).
      { apply (fold_seq_inv _ Q).
        - split; [exact HsM|]. intros a b Ha Hb' Hc. apply HgM; try assumption. lia.
        - intros j M' Hj (HsM' & HgM'). destruct (Hb M' i j HsM' ltac:(lia)) as (Hs2 & Hg2). split; [exact Hs2|].
          intros a b Ha Hb' Hc. rewrite Hg2 by assumption.
          destruct (Nat.eqb_spec a i), (Nat.eqb_spec b j), (Nat.eqb_spec a j), (Nat.eqb_spec b i); cbn [andb orb];
            try reflexivity; apply HgM'; try assumption; lia. }
      destruct HQ as (HsQ & HgQ). split; [exact HsQ|]. intros a b Ha Hb' Hc. apply HgQ; try assumption. lia. }
  destruct HP as (Hs & Hg). apply dm_shape_ext; [exact Hs|]. intros a b Ha Hb'. apply Hg; try assumption. lia.
Qed.

(* LOOP SHAPE 2: for (i = 0; i < k; ++i) body(i), where body stores D i in entry i of a vector only *)
Lemma vec_fill_fold k (body : list T -> nat -> list T) (D : nat -> T) v0 :
  (forall v i, length v = k -> (i < k)%nat ->
     length (body v i) = k /\ forall a, (a < k)%nat -> dv_get N (body v i) a = if Nat.eqb a i then D a else dv_get N v a) ->
  length v0 = k -> fold_left body (seq 0 k) v0 = tab k D.
Proof.
  intros Hb H0.
  pose (P := fun (i : nat) (v : list T) => length v = k /\ forall a, (a < k)%nat -> (a < i)%nat -> dv_get N v a = D a).
  assert (HP : P (0 + k)%nat (fold_left body (seq 0 k) v0)).
  { apply (fold_seq_inv _ P).
    - split; [exact H0|]. intros a _ H; lia.
    - intros i v Hi (Hl & Hg). destruct (Hb v i Hl ltac:(lia)) as (Hl2 & Hg2). split; [exact Hl2|].
      intros a Ha Hc. rewrite Hg2 by assumption. destruct (Nat.eqb_spec a i); [reflexivity|]. apply Hg; lia. }
  destruct HP as (Hl & Hg). rewrite (list_eq_tab _ k (nzero N) Hl). apply tab_ext. intros a Ha. apply (Hg a Ha). lia.
Qed.

(* LOOP SHAPE 3: for (n = 0; n < k; ++n) body(n), where body replaces the diagonal entry (n,n) by g of it and nothing else *)
Lemma diag_map_fold k (body : dmat (T:=T) -> nat -> dmat (T:=T)) (g : T -> T) M0 :
  (forall M n, dm_shape k k M -> (n < k)%nat ->
     dm_shape k k (body M n) /\
     forall a b, (a < k)%nat -> (b < k)%nat ->
       dm_get N (body M n) a b = if andb (Nat.eqb a n) (Nat.eqb b n) then g (dm_get N M n n) else dm_get N M a b) ->
  dm_shape k k M0 ->
  fold_left body (seq 0 k) M0 = mkdm k (mtab k k (fun a b => if Nat.eqb a b then g (dm_get N M0 a a) else dm_get N M0 a b)).
Proof.
  intros Hb H0.
  pose (P := fun (n : nat) (M : dmat (T:=T)) => dm_shape k k M /\
               forall a b, (a < k)%nat -> (b < k)%nat ->
                 dm_get N M a b = if andb (Nat.eqb a b) (Nat.ltb a n) then g (dm_get N M0 a a) else dm_get N M0 a b).
  assert (HP : P (0 + k)%nat (fold_left body (seq 0 k) M0)).
  { apply (fold_seq_inv _ P).
    - split; [exact H0|]. intros a b _ _. rewrite andb_false_r. reflexivity.
    - intros n M Hn (Hs & Hg). destruct (Hb M n Hs ltac:(lia)) as (Hs2 & Hg2). split; [exact Hs2|].
      intros a b Ha Hb'. rewrite Hg2 by assumption. rewrite !Hg by lia.
      destruct (Nat.eqb_spec a n), (Nat.eqb_spec b n), (Nat.eqb_spec a b), (Nat.ltb_spec a n), (Nat.ltb_spec a (S n)),
               (Nat.ltb_spec n n), (Nat.eqb_spec n n);
        cbn [andb]; subst; try reflexivity; try lia. }
  destruct HP as (Hs & Hg). apply dm_shape_ext; [exact Hs|]. intros a b Ha Hb'. rewrite Hg by assumption.
  destruct (Nat.eqb_spec a b), (Nat.ltb_spec a (0 + k)); cbn [andb]; try reflexivity; lia.
Qed.

End Facts.
