(* LsCovContract.v — C12, least-squares sentence: with the contract of the oracle argument inv = inverseJtJ_
   (inv * J^T J = I, the relation the LDLT solve against the identity is trusted for and that the model checks at
   run time by ls_inv_residual) the reported covariance is the data variance times the INVERSE NORMAL MATRIX mapped
   through the diagonal preconditioner:  A^-1 * cov * A^-1 * (J^T J) = variance * I,  i.e.  cov = variance * A (J^T J)^-1 A. *)
From Coq Require Import Reals ZArith Lra Lia Arith Bool.
From Romea Require Import Num NumR AnglesModel AnglesProofs AnglesRoundtrip PoseCovModel PoseCovProofs PoseJacProofs.
Local Open Scope R_scope.

(* inv is a left inverse of the normal matrix nm on indices < n *)
Definition ls_inv_contract (n : nat) (inv nm : mat R) : Prop :=
  forall i k, (i < n)%nat -> (k < n)%nat -> rsum n (fun r => inv i r * nm r k) = if Nat.eqb i k then 1 else 0.

Lemma ls_covariance_inverse_normal m n (jac a inv : mat R) v :
  gdiagonal n a -> (forall i, (i < n)%nat -> a i i <> 0) ->
  ls_inv_contract n inv (ls_JtJ ROps m n jac) ->
  forall i k, (i < n)%nat -> (k < n)%nat ->
    rsum n (fun j => ls_covariance ROps n a inv v i j / (a i i * a j j) * ls_JtJ ROps m n jac j k) =
    if Nat.eqb i k then v else 0.
Proof.
  intros Hd Hnz Hc i k Hi Hk.
  transitivity (rsum n (fun j => v * (inv i j * ls_JtJ ROps m n jac j k))).
  - apply rsum_ext. intros j Hj.
    rewrite (proj1 (ls_covariance_diag n a inv v i j Hd Hi Hj)).
    pose proof (Hnz i Hi). pose proof (Hnz j Hj). field. split; assumption.
  - rewrite rsum_scal, (Hc i k Hi Hk). destruct (Nat.eqb i k); ring.
Qed.

(* the contract determines inv: two left inverses of a matrix that has a right inverse agree; in particular the
   statement above pins cov down to variance * A * (J^T J)^-1 * A whenever J^T J is invertible *)
Lemma ls_inv_contract_unique n (inv1 inv2 nm rinv : mat R) :
  ls_inv_contract n inv1 nm -> ls_inv_contract n inv2 nm ->
  (forall i k, (i < n)%nat -> (k < n)%nat -> rsum n (fun r => nm i r * rinv r k) = if Nat.eqb i k then 1 else 0) ->
  forall i k, (i < n)%nat -> (k < n)%nat -> inv1 i k = inv2 i k.
Proof.
  intros H1 H2 Hr i k Hi Hk.
  (* inv i k = sum_r (sum_s inv i s * nm s r) * rinv r k for both *)
  assert (E : forall inv, ls_inv_contract n inv nm ->
              inv i k = rsum n (fun r => (if Nat.eqb i r then 1 else 0) * rinv r k)).
  { intros inv Hc.
    transitivity (rsum n (fun r => rsum n (fun s => inv i s * nm s r) * rinv r k)).
    - transitivity (rsum n (fun s => inv i s * rsum n (fun r => nm s r * rinv r k))).
      + transitivity (rsum n (fun s => inv i s * (if Nat.eqb s k then 1 else 0))).
        * rewrite (rsum_single n k) by (try assumption; intros s Hs Hne; apply Nat.eqb_neq in Hne; rewrite Hne; ring).
          rewrite Nat.eqb_refl. ring.
        * apply rsum_ext. intros s Hs. rewrite (Hr s k Hs Hk). reflexivity.
      + transitivity (rsum n (fun s => rsum n (fun r => inv i s * nm s r * rinv r k))).
        * apply rsum_ext. intros s Hs. rewrite <- rsum_scal. apply rsum_ext. intros r Hr'. ring.
        * rewrite rsum_swap. apply rsum_ext. intros r Hr'. rewrite <- rsum_scal_r. reflexivity.
    - apply rsum_ext. intros r Hr'. rewrite (Hc i r Hi Hr'). reflexivity. }
  rewrite (E inv1 H1), (E inv2 H2). reflexivity.
Qed.

(* witness: one unknown, one row J = (2): J^T J = 4, inv = 1/4, preconditioner 3 *)
Lemma ex_ls_contract :
  ls_inv_contract 1 (fun _ _ => / 4) (ls_JtJ ROps 1 1 (fun _ _ => 2)) /\
  gdiagonal 1 (fun _ _ => 3) /\ (forall i, (i < 1)%nat -> (fun _ _ : nat => 3) i i <> 0).
Proof.
  split; [|split].
  - intros i k Hi Hk. assert (i = 0%nat) by lia. assert (k = 0%nat) by lia. subst. unfold ls_JtJ. cbn. field.
  - intros i j Hi Hj Hne. lia.
  - intros i _. lra.
Qed.
