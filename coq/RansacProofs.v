(* RansacProofs.v — lemmas about coq/RansacModel.v (RansacIterations, Ransac::estimateModel). *)
From Coq Require Import Reals ZArith List Bool Lra Lia Sorted Permutation.
From Flocq Require Import Core.Raux.
From Romea Require Import Num NumR RansacModel.
From Romea.gen Require Import RepoConstants.
Import ListNotations.

(* ================================================================================================
   f32round *)
Local Open Scope Z_scope.

Lemma f32round_small z : z < 2 ^ 24 -> f32round z = z.
Proof. intros H. unfold f32round. destruct (Z.ltb_spec z (2 ^ 24)); [reflexivity | lia]. Qed.

Lemma f32round_pos_inv z : 0 < f32round z -> 0 < z.
Proof.
  unfold f32round. destruct (Z.ltb_spec z (2 ^ 24)) as [H|H]; intros; [assumption|].
  assert (0 < 2 ^ 24) by (apply Z.pow_pos_nonneg; lia). lia.
Qed.

(* a value with at most 24 significant bits is left unchanged *)
Lemma f32round_repr m e : 2 ^ 23 <= m < 2 ^ 24 -> 1 <= e -> f32round (m * 2 ^ e) = m * 2 ^ e.
Proof.
  intros Hm He. unfold f32round.
  assert (P23 : 0 < 2 ^ 23) by (apply Z.pow_pos_nonneg; lia).
  assert (Pe : 0 < 2 ^ e) by (apply Z.pow_pos_nonneg; lia).
  assert (P2e : 2 <= 2 ^ e) by (change 2 with (2 ^ 1) at 1; apply Z.pow_le_mono_r; lia).
  assert (Hbig : 2 ^ 24 <= m * 2 ^ e) by (change (2 ^ 24) with (2 ^ 23 * 2); nia).
  destruct (Z.ltb_spec (m * 2 ^ e) (2 ^ 24)); [lia|].
  assert (Hlog : Z.log2 (m * 2 ^ e) = 23 + e).
  { rewrite Z.log2_mul_pow2 by lia.
    assert (Z.log2 m = 23) by (apply Z.log2_unique; lia). lia. }
  rewrite Hlog. replace (23 + e - 23) with e by lia.
  rewrite Z.div_mul by lia. rewrite Z.mod_mul by lia.
  assert (0 < 2 ^ (e - 1)) by (apply Z.pow_pos_nonneg; lia).
  destruct (Z.ltb_spec 0 (2 ^ (e - 1))); [reflexivity | lia].
Qed.

Lemma f32round_idem z : 0 <= z -> f32round (f32round z) = f32round z.
Proof.
  intros Hz. unfold f32round at 2 3.
  destruct (Z.ltb_spec z (2 ^ 24)) as [H|H]; [apply f32round_small; assumption|].
  set (e := Z.log2 z - 23).
  assert (P24 : 0 < 2 ^ 24) by (apply Z.pow_pos_nonneg; lia).
  assert (Hl : 24 <= Z.log2 z) by (apply Z.log2_le_pow2; lia).
  assert (He : 1 <= e) by (unfold e; lia).
  assert (Pe : 0 < 2 ^ e) by (apply Z.pow_pos_nonneg; lia).
  pose proof (Z.log2_spec z ltac:(lia)) as [L1 L2].
  assert (Hq : 2 ^ 23 <= z / 2 ^ e < 2 ^ 24).
  { replace (Z.log2 z) with (23 + e) in L1 by (unfold e; lia).
    replace (Z.succ (Z.log2 z)) with (24 + e) in L2 by (unfold e; lia).
    rewrite Z.pow_add_r in L1, L2 by lia.
    split.
    - apply Z.div_le_lower_bound; lia.
    - apply Z.div_lt_upper_bound; lia. }
  set (q := z / 2 ^ e) in *.
  assert (Hcases : forall q', (q' = q \/ q' = q + 1) -> f32round (q' * 2 ^ e) = q' * 2 ^ e).
  { intros q' [->| ->].
    - apply f32round_repr; lia.
    - destruct (Z.eq_dec (q + 1) (2 ^ 24)) as [E|NE].
      + rewrite E. replace (2 ^ 24 * 2 ^ e) with (2 ^ 23 * 2 ^ (e + 1)).
        * apply f32round_repr; [|lia]. split; [lia|]. apply Z.pow_lt_mono_r; lia.
        * rewrite Z.pow_add_r by lia. change (2 ^ 24) with (2 ^ 23 * 2). ring.
      + apply f32round_repr; lia. }
  destruct (z mod 2 ^ e <? 2 ^ (e - 1)); [apply Hcases; left; reflexivity|].
  destruct (2 ^ (e - 1) <? z mod 2 ^ e); [apply Hcases; right; reflexivity|].
  destruct (Z.even q); apply Hcases; [left|right]; reflexivity.
Qed.

Lemma f32round_nonneg z : 0 <= z -> 0 <= f32round z.
Proof.
  intros Hz. unfold f32round. destruct (Z.ltb_spec z (2 ^ 24)) as [H|H]; [assumption|].
  set (e := Z.log2 z - 23).
  assert (0 <= 2 ^ e) by (apply Z.pow_nonneg; lia).
  assert (0 <= z / 2 ^ e).
  { destruct (Z.eq_dec (2 ^ e) 0) as [E|NE]; [rewrite E, Zdiv_0_r; lia | apply Z.div_pos; lia]. }
  destruct (_ <? _); [nia|]. destruct (_ <? _); [nia|]. destruct (Z.even _); nia.
Qed.

(* ================================================================================================
   RansacIterations: monotonicity (every numeric dictionary, hence also the executed float instance) *)
Section IterAny.
  Context {T : Type} (N : NumOps T).

  Lemma iters_update_le s k sd : it_n (iters_update N s k sd) <= it_n s.
  Proof. cbn. apply Z.le_min_l. Qed.

  Lemma iters_fold_le ks : forall s sd, it_n (iters_fold N s sd ks) <= it_n s.
  Proof.
    unfold iters_fold. induction ks as [|k r IH]; intros s sd; cbn [fold_left]; [lia|].
    etransitivity; [apply IH | apply iters_update_le].
  Qed.

  Lemma iters_run_bounded ks : forall s sd, Forall (fun b => b <= it_n s) (iters_run N s sd ks).
  Proof.
    induction ks as [|k r IH]; intros s sd; cbn [iters_run].
    - constructor; [lia | constructor].
    - constructor; [lia|].
      eapply Forall_impl; [|apply IH]. cbn beta. intros b Hb.
      pose proof (iters_update_le s k sd). lia.
  Qed.

  Lemma iters_run_sorted ks : forall s sd, StronglySorted Z.ge (iters_run N s sd ks).
  Proof.
    induction ks as [|k r IH]; intros s sd; cbn [iters_run].
    - repeat constructor.
    - constructor; [apply IH|].
      eapply Forall_impl; [|apply (iters_run_bounded r (iters_update N s k sd) sd)].
      cbn beta. intros b Hb. pose proof (iters_update_le s k sd). lia.
  Qed.

  Lemma iters_run_head ks s sd : hd 0 (iters_run N s sd ks) = it_n s.
  Proof. destruct ks; reflexivity. Qed.

  Lemma iters_run_last ks : forall s sd, last (iters_run N s sd ks) 0 = it_n (iters_fold N s sd ks).
  Proof.
    induction ks as [|k r IH]; intros s sd; [reflexivity|].
    cbn [iters_run].
    transitivity (last (iters_run N (iters_update N s k sd) sd r) 0).
    - destruct r; reflexivity.
    - apply IH.
  Qed.
End IterAny.

(* ================================================================================================
   RansacIterations: the closed formula over the reals *)
Local Open Scope R_scope.

Definition Reps : R := powerRZ 2 (-52).

Lemma Reps_bounds : 0 < Reps < / 2.
Proof. unfold Reps, powerRZ. simpl. lra. Qed.

Lemma nmax2_R a b : nmax2 ROps a b = Rmax a b.
Proof.
  unfold nmax2. cbn [nltb ROps]. unfold Rltb, Rmax.
  destruct (Rlt_dec a b), (Rle_dec a b); try reflexivity; lra.
Qed.

Lemma nmin2_R a b : nmin2 ROps a b = Rmin a b.
Proof.
  unfold nmin2. cbn [nltb ROps]. unfold Rltb, Rmin.
  destruct (Rlt_dec b a), (Rle_dec a b); try reflexivity; lra.
Qed.

(* the clamped probability, as the property states it *)
Definition q_clamped (w : R) (sd : nat) : R := Rmin (1 - Reps) (Rmax Reps (1 - w ^ sd)).

Lemma q_clamped_range w sd : Reps <= q_clamped w sd <= 1 - Reps.
Proof.
  pose proof Reps_bounds. unfold q_clamped. split.
  - apply Rmin_glb; [lra | apply Rmax_l].
  - apply Rmin_l.
Qed.

Lemma iters_q_R (s : iters R) npoints k sd :
  it_oneovern s = / IZR npoints -> (1 <= npoints)%Z -> (1 <= k)%Z -> (0 <= sd)%Z ->
  iters_q ROps s k sd = q_clamped (IZR k / IZR npoints) (Z.to_nat sd).
Proof.
  intros Ho Hn Hk Hsd. unfold iters_q, q_clamped. rewrite nmin2_R, nmax2_R.
  cbn [nsub nmul nofZ npow n_one nepsilon ROps]. fold Reps. rewrite Ho.
  assert (0 < IZR k) by (apply IZR_lt; lia).
  assert (0 < IZR npoints) by (apply IZR_lt; lia).
  assert (Hw : 0 < IZR k * / IZR npoints) by (apply Rmult_lt_0_compat; [|apply Rinv_0_lt_compat]; assumption).
  replace (IZR sd) with (INR (Z.to_nat sd)) by (rewrite INR_IZR_INZ, Z2Nat.id by lia; reflexivity).
  rewrite Rpower_pow by exact Hw. reflexivity.
Qed.

Lemma ln_neg x : 0 < x < 1 -> ln x < 0.
Proof. intros [H0 H1]. rewrite <- ln_1. apply ln_increasing; lra. Qed.

Lemma iters_formula_R (s : iters R) npoints p k sd :
  it_logopp s = ln (1 - p) -> it_oneovern s = / IZR npoints ->
  0 < p < 1 -> (1 <= npoints)%Z -> (1 <= k)%Z -> (0 <= sd)%Z ->
  let q := q_clamped (IZR k / IZR npoints) (Z.to_nat sd) in
  0 < ln (1 - p) / ln q /\
  it_n (iters_update ROps s k sd) = Z.min (it_n s) (Zfloor (ln (1 - p) / ln q)).
Proof.
  intros Hl Ho Hp Hn Hk Hsd q.
  pose proof (q_clamped_range (IZR k / IZR npoints) (Z.to_nat sd)) as Hq. fold q in Hq.
  pose proof Reps_bounds as He.
  assert (Hlq : ln q < 0) by (apply ln_neg; lra).
  assert (Hlp : ln (1 - p) < 0) by (apply ln_neg; lra).
  assert (Hpos : 0 < ln (1 - p) / ln q).
  { replace (ln (1 - p) / ln q) with ((- ln (1 - p)) * / (- ln q)) by (field; lra).
    apply Rmult_lt_0_compat; [lra | apply Rinv_0_lt_compat; lra]. }
  split; [exact Hpos|].
  cbn [iters_update it_n]. unfold iters_ratio. rewrite (iters_q_R s npoints k sd Ho Hn Hk Hsd). fold q.
  cbn [ndiv nln ntruncZ ROps]. rewrite Hl. rewrite Ztrunc_floor by lra. reflexivity.
Qed.

(* in the regime where no clamp is active the bound is the textbook one *)
Lemma q_clamped_inactive w sd : Reps <= 1 - w ^ sd <= 1 - Reps -> q_clamped w sd = 1 - w ^ sd.
Proof.
  intros [H1 H2]. unfold q_clamped. rewrite Rmax_right by lra. rewrite Rmin_right by lra. reflexivity.
Qed.

Lemma iters_init_R npoints p maxit :
  it_logopp (iters_init ROps npoints p maxit) = ln (1 - p) /\
  it_oneovern (iters_init ROps npoints p maxit) = / IZR npoints /\
  it_n (iters_init ROps npoints p maxit) = maxit.
Proof. cbn. repeat split. unfold Rdiv. lra. Qed.

Lemma iters_update_fields {T} (N : NumOps T) s k sd :
  it_logopp (iters_update N s k sd) = it_logopp s /\ it_oneovern (iters_update N s k sd) = it_oneovern s.
Proof. split; reflexivity. Qed.

Lemma iters_fold_fields {T} (N : NumOps T) ks : forall s sd,
  it_logopp (iters_fold N s sd ks) = it_logopp s /\ it_oneovern (iters_fold N s sd ks) = it_oneovern s.
Proof.
  unfold iters_fold. induction ks as [|k r IH]; intros s sd; cbn [fold_left]; [split; reflexivity|].
  destruct (IH (iters_update N s k sd) sd) as [A B]. rewrite A, B. split; reflexivity.
Qed.

(* bound stays non-negative over the reals *)
Lemma iters_fold_nonneg npoints p maxit sd ks :
  0 < p < 1 -> (1 <= npoints)%Z -> (0 <= sd)%Z -> (0 <= maxit)%Z -> Forall (fun k => (1 <= k)%Z) ks ->
  (0 <= it_n (iters_fold ROps (iters_init ROps npoints p maxit) sd ks))%Z.
Proof.
  intros Hp Hn Hsd Hm Hks.
  destruct (iters_init_R npoints p maxit) as (A & B & C).
  revert A B C. generalize (iters_init ROps npoints p maxit) as s. revert maxit Hm.
  unfold iters_fold. induction Hks as [|k r Hk Hr IH]; intros maxit Hm s A B C; cbn [fold_left]; [lia|].
  destruct (iters_formula_R s npoints p k sd A B Hp Hn Hk Hsd) as [Hpos Heq].
  eapply (IH (it_n (iters_update ROps s k sd))).
  - rewrite Heq. apply Z.min_glb; [lia|]. apply Zfloor_lub. simpl. lra.
  - exact A.
  - exact B.
  - reflexivity.
Qed.
