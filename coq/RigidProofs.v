(* RigidProofs.v — lemmas about the RansacRigidTransformationModel part of coq/RansacModel.v (real-number instance). *)
From Coq Require Import Reals ZArith List Bool Lra Lia.
From Romea Require Import Num NumR RansacModel RansacProofs EstimateProofs.
From Romea.gen Require Import RepoConstants.
Import ListNotations.
Local Open Scope R_scope.

Notation corrR := (corr R).
Definition lenZ {A} (l : list A) : Z := Z.of_nat (length l).

(* ================================================================================================
   the 3-sigma filter *)
Lemma fold_plus_nonneg l : forall acc, 0 <= acc -> Forall (fun x => 0 <= x) l -> 0 <= fold_left Rplus l acc.
Proof.
  induction l as [|x r IH]; intros acc Ha Hl; cbn [fold_left]; [assumption|].
  inversion Hl; subst. apply IH; [lra | assumption].
Qed.

Lemma sq_dist_nonneg a b : 0 <= sq_dist ROps a b.
Proof.
  unfold sq_dist, sum_list. cbn [nadd nzero ROps]. apply fold_plus_nonneg; [lra|].
  apply Forall_forall. intros x Hx. apply in_map_iff in Hx. destruct Hx as (p & <- & _).
  change (0 <= Rsqr (fst p - snd p)). apply Rle_0_sqr.
Qed.

Lemma residual_nonneg hom dim M src tgt c : 0 <= residual ROps hom dim M src tgt c.
Proof. unfold residual. apply sq_dist_nonneg. Qed.

Lemma gate_R sigma : rigid_gate_factor = 9%Z -> gate ROps sigma = (3 * sigma) * (3 * sigma).
Proof. intros H. unfold gate. rewrite H. cbn [nmul nofZ ROps]. ring. Qed.

Lemma gate_as_3sigma x sigma : rigid_gate_factor = 9%Z -> 0 <= x -> 0 < sigma ->
  Rltb x (gate ROps sigma) = Rltb (sqrt x) (3 * sigma).
Proof.
  intros H Hx Hs. rewrite (gate_R sigma H).
  assert (H3 : 0 <= 3 * sigma) by lra.
  destruct (Rltb (sqrt x) (3 * sigma)) eqn:E.
  - apply Rltb_true in E. apply Rltb_true.
    rewrite <- (sqrt_square (3 * sigma) H3) in E. apply sqrt_lt_0_alt in E. exact E.
  - apply Rltb_false in E. apply Rltb_false.
    rewrite <- (sqrt_square (3 * sigma) H3) in E.
    destruct (Rle_dec ((3 * sigma) * (3 * sigma)) x) as [L|NL]; [exact L|exfalso].
    assert (sqrt x < sqrt ((3 * sigma) * (3 * sigma))) by (apply sqrt_lt_1_alt; lra). lra.
Qed.

Lemma with_residuals_sq hom dim M src tgt sorted c :
  In c (with_residuals ROps hom dim M src tgt sorted) ->
  exists c0, In c0 sorted /\ c_src c = c_src c0 /\ c_tgt c = c_tgt c0 /\ c_sq c = residual ROps hom dim M src tgt c0.
Proof.
  unfold with_residuals. intros H. apply in_map_iff in H. destruct H as (c0 & <- & Hin).
  exists c0. cbn. auto.
Qed.

Lemma inliers_3sigma hom dim M src tgt sigma sorted :
  rigid_gate_factor = 9%Z -> 0 < sigma ->
  inliers ROps hom dim M src tgt sigma sorted =
  filter (fun c => Rltb (sqrt (c_sq c)) (3 * sigma)) (with_residuals ROps hom dim M src tgt sorted).
Proof.
  intros H Hs. unfold inliers, gate_filter. apply filter_ext_in. intros c Hc.
  destruct (with_residuals_sq _ _ _ _ _ _ _ Hc) as (c0 & _ & _ & _ & E).
  cbn [nltb ROps]. apply gate_as_3sigma; [assumption | rewrite E; apply residual_nonneg | assumption].
Qed.

(* ================================================================================================
   std::unique (both forms) only rearranges / drops elements *)
Section Uniq.
  Context {A : Type} (eq : A -> A -> bool).

  Lemma unique_from_incl l : forall a x, In x (unique_from eq a l) -> In x l.
  Proof.
    induction l as [|y r IH]; intros a x H; cbn [unique_from] in H; [destruct H|].
    destruct (eq a y).
    - right. eapply IH; eassumption.
    - destruct H as [->|H]; [left; reflexivity | right; eapply IH; eassumption].
  Qed.

  Lemma unique_by_incl l x : In x (unique_by eq l) -> In x l.
  Proof.
    destruct l as [|y r]; cbn [unique_by]; [tauto|].
    intros [->|H]; [left; reflexivity | right; eapply unique_from_incl; eassumption].
  Qed.

  Lemma skipn_incl (n : nat) (l : list A) x : In x (skipn n l) -> In x l.
  Proof.
    revert l. induction n as [|n IH]; intros l H; [exact H|].
    destruct l as [|y r]; [destruct H|]. right. apply IH. exact H.
  Qed.

  Lemma unique_inplace_incl l x : In x (unique_inplace eq l) -> In x l.
  Proof.
    unfold unique_inplace. intros H. apply in_app_or in H. destruct H as [H|H].
    - eapply unique_by_incl; eassumption.
    - eapply skipn_incl; eassumption.
  Qed.

  Lemma unique_from_length l : forall a, (length (unique_from eq a l) <= length l)%nat.
  Proof.
    induction l as [|y r IH]; intros a; cbn [unique_from length]; [lia|].
    destruct (eq a y); cbn [length]; [specialize (IH a) | specialize (IH y)]; lia.
  Qed.

  (* the vector keeps its size: the return value of std::unique is discarded *)
  Lemma unique_inplace_length l : length (unique_inplace eq l) = length l.
  Proof.
    unfold unique_inplace. rewrite app_length, skipn_length.
    assert (length (unique_by eq l) <= length l)%nat.
    { destruct l as [|y r]; cbn [unique_by length]; [lia|]. pose proof (unique_from_length r y). lia. }
    lia.
  Qed.

  (* when no two neighbours are equal under the predicate nothing changes *)
  Lemma unique_from_id l : forall a,
    (forall pre x y post, a :: l = pre ++ x :: y :: post -> eq x y = false) -> unique_from eq a l = l.
  Proof.
    induction l as [|y r IH]; intros a H; cbn [unique_from]; [reflexivity|].
    rewrite (H [] a y r eq_refl). f_equal. apply IH.
    intros pre x z post E. apply (H (a :: pre) x z post). cbn. rewrite E. reflexivity.
  Qed.

  Lemma unique_inplace_id l :
    (forall pre x y post, l = pre ++ x :: y :: post -> eq x y = false) -> unique_inplace eq l = l.
  Proof.
    intros H. unfold unique_inplace. destruct l as [|a r]; [reflexivity|].
    cbn [unique_by]. rewrite (unique_from_id r a H). cbn [length skipn].
    rewrite skipn_all. apply app_nil_r.
  Qed.
End Uniq.

(* ================================================================================================
   best-consensus bookkeeping *)
Definition cand : Type := (list corrR * R)%type.
Definition cand_of (st : rigid_state R) : cand := (rs_best st, rs_rmse st).

Definition store_fold (mininl : Z) (sigma : R) (st : rigid_state R) (cs : list cand) : rigid_state R :=
  fold_left (fun s c => rigid_store ROps mininl sigma s (fst c) (snd c)) cs st.

(* the two gates of countInliers *)
Definition passes (mininl : Z) (sigma : R) (c : cand) : Prop := (mininl <= lenZ (fst c))%Z /\ snd c < sigma.
(* c is strictly better than d in the order the code uses: more inliers, or as many and a lower rmse *)
Definition beats (c d : cand) : Prop :=
  (lenZ (fst d) < lenZ (fst c))%Z \/ (lenZ (fst c) = lenZ (fst d) /\ snd c < snd d).

Lemma beats_trans a b c : beats a b -> beats b c -> beats a c.
Proof. unfold beats. intros [H1|[H1 H1']] [H2|[H2 H2']]; [left; lia | left; lia | left; lia | right; split; [lia | lra]]. Qed.

Lemma beats_irrefl a : ~ beats a a.
Proof. unfold beats. intros [H|[_ H]]; [lia | lra]. Qed.

Lemma cand_passes_spec mininl sigma l r :
  cand_passes ROps mininl sigma (lenZ l) r = true <-> passes mininl sigma (l, r).
Proof.
  unfold cand_passes, passes. cbn [nltb ROps fst snd]. rewrite andb_true_iff, Z.leb_le, Rltb_true. tauto.
Qed.

Lemma cand_better_spec l r bl br :
  cand_better ROps (lenZ l) r (lenZ bl) br = true <-> beats (l, r) (bl, br).
Proof.
  unfold cand_better, beats. cbn [nltb ROps fst snd].
  rewrite orb_true_iff, andb_true_iff, Z.ltb_lt, Z.eqb_eq, Rltb_true. tauto.
Qed.

Lemma rigid_store_cases mininl sigma st l r :
  (passes mininl sigma (l, r) /\ beats (l, r) (cand_of st) /\ rigid_store ROps mininl sigma st l r = mkRigid l r) \/
  (~ (passes mininl sigma (l, r) /\ beats (l, r) (cand_of st)) /\ rigid_store ROps mininl sigma st l r = st).
Proof.
  unfold rigid_store. fold (lenZ l). fold (lenZ (rs_best st)).
  destruct (cand_passes ROps mininl sigma (lenZ l) r) eqn:E1; cbn [andb].
  - destruct (cand_better ROps (lenZ l) r (lenZ (rs_best st)) (rs_rmse st)) eqn:E2.
    + left. apply cand_passes_spec in E1. apply cand_better_spec in E2. auto.
    + right. split; [|reflexivity]. intros [_ H]. apply cand_better_spec in H. unfold cand_of in H.
      cbn in H. congruence.
  - right. split; [|reflexivity]. intros [H _]. apply cand_passes_spec in H. congruence.
Qed.

(* invariant: either nothing has passed the gates and the object is in its initial state, or the stored consensus
   is one of the candidates seen, passes both gates, and no seen passing candidate beats it *)
Definition best_inv (mininl : Z) (sigma : R) (st : rigid_state R) (seen : list cand) : Prop :=
  (st = rigid_init ROps /\ forall c, In c seen -> ~ passes mininl sigma c) \/
  (In (cand_of st) seen /\ passes mininl sigma (cand_of st) /\
   forall c, In c seen -> passes mininl sigma c -> ~ beats c (cand_of st)).

Lemma best_inv_step mininl sigma st seen l r :
  (1 <= mininl)%Z -> best_inv mininl sigma st seen ->
  best_inv mininl sigma (rigid_store ROps mininl sigma st l r) (seen ++ [(l, r)]).
Proof.
  intros Hm Hinv.
  destruct (rigid_store_cases mininl sigma st l r) as [(Hp & Hb & ->)|(Hn & ->)].
  - right. unfold cand_of. cbn [rs_best rs_rmse]. split; [apply in_or_app; right; left; reflexivity|].
    split; [exact Hp|]. intros c Hc Hpc Hbc. apply in_app_or in Hc. destruct Hc as [Hc|[<-|[]]].
    + destruct Hinv as [[-> Hnone]|(_ & _ & Hmax)].
      * exact (Hnone c Hc Hpc).
      * exact (Hmax c Hc Hpc (beats_trans _ _ _ Hbc Hb)).
    + exact (beats_irrefl _ Hbc).
  - destruct Hinv as [[-> Hnone]|(Hin & Hp & Hmax)].
    + left. split; [reflexivity|]. intros c Hc Hpc. apply in_app_or in Hc. destruct Hc as [Hc|[<-|[]]].
      * exact (Hnone c Hc Hpc).
      * apply Hn. split; [exact Hpc|]. unfold beats, cand_of, rigid_init, passes, lenZ in *. cbn in *. left. lia.
    + right. split; [apply in_or_app; left; exact Hin|]. split; [exact Hp|].
      intros c Hc Hpc Hbc. apply in_app_or in Hc. destruct Hc as [Hc|[<-|[]]].
      * exact (Hmax c Hc Hpc Hbc).
      * apply Hn. split; assumption.
Qed.

Lemma app_cons_assoc {A} (l : list A) x r : l ++ x :: r = (l ++ [x]) ++ r.
Proof. rewrite <- app_assoc. reflexivity. Qed.

Lemma store_fold_cons mininl sigma st c cs :
  store_fold mininl sigma st (c :: cs) = store_fold mininl sigma (rigid_store ROps mininl sigma st (fst c) (snd c)) cs.
Proof. reflexivity. Qed.

Lemma store_fold_inv mininl sigma cs : forall st seen,
  (1 <= mininl)%Z -> best_inv mininl sigma st seen -> best_inv mininl sigma (store_fold mininl sigma st cs) (seen ++ cs).
Proof.
  induction cs as [|[l r] cs IH]; intros st seen Hm Hinv.
  - rewrite app_nil_r. exact Hinv.
  - rewrite store_fold_cons.
    rewrite (app_cons_assoc seen (l, r) cs). apply IH; [exact Hm|]. cbn [fst snd]. apply best_inv_step; assumption.
Qed.

Lemma best_consensus_lemma mininl sigma cs :
  (1 <= mininl)%Z -> best_inv mininl sigma (store_fold mininl sigma (rigid_init ROps) cs) cs.
Proof.
  intros Hm. apply (store_fold_inv mininl sigma cs (rigid_init ROps) [] Hm).
  left. split; [reflexivity | intros c []].
Qed.

(* the model object driven by a list of candidate matrices is this fold *)
Definition cand_of_matrix hom dim src tgt sigma sorted (M : list (list R)) : cand :=
  let inl := consensus ROps hom dim M src tgt sigma sorted in (inl, rmse_of ROps inl).

Lemma rigid_fold_store hom dim mininl src tgt sigma sorted Ms : forall st,
  rigid_fold ROps hom dim mininl src tgt sigma sorted Ms st =
  store_fold mininl sigma st (map (cand_of_matrix hom dim src tgt sigma sorted) Ms).
Proof.
  unfold rigid_fold, store_fold. induction Ms as [|M r IH]; intros st; cbn [fold_left map]; [reflexivity|].
  rewrite IH. reflexivity.
Qed.

(* ================================================================================================
   success => reported error < sigma (object driven by Ransac::estimateModel) *)
Section Success.
  Variables (hom : bool) (dim : nat) (src tgt : list (list R)) (sigma : R) (sorted : list corrR) (mininl : Z).

  Definition obj_ok (o : rigid_obj R) : Prop :=
    rs_best (ro_st o) = [] \/ (rs_rmse (ro_st o) < sigma /\ (mininl <= lenZ (rs_best (ro_st o)))%Z).

  Lemma rigid_store_ok st l r :
    (rs_best st = [] \/ (rs_rmse st < sigma /\ (mininl <= lenZ (rs_best st))%Z)) ->
    let st' := rigid_store ROps mininl sigma st l r in
    rs_best st' = [] \/ (rs_rmse st' < sigma /\ (mininl <= lenZ (rs_best st'))%Z).
  Proof.
    intros H. destruct (rigid_store_cases mininl sigma st l r) as [(Hp & _ & ->)|(_ & ->)]; cbv zeta; [|exact H].
    right. destruct Hp as [A B]. cbn in *. split; assumption.
  Qed.

  Lemma rigid_store_len st l r : (lenZ (rs_best st) <= lenZ (rs_best (rigid_store ROps mininl sigma st l r)))%Z.
  Proof.
    destruct (rigid_store_cases mininl sigma st l r) as [(_ & Hb & ->)|(_ & ->)]; [|lia].
    unfold beats, cand_of in Hb. cbn in *. lia.
  Qed.

  Lemma obj_draw_st o : ro_st (fst (obj_draw ROps hom dim src tgt sigma o)) = ro_st o /\
                        ro_refit (fst (obj_draw ROps hom dim src tgt sigma o)) = ro_refit o.
  Proof. unfold obj_draw. destruct (ro_script o) as [|[M s] r]; split; reflexivity. Qed.

  Lemma obj_count_st o :
    ro_st (fst (obj_count ROps hom dim mininl src tgt sigma sorted o)) =
      rigid_store ROps mininl sigma (ro_st o) (consensus ROps hom dim (ro_M o) src tgt sigma sorted)
        (rmse_of ROps (consensus ROps hom dim (ro_M o) src tgt sigma sorted)) /\
    snd (obj_count ROps hom dim mininl src tgt sigma sorted o) =
      lenZ (rs_best (ro_st (fst (obj_count ROps hom dim mininl src tgt sigma sorted o)))).
  Proof. unfold obj_count, rigid_count. cbn. split; reflexivity. Qed.
End Success.

Lemma rigid_draw_size_pos d : (0 <= rigid_draw_size d)%Z.
Proof. unfold rigid_draw_size, rigid_draw_size_2d, rigid_draw_size_3d. destruct (d =? 2)%Z; lia. Qed.

Lemma success_error_lemma hom dim src tgt sigma corrs npoints p maxit script r :
  estimate_rigid ROps hom dim src tgt sigma corrs npoints p maxit script = Some r ->
  er_ok r = true ->
  rs_rmse (ro_st (er_state r)) < sigma /\
  (rigid_min_inliers (Z.of_nat dim) <= lenZ (rs_best (ro_st (er_state r))))%Z.
Proof.
  unfold estimate_rigid. set (mininl := rigid_min_inliers (Z.of_nat dim)).
  set (sorted := sort_by (tgt_dist_lt ROps) corrs). intros H Hok.
  assert (Hinv : obj_ok sigma mininl (er_state r)).
  { eapply (estimate_inv ROps _ _ _ _ (obj_ok sigma mininl)); [| | |exact H|].
    - intros o Ho. unfold obj_ok. destruct (obj_draw_st hom dim src tgt sigma o) as [-> _]. exact Ho.
    - intros o Ho. unfold obj_ok. destruct (obj_count_st hom dim src tgt sigma sorted mininl o) as [-> _].
      apply rigid_store_ok. exact Ho.
    - intros o Ho. exact Ho.
    - left. reflexivity. }
  assert (Hmu : (0 < lenZ (rs_best (ro_st (er_state r))))%Z).
  { eapply (estimate_measure ROps _ _ _ _ (fun o => lenZ (rs_best (ro_st o)))); [| | | |exact H| |exact Hok].
    - intros o. destruct (obj_draw_st hom dim src tgt sigma o) as [-> _]. lia.
    - intros o. destruct (obj_count_st hom dim src tgt sigma sorted mininl o) as [-> _]. apply rigid_store_len.
    - intros o. destruct (obj_count_st hom dim src tgt sigma sorted mininl o) as [_ ->]. lia.
    - intros o. cbn. lia.
    - apply rigid_draw_size_pos. }
  destruct Hinv as [E|Hinv]; [|exact Hinv].
  rewrite E in Hmu. cbn in Hmu. lia.
Qed.

(* ================================================================================================
   outliers outside every drawn model's gate have no influence *)
Section Outliers.
  Variables (hom : bool) (dim : nat) (src tgt : list (list R)) (sigma : R) (mininl : Z).
  Variable keep : Z -> Z -> bool.             (* true on the pairs that are not outliers *)
  Definition keepc (c : corrR) : bool := keep (c_src c) (c_tgt c).

  Definition outside_gate (M : list (list R)) (c : corrR) : Prop :=
    Rltb (residual ROps hom dim M src tgt c) (gate ROps sigma) = false.

  Lemma with_residuals_filter M L :
    with_residuals ROps hom dim M src tgt (filter keepc L) = filter keepc (with_residuals ROps hom dim M src tgt L).
  Proof.
    unfold with_residuals. induction L as [|c r IH]; [reflexivity|]. cbn [filter map].
    change (keepc (mkCorr (c_src c) (c_tgt c) (residual ROps hom dim M src tgt c))) with (keepc c).
    destruct (keepc c); cbn [map]; rewrite IH; reflexivity.
  Qed.

  Lemma filter_absorb {A} (f g : A -> bool) (X : list A) :
    (forall x, In x X -> f x = false -> g x = false) -> filter g X = filter g (filter f X).
  Proof.
    induction X as [|x r IH]; intros H; [reflexivity|]. cbn [filter].
    assert (Hr : forall y, In y r -> f y = false -> g y = false) by (intros; apply H; [right|]; assumption).
    destruct (f x) eqn:F.
    - cbn [filter]. destruct (g x); rewrite (IH Hr); reflexivity.
    - rewrite (H x (or_introl eq_refl) F). apply IH. exact Hr.
  Qed.

  Lemma inliers_keep M L :
    (forall c, In c L -> keepc c = false -> outside_gate M c) ->
    inliers ROps hom dim M src tgt sigma L = inliers ROps hom dim M src tgt sigma (filter keepc L).
  Proof.
    intros H. unfold inliers, gate_filter. rewrite with_residuals_filter. apply filter_absorb.
    intros x Hx K. destruct (with_residuals_sq _ _ _ _ _ _ _ Hx) as (c0 & Hin & Es & Et & Eq).
    cbn [nltb ROps]. rewrite Eq. apply (H c0 Hin). unfold keepc in *. rewrite <- Es, <- Et. exact K.
  Qed.

  Lemma inliers_all_keep M L c : In c (inliers ROps hom dim M src tgt sigma (filter keepc L)) -> keepc c = true.
  Proof.
    unfold inliers, gate_filter. intros H. apply filter_In in H. destruct H as [H _].
    apply with_residuals_sq in H. destruct H as (c0 & Hin & Es & Et & _).
    apply filter_In in Hin. destruct Hin as [_ K]. unfold keepc in *. rewrite Es, Et. exact K.
  Qed.

  Lemma rigid_fold_cons L M Ms st :
    rigid_fold ROps hom dim mininl src tgt sigma L (M :: Ms) st =
    rigid_fold ROps hom dim mininl src tgt sigma L Ms
      (rigid_store ROps mininl sigma st (consensus ROps hom dim M src tgt sigma L)
         (rmse_of ROps (consensus ROps hom dim M src tgt sigma L))).
  Proof. reflexivity. Qed.

  Lemma rigid_fold_keep Ms L : forall st,
    (forall M c, In M Ms -> In c L -> keepc c = false -> outside_gate M c) ->
    Forall (fun c => keepc c = true) (rs_best st) ->
    rigid_fold ROps hom dim mininl src tgt sigma L Ms st =
      rigid_fold ROps hom dim mininl src tgt sigma (filter keepc L) Ms st /\
    Forall (fun c => keepc c = true) (rs_best (rigid_fold ROps hom dim mininl src tgt sigma L Ms st)).
  Proof.
    induction Ms as [|M r IH]; intros st H Hst; [split; [reflexivity | exact Hst]|].
    assert (E : consensus ROps hom dim M src tgt sigma L = consensus ROps hom dim M src tgt sigma (filter keepc L)).
    { unfold consensus. rewrite (inliers_keep M L); [reflexivity|]. intros c Hc K. apply (H M c); [left; reflexivity | assumption | assumption]. }
    rewrite !rigid_fold_cons. rewrite <- E.
    apply IH.
    - intros M' c HM. apply H. right. exact HM.
    - rewrite E. set (cs := consensus ROps hom dim M src tgt sigma (filter keepc L)).
      destruct (rigid_store_cases mininl sigma st cs (rmse_of ROps cs)) as [(_ & _ & ->)|(_ & ->)]; [|exact Hst].
      cbn [rs_best]. apply Forall_forall. intros c Hc. unfold cs, consensus in Hc.
      apply unique_inplace_incl in Hc. eapply inliers_all_keep; eassumption.
  Qed.
End Outliers.
