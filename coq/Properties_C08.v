(* Properties_C08.v — placeholder, theorems follow *)
From Romea Require Import Num KdTreeModel.
