(* Properties_C08.v — C08: kd-tree nearest-neighbour queries agree with exhaustive search.
   Only statements, each closed by [exact <lemma>] and followed by Print Assumptions.
   Model: KdTreeModel.v (nanoflann's KNNResultSet and findNeighbors/searchLevel on an explicit tree).
   All theorems are about the real-number instance ROps.  The tree build is not modelled: [tree_ok] is the
   hypothesis, and the extracted checker [tree_ok_b] (sound, C08_tree_ok_b_sound) is run on every real tree. *)
From Coq Require Import Reals ZArith List Bool Arith Lia Lra Permutation Sorting.Sorted.
From Romea Require Import Num NumR KdTreeModel KdTreeProofs.
From Romea.gen Require Import RepoConstants.
Import ListNotations.
Local Open Scope R_scope.

(* (a) KNNResultSet: after ANY sequence of addPoint on an initialised set of capacity k >= 1, what the caller
   reads (rs_out, ascending) is sorted, has min(k, number of offers) entries, and is a sub-multiset of the offers
   all of whose members are <= every offer left out. *)
Theorem C08_resultset_sorted_k_smallest : forall (k : nat) (offers : list (R * nat)), (1 <= k)%nat ->
  let out := rs_out (fold_left (fun r o => addPoint ROps r (fst o) (snd o)) offers (rs_init k)) in
  StronglySorted (fun a b => fst a <= fst b) out /\
  length out = Nat.min k (length offers) /\
  exists rest, Permutation offers (out ++ rest) /\ forall x y, In x out -> In y rest -> fst x <= fst y.
Proof. exact resultset_sorted_k_smallest. Qed.
Print Assumptions C08_resultset_sorted_k_smallest.

(* (b) lower-bound invariant.  [called q root m0 d0 nd m d]: searchLevel(nd, m, d) is one of the calls that the
   call searchLevel(root, m0, d0) can make (near child with the same arguments; far child with
   mindistsq + cut_dist - dists[idx] and dists[idx] := cut_dist) — whether or not the pruning test lets it happen.
   At every such call mindistsq is the sum of dists and a lower bound of the squared distance from the query to
   every point stored under the node. *)
Theorem C08_search_lower_bound_invariant : forall (dim : nat) (t : kdtree) (q : list R),
  tree_ok dim t -> length q = dim ->
  let '(distsq, dists) := initial_distances ROps q (kd_bbox t) 0 in
  forall nd m d, called q (kd_root t) distsq dists nd m d ->
    m = rsum d /\
    forall pos, In pos (node_positions nd) ->
      m <= sqdist ROps q (point (kd_pts t) (vindex (kd_vind t) pos)).
Proof. exact search_lower_bound_invariant. Qed.
Print Assumptions C08_search_lower_bound_invariant.

(* (c) for every tree meeting the node invariant, every query and every k >= 1 (no overflow of the squared
   distances): the reported (squared distance, index) pairs are ascending, there are min(k, n) of them, and they
   are a sub-multiset of ALL pairs (sqdist q p_j, j), j < n, whose members are <= every pair left out: exactly
   the k smallest squared distances. *)
Theorem C08_knn_correct : forall (dim : nat) (t : kdtree) (q : list R),
  tree_ok dim t -> length q = dim ->
  (forall j, (j < length (kd_pts t))%nat -> sqdist ROps q (point (kd_pts t) j) < nmaxval ROps) ->
  forall k, (1 <= k)%nat ->
  let out := knn ROps t q k in
  let all := map (fun j => (sqdist ROps q (point (kd_pts t) j), j)) (seq 0 (length (kd_pts t))) in
  StronglySorted (fun a b => fst a <= fst b) out /\
  length out = Nat.min k (length all) /\
  exists rest, Permutation all (out ++ rest) /\ forall x y, In x out -> In y rest -> fst x <= fst y.
Proof. exact knn_correct. Qed.
Print Assumptions C08_knn_correct.

(* each reported index is valid and has its reported squared distance; indices are pairwise distinct *)
Theorem C08_knn_pairs_genuine : forall (dim : nat) (t : kdtree) (q : list R),
  tree_ok dim t -> length q = dim ->
  (forall j, (j < length (kd_pts t))%nat -> sqdist ROps q (point (kd_pts t) j) < nmaxval ROps) ->
  forall k, (1 <= k)%nat ->
  Forall (fun di => (snd di < length (kd_pts t))%nat /\ fst di = sqdist ROps q (point (kd_pts t) (snd di)))
         (knn ROps t q k).
Proof. exact knn_pairs_genuine. Qed.
Print Assumptions C08_knn_pairs_genuine.

Theorem C08_knn_indices_distinct : forall (dim : nat) (t : kdtree) (q : list R),
  tree_ok dim t -> length q = dim ->
  (forall j, (j < length (kd_pts t))%nat -> sqdist ROps q (point (kd_pts t) j) < nmaxval ROps) ->
  forall k, (1 <= k)%nat -> NoDup (map snd (knn ROps t q k)).
Proof. exact knn_indices_distinct. Qed.
Print Assumptions C08_knn_indices_distinct.

(* k = 1 (findNearestNeighbor): the index of a point at minimal distance, with that squared distance *)
Theorem C08_nn_correct : forall (dim : nat) (t : kdtree) (q : list R),
  tree_ok dim t -> length q = dim ->
  (forall j, (j < length (kd_pts t))%nat -> sqdist ROps q (point (kd_pts t) j) < nmaxval ROps) ->
  exists d i, nn ROps t q = Some (d, i) /\ (i < length (kd_pts t))%nat /\
              d = sqdist ROps q (point (kd_pts t) i) /\
              forall j, (j < length (kd_pts t))%nat -> d <= sqdist ROps q (point (kd_pts t) j).
Proof. exact nn_correct. Qed.
Print Assumptions C08_nn_correct.

(* the extracted checker that is run on every dumped tree implies the hypothesis of the theorems *)
Theorem C08_tree_ok_b_sound : forall (dim : nat) (t : kdtree),
  tree_ok_b ROps dim t = true -> tree_ok dim t.
Proof. exact tree_ok_b_sound. Qed.
Print Assumptions C08_tree_ok_b_sound.

(* constant regenerated from nanoflann.hpp on every run: SearchParams' default eps is 0, so epsError = 1 *)
Theorem C08_search_is_exact : nanoflann_search_eps = 0%Z /\ eps_error ROps = 1.
Proof. split; [reflexivity|exact eps_error_one]. Qed.
Print Assumptions C08_search_is_exact.

(* ---- non-vacuity: a tree meeting tree_ok, and the theorems applied to it ---- *)
Definition ex_tree : kdtree (T:=R) :=
  {| kd_root := Split 0 1 3 (Leaf 0 2) (Leaf 2 3);
     kd_vind := [1; 0; 2]%nat;
     kd_bbox := [(0, 3); (0, 5)];
     kd_pts := [[1; 5]; [0; 0]; [3; 2]] |}.

Example ex_tree_ok : tree_ok 2 ex_tree.
Proof.
  constructor; simpl.
  - lia.
  - reflexivity.
  - apply perm_swap.
  - reflexivity.
  - intros p [<-|[<-|[<-|[]]]]; simpl; lra.
  - repeat split; try lia; try lra.
    + intros pos [<-|[<-|[]]]; unfold coord; simpl; lra.
    + intros pos [<-|[]]; unfold coord; simpl; lra.
Qed.

Example ex_tree_nn : forall q, length q = 2%nat ->
  (forall j, (j < 3)%nat -> sqdist ROps q (point (kd_pts ex_tree) j) < nmaxval ROps) ->
  exists d i, nn ROps ex_tree q = Some (d, i) /\ (i < 3)%nat /\
              forall j, (j < 3)%nat -> d <= sqdist ROps q (point (kd_pts ex_tree) j).
Proof.
  intros q Hq Hm. destruct (C08_nn_correct 2 ex_tree q ex_tree_ok Hq Hm) as (d & i & A & B & _ & C).
  exists d, i. auto.
Qed.

(* the overflow guard is satisfiable: the query (1,1) *)
Example ex_no_overflow : forall j, (j < 3)%nat -> sqdist ROps [1; 1] (point (kd_pts ex_tree) j) < nmaxval ROps.
Proof.
  intros j Hj. pose proof maxval_big as M.
  destruct j as [|[|[|j]]]; [| | |lia]; unfold sqdist, point; simpl; unfold nsq; simpl; lra.
Qed.
