(* SrcTieC18.v — the check-ups and the status algebra regenerated from the clang AST of the current source
   (gen/SrcDiag.v, written on every run by translate/tr_C18_diag.py) ARE the functions of DiagModel.v that the theorems
   of Properties_C18.v are about — for EVERY numeric dictionary N (so also for the binary64 one that is executed and for
   the rounded dictionary of DiagFloat.v), not only over the reals: the generated terms and the model perform the same
   dictionary operations in the same order.

   What is generated (see translate/imptrans.py for the vocabulary):
     Checkup<double>::setDiagnostic_ / setValue_ / getStatus_ / timeout, the three evaluate functions built on them,
     CheckupReliability::setDiagnostic_ / setRelabilityValue_ / evaluate, worse, worseStatus (its iterator loop as a
     structural fix; None = dereferencing / incrementing the end iterator), allOK, operator+= on reports.
   A state transformer returns the fields it writes (by name) and then the returned value; the lemmas pack them back into
   the model's records, keeping the fields the C++ does not write.

   The proofs are by unfolding and case analysis on the comparisons, so renaming a local, hoisting `cmp - eps` into a
   local, turning `a > b` into `b < a` or reordering independent statements leaves them provable; replacing `<` by `<=`,
   exchanging the verdicts of two branches, leaving the loop of worseStatus early, or folding with something else than
   worse does not. *)
From Coq Require Import ZArith List Bool Lia.
From Romea Require Import Num DiagModel.
From Romea.gen Require Import RepoConstants SrcDiag.
Import ListNotations.

(* every comparison of the dictionary met in the goal is split; the remaining equations are closed by computation *)
Ltac split_cmps N :=
  repeat match goal with
         | |- context [nltb N ?a ?b] => destruct (nltb N a b) eqn:?
         | |- context [nleb N ?a ?b] => destruct (nleb N a b) eqn:?
         | |- context [neqb N ?a ?b] => destruct (neqb N a b) eqn:?
         end.
Ltac tie_close N := cbv zeta; split_cmps N; try reflexivity; try congruence.

Section Tie.
Context {T : Type} (N : NumOps T).

(* ---- the helpers of Checkup<T> ---- *)
Lemma tie_setDiagnostic s m (r : creport (T:=T)) :
  src_checkup_setDiagnostic s m r = {| r_diag := {| d_status := s; d_suffix := m |}; r_info := r_info r |}.
Proof. reflexivity. Qed.

Lemma tie_setValue v (r : creport (T:=T)) :
  src_checkup_setValue v r = {| r_diag := r_diag r; r_info := Some v |}.
Proof. reflexivity. Qed.

Lemma tie_getStatus (r : creport (T:=T)) : src_checkup_getStatus r = d_status (r_diag r).
Proof. reflexivity. Qed.

Definition pack (c : checkup (T:=T)) (r : creport (T:=T)) : checkup :=
  {| c_cmp := c_cmp c; c_eps := c_eps c; c_report := r |}.

Lemma tie_checkup_timeout (c : checkup (T:=T)) :
  pack c (src_checkup_timeout (c_report c)) = checkup_timeout c.
Proof. reflexivity. Qed.

(* ---- the three threshold check-ups: arguments of the generated functions = value, epsilon_, report_, value_to_compare_with_ ---- *)
Lemma tie_equal_to (c : checkup (T:=T)) v :
  (let '(r, s) := src_equal_to_evaluate N v (c_eps c) (c_report c) (c_cmp c) in (pack c r, s)) = eval_equal_to N c v.
Proof.
  unfold src_equal_to_evaluate, eval_equal_to, src_checkup_setDiagnostic, src_checkup_setValue, src_checkup_getStatus,
    set_diag, pack. tie_close N.
Qed.

Lemma tie_greater_than (c : checkup (T:=T)) v :
  (let '(r, s) := src_greater_than_evaluate N v (c_eps c) (c_report c) (c_cmp c) in (pack c r, s)) = eval_greater_than N c v.
Proof.
  unfold src_greater_than_evaluate, eval_greater_than, src_checkup_setDiagnostic, src_checkup_setValue, src_checkup_getStatus,
    set_diag, pack. tie_close N.
Qed.

Lemma tie_lower_than (c : checkup (T:=T)) v :
  (let '(r, s) := src_lower_than_evaluate N v (c_eps c) (c_report c) (c_cmp c) in (pack c r, s)) = eval_lower_than N c v.
Proof.
  unfold src_lower_than_evaluate, eval_lower_than, src_checkup_setDiagnostic, src_checkup_setValue, src_checkup_getStatus,
    set_diag, pack. tie_close N.
Qed.

(* ---- CheckupReliability: arguments = reliability, high_reliability_theshold_ (c_eps), low_reliability_theshold_ (c_cmp), report_ ---- *)
Lemma tie_reliability (c : checkup (T:=T)) v :
  (let '(r, s) := src_reliability_evaluate N v (c_eps c) (c_cmp c) (c_report c) in (pack c r, s)) = eval_reliability N c v.
Proof.
  unfold src_reliability_evaluate, eval_reliability, src_reliability_setDiagnostic, src_reliability_setValue, set_diag, pack.
  tie_close N.
Qed.

End Tie.

(* ---- status algebra ---- *)
Lemma tie_worse a b : src_worse a b = worse a b.
Proof. destruct a, b; reflexivity. Qed.

(* the iterator loop `while (++it != cend) status = worse(status, it->status)` started on the first element is the fold of
   worse over the rest of the list; it never increments the end iterator.  One pass of the generated loop (first
   lemma, by computation on the generated fix) absorbs the second element into the first; induction does the rest. *)
Lemma worseStatus_step d x r :
  src_worseStatus (d :: x :: r)
  = src_worseStatus ({| d_status := worse (d_status d) (d_status x); d_suffix := d_suffix d |} :: r).
Proof. reflexivity. Qed.

Lemma tie_worseStatus l : src_worseStatus l = worseStatus l.
Proof.
  destruct l as [|d r]; [reflexivity|]. unfold worseStatus. revert d.
  induction r as [|x r IH]; intros d; [reflexivity|].
  rewrite worseStatus_step, IH. reflexivity.
Qed.

Lemma tie_allOK l : src_allOK l = allOK l.
Proof. unfold src_allOK, allOK. rewrite tie_worseStatus. destruct (worseStatus l); reflexivity. Qed.

(* operator+=(report1, report2): the fields of report1 after the call *)
Lemma tie_report_append r1 r2 :
  src_report_append (rep_diags r1) (rep_info r1) (rep_diags r2) (rep_info r2)
  = (rep_diags (report_append r1 r2), rep_info (report_append r1 r2)).
Proof. reflexivity. Qed.
