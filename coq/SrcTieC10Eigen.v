(* SrcTieC10Eigen.v — the angle -> rotation builders of EulerAngles.hpp, regenerated from the clang AST of their instantiation at
   double by the symbolic Eigen evaluator (translate/eigensym.py, translate/tr_C10_eigensym.py -> gen/SrcEigenC10.v), equal the
   models of AnglesModel.v the C10 theorems are about (real instance).  Eigen's own formulas (AngleAxis -> Quaternion with
   Scalar(0.5), the quaternion product, toRotationMatrix, normalized) are the evaluator's; the lemmas tie how the source
   composes them: which angle goes with which axis, the order Z * Y * X, the conversion to a matrix. *)
From Coq Require Import Reals ZArith Lra List String.
From Romea Require Import Num NumR AnglesModel AnglesRoundtrip SrcTie SrcTieAngles.
From Romea.gen Require Import SrcFunsC10 SrcEigenC10.
Import ListNotations.
Local Open Scope R_scope.

Lemma half_lit : IZR 5 * powerRZ 10 (-1) = / (1 + 1).
Proof. simpl. field. Qed.
Lemma half_model : 1 / (1 + 1) = / (1 + 1).
Proof. field. Qed.

Ltac norm10 :=
  lazy beta zeta iota delta
    [src_eulerAngleToRotation2D src_eulerAnglesToQuaternion src_eulerAnglesToRotation3D src_quaternionToEulerAngles
     eulerAngleToRotation2D eulerAnglesToQuaternion eulerAnglesToRotation3D quat_to_mat qmul q_axis_x q_axis_y q_axis_z
     qnormalized qnorm2 nhalf ntwo
     m00 m01 m02 m10 m11 m12 m20 m21 m22 v0 v1 v2 a00 a01 a10 a11 qw qx qy qz fst snd];
  dict; rewrite ?half_lit, ?half_model; change (IZR 2) with (1 + 1); change (IZR 1) with 1.
Ltac split10 :=
  repeat match goal with
         | |- mkM3 _ _ _ _ _ _ _ _ _ = mkM3 _ _ _ _ _ _ _ _ _ => f_equal
         | |- mkV3 _ _ _ = mkV3 _ _ _ => f_equal
         | |- mkM2 _ _ _ _ = mkM2 _ _ _ _ => f_equal
         | |- mkQ _ _ _ _ = mkQ _ _ _ _ => f_equal
         end.

Lemma tie_eulerAngleToRotation2D a : src_eulerAngleToRotation2D ROps a = eulerAngleToRotation2D ROps a.
Proof. norm10. reflexivity. Qed.

Lemma tie_eulerAnglesToQuaternion (e : vec3 R) : src_eulerAnglesToQuaternion ROps e = eulerAnglesToQuaternion ROps e.
Proof. destruct e. norm10. split10; ring. Qed.

Lemma tie_eulerAnglesToRotation3D (e : vec3 R) : src_eulerAnglesToRotation3D ROps e = eulerAnglesToRotation3D ROps e.
Proof. destruct e. norm10. split10; ring. Qed.

(* quaternionToEulerAngles: the model answers None where asin would be NaN; on the domain of asin it is the source's triple *)
Lemma triple_eta (t : R * R * R) :
  (let '(r, p, y) := t in Some (mkV3 r p y)) = Some (mkV3 (fst (fst t)) (snd (fst t)) (snd t)).
Proof. destruct t as [[r p] y]. reflexivity. Qed.

Lemma tie_quaternionToEulerAngles (q : quat R) :
  nleb ROps (nabs ROps (m20 (quat_to_mat ROps (qnormalized ROps q)))) (n_one ROps) = true ->
  quaternionToEulerAngles ROps ROps idR idR q = Some (src_quaternionToEulerAngles ROps q).
Proof.
  intros H. unfold quaternionToEulerAngles. rewrite (tie_rotation3DToEulerAngles _ H). clear H.
  rewrite triple_eta. f_equal. destruct q as [w x y z].
  unfold src_quaternionToEulerAngles, qnormalized, qnorm2, quat_to_mat, ntwo. cbv zeta. cbn [qw qx qy qz]. dict.
  change (IZR 2) with (1 + 1); change (IZR 1) with 1; change (IZR 0) with 0.
  match goal with |- context [Rltb 0 ?s] => destruct (Rltb 0 s) end;
    cbn [m00 m01 m02 m10 m11 m12 m20 m21 m22 qw qx qy qz];
    match goal with |- mkV3 (fst (fst ?a)) _ _ = mkV3 (fst (fst ?b)) _ _ => replace a with b; [reflexivity|] end;
    f_equal; ring.
Qed.

(* ---- polar / spherical conversions (include/romea_core_common/coordinates/*.hpp) ---- *)
Lemma tie_toPolar x y :
  src_toPolar_outputs = ["range_"; "azimut_"]%string /\ src_toPolar ROps (x, y) = toPolar ROps x y.
Proof. split; reflexivity. Qed.

Lemma tie_polarToCartesian r az :
  src_polarToCartesian_inputs = ["arg0.azimut_"; "arg0.range_"]%string /\
  src_polarToCartesian ROps az r = polarToCartesian ROps r az.
Proof. split; reflexivity. Qed.

(* the model answers None where the C++ divides 0/0 (range = 0) or acos is NaN; elsewhere it is the source's triple *)
Lemma tie_toSpherical x y z :
  src_toSpherical_outputs = ["range_"; "azimut_"; "elevation_"]%string /\
  (let r := nsqrt ROps (x * x + y * y + z * z) in
   nltb ROps 0 r = true -> nleb ROps (nabs ROps (z / r)) 1 = true ->
   toSpherical ROps x y z = Some (src_toSpherical ROps (mkV3 x y z))).
Proof.
  split; [reflexivity|]. unfold toSpherical. cbv zeta. dict. intros H1 H2. rewrite H1, H2. reflexivity.
Qed.

Lemma tie_sphericalToCartesian r az el :
  src_sphericalToCartesian_inputs = ["arg0.azimut_"; "arg0.elevation_"; "arg0.range_"]%string /\
  src_sphericalToCartesian ROps az el r = sphericalToCartesian ROps r az el.
Proof. split; reflexivity. Qed.

Lemma source_tie_coordinates :
  (forall x y, src_toPolar ROps (x, y) = toPolar ROps x y) /\
  (forall r az, src_polarToCartesian ROps az r = polarToCartesian ROps r az) /\
  (forall x y z, let r := nsqrt ROps (x * x + y * y + z * z) in
     nltb ROps 0 r = true -> nleb ROps (nabs ROps (z / r)) 1 = true ->
     toSpherical ROps x y z = Some (src_toSpherical ROps (mkV3 x y z))) /\
  (forall r az el, src_sphericalToCartesian ROps az el r = sphericalToCartesian ROps r az el) /\
  (src_toPolar_outputs = ["range_"; "azimut_"]%string /\ src_polarToCartesian_inputs = ["arg0.azimut_"; "arg0.range_"]%string /\
   src_toSpherical_outputs = ["range_"; "azimut_"; "elevation_"]%string /\
   src_sphericalToCartesian_inputs = ["arg0.azimut_"; "arg0.elevation_"; "arg0.range_"]%string).
Proof.
  split; [intros; apply tie_toPolar|]. split; [intros; apply tie_polarToCartesian|].
  split; [intros x y z; exact (proj2 (tie_toSpherical x y z))|]. split; [intros; apply tie_sphericalToCartesian|].
  repeat split.
Qed.

Lemma source_tie_euler_builders :
  (forall a, src_eulerAngleToRotation2D ROps a = eulerAngleToRotation2D ROps a) /\
  (forall e : vec3 R, src_eulerAnglesToQuaternion ROps e = eulerAnglesToQuaternion ROps e) /\
  (forall e : vec3 R, src_eulerAnglesToRotation3D ROps e = eulerAnglesToRotation3D ROps e) /\
  (forall q : quat R, nleb ROps (nabs ROps (m20 (quat_to_mat ROps (qnormalized ROps q)))) (n_one ROps) = true ->
     quaternionToEulerAngles ROps ROps idR idR q = Some (src_quaternionToEulerAngles ROps q)).
Proof.
  split; [exact tie_eulerAngleToRotation2D|split; [exact tie_eulerAnglesToQuaternion|
  split; [exact tie_eulerAnglesToRotation3D|exact tie_quaternionToEulerAngles]]].
Qed.
