(* Properties_C10.v — placeholder, filled below *)
From Coq Require Import Reals.
From Romea Require Import Num NumR AnglesModel.
