(* Properties_C10.v — C10: angle, rotation and coordinate parametrisations are mutually consistent.
   Statements only (closed by [exact]); over the real-number instance ROps of the model AnglesModel.v, except the last
   section (names ending in _binary64): the two angle normalisers at the rounded binary64 dictionary B64Ops.
   Notation:  rot_zyx x y z = Rz(z)*Ry(y)*Rx(x)  (x = roll, y = pitch, z = yaw);
              r2e = rotation3DToEulerAngles, q2e = quaternionToEulerAngles, r2a/a2r the planar pair,
              b02 = between0And2Pi, bpi = betweenMinusPiAndPi  (Scalar = double = R);
              cong2pi a b := exists k : Z, a = b + 2*PI*k. *)
From Coq Require Import Reals ZArith Lra.
From Romea Require Import Num NumR AnglesModel AnglesProofs AnglesRoundtrip AnglesCoords.
Local Open Scope R_scope.

(* --- all produced matrices are proper rotations --- *)
Theorem C10_rzyx_proper_rotation : forall x y z,
  mmul3 ROps (mtrans3 (rot_zyx x y z)) (rot_zyx x y z) = mid3 ROps /\ det3 ROps (rot_zyx x y z) = 1.
Proof. exact rzyx_proper. Qed.
Print Assumptions C10_rzyx_proper_rotation.

(* --- the three builders produce the same matrix: quaternion -> matrix, and SmartRotation3D::R --- *)
Theorem C10_quat_builder_eq_matrix_builder : forall x y z,
  eulerAnglesToRotation3D ROps (mkV3 x y z) = rot_zyx x y z /\
  quat_to_mat ROps (eulerAnglesToQuaternion ROps (mkV3 x y z)) = rot_zyx x y z /\
  qnorm2 ROps (eulerAnglesToQuaternion ROps (mkV3 x y z)) = 1 /\
  sR (smart_init ROps x y z) = rot_zyx x y z.
Proof.
  intros x y z. split; [exact (quat_builder_eq_matrix_builder x y z)|].
  split; [exact (quat_builder_eq_matrix_builder x y z)|].
  split; [exact (euler_quat_unit x y z)|exact (smart_R_is_rzyx x y z)].
Qed.
Print Assumptions C10_quat_builder_eq_matrix_builder.

(* --- angles -> rotation -> angles: the same angles modulo 2*pi, each reported in [0, 2*pi);
       any roll and yaw, |pitch| < pi/2 --- *)
Theorem C10_angles_roundtrip : forall roll pitch yaw, - PI / 2 < pitch < PI / 2 ->
  exists a b c,
    r2e (eulerAnglesToRotation3D ROps (mkV3 roll pitch yaw)) = Some (mkV3 a b c) /\
    cong2pi a roll /\ cong2pi b pitch /\ cong2pi c yaw /\
    0 <= a < 2 * PI /\ 0 <= b < 2 * PI /\ 0 <= c < 2 * PI.
Proof. intros x y z H. rewrite quat_builder_eq_matrix_builder. exact (angles_roundtrip_rzyx x y z H). Qed.
Print Assumptions C10_angles_roundtrip.

(* --- angles -> quaternion -> angles --- *)
Theorem C10_quaternion_angles_roundtrip : forall roll pitch yaw, - PI / 2 < pitch < PI / 2 ->
  exists a b c,
    q2e (eulerAnglesToQuaternion ROps (mkV3 roll pitch yaw)) = Some (mkV3 a b c) /\
    cong2pi a roll /\ cong2pi b pitch /\ cong2pi c yaw /\
    0 <= a < 2 * PI /\ 0 <= b < 2 * PI /\ 0 <= c < 2 * PI.
Proof. exact quat_angles_roundtrip. Qed.
Print Assumptions C10_quaternion_angles_roundtrip.

(* --- rotation -> angles -> rotation: identity on every proper rotation off gimbal lock --- *)
Theorem C10_rotation_roundtrip : forall m : mat3 R,
  mmul3 ROps (mtrans3 m) m = mid3 ROps -> det3 ROps m = 1 -> Rabs (m20 m) < 1 ->
  exists e, r2e m = Some e /\ eulerAnglesToRotation3D ROps e = m.
Proof.
  intros m Ho Hd H. destruct (rotation_roundtrip_lemma m (conj Ho Hd) H) as [e [E1 E2]].
  exists e. split; [exact E1|]. destruct e as [a b c]. rewrite quat_builder_eq_matrix_builder. exact E2.
Qed.
Print Assumptions C10_rotation_roundtrip.

(* --- non-unit quaternions: quaternionToEulerAngles normalises, so scale is irrelevant, and the matrix it
       extracts from is a proper rotation (hence C10_rotation_roundtrip applies to it) --- *)
Theorem C10_quat_scale_invariant : forall s q, 0 < s -> 0 < qnorm2 ROps q ->
  q2e (qscale s q) = q2e q /\ proper_rotation (quat_to_mat ROps (qnormalized ROps q)).
Proof.
  intros s q Hs Hq. destruct (quat_scale_invariant s q Hs Hq) as [E U]. split.
  - unfold q2e, quaternionToEulerAngles. rewrite E. reflexivity.
  - apply quat_to_mat_proper. exact U.
Qed.
Print Assumptions C10_quat_scale_invariant.

(* --- normalisers: congruent modulo 2*pi and inside the advertised interval (for every real input, in
       particular on the asserted domain |x| < 4*pi) --- *)
Theorem C10_normaliser_congruent_in_range : forall x,
  (cong2pi (b02 x) x /\ 0 <= b02 x < 2 * PI) /\ (cong2pi (bpi x) x /\ - PI <= bpi x <= PI).
Proof. intros x. split; [exact (b02_spec x)|exact (bpi_spec x)]. Qed.
Print Assumptions C10_normaliser_congruent_in_range.

(* --- planar pair --- *)
Theorem C10_rot2d_roundtrip :
  (forall a, cong2pi (r2a (a2r a)) a /\ 0 <= r2a (a2r a) < 2 * PI) /\
  (forall a, proper_rotation2 (a2r a)) /\
  (forall m, proper_rotation2 m -> a2r (r2a m) = m).
Proof. split; [exact rot2d_angle_roundtrip|split; [exact a2r_proper|exact rot2d_matrix_roundtrip]]. Qed.
Print Assumptions C10_rot2d_roundtrip.

(* --- polar <-> Cartesian, r > 0 --- *)
Theorem C10_polar_roundtrip :
  (forall x y, 0 < x * x + y * y ->
     let '(r, az) := toPolar ROps x y in
     polarToCartesian ROps r az = (x, y) /\ r * r = x * x + y * y /\ 0 < r /\ - PI < az <= PI) /\
  (forall r az, 0 < r -> - PI < az <= PI ->
     let '(x, y) := polarToCartesian ROps r az in toPolar ROps x y = (r, az)).
Proof. split; [exact polar_roundtrip|exact polar_roundtrip_inv]. Qed.
Print Assumptions C10_polar_roundtrip.

(* --- spherical <-> Cartesian, r > 0 (elevation is the polar angle from +z; the azimut is not
       determined on the z axis, so the inverse direction asks 0 < elevation < pi) --- *)
Theorem C10_spherical_roundtrip :
  (forall x y z, 0 < x * x + y * y + z * z ->
     exists r az el, toSpherical ROps x y z = Some (r, az, el) /\
       sphericalToCartesian ROps r az el = mkV3 x y z /\
       r * r = x * x + y * y + z * z /\ 0 < r /\ - PI <= az <= PI /\ 0 <= el <= PI) /\
  (forall r az el, 0 < r -> - PI < az <= PI -> 0 < el < PI ->
     let p := sphericalToCartesian ROps r az el in toSpherical ROps (v0 p) (v1 p) (v2 p) = Some (r, az, el)).
Proof. split; [exact spherical_roundtrip|exact spherical_roundtrip_inv]. Qed.
Print Assumptions C10_spherical_roundtrip.

(* --- non-vacuity --- *)
Example C10_ex_rotation_hyp : (* the identity is a proper rotation off gimbal lock *)
  mmul3 ROps (mtrans3 (mid3 ROps)) (mid3 ROps) = mid3 ROps /\ det3 ROps (mid3 ROps) = 1 /\ Rabs (m20 (mid3 ROps)) < 1.
Proof.
  unfold mmul3, mtrans3, mid3, det3. rcbn. split; [f_equal; ring|]. split; [ring|]. rewrite Rabs_R0. lra.
Qed.
Example C10_ex_pitch : - PI / 2 < 1 < PI / 2.
Proof. pose proof PI_RGT_0. pose proof (PI2_3_2). lra. Qed.
Example C10_ex_quat : 0 < qnorm2 ROps (mkQ 2 0 0 0).
Proof. unfold qnorm2. rcbn. lra. Qed.
Example C10_ex_rot2 : proper_rotation2 (mkM2 0 (-1) 1 0).
Proof. unfold proper_rotation2. cbn. repeat split; ring. Qed.

(* --- SOURCE TIE (translator translate/srcfuns.py): the two angle normalisers and the rotation -> angle extractors of
       EulerAngles.hpp, regenerated on every run from the clang AST of their instantiation at double (gen/SrcFunsC10.v),
       are the model functions b02 / bpi / r2a / r2e of the theorems above --- *)
From Romea Require Import SrcTieAngles.
From Romea.gen Require Import SrcFunsC10.
Theorem C10_source_tie_normalisers : forall v,
  src_between0And2Pi ROps v = b02 v /\ src_betweenMinusPiAndPi ROps v = bpi v.
Proof. intros v. exact (conj (tie_between0And2Pi v) (tie_betweenMinusPiAndPi v)). Qed.
Print Assumptions C10_source_tie_normalisers.

Theorem C10_source_tie_rotation_to_angles :
  (forall m : mat2 R, src_rotation2DToEulerAngle ROps (a00 m) (a01 m) (a10 m) (a11 m) = rotation2DToEulerAngle ROps ROps idR idR m) /\
  (forall m : mat3 R, nleb ROps (nabs ROps (m20 m)) (n_one ROps) = true ->
     rotation3DToEulerAngles ROps ROps idR idR m =
     (let '(r, p, y) := src_rotation3DToEulerAngles ROps (m00 m) (m10 m) (m20 m) (m21 m) (m22 m) in Some (mkV3 r p y))).
Proof. exact (conj tie_rotation2DToEulerAngle tie_rotation3DToEulerAngles). Qed.
Print Assumptions C10_source_tie_rotation_to_angles.

(* polar / spherical maps: every overload (scalar, Cartesian point, homogeneous point) of PolarTransform /
   SphericalTransform, regenerated from the source, is the model function of the round-trip theorems below — for every
   numeric dictionary.  In particular the homogeneous overloads measure the range over the Cartesian part only. *)
From Romea Require Import SrcTiePolar.
Theorem C10_source_tie_polar : forall (T : Type) (N : NumOps T) (x y r az : T),
  (toPolar N x y = (src_polarRange N x y, src_polarAzimut N x y) /\
   toPolar N x y = (src_polarRangeCartesian N x y, src_polarAzimutCartesian N x y) /\
   toPolar N x y = (src_polarRangeHomogeneous N x y, src_polarAzimutHomogeneous N x y)) /\
  polarToCartesian N r az = (src_polarX N r az, src_polarY N r az).
Proof. intros T N x y r az. exact (conj (tie_toPolar N x y) (tie_polarToCartesian N r az)). Qed.
Print Assumptions C10_source_tie_polar.

Theorem C10_source_tie_spherical : forall (T : Type) (N : NumOps T),
  (forall r az el, sphericalToCartesian N r az el = mkV3 (src_sphX N r az el) (src_sphY N r az el) (src_sphZ N r el)) /\
  (forall x y z r az el, toSpherical N x y z = Some (r, az, el) ->
     r = src_sphRange N x y z /\ az = src_sphAzimut N x y /\ el = src_sphElevation N z (src_sphRange N x y z) /\
     r = src_sphRangeCartesian N x y z /\ el = src_sphElevationCartesian N x y z /\
     r = src_sphRangeHomogeneous N x y z /\ el = src_sphElevationHomogeneous N x y z).
Proof. intros T N. exact (conj (tie_sphericalToCartesian N) (tie_toSpherical N)). Qed.
Print Assumptions C10_source_tie_spherical.

(* ====================================================================================================================
   FLOATING POINT (IEEE-754 binary64), sentence "angle normalisers return a value congruent to their input modulo 2*pi
   inside their advertised interval".  The SAME model functions, instantiated at the rounded dictionary B64Ops
   (GridMapFloat.v: + and - are the real operation followed by one rounding to nearest-even in FLT(-1074,53), comparisons
   exact, npi = the double nearest to pi, fmod = the exact real remainder — exact in double by C10_fmod_exact_binary64).
     b64 x        : x is a binary64 number            rnd64 : rounding to nearest-even
     M_PI64  = rnd64 PI   (the constant M_PI)         M_2PI64 = 2 * M_PI64   (M_2PI; M_4PI = 2 * M_2PI64)
   Lemmas in AnglesFloat.v.  Trusted: the hardware/compiler arithmetic is that rounding (one rounding per C++ operation:
   no FMA contraction, no x87 excess precision), std::fmod returns the exact remainder (IEEE-754 / C Annex F), the
   exponent range is not exceeded (every quantity here is below 16). *)
From Flocq Require Import Core.
From Romea Require Import GridMapFloat AnglesFloat AnglesFloatTie.

(* --- M_PI is 0x1.921fb54442d18p+1, BELOW pi by 1.2246e-16 (less than half an ulp, 2^-52); M_2PI = 2*M_PI is a double
       (the doubling is exact) and is what the model's constant evaluates to in binary64 --- *)
Theorem C10_M_PI_binary64 :
  npi B64Ops = M_PI64 /\ m_2pi B64Ops = M_2PI64 /\
  M_PI64 = 884279719003555 / 281474976710656 /\ b64 M_PI64 /\ b64 M_2PI64 /\
  12246 / 100000000000000000000 < PI - M_PI64 < 12247 / 100000000000000000000 /\
  Rabs (M_PI64 - PI) <= bpow radix2 (-52).
Proof.
  exact (conj eq_refl (conj m_2pi_b64 (conj M_PI64_val (conj M_PI64_b64 (conj M_2PI64_b64
        (conj M_PI64_err M_PI64_err_half_ulp)))))).
Qed.
Print Assumptions C10_M_PI_binary64.

(* --- std::fmod is exact: the remainder x - y*trunc(x/y) of two floating-point numbers is a floating-point number, in
       FULL generality (every x and every y — also negative or zero —, every precision and minimal exponent; binary64 and
       binary32 spelled out).  Hence leaving nfmod unrounded in the rounded dictionaries is faithful. --- *)
Theorem C10_fmod_exact_binary64 :
  (forall x y, b64 x -> b64 y -> b64 (nfmod B64Ops x y)) /\
  (forall x y, b32 x -> b32 y -> b32 (nfmod B32Ops x y)) /\
  (forall prec emin, Prec_gt_0 prec -> forall x y,
     ffmt prec emin x -> ffmt prec emin y -> ffmt prec emin (nfmod (FlOps prec emin) x y)).
Proof. exact (conj Rfmod_b64 (conj Rfmod_b32 Rfmod_fmt)). Qed.
Print Assumptions C10_fmod_exact_binary64.

(* --- between0And2Pi<double>: for every double v of the asserted domain |v| < M_4PI the result r is a double in the
       CLOSED interval [0, M_2PI] (M_2PI < 2*pi as real numbers, but r = M_2PI is attained: next theorem — the half-open
       [0, 2*pi) of the real theorem closes in double), congruent to v modulo M_2PI up to ONE rounding: for some integer
       k in -2..1, |r - (v - k*M_2PI)| <= ulp(M_2PI)/2 = 2^-51, with equality r = v - k*M_2PI whenever the fmod is >= 0
       (no addition) or <= -M_PI (the addition is exact by Sterbenz); and the distance to the congruence modulo the TRUE
       2*pi is at most 2^-51 + |k| * 2|M_PI - pi| <= 9.4e-16. --- *)
Theorem C10_between0And2Pi_binary64 : forall v, b64 v -> Rabs v < 2 * M_2PI64 ->
  let r := between0And2Pi B64Ops idR idR v in
  exists k : Z, (-2 <= k <= 1)%Z /\
    0 <= r <= M_2PI64 /\ M_2PI64 < 2 * PI /\ b64 r /\
    Rabs (r - (v - IZR k * M_2PI64)) <= bpow radix2 (-51) /\
    (0 <= nfmod B64Ops v M_2PI64 \/ nfmod B64Ops v M_2PI64 <= - M_PI64 -> r = v - IZR k * M_2PI64) /\
    Rabs (r - (v - IZR k * (2 * PI))) <= bpow radix2 (-51) + IZR (Z.abs k) * (2 * Rabs (M_PI64 - PI)) /\
    Rabs (r - (v - IZR k * (2 * PI))) <= 94 / 100000000000000000.
Proof. exact b02_64_full. Qed.
Print Assumptions C10_between0And2Pi_binary64.

(* --- the closed upper end IS attained: every v in (-2^-51, 0) — e.g. every negative double of magnitude below 4.4e-16,
       subnormals included — is sent to M_2PI itself (v + M_2PI rounds to M_2PI), not to a value below it --- *)
Theorem C10_between0And2Pi_reaches_2pi_binary64 : forall v, - bpow radix2 (-51) < v < 0 ->
  between0And2Pi B64Ops idR idR v = M_2PI64.
Proof. exact b02_64_reaches_2pi. Qed.
Print Assumptions C10_between0And2Pi_reaches_2pi_binary64.

(* --- between0And2Pi<float> computes in double and rounds the RETURN value to binary32 (rnd32): the result lies in
       [0, 6.2831855f], and for the same tiny negative inputs it is the float 13176795 * 2^-21 = 6.2831855, which is
       ABOVE the real 2*pi by 1.7e-7 --- *)
Theorem C10_between0And2Pi_float_return_binary64 :
  (forall v, b64 v -> 0 <= between0And2Pi B64Ops idR rnd32 v <= 13176795 / 2097152) /\
  (forall v, - bpow radix2 (-51) < v < 0 ->
     between0And2Pi B64Ops idR rnd32 v = 13176795 / 2097152 /\
     2 * PI + 17 / 100000000 < between0And2Pi B64Ops idR rnd32 v).
Proof. exact (conj b02_32_range b02_32_exceeds_2pi). Qed.
Print Assumptions C10_between0And2Pi_float_return_binary64.

(* --- betweenMinusPiAndPi<double>: for every double v with |v| < M_4PI the result r is a double in [-M_PI, M_PI]
       (inside (-pi, pi) as real numbers since M_PI < pi; both ends attained) and r = v - k*M_2PI EXACTLY for an integer
       k in -2..2: both conditional operations (value + M_2PI for value < -M_PI, value - M_2PI for value > M_PI) are exact
       by Sterbenz' lemma, so NO rounding occurs at all.  Distance to the true 2*pi congruence <= |k|*2|M_PI - pi| <= 4.9e-16. --- *)
Theorem C10_betweenMinusPiAndPi_binary64 : forall v, b64 v -> Rabs v < 2 * M_2PI64 ->
  let r := betweenMinusPiAndPi B64Ops idR idR v in
  exists k : Z, (-2 <= k <= 2)%Z /\
    - M_PI64 <= r <= M_PI64 /\ M_PI64 < PI /\ b64 r /\
    r = v - IZR k * M_2PI64 /\
    Rabs (r - (v - IZR k * (2 * PI))) <= IZR (Z.abs k) * (2 * Rabs (M_PI64 - PI)) /\
    Rabs (r - (v - IZR k * (2 * PI))) <= 49 / 100000000000000000.
Proof. exact bpi_64_full. Qed.
Print Assumptions C10_betweenMinusPiAndPi_binary64.

(* --- SOURCE TIE in binary64: the normalisers regenerated from the clang AST of the current source, instantiated at the
       binary64 dictionary, are the functions of the four theorems above --- *)
Theorem C10_source_tie_normalisers_binary64 : forall v,
  src_between0And2Pi B64Ops v = between0And2Pi B64Ops idR idR v /\
  src_betweenMinusPiAndPi B64Ops v = betweenMinusPiAndPi B64Ops idR idR v.
Proof. intros v. exact (conj (tie_between0And2Pi_b64 v) (tie_betweenMinusPiAndPi_b64 v)). Qed.
Print Assumptions C10_source_tie_normalisers_binary64.

(* --- concrete binary64 inputs (non-vacuity and evaluation) --- *)
Example C10_ex_b64_domain : b64 (-1) /\ Rabs (-1) < 2 * M_2PI64 /\ b64 7 /\ Rabs 7 < 2 * M_2PI64 /\ b64 4 /\
  b64 (- bpow radix2 (-70)) /\ - bpow radix2 (-51) < - bpow radix2 (-70) < 0.
Proof.
  pose proof M_2PI64_box. split; [exact b64_m1|]. split; [rewrite Rabs_left; lra|]. split; [exact b64_7|].
  split; [rewrite Rabs_pos_eq; lra|]. split; [exact b64_4|]. split; [exact b64_tiny|].
  split; [apply Ropp_lt_contravar, bpow_lt; reflexivity|pose proof (bpow_gt_0 radix2 (-70)); lra].
Qed.
Example C10_ex_between0And2Pi_binary64 :
  between0And2Pi B64Ops idR idR (-1) = M_2PI64 - 1 /\                       (* sum exact *)
  between0And2Pi B64Ops idR idR 7 = 7 - M_2PI64 /\                          (* no addition *)
  between0And2Pi B64Ops idR idR (- bpow radix2 (-70)) = M_2PI64 /\          (* -8.5e-22 -> M_2PI *)
  between0And2Pi B64Ops idR idR (- 3 * bpow radix2 (-52)) = M_2PI64 - bpow radix2 (-50) /\   (* rounded: error 2^-52 *)
  between0And2Pi B64Ops idR idR (- 3 * bpow radix2 (-52)) - (- 3 * bpow radix2 (-52) + M_2PI64) = - bpow radix2 (-52).
Proof.
  exact (conj b02_64_ex_m1 (conj b02_64_ex_7 (conj b02_64_ex_tiny b02_64_ex_rounded))).
Qed.
Example C10_ex_betweenMinusPiAndPi_binary64 :
  (betweenMinusPiAndPi B64Ops idR idR 4 = 4 - M_2PI64 /\ betweenMinusPiAndPi B64Ops idR idR (-4) = M_2PI64 - 4) /\
  (betweenMinusPiAndPi B64Ops idR idR M_PI64 = M_PI64 /\ betweenMinusPiAndPi B64Ops idR idR (- M_PI64) = - M_PI64).
Proof. exact (conj bpi_64_ex_4 bpi_64_ex_ends). Qed.

(* ================= SYNTACTIC SOURCE TIE of the builders (translate/eigensym.py, translate/tr_C10_eigensym.py -> gen/SrcEigenC10.v) =================
   eulerAngleToRotation2D, eulerAnglesToQuaternion, eulerAnglesToRotation3D and quaternionToEulerAngles, regenerated on every run
   from the clang AST of their instantiation at double by the symbolic Eigen evaluator, equal the models the theorems above are
   about.  (Eigen's AngleAxis -> Quaternion, quaternion product, toRotationMatrix and normalized are formulas of the evaluator;
   the tie is on the composition written in EulerAngles.hpp: angle index / axis pairing, the order Z * Y * X, the conversions.) *)
From Romea Require Import SrcTieC10Eigen.
From Romea.gen Require Import SrcEigenC10.
Theorem C10_source_tie_euler_builders :
  (forall a, src_eulerAngleToRotation2D ROps a = eulerAngleToRotation2D ROps a) /\
  (forall e : vec3 R, src_eulerAnglesToQuaternion ROps e = eulerAnglesToQuaternion ROps e) /\
  (forall e : vec3 R, src_eulerAnglesToRotation3D ROps e = eulerAnglesToRotation3D ROps e) /\
  (forall q : quat R, nleb ROps (nabs ROps (m20 (quat_to_mat ROps (qnormalized ROps q)))) (n_one ROps) = true ->
     quaternionToEulerAngles ROps ROps idR idR q = Some (src_quaternionToEulerAngles ROps q)).
Proof. exact source_tie_euler_builders. Qed.
Print Assumptions C10_source_tie_euler_builders.

From Coq Require Import List String.
Import ListNotations.
(* the polar / spherical conversions of include/romea_core_common/coordinates (template classes with a base class, getters and
   static member templates, all inlined by the evaluator) — the maps C10_polar_* / C10_spherical_* are about.  toSpherical:
   wherever the C++ does not produce NaN (range > 0, |z/range| <= 1), as the model's guards say. *)
Theorem C10_source_tie_coordinates :
  (forall x y, src_toPolar ROps (x, y) = toPolar ROps x y) /\
  (forall r az, src_polarToCartesian ROps az r = polarToCartesian ROps r az) /\
  (forall x y z, let r := nsqrt ROps (x * x + y * y + z * z) in
     nltb ROps 0 r = true -> nleb ROps (nabs ROps (z / r)) 1 = true ->
     toSpherical ROps x y z = Some (src_toSpherical ROps (mkV3 x y z))) /\
  (forall r az el, src_sphericalToCartesian ROps az el r = sphericalToCartesian ROps r az el) /\
  (src_toPolar_outputs = ["range_"; "azimut_"]%string /\ src_polarToCartesian_inputs = ["arg0.azimut_"; "arg0.range_"]%string /\
   src_toSpherical_outputs = ["range_"; "azimut_"; "elevation_"]%string /\
   src_sphericalToCartesian_inputs = ["arg0.azimut_"; "arg0.elevation_"; "arg0.range_"]%string).
Proof. exact source_tie_coordinates. Qed.
