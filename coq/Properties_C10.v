(* Properties_C10.v — C10: angle, rotation and coordinate parametrisations are mutually consistent.
   Statements only (closed by [exact]); all over the real-number instance ROps of the model AnglesModel.v.
   Notation:  rot_zyx x y z = Rz(z)*Ry(y)*Rx(x)  (x = roll, y = pitch, z = yaw);
              r2e = rotation3DToEulerAngles, q2e = quaternionToEulerAngles, r2a/a2r the planar pair,
              b02 = between0And2Pi, bpi = betweenMinusPiAndPi  (Scalar = double = R);
              cong2pi a b := exists k : Z, a = b + 2*PI*k. *)
From Coq Require Import Reals ZArith Lra.
From Romea Require Import Num NumR AnglesModel AnglesProofs AnglesRoundtrip AnglesCoords.
Local Open Scope R_scope.

(* --- all produced matrices are proper rotations --- *)
Theorem C10_rzyx_proper_rotation : forall x y z,
  mmul3 ROps (mtrans3 (rot_zyx x y z)) (rot_zyx x y z) = mid3 ROps /\ det3 ROps (rot_zyx x y z) = 1.
Proof. exact rzyx_proper. Qed.
Print Assumptions C10_rzyx_proper_rotation.

(* --- the three builders produce the same matrix: quaternion -> matrix, and SmartRotation3D::R --- *)
Theorem C10_quat_builder_eq_matrix_builder : forall x y z,
  eulerAnglesToRotation3D ROps (mkV3 x y z) = rot_zyx x y z /\
  quat_to_mat ROps (eulerAnglesToQuaternion ROps (mkV3 x y z)) = rot_zyx x y z /\
  qnorm2 ROps (eulerAnglesToQuaternion ROps (mkV3 x y z)) = 1 /\
  sR (smart_init ROps x y z) = rot_zyx x y z.
Proof.
  intros x y z. split; [exact (quat_builder_eq_matrix_builder x y z)|].
  split; [exact (quat_builder_eq_matrix_builder x y z)|].
  split; [exact (euler_quat_unit x y z)|exact (smart_R_is_rzyx x y z)].
Qed.
Print Assumptions C10_quat_builder_eq_matrix_builder.

(* --- angles -> rotation -> angles: the same angles modulo 2*pi, each reported in [0, 2*pi);
       any roll and yaw, |pitch| < pi/2 --- *)
Theorem C10_angles_roundtrip : forall roll pitch yaw, - PI / 2 < pitch < PI / 2 ->
  exists a b c,
    r2e (eulerAnglesToRotation3D ROps (mkV3 roll pitch yaw)) = Some (mkV3 a b c) /\
    cong2pi a roll /\ cong2pi b pitch /\ cong2pi c yaw /\
    0 <= a < 2 * PI /\ 0 <= b < 2 * PI /\ 0 <= c < 2 * PI.
Proof. intros x y z H. rewrite quat_builder_eq_matrix_builder. exact (angles_roundtrip_rzyx x y z H). Qed.
Print Assumptions C10_angles_roundtrip.

(* --- angles -> quaternion -> angles --- *)
Theorem C10_quaternion_angles_roundtrip : forall roll pitch yaw, - PI / 2 < pitch < PI / 2 ->
  exists a b c,
    q2e (eulerAnglesToQuaternion ROps (mkV3 roll pitch yaw)) = Some (mkV3 a b c) /\
    cong2pi a roll /\ cong2pi b pitch /\ cong2pi c yaw /\
    0 <= a < 2 * PI /\ 0 <= b < 2 * PI /\ 0 <= c < 2 * PI.
Proof. exact quat_angles_roundtrip. Qed.
Print Assumptions C10_quaternion_angles_roundtrip.

(* --- rotation -> angles -> rotation: identity on every proper rotation off gimbal lock --- *)
Theorem C10_rotation_roundtrip : forall m : mat3 R,
  mmul3 ROps (mtrans3 m) m = mid3 ROps -> det3 ROps m = 1 -> Rabs (m20 m) < 1 ->
  exists e, r2e m = Some e /\ eulerAnglesToRotation3D ROps e = m.
Proof.
  intros m Ho Hd H. destruct (rotation_roundtrip_lemma m (conj Ho Hd) H) as [e [E1 E2]].
  exists e. split; [exact E1|]. destruct e as [a b c]. rewrite quat_builder_eq_matrix_builder. exact E2.
Qed.
Print Assumptions C10_rotation_roundtrip.

(* --- non-unit quaternions: quaternionToEulerAngles normalises, so scale is irrelevant, and the matrix it
       extracts from is a proper rotation (hence C10_rotation_roundtrip applies to it) --- *)
Theorem C10_quat_scale_invariant : forall s q, 0 < s -> 0 < qnorm2 ROps q ->
  q2e (qscale s q) = q2e q /\ proper_rotation (quat_to_mat ROps (qnormalized ROps q)).
Proof.
  intros s q Hs Hq. destruct (quat_scale_invariant s q Hs Hq) as [E U]. split.
  - unfold q2e, quaternionToEulerAngles. rewrite E. reflexivity.
  - apply quat_to_mat_proper. exact U.
Qed.
Print Assumptions C10_quat_scale_invariant.

(* --- normalisers: congruent modulo 2*pi and inside the advertised interval (for every real input, in
       particular on the asserted domain |x| < 4*pi) --- *)
Theorem C10_normaliser_congruent_in_range : forall x,
  (cong2pi (b02 x) x /\ 0 <= b02 x < 2 * PI) /\ (cong2pi (bpi x) x /\ - PI <= bpi x <= PI).
Proof. intros x. split; [exact (b02_spec x)|exact (bpi_spec x)]. Qed.
Print Assumptions C10_normaliser_congruent_in_range.

(* --- planar pair --- *)
Theorem C10_rot2d_roundtrip :
  (forall a, cong2pi (r2a (a2r a)) a /\ 0 <= r2a (a2r a) < 2 * PI) /\
  (forall a, proper_rotation2 (a2r a)) /\
  (forall m, proper_rotation2 m -> a2r (r2a m) = m).
Proof. split; [exact rot2d_angle_roundtrip|split; [exact a2r_proper|exact rot2d_matrix_roundtrip]]. Qed.
Print Assumptions C10_rot2d_roundtrip.

(* --- polar <-> Cartesian, r > 0 --- *)
Theorem C10_polar_roundtrip :
  (forall x y, 0 < x * x + y * y ->
     let '(r, az) := toPolar ROps x y in
     polarToCartesian ROps r az = (x, y) /\ r * r = x * x + y * y /\ 0 < r /\ - PI < az <= PI) /\
  (forall r az, 0 < r -> - PI < az <= PI ->
     let '(x, y) := polarToCartesian ROps r az in toPolar ROps x y = (r, az)).
Proof. split; [exact polar_roundtrip|exact polar_roundtrip_inv]. Qed.
Print Assumptions C10_polar_roundtrip.

(* --- spherical <-> Cartesian, r > 0 (elevation is the polar angle from +z; the azimut is not
       determined on the z axis, so the inverse direction asks 0 < elevation < pi) --- *)
Theorem C10_spherical_roundtrip :
  (forall x y z, 0 < x * x + y * y + z * z ->
     exists r az el, toSpherical ROps x y z = Some (r, az, el) /\
       sphericalToCartesian ROps r az el = mkV3 x y z /\
       r * r = x * x + y * y + z * z /\ 0 < r /\ - PI <= az <= PI /\ 0 <= el <= PI) /\
  (forall r az el, 0 < r -> - PI < az <= PI -> 0 < el < PI ->
     let p := sphericalToCartesian ROps r az el in toSpherical ROps (v0 p) (v1 p) (v2 p) = Some (r, az, el)).
Proof. split; [exact spherical_roundtrip|exact spherical_roundtrip_inv]. Qed.
Print Assumptions C10_spherical_roundtrip.

(* --- non-vacuity --- *)
Example C10_ex_rotation_hyp : (* the identity is a proper rotation off gimbal lock *)
  mmul3 ROps (mtrans3 (mid3 ROps)) (mid3 ROps) = mid3 ROps /\ det3 ROps (mid3 ROps) = 1 /\ Rabs (m20 (mid3 ROps)) < 1.
Proof.
  unfold mmul3, mtrans3, mid3, det3. rcbn. split; [f_equal; ring|]. split; [ring|]. rewrite Rabs_R0. lra.
Qed.
Example C10_ex_pitch : - PI / 2 < 1 < PI / 2.
Proof. pose proof PI_RGT_0. pose proof (PI2_3_2). lra. Qed.
Example C10_ex_quat : 0 < qnorm2 ROps (mkQ 2 0 0 0).
Proof. unfold qnorm2. rcbn. lra. Qed.
Example C10_ex_rot2 : proper_rotation2 (mkM2 0 (-1) 1 0).
Proof. unfold proper_rotation2. cbn. repeat split; ring. Qed.

(* --- SOURCE TIE (translator translate/srcfuns.py): the two angle normalisers and the rotation -> angle extractors of
       EulerAngles.hpp, regenerated on every run from the clang AST of their instantiation at double (gen/SrcFuns.v),
       are the model functions b02 / bpi / r2a / r2e of the theorems above --- *)
From Romea Require Import SrcTieAngles.
From Romea.gen Require Import SrcFuns.
Theorem C10_source_tie_normalisers : forall v,
  src_between0And2Pi ROps v = b02 v /\ src_betweenMinusPiAndPi ROps v = bpi v.
Proof. intros v. exact (conj (tie_between0And2Pi v) (tie_betweenMinusPiAndPi v)). Qed.
Print Assumptions C10_source_tie_normalisers.

Theorem C10_source_tie_rotation_to_angles :
  (forall m : mat2 R, src_rotation2DToEulerAngle ROps (a00 m) (a01 m) (a10 m) (a11 m) = rotation2DToEulerAngle ROps ROps idR idR m) /\
  (forall m : mat3 R, nleb ROps (nabs ROps (m20 m)) (n_one ROps) = true ->
     rotation3DToEulerAngles ROps ROps idR idR m =
     (let '(r, p, y) := src_rotation3DToEulerAngles ROps (m00 m) (m10 m) (m20 m) (m21 m) (m22 m) in Some (mkV3 r p y))).
Proof. exact (conj tie_rotation2DToEulerAngle tie_rotation3DToEulerAngles). Qed.
Print Assumptions C10_source_tie_rotation_to_angles.
