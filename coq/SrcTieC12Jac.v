(* SrcTieC12Jac.v — the source tie of SrcTieC12.v composed with the Jacobian theorems of PoseJacCharts.v: statements about
   the terms generated from src/geometry/Pose3D.cpp themselves.  The mean map R^6 -> R^6 read off the generated position /
   orientation terms is the model's pose_map, and every entry of the generated 6x6 matrix is the partial derivative of that
   map (angles differentiated as points of the circle), on the whole domain of C12_pose_jacobian. *)
From Coq Require Import Reals ZArith Lra Lia List.
From Coquelicot Require Import Coquelicot.
From Romea Require Import Num NumR AnglesModel AnglesProofs AnglesRoundtrip PoseCovModel PoseCovProofs DerivProofs PoseJacMrot PoseJacCharts
  SrcTieC12.
From Romea.gen Require Import SrcEigenC12.
Local Open Scope R_scope.

Definition src_pose_map (l : mat3 R) (t : vec3 R) (c : nat -> nat -> R) (q : vec R) : vec R := fun i =>
  let pos := mkV3 (q 0%nat) (q 1%nat) (q 2%nat) in
  let ori := mkV3 (q 3%nat) (q 4%nat) (q 5%nat) in
  if Nat.ltb i 3 then vget3 (src_pose3d_mul_position ROps l t c ori pos) i
  else vget3 (src_pose3d_mul_orientation ROps l t c ori pos) (i - 3).

Lemma src_pose_map_is_model l t c q i :
  Rabs (m20 (Mrot l (q 3%nat) (q 4%nat) (q 5%nat))) <= 1 -> src_pose_map l t c q i = pose_map l t q i.
Proof.
  intros H. unfold src_pose_map, pose_map, act_mean. cbv zeta.
  rewrite (tie_pose_mean l t c (mkV3 (q 3%nat) (q 4%nat) (q 5%nat)) (mkV3 (q 0%nat) (q 1%nat) (q 2%nat))).
  - reflexivity.
  - cbn [v0 v1 v2]. rewrite smart_R_is_rzyx. exact H.
Qed.

Lemma source_pose_jacobian_is_derivative l t c q :
  proper_rotation l -> Rabs (m20 (Mrot l (q 3%nat) (q 4%nat) (q 5%nat))) < 1 ->
  let pos := mkV3 (q 0%nat) (q 1%nat) (q 2%nat) in
  let ori := mkV3 (q 3%nat) (q 4%nat) (q 5%nat) in
  forall i j, (i < 6)%nat -> (j < 6)%nat ->
    is_derive_mod2pi (fun s => pose_map l t (upd q j s) i) (q j) (src_pose3d_mul_jacobian ROps l t c ori pos i j) /\
    src_pose_map l t c q i = pose_map l t q i.
Proof.
  intros Hl H20 pos ori i j Hi Hj. split.
  - unfold pos, ori. rewrite tie_pose_jacobian by assumption.
    exact (proj2 (pose_J_is_jacobian l t q Hl H20 i j Hi Hj)).
  - apply src_pose_map_is_model. lra.
Qed.

(* the open known finding, stated about the terms generated from src/transform/SmartRotation3D.cpp: the matrices the accessors
   dRdAngleAroundX/Y/ZAxis return are the true derivatives of R plus the identity leftover, and never the derivatives *)
Lemma source_smart_derivative_leftover x y z :
  (src_smart_ctor_dRdAngleX ROps x y z = madd3 ROps (dRdX_true x y z) (extraX x y z) /\
   src_smart_ctor_dRdAngleY ROps x y z = madd3 ROps (dRdY_true x y z) (extraY x y z) /\
   src_smart_ctor_dRdAngleZ ROps x y z = madd3 ROps (dRdZ_true x y z) (extraZ x y z)) /\
  (src_smart_ctor_dRdAngleX ROps x y z <> dRdX_true x y z /\
   src_smart_ctor_dRdAngleY ROps x y z <> dRdY_true x y z /\
   src_smart_ctor_dRdAngleZ ROps x y z <> dRdZ_true x y z) /\
  src_smart_ctor_R ROps x y z = rot_zyx x y z.
Proof.
  rewrite tie_smart_dRdX, tie_smart_dRdY, tie_smart_dRdZ, tie_smart_R.
  split; [exact (dRdX_model_char x y z)|split; [exact (dRdX_never_derivative x y z)|exact (smart_R_is_rzyx x y z)]].
Qed.
