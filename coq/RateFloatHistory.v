(* RateFloatHistory.v — C17 end to end in binary64: the rate PUBLISHED by the monitor executed with the rounded dictionary
   B64Ops (every C++ double operation followed by one rounding to nearest-even, GridMapFloat.v) after ANY history of data
   stamps and heartbeats.  RateProofs.v describes the state after a history for every dictionary (the queue and the sum
   are integers: no rounding there); RateFloat.v bounds the two roundings of 1e9 / (sum / W).  Together: with strictly
   increasing stamps, more than W of them, no time-out pending and a window span below 2^53 ns (104 days), the double
   the monitor publishes is W / (span in seconds) up to a relative error of 3 * 2^-53, and it is the correctly rounded
   value (one rounding, 2^-53) when the window size is a power of two (expected rate < 2.5 Hz: W = 4; >= 32 Hz: W = 64). *)
From Coq Require Import Reals ZArith List Bool Lra Lia.
From Flocq Require Import Core.
From Romea Require Import Num NumR DiagModel RateModel RateProofs GridMapFloat RateFloat.
From Romea.gen Require Import RepoConstants.
Import ListNotations.
Local Open Scope R_scope.

Lemma rate_b64_history_raw r evs :
  let W := window_size B64Ops r in let ds := data_stamps evs in
  increasing ds -> (W < Z.of_nat (length ds))%Z -> snd (hist B64Ops evs) = false ->
  let span := (last ds 0 - nth (length ds - Z.to_nat W - 1) ds 0)%Z in
  (0 < span)%Z /\ (4 <= W <= 64)%Z /\ rm_rate (rm_run B64Ops (rm_init B64Ops r) evs) = rate_of_sum B64Ops span W.
Proof.
  cbv zeta. intros Hinc Hk Hst.
  pose proof (window_size_range B64Ops r) as HW. unfold rate_min_window, rate_max_window in HW.
  assert (Hspan : (0 < last (data_stamps evs) 0 -
             nth (length (data_stamps evs) - Z.to_nat (window_size B64Ops r) - 1) (data_stamps evs) 0)%Z)
    by (apply increasing_span; [assumption|lia|lia]).
  split; [exact Hspan|]. split; [exact HW|].
  rewrite rate_follows_history, Hst. unfold spec_rate.
  destruct (Z.leb_spec (Z.of_nat (length (data_stamps evs))) (window_size B64Ops r)); [lia|reflexivity].
Qed.

Lemma ideal_form (w s : R) : 0 < s -> w * 1000000000 / s = w / (s / 1000000000).
Proof. intros H. field. lra. Qed.

Theorem rate_b64_history r evs :
  let W := window_size B64Ops r in let ds := data_stamps evs in
  increasing ds -> (W < Z.of_nat (length ds))%Z -> snd (hist B64Ops evs) = false ->
  let span := (last ds 0 - nth (length ds - Z.to_nat W - 1) ds 0)%Z in
  (span < 2 ^ 53)%Z ->
  (0 < span)%Z /\
  exists d, Rabs d <= 3 * bpow radix2 (-53) /\
            rm_rate (rm_run B64Ops (rm_init B64Ops r) evs) = IZR W / (IZR span / 1000000000) * (1 + d).
Proof.
  cbv zeta. intros Hinc Hk Hst Hlt.
  destruct (rate_b64_history_raw r evs Hinc Hk Hst) as (Hpos & HW & E).
  split; [exact Hpos|].
  destruct (rate_b64_rel_error _ _ (conj Hpos Hlt) HW) as (d & Hd & Ed).
  exists d. split; [exact Hd|]. rewrite E, Ed. rewrite ideal_form; [reflexivity|].
  apply IZR_lt. exact Hpos.
Qed.

Theorem rate_b64_history_pow2 r evs :
  let W := window_size B64Ops r in let ds := data_stamps evs in
  increasing ds -> (W < Z.of_nat (length ds))%Z -> snd (hist B64Ops evs) = false ->
  let span := (last ds 0 - nth (length ds - Z.to_nat W - 1) ds 0)%Z in
  (span < 2 ^ 53)%Z -> (exists k, (2 <= k <= 6)%Z /\ W = (2 ^ k)%Z) ->
  rm_rate (rm_run B64Ops (rm_init B64Ops r) evs) = rnd64 (IZR W / (IZR span / 1000000000)).
Proof.
  cbv zeta. intros Hinc Hk Hst Hlt Hp.
  destruct (rate_b64_history_raw r evs Hinc Hk Hst) as (Hpos & HW & E).
  rewrite E, (rate_b64_pow2_window _ _ (conj Hpos Hlt) Hp). rewrite ideal_form; [reflexivity|].
  apply IZR_lt. exact Hpos.
Qed.

(* non-vacuity: the history of Properties_C17.v (1 Hz source, five stamps one second apart, an early heartbeat): W = 4,
   span = 4 s, the double published is exactly 1 *)
Definition ex_evs64 : list event :=
  [Data 1000000000; Data 2000000000; Heartbeat 2400000000; Data 3000000000; Data 4000000000; Data 5000000000]%Z.

Lemma b64_1 : b64 1.
Proof. replace 1 with (IZR 1) by reflexivity. apply b64_IZR. simpl. lia. Qed.

Example ex_window64 : window_size B64Ops 1 = 4%Z.
Proof.
  rewrite (window_b64_eq_real 1 b64_1). rewrite window_size_R by lra.
  replace (2 * 1) with (IZR 2) by (simpl; lra). rewrite Zfloor_IZR. reflexivity.
Qed.

Example ex_rate64 : rm_rate (rm_run B64Ops (rm_init B64Ops 1) ex_evs64) = 1.
Proof.
  rewrite rate_follows_history. rewrite ex_window64.
  assert (Hst : snd (hist B64Ops ex_evs64) = false).
  { unfold hist, ex_evs64. cbn [fold_left hstep fst snd]. reflexivity. }
  rewrite Hst. unfold spec_rate. cbn [ex_evs64 data_stamps length].
  replace (Z.of_nat 5 <=? 4)%Z with false by reflexivity.
  replace (last _ 0 - nth _ _ 0)%Z with 4000000000%Z by (vm_compute; reflexivity).
  exact rate_b64_4s_window4.
Qed.
