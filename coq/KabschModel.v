(* KabschModel.v — executable model of romea::core::FindRigidTransformationBySVD<PointType> (property C04)
   src/transform/estimation/FindRigidTransformationBySVD.cpp and the scale-only
   PreconditionedPointSet<PointType>::compute(points, scale).        Definitions only.

   A point is the list of its POINT_SIZE coordinates: d (Cartesian) or d+1 (homogeneous, last = w).
   [d] = CARTESIAN_DIM (2 or 3), [ps] = POINT_SIZE.
   Eigen::JacobiSVD is an oracle: the function argument [svd_of] (contract stated in KabschProofs.v).
   [fixed] = true is the repaired code (determinant correction: if det(V U^T) < 0 the last column of V
   is negated before R = V U^T); [fixed] = false is the original code (correction commented out). *)
From Coq Require Import List Arith Bool ZArith.
From Romea Require Import Num LinAlgBModel.
Import ListNotations.

Section Kabsch.
Context {T : Type} (N : NumOps T).
Variable svd_of : nat -> list (list T) -> (list (list T) * list T) * list (list T).  (* (U, sigma, V) *)

(* accumulate left to right from zero, like "acc += f(x)" in a for loop *)
Definition sum_list {A : Type} (f : A -> T) (l : list A) : T :=
  fold_left (fun acc x => nadd N acc (f x)) l (nzero N).

Definition nat_to_T (n : nat) : T := nofZ N (Z.of_nat n).

(* mean of the listed points: sum / count, coordinate by coordinate *)
Definition mean_of (ps : nat) (pts : list (list T)) : list T :=
  tab ps (fun c => ndiv N (sum_list (fun p => vget N p c) pts) (nat_to_T (length pts))).

(* d x d block of  sum_n (s_n - sm)(t_n - tm)^T  over the paired points *)
Definition cross_cov (d : nat) (pairs : list (list T * list T)) (sm tm : list T) : list (list T) :=
  mtab d d (fun i j =>
    sum_list (fun st : list T * list T =>
                nmul N (nsub N (vget N (fst st) i) (vget N sm i)) (nsub N (vget N (snd st) j) (vget N tm j))) pairs).

(* v.col(d-1) *= -1 *)
Definition negate_last_col (d : nat) (V : list (list T)) : list (list T) :=
  mtab d d (fun i j => if Nat.eqb (S j) d then nneg N (mget N V i j) else mget N V i j).

(* rotation block from the SVD of the cross covariance *)
Definition rotation_of (fixed : bool) (d : nat) (cov : list (list T)) : list (list T) :=
  let '(U, _, V) := svd_of d cov in
  let R0 := mmul N d d d V (mtrans N d d U) in
  if andb fixed (nltb N (fdet N d (mget N R0)) (nzero N))
  then mmul N d d d (negate_last_col d V) (mtrans N d d U)
  else R0.

(* H = Identity; H.block(0,0,d,d) = R; H.block(0,d,ps,1) += tm - H.block(0,0,ps,ps) * sm *)
Definition assemble (d ps : nat) (R : list (list T)) (sm tm : list T) : list (list T) :=
  let Hinit := fun i j => if andb (Nat.ltb i d) (Nat.ltb j d) then mget N R i j else fid N i j in
  mtab (S d) (S d) (fun i j =>
    if andb (Nat.eqb j d) (Nat.ltb i ps)
    then nadd N (Hinit i d) (nsub N (vget N tm i) (sumn N ps (fun l => nmul N (Hinit i l) (vget N sm l))))
    else Hinit i j).

Definition estimate_pairs (fixed : bool) (d ps : nat) (pairs : list (list T * list T)) : list (list T) :=
  let sm := mean_of ps (map fst pairs) in
  let tm := mean_of ps (map snd pairs) in
  assemble d ps (rotation_of fixed d (cross_cov d pairs sm tm)) sm tm.

(* estimate_(sourcePoints, targetPoints, correspondences): indices must be in range (else out-of-bounds read) *)
Definition pairs_of_corr (src tgt : list (list T)) (corr : list (nat * nat)) : option (list (list T * list T)) :=
  if forallb (fun c : nat * nat => andb (Nat.ltb (fst c) (length src)) (Nat.ltb (snd c) (length tgt))) corr
  then Some (map (fun c : nat * nat => (nth (fst c) src [], nth (snd c) tgt [])) corr)
  else None.

Definition estimate_corr (fixed : bool) (d ps : nat) (src tgt : list (list T)) (corr : list (nat * nat))
  : option (list (list T)) :=
  match pairs_of_corr src tgt corr with
  | Some prs => Some (estimate_pairs fixed d ps prs)
  | None => None
  end.

(* estimate_(sourcePoints, targetPoints): asserts equal sizes *)
Definition estimate_aligned (fixed : bool) (d ps : nat) (src tgt : list (list T)) : option (list (list T)) :=
  if Nat.eqb (length src) (length tgt) then Some (estimate_pairs fixed d ps (combine src tgt)) else None.

(* PreconditionedPointSet::compute(points, scale): every stored coordinate (w included) is multiplied by the scale;
   the preconditioning matrix is Identity with the d x d block multiplied by the scale *)
Definition precondition (scale : T) (pts : list (list T)) : list (list T) :=
  map (fun p => map (fun x => nmul N x scale) p) pts.
Definition precond_matrix00 (scale : T) : T := nmul N (n_one N) scale.

(* H.block(0,d,d,1) /= targetPoints.getPreconditioningMatrix()(0,0) *)
Definition unscale_translation (d : nat) (H : list (list T)) (m00 : T) : list (list T) :=
  mtab (S d) (S d) (fun i j => if andb (Nat.eqb j d) (Nat.ltb i d) then ndiv N (mget N H i j) m00 else mget N H i j).

(* the four find overloads *)
Definition find_corr (fixed : bool) (d ps : nat) (src tgt : list (list T)) (corr : list (nat * nat)) :=
  estimate_corr fixed d ps src tgt corr.
Definition find_aligned (fixed : bool) (d ps : nat) (src tgt : list (list T)) :=
  estimate_aligned fixed d ps src tgt.
Definition find_corr_pre (fixed : bool) (d ps : nat) (ssrc stgt : T) (src tgt : list (list T)) (corr : list (nat * nat)) :=
  match estimate_corr fixed d ps (precondition ssrc src) (precondition stgt tgt) corr with
  | Some H => Some (unscale_translation d H (precond_matrix00 stgt))
  | None => None
  end.
Definition find_aligned_pre (fixed : bool) (d ps : nat) (ssrc stgt : T) (src tgt : list (list T)) :=
  match estimate_aligned fixed d ps (precondition ssrc src) (precondition stgt tgt) with
  | Some H => Some (unscale_translation d H (precond_matrix00 stgt))
  | None => None
  end.

End Kabsch.
