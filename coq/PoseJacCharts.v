(* PoseJacCharts.v — C12: the angular block of the Jacobian of operator*(Affine3d, Pose3D) is the derivative of the
   angles of l*Rz*Ry*Rx on every chart of atan2 (PoseJacDeriv.v proves it on the chart atan2 = atan(y/x) only):
     1. the raw angles atan2(M21,M22), -asin(M20), atan2(M10,M00) wherever atan2 is differentiable (off its branch cut);
     2. the angles the library reports (after between0And2Pi), wherever the reported angle is not 0 (where the
        [0,2pi) representative jumps);
     3. the reported angles as maps into the circle R/2piZ, wherever the transformed pose is off gimbal lock;
     4. the whole 6x6 matrix J, entry by entry, for the model's own pose map (pose_transform_mean), and the
        covariance J*C*J^T written out.
   The algebra relating the quotient-rule expressions to the entries of pose_J_angular is chart independent
   (pose_J_angular_unfold, PoseJacDeriv.v) and reused as is. *)
From Coq Require Import Reals ZArith Lra Lia Psatz Arith Bool.
From Coquelicot Require Import Coquelicot.
From Romea Require Import Num NumR AnglesModel AnglesProofs AnglesRoundtrip PoseCovModel PoseCovProofs DerivProofs
  PoseJacProofs PoseJacDeriv Atan2Deriv.
Local Open Scope R_scope.

Lemma off_cut_norm y x : off_cut y x -> 0 < y * y + x * x.
Proof.
  intros H. destruct (Req_dec y 0) as [Ey|Ny]; [|nra]. destruct (Req_dec x 0) as [Ex|Nx]; [|nra].
  exfalso. apply H. split; lra.
Qed.

Lemma nonzero_norm y x : y <> 0 \/ x <> 0 -> 0 < y * y + x * x.
Proof. intros [H|H]; nra. Qed.

(* ---------------- 1. raw angles, every chart ---------------- *)
Lemma J_column_charts (f : R -> mat3 R) (d : mat3 R) t :
  (forall i j, is_derive (fun s => mget3 (f s) i j) t (mget3 d i j)) ->
  off_cut (m21 (f t)) (m22 (f t)) -> off_cut (m10 (f t)) (m00 (f t)) -> Rabs (m20 (f t)) < 1 ->
  let r := f t in
  is_derive (fun s => raw_roll (f s)) t
    (m22 r / (m21 r * m21 r + m22 r * m22 r) * m21 d - m21 r / (m21 r * m21 r + m22 r * m22 r) * m22 d) /\
  is_derive (fun s => raw_pitch (f s)) t (- 1 / sqrt (1 - m20 r * m20 r) * m20 d) /\
  is_derive (fun s => raw_yaw (f s)) t
    (m00 r / (m00 r * m00 r + m10 r * m10 r) * m10 d - m10 r / (m00 r * m00 r + m10 r * m10 r) * m00 d).
Proof.
  intros Hd H22 H00 H20. cbv zeta.
  pose proof (Hd 2%nat 1%nat) as D21. pose proof (Hd 2%nat 2%nat) as D22. pose proof (Hd 2%nat 0%nat) as D20.
  pose proof (Hd 1%nat 0%nat) as D10. pose proof (Hd 0%nat 0%nat) as D00.
  cbn [mget3] in D21, D22, D20, D10, D00.
  apply Rabs_def2 in H20.
  pose proof (off_cut_norm _ _ H22) as N22. pose proof (off_cut_norm _ _ H00) as N00.
  split; [|split].
  - evar_last. apply (is_derive_Ratan2 (fun s => m21 (f s)) (fun s => m22 (f s)) t _ _ D21 D22 H22).
    field. nra.
  - evar_last. apply (is_derive_neg_asin (fun s => m20 (f s)) t _ D20). lra.
    field. assert (0 < 1 - m20 (f t) * m20 (f t)) by nra. pose proof (sqrt_lt_R0 _ H). lra.
  - evar_last. apply (is_derive_Ratan2 (fun s => m10 (f s)) (fun s => m00 (f s)) t _ _ D10 D00 H00).
    field. nra.
Qed.

Theorem pose_J_angular_is_jacobian_charts l x y z :
  off_cut (m21 (Mrot l x y z)) (m22 (Mrot l x y z)) -> off_cut (m10 (Mrot l x y z)) (m00 (Mrot l x y z)) ->
  Rabs (m20 (Mrot l x y z)) < 1 ->
  let J := pose_J_angular ROps l (mkV3 x y z) in
  (is_derive (fun t => raw_roll (Mrot l t y z)) x (m00 J) /\ is_derive (fun t => raw_pitch (Mrot l t y z)) x (m10 J) /\
   is_derive (fun t => raw_yaw (Mrot l t y z)) x (m20 J)) /\
  (is_derive (fun t => raw_roll (Mrot l x t z)) y (m01 J) /\ is_derive (fun t => raw_pitch (Mrot l x t z)) y (m11 J) /\
   is_derive (fun t => raw_yaw (Mrot l x t z)) y (m21 J)) /\
  (is_derive (fun t => raw_roll (Mrot l x y t)) z (m02 J) /\ is_derive (fun t => raw_pitch (Mrot l x y t)) z (m12 J) /\
   is_derive (fun t => raw_yaw (Mrot l x y t)) z (m22 J)).
Proof.
  intros H22 H00 H20. cbv zeta. rewrite pose_J_angular_unfold. cbv zeta. unfold mcols3.
  cbn [m00 m01 m02 m10 m11 m12 m20 m21 m22 v0 v1 v2].
  split; [|split].
  - exact (J_column_charts (fun t => Mrot l t y z) _ x (dM_x l x y z) H22 H00 H20).
  - exact (J_column_charts (fun t => Mrot l x t z) _ y (dM_y l x y z) H22 H00 H20).
  - exact (J_column_charts (fun t => Mrot l x y t) _ z (dM_z l x y z) H22 H00 H20).
Qed.

(* ---------------- 2. the reported angles (after between0And2Pi) ---------------- *)
Lemma b02_cong a b : cong2pi a b -> b02 a = b02 b.
Proof.
  intros C. destruct (b02_spec a) as [Ca Ra]. destruct (b02_spec b) as [Cb Rb].
  assert (C2 : cong2pi (b02 a) (b02 b)).
  { apply (cong2pi_trans _ a); [exact Ca|]. apply (cong2pi_trans _ b); [exact C|]. apply cong2pi_sym. exact Cb. }
  destruct C2 as [k Hk].
  assert (k = 0%Z); [|subst; lra].
  pose proof PI_RGT_0. destruct (Z_lt_le_dec k 1) as [A|A]; destruct (Z_lt_le_dec (-1) k) as [B|B]; try lia.
  - apply IZR_le in B. nra.
  - apply IZR_le in A. nra.
Qed.

(* away from the reported angle 0, the reported angle is pi + the angle of the antipodal point *)
Lemma b02_Ratan2_antipode y x : off_cut (- y) (- x) -> b02 (Ratan2 y x) = PI + Ratan2 (- y) (- x).
Proof.
  intros H.
  assert (Hne : x <> 0 \/ y <> 0).
  { destruct (Req_dec x 0) as [E|N]; [|left; assumption]. right. intros E2. apply H. split; lra. }
  pose proof (Ratan2_range_off_cut _ _ H) as Rg.
  rewrite <- (b02_id (PI + Ratan2 (- y) (- x))) by lra.
  apply b02_cong.
  destruct (Ratan2_antipode y x Hne) as [E|E]; rewrite E.
  - exists 0%Z. lra.
  - exists (-1)%Z. lra.
Qed.

Lemma is_derive_b02_Ratan2 (u v : R -> R) t du dv :
  is_derive u t du -> is_derive v t dv -> ~ (u t = 0 /\ 0 <= v t) ->
  is_derive (fun s => b02 (Ratan2 (u s) (v s))) t ((v t * du - u t * dv) / (u t * u t + v t * v t)).
Proof.
  intros Hu Hv H.
  assert (Hoff : off_cut (- u t) (- v t)) by (intros [E L]; apply H; split; lra).
  apply (is_derive_ext_loc (fun s => PI + Ratan2 (- u s) (- v s))).
  - generalize (locally_off_cut (fun s => - u s) (fun s => - v s) t (- du) (- dv)
                  (is_derive_opp u t du Hu) (is_derive_opp v t dv Hv) Hoff).
    apply filter_imp. intros s Hs. symmetry. apply b02_Ratan2_antipode. exact Hs.
  - apply is_derive_Ratan2_antipode; assumption.
Qed.

Lemma locally_gt (w : R -> R) t dw a : is_derive w t dw -> a < w t -> locally t (fun s => a < w s).
Proof.
  intros Hw H.
  assert (Hc : continuous w t).
  { apply (@ex_derive_continuous R_AbsRing R_NormedModule w t). exists dw. exact Hw. }
  exact (Hc (fun y : R => a < y) (open_gt a (w t) H)).
Qed.
Lemma locally_lt (w : R -> R) t dw a : is_derive w t dw -> w t < a -> locally t (fun s => w s < a).
Proof.
  intros Hw H.
  assert (Hc : continuous w t).
  { apply (@ex_derive_continuous R_AbsRing R_NormedModule w t). exists dw. exact Hw. }
  exact (Hc (fun y : R => y < a) (open_lt a (w t) H)).
Qed.

Lemma asin_neg_lt w : -1 < w < 0 -> - PI / 2 < asin w < 0.
Proof.
  intros H. pose proof (asin_bound_lt w ltac:(lra)) as B. split; [lra|].
  destruct (Rlt_dec (asin w) 0) as [|N]; [assumption|exfalso].
  assert (0 <= sin (asin w)) by (apply sin_ge_0; pose proof PI_RGT_0; lra).
  rewrite sin_asin in H0 by lra. lra.
Qed.
Lemma asin_pos_gt w : 0 < w < 1 -> 0 < asin w < PI / 2.
Proof.
  intros H. pose proof (asin_neg_lt (- w) ltac:(lra)) as B. rewrite asin_opp in B. lra.
Qed.

Lemma b02_neg_asin w : -1 < w < 1 ->
  (w < 0 -> b02 (- asin w) = - asin w) /\ (0 < w -> b02 (- asin w) = - asin w + 2 * PI).
Proof.
  intros H. pose proof PI_RGT_0 as Hpi. split; intros Hs.
  - apply b02_id. pose proof (asin_neg_lt w ltac:(lra)). lra.
  - pose proof (asin_pos_gt w ltac:(lra)) as B.
    rewrite <- (b02_id (- asin w + 2 * PI)) by lra. apply b02_cong. exists (-1)%Z. lra.
Qed.

Lemma is_derive_b02_neg_asin (w : R -> R) t dw :
  is_derive w t dw -> -1 < w t < 1 -> w t <> 0 ->
  is_derive (fun s => b02 (- asin (w s))) t (- dw / sqrt (1 - w t * w t)).
Proof.
  intros Hw Hr Hne.
  pose proof (locally_gt w t dw (-1) Hw ltac:(lra)) as L1. pose proof (locally_lt w t dw 1 Hw ltac:(lra)) as L2.
  destruct (Rtotal_order (w t) 0) as [Hn|[Hz|Hp]]; [|contradiction|].
  - apply (is_derive_ext_loc (fun s => - asin (w s))).
    + generalize (filter_and _ _ (filter_and _ _ L1 L2) (locally_lt w t dw 0 Hw Hn)). apply filter_imp.
      intros s [[A B] C]. symmetry. apply (proj1 (b02_neg_asin (w s) (conj A B))). exact C.
    + apply is_derive_neg_asin; assumption.
  - apply (is_derive_ext_loc (fun s => - asin (w s) + 2 * PI)).
    + generalize (filter_and _ _ (filter_and _ _ L1 L2) (locally_gt w t dw 0 Hw Hp)). apply filter_imp.
      intros s [[A B] C]. symmetry. apply (proj2 (b02_neg_asin (w s) (conj A B))). exact C.
    + evar_last.
      * apply (is_derive_plus (fun s => - asin (w s)) (fun _ => 2 * PI)).
        -- apply is_derive_neg_asin; eassumption.
        -- apply is_derive_const.
      * unfold plus, zero; simpl. lra.
Qed.

(* the angles rotation3DToEulerAngles reports *)
Definition rep_roll (m : mat3 R) : R := b02 (raw_roll m).
Definition rep_pitch (m : mat3 R) : R := b02 (raw_pitch m).
Definition rep_yaw (m : mat3 R) : R := b02 (raw_yaw m).

Lemma r2e_reports m : Rabs (m20 m) <= 1 -> r2e m = Some (mkV3 (rep_roll m) (rep_pitch m) (rep_yaw m)).
Proof.
  intros H. unfold r2e, rotation3DToEulerAngles. rcbn.
  replace (Rleb (Rabs (m20 m)) 1) with true by (symmetry; apply Rleb_true; exact H).
  reflexivity.
Qed.

(* "the reported angle is not 0": the point (cos, sin) of the angle is not on the closed positive x axis *)
Definition off_zero (y x : R) : Prop := ~ (y = 0 /\ 0 <= x).

Lemma J_column_reported (f : R -> mat3 R) (d : mat3 R) t :
  (forall i j, is_derive (fun s => mget3 (f s) i j) t (mget3 d i j)) ->
  off_zero (m21 (f t)) (m22 (f t)) -> off_zero (m10 (f t)) (m00 (f t)) -> Rabs (m20 (f t)) < 1 -> m20 (f t) <> 0 ->
  let r := f t in
  is_derive (fun s => rep_roll (f s)) t
    (m22 r / (m21 r * m21 r + m22 r * m22 r) * m21 d - m21 r / (m21 r * m21 r + m22 r * m22 r) * m22 d) /\
  is_derive (fun s => rep_pitch (f s)) t (- 1 / sqrt (1 - m20 r * m20 r) * m20 d) /\
  is_derive (fun s => rep_yaw (f s)) t
    (m00 r / (m00 r * m00 r + m10 r * m10 r) * m10 d - m10 r / (m00 r * m00 r + m10 r * m10 r) * m00 d).
Proof.
  intros Hd H22 H00 H20 Hnz. cbv zeta.
  pose proof (Hd 2%nat 1%nat) as D21. pose proof (Hd 2%nat 2%nat) as D22. pose proof (Hd 2%nat 0%nat) as D20.
  pose proof (Hd 1%nat 0%nat) as D10. pose proof (Hd 0%nat 0%nat) as D00.
  cbn [mget3] in D21, D22, D20, D10, D00.
  apply Rabs_def2 in H20.
  assert (N22 : 0 < m21 (f t) * m21 (f t) + m22 (f t) * m22 (f t)).
  { apply nonzero_norm. destruct (Req_dec (m21 (f t)) 0) as [E|N]; [|left; exact N]. right. intros E2. apply H22. split; lra. }
  assert (N00 : 0 < m10 (f t) * m10 (f t) + m00 (f t) * m00 (f t)).
  { apply nonzero_norm. destruct (Req_dec (m10 (f t)) 0) as [E|N]; [|left; exact N]. right. intros E2. apply H00. split; lra. }
  split; [|split].
  - evar_last. apply (is_derive_b02_Ratan2 (fun s => m21 (f s)) (fun s => m22 (f s)) t _ _ D21 D22 H22).
    field. nra.
  - evar_last. apply (is_derive_b02_neg_asin (fun s => m20 (f s)) t _ D20). lra. exact Hnz.
    field. assert (0 < 1 - m20 (f t) * m20 (f t)) by nra. pose proof (sqrt_lt_R0 _ H). lra.
  - evar_last. apply (is_derive_b02_Ratan2 (fun s => m10 (f s)) (fun s => m00 (f s)) t _ _ D10 D00 H00).
    field. nra.
Qed.

Theorem pose_J_angular_is_jacobian_reported l x y z :
  off_zero (m21 (Mrot l x y z)) (m22 (Mrot l x y z)) -> off_zero (m10 (Mrot l x y z)) (m00 (Mrot l x y z)) ->
  Rabs (m20 (Mrot l x y z)) < 1 -> m20 (Mrot l x y z) <> 0 ->
  let J := pose_J_angular ROps l (mkV3 x y z) in
  (is_derive (fun t => rep_roll (Mrot l t y z)) x (m00 J) /\ is_derive (fun t => rep_pitch (Mrot l t y z)) x (m10 J) /\
   is_derive (fun t => rep_yaw (Mrot l t y z)) x (m20 J)) /\
  (is_derive (fun t => rep_roll (Mrot l x t z)) y (m01 J) /\ is_derive (fun t => rep_pitch (Mrot l x t z)) y (m11 J) /\
   is_derive (fun t => rep_yaw (Mrot l x t z)) y (m21 J)) /\
  (is_derive (fun t => rep_roll (Mrot l x y t)) z (m02 J) /\ is_derive (fun t => rep_pitch (Mrot l x y t)) z (m12 J) /\
   is_derive (fun t => rep_yaw (Mrot l x y t)) z (m22 J)).
Proof.
  intros H22 H00 H20 Hnz. cbv zeta. rewrite pose_J_angular_unfold. cbv zeta. unfold mcols3.
  cbn [m00 m01 m02 m10 m11 m12 m20 m21 m22 v0 v1 v2].
  split; [|split].
  - exact (J_column_reported (fun t => Mrot l t y z) _ x (dM_x l x y z) H22 H00 H20 Hnz).
  - exact (J_column_reported (fun t => Mrot l x t z) _ y (dM_y l x y z) H22 H00 H20 Hnz).
  - exact (J_column_reported (fun t => Mrot l x y t) _ z (dM_z l x y z) H22 H00 H20 Hnz).
Qed.

(* ---------------- 3. angles as points of the circle R/2piZ ----------------
   f has derivative d at t modulo 2 pi: near t, f is congruent modulo 2 pi to a function that is differentiable
   at t with derivative d.  (For a real-valued f that is itself differentiable this is the ordinary derivative;
   the value d is unique: is_derive_mod2pi_unique.) *)
Definition is_derive_mod2pi (f : R -> R) (t d : R) : Prop :=
  exists g : R -> R, locally t (fun s => cong2pi (f s) (g s)) /\ is_derive g t d.

Lemma is_derive_mod2pi_of_derive f t d : is_derive f t d -> is_derive_mod2pi f t d.
Proof. intros H. exists f. split; [|exact H]. apply filter_forall. intros s. apply cong2pi_refl. Qed.

Lemma is_derive_mod2pi_ext_loc f g t d :
  locally t (fun s => f s = g s) -> is_derive_mod2pi f t d -> is_derive_mod2pi g t d.
Proof.
  intros L [h [C D]]. exists h. split; [|exact D].
  generalize (filter_and _ _ L C). apply filter_imp. intros s [E Cs]. rewrite <- E. exact Cs.
Qed.

Lemma is_derive_mod2pi_unique f t d1 d2 : is_derive_mod2pi f t d1 -> is_derive_mod2pi f t d2 -> d1 = d2.
Proof.
  intros [g1 [C1 D1]] [g2 [C2 D2]]. pose proof PI_RGT_0 as Hpi.
  set (h := fun s => g1 s - g2 s).
  assert (Dh : is_derive h t (d1 - d2)).
  { unfold h. apply (is_derive_minus g1 g2 t d1 d2 D1 D2). }
  (* h takes values in 2 pi Z near t and is continuous at t: it is constant near t *)
  assert (Hint : locally t (fun s => exists k : Z, h s = 2 * PI * IZR k)).
  { generalize (filter_and _ _ C1 C2). apply filter_imp. intros s [[k1 E1] [k2 E2]].
    exists (k2 - k1)%Z. unfold h. rewrite minus_IZR. lra. }
  assert (Hconst : locally t (fun s => h t = h s)).
  { destruct (locally_singleton _ _ Hint) as [k0 E0].
    pose proof (locally_gt h t _ (h t - 2 * PI) Dh ltac:(lra)) as L1.
    pose proof (locally_lt h t _ (h t + 2 * PI) Dh ltac:(lra)) as L2.
    generalize (filter_and _ _ Hint (filter_and _ _ L1 L2)). apply filter_imp.
    intros s [[k E] [A B]]. rewrite E0, E in A, B. rewrite E0, E.
    assert (k = k0); [|subst; reflexivity].
    destruct (Z_lt_le_dec k k0) as [P|P].
    - assert (Q : (k + 1 <= k0)%Z) by lia. apply IZR_le in Q. rewrite plus_IZR in Q. nra.
    - destruct (Z_lt_le_dec k0 k) as [P2|P2]; [|lia].
      assert (Q : (k0 + 1 <= k)%Z) by lia. apply IZR_le in Q. rewrite plus_IZR in Q. nra. }
  assert (D0 : is_derive h t 0).
  { apply (is_derive_ext_loc (fun _ => h t)); [exact Hconst|]. apply (is_derive_const (h t) t). }
  pose proof (is_derive_unique _ _ _ D0) as U0. pose proof (is_derive_unique _ _ _ Dh) as U1.
  rewrite U0 in U1. lra.
Qed.

(* the reported atan2 angle, everywhere except at the origin *)
Lemma is_derive_mod2pi_b02_Ratan2 (u v : R -> R) t du dv :
  is_derive u t du -> is_derive v t dv -> u t <> 0 \/ v t <> 0 ->
  is_derive_mod2pi (fun s => b02 (Ratan2 (u s) (v s))) t ((v t * du - u t * dv) / (u t * u t + v t * v t)).
Proof.
  intros Hu Hv Hne.
  destruct (Req_dec (u t) 0) as [E|N].
  - destruct (Rle_dec 0 (v t)) as [P|P].
    + (* on the positive x axis: the raw angle is differentiable, the reported one jumps between 0 and 2 pi *)
      exists (fun s => Ratan2 (u s) (v s)). split.
      * apply filter_forall. intros s. apply (proj1 (b02_spec _)).
      * apply is_derive_Ratan2; [exact Hu|exact Hv|]. intros [_ L]. destruct Hne as [A|A]; [contradiction|lra].
    + apply is_derive_mod2pi_of_derive. apply is_derive_b02_Ratan2; [exact Hu|exact Hv|]. intros [_ L]. contradiction.
  - apply is_derive_mod2pi_of_derive. apply is_derive_b02_Ratan2; [exact Hu|exact Hv|]. intros [L _]. contradiction.
Qed.

Lemma is_derive_mod2pi_b02_neg_asin (w : R -> R) t dw :
  is_derive w t dw -> -1 < w t < 1 ->
  is_derive_mod2pi (fun s => b02 (- asin (w s))) t (- dw / sqrt (1 - w t * w t)).
Proof.
  intros Hw Hr. exists (fun s => - asin (w s)). split.
  - apply filter_forall. intros s. apply (proj1 (b02_spec _)).
  - apply is_derive_neg_asin; assumption.
Qed.

Lemma J_column_mod2pi (f : R -> mat3 R) (d : mat3 R) t :
  (forall i j, is_derive (fun s => mget3 (f s) i j) t (mget3 d i j)) ->
  (m21 (f t) <> 0 \/ m22 (f t) <> 0) -> (m10 (f t) <> 0 \/ m00 (f t) <> 0) -> Rabs (m20 (f t)) < 1 ->
  let r := f t in
  is_derive_mod2pi (fun s => rep_roll (f s)) t
    (m22 r / (m21 r * m21 r + m22 r * m22 r) * m21 d - m21 r / (m21 r * m21 r + m22 r * m22 r) * m22 d) /\
  is_derive_mod2pi (fun s => rep_pitch (f s)) t (- 1 / sqrt (1 - m20 r * m20 r) * m20 d) /\
  is_derive_mod2pi (fun s => rep_yaw (f s)) t
    (m00 r / (m00 r * m00 r + m10 r * m10 r) * m10 d - m10 r / (m00 r * m00 r + m10 r * m10 r) * m00 d).
Proof.
  intros Hd H22 H00 H20. cbv zeta.
  pose proof (Hd 2%nat 1%nat) as D21. pose proof (Hd 2%nat 2%nat) as D22. pose proof (Hd 2%nat 0%nat) as D20.
  pose proof (Hd 1%nat 0%nat) as D10. pose proof (Hd 0%nat 0%nat) as D00.
  cbn [mget3] in D21, D22, D20, D10, D00.
  apply Rabs_def2 in H20.
  pose proof (nonzero_norm _ _ H22) as N22. pose proof (nonzero_norm _ _ H00) as N00.
  split; [|split].
  - replace (m22 (f t) / (m21 (f t) * m21 (f t) + m22 (f t) * m22 (f t)) * m21 d -
             m21 (f t) / (m21 (f t) * m21 (f t) + m22 (f t) * m22 (f t)) * m22 d)
      with ((m22 (f t) * m21 d - m21 (f t) * m22 d) / (m21 (f t) * m21 (f t) + m22 (f t) * m22 (f t))) by (field; nra).
    exact (is_derive_mod2pi_b02_Ratan2 (fun s => m21 (f s)) (fun s => m22 (f s)) t _ _ D21 D22 H22).
  - replace (- 1 / sqrt (1 - m20 (f t) * m20 (f t)) * m20 d) with (- m20 d / sqrt (1 - m20 (f t) * m20 (f t))).
    2:{ field. assert (0 < 1 - m20 (f t) * m20 (f t)) by nra. pose proof (sqrt_lt_R0 _ H). lra. }
    exact (is_derive_mod2pi_b02_neg_asin (fun s => m20 (f s)) t _ D20 ltac:(lra)).
  - replace (m00 (f t) / (m00 (f t) * m00 (f t) + m10 (f t) * m10 (f t)) * m10 d -
             m10 (f t) / (m00 (f t) * m00 (f t) + m10 (f t) * m10 (f t)) * m00 d)
      with ((m00 (f t) * m10 d - m10 (f t) * m00 d) / (m10 (f t) * m10 (f t) + m00 (f t) * m00 (f t))) by (field; nra).
    exact (is_derive_mod2pi_b02_Ratan2 (fun s => m10 (f s)) (fun s => m00 (f s)) t _ _ D10 D00 H00).
Qed.

(* for a rigid transform, "off gimbal lock after transformation" is all that is needed *)
Lemma proper_Mrot l x y z : proper_rotation l -> proper_rotation (Mrot l x y z).
Proof. intros H. apply proper_mul; [exact H|apply rzyx_proper]. Qed.

Lemma proper_off_lock m : proper_rotation m -> Rabs (m20 m) < 1 ->
  (m21 m <> 0 \/ m22 m <> 0) /\ (m10 m <> 0 \/ m00 m <> 0).
Proof.
  intros Hp H20. pose proof (proper_right_inverse m Hp) as Hri. destruct Hp as [Ho _].
  pose proof (f_equal m00 Ho) as Ucol. pose proof (f_equal m22 Hri) as Urow.
  apply Rabs_def2 in H20.
  destruct m as [a b c d e f g h i]. unfold mmul3, mtrans3, mid3 in *. rcbn in Ucol. rcbn in Urow.
  cbn [m00 m01 m02 m10 m11 m12 m20 m21 m22] in *.
  split.
  - destruct (Req_dec h 0) as [E|N]; [|left; exact N]. right. intros E2. subst. nra.
  - destruct (Req_dec d 0) as [E|N]; [|left; exact N]. right. intros E2. subst. nra.
Qed.

Theorem pose_J_angular_is_jacobian_mod2pi l x y z :
  proper_rotation l -> Rabs (m20 (Mrot l x y z)) < 1 ->
  let J := pose_J_angular ROps l (mkV3 x y z) in
  (is_derive_mod2pi (fun t => rep_roll (Mrot l t y z)) x (m00 J) /\ is_derive_mod2pi (fun t => rep_pitch (Mrot l t y z)) x (m10 J) /\
   is_derive_mod2pi (fun t => rep_yaw (Mrot l t y z)) x (m20 J)) /\
  (is_derive_mod2pi (fun t => rep_roll (Mrot l x t z)) y (m01 J) /\ is_derive_mod2pi (fun t => rep_pitch (Mrot l x t z)) y (m11 J) /\
   is_derive_mod2pi (fun t => rep_yaw (Mrot l x t z)) y (m21 J)) /\
  (is_derive_mod2pi (fun t => rep_roll (Mrot l x y t)) z (m02 J) /\ is_derive_mod2pi (fun t => rep_pitch (Mrot l x y t)) z (m12 J) /\
   is_derive_mod2pi (fun t => rep_yaw (Mrot l x y t)) z (m22 J)).
Proof.
  intros Hl H20. destruct (proper_off_lock _ (proper_Mrot l x y z Hl) H20) as [H22 H00].
  cbv zeta. rewrite pose_J_angular_unfold. cbv zeta. unfold mcols3.
  cbn [m00 m01 m02 m10 m11 m12 m20 m21 m22 v0 v1 v2].
  split; [|split].
  - exact (J_column_mod2pi (fun t => Mrot l t y z) _ x (dM_x l x y z) H22 H00 H20).
  - exact (J_column_mod2pi (fun t => Mrot l x t z) _ y (dM_y l x y z) H22 H00 H20).
  - exact (J_column_mod2pi (fun t => Mrot l x y t) _ z (dM_z l x y z) H22 H00 H20).
Qed.

(* ---------------- 4. the whole 6x6 Jacobian of the model's own pose map ----------------
   pose_map l t q = the mean part of operator*(Affine3d, Pose3D) as the model computes it (pose_transform_mean, the
   function the correspondence run compares with the C++), as a map R^6 -> R^6:
   q = (position, roll, pitch, yaw) |-> (l*position + t, reported angles of l*Rz*Ry*Rx). *)
Definition pose_map (l : mat3 R) (t : vec3 R) (q : vec R) : vec R := fun i =>
  let r := act_mean l t (mkV3 (q 0%nat) (q 1%nat) (q 2%nat)) (mkV3 (q 3%nat) (q 4%nat) (q 5%nat)) in
  if Nat.ltb i 3 then vget3 (fst r) i
  else match snd r with Some e => vget3 e (i - 3) | None => 0 end.

(* q with component j replaced by s *)
Definition upd (q : vec R) (j : nat) (s : R) : vec R := fun k => if Nat.eqb k j then s else q k.

Definition ang_of (m : mat3 R) (k : nat) : R := match r2e m with Some e => vget3 e k | None => 0 end.

Lemma pose_map_pos l t q i : (i < 3)%nat ->
  pose_map l t q i = vget3 (vadd3 ROps (mvmul3 ROps l (mkV3 (q 0%nat) (q 1%nat) (q 2%nat))) t) i.
Proof. intros H. destruct (lt3_cases i H) as [E|[E|E]]; subst i; reflexivity. Qed.

Lemma pose_map_ang l t q i : (3 <= i)%nat ->
  pose_map l t q i = ang_of (Mrot l (q 3%nat) (q 4%nat) (q 5%nat)) (i - 3).
Proof.
  intros H. unfold pose_map. cbv zeta.
  replace (Nat.ltb i 3) with false by (symmetry; apply Nat.ltb_ge; exact H).
  reflexivity.
Qed.

Lemma ang_of_rep m : Rabs (m20 m) <= 1 ->
  ang_of m 0 = rep_roll m /\ ang_of m 1 = rep_pitch m /\ ang_of m 2 = rep_yaw m.
Proof. intros H. unfold ang_of. rewrite (r2e_reports m H). repeat split. Qed.

Lemma ang_of_mod2pi (f : R -> mat3 R) x d20 (g : mat3 R -> R) k d :
  is_derive (fun s => m20 (f s)) x d20 -> Rabs (m20 (f x)) < 1 ->
  (forall m, Rabs (m20 m) <= 1 -> ang_of m k = g m) ->
  is_derive_mod2pi (fun s => g (f s)) x d -> is_derive_mod2pi (fun s => ang_of (f s) k) x d.
Proof.
  intros D H20 Hg Hd. apply Rabs_def2 in H20.
  apply (is_derive_mod2pi_ext_loc (fun s => g (f s))); [|exact Hd].
  destruct H20 as [Hlt Hgt].
  assert (Hgt' : -1 < m20 (f x)) by lra.
  generalize (filter_and _ _ (locally_gt (fun s => m20 (f s)) x d20 (-1) D Hgt')
                             (locally_lt (fun s => m20 (f s)) x d20 1 D Hlt)).
  apply filter_imp. intros s [A B]. symmetry. apply Hg. apply Rabs_le. lra.
Qed.

Theorem pose_J_is_jacobian l t q :
  proper_rotation l -> Rabs (m20 (Mrot l (q 3%nat) (q 4%nat) (q 5%nat))) < 1 ->
  let J := pose_J ROps l (mkV3 (q 3%nat) (q 4%nat) (q 5%nat)) in
  forall i j, (i < 6)%nat -> (j < 6)%nat ->
    ((i < 3)%nat -> is_derive (fun s => pose_map l t (upd q j s) i) (q j) (J i j)) /\
    is_derive_mod2pi (fun s => pose_map l t (upd q j s) i) (q j) (J i j).
Proof.
  intros Hl H20. cbv zeta. intros i j Hi Hj.
  set (x := q 3%nat) in *. set (y := q 4%nat) in *. set (z := q 5%nat) in *.
  destruct (le_lt_dec 3 i) as [Hi3|Hi3].
  - (* angular rows *)
    split; [intros C; exfalso; lia|].
    destruct (le_lt_dec 3 j) as [Hj3|Hj3].
    + (* angular block *)
      destruct (pose_J_angular_is_jacobian_mod2pi l x y z Hl H20) as [[A00 [A10 A20]] [[A01 [A11 A21]] [A02 [A12 A22]]]].
      pose proof (dM_x l x y z 2%nat 0%nat) as Dx. pose proof (dM_y l x y z 2%nat 0%nat) as Dy.
      pose proof (dM_z l x y z 2%nat 0%nat) as Dz. cbn [mget3] in Dx, Dy, Dz.
      pose proof (fun m H => proj1 (ang_of_rep m H)) as G0.
      pose proof (fun m H => proj1 (proj2 (ang_of_rep m H))) as G1.
      pose proof (fun m H => proj2 (proj2 (ang_of_rep m H))) as G2.
      assert (Ei : i = 3%nat \/ i = 4%nat \/ i = 5%nat) by lia.
      assert (Ej : j = 3%nat \/ j = 4%nat \/ j = 5%nat) by lia.
      destruct Ei as [Ei|[Ei|Ei]]; destruct Ej as [Ej|[Ej|Ej]]; subst i j.
      * exact (ang_of_mod2pi (fun s => Mrot l s y z) x _ rep_roll 0 _ Dx H20 G0 A00).
      * exact (ang_of_mod2pi (fun s => Mrot l x s z) y _ rep_roll 0 _ Dy H20 G0 A01).
      * exact (ang_of_mod2pi (fun s => Mrot l x y s) z _ rep_roll 0 _ Dz H20 G0 A02).
      * exact (ang_of_mod2pi (fun s => Mrot l s y z) x _ rep_pitch 1 _ Dx H20 G1 A10).
      * exact (ang_of_mod2pi (fun s => Mrot l x s z) y _ rep_pitch 1 _ Dy H20 G1 A11).
      * exact (ang_of_mod2pi (fun s => Mrot l x y s) z _ rep_pitch 1 _ Dz H20 G1 A12).
      * exact (ang_of_mod2pi (fun s => Mrot l s y z) x _ rep_yaw 2 _ Dx H20 G2 A20).
      * exact (ang_of_mod2pi (fun s => Mrot l x s z) y _ rep_yaw 2 _ Dy H20 G2 A21).
      * exact (ang_of_mod2pi (fun s => Mrot l x y s) z _ rep_yaw 2 _ Dz H20 G2 A22).
    + (* the angles do not depend on the position *)
      apply is_derive_mod2pi_of_derive.
      assert (Ei : i = 3%nat \/ i = 4%nat \/ i = 5%nat) by lia.
      destruct (lt3_cases j Hj3) as [Ej|[Ej|Ej]]; destruct Ei as [Ei|[Ei|Ei]]; subst i j;
        apply (is_derive_const (ang_of (Mrot l x y z) _)).
  - (* position rows *)
    assert (P : is_derive (fun s => pose_map l t (upd q j s) i) (q j)
                  (pose_J ROps l (mkV3 x y z) i j)).
    { destruct (le_lt_dec 3 j) as [Hj3|Hj3].
      + (* the position does not depend on the angles *)
        assert (Ej : j = 3%nat \/ j = 4%nat \/ j = 5%nat) by lia.
        destruct (lt3_cases i Hi3) as [Ei|[Ei|Ei]]; destruct Ej as [Ej|[Ej|Ej]]; subst i j;
          apply (is_derive_const (vget3 (vadd3 ROps (mvmul3 ROps l (mkV3 (q 0%nat) (q 1%nat) (q 2%nat))) t) _)).
      + destruct (lt3_cases i Hi3) as [Ei|[Ei|Ei]]; destruct (lt3_cases j Hj3) as [Ej|[Ej|Ej]]; subst i j;
          exact (pose_J_position l t (mkV3 (q 0%nat) (q 1%nat) (q 2%nat)) _ _). }
    split; [intros _; exact P|apply is_derive_mod2pi_of_derive; exact P].
Qed.

(* the model's covariance of the transformed pose is J*C*J^T, written out *)
Lemma pose_cov_entries (j c : mat R) a b :
  pose_cov ROps j c a b = rsum 6 (fun m => rsum 6 (fun k => j a k * c k m) * j b m).
Proof. reflexivity. Qed.

(* J is the Jacobian of the pose map, the attached covariance is J*C*J^T and stays symmetric PSD: one statement *)
Theorem pose_cov_propagation l t q c :
  proper_rotation l -> Rabs (m20 (Mrot l (q 3%nat) (q 4%nat) (q 5%nat))) < 1 ->
  let J := pose_J ROps l (mkV3 (q 3%nat) (q 4%nat) (q 5%nat)) in
  let C' := pose_cov ROps J c in
  (forall i j, (i < 6)%nat -> (j < 6)%nat -> is_derive_mod2pi (fun s => pose_map l t (upd q j s) i) (q j) (J i j)) /\
  (forall a b, C' a b = rsum 6 (fun m => rsum 6 (fun k => J a k * c k m) * J b m)) /\
  (gsym 6 c -> gsym 6 C') /\ (gpsd 6 c -> gpsd 6 C').
Proof.
  intros Hl H20. cbv zeta. split; [|split; [|split]].
  - intros i j Hi Hj. exact (proj2 (pose_J_is_jacobian l t q Hl H20 i j Hi Hj)).
  - intros a b. reflexivity.
  - exact (congruence_sym 6 _ c).
  - exact (congruence_psd 6 _ c).
Qed.

(* ---------------- witnesses that the hypotheses are met outside the chart of PoseJacDeriv.v ---------------- *)
Lemma Mrot_id x y z : Mrot (mid3 ROps) x y z = rot_zyx x y z.
Proof. unfold Mrot. apply mmul3_id_l. Qed.

(* identity transform, roll = yaw = 2pi/3, pitch 0: second quadrant (M22 < 0 < M21, M00 < 0 < M10), off the cut *)
Lemma ex_second_quadrant :
  let m := Mrot (mid3 ROps) (2 * (PI / 3)) 0 (2 * (PI / 3)) in
  off_cut (m21 m) (m22 m) /\ off_cut (m10 m) (m00 m) /\ Rabs (m20 m) < 1 /\ m22 m < 0 /\ m00 m < 0.
Proof.
  cbv zeta. rewrite Mrot_id, rot_zyx_entries. cbn [m00 m10 m20 m21 m22].
  rewrite sin_0, cos_0, cos_2PI3, sin_2PI3, Ropp_0, Rabs_R0.
  assert (0 < sqrt 3) by (apply sqrt_lt_R0; lra).
  repeat split; try lra; apply off_cut_cases; right; left; lra.
Qed.

(* identity transform, roll = yaw = pi, pitch pi/6: both transformed angles ON the cut of atan2 (raw angle pi),
   reported angles pi: covered by the theorems about the reported angles, not by the raw one *)
Lemma ex_on_cut :
  let m := Mrot (mid3 ROps) PI (PI / 6) PI in
  ~ off_cut (m21 m) (m22 m) /\ ~ off_cut (m10 m) (m00 m) /\
  off_zero (m21 m) (m22 m) /\ off_zero (m10 m) (m00 m) /\ Rabs (m20 m) < 1 /\ m20 m <> 0.
Proof.
  cbv zeta. rewrite Mrot_id, rot_zyx_entries. cbn [m00 m10 m20 m21 m22].
  rewrite sin_PI, cos_PI, sin_PI6, cos_PI6.
  assert (0 < sqrt 3) by (apply sqrt_lt_R0; lra).
  split; [|split; [|split; [|split; [|split]]]].
  - intros H0. apply H0. split; lra.
  - intros H0. apply H0. split; lra.
  - intros [_ L]. lra.
  - intros [_ L]. lra.
  - apply Rabs_def1; lra.
  - lra.
Qed.

(* the hypothesis "off the cut" of the raw-angle theorem cannot be dropped: atan2 jumps by more than 3pi/2 there *)
Lemma Ratan2_cut_jump x : x < 0 -> Ratan2 0 x = PI /\ forall y, y < 0 -> Ratan2 y x < - PI / 2.
Proof. intros H. split; [exact (Ratan2_on_cut x H)|intros y Hy; exact (Ratan2_below_cut y x H Hy)]. Qed.
