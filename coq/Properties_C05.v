(* Properties_C05.v — placeholder, replaced below *)
From Coq Require Import Reals.
From Romea Require Import Num NumR LinAlgBModel LsModel P2pModel.
Theorem C05_placeholder : True.
Proof. exact I. Qed.
