(* Properties_C05.v — C05: point-to-plane least-squares registration solves its linearised problem.
   Only statements, each closed by [exact <lemma>] and followed by Print Assumptions.
   Model: P2pModel.v on top of LsModel.v.  A triple is ((source point, target point), target normal), points as lists of
   their stored coordinates.  [Jp d triples] / [Yp ps triples] are the design matrix [n ; s x n] and the right-hand side
   n.(t - s) of the property's linearised problem; unknowns (tau, omega). *)
From Coq Require Import Reals List Arith Lia Lra Bool.
From Romea Require Import Num NumR LinAlgBModel LinAlgBProofs LsModel LsProofs LsHistoryProofs P2pModel P2pProofs.
Import ListNotations.
Local Open Scope R_scope.

(* residual identity, 2D:  row_i . x - y_i = n_i . ((I + [w]x) s_i + tau - t_i)  with x = (tau_x, tau_y, w) *)
Theorem C05_p2p_residual_identity_2d : forall (s t n : list R) (x : nat -> R),
  Rsum 3 (fun c => vget ROps (p2p_row ROps 2 s n) c * x c) - p2p_y ROps 2 s t n =
  vget ROps n 0 * ((vget ROps s 0 - x 2%nat * vget ROps s 1) + x 0%nat - vget ROps t 0) +
  vget ROps n 1 * ((vget ROps s 1 + x 2%nat * vget ROps s 0) + x 1%nat - vget ROps t 1).
Proof. exact p2p_residual_identity_2d. Qed.
Print Assumptions C05_p2p_residual_identity_2d.

(* residual identity, 3D:  (I + [w]x) s = s + w x s,  x = (tau, w) *)
Theorem C05_p2p_residual_identity_3d : forall (s t n : list R) (x : nat -> R),
  Rsum 6 (fun c => vget ROps (p2p_row ROps 3 s n) c * x c) - p2p_y ROps 3 s t n =
  vget ROps n 0 * ((vget ROps s 0 + (x 4%nat * vget ROps s 2 - x 5%nat * vget ROps s 1)) + x 0%nat - vget ROps t 0) +
  vget ROps n 1 * ((vget ROps s 1 + (x 5%nat * vget ROps s 0 - x 3%nat * vget ROps s 2)) + x 1%nat - vget ROps t 1) +
  vget ROps n 2 * ((vget ROps s 2 + (x 3%nat * vget ROps s 1 - x 4%nat * vget ROps s 0)) + x 2%nat - vget ROps t 2).
Proof. exact p2p_residual_identity_3d. Qed.
Print Assumptions C05_p2p_residual_identity_3d.

(* representation: for homogeneous points the extra stored coordinate does not change the residual *)
Theorem C05_p2p_repr_invariant_residual : forall d (s t n : list R),
  vget ROps s d = vget ROps t d -> p2p_y ROps (S d) s t n = p2p_y ROps d s t n.
Proof. exact p2p_y_homogeneous. Qed.
Print Assumptions C05_p2p_repr_invariant_residual.

(* the estimate (from ANY state of the estimator's solver that is ready for this estimate size, i.e. after any earlier
   calls): H = scatter x, x = Ac z + Bc, and z satisfies the normal equations of the linearised problem built from THESE
   triples, minimises its cost, and is the only minimiser — under the SVD contract with all singular values above the
   relative threshold (cond(J^T J) < 1/epsilon). *)
Theorem C05_p2p_normal_equations_and_minimiser :
  forall inverse_of svd_of (fill : R) d ps triples (st st2 : ls_state (T:=R)) (H : list (list R)),
  (d = 2 \/ d = 3)%nat -> ready (p2p_k d) st -> (1 <= length triples)%nat ->
  p2p_estimate ROps inverse_of svd_of fill true d ps triples st = Some (st2, H) ->
  exists st1 x,
    p2p_load ROps inverse_of svd_of fill true d ps triples st = Some st1 /\
    ls_estimate_svd ROps svd_of st1 = Some (st2, x) /\ H = p2p_scatter ROps d x /\
    (svd_contract (p2p_k d) (ls_JtJ ROps st1) (svd_of (p2p_k d) (ls_JtJ ROps st1)) -> svd_all_above svd_of st1 ->
     let n := length triples in let k := p2p_k d in
     let z := ls_z st1 (svd_pinv ROps k (svd_thr svd_of st1) (svd_of k (ls_JtJ ROps st1))) in
     (forall i, (i < k)%nat -> vget ROps x i = Rsum k (fun l => mget ROps (ls_A st) i l * z l) + vget ROps (ls_b st) i) /\
     (forall i, (i < k)%nat -> grad n k (Jp d triples) (Yp ps triples) z i = 0) /\
     (forall y, cost n k (Jp d triples) (Yp ps triples) z <= cost n k (Jp d triples) (Yp ps triples) y) /\
     (forall y, cost n k (Jp d triples) (Yp ps triples) y = cost n k (Jp d triples) (Yp ps triples) z ->
                forall i, (i < k)%nat -> y i = z i)).
Proof. exact p2p_estimate_correct. Qed.
Print Assumptions C05_p2p_normal_equations_and_minimiser.

(* pure translation: a zero-residual parameter vector is THE minimiser; and for t = s + tau0 the vector (tau0, 0) has zero
   residual in every row (2D and 3D).  Together with the previous theorem: a pure translation is recovered exactly
   whenever the design matrix has full rank (normals span the space). *)
Theorem C05_p2p_zero_residual_recovered : forall n k J Y (z zs : nat -> R),
  (forall r, (r < n)%nat -> Jx k J zs r = Y r) ->
  (forall y, cost n k J Y z <= cost n k J Y y) ->
  (forall y, cost n k J Y y = cost n k J Y z -> forall i, (i < k)%nat -> y i = z i) ->
  forall i, (i < k)%nat -> z i = zs i.
Proof. exact zero_residual_recovered. Qed.
Print Assumptions C05_p2p_zero_residual_recovered.

Theorem C05_p2p_pure_translation_rows_2d : forall (s t n : list R) (tau : nat -> R),
  vget ROps t 0 = vget ROps s 0 + tau 0%nat -> vget ROps t 1 = vget ROps s 1 + tau 1%nat ->
  Rsum 3 (fun c => vget ROps (p2p_row ROps 2 s n) c * (if Nat.ltb c 2 then tau c else 0)) = p2p_y ROps 2 s t n.
Proof. exact translation_zero_residual_2d. Qed.
Print Assumptions C05_p2p_pure_translation_rows_2d.

Theorem C05_p2p_pure_translation_rows_3d : forall (s t n : list R) (tau : nat -> R),
  vget ROps t 0 = vget ROps s 0 + tau 0%nat -> vget ROps t 1 = vget ROps s 1 + tau 1%nat -> vget ROps t 2 = vget ROps s 2 + tau 2%nat ->
  Rsum 6 (fun c => vget ROps (p2p_row ROps 3 s n) c * (if Nat.ltb c 3 then tau c else 0)) = p2p_y ROps 3 s t n.
Proof. exact translation_zero_residual_3d. Qed.
Print Assumptions C05_p2p_pure_translation_rows_3d.

(* isotropic preconditioning by c: the rows of the preconditioned problem are the original rows with the rotation columns
   times c, the right-hand side is times c; and a solution z' of the scaled normal equations mapped by D z'/c — which is
   exactly what the preconditioner matrix Ac = diag(1/c,..,1/c,1,..,1) does — solves the original normal equations. *)
Theorem C05_p2p_precond_rows : forall d c (s n : list R) i, (d = 2 \/ d = 3)%nat ->
  vget ROps (p2p_row ROps d (scaled c s) n) i = vget ROps (p2p_row ROps d s n) i * (if Nat.ltb i d then 1 else c).
Proof. exact p2p_row_scaled. Qed.
Print Assumptions C05_p2p_precond_rows.

Theorem C05_p2p_precond_rhs : forall ps c (s t n : list R),
  p2p_y ROps ps (scaled c s) (scaled c t) n = c * p2p_y ROps ps s t n.
Proof. exact p2p_y_scaled. Qed.
Print Assumptions C05_p2p_precond_rhs.

Theorem C05_p2p_precond_invariant : forall n k (J : nat -> nat -> R) (Y : nat -> R) (D : nat -> R) (c : R) (z' : nat -> R) i,
  c <> 0 ->
  grad n k (fun r a => J r a * D a) (fun r => c * Y r) z' i = (D i * c) * grad n k J Y (fun a => D a * z' a / c) i.
Proof. exact grad_scaled. Qed.
Print Assumptions C05_p2p_precond_invariant.

(* The O(theta^2) rotation error is NOT a theorem: it is measured by the oracle in the explicit form
   |J (x - x_true)| <= theta^2/2 * sqrt(sum |s_i|^2) on exact-motion data (checks/C05.py).  What is proved about it is only
   that the estimate is the minimiser of the linearised cost (above). *)
Theorem C05_p2p_rotation_second_order_partial : forall n k J Y (z : nat -> R),
  (forall y, cost n k J Y z <= cost n k J Y y) -> forall xtrue, cost n k J Y z <= cost n k J Y xtrue.
Proof. exact (fun n k J Y z H xt => H xt). Qed.
Print Assumptions C05_p2p_rotation_second_order_partial.

(* ---- non-vacuity: a fresh estimator is ready, in 2D and 3D ---- *)
Example C05_fresh_estimator_ready : ready (p2p_k 2) (p2p_new ROps 2) /\ ready (p2p_k 3) (p2p_new ROps 3).
Proof. split; (split; [repeat split; cbn; auto|]); cbn; auto. Qed.
