(* Properties_C05.v — C05: point-to-plane least-squares registration solves its linearised problem.
   Only statements, each closed by [exact <lemma>] and followed by Print Assumptions.
   Model: P2pModel.v on top of LsModel.v.  A triple is ((source point, target point), target normal), points as lists of
   their stored coordinates.  [Jp d triples] / [Yp ps triples] are the design matrix [n ; s x n] and the right-hand side
   n.(t - s) of the property's linearised problem; unknowns (tau, omega). *)
From Coq Require Import Reals List Arith Lia Lra Bool.
From Romea Require Import Num NumR LinAlgBModel LinAlgBProofs LsModel LsProofs LsHistoryProofs P2pModel P2pProofs P2pSecondOrder.
From Romea Require Import SrcP2pLib SrcTieC05 SrcTieC05R.
From Romea.gen Require Import SrcP2p.
Import ListNotations.
Local Open Scope R_scope.

(* residual identity, 2D:  row_i . x - y_i = n_i . ((I + [w]x) s_i + tau - t_i)  with x = (tau_x, tau_y, w) *)
Theorem C05_p2p_residual_identity_2d : forall (s t n : list R) (x : nat -> R),
  Rsum 3 (fun c => vget ROps (p2p_row ROps 2 s n) c * x c) - p2p_y ROps 2 s t n =
  vget ROps n 0 * ((vget ROps s 0 - x 2%nat * vget ROps s 1) + x 0%nat - vget ROps t 0) +
  vget ROps n 1 * ((vget ROps s 1 + x 2%nat * vget ROps s 0) + x 1%nat - vget ROps t 1).
Proof. exact p2p_residual_identity_2d. Qed.
Print Assumptions C05_p2p_residual_identity_2d.

(* residual identity, 3D:  (I + [w]x) s = s + w x s,  x = (tau, w) *)
Theorem C05_p2p_residual_identity_3d : forall (s t n : list R) (x : nat -> R),
  Rsum 6 (fun c => vget ROps (p2p_row ROps 3 s n) c * x c) - p2p_y ROps 3 s t n =
  vget ROps n 0 * ((vget ROps s 0 + (x 4%nat * vget ROps s 2 - x 5%nat * vget ROps s 1)) + x 0%nat - vget ROps t 0) +
  vget ROps n 1 * ((vget ROps s 1 + (x 5%nat * vget ROps s 0 - x 3%nat * vget ROps s 2)) + x 1%nat - vget ROps t 1) +
  vget ROps n 2 * ((vget ROps s 2 + (x 3%nat * vget ROps s 1 - x 4%nat * vget ROps s 0)) + x 2%nat - vget ROps t 2).
Proof. exact p2p_residual_identity_3d. Qed.
Print Assumptions C05_p2p_residual_identity_3d.

(* representation: for homogeneous points the extra stored coordinate does not change the residual *)
Theorem C05_p2p_repr_invariant_residual : forall d (s t n : list R),
  vget ROps s d = vget ROps t d -> p2p_y ROps (S d) s t n = p2p_y ROps d s t n.
Proof. exact p2p_y_homogeneous. Qed.
Print Assumptions C05_p2p_repr_invariant_residual.

(* the estimate (from ANY state of the estimator's solver that is ready for this estimate size, i.e. after any earlier
   calls): H = scatter x, x = Ac z + Bc, and z satisfies the normal equations of the linearised problem built from THESE
   triples, minimises its cost, and is the only minimiser — under the SVD contract with all singular values above the
   relative threshold (cond(J^T J) < 1/epsilon). *)
Theorem C05_p2p_normal_equations_and_minimiser :
  forall inverse_of svd_of (fill : R) d ps triples (st st2 : ls_state (T:=R)) (H : list (list R)),
  (d = 2 \/ d = 3)%nat -> ready (p2p_k d) st -> (1 <= length triples)%nat ->
  p2p_estimate ROps inverse_of svd_of fill true d ps triples st = Some (st2, H) ->
  exists st1 x,
    p2p_load ROps inverse_of svd_of fill true d ps triples st = Some st1 /\
    ls_estimate_svd ROps svd_of st1 = Some (st2, x) /\ H = p2p_scatter ROps d x /\
    (svd_contract (p2p_k d) (ls_JtJ ROps st1) (svd_of (p2p_k d) (ls_JtJ ROps st1)) -> svd_all_above svd_of st1 ->
     let n := length triples in let k := p2p_k d in
     let z := ls_z st1 (svd_pinv ROps k (svd_thr svd_of st1) (svd_of k (ls_JtJ ROps st1))) in
     (forall i, (i < k)%nat -> vget ROps x i = Rsum k (fun l => mget ROps (ls_A st) i l * z l) + vget ROps (ls_b st) i) /\
     (forall i, (i < k)%nat -> grad n k (Jp d triples) (Yp ps triples) z i = 0) /\
     (forall y, cost n k (Jp d triples) (Yp ps triples) z <= cost n k (Jp d triples) (Yp ps triples) y) /\
     (forall y, cost n k (Jp d triples) (Yp ps triples) y = cost n k (Jp d triples) (Yp ps triples) z ->
                forall i, (i < k)%nat -> y i = z i)).
Proof. exact p2p_estimate_correct. Qed.
Print Assumptions C05_p2p_normal_equations_and_minimiser.

(* pure translation: a zero-residual parameter vector is THE minimiser; and for t = s + tau0 the vector (tau0, 0) has zero
   residual in every row (2D and 3D).  Together with the previous theorem: a pure translation is recovered exactly
   whenever the design matrix has full rank (normals span the space). *)
Theorem C05_p2p_zero_residual_recovered : forall n k J Y (z zs : nat -> R),
  (forall r, (r < n)%nat -> Jx k J zs r = Y r) ->
  (forall y, cost n k J Y z <= cost n k J Y y) ->
  (forall y, cost n k J Y y = cost n k J Y z -> forall i, (i < k)%nat -> y i = z i) ->
  forall i, (i < k)%nat -> z i = zs i.
Proof. exact zero_residual_recovered. Qed.
Print Assumptions C05_p2p_zero_residual_recovered.

Theorem C05_p2p_pure_translation_rows_2d : forall (s t n : list R) (tau : nat -> R),
  vget ROps t 0 = vget ROps s 0 + tau 0%nat -> vget ROps t 1 = vget ROps s 1 + tau 1%nat ->
  Rsum 3 (fun c => vget ROps (p2p_row ROps 2 s n) c * (if Nat.ltb c 2 then tau c else 0)) = p2p_y ROps 2 s t n.
Proof. exact translation_zero_residual_2d. Qed.
Print Assumptions C05_p2p_pure_translation_rows_2d.

Theorem C05_p2p_pure_translation_rows_3d : forall (s t n : list R) (tau : nat -> R),
  vget ROps t 0 = vget ROps s 0 + tau 0%nat -> vget ROps t 1 = vget ROps s 1 + tau 1%nat -> vget ROps t 2 = vget ROps s 2 + tau 2%nat ->
  Rsum 6 (fun c => vget ROps (p2p_row ROps 3 s n) c * (if Nat.ltb c 3 then tau c else 0)) = p2p_y ROps 3 s t n.
Proof. exact translation_zero_residual_3d. Qed.
Print Assumptions C05_p2p_pure_translation_rows_3d.

(* isotropic preconditioning by c: the rows of the preconditioned problem are the original rows with the rotation columns
   times c, the right-hand side is times c; and a solution z' of the scaled normal equations mapped by D z'/c — which is
   exactly what the preconditioner matrix Ac = diag(1/c,..,1/c,1,..,1) does — solves the original normal equations. *)
Theorem C05_p2p_precond_rows : forall d c (s n : list R) i, (d = 2 \/ d = 3)%nat ->
  vget ROps (p2p_row ROps d (scaled c s) n) i = vget ROps (p2p_row ROps d s n) i * (if Nat.ltb i d then 1 else c).
Proof. exact p2p_row_scaled. Qed.
Print Assumptions C05_p2p_precond_rows.

Theorem C05_p2p_precond_rhs : forall ps c (s t n : list R),
  p2p_y ROps ps (scaled c s) (scaled c t) n = c * p2p_y ROps ps s t n.
Proof. exact p2p_y_scaled. Qed.
Print Assumptions C05_p2p_precond_rhs.

Theorem C05_p2p_precond_invariant : forall n k (J : nat -> nat -> R) (Y : nat -> R) (D : nat -> R) (c : R) (z' : nat -> R) i,
  c <> 0 ->
  grad n k (fun r a => J r a * D a) (fun r => c * Y r) z' i = (D i * c) * grad n k J Y (fun a => D a * z' a / c) i.
Proof. exact grad_scaled. Qed.
Print Assumptions C05_p2p_precond_invariant.

(* ---------------- a rotation of angle theta is recovered with error O(theta^2) ----------------
   Definitions used below (coq/P2pSecondOrder.v), points as coordinate functions [vget ROps p]:
     rot2 t s         = [[cos t, -sin t],[sin t, cos t]] s
     cross u v        = u x v,   rodrigues k t s = s + sin t (k x s) + (1 - cos t) (k x (k x s))   (rotation by t about k)
     sq2 / sq3 / dot3 = squared norms and scalar product
     xtrue2 tau theta = (tau_x, tau_y, theta),   xtrue3 tau k theta = (tau, theta k)   (the estimator's parameter order)
     tsrc / ttgt / tnrm triples r = source / target / normal of correspondence r
     same_w d ps s t  = Cartesian storage (ps = d) or homogeneous storage with equal last coordinate
     exact_motion_2d theta tau ps triples  = every normal is a unit vector and target = rot2 theta source + tau
     exact_motion_3d theta k tau ps triples = ... target = rodrigues k theta source + tau. *)

(* analytic facts, every real t *)
Theorem C05_rotation_remainder_analytic : forall t : R,
  0 <= 1 - cos t <= t ^ 2 / 2 /\
  (1 - cos t) ^ 2 + (t - sin t) ^ 2 = 2 - 2 * cos t - 2 * t * sin t + t ^ 2 /\
  (1 - cos t) ^ 2 + (t - sin t) ^ 2 <= t ^ 4 / 4.
Proof. exact rotation_remainder_analytic. Qed.
Print Assumptions C05_rotation_remainder_analytic.

(* rot2 and rodrigues are rotations: isometries, the axis is fixed, about e_z it is the planar rotation *)
Theorem C05_rotations_are_rotations :
  (forall t s, sq2 (rot2 t s) = sq2 s) /\
  (forall k t s, sq3 k = 1 -> sq3 (rodrigues k t s) = sq3 s) /\
  (forall k t, rodrigues k t k 0%nat = k 0%nat /\ rodrigues k t k 1%nat = k 1%nat /\ rodrigues k t k 2%nat = k 2%nat) /\
  (forall t s, let ez := fun i => match i with 2%nat => 1 | _ => 0 end in
     rodrigues ez t s 0%nat = rot2 t s 0%nat /\ rodrigues ez t s 1%nat = rot2 t s 1%nat /\ rodrigues ez t s 2%nat = s 2%nat).
Proof. exact rotations_are_rotations. Qed.
Print Assumptions C05_rotations_are_rotations.

(* linearisation remainder, 2D: |((I + t [[0,-1],[1,0]]) - R(t)) s|^2 = ((1 - cos t)^2 + (t - sin t)^2) |s|^2 <= t^4/4 |s|^2 *)
Theorem C05_rotation_remainder_2d : forall (t : R) (s : nat -> R),
  sq2 (fun i => match i with O => s 0%nat - t * s 1%nat | _ => s 1%nat + t * s 0%nat end - rot2 t s i)
    = ((1 - cos t) ^ 2 + (t - sin t) ^ 2) * sq2 s /\
  sq2 (fun i => match i with O => s 0%nat - t * s 1%nat | _ => s 1%nat + t * s 0%nat end - rot2 t s i)
    <= t ^ 4 / 4 * sq2 s.
Proof. exact rot2_remainder. Qed.
Print Assumptions C05_rotation_remainder_2d.

(* linearisation remainder, 3D, unit axis k: |(I + t K - R) s|^2 = ((1 - cos t)^2 + (t - sin t)^2) (|s|^2 - (k.s)^2) <= t^4/4 |s|^2 *)
Theorem C05_rotation_remainder_3d : forall (k : nat -> R) (t : R) (s : nat -> R), sq3 k = 1 ->
  sq3 (fun i => s i + t * cross k s i - rodrigues k t s i)
    = ((1 - cos t) ^ 2 + (t - sin t) ^ 2) * (sq3 s - dot3 k s ^ 2) /\
  sq3 (fun i => s i + t * cross k s i - rodrigues k t s i) <= t ^ 4 / 4 * sq3 s.
Proof. exact rodrigues_remainder. Qed.
Print Assumptions C05_rotation_remainder_3d.

(* one correspondence of exact-motion data: the linearised residual of the TRUE parameters, squared, is at most
   theta^4/4 |s|^2  (Cauchy-Schwarz with |n| = 1) *)
Theorem C05_p2p_true_residual_2d : forall theta tau ps (s t n : list R),
  sq2 (vget ROps n) = 1 -> same_w 2 ps s t ->
  (forall c, (c < 2)%nat -> vget ROps t c = rot2 theta (vget ROps s) c + tau c) ->
  (Rsum 3 (fun c => vget ROps (p2p_row ROps 2 s n) c * xtrue2 tau theta c) - p2p_y ROps ps s t n) *
  (Rsum 3 (fun c => vget ROps (p2p_row ROps 2 s n) c * xtrue2 tau theta c) - p2p_y ROps ps s t n)
  <= theta ^ 4 / 4 * sq2 (vget ROps s).
Proof. exact p2p_true_residual_2d. Qed.
Print Assumptions C05_p2p_true_residual_2d.

Theorem C05_p2p_true_residual_3d : forall theta tau k ps (s t n : list R),
  sq3 (vget ROps n) = 1 -> sq3 k = 1 -> same_w 3 ps s t ->
  (forall c, (c < 3)%nat -> vget ROps t c = rodrigues k theta (vget ROps s) c + tau c) ->
  (Rsum 6 (fun c => vget ROps (p2p_row ROps 3 s n) c * xtrue3 tau k theta c) - p2p_y ROps ps s t n) *
  (Rsum 6 (fun c => vget ROps (p2p_row ROps 3 s n) c * xtrue3 tau k theta c) - p2p_y ROps ps s t n)
  <= theta ^ 4 / 4 * sq3 (vget ROps s).
Proof. exact p2p_true_residual_3d. Qed.
Print Assumptions C05_p2p_true_residual_3d.

(* abstract least squares: for ANY solution z of the normal equations, cost x = cost z + |J (z - x)|^2 *)
Theorem C05_pythagoras_from_normal_equations : forall n k J Y (z : nat -> R),
  (forall i, (i < k)%nat -> grad n k J Y z i = 0) ->
  forall x, cost n k J Y x = cost n k J Y z + Jerr2 n k J z x.
Proof. exact pythagoras_normal. Qed.
Print Assumptions C05_pythagoras_from_normal_equations.

(* THE SECOND-ORDER BOUND: exact-motion data, z any solution of the normal equations of the model's linearised problem
   (the estimate is one: C05_p2p_normal_equations_and_minimiser):  |J (z - x_true)|^2 <= theta^4/4 sum_i |s_i|^2 *)
Theorem C05_p2p_rotation_second_order_2d : forall theta tau ps triples (z : nat -> R),
  exact_motion_2d theta tau ps triples ->
  (forall i, (i < 3)%nat -> grad (length triples) 3 (Jp 2 triples) (Yp ps triples) z i = 0) ->
  Rsum (length triples) (fun r => (Rsum 3 (fun a => Jp 2 triples r a * (z a - xtrue2 tau theta a))) ^ 2)
  <= theta ^ 4 / 4 * Rsum (length triples) (fun r => sq2 (vget ROps (tsrc triples r))).
Proof. exact p2p_rotation_second_order_2d. Qed.
Print Assumptions C05_p2p_rotation_second_order_2d.

Theorem C05_p2p_rotation_second_order_3d : forall theta k tau ps triples (z : nat -> R),
  sq3 k = 1 -> exact_motion_3d theta k tau ps triples ->
  (forall i, (i < 6)%nat -> grad (length triples) 6 (Jp 3 triples) (Yp ps triples) z i = 0) ->
  Rsum (length triples) (fun r => (Rsum 6 (fun a => Jp 3 triples r a * (z a - xtrue3 tau k theta a))) ^ 2)
  <= theta ^ 4 / 4 * Rsum (length triples) (fun r => sq3 (vget ROps (tsrc triples r))).
Proof. exact p2p_rotation_second_order_3d. Qed.
Print Assumptions C05_p2p_rotation_second_order_3d.

(* the same in the form the oracle measures: |J (z - x_true)| <= theta^2/2 sqrt(sum_i |s_i|^2) *)
Theorem C05_p2p_rotation_second_order_sqrt_2d : forall theta tau ps triples (z : nat -> R),
  exact_motion_2d theta tau ps triples ->
  (forall i, (i < 3)%nat -> grad (length triples) 3 (Jp 2 triples) (Yp ps triples) z i = 0) ->
  sqrt (Rsum (length triples) (fun r => (Rsum 3 (fun a => Jp 2 triples r a * (z a - xtrue2 tau theta a))) ^ 2))
  <= theta ^ 2 / 2 * sqrt (Rsum (length triples) (fun r => sq2 (vget ROps (tsrc triples r)))).
Proof. exact p2p_rotation_second_order_sqrt_2d. Qed.
Print Assumptions C05_p2p_rotation_second_order_sqrt_2d.

Theorem C05_p2p_rotation_second_order_sqrt_3d : forall theta k tau ps triples (z : nat -> R),
  sq3 k = 1 -> exact_motion_3d theta k tau ps triples ->
  (forall i, (i < 6)%nat -> grad (length triples) 6 (Jp 3 triples) (Yp ps triples) z i = 0) ->
  sqrt (Rsum (length triples) (fun r => (Rsum 6 (fun a => Jp 3 triples r a * (z a - xtrue3 tau k theta a))) ^ 2))
  <= theta ^ 2 / 2 * sqrt (Rsum (length triples) (fun r => sq3 (vget ROps (tsrc triples r)))).
Proof. exact p2p_rotation_second_order_sqrt_3d. Qed.
Print Assumptions C05_p2p_rotation_second_order_sqrt_3d.

(* parameter error: with lam > 0 a lower bound of the spectrum of J^T J (lam |v|^2 <= |J v|^2 for every v),
   |z - x_true|^2 <= theta^4/(4 lam) sum_i |s_i|^2 *)
Theorem C05_p2p_rotation_param_error_2d : forall theta tau ps triples (z : nat -> R) lam,
  exact_motion_2d theta tau ps triples ->
  (forall i, (i < 3)%nat -> grad (length triples) 3 (Jp 2 triples) (Yp ps triples) z i = 0) ->
  0 < lam ->
  (forall v : nat -> R, lam * Rsum 3 (fun a => v a * v a) <=
                        Rsum (length triples) (fun r => Jx 3 (Jp 2 triples) v r * Jx 3 (Jp 2 triples) v r)) ->
  Rsum 3 (fun a => (z a - xtrue2 tau theta a) * (z a - xtrue2 tau theta a))
  <= theta ^ 4 / 4 * Rsum (length triples) (fun r => sq2 (vget ROps (tsrc triples r))) / lam.
Proof. exact p2p_rotation_param_error_2d. Qed.
Print Assumptions C05_p2p_rotation_param_error_2d.

Theorem C05_p2p_rotation_param_error_3d : forall theta k tau ps triples (z : nat -> R) lam,
  sq3 k = 1 -> exact_motion_3d theta k tau ps triples ->
  (forall i, (i < 6)%nat -> grad (length triples) 6 (Jp 3 triples) (Yp ps triples) z i = 0) ->
  0 < lam ->
  (forall v : nat -> R, lam * Rsum 6 (fun a => v a * v a) <=
                        Rsum (length triples) (fun r => Jx 6 (Jp 3 triples) v r * Jx 6 (Jp 3 triples) v r)) ->
  Rsum 6 (fun a => (z a - xtrue3 tau k theta a) * (z a - xtrue3 tau k theta a))
  <= theta ^ 4 / 4 * Rsum (length triples) (fun r => sq3 (vget ROps (tsrc triples r))) / lam.
Proof. exact p2p_rotation_param_error_3d. Qed.
Print Assumptions C05_p2p_rotation_param_error_3d.

(* end to end, the modelled estimator from ANY ready state: H = scatter x, x = Ac z + Bc, and z obeys the bound
   (SVD contract, all singular values above the relative threshold, as in C05_p2p_normal_equations_and_minimiser) *)
Theorem C05_p2p_estimate_rotation_second_order_2d :
  forall inverse_of svd_of (fill : R) ps triples (st st2 : ls_state (T:=R)) (H : list (list R)) theta tau,
  ready 3%nat st -> (1 <= length triples)%nat -> exact_motion_2d theta tau ps triples ->
  p2p_estimate ROps inverse_of svd_of fill true 2 ps triples st = Some (st2, H) ->
  exists st1 x,
    p2p_load ROps inverse_of svd_of fill true 2 ps triples st = Some st1 /\
    ls_estimate_svd ROps svd_of st1 = Some (st2, x) /\ H = p2p_scatter ROps 2 x /\
    (svd_contract 3%nat (ls_JtJ ROps st1) (svd_of 3%nat (ls_JtJ ROps st1)) -> svd_all_above svd_of st1 ->
     let n := length triples in
     let z := ls_z st1 (svd_pinv ROps 3%nat (svd_thr svd_of st1) (svd_of 3%nat (ls_JtJ ROps st1))) in
     (forall i, (i < 3)%nat -> vget ROps x i = Rsum 3 (fun l => mget ROps (ls_A st) i l * z l) + vget ROps (ls_b st) i) /\
     Rsum n (fun r => (Rsum 3 (fun a => Jp 2 triples r a * (z a - xtrue2 tau theta a))) ^ 2)
     <= theta ^ 4 / 4 * Rsum n (fun r => sq2 (vget ROps (tsrc triples r)))).
Proof. exact p2p_estimate_rotation_second_order_2d. Qed.
Print Assumptions C05_p2p_estimate_rotation_second_order_2d.

Theorem C05_p2p_estimate_rotation_second_order_3d :
  forall inverse_of svd_of (fill : R) ps triples (st st2 : ls_state (T:=R)) (H : list (list R)) theta k tau,
  ready 6%nat st -> (1 <= length triples)%nat -> sq3 k = 1 -> exact_motion_3d theta k tau ps triples ->
  p2p_estimate ROps inverse_of svd_of fill true 3 ps triples st = Some (st2, H) ->
  exists st1 x,
    p2p_load ROps inverse_of svd_of fill true 3 ps triples st = Some st1 /\
    ls_estimate_svd ROps svd_of st1 = Some (st2, x) /\ H = p2p_scatter ROps 3 x /\
    (svd_contract 6%nat (ls_JtJ ROps st1) (svd_of 6%nat (ls_JtJ ROps st1)) -> svd_all_above svd_of st1 ->
     let n := length triples in
     let z := ls_z st1 (svd_pinv ROps 6%nat (svd_thr svd_of st1) (svd_of 6%nat (ls_JtJ ROps st1))) in
     (forall i, (i < 6)%nat -> vget ROps x i = Rsum 6 (fun l => mget ROps (ls_A st) i l * z l) + vget ROps (ls_b st) i) /\
     Rsum n (fun r => (Rsum 6 (fun a => Jp 3 triples r a * (z a - xtrue3 tau k theta a))) ^ 2)
     <= theta ^ 4 / 4 * Rsum n (fun r => sq3 (vget ROps (tsrc triples r)))).
Proof. exact p2p_estimate_rotation_second_order_3d. Qed.
Print Assumptions C05_p2p_estimate_rotation_second_order_3d.

(* a freshly constructed estimator (Ac = I, Bc = 0): the bound holds for the returned parameters x themselves *)
Theorem C05_p2p_fresh_rotation_second_order_2d :
  forall inverse_of svd_of (fill : R) ps triples (st2 : ls_state (T:=R)) (H : list (list R)) theta tau,
  (1 <= length triples)%nat -> exact_motion_2d theta tau ps triples ->
  p2p_estimate ROps inverse_of svd_of fill true 2 ps triples (p2p_new ROps 2) = Some (st2, H) ->
  exists st1 x,
    p2p_load ROps inverse_of svd_of fill true 2 ps triples (p2p_new ROps 2) = Some st1 /\ H = p2p_scatter ROps 2 x /\
    (svd_contract 3%nat (ls_JtJ ROps st1) (svd_of 3%nat (ls_JtJ ROps st1)) -> svd_all_above svd_of st1 ->
     let n := length triples in
     Rsum n (fun r => (Rsum 3 (fun a => Jp 2 triples r a * (vget ROps x a - xtrue2 tau theta a))) ^ 2)
     <= theta ^ 4 / 4 * Rsum n (fun r => sq2 (vget ROps (tsrc triples r)))).
Proof. exact p2p_fresh_rotation_second_order_2d. Qed.
Print Assumptions C05_p2p_fresh_rotation_second_order_2d.

Theorem C05_p2p_fresh_rotation_second_order_3d :
  forall inverse_of svd_of (fill : R) ps triples (st2 : ls_state (T:=R)) (H : list (list R)) theta k tau,
  (1 <= length triples)%nat -> sq3 k = 1 -> exact_motion_3d theta k tau ps triples ->
  p2p_estimate ROps inverse_of svd_of fill true 3 ps triples (p2p_new ROps 3) = Some (st2, H) ->
  exists st1 x,
    p2p_load ROps inverse_of svd_of fill true 3 ps triples (p2p_new ROps 3) = Some st1 /\ H = p2p_scatter ROps 3 x /\
    (svd_contract 6%nat (ls_JtJ ROps st1) (svd_of 6%nat (ls_JtJ ROps st1)) -> svd_all_above svd_of st1 ->
     let n := length triples in
     Rsum n (fun r => (Rsum 6 (fun a => Jp 3 triples r a * (vget ROps x a - xtrue3 tau k theta a))) ^ 2)
     <= theta ^ 4 / 4 * Rsum n (fun r => sq3 (vget ROps (tsrc triples r)))).
Proof. exact p2p_fresh_rotation_second_order_3d. Qed.
Print Assumptions C05_p2p_fresh_rotation_second_order_3d.

(* ---- non-vacuity: a fresh estimator is ready, in 2D and 3D ---- *)
Example C05_fresh_estimator_ready : ready (p2p_k 2) (p2p_new ROps 2) /\ ready (p2p_k 3) (p2p_new ROps 3).
Proof. split; (split; [repeat split; cbn; auto|]); cbn; auto. Qed.

(* ---- non-vacuity of the exact-motion hypotheses (every angle theta), 2D with translation (3,-2), 3D about e_z;
        and, for the 2D data, a solution of the normal equations exists (zero-residual z) ---- *)
Example C05_exact_motion_2d_satisfiable : forall theta,
  exact_motion_2d theta (fun c => match c with O => 3 | _ => -2 end) 2
    [(([1; 0], [cos theta + 3; sin theta - 2]), [0; 1]); (([0; 2], [- (2 * sin theta) + 3; 2 * cos theta - 2]), [1; 0])].
Proof. exact exact_motion_2d_example. Qed.

Example C05_exact_motion_2d_normal_equations_satisfiable : forall theta,
  let triples := [(([1; 0], [cos theta + 3; sin theta - 2]), [0; 1]);
                  (([0; 2], [- (2 * sin theta) + 3; 2 * cos theta - 2]), [1; 0])] in
  let z := fun c => match c with O => 3 - 2 * sin theta | S O => sin theta - 2 | _ => 0 end in
  forall i, (i < 3)%nat -> grad (length triples) 3 (Jp 2 triples) (Yp 2 triples) z i = 0.
Proof. exact exact_motion_2d_example_normal. Qed.

Example C05_exact_motion_3d_satisfiable : forall theta,
  let ez := fun i => match i with 2%nat => 1 | _ => 0 end in
  sq3 ez = 1 /\
  exact_motion_3d theta ez (fun _ => 0) 3 [(([1; 0; 5], [cos theta; sin theta; 5]), [0; 1; 0])].
Proof. exact exact_motion_3d_example. Qed.

(* ================================================================================================================
   SYNTACTIC SOURCE TIE.  gen/SrcP2p.v is regenerated on every run by translate/tr_C05_p2p.py from the clang AST of the
   INSTANTIATED members of FindRigidTransformationByLeastSquares<PointType> in the current source (PointType =
   Eigen::Vector2 / Vector3 / HomogeneousCoordinates2 / HomogeneousCoordinates3 = tags V2 / V3 / H2 / H3; the float and the
   double instantiation give the same term): the constructor, setPreconditioner, the two estimate_ overloads (aligned
   arrays / correspondence vector; only the `CARTESIAN_DIM == 2` branch that is taken is executed) and the four public find
   overloads.  In the generated terms the member leastSquares_ is an abstract object of type Ls and the methods called on
   it are the fields, bound by name, of an argument M : LsMethods T Ls (coq/SrcP2pLib.v: F_new, F_setEstimateSize,
   F_setDataSize, F_getJ_set = `J(i, j) = v`, F_getY_set = `Y(i) = v`, F_estimateUsingSVD, F_setPreconditionner).  The
   theorems below hold for EVERY numeric dictionary N — the generated terms and the model perform the same dictionary
   operations in the same order — and instantiate (Ls, M) in three ways (coq/SrcTieC05.v):
     fJY, f_methods N x : Ls = (nat -> nat -> T) * (nat -> T), the coefficients of J and Y as functions of the indexes
             (F_getJ_set / F_getY_set update one coefficient, the solver answers x) — what the row-filling loop writes;
     unit, u_methods x  : the solver plays no role and answers x — what is returned;
     option ls_state, o_methods N svd_of fill svd_fixed : the state of LsModel.v; coefficient writes o_setJ / o_setY (outside
             the buffers: undefined behaviour, None), setDataSize = ls_set_data_size, estimateUsingSVD = ls_estimate_svd
             (svd_fixed = true) / ls_estimate_svd_abs, setEstimateSize, setPreconditionner, LeastSquares() = ls_new0 — the
             whole call; [pack] turns (state, matrix) into the option result of the model.
   dtriple = (([], []), []) is the default triple of the [nth] lookups. *)

(* rows, 2D: for an input the model accepts, after estimate_ (started on ANY coefficients s0) row r of J is p2p_row of the
   r-th triple (the normal is the one of the TARGET index), Y(r) = n_r . (t_r - s_r) over the stored coordinates (2 for
   Vector2, 3 for HomogeneousCoordinates2), for every r below the number of correspondences / points; all other
   coefficients are untouched.  Correspondence-vector overload and aligned overload. *)
Theorem C05_source_tie_rows_2d :
  forall (T : Type) (N : NumOps T) (src tgt nrm : list (list T)) (corr : list (nat * nat))
         (tr : list ((list T * list T) * list T)) (x : list T) (s0 : fJY (T:=T)),
  let S r := fst (fst (nth r tr dtriple)) in let Tg r := snd (fst (nth r tr dtriple)) in let Nr r := snd (nth r tr dtriple) in
  let spec (ps : nat) (s : fJY (T:=T)) :=
    (forall r, (r < length tr)%nat ->
       (forall c, (c < 3)%nat -> fst s r c = vget N (p2p_row N 2 (S r) (Nr r)) c) /\ snd s r = p2p_y N ps (S r) (Tg r) (Nr r)) /\
    (forall r, (length tr <= r)%nat -> (forall c, fst s r c = fst s0 r c) /\ snd s r = snd s0 r) in
  (triples_of_corr src tgt nrm corr = Some tr ->
     spec 2%nat (fst (src_estimate_corr_V2 N fJY (f_methods N x) src tgt nrm corr s0)) /\
     spec 3%nat (fst (src_estimate_corr_H2 N fJY (f_methods N x) src tgt nrm corr s0))) /\
  (triples_aligned src tgt nrm = Some tr ->
     spec 2%nat (fst (src_estimate_aligned_V2 N fJY (f_methods N x) src tgt nrm s0)) /\
     spec 3%nat (fst (src_estimate_aligned_H2 N fJY (f_methods N x) src tgt nrm s0))).
Proof. exact (fun T N => source_tie_rows_2d N). Qed.
Print Assumptions C05_source_tie_rows_2d.

(* rows, 3D: [n, s x n] in columns 0..5, stored coordinates 3 (Vector3) / 4 (HomogeneousCoordinates3) *)
Theorem C05_source_tie_rows_3d :
  forall (T : Type) (N : NumOps T) (src tgt nrm : list (list T)) (corr : list (nat * nat))
         (tr : list ((list T * list T) * list T)) (x : list T) (s0 : fJY (T:=T)),
  let S r := fst (fst (nth r tr dtriple)) in let Tg r := snd (fst (nth r tr dtriple)) in let Nr r := snd (nth r tr dtriple) in
  let spec (ps : nat) (s : fJY (T:=T)) :=
    (forall r, (r < length tr)%nat ->
       (forall c, (c < 6)%nat -> fst s r c = vget N (p2p_row N 3 (S r) (Nr r)) c) /\ snd s r = p2p_y N ps (S r) (Tg r) (Nr r)) /\
    (forall r, (length tr <= r)%nat -> (forall c, fst s r c = fst s0 r c) /\ snd s r = snd s0 r) in
  (triples_of_corr src tgt nrm corr = Some tr ->
     spec 3%nat (fst (src_estimate_corr_V3 N fJY (f_methods N x) src tgt nrm corr s0)) /\
     spec 4%nat (fst (src_estimate_corr_H3 N fJY (f_methods N x) src tgt nrm corr s0))) /\
  (triples_aligned src tgt nrm = Some tr ->
     spec 3%nat (fst (src_estimate_aligned_V3 N fJY (f_methods N x) src tgt nrm s0)) /\
     spec 4%nat (fst (src_estimate_aligned_H3 N fJY (f_methods N x) src tgt nrm s0))).
Proof. exact (fun T N => source_tie_rows_3d N). Qed.
Print Assumptions C05_source_tie_rows_3d.

(* scatter: whatever vector x the solver returns, the matrix returned by each of the eight estimate_ bodies is p2p_scatter x
   (2D: [1 -x2 x0; x2 1 x1; 0 0 1], 3D: I + [x3 x4 x5]x with translation x0 x1 x2) *)
Theorem C05_source_tie_scatter :
  forall (T : Type) (N : NumOps T) (src tgt nrm : list (list T)) (corr : list (nat * nat)) (x : list T),
  (snd (src_estimate_corr_V2 N unit (u_methods x) src tgt nrm corr tt) = p2p_scatter N 2 x /\
   snd (src_estimate_corr_H2 N unit (u_methods x) src tgt nrm corr tt) = p2p_scatter N 2 x /\
   snd (src_estimate_aligned_V2 N unit (u_methods x) src tgt nrm tt) = p2p_scatter N 2 x /\
   snd (src_estimate_aligned_H2 N unit (u_methods x) src tgt nrm tt) = p2p_scatter N 2 x) /\
  (snd (src_estimate_corr_V3 N unit (u_methods x) src tgt nrm corr tt) = p2p_scatter N 3 x /\
   snd (src_estimate_corr_H3 N unit (u_methods x) src tgt nrm corr tt) = p2p_scatter N 3 x /\
   snd (src_estimate_aligned_V3 N unit (u_methods x) src tgt nrm tt) = p2p_scatter N 3 x /\
   snd (src_estimate_aligned_H3 N unit (u_methods x) src tgt nrm tt) = p2p_scatter N 3 x).
Proof. exact (fun T N => source_tie_scatter N). Qed.
Print Assumptions C05_source_tie_scatter.

(* the whole call: on the LsModel state, from ANY solver state ready for the estimate size, each generated estimate_ IS
   p2p_find_corr / p2p_find_aligned (= p2p_estimate on the model's triples: setDataSize, the row ops, the SVD estimate, the
   scatter) — the function C05_p2p_normal_equations_and_minimiser and the second-order theorems are about *)
Theorem C05_source_tie_estimate :
  forall (T : Type) (N : NumOps T) inverse_of svd_of (fill : T) (svd_fixed : bool)
         (src tgt nrm : list (list T)) (corr : list (nat * nat)) (tr : list ((list T * list T) * list T)) (st : ls_state (T:=T)),
  let om := o_methods N svd_of fill svd_fixed in
  (triples_of_corr src tgt nrm corr = Some tr ->
     (ready 3 st ->
        pack (src_estimate_corr_V2 N (option ls_state) om src tgt nrm corr (Some st))
        = p2p_find_corr N inverse_of svd_of fill svd_fixed 2 2 src tgt nrm corr st /\
        pack (src_estimate_corr_H2 N (option ls_state) om src tgt nrm corr (Some st))
        = p2p_find_corr N inverse_of svd_of fill svd_fixed 2 3 src tgt nrm corr st) /\
     (ready 6 st ->
        pack (src_estimate_corr_V3 N (option ls_state) om src tgt nrm corr (Some st))
        = p2p_find_corr N inverse_of svd_of fill svd_fixed 3 3 src tgt nrm corr st /\
        pack (src_estimate_corr_H3 N (option ls_state) om src tgt nrm corr (Some st))
        = p2p_find_corr N inverse_of svd_of fill svd_fixed 3 4 src tgt nrm corr st)) /\
  (triples_aligned src tgt nrm = Some tr ->
     (ready 3 st ->
        pack (src_estimate_aligned_V2 N (option ls_state) om src tgt nrm (Some st))
        = p2p_find_aligned N inverse_of svd_of fill svd_fixed 2 2 src tgt nrm st /\
        pack (src_estimate_aligned_H2 N (option ls_state) om src tgt nrm (Some st))
        = p2p_find_aligned N inverse_of svd_of fill svd_fixed 2 3 src tgt nrm st) /\
     (ready 6 st ->
        pack (src_estimate_aligned_V3 N (option ls_state) om src tgt nrm (Some st))
        = p2p_find_aligned N inverse_of svd_of fill svd_fixed 3 3 src tgt nrm st /\
        pack (src_estimate_aligned_H3 N (option ls_state) om src tgt nrm (Some st))
        = p2p_find_aligned N inverse_of svd_of fill svd_fixed 3 4 src tgt nrm st)).
Proof. exact (fun T N => source_tie_estimate N). Qed.
Print Assumptions C05_source_tie_estimate.

(* the public find overloads are estimate_ (for any solver object); the PreconditionedPointSet overloads are estimate_ on the
   point sets returned by get() *)
Theorem C05_source_tie_find :
  forall (T : Type) (N : NumOps T) (Ls : Type) (M : LsMethods T Ls) (src tgt nrm : list (list T)) (corr : list (nat * nat)) (ls : Ls),
  (src_find_corr_V2 N Ls M src tgt nrm corr ls = src_estimate_corr_V2 N Ls M src tgt nrm corr ls /\
   src_find_aligned_V2 N Ls M src tgt nrm ls = src_estimate_aligned_V2 N Ls M src tgt nrm ls /\
   src_find_pre_corr_V2 N Ls M nrm corr ls src tgt = src_estimate_corr_V2 N Ls M src tgt nrm corr ls /\
   src_find_pre_aligned_V2 N Ls M nrm ls src tgt = src_estimate_aligned_V2 N Ls M src tgt nrm ls) /\
  (src_find_corr_H2 N Ls M src tgt nrm corr ls = src_estimate_corr_H2 N Ls M src tgt nrm corr ls /\
   src_find_aligned_H2 N Ls M src tgt nrm ls = src_estimate_aligned_H2 N Ls M src tgt nrm ls /\
   src_find_pre_corr_H2 N Ls M nrm corr ls src tgt = src_estimate_corr_H2 N Ls M src tgt nrm corr ls /\
   src_find_pre_aligned_H2 N Ls M nrm ls src tgt = src_estimate_aligned_H2 N Ls M src tgt nrm ls) /\
  (src_find_corr_V3 N Ls M src tgt nrm corr ls = src_estimate_corr_V3 N Ls M src tgt nrm corr ls /\
   src_find_aligned_V3 N Ls M src tgt nrm ls = src_estimate_aligned_V3 N Ls M src tgt nrm ls /\
   src_find_pre_corr_V3 N Ls M nrm corr ls src tgt = src_estimate_corr_V3 N Ls M src tgt nrm corr ls /\
   src_find_pre_aligned_V3 N Ls M nrm ls src tgt = src_estimate_aligned_V3 N Ls M src tgt nrm ls) /\
  (src_find_corr_H3 N Ls M src tgt nrm corr ls = src_estimate_corr_H3 N Ls M src tgt nrm corr ls /\
   src_find_aligned_H3 N Ls M src tgt nrm ls = src_estimate_aligned_H3 N Ls M src tgt nrm ls /\
   src_find_pre_corr_H3 N Ls M nrm corr ls src tgt = src_estimate_corr_H3 N Ls M src tgt nrm corr ls /\
   src_find_pre_aligned_H3 N Ls M nrm ls src tgt = src_estimate_aligned_H3 N Ls M src tgt nrm ls).
Proof. exact (fun T N => source_tie_find N). Qed.
Print Assumptions C05_source_tie_find.

(* constructor (default-constructed solver, estimate size 3 | 6) and setPreconditioner (Ac = Identity with the leading
   d x d block divided by the (0,0) coefficient of the TARGET set's preconditioning matrix, one-argument setPreconditionner) *)
Theorem C05_source_tie_new_and_preconditioner :
  forall (T : Type) (N : NumOps T) svd_of (fill : T) (svd_fixed : bool) (st : ls_state (T:=T)) (P : list (list T)),
  let om := o_methods N svd_of fill svd_fixed in
  (src_new_V2 (option ls_state) om = Some (p2p_new N 2) /\ src_new_H2 (option ls_state) om = Some (p2p_new N 2) /\
   src_new_V3 (option ls_state) om = Some (p2p_new N 3) /\ src_new_H3 (option ls_state) om = Some (p2p_new N 3)) /\
  (src_setPreconditioner_V2 N (option ls_state) om (Some st) P = Some (p2p_set_preconditioner N 2 (mget N P 0 0) st) /\
   src_setPreconditioner_H2 N (option ls_state) om (Some st) P = Some (p2p_set_preconditioner N 2 (mget N P 0 0) st) /\
   src_setPreconditioner_V3 N (option ls_state) om (Some st) P = Some (p2p_set_preconditioner N 3 (mget N P 0 0) st) /\
   src_setPreconditioner_H3 N (option ls_state) om (Some st) P = Some (p2p_set_preconditioner N 3 (mget N P 0 0) st)).
Proof. exact (fun T N svd_of fill svd_fixed st P => conj (tie_new N svd_of fill svd_fixed) (tie_setPreconditioner N svd_of fill svd_fixed st P)). Qed.
Print Assumptions C05_source_tie_new_and_preconditioner.

(* COROLLARY: C05's residual identity (first theorem of this file) stated directly about the coefficients written by the
   generated row-filling loops, real dictionary:  (row r of J) . z - Y(r) = n_r . ((I + [w]x) s_r + tau - t_r), z = (tau, w);
   homogeneous point types under the hypothesis that source and target carry the same last coordinate.
   tsrc / ttgt / tnrm tr r = source / target / normal of the r-th triple. *)
Theorem C05_source_tie_residual_identity_2d :
  forall (src tgt nrm : list (list R)) (corr : list (nat * nat)) tr (x : list R) (s0 : fJY (T:=R)) (z : nat -> R) (r : nat),
  (r < length tr)%nat ->
  let s_ := tsrc tr r in let t_ := ttgt tr r in let n_ := tnrm tr r in
  let res (s : fJY (T:=R)) := Rsum 3 (fun c => fst s r c * z c) - snd s r in
  let lin := vget ROps n_ 0 * ((vget ROps s_ 0 - z 2%nat * vget ROps s_ 1) + z 0%nat - vget ROps t_ 0) +
             vget ROps n_ 1 * ((vget ROps s_ 1 + z 2%nat * vget ROps s_ 0) + z 1%nat - vget ROps t_ 1) in
  let same_w := vget ROps s_ 2 = vget ROps t_ 2 in
  (triples_of_corr src tgt nrm corr = Some tr ->
     res (fst (src_estimate_corr_V2 ROps fJY (f_methods ROps x) src tgt nrm corr s0)) = lin /\
     (same_w -> res (fst (src_estimate_corr_H2 ROps fJY (f_methods ROps x) src tgt nrm corr s0)) = lin)) /\
  (triples_aligned src tgt nrm = Some tr ->
     res (fst (src_estimate_aligned_V2 ROps fJY (f_methods ROps x) src tgt nrm s0)) = lin /\
     (same_w -> res (fst (src_estimate_aligned_H2 ROps fJY (f_methods ROps x) src tgt nrm s0)) = lin)).
Proof. exact source_residual_identity_2d. Qed.
Print Assumptions C05_source_tie_residual_identity_2d.

Theorem C05_source_tie_residual_identity_3d :
  forall (src tgt nrm : list (list R)) (corr : list (nat * nat)) tr (x : list R) (s0 : fJY (T:=R)) (z : nat -> R) (r : nat),
  (r < length tr)%nat ->
  let s_ := tsrc tr r in let t_ := ttgt tr r in let n_ := tnrm tr r in
  let res (s : fJY (T:=R)) := Rsum 6 (fun c => fst s r c * z c) - snd s r in
  let lin := vget ROps n_ 0 * ((vget ROps s_ 0 + (z 4%nat * vget ROps s_ 2 - z 5%nat * vget ROps s_ 1)) + z 0%nat - vget ROps t_ 0) +
             vget ROps n_ 1 * ((vget ROps s_ 1 + (z 5%nat * vget ROps s_ 0 - z 3%nat * vget ROps s_ 2)) + z 1%nat - vget ROps t_ 1) +
             vget ROps n_ 2 * ((vget ROps s_ 2 + (z 3%nat * vget ROps s_ 1 - z 4%nat * vget ROps s_ 0)) + z 2%nat - vget ROps t_ 2) in
  let same_w := vget ROps s_ 3 = vget ROps t_ 3 in
  (triples_of_corr src tgt nrm corr = Some tr ->
     res (fst (src_estimate_corr_V3 ROps fJY (f_methods ROps x) src tgt nrm corr s0)) = lin /\
     (same_w -> res (fst (src_estimate_corr_H3 ROps fJY (f_methods ROps x) src tgt nrm corr s0)) = lin)) /\
  (triples_aligned src tgt nrm = Some tr ->
     res (fst (src_estimate_aligned_V3 ROps fJY (f_methods ROps x) src tgt nrm s0)) = lin /\
     (same_w -> res (fst (src_estimate_aligned_H3 ROps fJY (f_methods ROps x) src tgt nrm s0)) = lin)).
Proof. exact source_residual_identity_3d. Qed.
Print Assumptions C05_source_tie_residual_identity_3d.

(* COROLLARY: the property's main claim (C05_p2p_normal_equations_and_minimiser) stated directly about the GENERATED
   estimate_ bodies run on the LsModel state (repaired SVD path): whenever such a call returns (st2, H), H = scatter x,
   x = Ac z + Bc, and — under the SVD contract with all singular values above the threshold — z satisfies the normal
   equations of the linearised problem of THESE triples, minimises its cost and is the only minimiser. *)
Theorem C05_source_tie_normal_equations_and_minimiser :
  forall inverse_of svd_of (fill : R) (src tgt nrm : list (list R)) (corr : list (nat * nat)) tr (st : ls_state (T:=R)),
  let om := o_methods ROps svd_of fill true in
  let spec (d ps : nat) (res : option (ls_state (T:=R) * list (list R))) :=
    forall st2 H, res = Some (st2, H) ->
    exists st1 x,
      p2p_load ROps inverse_of svd_of fill true d ps tr st = Some st1 /\
      ls_estimate_svd ROps svd_of st1 = Some (st2, x) /\ H = p2p_scatter ROps d x /\
      (svd_contract (p2p_k d) (ls_JtJ ROps st1) (svd_of (p2p_k d) (ls_JtJ ROps st1)) -> svd_all_above svd_of st1 ->
       let n := length tr in let k := p2p_k d in
       let z := ls_z st1 (svd_pinv ROps k (svd_thr svd_of st1) (svd_of k (ls_JtJ ROps st1))) in
       (forall i, (i < k)%nat -> vget ROps x i = Rsum k (fun l => mget ROps (ls_A st) i l * z l) + vget ROps (ls_b st) i) /\
       (forall i, (i < k)%nat -> grad n k (Jp d tr) (Yp ps tr) z i = 0) /\
       (forall y, cost n k (Jp d tr) (Yp ps tr) z <= cost n k (Jp d tr) (Yp ps tr) y) /\
       (forall y, cost n k (Jp d tr) (Yp ps tr) y = cost n k (Jp d tr) (Yp ps tr) z -> forall i, (i < k)%nat -> y i = z i)) in
  (1 <= length tr)%nat ->
  (triples_of_corr src tgt nrm corr = Some tr ->
     (ready 3 st ->
        spec 2%nat 2%nat (pack (src_estimate_corr_V2 ROps (option ls_state) om src tgt nrm corr (Some st))) /\
        spec 2%nat 3%nat (pack (src_estimate_corr_H2 ROps (option ls_state) om src tgt nrm corr (Some st)))) /\
     (ready 6 st ->
        spec 3%nat 3%nat (pack (src_estimate_corr_V3 ROps (option ls_state) om src tgt nrm corr (Some st))) /\
        spec 3%nat 4%nat (pack (src_estimate_corr_H3 ROps (option ls_state) om src tgt nrm corr (Some st))))) /\
  (triples_aligned src tgt nrm = Some tr ->
     (ready 3 st ->
        spec 2%nat 2%nat (pack (src_estimate_aligned_V2 ROps (option ls_state) om src tgt nrm (Some st))) /\
        spec 2%nat 3%nat (pack (src_estimate_aligned_H2 ROps (option ls_state) om src tgt nrm (Some st)))) /\
     (ready 6 st ->
        spec 3%nat 3%nat (pack (src_estimate_aligned_V3 ROps (option ls_state) om src tgt nrm (Some st))) /\
        spec 3%nat 4%nat (pack (src_estimate_aligned_H3 ROps (option ls_state) om src tgt nrm (Some st))))).
Proof. exact source_estimate_correct. Qed.
Print Assumptions C05_source_tie_normal_equations_and_minimiser.

(* ---- non-vacuity of the source-tie hypotheses: an accepted correspondence input (the normal of correspondence (1,0) is
        normal 0, the TARGET's) and accepted aligned arrays; a fresh estimator is ready (C05_fresh_estimator_ready) ---- *)
Example C05_source_tie_inputs_accepted :
  triples_of_corr [[1; 2]; [3; 4]] [[5; 6]; [7; 8]] [[0; 1]; [1; 0]] [(1, 0); (0, 1)]%nat
    = Some [(([3; 4], [5; 6]), [0; 1]); (([1; 2], [7; 8]), [1; 0])] /\
  triples_aligned [[1; 2]; [3; 4]] [[5; 6]; [7; 8]] [[0; 1]; [1; 0]]
    = Some [(([1; 2], [5; 6]), [0; 1]); (([3; 4], [7; 8]), [1; 0])].
Proof. split; reflexivity. Qed.
