(* IcpModel.v — executable model (definitions only) of the control logic of
     src/transform/estimation/FindRigidTransformationByICP.cpp :: find
   - the one-to-one correspondence filter (std::sort by (source, distance) + std::unique on the source index),
   - the iteration / exit logic, the best-estimate bookkeeping and the return value,
   over an abstract per-iteration outcome of (matching + RANSAC): success flag, consensus rmse, transformation.
   Kd-tree matching, normals and the estimators are not modelled here. *)
From Coq Require Import ZArith List Bool.
From Romea Require Import Num RansacModel.
From Romea.gen Require Import RepoConstants.
Import ListNotations.
Local Open Scope Z_scope.

Section Icp.
  Context {T : Type} (N : NumOps T).

  (* "Remove wrong correspondences": sort by (source index, distance), keep the first of every source index *)
  Definition one_to_one (cs : list (corr T)) : list (corr T) :=
    unique_by (eq_src (T:=T)) (sort_by (src_dist_lt N) cs).

  Record icp_outcome : Type := mkOutcome {
    io_ok : bool;          (* ransac_.estimateModel()                 *)
    io_rmse : T;           (* ransacModel_.getRootMeanSquareError()   *)
    io_M : list T          (* ransacModel_.getTransformation(), entries *)
  }.

  Record icp_state : Type := mkIcpState {
    is_best : option Z;    (* iteration whose transformation is bestRigidTransformation (None: identity) *)
    is_best_rmse : T;      (* bestFittingRMSE                                                           *)
    is_prev : list T       (* previousEstimatedTransformation                                           *)
  }.

  Record icp_result : Type := mkIcpResult {
    ir_found : bool;       (* return value  n != maximalNumberOfIterations_                     *)
    ir_n : Z;              (* loop counter at exit                                             *)
    ir_state : icp_state
  }.

  (* (a - b).array().abs().sum() *)
  Definition mat_absdiff (a b : list T) : T :=
    fold_left (nadd N) (map (fun p => nabs N (nsub N (fst p) (snd p))) (combine a b)) (nzero N).

  (* body of the loop for a successful RANSAC outcome: (new state, break?) *)
  Definition icp_step (eps : T) (n : Z) (st : icp_state) (o : icp_outcome) : icp_state * bool :=
    let d := mat_absdiff (io_M o) (is_prev st) in
    let st1 := if nltb N (io_rmse o) (is_best_rmse st)
               then mkIcpState (Some n) (io_rmse o) (is_prev st) else st in
    if nltb N d eps then (st1, true)
    else (mkIcpState (is_best st1) (is_best_rmse st1) (io_M o), false).

  (* for (; n < maximalNumberOfIterations_; ++n): [fuel] = iterations left; [os] = outcomes still to come.
     None: the list of outcomes ends before the loop does (incomplete trace). *)
  Fixpoint icp_loop (eps : T) (fuel : nat) (n : Z) (st : icp_state) (os : list icp_outcome) : option icp_result :=
    match fuel with
    | O => Some (mkIcpResult false n st)
    | S f =>
      match os with
      | [] => None
      | o :: r =>
        if io_ok o then
          let (st', brk) := icp_step eps n st o in
          if brk then Some (mkIcpResult true n st') else icp_loop eps f (n + 1) st' r
        else icp_loop eps f (n + 1) st r
      end
    end.

  Definition icp_init (identity : list T) : icp_state := mkIcpState None (nmaxval N) identity.

  Definition icp_run (eps : T) (maxit : Z) (identity : list T) (os : list icp_outcome) : option icp_result :=
    icp_loop eps (Z.to_nat maxit) 0 (icp_init identity) os.

  (* iteration whose RANSAC transformation getTransformation() hands out after find():
     the last iteration that ran (the breaking one when found) *)
  Definition icp_returned_iteration (r : icp_result) : option Z :=
    if ir_found r then Some (ir_n r) else if 0 <? ir_n r then Some (ir_n r - 1) else None.
End Icp.
Arguments icp_outcome : clear implicits.
Arguments icp_state : clear implicits.
Arguments icp_result : clear implicits.

Definition icp_maxit : Z := icp_max_iterations.
Definition icp_epsilon {T} (N : NumOps T) : T := nofDec N icp_transformation_epsilon_m icp_transformation_epsilon_e.
Definition identity_entries {T} (N : NumOps T) (d : nat) : list T :=
  flat_map (fun i => map (fun j => if Nat.eqb i j then n_one N else nzero N) (seq 0 d)) (seq 0 d).
