(* Properties_C18.v — C18: check-ups classify by their thresholds; statuses aggregate as a severity order.
   Only statements, each closed by [exact <lemma>] and followed by Print Assumptions. *)
From Coq Require Import Reals ZArith List Bool Lra.
From Romea Require Import Num NumR DiagModel DiagProofs SrcTieC18 GridMapFloat DiagFloat.
From Romea.gen Require Import RepoConstants SrcDiag.
Import ListNotations.
Local Open Scope R_scope.

(* --- thresholds (real-number reading of the comparisons the code performs) --- *)
Theorem C18_equal_to_ok_iff : forall (c : checkup (T:=R)) v,
  snd (eval_equal_to ROps c v) = OK <-> Rabs (v - c_cmp c) <= c_eps c.
Proof. exact equal_to_ok_iff_abs. Qed.
Print Assumptions C18_equal_to_ok_iff.

Theorem C18_equal_to_verdicts : forall (c : checkup (T:=R)) v, 0 <= c_eps c ->
  let r := c_report (fst (eval_equal_to ROps c v)) in
  (v < c_cmp c - c_eps c -> d_status (r_diag r) = ERROR /\ d_suffix (r_diag r) = STooLow) /\
  (c_cmp c + c_eps c < v -> d_status (r_diag r) = ERROR /\ d_suffix (r_diag r) = STooHigh) /\
  (c_cmp c - c_eps c <= v <= c_cmp c + c_eps c -> d_status (r_diag r) = OK /\ d_suffix (r_diag r) = SIsOK) /\
  r_info r = Some v.
Proof. exact equal_to_verdicts. Qed.
Print Assumptions C18_equal_to_verdicts.

Theorem C18_greater_ok_iff : forall (c : checkup (T:=R)) v,
  snd (eval_greater_than ROps c v) = OK <-> v > c_cmp c - c_eps c.
Proof. exact greater_ok_iff. Qed.
Print Assumptions C18_greater_ok_iff.

Theorem C18_greater_verdicts : forall (c : checkup (T:=R)) v,
  let r := c_report (fst (eval_greater_than ROps c v)) in
  (v > c_cmp c - c_eps c -> d_status (r_diag r) = OK /\ d_suffix (r_diag r) = SIsOK) /\
  (v <= c_cmp c - c_eps c -> d_status (r_diag r) = ERROR /\ d_suffix (r_diag r) = STooLow) /\
  r_info r = Some v.
Proof. exact greater_verdicts. Qed.
Print Assumptions C18_greater_verdicts.

Theorem C18_lower_ok_iff : forall (c : checkup (T:=R)) v,
  snd (eval_lower_than ROps c v) = OK <-> v < c_cmp c + c_eps c.
Proof. exact lower_ok_iff. Qed.
Print Assumptions C18_lower_ok_iff.

Theorem C18_lower_verdicts : forall (c : checkup (T:=R)) v,
  let r := c_report (fst (eval_lower_than ROps c v)) in
  (v < c_cmp c + c_eps c -> d_status (r_diag r) = OK /\ d_suffix (r_diag r) = SIsOK) /\
  (c_cmp c + c_eps c <= v -> d_status (r_diag r) = ERROR /\ d_suffix (r_diag r) = STooHigh) /\
  r_info r = Some v.
Proof. exact lower_verdicts. Qed.
Print Assumptions C18_lower_verdicts.

Theorem C18_reliability_classes : forall (c : checkup (T:=R)) v,
  let r := c_report (fst (eval_reliability ROps c v)) in
  let s := snd (eval_reliability ROps c v) in
  (v < c_cmp c -> s = ERROR /\ d_suffix (r_diag r) = STooLow) /\
  (c_cmp c <= v -> v < c_eps c -> s = WARN /\ d_suffix (r_diag r) = SUncertain) /\
  (c_cmp c <= v -> c_eps c <= v -> s = OK /\ d_suffix (r_diag r) = SIsHigh) /\
  r_info r = Some v.
Proof. exact reliability_classes. Qed.
Print Assumptions C18_reliability_classes.

(* --- bookkeeping, for every numeric instance (so also for the float instance that is executed) --- *)
Theorem C18_returned_is_stored : forall T (N : NumOps T) k (c : checkup) v,
  let '(c', s) := cstep N k c (Eval v) in s = Some (d_status (r_diag (c_report c'))).
Proof. exact @returned_is_stored. Qed.
Print Assumptions C18_returned_is_stored.

Theorem C18_report_consistent : forall T (N : NumOps T) k ops (c : checkup),
  Forall (fun sr => consistent k (snd sr)) (crun N k c ops) /\
  c_cmp (cfinal N k c ops) = c_cmp c /\ c_eps (cfinal N k c ops) = c_eps c.
Proof. exact @run_consistent. Qed.
Print Assumptions C18_report_consistent.

Theorem C18_step_history_free : forall T (N : NumOps T) k (c1 c2 : checkup) o,
  c_cmp c1 = c_cmp c2 -> c_eps c1 = c_eps c2 ->
  c_report (fst (cstep N k c1 o)) = c_report (fst (cstep N k c2 o)) /\ snd (cstep N k c1 o) = snd (cstep N k c2 o).
Proof. exact @step_history_free. Qed.
Print Assumptions C18_step_history_free.

(* --- severity order (enumerator values regenerated from the source on every run) --- *)
Theorem C18_severity_order :
  (status_val OK < status_val WARN < status_val ERROR)%Z /\ (status_val ERROR < status_val STALE)%Z.
Proof. exact status_order. Qed.
Print Assumptions C18_severity_order.

Theorem C18_worse_comm : forall a b, worse a b = worse b a.
Proof. exact worse_comm. Qed.
Theorem C18_worse_assoc : forall a b c, worse a (worse b c) = worse (worse a b) c.
Proof. exact worse_assoc. Qed.
Theorem C18_worse_idem : forall a, worse a a = a.
Proof. exact worse_idem. Qed.
Theorem C18_worse_is_max : forall a b, status_val (worse a b) = Z.max (status_val a) (status_val b).
Proof. exact worse_is_max. Qed.
Print Assumptions C18_worse_is_max.

Theorem C18_worst_is_max : forall l, l <> [] ->
  exists s, worseStatus l = Some s /\
            (forall d, In d l -> (status_val (d_status d) <= status_val s)%Z) /\
            (exists d, In d l /\ d_status d = s).
Proof. exact worst_is_max. Qed.
Print Assumptions C18_worst_is_max.

Theorem C18_allOK_iff : forall l, l <> [] ->
  (allOK l = Some true <-> Forall (fun d => d_status d = OK) l) /\
  (allOK l = Some true \/ allOK l = Some false).
Proof. exact allOK_iff. Qed.
Print Assumptions C18_allOK_iff.

(* --- report append --- *)
Theorem C18_append_diags : forall r1 r2, rep_diags (report_append r1 r2) = rep_diags r1 ++ rep_diags r2.
Proof. exact append_diags. Qed.

Theorem C18_append_info : forall r1 r2 k, keys_sorted (rep_info r1) -> keys_sorted (rep_info r2) ->
  keys_sorted (rep_info (report_append r1 r2)) /\
  lookup k (rep_info (report_append r1 r2)) =
    match lookup k (rep_info r1) with Some x => Some x | None => lookup k (rep_info r2) end.
Proof. intros r1 r2 k. exact (append_info_lookup (rep_info r2) (rep_info r1) k). Qed.
Print Assumptions C18_append_info.

(* --- non-vacuity: concrete states meeting the hypotheses --- *)
Example C18_ex_equal : snd (eval_equal_to ROps (checkup_init 10 (1/2) diagnostic_default) (21/2)) = OK.
Proof. apply C18_equal_to_ok_iff. cbn. rewrite Rabs_right; lra. Qed.
Example C18_ex_worst : worseStatus [ {| d_status := OK; d_suffix := SIsOK |};
                                      {| d_status := ERROR; d_suffix := STooLow |};
                                      {| d_status := WARN; d_suffix := SUncertain |} ] = Some ERROR.
Proof. vm_compute. reflexivity. Qed.
Example C18_ex_append :
  rep_info (report_append {| rep_diags := []; rep_info := [(1, 10); (3, 30)]%Z |}
                          {| rep_diags := []; rep_info := [(2, 21); (3, 31)]%Z |}) = [(1, 10); (2, 21); (3, 30)]%Z.
Proof. vm_compute. reflexivity. Qed.

(* ====================================================================================================================
   SYNTACTIC SOURCE TIE.  gen/SrcDiag.v is regenerated on every run by translate/tr_C18_diag.py from the clang AST of the
   current Checkup*.hpp / CheckupReliability.cpp / DiagnosticStatus.cpp / Diagnostic.cpp / DiagnosticReport.cpp; the
   functions the theorems above are about ARE those generated terms, for every numeric dictionary (SrcTieC18.v).
   A generated transformer takes the parameters, then the fields it reads (by name), and returns the fields it writes and
   the returned value; [pack c r] puts a new report r back into the check-up c (thresholds are never written).
   ==================================================================================================================== *)
Theorem C18_source_tie_equal_to : forall T (N : NumOps T) (c : checkup) v,
  (let '(r, s) := src_equal_to_evaluate N v (c_eps c) (c_report c) (c_cmp c) in (pack c r, s)) = eval_equal_to N c v.
Proof. exact @tie_equal_to. Qed.
Print Assumptions C18_source_tie_equal_to.

Theorem C18_source_tie_greater_than : forall T (N : NumOps T) (c : checkup) v,
  (let '(r, s) := src_greater_than_evaluate N v (c_eps c) (c_report c) (c_cmp c) in (pack c r, s)) = eval_greater_than N c v.
Proof. exact @tie_greater_than. Qed.

Theorem C18_source_tie_lower_than : forall T (N : NumOps T) (c : checkup) v,
  (let '(r, s) := src_lower_than_evaluate N v (c_eps c) (c_report c) (c_cmp c) in (pack c r, s)) = eval_lower_than N c v.
Proof. exact @tie_lower_than. Qed.

(* CheckupReliability: high threshold = c_eps, low threshold = c_cmp *)
Theorem C18_source_tie_reliability : forall T (N : NumOps T) (c : checkup) v,
  (let '(r, s) := src_reliability_evaluate N v (c_eps c) (c_cmp c) (c_report c) in (pack c r, s)) = eval_reliability N c v.
Proof. exact @tie_reliability. Qed.
Print Assumptions C18_source_tie_reliability.

(* the helpers of Checkup<T> the evaluate functions are built on, and Checkup<T>::timeout *)
Theorem C18_source_tie_checkup_helpers : forall T s m v (r : creport (T:=T)),
  src_checkup_setDiagnostic s m r = {| r_diag := {| d_status := s; d_suffix := m |}; r_info := r_info r |} /\
  src_checkup_setValue v r = {| r_diag := r_diag r; r_info := Some v |} /\
  src_checkup_getStatus r = d_status (r_diag r).
Proof. intros. repeat split. Qed.

Theorem C18_source_tie_timeout : forall T (c : checkup (T:=T)), pack c (src_checkup_timeout (c_report c)) = checkup_timeout c.
Proof. exact @tie_checkup_timeout. Qed.

Theorem C18_source_tie_worse : forall a b, src_worse a b = worse a b.
Proof. exact tie_worse. Qed.

(* the iterator loop of worseStatus; None = the C++ dereferences the end iterator (empty list) *)
Theorem C18_source_tie_worseStatus : forall l, src_worseStatus l = worseStatus l.
Proof. exact tie_worseStatus. Qed.
Print Assumptions C18_source_tie_worseStatus.

Theorem C18_source_tie_allOK : forall l, src_allOK l = allOK l.
Proof. exact tie_allOK. Qed.

Theorem C18_source_tie_report_append : forall r1 r2,
  src_report_append (rep_diags r1) (rep_info r1) (rep_diags r2) (rep_info r2)
  = (rep_diags (report_append r1 r2), rep_info (report_append r1 r2)).
Proof. exact tie_report_append. Qed.
Print Assumptions C18_source_tie_report_append.

(* ====================================================================================================================
   BINARY64.  The same model at the rounded dictionary B64Ops (GridMapFloat.v: every C++ double operation is the real
   operation followed by one rounding to nearest-even in FLT(-1074, 53); comparisons are exact).  By the source tie above
   (which holds for every dictionary) eval_* B64Ops is also the generated term at B64Ops.  The only rounding is in
   cmp - eps / cmp + eps; v is the double handed to evaluate (b64 v).  The format has no largest exponent: the statements
   are about the code as long as |cmp| + |eps| does not overflow.
   ==================================================================================================================== *)
(* the verdict is that of the ROUNDED threshold *)
Theorem C18_thresholds_binary64_rounded_threshold : forall (c : checkup (T:=R)) v,
  (snd (eval_greater_than B64Ops c v) = OK <-> rnd64 (c_cmp c - c_eps c) < v) /\
  (snd (eval_lower_than B64Ops c v) = OK <-> v < rnd64 (c_cmp c + c_eps c)) /\
  (snd (eval_equal_to B64Ops c v) = OK <-> rnd64 (c_cmp c - c_eps c) <= v <= rnd64 (c_cmp c + c_eps c)).
Proof. intros c v. exact (conj (greater_b64_char c v) (conj (lower_b64_char c v) (equal_b64_char c v))). Qed.
Print Assumptions C18_thresholds_binary64_rounded_threshold.

(* exact disagreement sets: the double evaluation (new state, report and returned status) equals the real-number one of
   the property EXCEPT when the value is exactly the rounded threshold and the rounding moved the threshold across it *)
Theorem C18_thresholds_binary64_greater_vs_real : forall (c : checkup (T:=R)) v, b64 v ->
  (eval_greater_than B64Ops c v = eval_greater_than ROps c v <->
   ~ (v = rnd64 (c_cmp c - c_eps c) /\ c_cmp c - c_eps c < v)).
Proof. exact greater_b64_vs_real. Qed.
Print Assumptions C18_thresholds_binary64_greater_vs_real.

Theorem C18_thresholds_binary64_lower_vs_real : forall (c : checkup (T:=R)) v, b64 v ->
  (eval_lower_than B64Ops c v = eval_lower_than ROps c v <->
   ~ (v = rnd64 (c_cmp c + c_eps c) /\ v < c_cmp c + c_eps c)).
Proof. exact lower_b64_vs_real. Qed.

Theorem C18_thresholds_binary64_equal_vs_real : forall (c : checkup (T:=R)) v, b64 v ->
  c_cmp c - c_eps c <= c_cmp c + c_eps c ->
  (eval_equal_to B64Ops c v = eval_equal_to ROps c v <->
   ~ (v = rnd64 (c_cmp c - c_eps c) /\ v < c_cmp c - c_eps c) /\
   ~ (v = rnd64 (c_cmp c + c_eps c) /\ c_cmp c + c_eps c < v)).
Proof. exact equal_b64_vs_real. Qed.
Print Assumptions C18_thresholds_binary64_equal_vs_real.

(* what happens inside the band: greater-than / lower-than report ERROR where the property says OK; equal-to reports OK
   where the property says ERROR (the rounded band is the wider one) *)
Theorem C18_thresholds_binary64_inside_band : forall (c : checkup (T:=R)) v,
  (b64 v -> eval_greater_than B64Ops c v <> eval_greater_than ROps c v ->
     eval_greater_than ROps c v = (set_diag c OK SIsOK (Some v), OK) /\
     eval_greater_than B64Ops c v = (set_diag c ERROR STooLow (Some v), ERROR)) /\
  (b64 v -> eval_lower_than B64Ops c v <> eval_lower_than ROps c v ->
     eval_lower_than ROps c v = (set_diag c OK SIsOK (Some v), OK) /\
     eval_lower_than B64Ops c v = (set_diag c ERROR STooHigh (Some v), ERROR)) /\
  (c_cmp c - c_eps c <= c_cmp c + c_eps c -> v = rnd64 (c_cmp c - c_eps c) -> v < c_cmp c - c_eps c ->
     eval_equal_to B64Ops c v = (set_diag c OK SIsOK (Some v), OK) /\
     eval_equal_to ROps c v = (set_diag c ERROR STooLow (Some v), ERROR)) /\
  (c_cmp c - c_eps c <= c_cmp c + c_eps c -> v = rnd64 (c_cmp c + c_eps c) -> c_cmp c + c_eps c < v ->
     eval_equal_to B64Ops c v = (set_diag c OK SIsOK (Some v), OK) /\
     eval_equal_to ROps c v = (set_diag c ERROR STooHigh (Some v), ERROR)).
Proof.
  intros c v. exact (conj (greater_b64_disagree c v) (conj (lower_b64_disagree c v)
                     (conj (equal_b64_low_point c v) (equal_b64_high_point c v)))).
Qed.
Print Assumptions C18_thresholds_binary64_inside_band.

(* hence: a value farther than half an ulp of the real threshold from it gets the verdict of the property *)
Theorem C18_thresholds_binary64_outside_band : forall (c : checkup (T:=R)) v, b64 v ->
  let hulp t := / 2 * Ulp.ulp Zaux.radix2 (FLT.FLT_exp (-1074) 53) t in
  (hulp (c_cmp c - c_eps c) < Rabs (v - (c_cmp c - c_eps c)) -> eval_greater_than B64Ops c v = eval_greater_than ROps c v) /\
  (hulp (c_cmp c + c_eps c) < Rabs (v - (c_cmp c + c_eps c)) -> eval_lower_than B64Ops c v = eval_lower_than ROps c v) /\
  (hulp (c_cmp c - c_eps c) < Rabs (v - (c_cmp c - c_eps c)) -> hulp (c_cmp c + c_eps c) < Rabs (v - (c_cmp c + c_eps c)) ->
     eval_equal_to B64Ops c v = eval_equal_to ROps c v).
Proof.
  intros c v Fv. cbv zeta.
  exact (conj (greater_b64_outside_band c v Fv) (conj (lower_b64_outside_band c v Fv) (equal_b64_outside_band c v Fv))).
Qed.
Print Assumptions C18_thresholds_binary64_outside_band.

(* thresholds that are doubles (dyadic target / epsilon as the correspondence run generates, or epsilon = 0): the two
   evaluations coincide for EVERY real value *)
Theorem C18_thresholds_binary64_exact_threshold : forall (c : checkup (T:=R)) v,
  (b64 (c_cmp c - c_eps c) -> eval_greater_than B64Ops c v = eval_greater_than ROps c v) /\
  (b64 (c_cmp c + c_eps c) -> eval_lower_than B64Ops c v = eval_lower_than ROps c v) /\
  (b64 (c_cmp c - c_eps c) -> b64 (c_cmp c + c_eps c) -> eval_equal_to B64Ops c v = eval_equal_to ROps c v).
Proof.
  intros c v. exact (conj (greater_b64_exact_threshold c v) (conj (lower_b64_exact_threshold c v) (equal_b64_exact_threshold c v))).
Qed.

Theorem C18_thresholds_binary64_epsilon_zero : forall (c : checkup (T:=R)) v, b64 (c_cmp c) -> c_eps c = 0 ->
  eval_greater_than B64Ops c v = eval_greater_than ROps c v /\
  eval_lower_than B64Ops c v = eval_lower_than ROps c v /\
  eval_equal_to B64Ops c v = eval_equal_to ROps c v.
Proof.
  intros c v F E. exact (conj (greater_b64_eps0 c v F E) (conj (lower_b64_eps0 c v F E) (equal_b64_eps0 c v F E))).
Qed.
Print Assumptions C18_thresholds_binary64_epsilon_zero.

(* the reliability check-up only compares: no rounding at all *)
Theorem C18_thresholds_binary64_reliability : forall (c : checkup (T:=R)) v,
  eval_reliability B64Ops c v = eval_reliability ROps c v.
Proof. exact reliability_b64_eq. Qed.

(* non-vacuity: the band is real.  cmp = 1, eps = 2^-54, v = 1: 1 - 2^-54 is the midpoint of two doubles and rounds (to
   even) to 1, so the greater-than check-up says ERROR in binary64 where the property (1 > 1 - 2^-54) says OK *)
Example C18_ex_binary64_band :
  let c := chk 1 (Raux.bpow Zaux.radix2 (-54)) in
  snd (eval_greater_than ROps c 1) = OK /\ snd (eval_greater_than B64Ops c 1) = ERROR.
Proof. exact greater_b64_tie_witness. Qed.
