(* Properties_C18.v — C18: check-ups classify by their thresholds; statuses aggregate as a severity order.
   Only statements, each closed by [exact <lemma>] and followed by Print Assumptions. *)
From Coq Require Import Reals ZArith List Bool Lra.
From Romea Require Import Num NumR DiagModel DiagProofs.
From Romea.gen Require Import RepoConstants.
Import ListNotations.
Local Open Scope R_scope.

(* --- thresholds (real-number reading of the comparisons the code performs) --- *)
Theorem C18_equal_to_ok_iff : forall (c : checkup (T:=R)) v,
  snd (eval_equal_to ROps c v) = OK <-> Rabs (v - c_cmp c) <= c_eps c.
Proof. exact equal_to_ok_iff_abs. Qed.
Print Assumptions C18_equal_to_ok_iff.

Theorem C18_equal_to_verdicts : forall (c : checkup (T:=R)) v, 0 <= c_eps c ->
  let r := c_report (fst (eval_equal_to ROps c v)) in
  (v < c_cmp c - c_eps c -> d_status (r_diag r) = ERROR /\ d_suffix (r_diag r) = STooLow) /\
  (c_cmp c + c_eps c < v -> d_status (r_diag r) = ERROR /\ d_suffix (r_diag r) = STooHigh) /\
  (c_cmp c - c_eps c <= v <= c_cmp c + c_eps c -> d_status (r_diag r) = OK /\ d_suffix (r_diag r) = SIsOK) /\
  r_info r = Some v.
Proof. exact equal_to_verdicts. Qed.
Print Assumptions C18_equal_to_verdicts.

Theorem C18_greater_ok_iff : forall (c : checkup (T:=R)) v,
  snd (eval_greater_than ROps c v) = OK <-> v > c_cmp c - c_eps c.
Proof. exact greater_ok_iff. Qed.
Print Assumptions C18_greater_ok_iff.

Theorem C18_greater_verdicts : forall (c : checkup (T:=R)) v,
  let r := c_report (fst (eval_greater_than ROps c v)) in
  (v > c_cmp c - c_eps c -> d_status (r_diag r) = OK /\ d_suffix (r_diag r) = SIsOK) /\
  (v <= c_cmp c - c_eps c -> d_status (r_diag r) = ERROR /\ d_suffix (r_diag r) = STooLow) /\
  r_info r = Some v.
Proof. exact greater_verdicts. Qed.
Print Assumptions C18_greater_verdicts.

Theorem C18_lower_ok_iff : forall (c : checkup (T:=R)) v,
  snd (eval_lower_than ROps c v) = OK <-> v < c_cmp c + c_eps c.
Proof. exact lower_ok_iff. Qed.
Print Assumptions C18_lower_ok_iff.

Theorem C18_lower_verdicts : forall (c : checkup (T:=R)) v,
  let r := c_report (fst (eval_lower_than ROps c v)) in
  (v < c_cmp c + c_eps c -> d_status (r_diag r) = OK /\ d_suffix (r_diag r) = SIsOK) /\
  (c_cmp c + c_eps c <= v -> d_status (r_diag r) = ERROR /\ d_suffix (r_diag r) = STooHigh) /\
  r_info r = Some v.
Proof. exact lower_verdicts. Qed.
Print Assumptions C18_lower_verdicts.

Theorem C18_reliability_classes : forall (c : checkup (T:=R)) v,
  let r := c_report (fst (eval_reliability ROps c v)) in
  let s := snd (eval_reliability ROps c v) in
  (v < c_cmp c -> s = ERROR /\ d_suffix (r_diag r) = STooLow) /\
  (c_cmp c <= v -> v < c_eps c -> s = WARN /\ d_suffix (r_diag r) = SUncertain) /\
  (c_cmp c <= v -> c_eps c <= v -> s = OK /\ d_suffix (r_diag r) = SIsHigh) /\
  r_info r = Some v.
Proof. exact reliability_classes. Qed.
Print Assumptions C18_reliability_classes.

(* --- bookkeeping, for every numeric instance (so also for the float instance that is executed) --- *)
Theorem C18_returned_is_stored : forall T (N : NumOps T) k (c : checkup) v,
  let '(c', s) := cstep N k c (Eval v) in s = Some (d_status (r_diag (c_report c'))).
Proof. exact @returned_is_stored. Qed.
Print Assumptions C18_returned_is_stored.

Theorem C18_report_consistent : forall T (N : NumOps T) k ops (c : checkup),
  Forall (fun sr => consistent k (snd sr)) (crun N k c ops) /\
  c_cmp (cfinal N k c ops) = c_cmp c /\ c_eps (cfinal N k c ops) = c_eps c.
Proof. exact @run_consistent. Qed.
Print Assumptions C18_report_consistent.

Theorem C18_step_history_free : forall T (N : NumOps T) k (c1 c2 : checkup) o,
  c_cmp c1 = c_cmp c2 -> c_eps c1 = c_eps c2 ->
  c_report (fst (cstep N k c1 o)) = c_report (fst (cstep N k c2 o)) /\ snd (cstep N k c1 o) = snd (cstep N k c2 o).
Proof. exact @step_history_free. Qed.
Print Assumptions C18_step_history_free.

(* --- severity order (enumerator values regenerated from the source on every run) --- *)
Theorem C18_severity_order :
  (status_val OK < status_val WARN < status_val ERROR)%Z /\ (status_val ERROR < status_val STALE)%Z.
Proof. exact status_order. Qed.
Print Assumptions C18_severity_order.

Theorem C18_worse_comm : forall a b, worse a b = worse b a.
Proof. exact worse_comm. Qed.
Theorem C18_worse_assoc : forall a b c, worse a (worse b c) = worse (worse a b) c.
Proof. exact worse_assoc. Qed.
Theorem C18_worse_idem : forall a, worse a a = a.
Proof. exact worse_idem. Qed.
Theorem C18_worse_is_max : forall a b, status_val (worse a b) = Z.max (status_val a) (status_val b).
Proof. exact worse_is_max. Qed.
Print Assumptions C18_worse_is_max.

Theorem C18_worst_is_max : forall l, l <> [] ->
  exists s, worseStatus l = Some s /\
            (forall d, In d l -> (status_val (d_status d) <= status_val s)%Z) /\
            (exists d, In d l /\ d_status d = s).
Proof. exact worst_is_max. Qed.
Print Assumptions C18_worst_is_max.

Theorem C18_allOK_iff : forall l, l <> [] ->
  (allOK l = Some true <-> Forall (fun d => d_status d = OK) l) /\
  (allOK l = Some true \/ allOK l = Some false).
Proof. exact allOK_iff. Qed.
Print Assumptions C18_allOK_iff.

(* --- report append --- *)
Theorem C18_append_diags : forall r1 r2, rep_diags (report_append r1 r2) = rep_diags r1 ++ rep_diags r2.
Proof. exact append_diags. Qed.

Theorem C18_append_info : forall r1 r2 k, keys_sorted (rep_info r1) -> keys_sorted (rep_info r2) ->
  keys_sorted (rep_info (report_append r1 r2)) /\
  lookup k (rep_info (report_append r1 r2)) =
    match lookup k (rep_info r1) with Some x => Some x | None => lookup k (rep_info r2) end.
Proof. intros r1 r2 k. exact (append_info_lookup (rep_info r2) (rep_info r1) k). Qed.
Print Assumptions C18_append_info.

(* --- non-vacuity: concrete states meeting the hypotheses --- *)
Example C18_ex_equal : snd (eval_equal_to ROps (checkup_init 10 (1/2) diagnostic_default) (21/2)) = OK.
Proof. apply C18_equal_to_ok_iff. cbn. rewrite Rabs_right; lra. Qed.
Example C18_ex_worst : worseStatus [ {| d_status := OK; d_suffix := SIsOK |};
                                      {| d_status := ERROR; d_suffix := STooLow |};
                                      {| d_status := WARN; d_suffix := SUncertain |} ] = Some ERROR.
Proof. vm_compute. reflexivity. Qed.
Example C18_ex_append :
  rep_info (report_append {| rep_diags := []; rep_info := [(1, 10); (3, 30)]%Z |}
                          {| rep_diags := []; rep_info := [(2, 21); (3, 31)]%Z |}) = [(1, 10); (2, 21); (3, 30)]%Z.
Proof. vm_compute. reflexivity. Qed.
