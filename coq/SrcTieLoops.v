(* SrcTieLoops.v — the ITERATIVE geodesy code regenerated from the clang AST (gen/SrcFuns.v: loops become a local fix on
   a fuel argument, see translate/srcfuns.py) equals the hand-written fuelled models the C01/C03 theorems are about:
     LambertConverter::computeLatitude  = LambertModel.computeLatitude      (for(;;) { ...; if (|d| < EPSILON) break; })
     LambertConverter::toWGS84          = LambertModel.toWGS84
     computeProjectionParameters (x2)   = secant_projection / tangent_projection
     ECEFConverter::toWGS84             = GeodesyModel.toWGS84              (while (delta > EPSILON) { ... })
   for every fuel (induction on the fuel; the generated loop and the model loop run in lock step).  Literals differ in
   representation only (2, 2., M_PI_2, 1.0, EPSILON): normalised by the [lits] rewriting. *)
From Coq Require Import Reals ZArith Lra.
From Romea Require Import Num NumR GeodesyModel LambertModel SrcTie.
From Romea.gen Require Import RepoConstants SrcFuns.
Local Open Scope R_scope.

(* ---- LambertConverter::computeLatitude ---- *)
Lemma tie_computeLatitude fuel L e : src_computeLatitude ROps fuel L e = computeLatitude ROps fuel L e.
Proof.
  unfold src_computeLatitude, computeLatitude. cbv zeta.
  match goal with |- match ?F fuel ?x0 with _ => _ end = _ =>
    assert (H : forall fu x, F fu x = latitude_iter ROps fu L e x) end.
  { induction fu as [|f IH]; intro x; [reflexivity|].
    cbv beta iota fix zeta. rewrite IH. cbn [latitude_iter]. cbv zeta.
    unfold latitude_step, half_pi, lambert_eps. dict. lits.
    match goal with |- (if ?c then _ else _) = (if ?c' then _ else _) => replace c with c' by req; destruct c' end; req. }
  rewrite H. unfold half_pi. dict. lits.
  match goal with |- match latitude_iter _ _ _ _ ?a with _ => _ end = latitude_iter _ _ _ _ ?b => replace a with b by req end.
  destruct (latitude_iter ROps fuel L e _); reflexivity.
Qed.

(* ---- LambertConverter::toWGS84 (the repaired code: log(rho / |c|)) ---- *)
Lemma tie_lambertToWGS84 fuel (pr : projection (T:=R)) e (v : vec2 (T:=R)) :
  src_lambertToWGS84 ROps fuel (p_c pr) e (p_lon0 pr) (p_n pr) (v2x v) (v2y v) (p_xs pr) (p_ys pr)
  = match toWGS84 ROps fuel pr e v with None => None | Some w => Some (w_lat w, w_lon w) end.
Proof.
  unfold src_lambertToWGS84, toWGS84. cbv zeta. rewrite tie_computeLatitude.
  unfold rho_of, theta_of, pow2. dict.
  match goal with |- match computeLatitude _ _ ?a _ with _ => _ end = match match computeLatitude _ _ ?b _ with _ => _ end with _ => _ end =>
    replace a with b by req end.
  destruct (computeLatitude ROps fuel _ e); cbn [w_lat w_lon]; req.
Qed.

(* ---- computeProjectionParameters, secant and tangent ---- *)
Lemma tie_secantProjection (p : secant_params (T:=R)) (el : ellipsoid (T:=R)) :
  src_secantProjection ROps (el_a el) (el_e el) (sp_lat0 p) (sp_lat1 p) (sp_lat2 p) (sp_lon0 p) (sp_x0 p) (sp_y0 p)
  = (let q := secant_projection ROps p el in (p_lon0 q, p_n q, p_c q, p_xs q, p_ys q)).
Proof.
  unfold src_secantProjection, secant_projection. cbv zeta. rewrite !tie_isometricLatitude, !tie_grandeNormale.
  unfold pole_eps, half_pi. dict. lits. cbn [p_lon0 p_n p_c p_xs p_ys].
  repeat (f_equal; try req).
  all: try (match goal with |- (if ?c then _ else _) = (if ?c' then _ else _) => replace c with c' by req; destruct c' end; req).
Qed.

Lemma tie_tangentProjection (p : tangent_params (T:=R)) (el : ellipsoid (T:=R)) :
  src_tangentProjection ROps (el_a el) (el_e el) (tp_k0 p) (tp_lat0 p) (tp_lon0 p) (tp_x0 p) (tp_y0 p)
  = (let q := tangent_projection ROps p el in (p_lon0 q, p_n q, p_c q, p_xs q, p_ys q)).
Proof.
  unfold src_tangentProjection, tangent_projection. cbv zeta. rewrite !tie_isometricLatitude, !tie_grandeNormale.
  dict. cbn [p_lon0 p_n p_c p_xs p_ys]. req.
Qed.

(* ---- ECEFConverter::toWGS84 ---- *)
(* the generated loop also carries `delta`; the model's lat_loop returns the latitude only: compare first components *)
Lemma tie_ecefToWGS84 fuel (el : ellipsoid (T:=R)) (p : vec3 (T:=R)) :
  src_ecefToWGS84 ROps fuel (vx p) (vy p) (vz p) (el_a el) (el_e2 el)
  = match GeodesyModel.toWGS84 ROps fuel el p with None => None | Some g => Some (g_lat g, g_lon g, g_alt g) end.
Proof.
  unfold src_ecefToWGS84, GeodesyModel.toWGS84. cbv zeta.
  match goal with |- match ?F fuel ?x0 ?d0 with _ => _ end = _ =>
    assert (H : forall fu x d, option_map fst (F fu x d) =
                lat_loop ROps fu el (vz p) (hnorm ROps (vx p) (vy p)) x d) end.
  { induction fu as [|f IH]; intros x d.
    - cbv beta iota fix zeta. cbn [lat_loop]. unfold ecef_eps. dict.
      destruct (Rltb _ d); reflexivity.
    - cbv beta iota fix zeta. cbn [lat_loop]. cbv zeta. unfold ecef_eps. dict.
      destruct (Rltb _ d); [|reflexivity].
      rewrite IH. unfold lat_body, hnorm. dict. lits. req. }
  match goal with |- match ?F fuel ?x0 ?d0 with _ => _ end = _ =>
    specialize (H fuel x0 d0); destruct (F fuel x0 d0) as [[l d]|] end;
    cbn [option_map fst] in H; revert H;
    unfold lat_first_guess, longitude_of, altitude_of, hnorm, ecef_initial_delta_m, ecef_initial_delta_e; dict; lits;
    intros H;
    match goal with H : _ = lat_loop _ _ _ _ _ ?a ?b |- context [lat_loop _ _ _ _ _ ?a' ?b'] =>
      replace a' with a by req; replace b' with b by req end;
    rewrite <- H; cbn [g_lat g_lon g_alt]; req.
Qed.
