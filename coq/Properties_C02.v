(* Properties_C02.v — C02: the local tangent-plane (ENU) frame is a rigid, correctly oriented isometry;
   anchoring state machine.  Statements about coq/EnuModel.v (real-number instance for the geometry, every
   numeric instance for the history theorems), each closed by [exact <lemma>]. *)
From Coq Require Import Reals ZArith List Bool Lra.
From Romea Require Import Num NumR GeodesyModel GeodesyProofs EnuModel EnuProofs EnuAxesProofs.
Import ListNotations.
Local Open Scope R_scope.

(* the frame matrix written by setAnchor is a proper rotation: R^T R = R R^T = I, det R = +1 *)
Theorem C02_frame_proper_rotation : forall lat lon,
  let Rm := frame_rotation ROps lat lon in
  mat3_mul (mat3_transpose Rm) Rm = mat3_id ROps /\
  mat3_mul Rm (mat3_transpose Rm) = mat3_id ROps /\
  mat3_det Rm = 1.
Proof. intros lat lon. exact (conj (frame_orthonormal lat lon) (conj (frame_orthonormal_rows lat lon) (frame_det lat lon))). Qed.
Print Assumptions C02_frame_proper_rotation.

(* Eigen's (cofactor) inverse of the frame matrix, as used by toENU, is its transpose *)
Theorem C02_frame_inverse_is_transpose : forall lat lon,
  mat3_inverse ROps (frame_rotation ROps lat lon) = mat3_transpose (frame_rotation ROps lat lon).
Proof. exact frame_inverse_is_transpose. Qed.
Print Assumptions C02_frame_inverse_is_transpose.

(* columns are east / north / up: the third is the ellipsoid normal of C01; the first and the second are the
   normalised derivatives of toECEF with respect to longitude and latitude (positive factors r and m) *)
Theorem C02_frame_axes : forall (el : ellipsoid (T:=R)) lat lon h,
  0 < el_a el -> 0 <= el_e2 el < 1 -> - PI / 2 < lat < PI / 2 -> - el_a el * (1 - el_e2 el) < h ->
  let Rm := frame_rotation ROps lat lon in
  col Rm 2 = normal lat lon /\
  (exists r, 0 < r /\
     is_derive3 (fun l => toECEF ROps el (mkGeo lat l h)) lon
                (mkV3 (r * vx (col Rm 0)) (r * vy (col Rm 0)) (r * vz (col Rm 0)))) /\
  (exists m, 0 < m /\
     is_derive3 (fun p => toECEF ROps el (mkGeo p lon h)) lat
                (mkV3 (m * vx (col Rm 1)) (m * vy (col Rm 1)) (m * vz (col Rm 1)))).
Proof. exact frame_axes. Qed.
Print Assumptions C02_frame_axes.

(* the anchor maps to the origin (whatever the converter's earlier state s0) *)
Theorem C02_anchor_to_origin : forall g s0,
  ecef_to_enu ROps (set_anchor ROps s0 g) (toECEF ROps (grs80 ROps) g) = mkV3 0 0 0.
Proof. exact anchor_maps_to_origin. Qed.
Print Assumptions C02_anchor_to_origin.

(* a point h above the anchor maps to (0,0,h) *)
Theorem C02_up_to_z : forall g s0 h,
  ecef_to_enu ROps (set_anchor ROps s0 g) (toECEF ROps (grs80 ROps) (mkGeo (g_lat g) (g_lon g) (g_alt g + h)))
  = mkV3 0 0 h.
Proof. exact point_above_anchor. Qed.
Print Assumptions C02_up_to_z.

(* distances are preserved both ways *)
Theorem C02_enu_isometry : forall g s0 p q,
  let s := set_anchor ROps s0 g in
  dist2 (ecef_to_enu ROps s p) (ecef_to_enu ROps s q) = dist2 p q /\
  dist2 (enu_to_ecef ROps s p) (enu_to_ecef ROps s q) = dist2 p q.
Proof. intros g s0 p q. exact (conj (ecef_to_enu_isometry g s0 p q) (enu_to_ecef_isometry g s0 p q)). Qed.
Print Assumptions C02_enu_isometry.

(* to-local and to-ECEF are mutual inverses *)
Theorem C02_enu_ecef_inverse : forall g s0 v,
  let s := set_anchor ROps s0 g in
  ecef_to_enu ROps s (enu_to_ecef ROps s v) = v /\ enu_to_ecef ROps s (ecef_to_enu ROps s v) = v.
Proof. intros g s0 v. exact (conj (enu_of_ecef_of_enu g s0 v) (ecef_of_enu_of_ecef g s0 v)). Qed.
Print Assumptions C02_enu_ecef_inverse.

(* ---- histories: for every numeric instance (so also the executed binary64 one), every op list ---- *)
(* the state after any op sequence is the state determined by the last anchoring event:
   None (fresh) or anchored at g *)
Theorem C02_state_determined_by_last_anchor : forall T (N : NumOps T) fuel ops a,
  fst (run N fuel (state_of N a) ops) = state_of N (abs_run N a ops).
Proof. intros T N fuel ops a. exact (run_state N fuel ops a). Qed.
Print Assumptions C02_state_determined_by_last_anchor.

Theorem C02_anchored_iff : forall T (N : NumOps T) fuel ops,
  s_anchored (fst (run N fuel (enu_init N) ops)) = true <-> abs_run N None ops <> None.
Proof. intros T N. exact (anchored_iff N). Qed.
Print Assumptions C02_anchored_iff.

(* reset() returns the converter to the state of a freshly constructed one, after any history, and everything
   that follows is what a fresh converter would do (proved for the repaired code; refuted below for the old) *)
Theorem C02_reset_equals_init : forall T (N : NumOps T) fuel ops rest,
  run N fuel (fst (run N fuel (enu_init N) (ops ++ [OpReset]))) rest = run N fuel (enu_init N) rest.
Proof. intros T N. exact (reset_after_any_history N). Qed.
Print Assumptions C02_reset_equals_init.

(* re-anchoring fully replaces the old frame: after any history, setAnchor g yields the state g alone determines *)
Theorem C02_reanchoring_replaces_frame : forall T (N : NumOps T) fuel ops g,
  fst (run N fuel (enu_init N) (ops ++ [OpSetAnchor g])) = set_anchor N (enu_init N) g.
Proof. intros T N. exact (set_anchor_after_any_history N). Qed.
Print Assumptions C02_reanchoring_replaces_frame.

(* an un-anchored converter anchors itself on the first geodetic point, which maps to the origin *)
Theorem C02_first_conversion_anchors : forall fuel ops g, abs_run ROps None ops = None ->
  fst (run ROps fuel (enu_init ROps) (ops ++ [OpToEnuGeo g])) = set_anchor ROps (enu_init ROps) g /\
  snd (run ROps fuel (enu_init ROps) (ops ++ [OpToEnuGeo g])) =
  snd (run ROps fuel (enu_init ROps) ops) ++ [OutVec (mkV3 0 0 0)].
Proof.
  intros fuel ops g H.
  exact (conj (first_conversion_anchors ROps fuel ops g H) (first_conversion_returns_origin fuel ops g H)).
Qed.
Print Assumptions C02_first_conversion_anchors.

(* ---- the code before the repair: reset() kept the stored anchor ---- *)
(* "reset equals init" is false of the unrepaired code: anchor at 1000 m, reset, toENU(WGS84 (0,0)):
   the transform differs from the one of a fresh converter (translation x = a + 1000 instead of a).
   The witness is replayed on the implementation (checks/C02.py, first sequences). *)
Theorem C02_reset_keeps_altitude_refuted : exists g lat lon, forall fuel,
  snd (run_old ROps fuel (enu_init ROps) [OpSetAnchor g; OpReset; OpToEnuWgs lat lon; OpGetTransform]) <>
  [OutNone; OutNone] ++ snd (run_old ROps fuel (enu_init ROps) [OpToEnuWgs lat lon; OpGetTransform]).
Proof. exists (mkGeo 0 0 1000), 0, 0. exact reset_old_keeps_altitude. Qed.
Print Assumptions C02_reset_keeps_altitude_refuted.

(* ---- non-vacuity ---- *)
Example C02_history_example :
  abs_run ROps None [OpSetAnchor (mkGeo 1 2 3); OpToEnuGeo (mkGeo 0 0 0); OpReset] = None /\
  abs_run ROps None [OpReset; OpToEnuWgs 1 2; OpToEnuGeo (mkGeo 0 0 0)] = Some (mkGeo 1 2 0).
Proof. split; reflexivity. Qed.

(* SOURCE TIE (translator translate/srcfuns.py): the 3x3 block that ENUConverter::setAnchor writes with its three
   comma initialisers, regenerated from the clang AST of the current source on every run (gen/SrcFunsC02.v), is the
   frame matrix all theorems above are about.  Hence the proper-rotation statement holds of the source's own term. *)
From Romea Require Import SrcTie SrcTieC02.
From Romea.gen Require Import SrcFunsC02.
Theorem C02_source_tie_frame : forall lat lon,
  src_enuFrame ROps lat lon =
  (let m := frame_rotation ROps lat lon in
   (m00 m, m01 m, m02 m, m10 m, m11 m, m12 m, m20 m, m21 m, m22 m)).
Proof. exact tie_enuFrame. Qed.
Print Assumptions C02_source_tie_frame.
