From Coq Require Import Reals.
From Romea Require Import Num NumR EnuModel.
Theorem C02_stub : True. Proof. exact I. Qed.
