(* Properties_C02.v — C02: the local tangent-plane (ENU) frame is a rigid, correctly oriented isometry;
   anchoring state machine.  Statements about coq/EnuModel.v (real-number instance for the geometry, every
   numeric instance for the history theorems), each closed by [exact <lemma>]. *)
From Coq Require Import Reals ZArith List Bool Lra.
From Romea Require Import Num NumR GeodesyModel GeodesyProofs EnuModel EnuProofs EnuAxesProofs.
Import ListNotations.
Local Open Scope R_scope.

(* the frame matrix written by setAnchor is a proper rotation: R^T R = R R^T = I, det R = +1 *)
Theorem C02_frame_proper_rotation : forall lat lon,
  let Rm := frame_rotation ROps lat lon in
  mat3_mul (mat3_transpose Rm) Rm = mat3_id ROps /\
  mat3_mul Rm (mat3_transpose Rm) = mat3_id ROps /\
  mat3_det Rm = 1.
Proof. intros lat lon. exact (conj (frame_orthonormal lat lon) (conj (frame_orthonormal_rows lat lon) (frame_det lat lon))). Qed.
Print Assumptions C02_frame_proper_rotation.

(* Eigen's (cofactor) inverse of the frame matrix, as used by toENU, is its transpose *)
Theorem C02_frame_inverse_is_transpose : forall lat lon,
  mat3_inverse ROps (frame_rotation ROps lat lon) = mat3_transpose (frame_rotation ROps lat lon).
Proof. exact frame_inverse_is_transpose. Qed.
Print Assumptions C02_frame_inverse_is_transpose.

(* columns are east / north / up: the third is the ellipsoid normal of C01; the first and the second are the
   normalised derivatives of toECEF with respect to longitude and latitude (positive factors r and m) *)
Theorem C02_frame_axes : forall (el : ellipsoid (T:=R)) lat lon h,
  0 < el_a el -> 0 <= el_e2 el < 1 -> - PI / 2 < lat < PI / 2 -> - el_a el * (1 - el_e2 el) < h ->
  let Rm := frame_rotation ROps lat lon in
  col Rm 2 = normal lat lon /\
  (exists r, 0 < r /\
     is_derive3 (fun l => toECEF ROps el (mkGeo lat l h)) lon
                (mkV3 (r * vx (col Rm 0)) (r * vy (col Rm 0)) (r * vz (col Rm 0)))) /\
  (exists m, 0 < m /\
     is_derive3 (fun p => toECEF ROps el (mkGeo p lon h)) lat
                (mkV3 (m * vx (col Rm 1)) (m * vy (col Rm 1)) (m * vz (col Rm 1)))).
Proof. exact frame_axes. Qed.
Print Assumptions C02_frame_axes.

(* the anchor maps to the origin (whatever the converter's earlier state s0) *)
Theorem C02_anchor_to_origin : forall g s0,
  ecef_to_enu ROps (set_anchor ROps s0 g) (toECEF ROps (grs80 ROps) g) = mkV3 0 0 0.
Proof. exact anchor_maps_to_origin. Qed.
Print Assumptions C02_anchor_to_origin.

(* a point h above the anchor maps to (0,0,h) *)
Theorem C02_up_to_z : forall g s0 h,
  ecef_to_enu ROps (set_anchor ROps s0 g) (toECEF ROps (grs80 ROps) (mkGeo (g_lat g) (g_lon g) (g_alt g + h)))
  = mkV3 0 0 h.
Proof. exact point_above_anchor. Qed.
Print Assumptions C02_up_to_z.

(* distances are preserved both ways *)
Theorem C02_enu_isometry : forall g s0 p q,
  let s := set_anchor ROps s0 g in
  dist2 (ecef_to_enu ROps s p) (ecef_to_enu ROps s q) = dist2 p q /\
  dist2 (enu_to_ecef ROps s p) (enu_to_ecef ROps s q) = dist2 p q.
Proof. intros g s0 p q. exact (conj (ecef_to_enu_isometry g s0 p q) (enu_to_ecef_isometry g s0 p q)). Qed.
Print Assumptions C02_enu_isometry.

(* to-local and to-ECEF are mutual inverses *)
Theorem C02_enu_ecef_inverse : forall g s0 v,
  let s := set_anchor ROps s0 g in
  ecef_to_enu ROps s (enu_to_ecef ROps s v) = v /\ enu_to_ecef ROps s (ecef_to_enu ROps s v) = v.
Proof. intros g s0 v. exact (conj (enu_of_ecef_of_enu g s0 v) (ecef_of_enu_of_ecef g s0 v)). Qed.
Print Assumptions C02_enu_ecef_inverse.

(* ---- histories: for every numeric instance (so also the executed binary64 one), every op list ---- *)
(* the state after any op sequence is the state determined by the last anchoring event:
   None (fresh) or anchored at g *)
Theorem C02_state_determined_by_last_anchor : forall T (N : NumOps T) fuel ops a,
  fst (run N fuel (state_of N a) ops) = state_of N (abs_run N a ops).
Proof. intros T N fuel ops a. exact (run_state N fuel ops a). Qed.
Print Assumptions C02_state_determined_by_last_anchor.

Theorem C02_anchored_iff : forall T (N : NumOps T) fuel ops,
  s_anchored (fst (run N fuel (enu_init N) ops)) = true <-> abs_run N None ops <> None.
Proof. intros T N. exact (anchored_iff N). Qed.
Print Assumptions C02_anchored_iff.

(* reset() returns the converter to the state of a freshly constructed one, after any history, and everything
   that follows is what a fresh converter would do (proved for the repaired code; refuted below for the old) *)
Theorem C02_reset_equals_init : forall T (N : NumOps T) fuel ops rest,
  run N fuel (fst (run N fuel (enu_init N) (ops ++ [OpReset]))) rest = run N fuel (enu_init N) rest.
Proof. intros T N. exact (reset_after_any_history N). Qed.
Print Assumptions C02_reset_equals_init.

(* re-anchoring fully replaces the old frame: after any history, setAnchor g yields the state g alone determines *)
Theorem C02_reanchoring_replaces_frame : forall T (N : NumOps T) fuel ops g,
  fst (run N fuel (enu_init N) (ops ++ [OpSetAnchor g])) = set_anchor N (enu_init N) g.
Proof. intros T N. exact (set_anchor_after_any_history N). Qed.
Print Assumptions C02_reanchoring_replaces_frame.

(* an un-anchored converter anchors itself on the first geodetic point, which maps to the origin *)
Theorem C02_first_conversion_anchors : forall fuel ops g, abs_run ROps None ops = None ->
  fst (run ROps fuel (enu_init ROps) (ops ++ [OpToEnuGeo g])) = set_anchor ROps (enu_init ROps) g /\
  snd (run ROps fuel (enu_init ROps) (ops ++ [OpToEnuGeo g])) =
  snd (run ROps fuel (enu_init ROps) ops) ++ [OutVec (mkV3 0 0 0)].
Proof.
  intros fuel ops g H.
  exact (conj (first_conversion_anchors ROps fuel ops g H) (first_conversion_returns_origin fuel ops g H)).
Qed.
Print Assumptions C02_first_conversion_anchors.

(* ---- the code before the repair: reset() kept the stored anchor ---- *)
(* "reset equals init" is false of the unrepaired code: anchor at 1000 m, reset, toENU(WGS84 (0,0)):
   the transform differs from the one of a fresh converter (translation x = a + 1000 instead of a).
   The witness is replayed on the implementation (checks/C02.py, first sequences). *)
Theorem C02_reset_keeps_altitude_refuted : exists g lat lon, forall fuel,
  snd (run_old ROps fuel (enu_init ROps) [OpSetAnchor g; OpReset; OpToEnuWgs lat lon; OpGetTransform]) <>
  [OutNone; OutNone] ++ snd (run_old ROps fuel (enu_init ROps) [OpToEnuWgs lat lon; OpGetTransform]).
Proof. exists (mkGeo 0 0 1000), 0, 0. exact reset_old_keeps_altitude. Qed.
Print Assumptions C02_reset_keeps_altitude_refuted.

(* ---- non-vacuity ---- *)
Example C02_history_example :
  abs_run ROps None [OpSetAnchor (mkGeo 1 2 3); OpToEnuGeo (mkGeo 0 0 0); OpReset] = None /\
  abs_run ROps None [OpReset; OpToEnuWgs 1 2; OpToEnuGeo (mkGeo 0 0 0)] = Some (mkGeo 1 2 0).
Proof. split; reflexivity. Qed.

(* SOURCE TIE (translator translate/srcfuns.py): the 3x3 block that ENUConverter::setAnchor writes with its three
   comma initialisers, regenerated from the clang AST of the current source on every run (gen/SrcFunsC02.v), is the
   frame matrix all theorems above are about.  Hence the proper-rotation statement holds of the source's own term. *)
From Romea Require Import SrcTie SrcTieC02.
From Romea.gen Require Import SrcFunsC02.
Theorem C02_source_tie_frame : forall lat lon,
  src_enuFrame ROps lat lon =
  (let m := frame_rotation ROps lat lon in
   (m00 m, m01 m, m02 m, m10 m, m11 m, m12 m, m20 m, m21 m, m22 m)).
Proof. exact tie_enuFrame. Qed.
Print Assumptions C02_source_tie_frame.

(* ==== SOURCE TIE OF THE STATE MACHINE (translator translate/tr_C02_enu.py, library translate/imptrans.py) ====
   Every method of ENUConverter — both constructors, setAnchor, reset, isAnchored, getAnchor, getEnuToEcefTransform, the
   four toECEF / toWGS84 overloads, the three toENU overloads — is regenerated on every run from the clang AST of the
   current src/geodesy/ENUConverter.cpp as a transformer st_<m> of the fields (enu2ecef_, isAnchored_, wgs84Anchor_)
   (gen/SrcEnu.v; Eigen vocabulary: EnuVocab.v); the class must have exactly the model's four data members.  The theorems
   below say that these transformers ARE the steps of EnuModel.v (definitions of fields_of, state_of_fields, src_step,
   src_run, src_init, src_init_at, ecefF = toECEF on GRS80, wgsF = toWGS84 on GRS80: SrcTieC02State.v), so the
   operation-sequence theorems above hold of the code as written. *)
From Romea Require Import EnuVocab SrcTieC02State.
From Romea.gen Require Import SrcEnu.

(* constructors: ENUConverter() leaves the model's initial state whatever was in memory; ENUConverter(anchor) is
   ENUConverter() followed by setAnchor(anchor) *)
Theorem C02_source_tie_constructors : forall T (N : NumOps T) F1 F2 st g,
  st_ctor_default N F1 F2 st = fields_of (enu_init N) /\
  st_ctor_anchor N F1 F2 g st = st_setAnchor N F1 F2 g (fields_of (enu_init N)).
Proof. intros T N F1 F2 st g. exact (conj (tie_ctor_default N F1 F2 st) (tie_ctor_anchor N F1 F2 g st)). Qed.
Print Assumptions C02_source_tie_constructors.

(* reset(): the model's reset, and field for field what the default constructor leaves (this is the clause the repaired
   defect violated: a reset() that keeps wgs84Anchor_ or the flag does not satisfy it) *)
Theorem C02_source_tie_reset : forall T (N : NumOps T) F1 F2 s st',
  st_reset N F1 F2 (fields_of s) = fields_of (reset N s) /\
  st_reset N F1 F2 (fields_of s) = st_ctor_default N F1 F2 st'.
Proof. intros T N F1 F2 s st'. exact (conj (tie_reset N F1 F2 s) (tie_reset_is_ctor_default N F1 F2 (fields_of s) st')). Qed.
Print Assumptions C02_source_tie_reset.

(* setAnchor, every dictionary and whatever the 3x3 block is: nothing of the state before survives (st0 is arbitrary),
   translation = toECEF of the new anchor, flag set, anchor stored *)
Theorem C02_source_tie_setAnchor_shape : forall T (N : NumOps T) F1 F2 g st st0,
  st_setAnchor N F1 F2 g st = ((aff_linear (fst (fst (st_setAnchor N F1 F2 g st0))), F1 g), true, g).
Proof. intros T N. exact (tie_setAnchor_shape N). Qed.
Print Assumptions C02_source_tie_setAnchor_shape.

(* setAnchor over the reals: the model's set_anchor (frame_rotation, translation toECEF(GRS80) of the anchor) *)
Theorem C02_source_tie_setAnchor : forall fuel s g,
  state_of_fields (st_setAnchor ROps (toECEF ROps (grs80 ROps)) (toWGS84 ROps fuel (grs80 ROps)) g (fields_of s))
  = set_anchor ROps s g.
Proof. exact tie_setAnchor_R. Qed.
Print Assumptions C02_source_tie_setAnchor.

(* the accessors return the fields and leave the state alone *)
Theorem C02_source_tie_accessors : forall T (N : NumOps T) F1 F2 s,
  st_isAnchored N F1 F2 (fields_of s) = (fields_of s, s_anchored s) /\
  st_getAnchor N F1 F2 (fields_of s) = (fields_of s, s_anchor s) /\
  st_getEnuToEcefTransform N F1 F2 (fields_of s) = (fields_of s, (s_rot s, s_trans s)).
Proof.
  intros T N F1 F2 s.
  exact (conj (tie_isAnchored N F1 F2 s) (conj (tie_getAnchor N F1 F2 s) (tie_getEnuToEcefTransform N F1 F2 s))).
Qed.
Print Assumptions C02_source_tie_accessors.

(* toECEF applies the transform, toENU(ecef) its inverse (of the CURRENT fields: no cached copy), toWGS84 is the ECEF
   converter's toWGS84 after toECEF; none changes the state *)
Theorem C02_source_tie_conversions : forall T (N : NumOps T) F1 F2 s v,
  st_toECEF_vec N F1 F2 v (fields_of s) = (fields_of s, enu_to_ecef N s v) /\
  st_toENU_ecef N F1 F2 v (fields_of s) = (fields_of s, ecef_to_enu N s v) /\
  st_toWGS84_vec N F1 F2 v (fields_of s) =
    match F2 (enu_to_ecef N s v) with Some g => Some (fields_of s, g) | None => None end.
Proof.
  intros T N F1 F2 s v.
  exact (conj (tie_toECEF_vec N F1 F2 s v) (conj (tie_toENU_ecef N F1 F2 s v) (tie_toWGS84_vec N F1 F2 s v))).
Qed.
Print Assumptions C02_source_tie_conversions.

(* the three-scalar overloads hand (x, y, z), in this order, to the vector forms *)
Theorem C02_source_tie_three_scalar_overloads : forall T (N : NumOps T) F1 F2 x y z st,
  st_toECEF_xyz N F1 F2 x y z st = st_toECEF_vec N F1 F2 (mkV3 x y z) st /\
  st_toWGS84_xyz N F1 F2 x y z st = st_toWGS84_vec N F1 F2 (mkV3 x y z) st.
Proof. intros T N F1 F2 x y z st. exact (conj (tie_toECEF_xyz N F1 F2 x y z st) (tie_toWGS84_xyz N F1 F2 x y z st)). Qed.
Print Assumptions C02_source_tie_three_scalar_overloads.

(* toENU(geodetic) anchors first iff not anchored and then converts in the current frame; toENU(WGS84) is toENU of the point at
   the altitude of the CURRENT anchor — every dictionary, relative to the source's own setAnchor *)
Theorem C02_source_tie_auto_anchoring : forall T (N : NumOps T) fuel s g lat lon,
  lift (st_toENU_geo N (ecefF N) (wgsF N fuel) g (fields_of s)) OutVec = to_enu_geo_sa N (src_set_anchor N fuel) s g /\
  lift (st_toENU_wgs N (ecefF N) (wgsF N fuel) (mkWgs lat lon) (fields_of s)) OutVec =
    to_enu_geo_sa N (src_set_anchor N fuel) s (mkGeo lat lon (g_alt (s_anchor s))).
Proof. intros T N fuel s g lat lon. exact (conj (tie_toENU_geo N fuel s g) (tie_toENU_wgs N fuel s lat lon)). Qed.
Print Assumptions C02_source_tie_auto_anchoring.

(* ALL OPERATIONS: the step function assembled from the generated transformers is the model's step function *)
Theorem C02_source_tie_state_machine : forall fuel s o, src_step ROps fuel s o = step ROps fuel s o.
Proof. exact tie_step_R. Qed.
Print Assumptions C02_source_tie_state_machine.

(* ... for every numeric dictionary (the executed binary64 one included) in which the 3x3 block of the source's setAnchor
   is the model's frame_rotation [setAnchor_tied]; the reals are such a dictionary (Example below) *)
Theorem C02_source_tie_state_machine_every_dictionary : forall T (N : NumOps T) fuel,
  setAnchor_tied N fuel -> forall s o, src_step N fuel s o = step N fuel s o.
Proof. intros T N. exact (tie_step N). Qed.
Print Assumptions C02_source_tie_state_machine_every_dictionary.

Example C02_setAnchor_tied_over_the_reals : forall fuel, setAnchor_tied ROps fuel.
Proof. exact tie_setAnchor_R. Qed.

(* ... hence every run of the source's step function is the model's run, from the source's constructors *)
Theorem C02_source_tie_runs : forall fuel ops s g,
  src_run ROps fuel s ops = run ROps fuel s ops /\
  src_init ROps fuel = enu_init ROps /\ src_init_at ROps fuel g = set_anchor ROps (enu_init ROps) g.
Proof. intros fuel ops s g. exact (conj (tie_run_R fuel s ops) (conj (tie_init ROps fuel) (tie_init_at_R fuel g))). Qed.
Print Assumptions C02_source_tie_runs.

(* ---- the operation-sequence theorems, stated of the code as written ---- *)
Theorem C02_source_state_determined_by_last_anchor : forall fuel ops a,
  fst (src_run ROps fuel (state_of ROps a) ops) = state_of ROps (abs_run ROps a ops).
Proof. exact src_run_state_R. Qed.
Print Assumptions C02_source_state_determined_by_last_anchor.

Theorem C02_source_reset_equals_init : forall fuel ops rest,
  src_run ROps fuel (fst (src_run ROps fuel (src_init ROps fuel) (ops ++ [OpReset]))) rest =
  src_run ROps fuel (src_init ROps fuel) rest.
Proof. exact src_reset_after_any_history_R. Qed.
Print Assumptions C02_source_reset_equals_init.

Theorem C02_source_reanchoring_replaces_frame : forall fuel ops g,
  fst (src_run ROps fuel (src_init ROps fuel) (ops ++ [OpSetAnchor g])) = src_init_at ROps fuel g.
Proof. exact src_set_anchor_after_any_history_R. Qed.
Print Assumptions C02_source_reanchoring_replaces_frame.

Theorem C02_source_first_conversion_anchors : forall fuel ops g, abs_run ROps None ops = None ->
  fst (src_run ROps fuel (src_init ROps fuel) (ops ++ [OpToEnuGeo g])) = src_init_at ROps fuel g /\
  snd (src_run ROps fuel (src_init ROps fuel) (ops ++ [OpToEnuGeo g])) =
  snd (src_run ROps fuel (src_init ROps fuel) ops) ++ [OutVec (mkV3 0 0 0)].
Proof. exact src_first_conversion_R. Qed.
Print Assumptions C02_source_first_conversion_anchors.

(* the same for every dictionary satisfying [setAnchor_tied] *)
Theorem C02_source_histories_every_dictionary : forall T (N : NumOps T) fuel, setAnchor_tied N fuel -> forall ops rest g a,
  fst (src_run N fuel (state_of N a) ops) = state_of N (abs_run N a ops) /\
  src_run N fuel (fst (src_run N fuel (src_init N fuel) (ops ++ [OpReset]))) rest = src_run N fuel (src_init N fuel) rest /\
  fst (src_run N fuel (src_init N fuel) (ops ++ [OpSetAnchor g])) = src_init_at N fuel g.
Proof.
  intros T N fuel H ops rest g a.
  exact (conj (src_run_state N fuel H ops a)
              (conj (src_reset_after_any_history N fuel H ops rest) (src_set_anchor_after_any_history N fuel H ops g))).
Qed.
Print Assumptions C02_source_histories_every_dictionary.
