(* LinAlgBModel.v — small executable linear algebra shared by the models of C04 / C05 / C07.
   Definitions only.  Everything is polymorphic in the numeric dictionary [NumOps T]:
   the [ROps] instance is what the theorems talk about, the float instances run in OCaml.

   Two views:
   * storage  : vectors are [list T], matrices are [list (list T)] (list of rows);
   * function : [nat -> T], [nat -> nat -> T] with explicit dimensions, sums over 0..n-1
                ([sumn], summed left to right like a C loop).
   Every matrix computation is written in the function view on [vget]/[mget] of the operands and
   materialised again with [tab]/[mtab]; the lemmas [vget_tab]/[mget_mtab] (LinAlgBProofs.v) move
   between the two.

   Also here, because they are *executable realisations of oracles* (unverified, contract-checked at
   run time by the checkers at the end of the file, never used by a theorem):
   * [gj_inverse]  Gauss-Jordan inverse with partial pivoting (stands in for Eigen's LDLT solve);
   * [jacobi_svd]  one-sided Jacobi SVD (stands in for Eigen::JacobiSVD), with completion of the
                   left singular vectors of zero singular values for dimensions 2 and 3. *)
From Coq Require Import List Arith Bool ZArith.
From Romea Require Import Num.
Import ListNotations.

Section Generic.
Context {T : Type} (N : NumOps T).

Local Notation zr := (nzero N).
Local Notation on := (n_one N).
Local Infix "+" := (nadd N).
Local Infix "-" := (nsub N).
Local Infix "*" := (nmul N).
Local Infix "/" := (ndiv N).

(* Σ_{i<n} f i, accumulated left to right *)
Fixpoint sumn (n : nat) (f : nat -> T) : T :=
  match n with O => zr | S m => sumn m f + f m end.

Definition tab {A : Type} (n : nat) (f : nat -> A) : list A := map f (seq O n).
Definition vget (v : list T) (i : nat) : T := nth i v zr.
Definition mget (M : list (list T)) (i j : nat) : T := nth j (nth i M []) zr.
Definition mtab (n m : nat) (f : nat -> nat -> T) : list (list T) :=
  tab n (fun i => tab m (fun j => f i j)).

(* function view *)
Definition fmmul (q : nat) (A B : nat -> nat -> T) (i j : nat) : T := sumn q (fun l => A i l * B l j).
Definition fmvmul (q : nat) (A : nat -> nat -> T) (v : nat -> T) (i : nat) : T := sumn q (fun l => A i l * v l).
Definition ftr (A : nat -> nat -> T) (i j : nat) : T := A j i.
Definition fdot (q : nat) (u v : nat -> T) : T := sumn q (fun l => u l * v l).
Definition fid (i j : nat) : T := if Nat.eqb i j then on else zr.
Definition fdiag (d : nat -> T) (i j : nat) : T := if Nat.eqb i j then d i else zr.

(* storage view *)
Definition mmul (n q m : nat) (A B : list (list T)) : list (list T) := mtab n m (fmmul q (mget A) (mget B)).
Definition mvmul (n q : nat) (A : list (list T)) (v : list T) : list T := tab n (fmvmul q (mget A) (vget v)).
Definition mtrans (n m : nat) (A : list (list T)) : list (list T) := mtab m n (ftr (mget A)).  (* A is n x m *)
Definition midentity (n : nat) : list (list T) := mtab n n fid.
Definition vadd (n : nat) (u v : list T) : list T := tab n (fun i => vget u i + vget v i).
Definition vsub (n : nat) (u v : list T) : list T := tab n (fun i => vget u i - vget v i).
Definition vscale (n : nat) (c : T) (u : list T) : list T := tab n (fun i => c * vget u i).
Definition vdivs (n : nat) (u : list T) (c : T) : list T := tab n (fun i => vget u i / c).
Definition vzero (n : nat) : list T := tab n (fun _ => zr).
Definition mzero (n m : nat) : list (list T) := mtab n m (fun _ _ => zr).

(* determinants of the 2x2 / 3x3 leading blocks (explicit cofactor formulas) *)
Definition fdet2 (A : nat -> nat -> T) : T := A O O * A 1%nat 1%nat - A O 1%nat * A 1%nat O.
Definition fdet3 (A : nat -> nat -> T) : T :=
  (A O O * (A 1%nat 1%nat * A 2%nat 2%nat - A 1%nat 2%nat * A 2%nat 1%nat)
   - A O 1%nat * (A 1%nat O * A 2%nat 2%nat - A 1%nat 2%nat * A 2%nat O))
  + A O 2%nat * (A 1%nat O * A 2%nat 1%nat - A 1%nat 1%nat * A 2%nat O).
Definition fdet (d : nat) (A : nat -> nat -> T) : T :=
  match d with 1%nat => A O O | 2%nat => fdet2 A | 3%nat => fdet3 A | _ => zr end.

(* ------------------------------------------------------------------------------------------------
   Executable oracle realisation 1: Gauss-Jordan inverse with partial pivoting (k x k).
   Works on the augmented rows [A | I]; unverified; its result is contract-checked by [inv_residual]. *)
Definition set_nth {A : Type} (i : nat) (x : A) (l : list A) : list A :=
  firstn i l ++ match skipn i l with [] => [] | _ :: r => x :: r end.

(* index (>= c) of the row with the largest |entry in column c| *)
Fixpoint argmax_col (rows : list (list T)) (c i best : nat) (bestv : T) : nat :=
  match rows with
  | [] => best
  | r :: rs =>
    let v := nabs N (nth c r zr) in
    if andb (Nat.leb c i) (nltb N bestv v) then argmax_col rs c (S i) i v
    else argmax_col rs c (S i) best bestv
  end.

Definition gj_step (k c : nat) (rows : list (list T)) : list (list T) :=
  let p := argmax_col rows c O c (nabs N (nth c (nth c rows []) zr)) in
  let rc := nth c rows [] in
  let rp := nth p rows [] in
  let rows1 := set_nth p rc (set_nth c rp rows) in         (* swap rows c and p *)
  let piv := nth c rp zr in
  let prow := map (fun x => x / piv) rp in
  tab k (fun i =>
    if Nat.eqb i c then prow
    else let ri := nth i rows1 [] in
         let f := nth c ri zr in
         tab (k + k)%nat (fun j => nth j ri zr - f * nth j prow zr)).

Fixpoint gj_loop (k : nat) (todo c : nat) (rows : list (list T)) : list (list T) :=
  match todo with O => rows | S t => gj_loop k t (S c) (gj_step k c rows) end.

Definition gj_inverse (k : nat) (M : list (list T)) : list (list T) :=
  let aug := tab k (fun i => tab (k + k)%nat (fun j => if Nat.ltb j k then mget M i j else fid i (j - k)%nat)) in
  let red := gj_loop k k O aug in
  mtab k k (fun i j => nth (k + j)%nat (nth i red []) zr).

(* ------------------------------------------------------------------------------------------------
   Executable oracle realisation 2: one-sided (Hestenes) Jacobi SVD of a k x k matrix.
   G := M, V := I; plane rotations on column pairs until all pairs are orthogonal (or fuel sweeps);
   sigma_j = |G_j|, U_j = G_j / sigma_j; columns sorted by non-increasing sigma.
   Unverified; contract-checked on every call by [svd_residual]. *)
Definition col_dot (k : nat) (G : list (list T)) (p q : nat) : T := sumn k (fun i => mget G i p * mget G i q).

Definition rot_cols (k : nat) (G : list (list T)) (p q : nat) (c s : T) : list (list T) :=
  mtab k k (fun i j =>
    if Nat.eqb j p then c * mget G i p - s * mget G i q
    else if Nat.eqb j q then s * mget G i p + c * mget G i q
    else mget G i j).

(* one rotation on the pair (p,q); returns the new (G,V) and whether a rotation was applied *)
Definition jac_pair (k : nat) (GV : list (list T) * list (list T)) (p q : nat)
  : (list (list T) * list (list T)) * bool :=
  let (G, V) := GV in
  let a := col_dot k G p p in
  let b := col_dot k G q q in
  let g := col_dot k G p q in
  let thr := (on + on) * nepsilon N * (nsqrt N a * nsqrt N b) in   (* not sqrt(a*b): a*b overflows binary32 *)
  if orb (orb (nleb N (nabs N g) thr) (neqb N g zr)) (orb (nleb N a (nminpos N)) (nleb N b (nminpos N))) then (GV, false)
  else
    let two := on + on in
    let zeta := (b - a) / (two * g) in
    let sgn := if nltb N zeta zr then nneg N on else on in
    let t := sgn / (nabs N zeta + nsqrt N (on + zeta * zeta)) in
    let c := on / nsqrt N (on + t * t) in
    let s := c * t in
    ((rot_cols k G p q c s, rot_cols k V p q c s), true).

(* all pairs p < q, row by row *)
Definition pairs (k : nat) : list (nat * nat) :=
  flat_map (fun p => map (fun q => (p, q)) (seq (S p) (k - S p))) (seq O k).

Definition jac_sweep (k : nat) (GV : list (list T) * list (list T)) : (list (list T) * list (list T)) * bool :=
  fold_left (fun (acc : (list (list T) * list (list T)) * bool) (pq : nat * nat) =>
               let (r, fl) := jac_pair k (fst acc) (fst pq) (snd pq) in (r, orb (snd acc) fl))
            (pairs k) (GV, false).

Fixpoint jac_loop (fuel k : nat) (GV : list (list T) * list (list T)) : (list (list T) * list (list T)) * bool :=
  match fuel with
  | O => (GV, false)                                  (* out of fuel: not converged *)
  | S f => let (r, rotated) := jac_sweep k GV in
           if rotated then jac_loop f k r else (r, true)
  end.

(* insertion sort of column indices by non-increasing key *)
Fixpoint ins_desc (key : nat -> T) (j : nat) (l : list nat) : list nat :=
  match l with
  | [] => [j]
  | h :: r => if nltb N (key h) (key j) then j :: l else h :: ins_desc key j r
  end.
Definition order_desc (k : nat) (key : nat -> T) : list nat :=
  fold_left (fun acc j => ins_desc key j acc) (seq O k) [].

Definition cross3 (a b : nat -> T) (i : nat) : T :=
  match i with
  | O => a 1%nat * b 2%nat - a 2%nat * b 1%nat
  | S O => a 2%nat * b O - a O * b 2%nat
  | _ => a O * b 1%nat - a 1%nat * b O
  end.

Definition normalize (k : nat) (a : nat -> T) (i : nat) : T :=
  a i / nsqrt N (sumn k (fun l => a l * a l)).

(* a unit vector orthogonal to the unit vector a (3D): cross with the axis least aligned with a *)
Definition perp3 (a : nat -> T) : nat -> T :=
  let ax := nabs N (a O) in let ay := nabs N (a 1%nat) in let az := nabs N (a 2%nat) in
  let e := if andb (nleb N ax ay) (nleb N ax az) then (fun i => fid O i)
           else if nleb N ay az then (fun i => fid 1%nat i) else (fun i => fid 2%nat i) in
  normalize 3 (cross3 a e).

(* result: (U, sigma, V, converged) with U, V : k x k (lists of rows), sigma : list of k values *)
Definition jacobi_svd (fuel k : nat) (M : list (list T))
  : (list (list T) * list T * list (list T)) * bool :=
  let '((G, V), conv) := jac_loop fuel k (mtab k k (mget M), midentity k) in
  let sg := fun j => nsqrt N (col_dot k G j j) in
  let ord := order_desc k sg in
  let perm := fun j => nth j ord O in
  let sigma := tab k (fun j => sg (perm j)) in
  let smax := vget sigma O in
  let tiny := smax * (nofZ N 64%Z * nepsilon N) in
  let isnull := fun j => orb (nleb N (vget sigma j) tiny) (neqb N (vget sigma j) zr) in
  let Vs := mtab k k (fun i j => mget V i (perm j)) in
  let U0 := fun i j => mget G i (perm j) / vget sigma j in
  let U :=
    match k with
    | 2%nat =>
      if isnull O then midentity 2
      else if isnull 1%nat then
        mtab 2 2 (fun i j => if Nat.eqb j O then U0 i O
                             else (if Nat.eqb i O then nneg N (U0 1%nat O) else U0 O O))
      else mtab 2 2 U0
    | 3%nat =>
      if isnull O then midentity 3
      else if isnull 1%nat then
        let u1 := fun i => U0 i O in
        let u2 := perp3 u1 in
        let u3 := cross3 u1 u2 in
        mtab 3 3 (fun i j => match j with O => u1 i | S O => u2 i | _ => u3 i end)
      else if isnull 2%nat then
        let u1 := fun i => U0 i O in
        let u2 := fun i => U0 i 1%nat in
        let u3 := cross3 u1 u2 in
        mtab 3 3 (fun i j => match j with O => u1 i | S O => u2 i | _ => u3 i end)
      else mtab 3 3 U0
    | _ => mtab k k U0
    end in
  ((U, sigma, Vs), conv).

(* ------------------------------------------------------------------------------------------------
   Run-time contract checkers (max absolute entry of the residual matrices). *)
Definition maxabs (n m : nat) (f : nat -> nat -> T) : T :=
  fold_left (fun acc i => fold_left (fun acc2 j => nmax2 N acc2 (nabs N (f i j))) (seq O m) acc) (seq O n) zr.

(* | M * inv - I |_max *)
Definition inv_residual (k : nat) (M inv : list (list T)) : T :=
  maxabs k k (fun i j => fmmul k (mget M) (mget inv) i j - fid i j).

(* max of |U diag(sigma) V^T - M|, |U^T U - I|, |U U^T - I|, |V^T V - I|, |V V^T - I| ; the first one relative to |M|_max *)
Definition svd_residual (k : nat) (M U : list (list T)) (sigma : list T) (V : list (list T)) : T :=
  let mu := mget U in let mv := mget V in
  let rec := fmmul k mu (fmmul k (fdiag (vget sigma)) (ftr mv)) in
  let scale := nmax2 N (maxabs k k (mget M)) (nminpos N) in
  let r1 := maxabs k k (fun i j => rec i j - mget M i j) / scale in
  let r2 := maxabs k k (fun i j => fmmul k (ftr mu) mu i j - fid i j) in
  let r3 := maxabs k k (fun i j => fmmul k mu (ftr mu) i j - fid i j) in
  let r4 := maxabs k k (fun i j => fmmul k (ftr mv) mv i j - fid i j) in
  let r5 := maxabs k k (fun i j => fmmul k mv (ftr mv) i j - fid i j) in
  nmax2 N r1 (nmax2 N r2 (nmax2 N r3 (nmax2 N r4 r5))).

(* sigma non-negative and non-increasing *)
Fixpoint sorted_desc_nonneg (l : list T) : bool :=
  match l with
  | [] => true
  | a :: r => andb (nleb N zr a)
                   (andb (match r with [] => true | b :: _ => nleb N b a end) (sorted_desc_nonneg r))
  end.

End Generic.
