(* GridMapFloat.v — C13 at the floating-point level (IEEE-754 binary64 and binary32).
   The SAME generic model (GridMapModel.v) is instantiated at a dictionary [FlOps prec emin : NumOps R] whose
   arithmetic operations are the real operations followed by ONE rounding to nearest-even in the format with [prec]
   significand bits and smallest exponent [emin] (Flocq: [round radix2 (FLT_exp emin prec) ZnearestE]);
   floor/ceil/truncation of a floating-point number are exact.
     binary64 = FlOps 53 (-1074)  (B64Ops),   binary32 = FlOps 24 (-149)  (B32Ops).
   The format has no largest exponent: the no-overflow theorems show that on the stated domains every intermediate
   stays far below the overflow threshold, so the unbounded-exponent model coincides with IEEE-754 there.
   The error analysis is done once, for any precision, with K = 2^eK the largest allowed |lo/r|, |hi/r| and
   kap = 2^-prec * K <= 1/16 the resulting relative error scale (2^-13 for binary64 with K = 2^40,
   2^-4 for binary32 with K = 2^20). *)
From Coq Require Import Reals ZArith List Lra Lia.
From Flocq Require Import Core Relative.
From Romea Require Import Num NumR GridMapModel.
Local Open Scope R_scope.

Lemma div_le_l a b c : 0 < c -> a <= b * c -> a / c <= b.
Proof.
  intros Hc H. apply Rmult_le_reg_r with c; [exact Hc|].
  unfold Rdiv. rewrite Rmult_assoc, Rinv_l by lra. lra.
Qed.

Lemma div_ge_l a b c : 0 < c -> b * c <= a -> b <= a / c.
Proof.
  intros Hc H. apply Rmult_le_reg_r with c; [exact Hc|].
  unfold Rdiv. rewrite Rmult_assoc, Rinv_l by lra. lra.
Qed.

Section Format.
Variables prec emin : Z.
Context {prec_gt_0_ : Prec_gt_0 prec}.

(* ---------- the format and the rounded operations ---------- *)
Definition frnd (x : R) : R := round radix2 (FLT_exp emin prec) ZnearestE x.
Definition ffmt (x : R) : Prop := generic_format radix2 (FLT_exp emin prec) x.

Definition fl_add (a b : R) : R := frnd (a + b).
Definition fl_sub (a b : R) : R := frnd (a - b).
Definition fl_mul (a b : R) : R := frnd (a * b).
Definition fl_div (a b : R) : R := frnd (a / b).

(* the numeric dictionary: +,-,*,/ and integer->float round once; negation, |.|, floor, ceil, truncation and the
   comparisons are exact on floating-point numbers; the transcendental entries (not used by the grid model) are
   idealised as correctly rounded *)
Definition FlOps : NumOps R := {|
  nzero := 0; n_one := 1;
  nadd := fl_add; nsub := fl_sub; nmul := fl_mul; ndiv := fl_div;
  nneg := Ropp; nabs := Rabs; nsqrt := fun x => frnd (sqrt x);
  nsin := fun x => frnd (sin x); ncos := fun x => frnd (cos x); ntan := fun x => frnd (sin x / cos x);
  natan := fun x => frnd (atan x); nasin := fun x => frnd (asin x); nacos := fun x => frnd (acos x);
  nexp := fun x => frnd (exp x); nln := fun x => frnd (ln x);
  natan2 := fun y x => frnd (Ratan2 y x); npow := fun x y => frnd (Rpower x y); nfmod := Rfmod;
  nfloor := fun x => IZR (Zfloor x); nceil := fun x => IZR (Zceil x);
  ntruncZ := Ztrunc; nofZ := fun k => frnd (IZR k);
  nofDec := fun m e => frnd (IZR m * powerRZ 10 e);
  npi := frnd PI;
  nmaxval := (1 - bpow radix2 (- prec)) * bpow radix2 (3 - emin - prec);
  nminpos := bpow radix2 (emin + prec - 1);
  nepsilon := bpow radix2 (1 - prec);
  nltb := Rltb; nleb := Rleb; neqb := Reqb
|}.

Definition fl_F (r lo : R) : Z := Zfloor (fl_div lo r).     (* floor(lower / r), as an integer *)
Definition fl_C (r hi : R) : Z := Zceil (fl_div hi r).      (* ceil(upper / r) *)

Local Notation rnd := frnd.
Local Notation fmt := ffmt.
Local Notation Ops := FlOps.

(* ---------- basic facts about rnd ---------- *)
Definition fl_u : R := bpow radix2 (- prec).          (* the unit roundoff *)
Definition fl_eta : R := bpow radix2 (emin - 1).      (* half the smallest subnormal *)
Local Notation u := fl_u.
Local Notation eta := fl_eta.

Lemma u_val : / 2 * bpow radix2 (- prec + 1) = u.
Proof.
  unfold fl_u. change (/ 2) with (bpow radix2 (-1)). rewrite <- bpow_plus. f_equal. lia.
Qed.

Lemma eta_val : / 2 * bpow radix2 emin = eta.
Proof.
  unfold fl_eta. change (/ 2) with (bpow radix2 (-1)). rewrite <- bpow_plus. f_equal. lia.
Qed.

Lemma u_pos : 0 < u.
Proof. apply bpow_gt_0. Qed.

Lemma eta_pos : 0 < eta.
Proof. apply bpow_gt_0. Qed.

Lemma rnd_le x y : x <= y -> rnd x <= rnd y.
Proof. unfold frnd. apply round_le; auto with typeclass_instances. Qed.

Lemma rnd_id x : fmt x -> rnd x = x.
Proof. unfold frnd, ffmt. apply round_generic; auto with typeclass_instances. Qed.

Lemma fmt_rnd x : fmt (rnd x).
Proof. unfold frnd, ffmt. apply generic_format_round; auto with typeclass_instances. Qed.

Lemma rnd_err x : Rabs (rnd x - x) <= u * Rabs x + eta.
Proof.
  destruct (error_N_FLT radix2 emin prec prec_gt_0_ (fun z => negb (Z.even z)) x) as (eps & et & He & Ht & _ & Hx).
  rewrite u_val in He. rewrite eta_val in Ht.
  assert (Hx' : rnd x = x * (1 + eps) + et) by exact Hx. rewrite Hx'.
  replace (x * (1 + eps) + et - x) with (x * eps + et) by ring.
  eapply Rle_trans; [apply Rabs_triang|]. rewrite Rabs_mult.
  pose proof (Rabs_pos x). nra.
Qed.

Lemma err_bound x B : Rabs x <= B -> - (u * B + eta) <= rnd x - x <= u * B + eta.
Proof.
  intros H. pose proof (rnd_err x) as E. apply Rabs_le_inv.
  eapply Rle_trans; [exact E|]. pose proof u_pos. nra.
Qed.

Lemma div_err_bound r x B : 0 < r -> Rabs x <= B ->
  - (u * B + eta * r) <= r * rnd (x / r) - x <= u * B + eta * r.
Proof.
  intros Hr H. pose proof (rnd_err (x / r)) as E.
  assert (Hd : Rabs (x / r) = Rabs x / r).
  { unfold Rdiv. rewrite Rabs_mult, (Rabs_pos_eq (/ r)); [reflexivity|]. left. apply Rinv_0_lt_compat, Hr. }
  rewrite Hd in E.
  replace (r * rnd (x / r) - x) with (r * (rnd (x / r) - x / r)) by (field; lra).
  apply Rabs_le_inv. rewrite Rabs_mult, (Rabs_pos_eq r) by lra.
  apply Rle_trans with (r * (u * (Rabs x / r) + eta)).
  - apply Rmult_le_compat_l; lra.
  - replace (r * (u * (Rabs x / r) + eta)) with (u * Rabs x + eta * r) by (field; lra).
    pose proof u_pos. nra.
Qed.

Lemma rnd_abs_le x y : fmt y -> Rabs x <= y -> Rabs (rnd x) <= y.
Proof. unfold frnd, ffmt. apply abs_round_le_generic; auto with typeclass_instances. Qed.

Lemma fmt_dyadic x m e : x = IZR m * bpow radix2 e -> (Z.abs m < 2 ^ prec)%Z -> (emin <= e)%Z -> fmt x.
Proof.
  intros Hx Hm He. rewrite Hx. apply generic_format_FLT.
  exists (Float radix2 m e); [reflexivity|exact Hm|exact He].
Qed.

Lemma rnd_dyadic x m e : x = IZR m * bpow radix2 e -> (Z.abs m < 2 ^ prec)%Z -> (emin <= e)%Z -> rnd x = x.
Proof. intros Hx Hm He. apply rnd_id. exact (fmt_dyadic x m e Hx Hm He). Qed.

Lemma fmt_int k : (emin <= 0)%Z -> (Z.abs k < 2 ^ prec)%Z -> fmt (IZR k).
Proof. intros He H. apply (fmt_dyadic _ k 0); [simpl; ring|exact H|exact He]. Qed.

Lemma fmt_int_half k : (emin <= -1)%Z -> (Z.abs (2 * k + 1) < 2 ^ prec)%Z -> fmt (IZR k + 1 / 2).
Proof.
  intros He H. apply (fmt_dyadic _ (2 * k + 1) (-1)); [|exact H|exact He].
  change (bpow radix2 (-1)) with (/ 2). rewrite plus_IZR, mult_IZR. lra.
Qed.

Lemma fmt_int_mhalf k : (emin <= -1)%Z -> (Z.abs (2 * k - 1) < 2 ^ prec)%Z -> fmt (IZR k - 1 / 2).
Proof.
  intros He H. replace (IZR k - 1 / 2) with (IZR (k - 1) + 1 / 2) by (rewrite minus_IZR; lra).
  apply fmt_int_half; [exact He|]. replace (2 * (k - 1) + 1)%Z with (2 * k - 1)%Z by lia. exact H.
Qed.

Lemma pow_prec_ge n : (0 <= n <= prec)%Z -> (2 ^ n <= 2 ^ prec)%Z.
Proof. intros H. apply Z.pow_le_mono_r; lia. Qed.

Lemma nhalf_fl : (2 <= prec)%Z -> (emin <= -1)%Z -> nhalf Ops = 1 / 2.
Proof.
  intros Hp He. unfold nhalf, ntwo. cbn [ndiv nadd n_one FlOps]. unfold fl_div, fl_add.
  assert (4 <= 2 ^ prec)%Z by (apply (pow_prec_ge 2); lia).
  replace (1 + 1) with (IZR 2) by (simpl; lra). rewrite (rnd_id (IZR 2)) by (apply fmt_int; lia).
  replace (1 / IZR 2) with (IZR 0 + 1 / 2) by (simpl; lra). apply rnd_id. apply fmt_int_half; lia.
Qed.

(* ---------- the model, unfolded: one rounding per C++ operation, C++ evaluation order ---------- *)
Lemma origin_unf r lo : (2 <= prec)%Z -> (emin <= -1)%Z ->
  gm_origin Ops r lo = rnd (r * rnd (IZR (fl_F r lo) - 1 / 2)).
Proof. intros Hp He. unfold gm_origin. rewrite (nhalf_fl Hp He). reflexivity. Qed.

Lemma ncells_unf r lo hi :
  gm_ncells Ops r lo hi = Ztrunc (rnd (rnd (IZR (fl_C r hi) - IZR (fl_F r lo)) + 1)).
Proof. reflexivity. Qed.

Lemma index_unf0 r org p : gm_index Ops r org p = Ztrunc (rnd (rnd (p - org) / r)).
Proof. reflexivity. Qed.

Lemma centre_unf0 r org k : (2 <= prec)%Z -> (emin <= -1)%Z ->
  gm_centre Ops r org k = rnd (org + rnd (rnd (rnd (IZR k) + 1 / 2) * r)).
Proof. intros Hp He. unfold gm_centre. rewrite (nhalf_fl Hp He). reflexivity. Qed.

(* ---------- error analysis, any precision ----------
   K = 2^eK bounds |lo/r| and |hi/r|;  2^elo <= r <= 2^ehi. *)
Section Analysis.
Variables eK elo ehi : Z.
Hypothesis HeK1 : (10 <= eK)%Z.
Hypothesis HeK2 : (eK + 4 <= prec)%Z.
Hypothesis Hemin : (emin + prec + 9 <= 0)%Z.
Hypothesis Helo : (emin + prec + 9 <= elo)%Z.
Hypothesis Hehi : (0 <= ehi)%Z.

Definition fl_K : R := bpow radix2 eK.
Definition fl_kap : R := bpow radix2 (eK - prec).
Local Notation K := fl_K.
Local Notation kap := fl_kap.

Lemma prec_ge_2 : (2 <= prec)%Z. Proof. lia. Qed.
Lemma emin_le_m1 : (emin <= -1)%Z. Proof. unfold Prec_gt_0 in prec_gt_0_. lia. Qed.

Lemma uK : u * K = kap.
Proof. unfold fl_u, fl_K, fl_kap. rewrite <- bpow_plus. f_equal. lia. Qed.

Lemma kap_le : kap <= / 16.
Proof. replace (/ 16) with (bpow radix2 (-4)) by (simpl; lra). apply bpow_le. lia. Qed.

Lemma kap_pos : 0 < kap.
Proof. apply bpow_gt_0. Qed.

Lemma K_ge : 1024 <= K.
Proof. replace 1024 with (bpow radix2 10) by (simpl; lra). apply bpow_le. lia. Qed.

Lemma u1024 : 1024 * u <= kap.
Proof. rewrite <- uK. pose proof K_ge. pose proof u_pos. nra. Qed.

Lemma eta1024 : 1024 * eta <= u.
Proof.
  replace 1024 with (bpow radix2 10) by (simpl; lra). unfold fl_eta, fl_u. rewrite <- bpow_plus.
  apply bpow_le. lia.
Qed.

Lemma fmt_K : fmt K.
Proof. unfold ffmt, fl_K. apply generic_format_bpow. unfold FLT_exp. pose proof emin_le_m1. lia. Qed.

Lemma K_IZR : IZR (2 ^ eK) = K.
Proof. unfold fl_K. rewrite <- (IZR_Zpower radix2) by lia. reflexivity. Qed.

Lemma pow_facts : (1024 <= 2 ^ eK)%Z /\ (16 * 2 ^ eK <= 2 ^ prec)%Z.
Proof.
  split.
  - change 1024%Z with (2 ^ 10)%Z. apply Z.pow_le_mono_r; lia.
  - replace (16 * 2 ^ eK)%Z with (2 ^ (eK + 4))%Z by (rewrite Z.pow_add_r by lia; lia).
    apply Z.pow_le_mono_r; lia.
Qed.

Section Axis.
Variables r lo hi A : R.
Hypothesis Hrlo : bpow radix2 elo <= r.
Hypothesis Hrhi : r <= bpow radix2 ehi.      (* used only by the no-overflow lemmas *)
Hypothesis HloA : Rabs lo <= A.
Hypothesis HhiA : Rabs hi <= A.
Hypothesis HAr : A <= K * r.
Hypothesis Hlh : lo <= hi.

Local Notation F := (fl_F r lo).
Local Notation C := (fl_C r hi).
Local Notation ql := (rnd (lo / r)).
Local Notation qh := (rnd (hi / r)).
Local Notation org := (gm_origin Ops r lo).

Lemma r_pos : 0 < r.
Proof. eapply Rlt_le_trans; [apply (bpow_gt_0 radix2 elo)|exact Hrlo]. Qed.

Lemma eta_r : 1024 * eta <= u * r.
Proof.
  apply Rle_trans with (u * bpow radix2 elo).
  - replace 1024 with (bpow radix2 10) by (simpl; lra). unfold fl_eta, fl_u. rewrite <- !bpow_plus.
    apply bpow_le. lia.
  - apply Rmult_le_compat_l; [left; exact u_pos|exact Hrlo].
Qed.

Lemma etar_r : 1024 * (eta * r) <= u * r.
Proof. pose proof eta1024. pose proof r_pos. nra. Qed.

Lemma A_nonneg : 0 <= A.
Proof. eapply Rle_trans; [apply (Rabs_pos lo)|exact HloA]. Qed.

Lemma lo_box : - A <= lo <= A.
Proof. apply Rabs_le_inv, HloA. Qed.

Lemma hi_box : - A <= hi <= A.
Proof. apply Rabs_le_inv, HhiA. Qed.

Lemma uA_le : u * A <= kap * r.
Proof. rewrite <- uK. pose proof u_pos. rewrite Rmult_assoc. apply Rmult_le_compat_l; [lra|exact HAr]. Qed.

Lemma uA_pos : 0 <= u * A.
Proof. apply Rmult_le_pos; [left; exact u_pos|exact A_nonneg]. Qed.

Lemma ur_le : 1024 * (u * r) <= kap * r.
Proof. pose proof u1024. pose proof r_pos. nra. Qed.

Lemma ur_pos : 0 < u * r.
Proof. apply Rmult_lt_0_compat; [exact u_pos|exact r_pos]. Qed.

Lemma kr_le : 16 * (kap * r) <= r.
Proof. pose proof kap_le. pose proof r_pos. nra. Qed.

Lemma kr_pos : 0 < kap * r.
Proof. apply Rmult_lt_0_compat; [exact kap_pos|exact r_pos]. Qed.

(* linear arithmetic over the monomials u*A, u*r, kap*r, eta, eta*r, r*F, ... *)
Ltac fin :=
  pose proof r_pos; pose proof eta_r; pose proof etar_r; pose proof eta_pos; pose proof A_nonneg;
  pose proof lo_box; pose proof hi_box; pose proof uA_le; pose proof uA_pos; pose proof ur_le; pose proof ur_pos;
  pose proof kr_le; pose proof kr_pos; lra.

Lemma ql_err : - (u * A + eta * r) <= r * ql - lo <= u * A + eta * r.
Proof. exact (div_err_bound r lo A r_pos HloA). Qed.

Lemma qh_err : - (u * A + eta * r) <= r * qh - hi <= u * A + eta * r.
Proof. exact (div_err_bound r hi A r_pos HhiA). Qed.

Lemma quot_abs x : Rabs x <= A -> Rabs (rnd (x / r)) <= K.
Proof.
  intros Hx. apply rnd_abs_le; [exact fmt_K|]. apply Rabs_le_inv in Hx. pose proof r_pos.
  apply Rabs_le. split.
  - apply div_ge_l; [assumption|]. lra.
  - apply div_le_l; [assumption|]. lra.
Qed.

Lemma F_box : (- 2 ^ eK <= F <= 2 ^ eK)%Z.
Proof.
  pose proof (quot_abs lo HloA) as H. apply Rabs_le_inv in H. rewrite <- K_IZR in H. unfold fl_F, fl_div. split.
  - apply Zfloor_lub. rewrite opp_IZR. lra.
  - apply le_IZR. pose proof (Zfloor_lb ql). lra.
Qed.

Lemma C_box : (- 2 ^ eK <= C <= 2 ^ eK)%Z.
Proof.
  pose proof (quot_abs hi HhiA) as H. apply Rabs_le_inv in H. rewrite <- K_IZR in H. unfold fl_C, fl_div. split.
  - apply le_IZR. pose proof (Zceil_ub qh). rewrite opp_IZR. lra.
  - apply Zceil_glb. lra.
Qed.

Lemma F_boxR : - K <= IZR F <= K.
Proof. pose proof F_box as [H1 H2]. apply IZR_le in H1, H2. rewrite opp_IZR in H1. rewrite K_IZR in *. lra. Qed.

Lemma C_boxR : - K <= IZR C <= K.
Proof. pose proof C_box as [H1 H2]. apply IZR_le in H1, H2. rewrite opp_IZR in H1. rewrite K_IZR in *. lra. Qed.

Lemma F_le_C : (F <= C)%Z.
Proof.
  unfold fl_F, fl_C, fl_div. apply le_IZR.
  pose proof (Zfloor_lb ql). pose proof (Zceil_ub qh).
  assert (ql <= qh); [|lra]. apply rnd_le. pose proof r_pos.
  apply Rmult_le_compat_r; [left; apply Rinv_0_lt_compat; assumption|exact Hlh].
Qed.

(* r*F and r*C against the bounds *)
Lemma rF_bounds : lo - (u * A + eta * r) - r <= r * IZR F <= lo + (u * A + eta * r).
Proof.
  pose proof ql_err as E. pose proof r_pos as Hr. unfold fl_F, fl_div.
  pose proof (Zfloor_lb ql) as L. pose proof (Zfloor_ub ql) as U.
  assert (r * IZR (Zfloor ql) <= r * ql) by (apply Rmult_le_compat_l; lra).
  assert (r * ql <= r * (IZR (Zfloor ql) + 1)) by (apply Rmult_le_compat_l; lra).
  lra.
Qed.

Lemma rC_bounds : hi - (u * A + eta * r) <= r * IZR C <= hi + (u * A + eta * r) + r.
Proof.
  pose proof qh_err as E. pose proof r_pos as Hr. unfold fl_C, fl_div.
  pose proof (Zceil_ub qh) as L. pose proof (Zceil_lb qh) as U.
  assert (r * qh <= r * IZR (Zceil qh)) by (apply Rmult_le_compat_l; lra).
  assert (r * IZR (Zceil qh) <= r * (qh + 1)) by (apply Rmult_le_compat_l; lra).
  lra.
Qed.

(* floor(lo/r) - 0.5 is computed exactly *)
Lemma Fh_exact : rnd (IZR F - 1 / 2) = IZR F - 1 / 2.
Proof.
  apply rnd_id, fmt_int_mhalf; [exact emin_le_m1|]. pose proof F_box. pose proof pow_facts. lia.
Qed.

Lemma org_unf : org = rnd (r * (IZR F - 1 / 2)).
Proof. rewrite (origin_unf r lo prec_ge_2 emin_le_m1), Fh_exact. reflexivity. Qed.

Lemma org_err :
  - (u * (A + 2 * r) + eta) <= org - (r * IZR F - r / 2) <= u * (A + 2 * r) + eta.
Proof.
  rewrite org_unf.
  replace (r * IZR F - r / 2) with (r * (IZR F - 1 / 2)) by field.
  apply err_bound. pose proof rF_bounds. apply Rabs_le. split; fin.
Qed.

(* magnitudes: every exact result is at most 2^(ehi + eK + 2) *)
Lemma big_ok x : Rabs x <= 2 * A + 5 * r -> Rabs x <= bpow radix2 (ehi + eK + 2).
Proof.
  intros H. eapply Rle_trans; [exact H|].
  replace (ehi + eK + 2)%Z with (2 + eK + ehi)%Z by lia. rewrite !bpow_plus.
  replace (bpow radix2 2) with 4 by (simpl; lra). fold K.
  pose proof K_ge. pose proof r_pos. pose proof A_nonneg.
  assert (K * r <= K * bpow radix2 ehi) by (apply Rmult_le_compat_l; lra).
  assert (1024 * r <= K * r) by (apply Rmult_le_compat_r; lra).
  lra.
Qed.

Lemma ratio_ok x : Rabs x <= 4 * K -> Rabs x <= bpow radix2 (ehi + eK + 2).
Proof.
  intros H. eapply Rle_trans; [exact H|].
  replace (4 * K) with (bpow radix2 (eK + 2)).
  - apply bpow_le. lia.
  - rewrite bpow_plus. fold K. simpl. lra.
Qed.

Lemma ratio_bound x : Rabs x <= 2 * A + 5 * r -> Rabs (x / r) <= 4 * K.
Proof.
  intros H. apply Rabs_le_inv in H. pose proof r_pos. pose proof K_ge.
  assert (1024 * r <= K * r) by (apply Rmult_le_compat_r; lra).
  apply Rabs_le. split.
  - apply div_ge_l; [assumption|]. lra.
  - apply div_le_l; [assumption|]. lra.
Qed.

Lemma no_overflow_grid :
  let B := bpow radix2 (ehi + eK + 2) in
  Rabs (lo / r) <= B /\ Rabs (hi / r) <= B /\
  Rabs (IZR F - 1 / 2) <= B /\ Rabs (r * (IZR F - 1 / 2)) <= B /\
  Rabs (IZR C - IZR F) <= B /\ Rabs (IZR (C - F) + 1) <= B.
Proof.
  pose proof F_boxR as HF. pose proof C_boxR as HC. pose proof rF_bounds. pose proof K_ge.
  cbv zeta. repeat split.
  - apply ratio_ok, ratio_bound. eapply Rle_trans; [exact HloA|]. fin.
  - apply ratio_ok, ratio_bound. eapply Rle_trans; [exact HhiA|]. fin.
  - apply ratio_ok, Rabs_le. lra.
  - apply big_ok, Rabs_le. split; fin.
  - apply ratio_ok, Rabs_le. lra.
  - rewrite minus_IZR. apply ratio_ok, Rabs_le. lra.
Qed.

(* the cell count is computed exactly *)
Lemma ncells_eq : gm_ncells Ops r lo hi = (C - F + 1)%Z.
Proof.
  rewrite ncells_unf. pose proof F_box. pose proof C_box. pose proof pow_facts. pose proof emin_le_m1.
  rewrite <- minus_IZR, (rnd_id (IZR (C - F))) by (apply fmt_int; lia).
  rewrite <- (plus_IZR _ 1), (rnd_id (IZR (C - F + 1))) by (apply fmt_int; lia).
  apply Ztrunc_IZR.
Qed.

Lemma ncells_ge_1 : (1 <= gm_ncells Ops r lo hi)%Z.
Proof. rewrite ncells_eq. pose proof F_le_C. lia. Qed.

(* ---- a cell centre, 0 <= k <= n-1 = C - F ---- *)
Section Centre.
Variable k : Z.
Hypothesis Hk : (0 <= k <= C - F)%Z.

Local Notation m := (rnd ((IZR k + 1 / 2) * r)).
Local Notation c := (gm_centre Ops r org k).

Lemma kh_exact : rnd (rnd (IZR k) + 1 / 2) = IZR k + 1 / 2.
Proof.
  pose proof F_box. pose proof C_box. pose proof pow_facts. pose proof emin_le_m1.
  rewrite (rnd_id (IZR k)) by (apply fmt_int; lia). apply rnd_id, fmt_int_half; lia.
Qed.

Lemma rk_bounds : 0 <= r * IZR k <= r * IZR C - r * IZR F.
Proof.
  pose proof r_pos as Hr. destruct Hk as [H0 H1]. apply IZR_le in H0, H1. rewrite minus_IZR in H1. split.
  - apply Rmult_le_pos; lra.
  - replace (r * IZR C - r * IZR F) with (r * (IZR C - IZR F)) by ring. apply Rmult_le_compat_l; lra.
Qed.

Lemma m_err :
  - (u * (2 * A + 3 * r) + eta) <= m - (r * IZR k + r / 2) <= u * (2 * A + 3 * r) + eta.
Proof.
  replace (r * IZR k + r / 2) with ((IZR k + 1 / 2) * r) by field.
  apply err_bound. pose proof rk_bounds. pose proof rF_bounds. pose proof rC_bounds.
  apply Rabs_le. split; fin.
Qed.

Lemma centre_unf : c = rnd (org + m).
Proof. rewrite (centre_unf0 r org k prec_ge_2 emin_le_m1), kh_exact. reflexivity. Qed.

Lemma c_err : - (u * (A + 2 * r) + eta) <= c - (org + m) <= u * (A + 2 * r) + eta.
Proof.
  rewrite centre_unf. apply err_bound.
  pose proof rk_bounds. pose proof rF_bounds. pose proof rC_bounds. pose proof org_err. pose proof m_err.
  apply Rabs_le. split; fin.
Qed.

(* centre(k) against the exact value org + (k + 1/2) r *)
Lemma centre_err :
  - (u * (3 * A + 5 * r) + 2 * eta) <= c - (org + r * IZR k + r / 2) <= u * (3 * A + 5 * r) + 2 * eta.
Proof. pose proof m_err. pose proof c_err. split; fin. Qed.

(* centre -> index -> centre: the quotient stays 1/2 - 15/2 kap away from the integers *)
Lemma centre_quot :
  IZR k + 1 / 2 - 15 / 2 * kap <= rnd (rnd (c - org) / r) <= IZR k + 1 / 2 + 15 / 2 * kap.
Proof.
  pose proof rk_bounds as Rk. pose proof rF_bounds as RF. pose proof rC_bounds as RC. pose proof centre_err as CE.
  assert (Bd : Rabs (c - org) <= 2 * A + 4 * r) by (apply Rabs_le; split; fin).
  pose proof (err_bound _ _ Bd) as D.
  assert (Bq : Rabs (rnd (c - org)) <= 2 * A + 5 * r) by (apply Rabs_le; split; fin).
  pose proof (div_err_bound r _ _ r_pos Bq) as Q.
  set (q := rnd (rnd (c - org) / r)) in *.
  assert (Q1 : r * (IZR k + 1 / 2 - 15 / 2 * kap) <= r * q).
  { replace (r * (IZR k + 1 / 2 - 15 / 2 * kap)) with (r * IZR k + r / 2 - 15 / 2 * (kap * r)) by field. fin. }
  assert (Q2 : r * q <= r * (IZR k + 1 / 2 + 15 / 2 * kap)).
  { replace (r * (IZR k + 1 / 2 + 15 / 2 * kap)) with (r * IZR k + r / 2 + 15 / 2 * (kap * r)) by field. fin. }
  pose proof r_pos as Hr.
  apply Rmult_le_reg_l in Q1; [|exact Hr]. apply Rmult_le_reg_l in Q2; [|exact Hr]. lra.
Qed.

Lemma centre_index : gm_index Ops r org c = k.
Proof.
  rewrite index_unf0. pose proof centre_quot as [Q1 Q2]. pose proof kap_le. pose proof kap_pos.
  assert (0 <= IZR k) by (apply IZR_le; lia).
  rewrite Ztrunc_floor by lra. apply Zfloor_imp. rewrite plus_IZR. lra.
Qed.

Lemma no_overflow_centre :
  let B := bpow radix2 (ehi + eK + 2) in
  Rabs (IZR k + 1 / 2) <= B /\ Rabs ((IZR k + 1 / 2) * r) <= B /\ Rabs (org + m) <= B /\
  Rabs (c - org) <= B /\ Rabs (rnd (c - org) / r) <= B.
Proof.
  pose proof rk_bounds as Rk. pose proof rF_bounds as RF. pose proof rC_bounds as RC. pose proof centre_err as CE.
  pose proof org_err. pose proof m_err.
  assert (Bd : Rabs (c - org) <= 2 * A + 4 * r) by (apply Rabs_le; split; fin).
  pose proof (err_bound _ _ Bd) as D.
  pose proof F_boxR as HF. pose proof C_boxR as HC. pose proof K_ge.
  assert (0 <= IZR k <= 2 * K).
  { destruct Hk as [Hk0 Hk1]. apply IZR_le in Hk0, Hk1. rewrite minus_IZR in Hk1. lra. }
  cbv zeta. repeat split.
  - apply ratio_ok, Rabs_le. lra.
  - apply big_ok, Rabs_le. split; fin.
  - apply big_ok, Rabs_le. split; fin.
  - apply big_ok. fin.
  - apply ratio_ok, ratio_bound, Rabs_le. split; fin.
Qed.
End Centre.

(* consecutive centres are r apart up to four roundings *)
Lemma spacing_err k : (0 <= k)%Z -> (k + 1 <= C - F)%Z ->
  Rabs (gm_centre Ops r org (k + 1) - gm_centre Ops r org k - r) <= u * (6 * A + 10 * r) + 4 * eta.
Proof.
  intros H0 H1.
  assert (Ha : (0 <= k <= C - F)%Z) by lia. assert (Hb : (0 <= k + 1 <= C - F)%Z) by lia.
  pose proof (centre_err k Ha) as E1. pose proof (centre_err (k + 1) Hb) as E2.
  rewrite plus_IZR in E2. apply Rabs_le. split; fin.
Qed.

(* the first and last cells cover the bounds: no slack needed *)
Lemma cover_low : gm_centre Ops r org 0 - r / 2 <= lo.
Proof.
  pose proof F_le_C. assert (Ha : (0 <= 0 <= C - F)%Z) by lia.
  pose proof (centre_err 0 Ha) as E. pose proof org_err. pose proof rF_bounds.
  replace (r * IZR 0) with 0 in E by (simpl; ring). fin.
Qed.

Lemma cover_high : hi <= gm_centre Ops r org (gm_ncells Ops r lo hi - 1) + r / 2.
Proof.
  rewrite ncells_eq. replace (C - F + 1 - 1)%Z with (C - F)%Z by lia.
  pose proof F_le_C. assert (Ha : (0 <= C - F <= C - F)%Z) by lia.
  pose proof (centre_err _ Ha) as E. rewrite minus_IZR in E. pose proof org_err. pose proof rF_bounds. pose proof rC_bounds.
  replace (r * (IZR C - IZR F)) with (r * IZR C - r * IZR F) in E by ring. fin.
Qed.

(* ---- a point of the extent ---- *)
Section Point.
Variable p : R.
Hypothesis Hp : lo <= p <= hi.

Local Notation d := (rnd (p - org)).
Local Notation q := (rnd (d / r)).

Lemma d_err : - (u * (2 * A + 3 * r) + eta) <= d - (p - org) <= u * (2 * A + 3 * r) + eta.
Proof.
  apply err_bound. pose proof rF_bounds. pose proof org_err. apply Rabs_le. split; fin.
Qed.

Lemma q_err : - (u * (2 * A + 4 * r) + eta * r) <= r * q - d <= u * (2 * A + 4 * r) + eta * r.
Proof.
  apply div_err_bound; [exact r_pos|].
  pose proof rF_bounds. pose proof org_err. pose proof d_err. apply Rabs_le. split; fin.
Qed.

(* r*q against the exact value p - r*F + r/2: three roundings *)
Lemma rq_err :
  - (u * (5 * A + 9 * r) + 2 * eta + eta * r) <= r * q - (p - r * IZR F + r / 2)
    <= u * (5 * A + 9 * r) + 2 * eta + eta * r.
Proof. pose proof org_err. pose proof d_err. pose proof q_err. split; fin. Qed.

(* the half-cell margin of the real-number analysis survives rounding, reduced by 7 kap *)
Lemma q_margin : 1 / 2 - 7 * kap <= q <= IZR C - IZR F + 1 / 2 + 7 * kap.
Proof.
  pose proof rq_err as Q. pose proof rF_bounds as RF. pose proof rC_bounds as RC. pose proof r_pos as Hr.
  assert (Q1 : r * (1 / 2 - 7 * kap) <= r * q).
  { replace (r * (1 / 2 - 7 * kap)) with (r / 2 - 7 * (kap * r)) by field. fin. }
  assert (Q2 : r * q <= r * (IZR C - IZR F + 1 / 2 + 7 * kap)).
  { replace (r * (IZR C - IZR F + 1 / 2 + 7 * kap)) with (r * IZR C - r * IZR F + r / 2 + 7 * (kap * r)) by field. fin. }
  apply Rmult_le_reg_l in Q1; [|exact Hr]. apply Rmult_le_reg_l in Q2; [|exact Hr]. lra.
Qed.

Lemma index_unf : gm_index Ops r org p = Zfloor q.
Proof. rewrite index_unf0. apply Ztrunc_floor. pose proof q_margin. pose proof kap_le. lra. Qed.

Lemma index_range : (0 <= gm_index Ops r org p <= C - F)%Z.
Proof.
  rewrite index_unf. pose proof q_margin as [Q1 Q2]. pose proof kap_le. split.
  - apply Zfloor_lub. lra.
  - apply Zlt_succ_le. apply lt_IZR. unfold Z.succ. rewrite plus_IZR, minus_IZR.
    pose proof (Zfloor_lb q). lra.
Qed.

Lemma index_in_bounds_fl : (0 <= gm_index Ops r org p < gm_ncells Ops r lo hi)%Z.
Proof. rewrite ncells_eq. pose proof index_range. lia. Qed.

Lemma point_near_centre_fl :
  Rabs (p - gm_centre Ops r org (gm_index Ops r org p)) <= r / 2 + u * (9 * A + 17 * r).
Proof.
  pose proof index_range as Hk. pose proof (centre_err _ Hk) as CE. revert CE. rewrite index_unf.
  intros CE. pose proof rq_err as Q. pose proof org_err as O. pose proof r_pos as Hr.
  pose proof (Zfloor_lb q) as L. pose proof (Zfloor_ub q) as U.
  assert (r * IZR (Zfloor q) <= r * q) by (apply Rmult_le_compat_l; lra).
  assert (r * q <= r * (IZR (Zfloor q) + 1)) by (apply Rmult_le_compat_l; lra).
  apply Rabs_le. split; fin.
Qed.

Lemma no_overflow_point :
  let B := bpow radix2 (ehi + eK + 2) in Rabs (p - org) <= B /\ Rabs (d / r) <= B.
Proof.
  pose proof rF_bounds. pose proof org_err. pose proof d_err. cbv zeta. split.
  - apply big_ok, Rabs_le. split; fin.
  - apply ratio_ok, ratio_bound, Rabs_le. split; fin.
Qed.
End Point.
End Axis.

(* ---------- public statements, any precision ---------- *)
(* the domain: resolution between 2^elo and 2^ehi, both bounds at most K = 2^eK cells away from zero *)
Definition fl_domain (r lo hi : R) : Prop :=
  bpow radix2 elo <= r <= bpow radix2 ehi /\
  Rabs lo <= bpow radix2 eK * r /\ Rabs hi <= bpow radix2 eK * r.

(* the rounding slack of the centre statements: 16 u * max(|lo|,|hi|,r) + 16 u * r, i.e.
   8 eps * max(|lo|,|hi|,r) + 8 eps * r with eps = 2 u the machine epsilon: the tolerance of the oracle in checks/C13.py *)
Definition fl_tol (r lo hi : R) : R :=
  bpow radix2 (4 - prec) * Rmax (Rmax (Rabs lo) (Rabs hi)) r + bpow radix2 (4 - prec) * r.

Section Public.
Variables r lo hi : R.
Hypothesis D : fl_domain r lo hi.

Local Notation A := (Rmax (Rabs lo) (Rabs hi)).
Local Notation org := (gm_origin Ops r lo).

Lemma D1 : bpow radix2 elo <= r. Proof. exact (proj1 (proj1 D)). Qed.
Lemma D2 : r <= bpow radix2 ehi. Proof. exact (proj2 (proj1 D)). Qed.
Lemma DL : Rabs lo <= A. Proof. apply Rmax_l. Qed.
Lemma DH : Rabs hi <= A. Proof. apply Rmax_r. Qed.
Lemma DA : A <= K * r.
Proof. pose proof D as (_ & L & H). apply Rmax_lub; assumption. Qed.

Lemma tol_ge c1 c2 : 0 <= c1 <= 16 -> 0 <= c2 <= 32 - c1 -> u * (c1 * A + c2 * r) <= fl_tol r lo hi.
Proof.
  intros H1 H2. unfold fl_tol. replace (bpow radix2 (4 - prec)) with (16 * u).
  2:{ unfold fl_u. replace (4 - prec)%Z with (4 + - prec)%Z by lia. rewrite bpow_plus. simpl. lra. }
  pose proof (r_pos r D1) as Hr. pose proof (A_nonneg lo A DL) as HA. pose proof u_pos.
  pose proof (Rmax_l A r) as M1. pose proof (Rmax_r A r) as M2. set (M := Rmax A r) in *.
  assert (c1 * A + c2 * r <= 16 * M + 16 * r); [|nra].
  destruct (Rle_or_lt A r); nra.
Qed.

Theorem index_in_bounds_gen p : lo <= p <= hi -> (0 <= gm_index Ops r org p < gm_ncells Ops r lo hi)%Z.
Proof. exact (index_in_bounds_fl r lo hi A D1 DL DH DA p). Qed.

Theorem ncells_gen : gm_ncells Ops r lo hi = (fl_C r hi - fl_F r lo + 1)%Z.
Proof. exact (ncells_eq r lo hi A D1 DL DH DA). Qed.

Theorem ncells_positive_gen : lo <= hi -> (1 <= gm_ncells Ops r lo hi)%Z.
Proof. exact (ncells_ge_1 r lo hi A D1 DL DH DA). Qed.

Theorem margin_gen p : lo <= p <= hi ->
  1 / 2 - 7 * kap <= rnd (rnd (p - org) / r) <= IZR (gm_ncells Ops r lo hi) - 1 / 2 + 7 * kap.
Proof.
  intros Hp. rewrite ncells_gen, plus_IZR, minus_IZR.
  pose proof (q_margin r lo hi A D1 DL DH DA p Hp). lra.
Qed.

Theorem point_near_centre_gen p : lo <= p <= hi ->
  Rabs (p - gm_centre Ops r org (gm_index Ops r org p)) <= r / 2 + fl_tol r lo hi.
Proof.
  intros Hp. eapply Rle_trans; [exact (point_near_centre_fl r lo hi A D1 DL DH DA p Hp)|].
  apply Rplus_le_compat_l. apply tol_ge; lra.
Qed.

(* the same in relative terms *)
Theorem point_near_centre_rel_gen p : lo <= p <= hi ->
  Rabs (p - gm_centre Ops r org (gm_index Ops r org p)) <= r / 2 + 10 * kap * r.
Proof.
  intros Hp. eapply Rle_trans; [exact (point_near_centre_fl r lo hi A D1 DL DH DA p Hp)|].
  apply Rplus_le_compat_l.
  pose proof (uA_le r A DA). pose proof (ur_le r D1). pose proof (kr_pos r D1). lra.
Qed.

Theorem centre_index_gen k : (0 <= k < gm_ncells Ops r lo hi)%Z -> gm_index Ops r org (gm_centre Ops r org k) = k.
Proof. rewrite ncells_gen. intros Hk. apply (centre_index r lo hi A D1 DL DH DA k). lia. Qed.

Theorem centres_spaced_gen k : (0 <= k)%Z -> (k + 1 < gm_ncells Ops r lo hi)%Z ->
  Rabs (gm_centre Ops r org (k + 1) - gm_centre Ops r org k - r) <= fl_tol r lo hi.
Proof.
  rewrite ncells_gen. intros H0 H1.
  eapply Rle_trans; [apply (spacing_err r lo hi A D1 DL DH DA k H0); lia|].
  apply Rle_trans with (u * (6 * A + 11 * r)); [|apply tol_ge; lra].
  pose proof (eta_r r D1). pose proof (r_pos r D1). pose proof u_pos. nra.
Qed.

Theorem cover_gen : lo <= hi ->
  gm_centre Ops r org 0 - r / 2 <= lo /\ hi <= gm_centre Ops r org (gm_ncells Ops r lo hi - 1) + r / 2.
Proof.
  intros Hlh. split.
  - exact (cover_low r lo hi A D1 DL DH DA Hlh).
  - exact (cover_high r lo hi A D1 DL DH DA Hlh).
Qed.

(* no overflow: the exact result of every arithmetic operation of the constructor, of computeCellIndexes(p), of the
   centre table entry k and of computeCellIndexes(centre k) is at most 2^(ehi+eK+2) in magnitude *)
Theorem no_overflow_gen p k : lo <= p <= hi -> (0 <= k < gm_ncells Ops r lo hi)%Z ->
  let F := fl_F r lo in let C := fl_C r hi in
  let m := rnd ((IZR k + 1 / 2) * r) in let c := gm_centre Ops r org k in
  Forall (fun x => Rabs x <= bpow radix2 (ehi + eK + 2))
    (lo / r :: hi / r :: IZR F - 1 / 2 :: r * (IZR F - 1 / 2) :: IZR C - IZR F :: IZR (C - F) + 1 ::
     p - org :: rnd (p - org) / r ::
     IZR k + 1 / 2 :: (IZR k + 1 / 2) * r :: org + m :: c - org :: rnd (c - org) / r :: nil).
Proof.
  rewrite ncells_gen. intros Hp Hk. cbv zeta.
  assert (Hk' : (0 <= k <= fl_C r hi - fl_F r lo)%Z) by lia.
  destruct (no_overflow_grid r lo hi A D1 D2 DL DH DA) as (G1 & G2 & G3 & G4 & G5 & G6).
  destruct (no_overflow_point r lo hi A D1 D2 DL DH DA p Hp) as (P1 & P2).
  destruct (no_overflow_centre r lo hi A D1 D2 DL DH DA k Hk') as (C1 & C2 & C3 & C4 & C5).
  repeat (apply Forall_cons; [assumption|]). apply Forall_nil.
Qed.
End Public.
End Analysis.
End Format.

(* ====================================================================================================
   binary64: prec = 53, emin = -1074;  K = 2^40, 2^-900 <= r <= 2^900
   binary32: prec = 24, emin = -149;   K = 2^20, 2^-100 <= r <= 2^100
   ==================================================================================================== *)
Local Instance prec53 : Prec_gt_0 53.
Proof. now unfold Prec_gt_0. Qed.
Local Instance prec24 : Prec_gt_0 24.
Proof. now unfold Prec_gt_0. Qed.

Definition rnd64 : R -> R := frnd 53 (-1074).
Definition b64 : R -> Prop := ffmt 53 (-1074).
Definition B64Ops : NumOps R := FlOps 53 (-1074).
Definition rnd32 : R -> R := frnd 24 (-149).
Definition b32 : R -> Prop := ffmt 24 (-149).
Definition B32Ops : NumOps R := FlOps 24 (-149).

(* binary64 domain.  Why these numbers: with |lo/r|, |hi/r| <= 2^40 each of the six roundings between the inputs and
   the truncated quotient moves it by at most about 2^-53 * 2^41 cells, far below the half-cell margin of the exact
   analysis; r >= 2^-900 keeps the absolute error of a possibly subnormal result (2^-1075) negligible against r;
   r <= 2^900 keeps every intermediate below 2^942 (no overflow). *)
Definition gmf_domain (r lo hi : R) : Prop := fl_domain 40 (-900) 900 r lo hi.
Definition gmf_tol (r lo hi : R) : R := fl_tol 53 r lo hi.
(* binary32 domain: |lo/r|, |hi/r| <= 2^20 (the error scale is then 2^-24 * 2^20 = 1/16 of a cell per rounding:
   the half-cell margin shrinks to 1/16 but survives) *)
Definition gmf_domain32 (r lo hi : R) : Prop := fl_domain 20 (-100) 100 r lo hi.
Definition gmf_tol32 (r lo hi : R) : R := fl_tol 24 r lo hi.

(* boxes that are easy to check; both contain the envelope of the property (r in [1e-3, 10], bounds in [-1e3, 1e3]) *)
Lemma gmf_domain_box r lo hi :
  bpow radix2 (-20) <= r <= bpow radix2 20 -> Rabs lo <= bpow radix2 20 -> Rabs hi <= bpow radix2 20 ->
  gmf_domain r lo hi.
Proof.
  intros [R1 R2] L H.
  assert (E1 : bpow radix2 (-20) = / 1048576) by (simpl; lra).
  assert (E2 : bpow radix2 20 = 1048576) by (simpl; lra).
  assert (E3 : bpow radix2 40 = 1099511627776) by (simpl; lra).
  unfold gmf_domain, fl_domain. rewrite E3. rewrite E1 in *. rewrite E2 in *. repeat split; try lra.
  - eapply Rle_trans; [|exact R1]. rewrite <- E1. apply bpow_le. lia.
  - eapply Rle_trans; [exact R2|]. rewrite <- E2. apply bpow_le. lia.
Qed.

Lemma gmf_domain32_box r lo hi :
  bpow radix2 (-10) <= r <= bpow radix2 10 -> Rabs lo <= bpow radix2 10 -> Rabs hi <= bpow radix2 10 ->
  gmf_domain32 r lo hi.
Proof.
  intros [R1 R2] L H.
  assert (E1 : bpow radix2 (-10) = / 1024) by (simpl; lra).
  assert (E2 : bpow radix2 10 = 1024) by (simpl; lra).
  assert (E3 : bpow radix2 20 = 1048576) by (simpl; lra).
  unfold gmf_domain32, fl_domain. rewrite E3. rewrite E1 in *. rewrite E2 in *. repeat split; try lra.
  - eapply Rle_trans; [|exact R1]. rewrite <- E1. apply bpow_le. lia.
  - eapply Rle_trans; [exact R2|]. rewrite <- E2. apply bpow_le. lia.
Qed.

Lemma kap64 : fl_kap 53 40 = / 8192.
Proof. unfold fl_kap. simpl. lra. Qed.
Lemma kap32 : fl_kap 24 20 = / 16.
Proof. unfold fl_kap. simpl. lra. Qed.

Ltac inst64 L D := eapply (L 53%Z (-1074)%Z _ 40%Z (-900)%Z 900%Z); try lia; try exact D; eassumption.
Ltac inst32 L D := eapply (L 24%Z (-149)%Z _ 20%Z (-100)%Z 100%Z); try lia; try exact D; eassumption.

Section B64.
Variables r lo hi : R.
Hypothesis D : gmf_domain r lo hi.
Local Notation org := (gm_origin B64Ops r lo).

Theorem index_in_bounds_b64 p : lo <= p <= hi -> (0 <= gm_index B64Ops r org p < gm_ncells B64Ops r lo hi)%Z.
Proof. intros Hp. inst64 index_in_bounds_gen D. Qed.

Theorem ncells_b64 : gm_ncells B64Ops r lo hi = (Zceil (rnd64 (hi / r)) - Zfloor (rnd64 (lo / r)) + 1)%Z.
Proof. inst64 ncells_gen D. Qed.

Theorem ncells_positive_b64 : lo <= hi -> (1 <= gm_ncells B64Ops r lo hi)%Z.
Proof. intros Hlh. inst64 ncells_positive_gen D. Qed.

Theorem quarter_margin_b64 p : lo <= p <= hi ->
  1 / 4 <= rnd64 (rnd64 (p - org) / r) <= IZR (gm_ncells B64Ops r lo hi) - 1 / 4.
Proof.
  intros Hp. assert (M := margin_gen 53 (-1074) 40 (-900) 900).
  specialize (M ltac:(lia) ltac:(lia) ltac:(lia) ltac:(lia) r lo hi D p Hp).
  rewrite kap64 in M. unfold rnd64, B64Ops. lra.
Qed.

Theorem point_near_centre_b64 p : lo <= p <= hi ->
  Rabs (p - gm_centre B64Ops r org (gm_index B64Ops r org p)) <= r / 2 + gmf_tol r lo hi.
Proof. intros Hp. inst64 point_near_centre_gen D. Qed.

Theorem point_near_centre_rel_b64 p : lo <= p <= hi ->
  Rabs (p - gm_centre B64Ops r org (gm_index B64Ops r org p)) <= r / 2 + bpow radix2 (-9) * r.
Proof.
  intros Hp. assert (M := point_near_centre_rel_gen 53 (-1074) 40 (-900) 900).
  specialize (M ltac:(lia) ltac:(lia) ltac:(lia) ltac:(lia) r lo hi D p Hp).
  rewrite kap64 in M. replace (bpow radix2 (-9)) with (/ 512) by (simpl; lra).
  assert (0 < r). { eapply Rlt_le_trans; [apply (bpow_gt_0 radix2 (-900))|exact (proj1 (proj1 D))]. }
  unfold B64Ops. lra.
Qed.

Theorem centre_index_b64 k : (0 <= k < gm_ncells B64Ops r lo hi)%Z -> gm_index B64Ops r org (gm_centre B64Ops r org k) = k.
Proof. intros Hk. inst64 centre_index_gen D. Qed.

Theorem centres_spaced_b64 k : (0 <= k)%Z -> (k + 1 < gm_ncells B64Ops r lo hi)%Z ->
  Rabs (gm_centre B64Ops r org (k + 1) - gm_centre B64Ops r org k - r) <= gmf_tol r lo hi.
Proof. intros H0 H1. inst64 centres_spaced_gen D. Qed.

Theorem cover_b64 : lo <= hi ->
  gm_centre B64Ops r org 0 - r / 2 <= lo /\ hi <= gm_centre B64Ops r org (gm_ncells B64Ops r lo hi - 1) + r / 2.
Proof. intros Hlh. inst64 cover_gen D. Qed.

Theorem no_overflow_b64 p k : lo <= p <= hi -> (0 <= k < gm_ncells B64Ops r lo hi)%Z ->
  let F := Zfloor (rnd64 (lo / r)) in let C := Zceil (rnd64 (hi / r)) in
  let m := rnd64 ((IZR k + 1 / 2) * r) in let c := gm_centre B64Ops r org k in
  Forall (fun x => Rabs x <= bpow radix2 1000)
    (lo / r :: hi / r :: IZR F - 1 / 2 :: r * (IZR F - 1 / 2) :: IZR C - IZR F :: IZR (C - F) + 1 ::
     p - org :: rnd64 (p - org) / r ::
     IZR k + 1 / 2 :: (IZR k + 1 / 2) * r :: org + m :: c - org :: rnd64 (c - org) / r :: nil).
Proof.
  intros Hp Hk. assert (M := no_overflow_gen 53 (-1074) 40 (-900) 900).
  specialize (M ltac:(lia) ltac:(lia) ltac:(lia) ltac:(lia) ltac:(lia) r lo hi D p k Hp Hk).
  cbv zeta in *. eapply Forall_impl; [|exact M].
  intros x Hx. eapply Rle_trans; [exact Hx|]. apply bpow_le. lia.
Qed.
End B64.

Section B32.
Variables r lo hi : R.
Hypothesis D : gmf_domain32 r lo hi.
Local Notation org := (gm_origin B32Ops r lo).

Theorem index_in_bounds_b32 p : lo <= p <= hi -> (0 <= gm_index B32Ops r org p < gm_ncells B32Ops r lo hi)%Z.
Proof. intros Hp. inst32 index_in_bounds_gen D. Qed.

Theorem ncells_b32 : gm_ncells B32Ops r lo hi = (Zceil (rnd32 (hi / r)) - Zfloor (rnd32 (lo / r)) + 1)%Z.
Proof. inst32 ncells_gen D. Qed.

Theorem ncells_positive_b32 : lo <= hi -> (1 <= gm_ncells B32Ops r lo hi)%Z.
Proof. intros Hlh. inst32 ncells_positive_gen D. Qed.

Theorem margin_b32 p : lo <= p <= hi ->
  1 / 16 <= rnd32 (rnd32 (p - org) / r) <= IZR (gm_ncells B32Ops r lo hi) - 1 / 16.
Proof.
  intros Hp. assert (M := margin_gen 24 (-149) 20 (-100) 100).
  specialize (M ltac:(lia) ltac:(lia) ltac:(lia) ltac:(lia) r lo hi D p Hp).
  rewrite kap32 in M. unfold rnd32, B32Ops. lra.
Qed.

Theorem point_near_centre_b32 p : lo <= p <= hi ->
  Rabs (p - gm_centre B32Ops r org (gm_index B32Ops r org p)) <= r / 2 + gmf_tol32 r lo hi.
Proof. intros Hp. inst32 point_near_centre_gen D. Qed.

Theorem centre_index_b32 k : (0 <= k < gm_ncells B32Ops r lo hi)%Z -> gm_index B32Ops r org (gm_centre B32Ops r org k) = k.
Proof. intros Hk. inst32 centre_index_gen D. Qed.

Theorem centres_spaced_b32 k : (0 <= k)%Z -> (k + 1 < gm_ncells B32Ops r lo hi)%Z ->
  Rabs (gm_centre B32Ops r org (k + 1) - gm_centre B32Ops r org k - r) <= gmf_tol32 r lo hi.
Proof. intros H0 H1. inst32 centres_spaced_gen D. Qed.

Theorem cover_b32 : lo <= hi ->
  gm_centre B32Ops r org 0 - r / 2 <= lo /\ hi <= gm_centre B32Ops r org (gm_ncells B32Ops r lo hi - 1) + r / 2.
Proof. intros Hlh. inst32 cover_gen D. Qed.

(* the largest finite binary32 number is just under 2^128 *)
Theorem no_overflow_b32 p k : lo <= p <= hi -> (0 <= k < gm_ncells B32Ops r lo hi)%Z ->
  let F := Zfloor (rnd32 (lo / r)) in let C := Zceil (rnd32 (hi / r)) in
  let m := rnd32 ((IZR k + 1 / 2) * r) in let c := gm_centre B32Ops r org k in
  Forall (fun x => Rabs x <= bpow radix2 122)
    (lo / r :: hi / r :: IZR F - 1 / 2 :: r * (IZR F - 1 / 2) :: IZR C - IZR F :: IZR (C - F) + 1 ::
     p - org :: rnd32 (p - org) / r ::
     IZR k + 1 / 2 :: (IZR k + 1 / 2) * r :: org + m :: c - org :: rnd32 (c - org) / r :: nil).
Proof.
  intros Hp Hk. assert (M := no_overflow_gen 24 (-149) 20 (-100) 100).
  specialize (M ltac:(lia) ltac:(lia) ltac:(lia) ltac:(lia) ltac:(lia) r lo hi D p k Hp Hk).
  exact M.
Qed.
End B32.

(* ---------- a concrete grid: r = 1/2, extent [-10, 10], point 3 ---------- *)
Lemma ex_inputs_b64 : b64 (1 / 2) /\ b64 (-10) /\ b64 10 /\ b64 3.
Proof.
  unfold b64. repeat split.
  - apply (fmt_dyadic 53 (-1074) _ 1 (-1)); [simpl; lra|lia|lia].
  - apply (fmt_int 53 (-1074) (-10)); lia.
  - apply (fmt_int 53 (-1074) 10); lia.
  - apply (fmt_int 53 (-1074) 3); lia.
Qed.

Lemma ex_inputs_b32 : b32 (1 / 2) /\ b32 (-10) /\ b32 10 /\ b32 3.
Proof.
  unfold b32. repeat split.
  - apply (fmt_dyadic 24 (-149) _ 1 (-1)); [simpl; lra|lia|lia].
  - apply (fmt_int 24 (-149) (-10)); lia.
  - apply (fmt_int 24 (-149) 10); lia.
  - apply (fmt_int 24 (-149) 3); lia.
Qed.

Lemma ex_domain : gmf_domain (1 / 2) (-10) 10.
Proof.
  apply gmf_domain_box.
  - simpl. lra.
  - rewrite Rabs_left by lra. simpl. lra.
  - rewrite Rabs_pos_eq by lra. simpl. lra.
Qed.

Lemma ex_domain32 : gmf_domain32 (1 / 2) (-10) 10.
Proof.
  apply gmf_domain32_box.
  - simpl. lra.
  - rewrite Rabs_left by lra. simpl. lra.
  - rewrite Rabs_pos_eq by lra. simpl. lra.
Qed.

(* the values, for any precision >= 8 bits: origin -10.25, 41 cells, point 3 in cell 26, whose centre is 3 *)
Section ExValues.
Variables prec emin : Z.
Context {prec_gt_0_ : Prec_gt_0 prec}.
Hypothesis Hp : (8 <= prec)%Z.
Hypothesis He : (emin <= -2)%Z.
Local Notation rnd := (frnd prec emin).
Local Notation Ops := (FlOps prec emin).

Lemma ex_pow : (256 <= 2 ^ prec)%Z.
Proof. change 256%Z with (2 ^ 8)%Z. apply Z.pow_le_mono_r; lia. Qed.

Lemma ex_dy x m e : x = IZR m * bpow radix2 e -> (Z.abs m < 256)%Z -> (-2 <= e)%Z -> rnd x = x.
Proof. intros Hx Hm Hee. pose proof ex_pow. apply (rnd_dyadic prec emin x m e Hx); lia. Qed.

Lemma ex_F : fl_F prec emin (1 / 2) (-10) = (-20)%Z.
Proof.
  unfold fl_F, fl_div. replace (-10 / (1 / 2)) with (IZR (-20)) by lra.
  rewrite (ex_dy (IZR (-20)) (-20) 0) by (simpl; lra || lia). apply Zfloor_IZR.
Qed.

Lemma ex_C : fl_C prec emin (1 / 2) 10 = 20%Z.
Proof.
  unfold fl_C, fl_div. replace (10 / (1 / 2)) with (IZR 20) by lra.
  rewrite (ex_dy (IZR 20) 20 0) by (simpl; lra || lia). apply Zceil_IZR.
Qed.

Lemma ex_origin : gm_origin Ops (1 / 2) (-10) = -41 / 4.
Proof.
  rewrite origin_unf by lia. rewrite ex_F.
  rewrite (ex_dy (IZR (-20) - 1 / 2) (-41) (-1)) by (simpl; lra || lia).
  replace (1 / 2 * (IZR (-20) - 1 / 2)) with (-41 / 4) by lra.
  apply (ex_dy _ (-41) (-2)); simpl; lra || lia.
Qed.

Lemma ex_ncells : gm_ncells Ops (1 / 2) (-10) 10 = 41%Z.
Proof.
  rewrite ncells_unf, ex_F, ex_C. replace (IZR 20 - IZR (-20)) with (IZR 40) by lra.
  rewrite (ex_dy (IZR 40) 40 0) by (simpl; lra || lia).
  replace (IZR 40 + 1) with (IZR 41) by lra.
  rewrite (ex_dy (IZR 41) 41 0) by (simpl; lra || lia). apply Ztrunc_IZR.
Qed.

Lemma ex_index : gm_index Ops (1 / 2) (gm_origin Ops (1 / 2) (-10)) 3 = 26%Z.
Proof.
  rewrite ex_origin, index_unf0.
  replace (3 - -41 / 4) with (53 / 4) by lra.
  rewrite (ex_dy (53 / 4) 53 (-2)) by (simpl; lra || lia).
  replace (53 / 4 / (1 / 2)) with (53 / 2) by lra.
  rewrite (ex_dy (53 / 2) 53 (-1)) by (simpl; lra || lia).
  rewrite Ztrunc_floor by lra. apply Zfloor_imp. simpl. lra.
Qed.

Lemma ex_centre : gm_centre Ops (1 / 2) (gm_origin Ops (1 / 2) (-10)) 26 = 3.
Proof.
  rewrite ex_origin. rewrite centre_unf0 by lia.
  rewrite (ex_dy (IZR 26) 26 0) by (simpl; lra || lia).
  rewrite (ex_dy (IZR 26 + 1 / 2) 53 (-1)) by (simpl; lra || lia).
  replace ((IZR 26 + 1 / 2) * (1 / 2)) with (53 / 4) by lra.
  rewrite (ex_dy (53 / 4) 53 (-2)) by (simpl; lra || lia).
  replace (-41 / 4 + 53 / 4) with (IZR 3) by lra. apply (ex_dy _ 3 0); simpl; lra || lia.
Qed.

Lemma ex_values :
  gm_origin Ops (1 / 2) (-10) = -41 / 4 /\ gm_ncells Ops (1 / 2) (-10) 10 = 41%Z /\
  gm_index Ops (1 / 2) (gm_origin Ops (1 / 2) (-10)) 3 = 26%Z /\
  gm_centre Ops (1 / 2) (gm_origin Ops (1 / 2) (-10)) 26 = 3.
Proof. exact (conj ex_origin (conj ex_ncells (conj ex_index ex_centre))). Qed.
End ExValues.

Lemma ex_values_b64 :
  gm_origin B64Ops (1 / 2) (-10) = -41 / 4 /\ gm_ncells B64Ops (1 / 2) (-10) 10 = 41%Z /\
  gm_index B64Ops (1 / 2) (gm_origin B64Ops (1 / 2) (-10)) 3 = 26%Z /\
  gm_centre B64Ops (1 / 2) (gm_origin B64Ops (1 / 2) (-10)) 26 = 3.
Proof. apply (ex_values 53 (-1074)); lia. Qed.

Lemma ex_values_b32 :
  gm_origin B32Ops (1 / 2) (-10) = -41 / 4 /\ gm_ncells B32Ops (1 / 2) (-10) 10 = 41%Z /\
  gm_index B32Ops (1 / 2) (gm_origin B32Ops (1 / 2) (-10)) 3 = 26%Z /\
  gm_centre B32Ops (1 / 2) (gm_origin B32Ops (1 / 2) (-10)) 26 = 3.
Proof. apply (ex_values 24 (-149)); lia. Qed.
