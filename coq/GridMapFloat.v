(* GridMapFloat.v — C13 at the binary64 level.
   The SAME generic model (GridMapModel.v) is instantiated at a dictionary [B64Ops : NumOps R] whose arithmetic
   operations are the real operations followed by ONE rounding to nearest-even in binary64
   (Flocq: [round radix2 (FLT_exp (-1074) 53) ZnearestE]); floor/ceil/truncation of a double are exact.
   The format has no largest exponent: [gmf_no_overflow] shows that on the domain every intermediate stays far
   below 2^1024, so the unbounded-exponent model coincides with IEEE-754 binary64 there. *)
From Coq Require Import Reals ZArith List Lra Lia.
From Flocq Require Import Core Relative.
From Romea Require Import Num NumR GridMapModel.
Local Open Scope R_scope.

(* ---------- the format and the rounded operations ---------- *)
Definition b64_exp : Z -> Z := FLT_exp (-1074) 53.
Definition rnd (x : R) : R := round radix2 b64_exp ZnearestE x.
Definition b64 (x : R) : Prop := generic_format radix2 b64_exp x.

Definition fl_add (a b : R) : R := rnd (a + b).
Definition fl_sub (a b : R) : R := rnd (a - b).
Definition fl_mul (a b : R) : R := rnd (a * b).
Definition fl_div (a b : R) : R := rnd (a / b).

(* the numeric dictionary: +,-,*,/ and integer->double round once; negation, |.|, floor, ceil, truncation and the
   comparisons are exact on doubles; the transcendental entries (not used by the grid model) are idealised as
   correctly rounded *)
Definition B64Ops : NumOps R := {|
  nzero := 0; n_one := 1;
  nadd := fl_add; nsub := fl_sub; nmul := fl_mul; ndiv := fl_div;
  nneg := Ropp; nabs := Rabs; nsqrt := fun x => rnd (sqrt x);
  nsin := fun x => rnd (sin x); ncos := fun x => rnd (cos x); ntan := fun x => rnd (sin x / cos x);
  natan := fun x => rnd (atan x); nasin := fun x => rnd (asin x); nacos := fun x => rnd (acos x);
  nexp := fun x => rnd (exp x); nln := fun x => rnd (ln x);
  natan2 := fun y x => rnd (Ratan2 y x); npow := fun x y => rnd (Rpower x y); nfmod := Rfmod;
  nfloor := fun x => IZR (Zfloor x); nceil := fun x => IZR (Zceil x);
  ntruncZ := Ztrunc; nofZ := fun k => rnd (IZR k);
  nofDec := fun m e => rnd (IZR m * powerRZ 10 e);
  npi := rnd PI;
  nmaxval := (2 - powerRZ 2 (-52)) * powerRZ 2 1023;
  nminpos := powerRZ 2 (-1022);
  nepsilon := powerRZ 2 (-52);
  nltb := Rltb; nleb := Rleb; neqb := Reqb
|}.

(* the four quantities of GridIndexMapping.cpp, one rounding per C++ operation, C++ evaluation order *)
Definition gmf_origin (r lo : R) : R := gm_origin B64Ops r lo.
Definition gmf_ncells (r lo hi : R) : Z := gm_ncells B64Ops r lo hi.
Definition gmf_index (r org p : R) : Z := gm_index B64Ops r org p.
Definition gmf_centre (r org : R) (k : Z) : R := gm_centre B64Ops r org k.

(* ---------- basic facts about rnd ---------- *)
Local Instance prec53 : Prec_gt_0 53.
Proof. now unfold Prec_gt_0. Qed.
Local Instance b64_valid : Valid_exp b64_exp := FLT_exp_valid (-1074) 53.

Definition u : R := / 9007199254740992.            (* 2^-53, the unit roundoff *)
Definition eta : R := bpow radix2 (-1075).          (* half the smallest subnormal *)

Lemma u_val : / 2 * bpow radix2 (-53 + 1) = u.
Proof. unfold u. simpl. lra. Qed.

Lemma eta_val : / 2 * bpow radix2 (-1074) = eta.
Proof. unfold eta. change (/ 2) with (bpow radix2 (-1)). rewrite <- bpow_plus. reflexivity. Qed.

Lemma eta_pos : 0 < eta.
Proof. apply bpow_gt_0. Qed.

Lemma bpow63 : bpow radix2 (-63) = u / 1024.
Proof. unfold u. simpl. lra. Qed.

Lemma eta_small : eta <= u / 1024.
Proof. rewrite <- bpow63. apply bpow_le. lia. Qed.

Lemma rnd_le x y : x <= y -> rnd x <= rnd y.
Proof. unfold rnd. apply round_le; auto with typeclass_instances. Qed.

Lemma rnd_id x : b64 x -> rnd x = x.
Proof. unfold rnd, b64. apply round_generic; auto with typeclass_instances. Qed.

Lemma b64_rnd x : b64 (rnd x).
Proof. unfold rnd, b64. apply generic_format_round; auto with typeclass_instances. Qed.

Lemma rnd_err x : Rabs (rnd x - x) <= u * Rabs x + eta.
Proof.
  destruct (error_N_FLT radix2 (-1074) 53 ltac:(lia) (fun z => negb (Z.even z)) x) as (eps & et & He & Ht & _ & Hx).
  assert (He' : Rabs eps <= u) by (rewrite <- u_val; exact He).
  assert (Ht' : Rabs et <= eta) by (rewrite <- eta_val; exact Ht).
  clear He Ht.
  assert (Hx' : rnd x = x * (1 + eps) + et) by exact Hx. rewrite Hx'.
  replace (x * (1 + eps) + et - x) with (x * eps + et) by ring.
  eapply Rle_trans; [apply Rabs_triang|]. rewrite Rabs_mult.
  pose proof (Rabs_pos x). nra.
Qed.

Lemma err_bound x B : Rabs x <= B -> - (u * B + eta) <= rnd x - x <= u * B + eta.
Proof.
  intros H. pose proof (rnd_err x) as E. apply Rabs_le_inv.
  eapply Rle_trans; [exact E|]. assert (0 < u) by (unfold u; lra). nra.
Qed.

Lemma div_err_bound r x B : 0 < r -> Rabs x <= B ->
  - (u * B + eta * r) <= r * rnd (x / r) - x <= u * B + eta * r.
Proof.
  intros Hr H. pose proof (rnd_err (x / r)) as E.
  assert (Hd : Rabs (x / r) = Rabs x / r).
  { unfold Rdiv. rewrite Rabs_mult, (Rabs_pos_eq (/ r)); [reflexivity|]. left. apply Rinv_0_lt_compat, Hr. }
  rewrite Hd in E.
  replace (r * rnd (x / r) - x) with (r * (rnd (x / r) - x / r)) by (field; lra).
  apply Rabs_le_inv. rewrite Rabs_mult, (Rabs_pos_eq r) by lra.
  apply Rle_trans with (r * (u * (Rabs x / r) + eta)).
  - apply Rmult_le_compat_l; lra.
  - replace (r * (u * (Rabs x / r) + eta)) with (u * Rabs x + eta * r) by (field; lra).
    assert (0 < u) by (unfold u; lra). nra.
Qed.

Lemma rnd_abs_le x y : b64 y -> Rabs x <= y -> Rabs (rnd x) <= y.
Proof. unfold rnd, b64. apply abs_round_le_generic; auto with typeclass_instances. Qed.

Lemma b64_int k : (Z.abs k < 2 ^ 53)%Z -> b64 (IZR k).
Proof.
  intros H. apply generic_format_FLT. exists (Float radix2 k 0); cbn [Fnum Fexp].
  - unfold F2R; cbn [Fnum Fexp bpow]. ring.
  - exact H.
  - lia.
Qed.

Lemma b64_int_half k : (Z.abs (2 * k + 1) < 2 ^ 53)%Z -> b64 (IZR k + 1 / 2).
Proof.
  intros H. apply generic_format_FLT. exists (Float radix2 (2 * k + 1) (-1)); cbn [Fnum Fexp].
  - unfold F2R; cbn [Fnum Fexp]. change (bpow radix2 (-1)) with (/ 2). rewrite plus_IZR, mult_IZR. lra.
  - exact H.
  - lia.
Qed.

Lemma b64_int_mhalf k : (Z.abs (2 * k - 1) < 2 ^ 53)%Z -> b64 (IZR k - 1 / 2).
Proof.
  intros H. replace (IZR k - 1 / 2) with (IZR (k - 1) + 1 / 2) by (rewrite minus_IZR; lra).
  apply b64_int_half. replace (2 * (k - 1) + 1)%Z with (2 * k - 1)%Z by lia. exact H.
Qed.

Lemma nhalf_b64 : nhalf B64Ops = 1 / 2.
Proof.
  unfold nhalf, ntwo. cbn [ndiv nadd n_one B64Ops]. unfold fl_div, fl_add.
  replace (1 + 1) with (IZR 2) by (simpl; lra). rewrite (rnd_id (IZR 2)) by (apply b64_int; lia).
  replace (1 / IZR 2) with (IZR 0 + 1 / 2) by (simpl; lra). apply rnd_id. apply b64_int_half. lia.
Qed.

(* ---------- the model, unfolded ---------- *)
Definition gmf_F (r lo : R) : Z := Zfloor (fl_div lo r).     (* floor(lower / r), as an integer *)
Definition gmf_C (r hi : R) : Z := Zceil (fl_div hi r).      (* ceil(upper / r) *)

Lemma gmf_origin_unf r lo : gmf_origin r lo = rnd (r * rnd (IZR (gmf_F r lo) - 1 / 2)).
Proof. unfold gmf_origin, gm_origin. rewrite nhalf_b64. reflexivity. Qed.

Lemma gmf_ncells_unf r lo hi :
  gmf_ncells r lo hi = Ztrunc (rnd (rnd (IZR (gmf_C r hi) - IZR (gmf_F r lo)) + 1)).
Proof. reflexivity. Qed.

Lemma gmf_index_unf r org p : gmf_index r org p = Ztrunc (rnd (rnd (p - org) / r)).
Proof. reflexivity. Qed.

Lemma gmf_centre_unf r org k : gmf_centre r org k = rnd (org + rnd (rnd (rnd (IZR k) + 1 / 2) * r)).
Proof. unfold gmf_centre, gm_centre. rewrite nhalf_b64. reflexivity. Qed.

Lemma div_le_l a b c : 0 < c -> a <= b * c -> a / c <= b.
Proof.
  intros Hc H. apply Rmult_le_reg_r with c; [exact Hc|].
  unfold Rdiv. rewrite Rmult_assoc, Rinv_l by lra. lra.
Qed.

Lemma div_ge_l a b c : 0 < c -> b * c <= a -> b <= a / c.
Proof.
  intros Hc H. apply Rmult_le_reg_r with c; [exact Hc|].
  unfold Rdiv. rewrite Rmult_assoc, Rinv_l by lra. lra.
Qed.

Definition K40 : R := 1099511627776.          (* 2^40 *)

Lemma K40_bpow : bpow radix2 40 = K40.
Proof. unfold K40. simpl. lra. Qed.

Lemma b64_K40 : b64 K40.
Proof. unfold K40. apply (b64_int 1099511627776). lia. Qed.

(* ---------- one axis: error analysis ----------
   A bounds |lo| and |hi|; the extent is at most 2^40 cells away from 0 on either side. *)
Section Axis.
Variables r lo hi A : R.
Hypothesis Hrlo : bpow radix2 (-900) <= r.
Hypothesis Hrhi : r <= bpow radix2 900.      (* used only by the no-overflow lemmas *)
Hypothesis HloA : Rabs lo <= A.
Hypothesis HhiA : Rabs hi <= A.
Hypothesis HAr : A <= K40 * r.
Hypothesis Hlh : lo <= hi.

Local Notation F := (gmf_F r lo).
Local Notation C := (gmf_C r hi).
Local Notation ql := (rnd (lo / r)).
Local Notation qh := (rnd (hi / r)).
Local Notation org := (gmf_origin r lo).

Lemma r_pos : 0 < r.
Proof. eapply Rlt_le_trans; [apply (bpow_gt_0 radix2 (-900))|exact Hrlo]. Qed.

Lemma eta_r : eta <= u / 1024 * r.
Proof.
  unfold eta. replace (-1075)%Z with (-63 + -1012)%Z by lia. rewrite bpow_plus, bpow63.
  apply Rmult_le_compat_l; [unfold u; lra|].
  eapply Rle_trans; [|exact Hrlo]. apply bpow_le. lia.
Qed.

Lemma etar_r : eta * r <= u / 1024 * r.
Proof. apply Rmult_le_compat_r; [left; exact r_pos|exact eta_small]. Qed.

Lemma A_nonneg : 0 <= A.
Proof. eapply Rle_trans; [apply (Rabs_pos lo)|exact HloA]. Qed.

Lemma lo_box : - A <= lo <= A.
Proof. apply Rabs_le_inv, HloA. Qed.

Lemma hi_box : - A <= hi <= A.
Proof. apply Rabs_le_inv, HhiA. Qed.

Ltac fin :=
  pose proof r_pos; pose proof eta_r; pose proof etar_r; pose proof eta_pos; pose proof A_nonneg;
  pose proof lo_box; pose proof hi_box; pose proof HAr; unfold u, K40 in *; lra.

Lemma ql_err : - (u * A + eta * r) <= r * ql - lo <= u * A + eta * r.
Proof. exact (div_err_bound r lo A r_pos HloA). Qed.

Lemma qh_err : - (u * A + eta * r) <= r * qh - hi <= u * A + eta * r.
Proof. exact (div_err_bound r hi A r_pos HhiA). Qed.

Lemma quot_abs x : Rabs x <= A -> Rabs (rnd (x / r)) <= K40.
Proof.
  intros Hx. apply rnd_abs_le; [exact b64_K40|]. apply Rabs_le_inv in Hx. pose proof r_pos.
  apply Rabs_le. split.
  - apply div_ge_l; [assumption|]. fin.
  - apply div_le_l; [assumption|]. fin.
Qed.

Lemma F_box : (-1099511627776 <= F <= 1099511627776)%Z.
Proof.
  pose proof (quot_abs lo HloA) as H. apply Rabs_le_inv in H. unfold K40 in H. unfold gmf_F, fl_div. split.
  - apply Zfloor_lub. lra.
  - apply le_IZR. pose proof (Zfloor_lb ql). lra.
Qed.

Lemma C_box : (-1099511627776 <= C <= 1099511627776)%Z.
Proof.
  pose proof (quot_abs hi HhiA) as H. apply Rabs_le_inv in H. unfold K40 in H. unfold gmf_C, fl_div. split.
  - apply le_IZR. pose proof (Zceil_ub qh). lra.
  - apply Zceil_glb. lra.
Qed.

Lemma F_le_C : (F <= C)%Z.
Proof.
  unfold gmf_F, gmf_C, fl_div. apply le_IZR.
  pose proof (Zfloor_lb ql). pose proof (Zceil_ub qh).
  assert (ql <= qh); [|lra]. apply rnd_le. pose proof r_pos.
  apply Rmult_le_compat_r; [left; apply Rinv_0_lt_compat; assumption|exact Hlh].
Qed.

(* r*F and r*C against the bounds *)
Lemma rF_bounds : lo - (u * A + eta * r) - r <= r * IZR F <= lo + (u * A + eta * r).
Proof.
  pose proof ql_err as E. pose proof r_pos as Hr. unfold gmf_F, fl_div.
  pose proof (Zfloor_lb ql) as L. pose proof (Zfloor_ub ql) as U.
  assert (r * IZR (Zfloor ql) <= r * ql) by (apply Rmult_le_compat_l; lra).
  assert (r * ql <= r * (IZR (Zfloor ql) + 1)) by (apply Rmult_le_compat_l; lra).
  lra.
Qed.

Lemma rC_bounds : hi - (u * A + eta * r) <= r * IZR C <= hi + (u * A + eta * r) + r.
Proof.
  pose proof qh_err as E. pose proof r_pos as Hr. unfold gmf_C, fl_div.
  pose proof (Zceil_ub qh) as L. pose proof (Zceil_lb qh) as U.
  assert (r * qh <= r * IZR (Zceil qh)) by (apply Rmult_le_compat_l; lra).
  assert (r * IZR (Zceil qh) <= r * (qh + 1)) by (apply Rmult_le_compat_l; lra).
  lra.
Qed.

Lemma rF_le_rC : r * IZR F <= r * IZR C.
Proof. apply Rmult_le_compat_l; [left; exact r_pos|]. apply IZR_le, F_le_C. Qed.

(* floor(lo/r) - 0.5 is computed exactly *)
Lemma Fh_exact : rnd (IZR F - 1 / 2) = IZR F - 1 / 2.
Proof. apply rnd_id, b64_int_mhalf. pose proof F_box. lia. Qed.

Lemma org_err :
  - (u * (A + 2 * r) + eta) <= org - (r * IZR F - r / 2) <= u * (A + 2 * r) + eta.
Proof.
  rewrite gmf_origin_unf, Fh_exact.
  replace (r * IZR F - r / 2) with (r * (IZR F - 1 / 2)) by field.
  apply err_bound. pose proof rF_bounds. apply Rabs_le. split; fin.
Qed.

(* magnitudes: everything stays below 2^1000 (the largest finite double is just under 2^1024) *)
Lemma big_ok x : Rabs x <= 2 * A + 5 * r -> Rabs x <= bpow radix2 1000.
Proof.
  intros H. eapply Rle_trans; [exact H|]. apply Rle_trans with (bpow radix2 42 * bpow radix2 900).
  - replace (bpow radix2 42) with 4398046511104 by (simpl; lra). fin.
  - rewrite <- bpow_plus. apply bpow_le. lia.
Qed.

Lemma ratio_ok x : Rabs x <= 4 * K40 -> Rabs x <= bpow radix2 1000.
Proof.
  intros H. eapply Rle_trans; [exact H|]. apply Rle_trans with (bpow radix2 42).
  - replace (bpow radix2 42) with 4398046511104 by (simpl; lra). unfold K40. lra.
  - apply bpow_le. lia.
Qed.

Lemma ratio_bound x : Rabs x <= 2 * A + 5 * r -> Rabs (x / r) <= 4 * K40.
Proof.
  intros H. apply Rabs_le_inv in H. pose proof r_pos. apply Rabs_le. split.
  - apply div_ge_l; [assumption|]. fin.
  - apply div_le_l; [assumption|]. fin.
Qed.

Lemma no_overflow_grid :
  Rabs (lo / r) <= bpow radix2 1000 /\ Rabs (hi / r) <= bpow radix2 1000 /\
  Rabs (IZR F - 1 / 2) <= bpow radix2 1000 /\ Rabs (r * (IZR F - 1 / 2)) <= bpow radix2 1000 /\
  Rabs (IZR C - IZR F) <= bpow radix2 1000 /\ Rabs (IZR (C - F) + 1) <= bpow radix2 1000.
Proof.
  pose proof F_box as HF. pose proof C_box as HC. pose proof rF_bounds.
  assert (-1099511627776 <= IZR F <= 1099511627776) by (split; apply IZR_le; lia).
  assert (-1099511627776 <= IZR C <= 1099511627776) by (split; apply IZR_le; lia).
  repeat split.
  - apply ratio_ok, ratio_bound. eapply Rle_trans; [exact HloA|]. fin.
  - apply ratio_ok, ratio_bound. eapply Rle_trans; [exact HhiA|]. fin.
  - apply ratio_ok, Rabs_le. unfold K40. lra.
  - apply big_ok, Rabs_le. split; fin.
  - apply ratio_ok, Rabs_le. unfold K40. lra.
  - rewrite minus_IZR. apply ratio_ok, Rabs_le. unfold K40. lra.
Qed.

(* the cell count is computed exactly *)
Lemma ncells_eq : gmf_ncells r lo hi = (C - F + 1)%Z.
Proof.
  rewrite gmf_ncells_unf. pose proof F_box. pose proof C_box.
  rewrite <- minus_IZR, (rnd_id (IZR (C - F))) by (apply b64_int; lia).
  rewrite <- (plus_IZR _ 1), (rnd_id (IZR (C - F + 1))) by (apply b64_int; lia).
  apply Ztrunc_IZR.
Qed.

Lemma ncells_ge_1 : (1 <= gmf_ncells r lo hi)%Z.
Proof. rewrite ncells_eq. pose proof F_le_C. lia. Qed.

(* ---- a cell centre, 0 <= k <= n-1 = C - F ---- *)
Section Centre.
Variable k : Z.
Hypothesis Hk : (0 <= k <= C - F)%Z.

Local Notation m := (rnd ((IZR k + 1 / 2) * r)).
Local Notation c := (gmf_centre r org k).

Lemma kh_exact : rnd (rnd (IZR k) + 1 / 2) = IZR k + 1 / 2.
Proof.
  pose proof F_box. pose proof C_box.
  rewrite (rnd_id (IZR k)) by (apply b64_int; lia). apply rnd_id, b64_int_half. lia.
Qed.

Lemma rk_bounds : 0 <= r * IZR k <= r * IZR C - r * IZR F.
Proof.
  pose proof r_pos as Hr. destruct Hk as [H0 H1]. apply IZR_le in H0, H1. rewrite minus_IZR in H1. split.
  - apply Rmult_le_pos; lra.
  - replace (r * IZR C - r * IZR F) with (r * (IZR C - IZR F)) by ring. apply Rmult_le_compat_l; lra.
Qed.

Lemma m_err :
  - (u * (2 * A + 3 * r) + eta) <= m - (r * IZR k + r / 2) <= u * (2 * A + 3 * r) + eta.
Proof.
  replace (r * IZR k + r / 2) with ((IZR k + 1 / 2) * r) by field.
  apply err_bound. pose proof rk_bounds. pose proof rF_bounds. pose proof rC_bounds.
  apply Rabs_le. split; fin.
Qed.

Lemma centre_unf : c = rnd (org + m).
Proof. rewrite gmf_centre_unf, kh_exact. reflexivity. Qed.

Lemma c_err : - (u * (A + 2 * r) + eta) <= c - (org + m) <= u * (A + 2 * r) + eta.
Proof.
  rewrite centre_unf. apply err_bound.
  pose proof rk_bounds. pose proof rF_bounds. pose proof rC_bounds. pose proof org_err. pose proof m_err.
  apply Rabs_le. split; fin.
Qed.

(* centre(k) against the exact value org + (k + 1/2) r *)
Lemma centre_err :
  - (u * (3 * A + 5 * r) + 2 * eta) <= c - (org + r * IZR k + r / 2) <= u * (3 * A + 5 * r) + 2 * eta.
Proof. pose proof m_err. pose proof c_err. split; fin. Qed.

(* centre -> index -> centre *)
Lemma centre_index : gmf_index r org c = k.
Proof.
  rewrite gmf_index_unf.
  pose proof rk_bounds as Rk. pose proof rF_bounds as RF. pose proof rC_bounds as RC. pose proof centre_err as CE.
  assert (Bd : Rabs (c - org) <= 2 * A + 4 * r) by (apply Rabs_le; split; fin).
  pose proof (err_bound _ _ Bd) as D.
  assert (Bq : Rabs (rnd (c - org)) <= 2 * A + 5 * r) by (apply Rabs_le; split; fin).
  pose proof (div_err_bound r _ _ r_pos Bq) as Q.
  set (q := rnd (rnd (c - org) / r)) in *.
  assert (Q1 : r * (IZR k + 1 / 4) <= r * q) by fin.
  assert (Q2 : r * q <= r * (IZR k + 3 / 4)) by fin.
  pose proof r_pos as Hr.
  apply Rmult_le_reg_l in Q1; [|exact Hr]. apply Rmult_le_reg_l in Q2; [|exact Hr].
  assert (0 <= IZR k) by (apply IZR_le; lia).
  rewrite Ztrunc_floor by lra. apply Zfloor_imp. rewrite plus_IZR. lra.
Qed.

Lemma no_overflow_centre :
  Rabs (IZR k + 1 / 2) <= bpow radix2 1000 /\ Rabs ((IZR k + 1 / 2) * r) <= bpow radix2 1000 /\
  Rabs (org + m) <= bpow radix2 1000 /\
  Rabs (c - org) <= bpow radix2 1000 /\ Rabs (rnd (c - org) / r) <= bpow radix2 1000.
Proof.
  pose proof rk_bounds as Rk. pose proof rF_bounds as RF. pose proof rC_bounds as RC. pose proof centre_err as CE.
  pose proof org_err. pose proof m_err.
  assert (Bd : Rabs (c - org) <= 2 * A + 4 * r) by (apply Rabs_le; split; fin).
  pose proof (err_bound _ _ Bd) as D.
  pose proof F_box as HF. pose proof C_box as HC.
  assert (0 <= IZR k <= 2199023255552) by (split; apply IZR_le; lia).
  repeat split.
  - apply ratio_ok, Rabs_le. unfold K40. lra.
  - apply big_ok, Rabs_le. split; fin.
  - apply big_ok, Rabs_le. split; fin.
  - apply big_ok. fin.
  - apply ratio_ok, ratio_bound, Rabs_le. split; fin.
Qed.
End Centre.

(* consecutive centres are r apart up to four roundings *)
Lemma spacing_err k : (0 <= k)%Z -> (k + 1 <= C - F)%Z ->
  Rabs (gmf_centre r org (k + 1) - gmf_centre r org k - r) <= u * (6 * A + 10 * r) + 4 * eta.
Proof.
  intros H0 H1.
  assert (Ha : (0 <= k <= C - F)%Z) by lia. assert (Hb : (0 <= k + 1 <= C - F)%Z) by lia.
  pose proof (centre_err k Ha) as E1. pose proof (centre_err (k + 1) Hb) as E2.
  rewrite plus_IZR in E2. apply Rabs_le. split; fin.
Qed.

(* the first and last cells cover the bounds: no slack needed *)
Lemma cover_low : gmf_centre r org 0 - r / 2 <= lo.
Proof.
  pose proof F_le_C. assert (Ha : (0 <= 0 <= C - F)%Z) by lia.
  pose proof (centre_err 0 Ha) as E. pose proof org_err. pose proof rF_bounds.
  replace (r * IZR 0) with 0 in E by (simpl; ring). fin.
Qed.

Lemma cover_high : hi <= gmf_centre r org (gmf_ncells r lo hi - 1) + r / 2.
Proof.
  rewrite ncells_eq. replace (C - F + 1 - 1)%Z with (C - F)%Z by lia.
  pose proof F_le_C. assert (Ha : (0 <= C - F <= C - F)%Z) by lia.
  pose proof (centre_err _ Ha) as E. rewrite minus_IZR in E. pose proof org_err. pose proof rF_bounds. pose proof rC_bounds.
  replace (r * (IZR C - IZR F)) with (r * IZR C - r * IZR F) in E by ring. fin.
Qed.

(* ---- a point of the extent ---- *)
Section Point.
Variable p : R.
Hypothesis Hp : lo <= p <= hi.

Local Notation d := (rnd (p - org)).
Local Notation q := (rnd (d / r)).

Lemma d_err : - (u * (2 * A + 3 * r) + eta) <= d - (p - org) <= u * (2 * A + 3 * r) + eta.
Proof.
  apply err_bound. pose proof rF_bounds. pose proof org_err. apply Rabs_le. split; fin.
Qed.

Lemma q_err : - (u * (2 * A + 4 * r) + eta * r) <= r * q - d <= u * (2 * A + 4 * r) + eta * r.
Proof.
  apply div_err_bound; [exact r_pos|].
  pose proof rF_bounds. pose proof org_err. pose proof d_err. apply Rabs_le. split; fin.
Qed.

(* r*q against the exact value p - r*F + r/2: three roundings *)
Lemma rq_err :
  - (u * (5 * A + 9 * r) + 2 * eta + eta * r) <= r * q - (p - r * IZR F + r / 2)
    <= u * (5 * A + 9 * r) + 2 * eta + eta * r.
Proof. pose proof org_err. pose proof d_err. pose proof q_err. split; fin. Qed.

(* the half-cell margin of the real-number analysis survives rounding as a quarter-cell margin *)
Lemma q_margin : 1 / 4 <= q <= IZR C - IZR F + 3 / 4.
Proof.
  pose proof rq_err as Q. pose proof rF_bounds as RF. pose proof rC_bounds as RC. pose proof r_pos as Hr.
  assert (Q1 : r * (1 / 4) <= r * q) by fin.
  assert (Q2 : r * q <= r * (IZR C - IZR F + 3 / 4)).
  { replace (r * (IZR C - IZR F + 3 / 4)) with (r * IZR C - r * IZR F + r * (3 / 4)) by ring. fin. }
  apply Rmult_le_reg_l in Q1; [|exact Hr]. apply Rmult_le_reg_l in Q2; [|exact Hr]. lra.
Qed.

Lemma index_unf : gmf_index r org p = Zfloor q.
Proof. rewrite gmf_index_unf. apply Ztrunc_floor. pose proof q_margin. lra. Qed.

Lemma index_range : (0 <= gmf_index r org p <= C - F)%Z.
Proof.
  rewrite index_unf. pose proof q_margin as [Q1 Q2]. split.
  - apply Zfloor_lub. simpl. lra.
  - apply Zlt_succ_le. apply lt_IZR. unfold Z.succ. rewrite plus_IZR, minus_IZR.
    pose proof (Zfloor_lb q). simpl. lra.
Qed.

Lemma index_in_bounds_fl : (0 <= gmf_index r org p < gmf_ncells r lo hi)%Z.
Proof. rewrite ncells_eq. pose proof index_range. lia. Qed.

Lemma point_near_centre_fl :
  Rabs (p - gmf_centre r org (gmf_index r org p)) <= r / 2 + u * (9 * A + 17 * r).
Proof.
  pose proof index_range as Hk. pose proof (centre_err _ Hk) as CE. revert CE. rewrite index_unf.
  intros CE. pose proof rq_err as Q. pose proof org_err as O. pose proof r_pos as Hr.
  pose proof (Zfloor_lb q) as L. pose proof (Zfloor_ub q) as U.
  assert (r * IZR (Zfloor q) <= r * q) by (apply Rmult_le_compat_l; lra).
  assert (r * q <= r * (IZR (Zfloor q) + 1)) by (apply Rmult_le_compat_l; lra).
  apply Rabs_le. split; fin.
Qed.

Lemma no_overflow_point : Rabs (p - org) <= bpow radix2 1000 /\ Rabs (d / r) <= bpow radix2 1000.
Proof.
  pose proof rF_bounds. pose proof org_err. pose proof d_err. split.
  - apply big_ok, Rabs_le. split; fin.
  - apply ratio_ok, ratio_bound, Rabs_le. split; fin.
Qed.
End Point.
End Axis.

(* ---------- public statements ---------- *)
(* the domain: resolution between 2^-900 and 2^900, both bounds at most 2^40 cells away from zero.
   Why: with |lo/r|, |hi/r| <= 2^40 each of the six roundings between the inputs and the truncated quotient
   moves it by at most about 2^-53 * 2^41 cells, far below the half-cell margin of the exact analysis;
   r >= 2^-900 keeps the absolute error of a possibly subnormal result (2^-1075) negligible against r;
   r <= 2^900 keeps every intermediate below 2^1000 (no overflow). *)
Definition gmf_domain (r lo hi : R) : Prop :=
  bpow radix2 (-900) <= r <= bpow radix2 900 /\
  Rabs lo <= bpow radix2 40 * r /\ Rabs hi <= bpow radix2 40 * r.

(* a box that is easy to check and contains the envelope of the property (r in [1e-3, 10], bounds in [-1e3, 1e3]) *)
Lemma gmf_domain_box r lo hi :
  bpow radix2 (-20) <= r <= bpow radix2 20 -> Rabs lo <= bpow radix2 20 -> Rabs hi <= bpow radix2 20 ->
  gmf_domain r lo hi.
Proof.
  intros [R1 R2] L H.
  assert (E1 : bpow radix2 (-20) = / 1048576) by (simpl; lra).
  assert (E2 : bpow radix2 20 = 1048576) by (simpl; lra).
  rewrite E1 in *. rewrite E2 in *. unfold gmf_domain. rewrite K40_bpow. unfold K40. repeat split; try lra.
  - eapply Rle_trans; [|exact R1]. rewrite <- E1. apply bpow_le. lia.
  - eapply Rle_trans; [exact R2|]. rewrite <- E2. apply bpow_le. lia.
Qed.

(* the rounding slack of the centre statements: 8 eps * max(|lo|,|hi|,r) + 8 eps * r with eps = 2^-52,
   literally the tolerance of the oracle in checks/C13.py for double *)
Definition gmf_tol (r lo hi : R) : R :=
  bpow radix2 (-49) * Rmax (Rmax (Rabs lo) (Rabs hi)) r + bpow radix2 (-49) * r.

Section Public.
Variables r lo hi : R.
Hypothesis D : gmf_domain r lo hi.

Local Notation A := (Rmax (Rabs lo) (Rabs hi)).
Local Notation org := (gmf_origin r lo).

Lemma D1 : bpow radix2 (-900) <= r. Proof. exact (proj1 (proj1 D)). Qed.
Lemma D2 : r <= bpow radix2 900. Proof. exact (proj2 (proj1 D)). Qed.
Lemma DL : Rabs lo <= A. Proof. apply Rmax_l. Qed.
Lemma DH : Rabs hi <= A. Proof. apply Rmax_r. Qed.

Lemma DA : A <= K40 * r.
Proof. pose proof D as (_ & L & H). rewrite K40_bpow in L, H. apply Rmax_lub; assumption. Qed.

Lemma tol_ge c1 c2 : 0 <= c1 <= 16 -> 0 <= c2 <= 32 - c1 -> u * (c1 * A + c2 * r) <= gmf_tol r lo hi.
Proof.
  intros H1 H2. unfold gmf_tol. replace (bpow radix2 (-49)) with (16 * u) by (unfold u; simpl; lra).
  pose proof (r_pos r D1) as Hr. pose proof (A_nonneg lo A DL) as HA.
  assert (0 < u) by (unfold u; lra).
  pose proof (Rmax_l A r) as M1. pose proof (Rmax_r A r) as M2. set (M := Rmax A r) in *.
  assert (c1 * A + c2 * r <= 16 * M + 16 * r); [|nra].
  destruct (Rle_or_lt A r); nra.
Qed.

Theorem index_in_bounds_b64 p : lo <= p <= hi -> (0 <= gmf_index r org p < gmf_ncells r lo hi)%Z.
Proof. exact (index_in_bounds_fl r lo hi A D1 DL DH DA p). Qed.

Theorem ncells_b64 : gmf_ncells r lo hi = (gmf_C r hi - gmf_F r lo + 1)%Z.
Proof. exact (ncells_eq r lo hi A D1 DL DH DA). Qed.

Theorem ncells_positive_b64 : lo <= hi -> (1 <= gmf_ncells r lo hi)%Z.
Proof. exact (ncells_ge_1 r lo hi A D1 DL DH DA). Qed.

Theorem quarter_margin_b64 p : lo <= p <= hi ->
  1 / 4 <= rnd (rnd (p - org) / r) <= IZR (gmf_ncells r lo hi) - 1 / 4.
Proof.
  intros Hp. rewrite ncells_b64, plus_IZR, minus_IZR.
  pose proof (q_margin r lo hi A D1 DL DH DA p Hp). simpl. lra.
Qed.

Theorem point_near_centre_b64 p : lo <= p <= hi ->
  Rabs (p - gmf_centre r org (gmf_index r org p)) <= r / 2 + gmf_tol r lo hi.
Proof.
  intros Hp. eapply Rle_trans; [exact (point_near_centre_fl r lo hi A D1 DL DH DA p Hp)|].
  apply Rplus_le_compat_l. apply tol_ge; lra.
Qed.

(* the same in relative terms: r/2 plus less than a 500th of a cell *)
Theorem point_near_centre_rel_b64 p : lo <= p <= hi ->
  Rabs (p - gmf_centre r org (gmf_index r org p)) <= r / 2 + bpow radix2 (-9) * r.
Proof.
  intros Hp. eapply Rle_trans; [exact (point_near_centre_fl r lo hi A D1 DL DH DA p Hp)|].
  apply Rplus_le_compat_l. replace (bpow radix2 (-9)) with (/ 512) by (simpl; lra).
  pose proof DA. pose proof (r_pos r D1). unfold u, K40 in *. lra.
Qed.

Theorem centre_index_b64 k : (0 <= k < gmf_ncells r lo hi)%Z -> gmf_index r org (gmf_centre r org k) = k.
Proof. rewrite ncells_b64. intros Hk. apply (centre_index r lo hi A D1 DL DH DA k). lia. Qed.

Theorem centres_spaced_b64 k : (0 <= k)%Z -> (k + 1 < gmf_ncells r lo hi)%Z ->
  Rabs (gmf_centre r org (k + 1) - gmf_centre r org k - r) <= gmf_tol r lo hi.
Proof.
  rewrite ncells_b64. intros H0 H1.
  eapply Rle_trans; [apply (spacing_err r lo hi A D1 DL DH DA k H0); lia|].
  apply Rle_trans with (u * (6 * A + 11 * r)); [|apply tol_ge; lra].
  pose proof (eta_r r D1). pose proof (r_pos r D1). unfold u in *. lra.
Qed.

Theorem cover_b64 : lo <= hi ->
  gmf_centre r org 0 - r / 2 <= lo /\ hi <= gmf_centre r org (gmf_ncells r lo hi - 1) + r / 2.
Proof.
  intros Hlh. split.
  - exact (cover_low r lo hi A D1 DL DH DA Hlh).
  - exact (cover_high r lo hi A D1 DL DH DA Hlh).
Qed.

(* no overflow: the exact result of every arithmetic operation of the constructor, of computeCellIndexes(p), of the
   centre table entry k and of computeCellIndexes(centre k) is at most 2^1000 in magnitude, so its rounding is a
   finite double and the unbounded-exponent format used here agrees with IEEE-754 binary64 *)
Theorem no_overflow_b64 p k : lo <= p <= hi -> (0 <= k < gmf_ncells r lo hi)%Z ->
  let F := gmf_F r lo in let C := gmf_C r hi in
  let m := rnd ((IZR k + 1 / 2) * r) in let c := gmf_centre r org k in
  Forall (fun x => Rabs x <= bpow radix2 1000)
    (lo / r :: hi / r :: IZR F - 1 / 2 :: r * (IZR F - 1 / 2) :: IZR C - IZR F :: IZR (C - F) + 1 ::
     p - org :: rnd (p - org) / r ::
     IZR k + 1 / 2 :: (IZR k + 1 / 2) * r :: org + m :: c - org :: rnd (c - org) / r :: nil).
Proof.
  rewrite ncells_b64. intros Hp Hk. cbv zeta.
  assert (Hk' : (0 <= k <= gmf_C r hi - gmf_F r lo)%Z) by lia.
  destruct (no_overflow_grid r lo hi A D1 D2 DL DH DA) as (G1 & G2 & G3 & G4 & G5 & G6).
  destruct (no_overflow_point r lo hi A D1 D2 DL DH DA p Hp) as (P1 & P2).
  destruct (no_overflow_centre r lo hi A D1 D2 DL DH DA k Hk') as (C1 & C2 & C3 & C4 & C5).
  repeat (apply Forall_cons; [assumption|]). apply Forall_nil.
Qed.
End Public.

(* ---------- a concrete grid: r = 1/2, extent [-10, 10], point 3 ---------- *)
Lemma rnd_dyadic x m e : x = IZR m * bpow radix2 e -> (Z.abs m < 2 ^ 53)%Z -> (-1074 <= e)%Z -> rnd x = x.
Proof.
  intros Hx Hm He. apply rnd_id. rewrite Hx. apply generic_format_FLT.
  exists (Float radix2 m e); [reflexivity|exact Hm|exact He].
Qed.

Lemma b64_dyadic x m e : x = IZR m * bpow radix2 e -> (Z.abs m < 2 ^ 53)%Z -> (-1074 <= e)%Z -> b64 x.
Proof. intros Hx Hm He. rewrite <- (rnd_dyadic x m e Hx Hm He). apply b64_rnd. Qed.

Lemma ex_inputs_b64 : b64 (1 / 2) /\ b64 (-10) /\ b64 10 /\ b64 3.
Proof.
  repeat split.
  - apply (b64_dyadic _ 1 (-1)); [simpl; lra|lia|lia].
  - apply (b64_int (-10)). lia.
  - apply (b64_int 10). lia.
  - apply (b64_int 3). lia.
Qed.

Lemma ex_domain : gmf_domain (1 / 2) (-10) 10.
Proof.
  apply gmf_domain_box.
  - simpl. lra.
  - rewrite Rabs_left by lra. simpl. lra.
  - rewrite Rabs_pos_eq by lra. simpl. lra.
Qed.

Lemma ex_F : gmf_F (1 / 2) (-10) = (-20)%Z.
Proof.
  unfold gmf_F, fl_div. replace (-10 / (1 / 2)) with (IZR (-20)) by lra.
  rewrite (rnd_id (IZR (-20))) by (apply b64_int; lia). apply Zfloor_IZR.
Qed.

Lemma ex_C : gmf_C (1 / 2) 10 = 20%Z.
Proof.
  unfold gmf_C, fl_div. replace (10 / (1 / 2)) with (IZR 20) by lra.
  rewrite (rnd_id (IZR 20)) by (apply b64_int; lia). apply Zceil_IZR.
Qed.

Lemma ex_origin : gmf_origin (1 / 2) (-10) = -41 / 4.
Proof.
  rewrite gmf_origin_unf, ex_F.
  rewrite (rnd_dyadic (IZR (-20) - 1 / 2) (-41) (-1)); [|simpl; lra|lia|lia].
  replace (1 / 2 * (IZR (-20) - 1 / 2)) with (-41 / 4) by lra.
  apply (rnd_dyadic _ (-41) (-2)); [simpl; lra|lia|lia].
Qed.

Lemma ex_ncells : gmf_ncells (1 / 2) (-10) 10 = 41%Z.
Proof. rewrite (ncells_b64 _ _ _ ex_domain), ex_F, ex_C. reflexivity. Qed.

Lemma ex_index : gmf_index (1 / 2) (gmf_origin (1 / 2) (-10)) 3 = 26%Z.
Proof.
  rewrite ex_origin, gmf_index_unf.
  replace (3 - -41 / 4) with (53 / 4) by lra.
  rewrite (rnd_dyadic (53 / 4) 53 (-2)); [|simpl; lra|lia|lia].
  replace (53 / 4 / (1 / 2)) with (53 / 2) by lra.
  rewrite (rnd_dyadic (53 / 2) 53 (-1)); [|simpl; lra|lia|lia].
  rewrite Ztrunc_floor by lra. apply Zfloor_imp. simpl. lra.
Qed.

Lemma ex_centre : gmf_centre (1 / 2) (gmf_origin (1 / 2) (-10)) 26 = 3.
Proof.
  rewrite ex_origin, gmf_centre_unf.
  rewrite (rnd_id (IZR 26)) by (apply b64_int; lia).
  rewrite (rnd_dyadic (IZR 26 + 1 / 2) 53 (-1)); [|simpl; lra|lia|lia].
  replace ((IZR 26 + 1 / 2) * (1 / 2)) with (53 / 4) by lra.
  rewrite (rnd_dyadic (53 / 4) 53 (-2)); [|simpl; lra|lia|lia].
  replace (-41 / 4 + 53 / 4) with (IZR 3) by lra. apply rnd_id, b64_int. lia.
Qed.
