(* SrcTieC03.v — LambertConverter / EarthEllipsoid functions regenerated from the clang AST (gen/SrcFunsC03.v) equal the
   models the C03 theorems are about: closed-form leaves, and the ITERATIVE code (loops become a local fix on a fuel
   argument, see translate/srcfuns.py):
     LambertConverter::computeLatitude  = LambertModel.computeLatitude      (for(;;) { ...; if (|d| < EPSILON) break; })
     LambertConverter::toWGS84          = LambertModel.toWGS84
     computeProjectionParameters (x2)   = secant_projection / tangent_projection
   for every fuel (induction on the fuel; the generated loop and the model loop run in lock step). *)
From Coq Require Import Reals ZArith Lra.
From Romea Require Import Num NumR GeodesyModel LambertModel SrcTie.
From Romea.gen Require Import RepoConstants SrcFunsC03.
Local Open Scope R_scope.

Lemma dec_15_m1 : IZR 15 * powerRZ 10 (-1) = IZR meridional_radius_exponent_m * powerRZ 10 meridional_radius_exponent_e.
Proof. reflexivity. Qed.

Lemma tie_isometricLatitude lat e : src_isometricLatitude ROps lat e = isometricLatitude ROps lat e.
Proof. unfold src_isometricLatitude, isometricLatitude. dict. lits. req. Qed.

Lemma tie_grandeNormale lat a e : src_grandeNormale ROps lat a e = grandeNormale ROps lat a e.
Proof. unfold src_grandeNormale, grandeNormale, pow2. dict. lits. req. Qed.

Lemma tie_meridionalRadius lat (el : ellipsoid (T:=R)) :
  src_meridionalRadius ROps lat (el_a el) (el_e el) (el_e2 el) = meridionalRadius ROps el lat.
Proof. unfold src_meridionalRadius, meridionalRadius, pow2. dict. rewrite dec_15_m1. lits. req. Qed.

Lemma tie_transversalRadius lat (el : ellipsoid (T:=R)) :
  src_transversalRadius ROps lat (el_a el) (el_e el) = transversalRadius ROps el lat.
Proof. unfold src_transversalRadius, transversalRadius, pow2. dict. lits. req. Qed.

Lemma tie_toLambert (pr : projection (T:=R)) e (w : wgs84 (T:=R)) :
  src_toLambert ROps (p_c pr) e (p_lon0 pr) (p_n pr) (w_lat w) (w_lon w) (p_xs pr) (p_ys pr)
  = (v2x (toLambert ROps pr e w), v2y (toLambert ROps pr e w)).
Proof.
  unfold src_toLambert, toLambert. cbv zeta. rewrite tie_isometricLatitude. cbn [v2x v2y]. dict. req.
Qed.

(* ---- LambertConverter::computeLatitude ---- *)
Lemma tie_computeLatitude fuel L e : src_computeLatitude ROps fuel L e = computeLatitude ROps fuel L e.
Proof.
  unfold src_computeLatitude, computeLatitude. cbv zeta.
  match goal with |- match ?F fuel ?x0 with _ => _ end = _ =>
    assert (H : forall fu x, F fu x = latitude_iter ROps fu L e x) end.
  { induction fu as [|f IH]; intro x; [reflexivity|].
    cbv beta iota fix zeta. rewrite IH. cbn [latitude_iter]. cbv zeta.
    unfold latitude_step, half_pi, lambert_eps. dict. lits.
    match goal with |- (if ?c then _ else _) = (if ?c' then _ else _) => replace c with c' by req; destruct c' end; req. }
  rewrite H. unfold half_pi. dict. lits.
  match goal with |- match latitude_iter _ _ _ _ ?a with _ => _ end = latitude_iter _ _ _ _ ?b => replace a with b by req end.
  destruct (latitude_iter ROps fuel L e _); reflexivity.
Qed.

(* ---- LambertConverter::toWGS84 (the repaired code: log(rho / |c|)) ---- *)
Lemma tie_lambertToWGS84 fuel (pr : projection (T:=R)) e (v : vec2 (T:=R)) :
  src_lambertToWGS84 ROps fuel (p_c pr) e (p_lon0 pr) (p_n pr) (v2x v) (v2y v) (p_xs pr) (p_ys pr)
  = match toWGS84 ROps fuel pr e v with None => None | Some w => Some (w_lat w, w_lon w) end.
Proof.
  unfold src_lambertToWGS84, toWGS84. cbv zeta. rewrite tie_computeLatitude.
  unfold rho_of, theta_of, pow2. dict.
  match goal with |- match computeLatitude _ _ ?a _ with _ => _ end = match match computeLatitude _ _ ?b _ with _ => _ end with _ => _ end =>
    replace a with b by req end.
  destruct (computeLatitude ROps fuel _ e); cbn [w_lat w_lon]; req.
Qed.

(* ---- computeProjectionParameters, secant and tangent ---- *)
Lemma tie_secantProjection (p : secant_params (T:=R)) (el : ellipsoid (T:=R)) :
  src_secantProjection ROps (el_a el) (el_e el) (sp_lat0 p) (sp_lat1 p) (sp_lat2 p) (sp_lon0 p) (sp_x0 p) (sp_y0 p)
  = (let q := secant_projection ROps p el in (p_lon0 q, p_n q, p_c q, p_xs q, p_ys q)).
Proof.
  unfold src_secantProjection, secant_projection. cbv zeta. rewrite !tie_isometricLatitude, !tie_grandeNormale.
  unfold pole_eps, half_pi. dict. lits. cbn [p_lon0 p_n p_c p_xs p_ys].
  repeat (f_equal; try req).
  all: try (match goal with |- (if ?c then _ else _) = (if ?c' then _ else _) => replace c with c' by req; destruct c' end; req).
Qed.

Lemma tie_tangentProjection (p : tangent_params (T:=R)) (el : ellipsoid (T:=R)) :
  src_tangentProjection ROps (el_a el) (el_e el) (tp_k0 p) (tp_lat0 p) (tp_lon0 p) (tp_x0 p) (tp_y0 p)
  = (let q := tangent_projection ROps p el in (p_lon0 q, p_n q, p_c q, p_xs q, p_ys q)).
Proof.
  unfold src_tangentProjection, tangent_projection. cbv zeta. rewrite !tie_isometricLatitude, !tie_grandeNormale.
  dict. cbn [p_lon0 p_n p_c p_xs p_ys]. req.
Qed.

