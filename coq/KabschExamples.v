(* KabschExamples.v — C04: concrete instances showing that the hypotheses of the theorems of KabschProper.v / KabschLists.v
   are satisfiable (non-vacuity), among them a noisy 3D set whose best ORTHOGONAL fit is a reflection with a positive last
   singular value (Umeyama's case): the repaired code flips the last direction and the theorem says the result is the
   optimal proper rotation. *)
From Coq Require Import Reals List Arith ZArith Lia Lra Bool Psatz.
From Romea Require Import Num NumR LinAlgBModel LinAlgBProofs LsProofs KabschModel KabschProofs KabschProper KabschLists KabschPrecond.
Import ListNotations.
Local Open Scope R_scope.

Local Notation mg := (mget ROps).
Local Notation vg := (vget ROps).

(* six sources on the axes; targets stretched by diag(3/2, 1, -1/2): cross covariance diag(3, 2, -1) *)
Definition ex_pairs : list (list R * list R) :=
  [([1;0;0], [3/2;0;0]); ([-1;0;0], [-3/2;0;0]); ([0;1;0], [0;1;0]); ([0;-1;0], [0;-1;0]);
   ([0;0;1], [0;0;-1/2]); ([0;0;-1], [0;0;1/2])].
Definition ex_svd (k : nat) (M : list (list R)) : (list (list R) * list R) * list (list R) :=
  (([[1;0;0];[0;1;0];[0;0;1]], [3;2;1]), [[1;0;0];[0;1;0];[0;0;-1]]).
Definition ex_cov : list (list R) := cross_cov ROps 3 ex_pairs (p_sm 3 ex_pairs) (p_tm 3 ex_pairs).

Lemma ex_cov_entries : forall i j, (i < 3)%nat -> (j < 3)%nat ->
  mg ex_cov i j = mg [[3;0;0];[0;2;0];[0;0;-1]] i j.
Proof.
  intros i j Hi Hj.
  destruct i as [|[|[|i]]]; try lia; destruct j as [|[|[|j]]]; try lia;
    cbn; unfold nat_to_T; cbn; lra.
Qed.

Lemma ex_contract : svd_contract 3 ex_cov (ex_svd 3 ex_cov).
Proof.
  unfold svd_contract, ex_svd.
  split.
  { intros i j Hi Hj. rewrite ex_cov_entries by assumption.
    destruct i as [|[|[|i]]]; try lia; destruct j as [|[|[|j]]]; try lia; cbn; lra. }
  repeat split; intros;
    repeat match goal with
           | i : nat |- _ => destruct i as [|i]; [|try lia]
           end; try lia; cbn; unfold delta; cbn; try lra.
Qed.

(* the flip branch is taken and the last singular value is positive *)
Lemma ex_is_reflection_case :
  fdet ROps 3 (mg [[1;0;0];[0;1;0];[0;0;-1]]) * fdet ROps 3 (mg [[1;0;0];[0;1;0];[0;0;1]]) = -1 /\ 0 < vg [3;2;1] 2.
Proof. split; cbn; unfold fdet3; cbn; lra. Qed.

(* exact coplanar data: the unit square in the plane z = 0 under a quarter turn about z and a translation *)
Definition sq_pairs : list (list R * list R) :=
  [([1;0;0], [5;1+1;7]); ([0;1;0], [5-1;1;7]); ([-1;0;0], [5;1-1;7]); ([0;-1;0], [5+1;1;7])].
Definition sq_R0 (i j : nat) : R := mg [[0;-1;0];[1;0;0];[0;0;1]] i j.
Definition sq_tau0 (i : nat) : R := vg [5;1;7] i.

Lemma sq_R0_proper : is_orth 3 sq_R0 /\ fdet ROps 3 sq_R0 = 1.
Proof.
  split.
  - intros a b Ha Hb. destruct a as [|[|[|a]]]; try lia; destruct b as [|[|[|b]]]; try lia; cbn; unfold delta; cbn; lra.
  - cbn. unfold fdet3, sq_R0. cbn. lra.
Qed.

Lemma sq_rank : rank_ge_dm1 3 (p_N sq_pairs) (Sc 3 sq_pairs).
Proof.
  exists 0%nat, 1%nat, 2%nat. repeat split; try (cbn; lia).
  cbn. unfold Sc, p_src. cbn. unfold nat_to_T. cbn. lra.
Qed.

Lemma sq_exact : forall n i, (n < p_N sq_pairs)%nat -> (i < 3)%nat ->
  p_tgt sq_pairs n i = Rsum 3 (fun j => sq_R0 i j * p_src sq_pairs n j) + sq_tau0 i.
Proof.
  intros n i Hn Hi. unfold p_N in Hn. cbn in Hn.
  destruct n as [|[|[|[|n]]]]; try lia; destruct i as [|[|[|i]]]; try lia; cbn; lra.
Qed.

(* 2D: a rotation by a quarter turn, three points *)
Definition ex2_pairs : list (list R * list R) := [([1;0], [0;1]); ([0;1], [-1;0]); ([-1;-1], [1;-1])].
Definition ex2_R0 (i j : nat) : R := mg [[0;-1];[1;0]] i j.

Lemma ex2_R0_proper : is_orth 2 ex2_R0 /\ fdet ROps 2 ex2_R0 = 1.
Proof.
  split.
  - intros a b Ha Hb. destruct a as [|[|a]]; try lia; destruct b as [|[|b]]; try lia; cbn; unfold delta; cbn; lra.
  - cbn. unfold fdet2, ex2_R0. cbn. lra.
Qed.
Lemma ex2_rank : rank_ge_dm1 2 (p_N ex2_pairs) (Sc 2 ex2_pairs).
Proof.
  exists 0%nat, 0%nat. repeat split; try (cbn; lia).
  unfold Sc, p_src. cbn. unfold nat_to_T. cbn. lra.
Qed.
Lemma ex2_exact : forall n i, (n < p_N ex2_pairs)%nat -> (i < 2)%nat ->
  p_tgt ex2_pairs n i = Rsum 2 (fun j => ex2_R0 i j * p_src ex2_pairs n j) + 0.
Proof.
  intros n i Hn Hi. unfold p_N in Hn. cbn in Hn.
  destruct n as [|[|[|n]]]; try lia; destruct i as [|[|i]]; try lia; cbn; lra.
Qed.

(* an SVD of the square's cross covariance with det(V U^T) = -1: the flip branch on exact coplanar data *)
Definition sq_svd (k : nat) (M : list (list R)) : (list (list R) * list R) * list (list R) :=
  (([[1;0;0];[0;1;0];[0;0;1]], [2;2;0]), [[0;-1;0];[1;0;0];[0;0;-1]]).
Definition sq_cov : list (list R) := cross_cov ROps 3 sq_pairs (p_sm 3 sq_pairs) (p_tm 3 sq_pairs).

Lemma sq_cov_entries : forall i j, (i < 3)%nat -> (j < 3)%nat ->
  mg sq_cov i j = mg [[0;2;0];[-2;0;0];[0;0;0]] i j.
Proof.
  intros i j Hi Hj.
  destruct i as [|[|[|i]]]; try lia; destruct j as [|[|[|j]]]; try lia;
    cbn; unfold nat_to_T; cbn; lra.
Qed.

Lemma sq_contract : svd_contract 3 sq_cov (sq_svd 3 sq_cov).
Proof.
  unfold svd_contract, sq_svd.
  split.
  { intros i j Hi Hj. rewrite sq_cov_entries by assumption.
    destruct i as [|[|[|i]]]; try lia; destruct j as [|[|[|j]]]; try lia; cbn; lra. }
  repeat split; intros;
    repeat match goal with
           | i : nat |- _ => destruct i as [|i]; [|try lia]
           end; try lia; cbn; unfold delta; cbn; try lra.
Qed.

(* the theorems applied to the instances *)
Lemma ex_estimate_optimal : forall Q tau, is_orth 3 Q -> fdet ROps 3 Q = 1 ->
  fcost 3 ex_pairs (mg (estimate_pairs ROps ex_svd true 3 3 ex_pairs)) (fun i => mg (estimate_pairs ROps ex_svd true 3 3 ex_pairs) i 3%nat)
  <= fcost 3 ex_pairs Q tau.
Proof.
  apply (estimate_optimal ex_svd 3 3 ex_pairs); [now right|lia|discriminate|exact ex_contract].
Qed.

Lemma sq_estimate_recovers :
  (forall i j, (i < 3)%nat -> (j < 3)%nat -> mg (estimate_pairs ROps sq_svd true 3 3 sq_pairs) i j = sq_R0 i j) /\
  (forall i, (i < 3)%nat -> mg (estimate_pairs ROps sq_svd true 3 3 sq_pairs) i 3%nat = sq_tau0 i).
Proof.
  apply (estimate_exact_recovery sq_svd 3 3 sq_pairs); [now right|lia|discriminate|exact sq_contract| | |exact sq_rank|exact sq_exact];
    apply sq_R0_proper.
Qed.

(* the square preconditioned by the scale 2 on both sets: cross covariance 4 times the original one *)
Definition sq2_svd (k : nat) (M : list (list R)) : (list (list R) * list R) * list (list R) :=
  (([[1;0;0];[0;1;0];[0;0;1]], [8;8;0]), [[0;-1;0];[1;0;0];[0;0;-1]]).
Definition sq2_cov : list (list R) :=
  cross_cov ROps 3 (scale_pairs 2 sq_pairs) (p_sm 3 (scale_pairs 2 sq_pairs)) (p_tm 3 (scale_pairs 2 sq_pairs)).

Lemma sq2_cov_entries : forall i j, (i < 3)%nat -> (j < 3)%nat ->
  mg sq2_cov i j = mg [[0;8;0];[-8;0;0];[0;0;0]] i j.
Proof.
  intros i j Hi Hj.
  destruct i as [|[|[|i]]]; try lia; destruct j as [|[|[|j]]]; try lia;
    cbn; unfold nat_to_T; cbn; lra.
Qed.

Lemma sq2_contract : svd_contract 3 sq2_cov (sq2_svd 3 sq2_cov).
Proof.
  unfold svd_contract, sq2_svd.
  split.
  { intros i j Hi Hj. rewrite sq2_cov_entries by assumption.
    destruct i as [|[|[|i]]]; try lia; destruct j as [|[|[|j]]]; try lia; cbn; lra. }
  repeat split; intros;
    repeat match goal with
           | i : nat |- _ => destruct i as [|i]; [|try lia]
           end; try lia; cbn; unfold delta; cbn; try lra.
Qed.

Lemma sq_is_aligned : length (map fst sq_pairs) = length (map snd sq_pairs) /\ combine (map fst sq_pairs) (map snd sq_pairs) = sq_pairs.
Proof. split; reflexivity. Qed.
