(* EnuModel.v — executable model of src/geodesy/ENUConverter.cpp as a state machine.
   State = the four data members (wgs84Anchor_, enu2ecef_ = (linear, translation), isAnchored_);
   the ECEF converter member is the default one (GRS80).  Definitions only; proofs in EnuProofs.v.
   [reset_old]/[step_old] are the code before the repair of reset() (kept for the _refuted theorem). *)
From Coq Require Import ZArith List Bool.
From Romea Require Import Num GeodesyModel.
Import ListNotations.

Section Enu.
Context {T : Type} (N : NumOps T).

Local Notation "x +! y" := (nadd N x y) (at level 50, left associativity).
Local Notation "x -! y" := (nsub N x y) (at level 50, left associativity).
Local Notation "x *! y" := (nmul N x y) (at level 40, left associativity).
Local Notation "x /! y" := (ndiv N x y) (at level 40, left associativity).
Local Notation "'I0'" := (nzero N).
Local Notation "'I1'" := (n_one N).

(* row-major names: mij = row i, column j *)
Record mat3 := mkM3 { m00 : T; m01 : T; m02 : T; m10 : T; m11 : T; m12 : T; m20 : T; m21 : T; m22 : T }.

Definition mat3_id : mat3 := mkM3 I1 I0 I0 I0 I1 I0 I0 I0 I1.

(* Eigen: linear * v, coefficient i = (mi0*v0 + mi1*v1) + mi2*v2 *)
Definition mat3_mulv (m : mat3) (v : vec3 (T:=T)) : vec3 :=
  mkV3 (m00 m *! vx v +! m01 m *! vy v +! m02 m *! vz v)
       (m10 m *! vx v +! m11 m *! vy v +! m12 m *! vz v)
       (m20 m *! vx v +! m21 m *! vy v +! m22 m *! vz v).

Definition vec3_add (a b : vec3 (T:=T)) : vec3 := mkV3 (vx a +! vx b) (vy a +! vy b) (vz a +! vz b).
Definition vec3_neg (a : vec3 (T:=T)) : vec3 := mkV3 (nneg N (vx a)) (nneg N (vy a)) (nneg N (vz a)).

(* Eigen's 3x3 inverse (compute_inverse_size3): cofactors, det = c00*m00 + (c10*m10 + c20*m20),
   invdet = 1/det, inverse(j,i) = cofactor(i,j) * invdet *)
Definition cof (a b c d : T) : T := a *! b -! c *! d.

Definition mat3_inverse (m : mat3) : mat3 :=
  let c00 := cof (m11 m) (m22 m) (m12 m) (m21 m) in
  let c10 := cof (m21 m) (m02 m) (m22 m) (m01 m) in
  let c20 := cof (m01 m) (m12 m) (m02 m) (m11 m) in
  let det := c00 *! m00 m +! (c10 *! m10 m +! c20 *! m20 m) in
  let invdet := I1 /! det in
  let c01 := cof (m12 m) (m20 m) (m10 m) (m22 m) in
  let c11 := cof (m22 m) (m00 m) (m20 m) (m02 m) in
  let c21 := cof (m02 m) (m10 m) (m00 m) (m12 m) in
  let c02 := cof (m10 m) (m21 m) (m11 m) (m20 m) in
  let c12 := cof (m20 m) (m01 m) (m21 m) (m00 m) in
  let c22 := cof (m00 m) (m11 m) (m01 m) (m10 m) in
  mkM3 (c00 *! invdet) (c10 *! invdet) (c20 *! invdet)
       (c01 *! invdet) (c11 *! invdet) (c21 *! invdet)
       (c02 *! invdet) (c12 *! invdet) (c22 *! invdet).

Record enu_state := mkEnu { s_anchor : geodetic (T:=T); s_rot : mat3; s_trans : vec3 (T:=T); s_anchored : bool }.

(* ENUConverter(): wgs84Anchor_() value-initialised (zeros), enu2ecef_ = Identity, isAnchored_ = false *)
Definition enu_init : enu_state :=
  mkEnu (mkGeo I0 I0 I0) mat3_id (mkV3 I0 I0 I0) false.

(* rotation written by setAnchor: columns (east, north, up) *)
Definition frame_rotation (lat lon : T) : mat3 :=
  mkM3 (nneg N (nsin N lon)) (nneg N (nsin N lat) *! ncos N lon) (ncos N lat *! ncos N lon)
       (ncos N lon)          (nneg N (nsin N lat) *! nsin N lon) (ncos N lat *! nsin N lon)
       I0                    (ncos N lat)                        (nsin N lat).

Definition set_anchor (s : enu_state) (g : geodetic) : enu_state :=
  mkEnu g (frame_rotation (g_lat g) (g_lon g)) (toECEF N (grs80 N) g) true.

(* enu2ecef_ * v = linear*v + translation *)
Definition enu_to_ecef (s : enu_state) (e : vec3) : vec3 := vec3_add (mat3_mulv (s_rot s) e) (s_trans s).

(* enu2ecef_.inverse() * p : linear' = inverse(linear), translation' = (-linear')*translation *)
Definition ecef_to_enu (s : enu_state) (p : vec3) : vec3 :=
  let li := mat3_inverse (s_rot s) in
  let ti := vec3_neg (mat3_mulv li (s_trans s)) in
  vec3_add (mat3_mulv li p) ti.

(* reset() after the repair: also clears the stored anchor, i.e. equals a freshly constructed converter *)
Definition reset (s : enu_state) : enu_state :=
  mkEnu (mkGeo I0 I0 I0) mat3_id (mkV3 I0 I0 I0) false.

(* reset() before the repair: the stored anchor survives *)
Definition reset_old (s : enu_state) : enu_state :=
  mkEnu (s_anchor s) mat3_id (mkV3 I0 I0 I0) false.

Inductive op :=
| OpSetAnchor (g : geodetic (T:=T))
| OpReset
| OpToEnuGeo (g : geodetic (T:=T))        (* toENU(const GeodeticCoordinates &) *)
| OpToEnuWgs (lat lon : T)                (* toENU(const WGS84Coordinates &)    *)
| OpToEnuEcef (p : vec3 (T:=T))           (* toENU(const Eigen::Vector3d &)     *)
| OpToEcef (e : vec3 (T:=T))              (* toECEF(const Eigen::Vector3d &)    *)
| OpToWgs (e : vec3 (T:=T))               (* toWGS84(const Eigen::Vector3d &)   *)
| OpIsAnchored
| OpGetTransform
| OpGetAnchor.

Inductive out :=
| OutNone
| OutVec (v : vec3 (T:=T))
| OutGeo (g : geodetic (T:=T))
| OutBool (b : bool)
| OutTransform (m : mat3) (t : vec3 (T:=T))
| OutAssert                                 (* assert(isAnchored_) would fire *)
| OutHang.                                  (* latitude loop out of fuel *)

Definition to_enu_geo (s : enu_state) (g : geodetic) : enu_state * out :=
  let s' := if s_anchored s then s else set_anchor s g in
  (s', OutVec (ecef_to_enu s' (toECEF N (grs80 N) g))).

Definition step_gen (rst : enu_state -> enu_state) (fuel : nat) (s : enu_state) (o : op) : enu_state * out :=
  match o with
  | OpSetAnchor g => (set_anchor s g, OutNone)
  | OpReset => (rst s, OutNone)
  | OpToEnuGeo g => to_enu_geo s g
  | OpToEnuWgs lat lon => to_enu_geo s (mkGeo lat lon (g_alt (s_anchor s)))
  | OpToEnuEcef p => (s, if s_anchored s then OutVec (ecef_to_enu s p) else OutAssert)
  | OpToEcef e => (s, if s_anchored s then OutVec (enu_to_ecef s e) else OutAssert)
  | OpToWgs e => (s, if s_anchored s then
                       match toWGS84 N fuel (grs80 N) (enu_to_ecef s e) with
                       | Some g => OutGeo g | None => OutHang end
                     else OutAssert)
  | OpIsAnchored => (s, OutBool (s_anchored s))
  | OpGetTransform => (s, OutTransform (s_rot s) (s_trans s))
  | OpGetAnchor => (s, OutGeo (s_anchor s))
  end.

Definition step := step_gen reset.
Definition step_old := step_gen reset_old.

Fixpoint run_gen (rst : enu_state -> enu_state) (fuel : nat) (s : enu_state) (ops : list op) : enu_state * list out :=
  match ops with
  | [] => (s, [])
  | o :: r => let (s1, x) := step_gen rst fuel s o in
              let (s2, xs) := run_gen rst fuel s1 r in (s2, x :: xs)
  end.

Definition run := run_gen reset.
Definition run_old := run_gen reset_old.

(* ---- abstract view used by the history theorems: the frame is determined by the "current anchor" ---- *)
Definition abs_step (a : option (geodetic (T:=T))) (o : op) : option geodetic :=
  match o with
  | OpSetAnchor g => Some g
  | OpReset => None
  | OpToEnuGeo g => match a with None => Some g | Some _ => a end
  | OpToEnuWgs lat lon => match a with None => Some (mkGeo lat lon I0) | Some _ => a end
  | _ => a
  end.

Definition abs_run (a : option geodetic) (ops : list op) : option geodetic := fold_left abs_step ops a.

Definition state_of (a : option (geodetic (T:=T))) : enu_state :=
  match a with None => enu_init | Some g => set_anchor enu_init g end.

End Enu.

Arguments mkM3 {T} _ _ _ _ _ _ _ _ _.
Arguments m00 {T} _. Arguments m01 {T} _. Arguments m02 {T} _.
Arguments m10 {T} _. Arguments m11 {T} _. Arguments m12 {T} _.
Arguments m20 {T} _. Arguments m21 {T} _. Arguments m22 {T} _.
Arguments mkEnu {T} _ _ _ _.
Arguments s_anchor {T} _. Arguments s_rot {T} _. Arguments s_trans {T} _. Arguments s_anchored {T} _.
Arguments OpSetAnchor {T} _. Arguments OpReset {T}. Arguments OpToEnuGeo {T} _. Arguments OpToEnuWgs {T} _ _.
Arguments OpToEnuEcef {T} _. Arguments OpToEcef {T} _. Arguments OpToWgs {T} _. Arguments OpIsAnchored {T}.
Arguments OpGetTransform {T}. Arguments OpGetAnchor {T}.
Arguments OutNone {T}. Arguments OutVec {T} _. Arguments OutGeo {T} _. Arguments OutBool {T} _.
Arguments OutTransform {T} _ _. Arguments OutAssert {T}. Arguments OutHang {T}.
