(* Properties_C17.v — C17: rate monitoring and rate check-ups follow the stamped-event history exactly.
   Only statements, each closed by [exact <lemma>] and followed by Print Assumptions.

   Vocabulary (RateProofs.v):  events are [Data stamp | Heartbeat stamp] with stamps in integer nanoseconds;
   [data_stamps evs] = the data stamps in order of arrival;  [diffs 0 ds] = their periods, the first one measured
   from 0 (the code's lastDuration_ starts at Duration::zero(), so the first "period" is the first stamp itself);
   [lastn n l] = the last n entries;  [hist N evs] = (data stamps, stale) where stale is set by a heartbeat that
   finds a stamp seen and the silence > 0.5 s, and cleared by the next data stamp (spelled out by C17_stale_iff). *)
From Coq Require Import Reals ZArith List Bool Lra Lia.
From Romea Require Import Num NumR DiagModel RateModel RateProofs SrcTieC17 GridMapFloat RateFloat RateFloatHistory.
From Romea.gen Require Import RepoConstants SrcRate.
Import ListNotations.
Local Open Scope Z_scope.

(* --- for every numeric instance (so also for the binary64 instance that is executed), any stamps --- *)

(* the queue holds the last min(k, W) periods, its integer sum is their sum, the reference stamp is the last one *)
Theorem C17_queue_is_last_periods : forall T (N : NumOps T) r evs,
  let W := window_size N r in let ds := data_stamps evs in
  let s := rm_run N (rm_init N r) evs in
  rm_periods s = lastn (Nat.min (length ds) (Z.to_nat W)) (diffs 0 ds) /\
  rm_sum s = zsum (rm_periods s) /\ rm_last s = last ds 0 /\ rm_window s = W.
Proof. exact @queue_is_last_periods. Qed.
Print Assumptions C17_queue_is_last_periods.

(* once more than W stamps have been seen the sum is stamp_k - stamp_(k-W): the time spanned by the last W periods *)
Theorem C17_sum_is_span : forall T (N : NumOps T) r evs,
  let W := window_size N r in let ds := data_stamps evs in
  (Z.to_nat W < length ds)%nat ->
  rm_sum (rm_run N (rm_init N r) evs) = (last ds 0 - nth (length ds - Z.to_nat W - 1) ds 0)%Z.
Proof. exact @sum_is_span. Qed.
Print Assumptions C17_sum_is_span.

(* the rate is 0 until W+1 stamps have been seen (whatever the heartbeats) *)
Theorem C17_rate_zero_until_full : forall T (N : NumOps T) r evs,
  (Z.of_nat (length (data_stamps evs)) <= window_size N r)%Z -> rm_rate (rm_run N (rm_init N r) evs) = nzero N.
Proof. exact @rate_zero_until_full. Qed.
Print Assumptions C17_rate_zero_until_full.

(* complete description of the published rate after any history *)
Theorem C17_rate_follows_history : forall T (N : NumOps T) r evs,
  rm_rate (rm_run N (rm_init N r) evs) = spec_rate N (window_size N r) (data_stamps evs) (snd (hist N evs)).
Proof. exact @rate_follows_history. Qed.
Print Assumptions C17_rate_follows_history.

Theorem C17_window_in_range : forall T (N : NumOps T) r, (rate_min_window <= window_size N r <= rate_max_window)%Z.
Proof. exact @window_size_range. Qed.

(* --- over the reals --- *)
Local Open Scope R_scope.

(* W = clamp(floor(2 * expected rate), 4, 64)  (constants regenerated from the source on every run) *)
Theorem C17_window_size_clamp : forall r, 0 <= r ->
  window_size ROps r = Z.min (Z.max (Raux.Zfloor (2 * r)) 4) 64.
Proof. exact window_size_R. Qed.
Print Assumptions C17_window_size_clamp.

(* strictly increasing stamps, more than W of them, no time-out since the last one:
   rate = W / (time spanned by the last W periods, in seconds), and that span is positive *)
Theorem C17_rate_is_W_over_span : forall r evs,
  let W := window_size ROps r in let ds := data_stamps evs in
  increasing ds -> (W < Z.of_nat (length ds))%Z -> snd (hist ROps evs) = false ->
  let span := (last ds 0 - nth (length ds - Z.to_nat W - 1) ds 0)%Z in
  (0 < span)%Z /\ rm_rate (rm_run ROps (rm_init ROps r) evs) = IZR W / (IZR span / 1000000000).
Proof. exact rate_is_W_over_span. Qed.
Print Assumptions C17_rate_is_W_over_span.

(* the time-out call: fires iff a stamp was seen (queue not empty) and the silence exceeds 0.5 s = 500000000 ns;
   then only the rate changes (to 0); otherwise the state is unchanged *)
Theorem C17_timeout_rule : forall (s : rmon) t,
  let '(s', b) := rm_timeout ROps s t in
  (b = true <-> rm_periods s <> [] /\ (500000000 < t - rm_last s)%Z) /\
  (b = true -> s' = {| rm_window := rm_window s; rm_last := rm_last s; rm_periods := rm_periods s; rm_sum := rm_sum s; rm_rate := 0 |}) /\
  (b = false -> s' = s).
Proof. exact timeout_rule_R. Qed.
Print Assumptions C17_timeout_rule.

Theorem C17_stamp_seen_iff_queue_nonempty : forall r evs,
  rm_periods (rm_run ROps (rm_init ROps r) evs) <> [] <-> data_stamps evs <> [].
Proof. exact periods_nonempty_iff. Qed.

(* the stale flag of a history: some heartbeat after the last data stamp arrived more than 0.5 s after it *)
Theorem C17_stale_iff : forall evs,
  snd (hist ROps evs) = true <->
  exists pre t post, evs = pre ++ Heartbeat t :: post /\ data_stamps post = [] /\ data_stamps pre <> [] /\
                     (500000000 < t - last (data_stamps pre) 0)%Z.
Proof. exact stale_iff. Qed.
Print Assumptions C17_stale_iff.

(* the report of a rate check-up after any history: "no data received" before the first stamp; STALE / "timeout" /
   empty value (and rate 0) from a time-out until the next stamp; otherwise the value is the current rate and status
   and message are OK / too low / too high by the configured threshold *)
Theorem C17_report_agrees_with_rate : forall k r eps evs, 0 <= eps ->
  let c := cr_final ROps k (cr_init ROps r eps) evs in
  let ds := data_stamps evs in let stale := snd (hist ROps evs) in
  let rate := rm_rate (cr_mon c) in
  rate = spec_rate ROps (window_size ROps r) ds stale /\
  (ds = [] -> c_report (cr_chk c) = no_data_report) /\
  (ds <> [] -> stale = true -> c_report (cr_chk c) = stale_report /\ rate = 0) /\
  (ds <> [] -> stale = false -> verdict_R k r eps rate (c_report (cr_chk c))).
Proof. exact report_agrees_with_rate. Qed.
Print Assumptions C17_report_agrees_with_rate.

(* "after every event": entry i of the per-event log (what the driver prints and the harness is compared with) is the
   rate and report of the state reached after the first i+1 events, to which the theorem above applies *)
Theorem C17_log_is_prefix_states : forall T (N : NumOps T) k evs c i, (i < length evs)%nat ->
  exists o, nth_error (cr_run N k c evs) i =
    Some (o, rm_rate (cr_mon (cr_final N k c (firstn (S i) evs))), c_report (cr_chk (cr_final N k c (firstn (S i) evs)))) /\
    o = snd (cr_step N k (cr_final N k c (firstn i evs)) (nth i evs (Data 0))).
Proof. exact @cr_run_nth. Qed.
Print Assumptions C17_log_is_prefix_states.

Theorem C17_monitor_inside_checkup : forall T (N : NumOps T) k c evs,
  cr_mon (cr_final N k c evs) = rm_run N (cr_mon c) evs.
Proof. exact @cr_mon_final. Qed.

Theorem C17_returned_is_stored : forall T (N : NumOps T) k c d,
  let '(c', o) := cr_step N k c (Data d) in o = OData (d_status (r_diag (c_report (cr_chk c')))).
Proof. exact @returned_is_stored_rate. Qed.

(* earlier heartbeats change nothing: neither the monitor nor the report *)
Theorem C17_early_heartbeat_changes_nothing : forall T (N : NumOps T) k c t,
  snd (rm_timeout N (cr_mon c) t) = false -> cr_step N k c (Heartbeat t) = (c, OBeat true).
Proof. exact @early_heartbeat_changes_nothing. Qed.
Print Assumptions C17_early_heartbeat_changes_nothing.

Theorem C17_heartbeat_alive_iff_no_timeout : forall T (N : NumOps T) k c t,
  snd (cr_step N k c (Heartbeat t)) = OBeat (negb (snd (rm_timeout N (cr_mon c) t))).
Proof. exact @heartbeat_alive_iff. Qed.
Print Assumptions C17_heartbeat_alive_iff_no_timeout.

(* --- non-vacuity: a 1 Hz source (W = clamp(2,4,64) = 4), 5 stamps 1 s apart starting at 1 s with an early heartbeat
       in between: rate = 4 / 4 s = 1; a heartbeat 0.6 s after the last stamp then makes the history stale --- *)
Definition ex_evs : list event :=
  [Data 1000000000; Data 2000000000; Heartbeat 2400000000; Data 3000000000; Data 4000000000; Data 5000000000].
Example C17_ex_window : window_size ROps 1 = 4%Z.
Proof.
  rewrite C17_window_size_clamp by lra. replace (2 * 1) with (IZR 2) by lra.
  rewrite Raux.Zfloor_IZR. reflexivity.
Qed.
Example C17_ex_increasing : increasing (data_stamps ex_evs).
Proof.
  intros i j H. cbn [ex_evs data_stamps length] in *.
  do 5 (destruct i as [|i]; [do 5 (destruct j as [|j]; [cbn [nth]; lia|]); cbn in H; lia|]). cbn in H; lia.
Qed.
Example C17_ex_not_stale : snd (hist ROps ex_evs) = false.
Proof. unfold hist, ex_evs. cbn [fold_left hstep fst snd]. reflexivity. Qed.
Example C17_ex_rate : rm_rate (rm_run ROps (rm_init ROps 1) ex_evs) = 1.
Proof.
  destruct (C17_rate_is_W_over_span 1 ex_evs C17_ex_increasing) as [_ E].
  - rewrite C17_ex_window. cbn. lia.
  - exact C17_ex_not_stale.
  - assert (Hs : (last (data_stamps ex_evs) 0 - nth (length (data_stamps ex_evs) - Z.to_nat 4 - 1) (data_stamps ex_evs) 0)%Z
                 = 4000000000%Z) by (vm_compute; reflexivity).
    rewrite E, C17_ex_window, Hs. lra.
Qed.
Example C17_ex_stale : snd (hist ROps (ex_evs ++ [Heartbeat 5600000000])) = true.
Proof.
  apply C17_stale_iff. exists ex_evs, 5600000000%Z, []. repeat split; discriminate.
Qed.

(* ====================================================================================================================
   SYNTACTIC SOURCE TIE.  gen/SrcRate.v is regenerated on every run by translate/tr_C17_rate.py from the clang AST of the
   current Time.hpp / RateMonitoring.cpp / CheckupRate.cpp; the functions the theorems above are about ARE those generated
   terms, for every numeric dictionary (SrcTieC17.v).  A generated transformer takes the parameters, then the fields it
   reads (by name), and returns the fields it writes (by name) and then the returned value.
   ==================================================================================================================== *)
Local Open Scope Z_scope.

Theorem C17_source_tie_durations : forall T (N : NumOps T) d,
  src_durationToNanoSecond d = d /\ src_durationToSecond N d = duration_to_second N d.
Proof. intros. split; reflexivity. Qed.

(* initialize: windowSize_ = min(max(static_cast<size_t>(2 * expectedRate), MINIMAL), MAXIMAL) *)
Theorem C17_source_tie_initialize : forall T (N : NumOps T) r, src_rm_initialize N r = window_size N r.
Proof. exact @tie_initialize. Qed.
Print Assumptions C17_source_tie_initialize.

(* update: arguments = duration, lastDuration_, periodsSum_, periods_, rate_, windowSize_;
   result = (lastDuration_, lastPeriod_, periodsSum_, periods_, rate_, returned value).  lastPeriod_ is read by no method. *)
Theorem C17_source_tie_update : forall T (N : NumOps T) (s : rmon) d,
  let '(last, lastPeriod, sum, periods, rate, ret) :=
    src_rm_update N d (rm_last s) (rm_sum s) (rm_periods s) (rm_rate s) (rm_window s) in
  {| rm_window := rm_window s; rm_last := last; rm_periods := periods; rm_sum := sum; rm_rate := rate |} = rm_update N s d
  /\ ret = rm_rate (rm_update N s d) /\ lastPeriod = d - rm_last s.
Proof. exact @tie_update. Qed.
Print Assumptions C17_source_tie_update.

(* timeout: arguments = duration, lastDuration_, periods_, rate_; result = (rate_, returned value) *)
Theorem C17_source_tie_timeout : forall T (N : NumOps T) (s : rmon) d,
  (let '(rate, fired) := src_rm_timeout N d (rm_last s) (rm_periods s) (rm_rate s) in
   ({| rm_window := rm_window s; rm_last := rm_last s; rm_periods := rm_periods s; rm_sum := rm_sum s; rm_rate := rate |}, fired))
  = rm_timeout N s d.
Proof. exact @tie_timeout. Qed.
Print Assumptions C17_source_tie_timeout.

Theorem C17_source_tie_getRate : forall T (s : rmon (T:=T)), src_rm_getRate (rm_rate s) = rm_rate s.
Proof. exact @tie_getRate. Qed.

(* CheckupRate<CheckupType>: the member objects are abstract in the generated terms; instantiated with the monitor's and
   the check-up's transformers (themselves tied above and by the C18 source-tie theorems), they are the model's functions *)
Theorem C17_source_tie_checkup_evaluate : forall T (N : NumOps T) (c : crate) stamp,
  (let '(chk, mon, st) := src_cr_evaluate_equal checkup rmon (eval_equal_to N) (mon_update N) stamp (cr_chk c) (cr_mon c) in
   ({| cr_mon := mon; cr_chk := chk |}, st)) = cr_evaluate N KEqual c stamp /\
  (let '(chk, mon, st) := src_cr_evaluate_greater checkup rmon (eval_greater_than N) (mon_update N) stamp (cr_chk c) (cr_mon c) in
   ({| cr_mon := mon; cr_chk := chk |}, st)) = cr_evaluate N KGreater c stamp.
Proof. intros. split. - apply tie_cr_evaluate_equal. - apply tie_cr_evaluate_greater. Qed.
Print Assumptions C17_source_tie_checkup_evaluate.

(* the monitor's update as a member-object method: the generated update packed into the record *)
Theorem C17_source_tie_monitor_method : forall T (N : NumOps T) (m : rmon) d,
  (let '(last, _, sum, periods, rate, ret) :=
     src_rm_update N d (rm_last m) (rm_sum m) (rm_periods m) (rm_rate m) (rm_window m) in
   ({| rm_window := rm_window m; rm_last := last; rm_periods := periods; rm_sum := sum; rm_rate := rate |}, ret))
  = mon_update N m d.
Proof. exact @tie_mon_update. Qed.

Theorem C17_source_tie_heartbeat : forall T (N : NumOps T) (c : crate) stamp,
  (let '(chk, mon, alive) := src_cr_heartbeat_equal checkup rmon checkup_timeout (rm_timeout N) stamp (cr_chk c) (cr_mon c) in
   ({| cr_mon := mon; cr_chk := chk |}, alive)) = cr_heartbeat N c stamp /\
  (let '(chk, mon, alive) := src_cr_heartbeat_greater checkup rmon checkup_timeout (rm_timeout N) stamp (cr_chk c) (cr_mon c) in
   ({| cr_mon := mon; cr_chk := chk |}, alive)) = cr_heartbeat N c stamp.
Proof. intros. split. - apply tie_cr_heartbeat_equal. - apply tie_cr_heartbeat_greater. Qed.
Print Assumptions C17_source_tie_heartbeat.

Theorem C17_source_tie_getReport : forall T (c : crate (T:=T)),
  src_cr_getReport_equal checkup chk_getReport (cr_chk c) = (cr_chk c, c_report (cr_chk c)) /\
  src_cr_getReport_greater checkup chk_getReport (cr_chk c) = (cr_chk c, c_report (cr_chk c)).
Proof. exact @tie_cr_getReport. Qed.

(* ====================================================================================================================
   BINARY64.  The same model at the rounded dictionary B64Ops (GridMapFloat.v: every C++ double operation is the real
   operation followed by one rounding to nearest-even in FLT(-1074, 53)); by the source tie (every dictionary) this is
   also the generated term at B64Ops.  Stamps, periods and the running sum are integers: only 1e9 / (sum / double(W)),
   2 * expectedRate and count / 1e9 > 0.5 are computed in double.
   ==================================================================================================================== *)
Local Open Scope R_scope.

(* integer sum below 2^53 ns (104 days), W in [4, 64]: two roundings, relative error at most 3 * 2^-53 *)
Theorem C17_rate_binary64_rel_error : forall sum w, (0 < sum < 2 ^ 53)%Z -> (4 <= w <= 64)%Z ->
  rate_of_sum B64Ops sum w = rnd64 (1000000000 / rnd64 (IZR sum / IZR w)) /\
  (exists d, Rabs d <= 3 * Raux.bpow Zaux.radix2 (-53) /\ rate_of_sum B64Ops sum w = (IZR w * 1000000000 / IZR sum) * (1 + d)) /\
  Rabs (rate_of_sum B64Ops sum w - IZR w * 1000000000 / IZR sum) <= 3 * Raux.bpow Zaux.radix2 (-53) * (IZR w * 1000000000 / IZR sum).
Proof.
  intros sum w Hs Hw. exact (conj (rate_b64_unfold sum w Hs Hw) (conj (rate_b64_rel_error sum w Hs Hw) (rate_b64_abs_error sum w Hs Hw))).
Qed.
Print Assumptions C17_rate_binary64_rel_error.

(* W a power of two (4, 8, 16, 32, 64): sum / W is exact, the rate is the CORRECTLY ROUNDED W * 1e9 / sum (one rounding,
   relative error 2^-53), and exactly that quotient when it is a double *)
Theorem C17_rate_binary64_pow2_window : forall sum w, (0 < sum < 2 ^ 53)%Z -> (exists k, (2 <= k <= 6)%Z /\ w = (2 ^ k)%Z) ->
  rate_of_sum B64Ops sum w = rnd64 (IZR w * 1000000000 / IZR sum) /\
  (exists d, Rabs d <= Raux.bpow Zaux.radix2 (-53) /\ rate_of_sum B64Ops sum w = (IZR w * 1000000000 / IZR sum) * (1 + d)) /\
  (b64 (IZR w * 1000000000 / IZR sum) -> rate_of_sum B64Ops sum w = IZR w * 1000000000 / IZR sum).
Proof.
  intros sum w Hs Hw. exact (conj (rate_b64_pow2_window sum w Hs Hw) (conj (rate_b64_pow2_rel_error sum w Hs Hw) (rate_b64_exact sum w Hs Hw))).
Qed.
Print Assumptions C17_rate_binary64_pow2_window.

(* the window size and the time-out test are EXACT in binary64 *)
Theorem C17_rate_binary64_window_exact : forall r, b64 r -> window_size B64Ops r = window_size ROps r.
Proof. exact window_b64_eq_real. Qed.

Theorem C17_rate_binary64_timeout_exact : forall (s : rmon (T:=R)) t, (Z.abs (t - rm_last s) < 2 ^ 53)%Z ->
  rm_timeout B64Ops s t = rm_timeout ROps s t /\
  snd (rm_timeout B64Ops s t) = negb (is_nil (rm_periods s)) && (500000000 <? t - rm_last s)%Z.
Proof. intros s t H. exact (conj (timeout_b64_eq_real s t H) (timeout_b64_rule s t H)). Qed.
Print Assumptions C17_rate_binary64_timeout_exact.

(* end to end: the double published after ANY history (strictly increasing stamps, more than W of them, no time-out
   pending, window span below 2^53 ns) is W / (span in seconds) up to 3 * 2^-53 relative *)
Theorem C17_rate_binary64_after_history : forall r evs,
  let W := window_size B64Ops r in let ds := data_stamps evs in
  increasing ds -> (W < Z.of_nat (length ds))%Z -> snd (hist B64Ops evs) = false ->
  let span := (last ds 0 - nth (length ds - Z.to_nat W - 1) ds 0)%Z in
  (span < 2 ^ 53)%Z ->
  (0 < span)%Z /\
  exists d, Rabs d <= 3 * Raux.bpow Zaux.radix2 (-53) /\
            rm_rate (rm_run B64Ops (rm_init B64Ops r) evs) = IZR W / (IZR span / 1000000000) * (1 + d).
Proof. exact rate_b64_history. Qed.
Print Assumptions C17_rate_binary64_after_history.

Theorem C17_rate_binary64_after_history_pow2 : forall r evs,
  let W := window_size B64Ops r in let ds := data_stamps evs in
  increasing ds -> (W < Z.of_nat (length ds))%Z -> snd (hist B64Ops evs) = false ->
  let span := (last ds 0 - nth (length ds - Z.to_nat W - 1) ds 0)%Z in
  (span < 2 ^ 53)%Z -> (exists k, (2 <= k <= 6)%Z /\ W = (2 ^ k)%Z) ->
  rm_rate (rm_run B64Ops (rm_init B64Ops r) evs) = rnd64 (IZR W / (IZR span / 1000000000)).
Proof. exact rate_b64_history_pow2. Qed.

(* non-vacuity in binary64: the 1 Hz history above publishes exactly 1; 0.4 s window of 4 periods publishes exactly 10 *)
Example C17_ex_binary64_rate : rm_rate (rm_run B64Ops (rm_init B64Ops 1) ex_evs) = 1.
Proof. exact ex_rate64. Qed.
Example C17_ex_binary64_values : rate_of_sum B64Ops 4000000000 4 = 1 /\ rate_of_sum B64Ops 400000000 4 = 10.
Proof. exact (conj rate_b64_4s_window4 rate_b64_400ms_window4). Qed.
