(* Properties_C17.v — C17: rate monitoring and rate check-ups follow the stamped-event history exactly.
   Only statements, each closed by [exact <lemma>] and followed by Print Assumptions.

   Vocabulary (RateProofs.v):  events are [Data stamp | Heartbeat stamp] with stamps in integer nanoseconds;
   [data_stamps evs] = the data stamps in order of arrival;  [diffs 0 ds] = their periods, the first one measured
   from 0 (the code's lastDuration_ starts at Duration::zero(), so the first "period" is the first stamp itself);
   [lastn n l] = the last n entries;  [hist N evs] = (data stamps, stale) where stale is set by a heartbeat that
   finds a stamp seen and the silence > 0.5 s, and cleared by the next data stamp (spelled out by C17_stale_iff). *)
From Coq Require Import Reals ZArith List Bool Lra Lia.
From Romea Require Import Num NumR DiagModel RateModel RateProofs.
From Romea.gen Require Import RepoConstants.
Import ListNotations.
Local Open Scope Z_scope.

(* --- for every numeric instance (so also for the binary64 instance that is executed), any stamps --- *)

(* the queue holds the last min(k, W) periods, its integer sum is their sum, the reference stamp is the last one *)
Theorem C17_queue_is_last_periods : forall T (N : NumOps T) r evs,
  let W := window_size N r in let ds := data_stamps evs in
  let s := rm_run N (rm_init N r) evs in
  rm_periods s = lastn (Nat.min (length ds) (Z.to_nat W)) (diffs 0 ds) /\
  rm_sum s = zsum (rm_periods s) /\ rm_last s = last ds 0 /\ rm_window s = W.
Proof. exact @queue_is_last_periods. Qed.
Print Assumptions C17_queue_is_last_periods.

(* once more than W stamps have been seen the sum is stamp_k - stamp_(k-W): the time spanned by the last W periods *)
Theorem C17_sum_is_span : forall T (N : NumOps T) r evs,
  let W := window_size N r in let ds := data_stamps evs in
  (Z.to_nat W < length ds)%nat ->
  rm_sum (rm_run N (rm_init N r) evs) = (last ds 0 - nth (length ds - Z.to_nat W - 1) ds 0)%Z.
Proof. exact @sum_is_span. Qed.
Print Assumptions C17_sum_is_span.

(* the rate is 0 until W+1 stamps have been seen (whatever the heartbeats) *)
Theorem C17_rate_zero_until_full : forall T (N : NumOps T) r evs,
  (Z.of_nat (length (data_stamps evs)) <= window_size N r)%Z -> rm_rate (rm_run N (rm_init N r) evs) = nzero N.
Proof. exact @rate_zero_until_full. Qed.
Print Assumptions C17_rate_zero_until_full.

(* complete description of the published rate after any history *)
Theorem C17_rate_follows_history : forall T (N : NumOps T) r evs,
  rm_rate (rm_run N (rm_init N r) evs) = spec_rate N (window_size N r) (data_stamps evs) (snd (hist N evs)).
Proof. exact @rate_follows_history. Qed.
Print Assumptions C17_rate_follows_history.

Theorem C17_window_in_range : forall T (N : NumOps T) r, (rate_min_window <= window_size N r <= rate_max_window)%Z.
Proof. exact @window_size_range. Qed.

(* --- over the reals --- *)
Local Open Scope R_scope.

(* W = clamp(floor(2 * expected rate), 4, 64)  (constants regenerated from the source on every run) *)
Theorem C17_window_size_clamp : forall r, 0 <= r ->
  window_size ROps r = Z.min (Z.max (Raux.Zfloor (2 * r)) 4) 64.
Proof. exact window_size_R. Qed.
Print Assumptions C17_window_size_clamp.

(* strictly increasing stamps, more than W of them, no time-out since the last one:
   rate = W / (time spanned by the last W periods, in seconds), and that span is positive *)
Theorem C17_rate_is_W_over_span : forall r evs,
  let W := window_size ROps r in let ds := data_stamps evs in
  increasing ds -> (W < Z.of_nat (length ds))%Z -> snd (hist ROps evs) = false ->
  let span := (last ds 0 - nth (length ds - Z.to_nat W - 1) ds 0)%Z in
  (0 < span)%Z /\ rm_rate (rm_run ROps (rm_init ROps r) evs) = IZR W / (IZR span / 1000000000).
Proof. exact rate_is_W_over_span. Qed.
Print Assumptions C17_rate_is_W_over_span.

(* the time-out call: fires iff a stamp was seen (queue not empty) and the silence exceeds 0.5 s = 500000000 ns;
   then only the rate changes (to 0); otherwise the state is unchanged *)
Theorem C17_timeout_rule : forall (s : rmon) t,
  let '(s', b) := rm_timeout ROps s t in
  (b = true <-> rm_periods s <> [] /\ (500000000 < t - rm_last s)%Z) /\
  (b = true -> s' = {| rm_window := rm_window s; rm_last := rm_last s; rm_periods := rm_periods s; rm_sum := rm_sum s; rm_rate := 0 |}) /\
  (b = false -> s' = s).
Proof. exact timeout_rule_R. Qed.
Print Assumptions C17_timeout_rule.

Theorem C17_stamp_seen_iff_queue_nonempty : forall r evs,
  rm_periods (rm_run ROps (rm_init ROps r) evs) <> [] <-> data_stamps evs <> [].
Proof. exact periods_nonempty_iff. Qed.

(* the stale flag of a history: some heartbeat after the last data stamp arrived more than 0.5 s after it *)
Theorem C17_stale_iff : forall evs,
  snd (hist ROps evs) = true <->
  exists pre t post, evs = pre ++ Heartbeat t :: post /\ data_stamps post = [] /\ data_stamps pre <> [] /\
                     (500000000 < t - last (data_stamps pre) 0)%Z.
Proof. exact stale_iff. Qed.
Print Assumptions C17_stale_iff.

(* the report of a rate check-up after any history: "no data received" before the first stamp; STALE / "timeout" /
   empty value (and rate 0) from a time-out until the next stamp; otherwise the value is the current rate and status
   and message are OK / too low / too high by the configured threshold *)
Theorem C17_report_agrees_with_rate : forall k r eps evs, 0 <= eps ->
  let c := cr_final ROps k (cr_init ROps r eps) evs in
  let ds := data_stamps evs in let stale := snd (hist ROps evs) in
  let rate := rm_rate (cr_mon c) in
  rate = spec_rate ROps (window_size ROps r) ds stale /\
  (ds = [] -> c_report (cr_chk c) = no_data_report) /\
  (ds <> [] -> stale = true -> c_report (cr_chk c) = stale_report /\ rate = 0) /\
  (ds <> [] -> stale = false -> verdict_R k r eps rate (c_report (cr_chk c))).
Proof. exact report_agrees_with_rate. Qed.
Print Assumptions C17_report_agrees_with_rate.

(* "after every event": entry i of the per-event log (what the driver prints and the harness is compared with) is the
   rate and report of the state reached after the first i+1 events, to which the theorem above applies *)
Theorem C17_log_is_prefix_states : forall T (N : NumOps T) k evs c i, (i < length evs)%nat ->
  exists o, nth_error (cr_run N k c evs) i =
    Some (o, rm_rate (cr_mon (cr_final N k c (firstn (S i) evs))), c_report (cr_chk (cr_final N k c (firstn (S i) evs)))) /\
    o = snd (cr_step N k (cr_final N k c (firstn i evs)) (nth i evs (Data 0))).
Proof. exact @cr_run_nth. Qed.
Print Assumptions C17_log_is_prefix_states.

Theorem C17_monitor_inside_checkup : forall T (N : NumOps T) k c evs,
  cr_mon (cr_final N k c evs) = rm_run N (cr_mon c) evs.
Proof. exact @cr_mon_final. Qed.

Theorem C17_returned_is_stored : forall T (N : NumOps T) k c d,
  let '(c', o) := cr_step N k c (Data d) in o = OData (d_status (r_diag (c_report (cr_chk c')))).
Proof. exact @returned_is_stored_rate. Qed.

(* earlier heartbeats change nothing: neither the monitor nor the report *)
Theorem C17_early_heartbeat_changes_nothing : forall T (N : NumOps T) k c t,
  snd (rm_timeout N (cr_mon c) t) = false -> cr_step N k c (Heartbeat t) = (c, OBeat true).
Proof. exact @early_heartbeat_changes_nothing. Qed.
Print Assumptions C17_early_heartbeat_changes_nothing.

Theorem C17_heartbeat_alive_iff_no_timeout : forall T (N : NumOps T) k c t,
  snd (cr_step N k c (Heartbeat t)) = OBeat (negb (snd (rm_timeout N (cr_mon c) t))).
Proof. exact @heartbeat_alive_iff. Qed.
Print Assumptions C17_heartbeat_alive_iff_no_timeout.

(* --- non-vacuity: a 1 Hz source (W = clamp(2,4,64) = 4), 5 stamps 1 s apart starting at 1 s with an early heartbeat
       in between: rate = 4 / 4 s = 1; a heartbeat 0.6 s after the last stamp then makes the history stale --- *)
Definition ex_evs : list event :=
  [Data 1000000000; Data 2000000000; Heartbeat 2400000000; Data 3000000000; Data 4000000000; Data 5000000000].
Example C17_ex_window : window_size ROps 1 = 4%Z.
Proof.
  rewrite C17_window_size_clamp by lra. replace (2 * 1) with (IZR 2) by lra.
  rewrite Raux.Zfloor_IZR. reflexivity.
Qed.
Example C17_ex_increasing : increasing (data_stamps ex_evs).
Proof.
  intros i j H. cbn [ex_evs data_stamps length] in *.
  do 5 (destruct i as [|i]; [do 5 (destruct j as [|j]; [cbn [nth]; lia|]); cbn in H; lia|]). cbn in H; lia.
Qed.
Example C17_ex_not_stale : snd (hist ROps ex_evs) = false.
Proof. unfold hist, ex_evs. cbn [fold_left hstep fst snd]. reflexivity. Qed.
Example C17_ex_rate : rm_rate (rm_run ROps (rm_init ROps 1) ex_evs) = 1.
Proof.
  destruct (C17_rate_is_W_over_span 1 ex_evs C17_ex_increasing) as [_ E].
  - rewrite C17_ex_window. cbn. lia.
  - exact C17_ex_not_stale.
  - assert (Hs : (last (data_stamps ex_evs) 0 - nth (length (data_stamps ex_evs) - Z.to_nat 4 - 1) (data_stamps ex_evs) 0)%Z
                 = 4000000000%Z) by (vm_compute; reflexivity).
    rewrite E, C17_ex_window, Hs. lra.
Qed.
Example C17_ex_stale : snd (hist ROps (ex_evs ++ [Heartbeat 5600000000])) = true.
Proof.
  apply C17_stale_iff. exists ex_evs, 5600000000%Z, []. repeat split; discriminate.
Qed.
