(* Properties_C17.v — C17 (work in progress). *)
From Coq Require Import Reals ZArith List Bool Lra Lia.
From Romea Require Import Num NumR DiagModel RateModel RateProofs.
From Romea.gen Require Import RepoConstants.
Import ListNotations.

Theorem C17_window_size_range : forall T (N : NumOps T) r, (rate_min_window <= window_size N r <= rate_max_window)%Z.
Proof. exact @window_size_range. Qed.
