(* SrcNormalsLib.v — what the terms of gen/SrcNormals.v (translate/tr_C09_normals.py) are built from, besides the numeric
   dictionary of Num.v and arr_set / eig_norm of SrcEigen.v.  Definitions and small generic facts only; no property of the
   code is stated here.

   LOOPS.  `for (size_t i = 0; i < n; ++i)` is a fold_left over [zrange n] = [0; 1; ..; n-1] (integers are unbounded Z).
   INDEX VECTORS.  std::vector<size_t> is a list Z read with [znth] (an out-of-range read — undefined in C++ — gives 0).
   EIGEN REDUCTIONS (trusted reading of the library, as in SrcEigen.v and in the hand-written model): a.dot(b) and
   a.sum() are accumulated from the left starting at zero.
   EIGEN-SOLVER ORACLE.  Its result is a pair (eigenvalues, eigenvectors as a list of COLUMNS), as in NormalsModel.v;
   [eig_val r i] is eigenvalues()(i) and [eig_vec r i j] is eigenvectors()(i, j) (row i of column j). *)
From Coq Require Import ZArith List Lia.
From Romea Require Import Num SrcEigen.
Import ListNotations.

Definition znth (l : list Z) (i : Z) : Z := nth (Z.to_nat i) l 0%Z.
Definition zrange (n : Z) : list Z := map Z.of_nat (seq 0 (Z.to_nat n)).

Section Dict.
Context {T : Type} (N : NumOps T).

Fixpoint eig_dot_acc (acc : T) (a b : list T) : T :=
  match a, b with x :: a', y :: b' => eig_dot_acc (nadd N acc (nmul N x y)) a' b' | _, _ => acc end.
Definition eig_dot (a b : list T) : T := eig_dot_acc (nzero N) a b.
Definition eig_sum (a : list T) : T := fold_left (nadd N) a (nzero N).

Definition eig_val (r : list T * list (list T)) (i : nat) : T := nth i (fst r) (nzero N).
Definition eig_vec (r : list T * list (list T)) (i j : nat) : T := nth i (nth j (snd r) []) (nzero N).

(* what the tie lemmas need from a dictionary: the literal 0 is the zero of the models, and multiplying by the literal -1
   (`head<DIM>() *= -1`) is the negation the model uses.  Holds at the real dictionary (SrcTieC09.v) and, exactly, in IEEE
   arithmetic. *)
Record NormLits : Prop := mkNormLits {
  nl_zero : nofZ N 0%Z = nzero N;
  nl_negone : forall x, nmul N x (nofZ N (-1)%Z) = nneg N x }.
End Dict.

(* ---- generic facts about the loops *)
Lemma zrange_of_nat n : zrange (Z.of_nat n) = map Z.of_nat (seq 0 n).
Proof. unfold zrange. rewrite Nat2Z.id. reflexivity. Qed.

Lemma zrange_snoc n : zrange (Z.of_nat (S n)) = zrange (Z.of_nat n) ++ [Z.of_nat n].
Proof. rewrite !zrange_of_nat, seq_S, map_app. reflexivity. Qed.

Lemma in_zrange n i : In i (zrange n) <-> (0 <= i < n)%Z.
Proof.
  unfold zrange. rewrite in_map_iff. split.
  - intros [k [<- Hk]]. apply in_seq in Hk. lia.
  - intros H. exists (Z.to_nat i). split; [lia|]. apply in_seq. lia.
Qed.

Lemma znth_of_nat l k : znth l (Z.of_nat k) = nth k l 0%Z.
Proof. unfold znth. rewrite Nat2Z.id. reflexivity. Qed.

Lemma fold_left_ext_in {A S : Type} (f g : S -> A -> S) (l : list A) :
  (forall a, In a l -> forall s, f s a = g s a) -> forall s, fold_left f l s = fold_left g l s.
Proof.
  induction l as [|a l IH]; intros H s; [reflexivity|]. cbn [fold_left].
  rewrite H by (left; reflexivity). apply IH. intros b Hb. apply H. right. exact Hb.
Qed.

(* a fold over a list = the loop over its indexes *)
Lemma fold_left_map_idx {A S : Type} (f : S -> A -> S) (h : Z -> A) (l : list Z) (s : S) :
  fold_left f (map h l) s = fold_left (fun st i => f st (h (znth l i))) (zrange (Z.of_nat (length l))) s.
Proof.
  revert s. induction l as [|a l IH] using rev_ind; intros s; [reflexivity|].
  rewrite app_length, Nat.add_comm. cbn [length plus]. rewrite zrange_snoc, map_app, !fold_left_app. cbn [map fold_left].
  rewrite znth_of_nat, app_nth2, Nat.sub_diag by lia. cbn [nth]. f_equal.
  rewrite IH. apply fold_left_ext_in. intros i Hi st. apply in_zrange in Hi.
  unfold znth. rewrite app_nth1 by lia. reflexivity.
Qed.

(* two loops over the same list that keep a relation between their states *)
Lemma fold_left_rel {A S1 S2 : Type} (R : S1 -> S2 -> Prop) (g : S1 -> A -> S1) (h : S2 -> A -> S2) (l : list A) :
  (forall a s1 s2, In a l -> R s1 s2 -> R (g s1 a) (h s2 a)) ->
  forall s1 s2, R s1 s2 -> R (fold_left g l s1) (fold_left h l s2).
Proof.
  induction l as [|a l IH]; intros H s1 s2 HR; [exact HR|]. cbn [fold_left].
  apply IH; [intros b t1 t2 Hb; apply H; right; exact Hb|]. apply H; [left; reflexivity|exact HR].
Qed.

(* a loop over 0..n-1 whose step i changes entry i of an array only, by a function of the old entry *)
Lemma fold_zrange_pointwise {S A : Type} (step : S -> Z -> S) (get : S -> Z -> A) (F : Z -> A -> A) (n : nat) :
  (forall s i, (0 <= i < Z.of_nat n)%Z -> get (step s i) i = F i (get s i)) ->
  (forall s i j, j <> i -> get (step s i) j = get s j) ->
  forall s0 j,
    ((0 <= j < Z.of_nat n)%Z -> get (fold_left step (zrange (Z.of_nat n)) s0) j = F j (get s0 j)) /\
    (~ (0 <= j < Z.of_nat n)%Z -> get (fold_left step (zrange (Z.of_nat n)) s0) j = get s0 j).
Proof.
  induction n as [|n IH]; intros Hsame Hother s0 j.
  - split; [lia|]. intros _. reflexivity.
  - rewrite zrange_snoc, fold_left_app. cbn [fold_left].
    destruct (IH (fun s i Hi => Hsame s i ltac:(lia)) Hother s0 j) as [IH1 IH2].
    destruct (Z.eq_dec j (Z.of_nat n)) as [->|Hne].
    + split; [|lia]. intros _. rewrite Hsame, IH2 by lia. reflexivity.
    + rewrite Hother by exact Hne. split; intros H; [apply IH1|apply IH2]; lia.
Qed.

Lemma firstn_nth2 {A} (d : A) l : length l = 2%nat -> firstn 2 l = [nth 0 l d; nth 1 l d].
Proof. destruct l as [|a [|b [|c l]]]; intros H; try discriminate H; reflexivity. Qed.
Lemma firstn_nth3 {A} (d : A) l : length l = 3%nat -> firstn 3 l = [nth 0 l d; nth 1 l d; nth 2 l d].
Proof. destruct l as [|a [|b [|c [|e l]]]]; intros H; try discriminate H; reflexivity. Qed.
