(* DiagProofs.v — lemmas about DiagModel.v (C18). *)
From Coq Require Import Reals ZArith List Bool Lra Lia Sorted.
From Romea Require Import Num NumR DiagModel.
From Romea.gen Require Import RepoConstants.
Import ListNotations.

(* ------------------------------------------------------------------ status algebra *)
Lemma status_order : (status_val OK < status_val WARN < status_val ERROR)%Z /\ (status_val ERROR < status_val STALE)%Z.
Proof. vm_compute. repeat split; reflexivity. Qed.

Lemma status_val_inj a b : status_val a = status_val b -> a = b.
Proof. destruct a, b; vm_compute; intros H; try reflexivity; discriminate. Qed.

Lemma worse_comm a b : worse a b = worse b a.
Proof. destruct a, b; vm_compute; reflexivity. Qed.
Lemma worse_assoc a b c : worse a (worse b c) = worse (worse a b) c.
Proof. destruct a, b, c; vm_compute; reflexivity. Qed.
Lemma worse_idem a : worse a a = a.
Proof. destruct a; vm_compute; reflexivity. Qed.
Lemma worse_is_max a b : status_val (worse a b) = Z.max (status_val a) (status_val b).
Proof. destruct a, b; vm_compute; reflexivity. Qed.
Lemma worse_OK_iff a b : worse a b = OK <-> a = OK /\ b = OK.
Proof.
  destruct a, b; vm_compute;
    (split; [intros H; try discriminate H; split; reflexivity
            |intros [H1 H2]; try discriminate H1; try discriminate H2; reflexivity]).
Qed.

Lemma fold_worse_val l s0 :
  status_val (fold_left (fun acc x => worse acc (d_status x)) l s0)
  = fold_left (fun m x => Z.max m (status_val (d_status x))) l (status_val s0).
Proof.
  revert s0. induction l as [|d l IH]; intros s0; cbn [fold_left]; [reflexivity|].
  rewrite IH, worse_is_max. reflexivity.
Qed.

Lemma fold_max_ge l m0 :
  (m0 <= fold_left (fun m x => Z.max m (status_val (d_status x))) l m0)%Z /\
  (forall d, In d l -> (status_val (d_status d) <= fold_left (fun m x => Z.max m (status_val (d_status x))) l m0)%Z).
Proof.
  revert m0. induction l as [|d l IH]; intros m0; cbn [fold_left].
  - split; [lia|intros d []].
  - destruct (IH (Z.max m0 (status_val (d_status d)))) as [A B]. split; [lia|].
    intros d' [<-|Hin]; [lia|apply B; exact Hin].
Qed.

Lemma fold_worse_attained l s0 :
  let s := fold_left (fun acc x => worse acc (d_status x)) l s0 in
  s = s0 \/ exists d, In d l /\ d_status d = s.
Proof.
  revert s0. induction l as [|d l IH]; intros s0; cbn [fold_left]; [left; reflexivity|].
  destruct (IH (worse s0 (d_status d))) as [E|[d' [Hin E]]].
  - cbv zeta in E. rewrite E. unfold worse. destruct (Z.geb _ _); [left; reflexivity|].
    right. exists d. split; [left; reflexivity|reflexivity].
  - right. exists d'. split; [right; exact Hin|exact E].
Qed.

(* worst status of a non-empty list is its maximum: an upper bound that is attained *)
Lemma worst_is_max l : l <> [] ->
  exists s, worseStatus l = Some s /\
            (forall d, In d l -> (status_val (d_status d) <= status_val s)%Z) /\
            (exists d, In d l /\ d_status d = s).
Proof.
  destruct l as [|d l]; [congruence|intros _]. cbn [worseStatus]. eexists; split; [reflexivity|]. split.
  - intros d' Hin. rewrite fold_worse_val.
    destruct (fold_max_ge l (status_val (d_status d))) as [A B].
    destruct Hin as [<-|Hin]; [exact A|apply B; exact Hin].
  - destruct (fold_worse_attained l (d_status d)) as [E|[d' [Hin E]]].
    + exists d. split; [left; reflexivity|symmetry; exact E].
    + exists d'. split; [right; exact Hin|exact E].
Qed.

Lemma worseStatus_empty : worseStatus [] = None.
Proof. reflexivity. Qed.

Lemma status_eqb_eq a b : status_eqb a b = true <-> a = b.
Proof. destruct a, b; cbn; split; intros; try discriminate; reflexivity. Qed.

Lemma allOK_iff l : l <> [] ->
  (allOK l = Some true <-> Forall (fun d => d_status d = OK) l) /\
  (allOK l = Some true \/ allOK l = Some false).
Proof.
  intros Hne. destruct (worst_is_max l Hne) as [s [Hs [Hub [d [Hin Hd]]]]].
  unfold allOK. rewrite Hs. split.
  - split.
    + intros H. injection H as H. apply status_eqb_eq in H. rewrite H in Hub.
      apply Forall_forall. intros d' Hd'. specialize (Hub d' Hd').
      destruct (d_status d'); [reflexivity|exfalso; vm_compute in Hub; apply Hub; reflexivity ..].
    + intros H. rewrite Forall_forall in H. specialize (H d Hin). rewrite Hd in H. rewrite H. reflexivity.
  - destruct (status_eqb s OK); auto.
Qed.

(* ------------------------------------------------------------------ report append *)
Lemma append_diags r1 r2 : rep_diags (report_append r1 r2) = rep_diags r1 ++ rep_diags r2.
Proof. reflexivity. Qed.

Fixpoint lookup (k : Z) (m : list (Z * Z)) : option Z :=
  match m with [] => None | (k', v) :: r => if Z.eqb k k' then Some v else lookup k r end.

Definition keys_sorted (m : list (Z * Z)) := StronglySorted Z.lt (map fst m).

Lemma lookup_lt_none k m : keys_sorted m -> (forall k', In k' (map fst m) -> (k < k')%Z) -> lookup k m = None.
Proof.
  induction m as [|[k' v'] m IH]; intros Hs Hlt; cbn [lookup]; [reflexivity|].
  destruct (Z.eqb_spec k k') as [->|Hne].
  - specialize (Hlt k' (or_introl eq_refl)). lia.
  - apply IH; [inversion Hs; assumption|intros k2 H2; apply Hlt; right; exact H2].
Qed.

(* std::map::insert on a sorted association list: existing keys keep their value *)
Lemma map_insert_lookup k v m k0 : keys_sorted m ->
  lookup k0 (map_insert k v m) =
  match lookup k0 m with Some x => Some x | None => if Z.eqb k0 k then Some v else None end.
Proof.
  induction m as [|[k' v'] m IH]; intros Hs; cbn [map_insert lookup].
  - destruct (Z.eqb k0 k); reflexivity.
  - assert (Hs' : keys_sorted m) by (inversion Hs; assumption).
    assert (Hall : forall k2, In k2 (map fst m) -> (k' < k2)%Z).
    { inversion Hs as [|a l Hss Hfa]; subst. rewrite Forall_forall in Hfa. exact Hfa. }
    destruct (Z.ltb_spec k k') as [Hlt|Hge].
    + cbn [lookup]. destruct (Z.eqb_spec k0 k) as [E|Hne];
        [|destruct (Z.eqb k0 k'); [reflexivity|destruct (lookup k0 m); reflexivity]].
      rewrite E. destruct (Z.eqb_spec k k'); [lia|].
      rewrite lookup_lt_none; [reflexivity|exact Hs'|intros k2 H2; specialize (Hall k2 H2); lia].
    + destruct (Z.eqb_spec k k') as [->|Hne].
      * cbn [lookup]. destruct (Z.eqb_spec k0 k'); [reflexivity|]. destruct (lookup k0 m); reflexivity.
      * cbn [lookup]. destruct (Z.eqb_spec k0 k') as [->|]; [reflexivity|]. apply IH. exact Hs'.
Qed.

Lemma map_insert_sorted k v m : keys_sorted m -> keys_sorted (map_insert k v m).
Proof.
  unfold keys_sorted. induction m as [|[k' v'] m IH]; intros Hs; cbn [map_insert map fst].
  - constructor; constructor.
  - destruct (Z.ltb_spec k k') as [Hlt|Hge].
    + cbn [map fst]. constructor; [exact Hs|].
      inversion Hs as [|a l Hss Hfa]; subst. constructor; [exact Hlt|].
      rewrite Forall_forall in *. intros x Hx. specialize (Hfa x Hx). lia.
    + destruct (Z.eqb_spec k k') as [->|Hne]; [exact Hs|].
      cbn [map fst]. inversion Hs as [|a l Hss Hfa]; subst. constructor; [apply IH; exact Hss|].
      rewrite Forall_forall in *. intros x Hx.
      assert (Hx' : x = k \/ In x (map fst m)).
      { clear - Hx. induction m as [|[k2 v2] m IHm]; cbn [map_insert map fst] in Hx.
        - destruct Hx as [<-|[]]; left; reflexivity.
        - destruct (Z.ltb k k2); [cbn [map fst] in Hx; destruct Hx as [<-|Hx]; [left; reflexivity|right; exact Hx]|].
          destruct (Z.eqb k k2); [right; exact Hx|].
          cbn [map fst] in Hx. destruct Hx as [<-|Hx]; [right; left; reflexivity|].
          destruct (IHm Hx) as [->|H]; [left; reflexivity|right; right; exact H]. }
      destruct Hx' as [->|Hx']; [lia|apply Hfa; exact Hx'].
Qed.

(* merging reports: diagnostics concatenate in order; every key of r1 keeps r1's value, new keys
   take r2's value, and the map stays ordered *)
Definition merge_info (m1 m2 : list (Z * Z)) : list (Z * Z) :=
  fold_left (fun m kv => map_insert (fst kv) (snd kv) m) m2 m1.

Lemma append_info_lookup : forall (m2 m1 : list (Z * Z)) (k0 : Z), keys_sorted m1 -> keys_sorted m2 ->
  keys_sorted (merge_info m1 m2) /\
  lookup k0 (merge_info m1 m2) = match lookup k0 m1 with Some x => Some x | None => lookup k0 m2 end.
Proof.
  induction m2 as [|[k v] m2 IH]; intros m1 k0 H1 H2; unfold merge_info; cbn [fold_left].
  - split; [exact H1|]. destruct (lookup k0 m1); reflexivity.
  - assert (H2' : keys_sorted m2) by (inversion H2; assumption).
    destruct (IH (map_insert k v m1) k0 (map_insert_sorted k v m1 H1) H2') as [A B].
    unfold merge_info in A, B. cbn [fst snd]. split; [exact A|]. rewrite B.
    rewrite map_insert_lookup by exact H1. cbn [lookup].
    destruct (lookup k0 m1); [reflexivity|].
    destruct (Z.eqb_spec k0 k) as [->|]; [|reflexivity]. reflexivity.
Qed.

(* ------------------------------------------------------------------ threshold classification over R *)
Local Open Scope R_scope.

Section Thresholds.
Variables (c : checkup (T:=R)) (v : R).
Let cmp := c_cmp c. Let eps := c_eps c.

Lemma equal_to_ok_iff :
  snd (eval_equal_to ROps c v) = OK <-> cmp - eps <= v <= cmp + eps.
Proof.
  unfold eval_equal_to, cmp, eps. cbn [nltb nsub nadd ROps].
  destruct (Rltb v (c_cmp c - c_eps c)) eqn:E1; [apply Rltb_true in E1|apply Rltb_false in E1].
  - cbn. split; [discriminate|lra].
  - destruct (Rltb (c_cmp c + c_eps c) v) eqn:E2; [apply Rltb_true in E2|apply Rltb_false in E2];
      cbn; split; try discriminate; try lra; auto.
Qed.

Lemma equal_to_ok_iff_abs :
  snd (eval_equal_to ROps c v) = OK <-> Rabs (v - cmp) <= eps.
Proof.
  rewrite equal_to_ok_iff. split; intros H.
  - apply Rabs_le. lra.
  - assert (A : - eps <= v - cmp <= eps).
    { split; [|eapply Rle_trans; [apply Rle_abs|exact H]].
      apply Ropp_le_cancel. rewrite Ropp_involutive. eapply Rle_trans; [|exact H].
      rewrite <- Rabs_Ropp. apply Rle_abs. }
    lra.
Qed.

Lemma equal_to_verdicts : 0 <= eps ->
  let r := c_report (fst (eval_equal_to ROps c v)) in
  (v < cmp - eps -> d_status (r_diag r) = ERROR /\ d_suffix (r_diag r) = STooLow) /\
  (cmp + eps < v -> d_status (r_diag r) = ERROR /\ d_suffix (r_diag r) = STooHigh) /\
  (cmp - eps <= v <= cmp + eps -> d_status (r_diag r) = OK /\ d_suffix (r_diag r) = SIsOK) /\
  r_info r = Some v.
Proof.
  unfold eval_equal_to, cmp, eps. cbn [nltb nsub nadd ROps].
  destruct (Rltb v (c_cmp c - c_eps c)) eqn:E1; [apply Rltb_true in E1|apply Rltb_false in E1].
  - (* too high and too low at once would need eps < 0 *)
    intros He. cbn. repeat split; intros; try lra; auto; exfalso; lra.
  - intros He. destruct (Rltb (c_cmp c + c_eps c) v) eqn:E2; [apply Rltb_true in E2|apply Rltb_false in E2];
      cbn; repeat split; intros; try lra; auto.
Qed.

Lemma greater_ok_iff :
  snd (eval_greater_than ROps c v) = OK <-> v > cmp - eps.
Proof.
  unfold eval_greater_than, cmp, eps. cbn [nltb nsub ROps].
  destruct (Rltb (c_cmp c - c_eps c) v) eqn:E1; [apply Rltb_true in E1|apply Rltb_false in E1];
    cbn; split; try discriminate; try lra; auto.
Qed.

Lemma greater_verdicts :
  let r := c_report (fst (eval_greater_than ROps c v)) in
  (v > cmp - eps -> d_status (r_diag r) = OK /\ d_suffix (r_diag r) = SIsOK) /\
  (v <= cmp - eps -> d_status (r_diag r) = ERROR /\ d_suffix (r_diag r) = STooLow) /\
  r_info r = Some v.
Proof.
  unfold eval_greater_than, cmp, eps. cbn [nltb nsub ROps].
  destruct (Rltb (c_cmp c - c_eps c) v) eqn:E1; [apply Rltb_true in E1|apply Rltb_false in E1];
    cbn; repeat split; intros; try lra; auto.
Qed.

Lemma lower_ok_iff :
  snd (eval_lower_than ROps c v) = OK <-> v < cmp + eps.
Proof.
  unfold eval_lower_than, cmp, eps. cbn [nltb nadd ROps].
  destruct (Rltb v (c_cmp c + c_eps c)) eqn:E1; [apply Rltb_true in E1|apply Rltb_false in E1];
    cbn; split; try discriminate; try lra; auto.
Qed.

Lemma lower_verdicts :
  let r := c_report (fst (eval_lower_than ROps c v)) in
  (v < cmp + eps -> d_status (r_diag r) = OK /\ d_suffix (r_diag r) = SIsOK) /\
  (cmp + eps <= v -> d_status (r_diag r) = ERROR /\ d_suffix (r_diag r) = STooHigh) /\
  r_info r = Some v.
Proof.
  unfold eval_lower_than, cmp, eps. cbn [nltb nadd ROps].
  destruct (Rltb v (c_cmp c + c_eps c)) eqn:E1; [apply Rltb_true in E1|apply Rltb_false in E1];
    cbn; repeat split; intros; try lra; auto.
Qed.

(* reliability: c_cmp = low threshold, c_eps = high threshold *)
Lemma reliability_classes :
  let r := c_report (fst (eval_reliability ROps c v)) in
  let s := snd (eval_reliability ROps c v) in
  (v < cmp -> s = ERROR /\ d_suffix (r_diag r) = STooLow) /\
  (cmp <= v -> v < eps -> s = WARN /\ d_suffix (r_diag r) = SUncertain) /\
  (cmp <= v -> eps <= v -> s = OK /\ d_suffix (r_diag r) = SIsHigh) /\
  r_info r = Some v.
Proof.
  unfold eval_reliability, cmp, eps. cbn [nltb ROps].
  destruct (Rltb v (c_cmp c)) eqn:E1; [apply Rltb_true in E1|apply Rltb_false in E1].
  - cbn. repeat split; intros; try lra; auto.
  - destruct (Rltb v (c_eps c)) eqn:E2; [apply Rltb_true in E2|apply Rltb_false in E2];
      cbn; repeat split; intros; try lra; auto.
Qed.
End Thresholds.

(* ------------------------------------------------------------------ any numeric instance: bookkeeping *)
Section Generic.
Context {T : Type} (N : NumOps T).

(* the returned status is the one stored in the report, for every kind of check-up *)
Lemma returned_is_stored k (c : checkup) v :
  let '(c', s) := cstep N k c (Eval v) in s = Some (d_status (r_diag (c_report c'))).
Proof.
  destruct k; cbn [cstep]; unfold eval_equal_to, eval_greater_than, eval_lower_than, eval_reliability;
  repeat match goal with |- context [if ?b then _ else _] => destruct b end; reflexivity.
Qed.

(* verdict table: which (status, message ending, info) combinations a check-up of kind k may show *)
Definition consistent (k : kind) (r : creport (T:=T)) : Prop :=
  let st := d_status (r_diag r) in let sf := d_suffix (r_diag r) in
  (st = STALE /\ sf = STimeout /\ r_info r = None) \/
  (exists v, r_info r = Some v /\
     match k with
     | KEqual => (st = OK /\ sf = SIsOK) \/ (st = ERROR /\ sf = STooLow) \/ (st = ERROR /\ sf = STooHigh)
     | KGreater => (st = OK /\ sf = SIsOK) \/ (st = ERROR /\ sf = STooLow)
     | KLower => (st = OK /\ sf = SIsOK) \/ (st = ERROR /\ sf = STooHigh)
     | KReliability => (st = OK /\ sf = SIsHigh) \/ (st = WARN /\ sf = SUncertain) \/ (st = ERROR /\ sf = STooLow)
     end).

Lemma step_consistent k (c : checkup) o :
  let c' := fst (cstep N k c o) in
  consistent k (c_report c') /\ c_cmp c' = c_cmp c /\ c_eps c' = c_eps c.
Proof.
  destruct o as [v|].
  - destruct k; cbn [cstep]; unfold eval_equal_to, eval_greater_than, eval_lower_than, eval_reliability;
    repeat match goal with |- context [if ?b then _ else _] => destruct b end;
    cbn; (split; [right; exists v; split; [reflexivity|tauto]|split; reflexivity]).
  - cbn. split; [left; auto|split; reflexivity].
Qed.

(* over any sequence of evaluations and timeouts: every intermediate report is consistent, the
   thresholds never change, and each evaluation's report is the one a fresh check-up with the same
   thresholds would produce for that value (no dependence on history) *)
Lemma run_consistent k : forall ops (c : checkup),
  Forall (fun sr => consistent k (snd sr)) (crun N k c ops) /\
  c_cmp (cfinal N k c ops) = c_cmp c /\ c_eps (cfinal N k c ops) = c_eps c.
Proof.
  induction ops as [|o ops IH]; intros c; cbn [crun cfinal fold_left].
  - split; [constructor|split; reflexivity].
  - destruct (step_consistent k c o) as [A [B C]].
    destruct (cstep N k c o) as [c' s] eqn:E. cbn [fst] in *.
    destruct (IH c') as [A' [B' C']]. split; [constructor; [exact A|exact A']|].
    unfold cfinal in *. rewrite B', C'. split; assumption.
Qed.

Lemma step_history_free k (c1 c2 : checkup) o :
  c_cmp c1 = c_cmp c2 -> c_eps c1 = c_eps c2 ->
  c_report (fst (cstep N k c1 o)) = c_report (fst (cstep N k c2 o)) /\ snd (cstep N k c1 o) = snd (cstep N k c2 o).
Proof.
  intros H1 H2. destruct o as [v|]; [|split; reflexivity].
  destruct k; cbn [cstep]; unfold eval_equal_to, eval_greater_than, eval_lower_than, eval_reliability;
  rewrite H1, H2;
  repeat match goal with |- context [if ?b then _ else _] => destruct b end; split; reflexivity.
Qed.
End Generic.
