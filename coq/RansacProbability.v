(* RansacProbability.v — C06: what the iteration bound of RansacIterations means.
   With q in (0,1) the probability that one random draw contains an outlier and p in (0,1) the requested confidence,
   L = ln(1-p)/ln q is the number of draws after which the probability q^L that *every* draw was contaminated has
   fallen to 1-p.  The code keeps K = trunc(L) = floor(L) (conversion of a positive double to size_t).  Hence
       q^(K+1) < 1 - p <= q^K :
   K draws leave a failure probability of at least 1-p (the confidence actually guaranteed is 1 - q^K, which lies in
   (1 - (1-p)/q, p]); K+1 draws would reach p.  Pure real analysis about the formula the source computes; the
   independence of the draws is the textbook idealisation, not something the code or this file establishes. *)
From Coq Require Import Reals ZArith Lra Lia.
From Flocq Require Import Core.Raux.
From Romea Require Import Num NumR RansacModel RansacProofs.
Local Open Scope R_scope.

Lemma pow_as_exp q (n : nat) : 0 < q -> q ^ n = exp (INR n * ln q).
Proof.
  intros Hq. induction n as [|n IH].
  - simpl. rewrite Rmult_0_l, exp_0. reflexivity.
  - rewrite S_INR. simpl pow. rewrite IH. rewrite Rmult_plus_distr_r, Rmult_1_l, exp_plus, exp_ln by exact Hq. ring.
Qed.

Lemma iterations_bracket q p :
  0 < q < 1 -> 0 < p < 1 ->
  let L := ln (1 - p) / ln q in
  let K := Z.to_nat (Zfloor L) in
  0 < L /\ q ^ (S K) < 1 - p <= q ^ K.
Proof.
  intros Hq Hp L K.
  assert (Hlq : ln q < 0). { rewrite <- ln_1. apply ln_increasing; lra. }
  assert (Hlp : ln (1 - p) < 0). { rewrite <- ln_1. apply ln_increasing; lra. }
  assert (HL : 0 < L).
  { unfold L. replace (ln (1 - p) / ln q) with ((- ln (1 - p)) / (- ln q)) by (field; lra).
    apply Rdiv_lt_0_compat; lra. }
  split; [exact HL|].
  assert (Hfl : (0 <= Zfloor L)%Z). { apply Zfloor_lub. simpl. lra. }
  assert (HK : INR K = IZR (Zfloor L)). { unfold K. rewrite INR_IZR_INZ, Z2Nat.id by exact Hfl. reflexivity. }
  pose proof (Zfloor_lb L) as Hlb. pose proof (Zfloor_ub L) as Hub.
  assert (Hid : L * ln q = ln (1 - p)). { unfold L. field. lra. }
  rewrite !pow_as_exp by lra. rewrite S_INR, HK.
  assert (Hp1 : 1 - p = exp (L * ln q)). { rewrite Hid, exp_ln by lra. reflexivity. }
  rewrite Hp1.
  split.
  - apply exp_increasing. nra.
  - destruct (Rle_lt_or_eq_dec _ _ Hlb) as [Hlt|Heq].
    + left. apply exp_increasing. nra.
    + right. rewrite Heq. reflexivity.
Qed.

(* the same for the value the model's update computes (no clamp of the iteration count active) *)
Lemma iterations_update_bracket (s : iters R) (npoints : Z) (p : R) (k sdraw : Z) :
  it_logopp s = ln (1 - p) -> it_oneovern s = / IZR npoints ->
  0 < p < 1 -> (1 <= npoints)%Z -> (1 <= k)%Z -> (0 <= sdraw)%Z ->
  let q := q_clamped (IZR k / IZR npoints) (Z.to_nat sdraw) in
  (iters_get (iters_update ROps s k sdraw) < iters_get s)%Z ->
  let K := Z.to_nat (iters_get (iters_update ROps s k sdraw)) in
  q ^ (S K) < 1 - p <= q ^ K.
Proof.
  intros Ho Hn Hp Hnp Hk Hsd q Hlt K.
  destruct (iters_formula_R s npoints p k sdraw Ho Hn Hp Hnp Hk Hsd) as [_ Hget].
  fold q in Hget. cbv zeta in Hget.
  pose proof (q_clamped_range (IZR k / IZR npoints) (Z.to_nat sdraw)) as Hq. fold q in Hq.
  pose proof Reps_bounds as He.
  assert (Hq01 : 0 < q < 1) by lra.
  destruct (iterations_bracket q p Hq01 Hp) as [_ Hb]. cbv zeta in Hb.
  assert (HK : iters_get (iters_update ROps s k sdraw) = Zfloor (ln (1 - p) / ln q)).
  { unfold iters_get in *. revert Hlt. rewrite Hget. lia. }
  unfold K. rewrite HK. exact Hb.
Qed.
