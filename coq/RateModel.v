(* RateModel.v — executable model of the rate monitor and the rate check-ups (C17):
     src/monitoring/RateMonitoring.cpp, include/romea_core_common/monitoring/RateMonitoring.hpp
     src/diagnostics/CheckupRate.cpp,   include/romea_core_common/diagnostic/CheckupRate.hpp
     include/romea_core_common/time/Time.hpp (Duration = integer nanoseconds, durationToSecond)
   on top of the check-ups of DiagModel.v (C18).  Definitions only (proofs are in RateProofs.v).

   Stamps, periods and the running sum are integers (long long nanoseconds) and are modelled in Z:
   the sum is an *integer* accumulator, so there is no floating-point drift; only the final quotient
   1e9 / (sum / W) and the time-out comparison are computed in double, through the dictionary [N].
   Z is unbounded: the model coincides with the code as long as every stamp (= the running sum while
   the window fills, since the first "period" is the first stamp itself) fits in 63 bits. *)
From Coq Require Import ZArith List Bool.
From Romea Require Import Num DiagModel.
From Romea.gen Require Import RepoConstants.
Import ListNotations.
Local Open Scope Z_scope.

Section Rate.
Context {T : Type} (N : NumOps T).

(* ---------- RateMonitoring ---------- *)
Record rmon := {
  rm_window : Z;            (* windowSize_ *)
  rm_last : Z;              (* lastDuration_ (ns); Duration::zero() initially *)
  rm_periods : list Z;      (* periods_ : front of the queue first *)
  rm_sum : Z;               (* periodsSum_ *)
  rm_rate : T               (* rate_ *)
}.

(* initialize: windowSize_ = static_cast<size_t>(2 * expectedRate), then max with 4, then min with 64 *)
Definition window_size (expected : T) : Z :=
  Z.min (Z.max (ntruncZ N (nmul N (nofDec N rate_window_factor_m rate_window_factor_e) expected)) rate_min_window)
        rate_max_window.

Definition rm_init (expected : T) : rmon :=
  {| rm_window := window_size expected; rm_last := 0; rm_periods := []; rm_sum := 0; rm_rate := nzero N |}.

(* 1000000000. / (periodsSum_ / static_cast<double>(windowSize_)) *)
Definition rate_of_sum (sum w : Z) : T :=
  ndiv N (nofDec N rate_ns_per_s_m rate_ns_per_s_e) (ndiv N (nofZ N sum) (nofZ N w)).

(* update(duration) *)
Definition rm_update (s : rmon) (d : Z) : rmon :=
  let p := d - rm_last s in
  let q := rm_periods s ++ [p] in
  let sum := rm_sum s + p in
  if Z.of_nat (length q) =? rm_window s + 1 then
    let sum' := sum - hd 0 q in
    {| rm_window := rm_window s; rm_last := d; rm_periods := tl q; rm_sum := sum';
       rm_rate := rate_of_sum sum' (rm_window s) |}
  else
    {| rm_window := rm_window s; rm_last := d; rm_periods := q; rm_sum := sum; rm_rate := rm_rate s |}.

(* durationToSecond: count / 1000000000. *)
Definition duration_to_second (d : Z) : T := ndiv N (nofZ N d) (nofDec N time_ns_per_s_m time_ns_per_s_e).

Definition is_nil {A} (l : list A) : bool := match l with [] => true | _ => false end.

(* timeout(duration): !periods_.empty() && durationToSecond(duration - last) > 0.5  =>  rate_ = 0, true *)
Definition rm_timeout (s : rmon) (d : Z) : rmon * bool :=
  if negb (is_nil (rm_periods s)) &&
     nltb N (nofDec N rate_timeout_s_m rate_timeout_s_e) (duration_to_second (d - rm_last s))
  then ({| rm_window := rm_window s; rm_last := rm_last s; rm_periods := rm_periods s; rm_sum := rm_sum s;
           rm_rate := nzero N |}, true)
  else (s, false).

(* ---------- CheckupRate<CheckupEqualTo<double>> / CheckupRate<CheckupGreaterThan<double>> ----------
   The initial diagnostic is Diagnostic(ERROR, "no data received from " + name): its message is not one of
   the check-up suffixes; it is carried as [SNone] (the constructor-supplied message) and printed as
   "no data received from <name>" by the driver. *)
Record crate := { cr_mon : rmon; cr_chk : @checkup T }.

Definition no_data_diag : diagnostic := {| d_status := ERROR; d_suffix := SNone |}.

Definition cr_init (rate eps : T) : crate :=
  {| cr_mon := rm_init rate; cr_chk := checkup_init rate eps no_data_diag |}.

(* evaluate(stamp): rate = rateMonitoring_.update(stamp); return checkup_.evaluate(rate) *)
Definition cr_evaluate (k : kind) (c : crate) (stamp : Z) : crate * status :=
  let m := rm_update (cr_mon c) stamp in
  let '(ch, st) := match k with
                   | KGreater => eval_greater_than N (cr_chk c) (rm_rate m)
                   | _ => eval_equal_to N (cr_chk c) (rm_rate m)
                   end in
  ({| cr_mon := m; cr_chk := ch |}, st).

(* heartBeatCallback(stamp): if (rateMonitoring_.timeout(stamp)) { checkup_.timeout(); return false; } return true; *)
Definition cr_heartbeat (c : crate) (stamp : Z) : crate * bool :=
  let '(m, b) := rm_timeout (cr_mon c) stamp in
  if b then ({| cr_mon := m; cr_chk := checkup_timeout (cr_chk c) |}, false)
  else ({| cr_mon := m; cr_chk := cr_chk c |}, true).

(* ---------- event histories ---------- *)
Inductive event := Data (stamp : Z) | Heartbeat (stamp : Z).
Inductive eout := OData (returned : status) | OBeat (alive : bool).

Definition rm_step (s : rmon) (e : event) : rmon :=
  match e with Data d => rm_update s d | Heartbeat d => fst (rm_timeout s d) end.

Definition rm_run (s : rmon) (evs : list event) : rmon := fold_left rm_step evs s.

Definition cr_step (k : kind) (c : crate) (e : event) : crate * eout :=
  match e with
  | Data d => let '(c', s) := cr_evaluate k c d in (c', OData s)
  | Heartbeat d => let '(c', b) := cr_heartbeat c d in (c', OBeat b)
  end.

Definition cr_final (k : kind) (c : crate) (evs : list event) : crate :=
  fold_left (fun c e => fst (cr_step k c e)) evs c.

(* after each event: what the call returned, the monitored rate, the report *)
Fixpoint cr_run (k : kind) (c : crate) (evs : list event) : list (eout * T * @creport T) :=
  match evs with
  | [] => []
  | e :: r => let '(c', o) := cr_step k c e in (o, rm_rate (cr_mon c'), c_report (cr_chk c')) :: cr_run k c' r
  end.

End Rate.
