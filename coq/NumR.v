(* NumR.v — the real-number instance of the numeric dictionary.  All theorems are about it. *)
From Coq Require Import Reals ZArith Lra Lia.
From Flocq Require Import Core.Raux.
From Romea Require Import Num.
Local Open Scope R_scope.

Definition Rltb (a b : R) : bool := if Rlt_dec a b then true else false.
Definition Rleb (a b : R) : bool := if Rle_dec a b then true else false.
Definition Reqb (a b : R) : bool := if Req_EM_T a b then true else false.

Lemma Rltb_true a b : Rltb a b = true <-> a < b.
Proof. unfold Rltb; destruct (Rlt_dec a b); split; intros; try discriminate; tauto. Qed.
Lemma Rltb_false a b : Rltb a b = false <-> b <= a.
Proof. unfold Rltb; destruct (Rlt_dec a b); split; intros; try discriminate; try reflexivity; lra. Qed.
Lemma Rleb_true a b : Rleb a b = true <-> a <= b.
Proof. unfold Rleb; destruct (Rle_dec a b); split; intros; try discriminate; tauto. Qed.
Lemma Rleb_false a b : Rleb a b = false <-> b < a.
Proof. unfold Rleb; destruct (Rle_dec a b); split; intros; try discriminate; try reflexivity; lra. Qed.
Lemma Reqb_true a b : Reqb a b = true <-> a = b.
Proof. unfold Reqb; destruct (Req_EM_T a b); split; intros; try discriminate; tauto. Qed.

(* atan2 and fmod are not in the installed libraries; defined here. *)
Definition Ratan2 (y x : R) : R :=
  if Rlt_dec 0 x then atan (y / x)
  else if Rlt_dec x 0 then (if Rle_dec 0 y then atan (y / x) + PI else atan (y / x) - PI)
  else if Rlt_dec 0 y then PI / 2
  else if Rlt_dec y 0 then - PI / 2
  else 0.

Definition Rfmod (x y : R) : R := x - y * IZR (Ztrunc (x / y)).

Definition ROps : NumOps R := {|
  nzero := 0; n_one := 1;
  nadd := Rplus; nsub := Rminus; nmul := Rmult; ndiv := Rdiv;
  nneg := Ropp; nabs := Rabs; nsqrt := sqrt;
  nsin := sin; ncos := cos; ntan := fun x => sin x / cos x;
  natan := atan; nasin := asin; nacos := acos;
  nexp := exp; nln := ln;
  natan2 := Ratan2; npow := Rpower; nfmod := Rfmod;
  nfloor := fun x => IZR (Zfloor x); nceil := fun x => IZR (Zceil x);
  ntruncZ := Ztrunc; nofZ := IZR;
  nofDec := fun m e => IZR m * powerRZ 10 e;
  npi := PI;
  nmaxval := (2 - powerRZ 2 (-52)) * powerRZ 2 1023;
  nminpos := powerRZ 2 (-1022);
  nepsilon := powerRZ 2 (-52);
  nltb := Rltb; nleb := Rleb; neqb := Reqb
|}.

(* ---- atan2 characterisation:  r > 0, -PI < a <= PI  ->  atan2 (r sin a) (r cos a) = a ---- *)
Lemma atan_tan_quot a : - PI / 2 < a < PI / 2 -> atan (sin a / cos a) = a.
Proof. intros H. change (sin a / cos a) with (tan a). apply atan_tan. lra. Qed.

Lemma Ratan2_spec r a : 0 < r -> - PI < a <= PI -> Ratan2 (r * sin a) (r * cos a) = a.
Proof.
  intros Hr [Hlo Hhi]. unfold Ratan2.
  assert (Hq : forall c, c <> 0 -> (r * sin a) / (r * c) = sin a / c) by (intros; field; lra).
  destruct (Rlt_dec 0 (r * cos a)) as [Hc|Hc].
  - (* cos a > 0 : a in (-PI/2, PI/2) *)
    assert (Hcos : 0 < cos a) by nra.
    assert (Ha : - PI / 2 < a < PI / 2).
    { split.
      - destruct (Rlt_dec (- PI / 2) a) as [|N]; [assumption|exfalso].
        assert (cos a <= 0); [|lra].
        rewrite <- cos_neg. apply cos_le_0; lra.
      - destruct (Rlt_dec a (PI / 2)) as [|N]; [assumption|exfalso].
        assert (cos a <= 0); [|lra]. apply cos_le_0; lra. }
    rewrite Hq by lra. apply atan_tan_quot. exact Ha.
  - destruct (Rlt_dec (r * cos a) 0) as [Hc2|Hc2].
    + assert (Hcos : cos a < 0) by nra.
      destruct (Rle_dec 0 (r * sin a)) as [Hs|Hs].
      * (* sin a >= 0, cos a < 0 : a in (PI/2, PI] *)
        assert (Hsin : 0 <= sin a) by nra.
        assert (Ha : PI / 2 < a).
        { destruct (Rlt_dec (PI / 2) a) as [|N]; [assumption|exfalso].
          destruct (Rle_dec 0 a) as [P|P].
          - assert (0 <= cos a); [apply cos_ge_0; lra|lra].
          - assert (sin a < 0); [apply sin_lt_0_var; lra|lra]. }
        rewrite Hq by lra.
        replace (sin a / cos a) with (sin (a - PI) / cos (a - PI)).
        2:{ unfold Rminus. rewrite sin_plus, cos_plus, sin_neg, cos_neg, sin_PI, cos_PI. field. lra. }
        rewrite atan_tan_quot by lra. lra.
      * assert (Hsin : sin a < 0) by nra.
        assert (Ha : a < - PI / 2).
        { destruct (Rlt_dec a (- PI / 2)) as [|N]; [assumption|exfalso].
          destruct (Rle_dec a 0) as [P|P].
          - assert (0 <= cos a); [rewrite <- cos_neg; apply cos_ge_0; lra|lra].
          - assert (0 <= sin a); [apply sin_ge_0; lra|lra]. }
        rewrite Hq by lra.
        replace (sin a / cos a) with (sin (a + PI) / cos (a + PI)).
        2:{ rewrite sin_plus, cos_plus, sin_PI, cos_PI. field. lra. }
        rewrite atan_tan_quot by lra. lra.
    + assert (Hcos : cos a = 0) by nra.
      destruct (Rlt_dec 0 (r * sin a)) as [Hs|Hs].
      * assert (Hsin : 0 < sin a) by nra.
        (* cos a = 0, sin a > 0, a in (-PI,PI] -> a = PI/2 *)
        destruct (Rtotal_order a (PI / 2)) as [L|[E|G]]; [|exact (eq_sym E)|]; exfalso.
        -- destruct (Rle_dec a 0) as [P|P].
           ++ destruct (Req_dec a 0) as [->|]; [rewrite sin_0 in Hsin; lra|].
              assert (sin a < 0); [apply sin_lt_0_var; lra|lra].
           ++ assert (0 < cos a); [apply cos_gt_0; lra|lra].
        -- assert (cos a < 0); [apply cos_lt_0; lra|lra].
      * destruct (Rlt_dec (r * sin a) 0) as [Hs2|Hs2].
        -- assert (Hsin : sin a < 0) by nra.
           destruct (Rtotal_order a (- PI / 2)) as [L|[E|G]]; [|lra|]; exfalso.
           ++ assert (cos a < 0); [|lra].
              rewrite <- cos_neg. apply cos_lt_0; lra.
           ++ destruct (Rle_dec 0 a) as [P|P].
              ** assert (0 <= sin a); [apply sin_ge_0; lra|lra].
              ** assert (0 < cos a); [apply cos_gt_0; lra|lra].
        -- exfalso. assert (sin a = 0) by nra.
           pose proof (sin2_cos2 a) as E. unfold Rsqr in E. nra.
Qed.

Lemma Ratan2_range y x : - PI <= Ratan2 y x <= PI.
Proof.
  unfold Ratan2. pose proof (atan_bound (y / x)) as B. pose proof PI_RGT_0.
  destruct (Rlt_dec 0 x); [lra|].
  destruct (Rlt_dec x 0).
  - destruct (Rle_dec 0 y) as [Hy|Hy].
    + assert (y / x <= 0).
      { unfold Rdiv. assert (/ x < 0) by (apply Rinv_lt_0_compat; lra). nra. }
      assert (atan (y / x) <= 0).
      { rewrite <- atan_0. destruct (Req_dec (y/x) 0) as [->|]; [lra|]. left. apply atan_increasing. lra. }
      lra.
    + assert (0 < y / x).
      { unfold Rdiv. assert (/ x < 0) by (apply Rinv_lt_0_compat; lra). nra. }
      assert (0 < atan (y / x)) by (rewrite <- atan_0; apply atan_increasing; lra).
      lra.
  - destruct (Rlt_dec 0 y); [lra|]. destruct (Rlt_dec y 0); lra.
Qed.
