(* GeodesyProofs.v — lemmas about GeodesyModel.v at the real-number instance (C01; reused by C02, C03). *)
From Coq Require Import Reals ZArith List Bool Lra Lia.
From Romea Require Import Num NumR GeodesyModel.
From Romea.gen Require Import RepoConstants.
Local Open Scope R_scope.

(* evaluates decimal literals [nofDec ROps m e] after the constants have been unfolded *)
Ltac eval_dec :=
  cbn;
  repeat match goal with
         | |- context [Pos.to_nat ?p] =>
           let n := eval vm_compute in (Pos.to_nat p) in change (Pos.to_nat p) with n
         end;
  cbn [pow].

(* ------------------------------------------------------------------ basic trigonometric facts *)
Lemma sin_sq_le_1 x : sin x * sin x <= 1.
Proof. pose proof (sin2_cos2 x) as H. unfold Rsqr in H. nra. Qed.

Lemma cos_sq_eq x : cos x * cos x = 1 - sin x * sin x.
Proof. pose proof (sin2_cos2 x) as H. unfold Rsqr in H. lra. Qed.

Lemma cos_pos_lat x : - PI / 2 < x < PI / 2 -> 0 < cos x.
Proof. intros H. apply cos_gt_0; lra. Qed.

(* W^2 = 1 - e2 sin^2 lat is positive for 0 <= e2 < 1 *)
Lemma w2_pos e2 x : 0 <= e2 < 1 -> 0 < 1 - e2 * sin x * sin x.
Proof. intros H. pose proof (sin_sq_le_1 x). nra. Qed.

Lemma w2_le_1 e2 x : 0 <= e2 < 1 -> 1 - e2 * sin x * sin x <= 1.
Proof. intros H. assert (0 <= sin x * sin x) by nra. nra. Qed.

Lemma w_pos e2 x : 0 <= e2 < 1 -> 0 < sqrt (1 - e2 * sin x * sin x).
Proof. intros H. apply sqrt_lt_R0. apply w2_pos; assumption. Qed.

Lemma w_le_1 e2 x : 0 <= e2 < 1 -> sqrt (1 - e2 * sin x * sin x) <= 1.
Proof.
  intros H. rewrite <- sqrt_1 at 2. apply sqrt_le_1_alt. apply w2_le_1; assumption.
Qed.

Lemma w_sq e2 x : 0 <= e2 < 1 ->
  sqrt (1 - e2 * sin x * sin x) * sqrt (1 - e2 * sin x * sin x) = 1 - e2 * sin x * sin x.
Proof. intros H. apply sqrt_sqrt. left. apply w2_pos; assumption. Qed.

(* ------------------------------------------------------------------ ellipsoid parameters *)
Lemma make_ellipsoid_b2 a b : 0 < a ->
  el_a (make_ellipsoid ROps a b) = a /\
  a * a * (1 - el_e2 (make_ellipsoid ROps a b)) = b * b.
Proof. intros Ha. cbn. split; [reflexivity|]. field. lra. Qed.

Lemma make_ellipsoid_e2_range a b : 0 < b <= a ->
  0 <= el_e2 (make_ellipsoid ROps a b) < 1.
Proof.
  intros [Hb Hab]. cbn.
  assert (Ha2 : 0 < a * a) by nra.
  split.
  - apply Rmult_le_pos; [nra|]. left. apply Rinv_0_lt_compat. exact Ha2.
  - apply (Rmult_lt_reg_r (a * a)); [exact Ha2|].
    unfold Rdiv. rewrite Rmult_assoc, Rinv_l by lra. nra.
Qed.

Lemma make_ellipsoid_e a b : el_e (make_ellipsoid ROps a b) = sqrt (el_e2 (make_ellipsoid ROps a b)).
Proof. reflexivity. Qed.

(* ------------------------------------------------------------------ prime vertical radius *)
Section OnEllipsoid.
Variable el : ellipsoid (T:=R).
Hypothesis Ha : 0 < el_a el.
Hypothesis He2 : 0 <= el_e2 el < 1.

Local Notation a := (el_a el).
Local Notation e2 := (el_e2 el).

Lemma primeVertical_eq lat :
  primeVertical ROps el lat = a / sqrt (1 - e2 * sin lat * sin lat).
Proof. reflexivity. Qed.

Lemma primeVertical_ge_a lat : a <= primeVertical ROps el lat.
Proof.
  rewrite primeVertical_eq.
  pose proof (w_pos e2 lat He2) as Wp. pose proof (w_le_1 e2 lat He2) as Wl.
  set (w := sqrt (1 - e2 * sin lat * sin lat)) in *.
  assert (E : a / w - a = a * (1 - w) * / w) by (field; lra).
  assert (P : 0 <= a * (1 - w) * / w).
  { apply Rmult_le_pos; [nra|]. left. apply Rinv_0_lt_compat. exact Wp. }
  lra.
Qed.

Lemma primeVertical_pos lat : 0 < primeVertical ROps el lat.
Proof. pose proof (primeVertical_ge_a lat). lra. Qed.

(* ---- forward map: foot point on the ellipsoid + h * unit normal ---- *)
Definition normal (lat lon : R) : vec3 (T:=R) := mkV3 (cos lat * cos lon) (cos lat * sin lon) (sin lat).
Definition foot (lat lon : R) : vec3 (T:=R) :=
  let Nn := primeVertical ROps el lat in
  mkV3 (Nn * cos lat * cos lon) (Nn * cos lat * sin lon) (Nn * (1 - e2) * sin lat).

Lemma toECEF_foot_plus_normal lat lon h :
  toECEF ROps el (mkGeo lat lon h) =
  mkV3 (vx (foot lat lon) + h * vx (normal lat lon))
       (vy (foot lat lon) + h * vy (normal lat lon))
       (vz (foot lat lon) + h * vz (normal lat lon)).
Proof. unfold toECEF, foot, normal. cbn. f_equal; ring. Qed.

Lemma normal_unit lat lon :
  vx (normal lat lon) * vx (normal lat lon) + vy (normal lat lon) * vy (normal lat lon)
  + vz (normal lat lon) * vz (normal lat lon) = 1.
Proof.
  cbn. pose proof (cos_sq_eq lat). pose proof (cos_sq_eq lon). nra.
Qed.

Lemma foot_on_ellipsoid lat lon :
  (vx (foot lat lon) * vx (foot lat lon) + vy (foot lat lon) * vy (foot lat lon)) / (a * a)
  + vz (foot lat lon) * vz (foot lat lon) / (a * a * (1 - e2)) = 1.
Proof.
  unfold foot. cbn [vx vy vz]. rewrite primeVertical_eq.
  pose proof (w_pos e2 lat He2) as Wp. pose proof (w_sq e2 lat He2) as Ws.
  set (w := sqrt (1 - e2 * sin lat * sin lat)) in *.
  pose proof (cos_sq_eq lat) as Cl. pose proof (cos_sq_eq lon) as Co.
  assert (E : 1 - e2 <> 0) by lra. assert (A : a <> 0) by lra.
  assert (Wn : w <> 0) by lra.
  apply (Rmult_eq_reg_r (w * w)); [|nra].
  transitivity ((cos lat * cos lat) * (cos lon * cos lon + sin lon * sin lon) + (1 - e2) * (sin lat * sin lat)).
  - field. repeat split; assumption.
  - rewrite Ws. rewrite Co, Cl. ring.
Qed.

(* the outward gradient of Q(x,y,z) = (x^2+y^2)/a^2 + z^2/(a^2(1-e2)) at the foot is a positive multiple of the normal *)
Lemma foot_gradient_parallel lat lon :
  let k := 2 * primeVertical ROps el lat / (a * a) in
  0 < k /\
  2 * vx (foot lat lon) / (a * a) = k * vx (normal lat lon) /\
  2 * vy (foot lat lon) / (a * a) = k * vy (normal lat lon) /\
  2 * vz (foot lat lon) / (a * a * (1 - e2)) = k * vz (normal lat lon).
Proof.
  intros k. pose proof (primeVertical_pos lat) as Np.
  assert (A : a <> 0) by lra. assert (E : 1 - e2 <> 0) by lra.
  split; [|split; [|split]].
  - unfold k. apply Rmult_lt_0_compat; [lra|]. apply Rinv_0_lt_compat. nra.
  - unfold k, foot, normal. cbn [vx]. field. exact A.
  - unfold k, foot, normal. cbn [vy]. field. exact A.
  - unfold k, foot, normal. cbn [vz]. field. split; assumption.
Qed.

(* ---- horizontal norm and longitude ---- *)
Lemma hnorm_scaled r lon : 0 <= r -> hnorm ROps (r * cos lon) (r * sin lon) = r.
Proof.
  intros Hr. unfold hnorm. cbn.
  replace (r * cos lon * (r * cos lon) + r * sin lon * (r * sin lon)) with (r * r).
  - apply sqrt_square. exact Hr.
  - pose proof (cos_sq_eq lon). nra.
Qed.

Lemma toECEF_horizontal lat lon h :
  let r := (primeVertical ROps el lat + h) * cos lat in
  vx (toECEF ROps el (mkGeo lat lon h)) = r * cos lon /\
  vy (toECEF ROps el (mkGeo lat lon h)) = r * sin lon.
Proof. cbn. split; reflexivity. Qed.

Lemma horizontal_radius_pos lat h : - PI / 2 < lat < PI / 2 -> - a < h ->
  0 < (primeVertical ROps el lat + h) * cos lat.
Proof.
  intros Hl Hh. pose proof (primeVertical_ge_a lat). pose proof (cos_pos_lat lat Hl).
  apply Rmult_lt_0_compat; lra.
Qed.

Lemma longitude_recovered lat lon h :
  - PI / 2 < lat < PI / 2 -> - PI < lon <= PI -> - a < h ->
  let p := toECEF ROps el (mkGeo lat lon h) in
  longitude_of ROps (vx p) (vy p) = lon.
Proof.
  intros Hl Ho Hh p. unfold longitude_of. cbn [natan2 ROps].
  destruct (toECEF_horizontal lat lon h) as [Ex Ey]. unfold p. rewrite Ex, Ey.
  apply Ratan2_spec; [apply horizontal_radius_pos; assumption|exact Ho].
Qed.

Lemma hnorm_toECEF lat lon h : - PI / 2 < lat < PI / 2 -> - a < h ->
  let p := toECEF ROps el (mkGeo lat lon h) in
  hnorm ROps (vx p) (vy p) = (primeVertical ROps el lat + h) * cos lat.
Proof.
  intros Hl Hh p. destruct (toECEF_horizontal lat lon h) as [Ex Ey]. unfold p. rewrite Ex, Ey.
  apply hnorm_scaled. left. apply horizontal_radius_pos; assumption.
Qed.

(* ---- latitude: the true latitude is a fixed point of the loop body ---- *)
Lemma lat_body_fixed_point lat h :
  - PI / 2 < lat < PI / 2 -> - a * (1 - e2) < h ->
  let Nn := primeVertical ROps el lat in
  lat_body ROps el ((Nn * (1 - e2) + h) * sin lat) ((Nn + h) * cos lat) lat = lat.
Proof.
  intros Hl Hh. cbv zeta. unfold lat_body. cbn.
  replace (1 - e2 * (sin lat * sin lat)) with (1 - e2 * sin lat * sin lat) by ring.
  pose proof (cos_pos_lat lat Hl) as Cp.
  pose proof (primeVertical_ge_a lat) as Nge. rewrite primeVertical_eq in Nge.
  pose proof (w_pos e2 lat He2) as Wp.
  set (w := sqrt (1 - e2 * sin lat * sin lat)) in *.
  set (Nn := a / w) in *.
  assert (Aw : a = Nn * w) by (unfold Nn; field; lra).
  clearbody Nn.
  assert (Hq : 0 < Nn * (1 - e2) + h) by nra.
  assert (Hp : 0 < Nn + h) by nra.
  rewrite Aw.
  match goal with |- atan ?x = _ => replace x with (sin lat / cos lat) end.
  - apply atan_tan_quot. exact Hl.
  - field. repeat split; lra.
Qed.

(* the loop tolerance read from the source is positive and at most 1e-11 *)
Lemma ecef_eps_bounds : 0 < ecef_eps ROps <= / 100000000000.
Proof. unfold ecef_eps, ecef_epsilon_m, ecef_epsilon_e. eval_dec. lra. Qed.

Lemma ecef_initial_delta_gt_eps :
  ecef_eps ROps < nofDec ROps ecef_initial_delta_m ecef_initial_delta_e.
Proof. unfold ecef_eps, ecef_epsilon_m, ecef_epsilon_e, ecef_initial_delta_m, ecef_initial_delta_e. eval_dec. lra. Qed.

(* started at a fixed point of the body, the loop performs one pass and returns it *)
Lemma lat_loop_from_fixed_point fuel Z norm lat delta :
  lat_body ROps el Z norm lat = lat -> ecef_eps ROps < delta ->
  lat_loop ROps (S fuel) el Z norm lat delta = Some lat.
Proof.
  intros Hfix Hd. cbn [lat_loop]. cbn [nltb ROps].
  destruct (proj2 (Rltb_true _ _) Hd). rewrite (proj2 (Rltb_true _ _) Hd).
  rewrite Hfix. cbn [nsub nabs ROps]. unfold Rminus. rewrite Rplus_opp_r, Rabs_R0.
  destruct fuel; cbn [lat_loop nltb ROps];
    rewrite (proj2 (Rltb_false _ _)); try reflexivity; left; apply ecef_eps_bounds.
Qed.

(* every value the loop can return is an arctangent, hence strictly inside (-PI/2, PI/2) *)
Lemma lat_loop_range fuel Z norm lat delta r :
  - PI / 2 < lat < PI / 2 ->
  lat_loop ROps fuel el Z norm lat delta = Some r -> - PI / 2 < r < PI / 2.
Proof.
  revert lat delta. induction fuel as [|f IH]; intros lat delta Hl; cbn [lat_loop].
  - destruct (nltb ROps (ecef_eps ROps) delta); [discriminate|]. intros E; inversion E; subst; exact Hl.
  - destruct (nltb ROps (ecef_eps ROps) delta).
    + apply IH. unfold lat_body. cbn [natan ROps]. apply atan_bound.
    + intros E; inversion E; subst; exact Hl.
Qed.

(* when the loop exits, the last pass moved the latitude by at most eps (or no pass was made) *)
Lemma lat_loop_exit fuel Z norm lat delta r :
  lat_loop ROps fuel el Z norm lat delta = Some r ->
  (r = lat /\ delta <= ecef_eps ROps) \/
  (exists prev, r = lat_body ROps el Z norm prev /\ Rabs (r - prev) <= ecef_eps ROps).
Proof.
  revert lat delta. induction fuel as [|f IH]; intros lat delta; cbn [lat_loop]; cbn [nltb ROps].
  - destruct (Rltb (ecef_eps ROps) delta) eqn:E; [discriminate|].
    intros H; inversion H; subst. left. split; [reflexivity|apply Rltb_false; exact E].
  - destruct (Rltb (ecef_eps ROps) delta) eqn:E.
    + intros H. destruct (IH _ _ H) as [[Hr Hd]|Hex].
      * right. exists lat. subst r. split; [reflexivity|exact Hd].
      * right. exact Hex.
    + intros H; inversion H; subst. left. split; [reflexivity|apply Rltb_false; exact E].
Qed.

(* ---- height from the exact latitude ---- *)
Lemma height_recovered lat h : - PI / 2 < lat < PI / 2 ->
  altitude_of ROps el ((primeVertical ROps el lat + h) * cos lat) lat = h.
Proof.
  intros Hl. unfold altitude_of. cbn.
  replace (1 - e2 * (sin lat * sin lat)) with (1 - e2 * sin lat * sin lat) by ring.
  pose proof (cos_pos_lat lat Hl). pose proof (w_pos e2 lat He2). field. repeat split; lra.
Qed.

(* ---- composition: geodetic -> ECEF -> geodetic ---- *)
Lemma toWGS84_of_toECEF fuel lat lon h g :
  - PI / 2 < lat < PI / 2 -> - PI < lon <= PI -> - a * (1 - e2) < h ->
  toWGS84 ROps fuel el (toECEF ROps el (mkGeo lat lon h)) = Some g ->
  g_lon g = lon /\ - PI / 2 < g_lat g < PI / 2 /\ (g_lat g = lat -> g_alt g = h).
Proof.
  intros Hl Ho Hh. assert (Hh' : - a < h) by nra.
  unfold toWGS84.
  rewrite (hnorm_toECEF lat lon h Hl Hh'), (longitude_recovered lat lon h Hl Ho Hh').
  destruct (lat_loop _ _ _ _ _ _ _) as [r|] eqn:E; [|discriminate].
  intros H; inversion H; subst g; cbn [g_lon g_lat g_alt].
  split; [reflexivity|]. split.
  - eapply lat_loop_range; [|exact E]. unfold lat_first_guess. cbn [natan ROps]. apply atan_bound.
  - intros ->. apply height_recovered. exact Hl.
Qed.

(* the fixed point is reproduced exactly: starting the iteration of toWGS84 at the true latitude gives back (lat,lon,h) *)
Lemma roundtrip_at_fixed_point fuel lat lon h :
  - PI / 2 < lat < PI / 2 -> - PI < lon <= PI -> - a * (1 - e2) < h ->
  let p := toECEF ROps el (mkGeo lat lon h) in
  let norm := hnorm ROps (vx p) (vy p) in
  lat_loop ROps (S fuel) el (vz p) norm lat (nofDec ROps ecef_initial_delta_m ecef_initial_delta_e) = Some lat /\
  longitude_of ROps (vx p) (vy p) = lon /\
  altitude_of ROps el norm lat = h.
Proof.
  intros Hl Ho Hh p norm. assert (Hh' : - a < h) by nra.
  assert (En : norm = (primeVertical ROps el lat + h) * cos lat) by (apply hnorm_toECEF; assumption).
  split; [|split].
  - apply lat_loop_from_fixed_point; [|apply ecef_initial_delta_gt_eps].
    rewrite En. apply (lat_body_fixed_point lat h Hl Hh).
  - apply longitude_recovered; assumption.
  - rewrite En. apply height_recovered. exact Hl.
Qed.

End OnEllipsoid.

(* ------------------------------------------------------------------ abstract contraction lemma *)
(* If the loop body g is q-Lipschitz (q < 1) between the last iterate and the fixed point, an exit with
   |g x - x| <= eps leaves |g x - fix| <= q*eps/(1-q). *)
Lemma contraction_exit_error (g : R -> R) (q eps x fx : R) :
  0 <= q < 1 -> g fx = fx -> Rabs (g x - g fx) <= q * Rabs (x - fx) -> Rabs (g x - x) <= eps ->
  Rabs (g x - fx) <= q * eps / (1 - q).
Proof.
  intros [Hq0 Hq1] Hfix Hlip Hexit. rewrite Hfix in Hlip.
  assert (T : Rabs (x - fx) <= Rabs (g x - x) + Rabs (g x - fx)).
  { replace (x - fx) with (- (g x - x) + (g x - fx)) by ring.
    eapply Rle_trans; [apply Rabs_triang|]. rewrite Rabs_Ropp. lra. }
  assert (B : (1 - q) * Rabs (g x - fx) <= q * eps) by nra.
  apply (Rmult_le_reg_l (1 - q)); [lra|].
  replace ((1 - q) * (q * eps / (1 - q))) with (q * eps) by (field; lra). exact B.
Qed.

(* ------------------------------------------------------------------ results are in range *)
Lemma toWGS84_ranges fuel (el : ellipsoid (T:=R)) p g :
  toWGS84 ROps fuel el p = Some g ->
  - PI / 2 < g_lat g < PI / 2 /\ - PI <= g_lon g <= PI /\ geodetic_in_range ROps g = true.
Proof.
  unfold toWGS84. destruct (lat_loop _ _ _ _ _ _ _) as [r|] eqn:E; [|discriminate].
  intros H; inversion H; subst g; cbn [g_lat g_lon].
  assert (Hr : - PI / 2 < r < PI / 2).
  { eapply lat_loop_range; [|exact E]. unfold lat_first_guess. cbn [natan ROps]. apply atan_bound. }
  pose proof (Ratan2_range (vy p) (vx p)) as Ho.
  split; [exact Hr|]. split; [exact Ho|].
  unfold geodetic_in_range. cbn [g_lat g_lon nleb nneg ndiv npi ROps ntwo nadd n_one].
  unfold longitude_of. cbn [natan2 ROps].
  rewrite !andb_true_iff. repeat split; apply Rleb_true; lra.
Qed.

(* ------------------------------------------------------------------ the half-angle longitude (before the repair) *)
Lemma hnorm_ge_abs X Y : Rabs X <= hnorm ROps X Y.
Proof.
  unfold hnorm. cbn. rewrite <- sqrt_Rsqr_abs. apply sqrt_le_1_alt. unfold Rsqr. nra.
Qed.

Lemma half_angle_denominator_zero_iff X Y : X + hnorm ROps X Y = 0 <-> (Y = 0 /\ X <= 0).
Proof.
  split.
  - intros H. pose proof (hnorm_ge_abs X Y) as G.
    assert (Hn : hnorm ROps X Y = - X) by lra.
    assert (Hx : X <= 0). { pose proof (Rabs_pos X). lra. }
    split; [|exact Hx].
    assert (Sq : hnorm ROps X Y * hnorm ROps X Y = X * X + Y * Y).
    { unfold hnorm. cbn. apply sqrt_sqrt. nra. }
    rewrite Hn in Sq. nra.
  - intros [-> Hx]. unfold hnorm. cbn.
    replace (X * X + 0 * 0) with (Rsqr X) by (unfold Rsqr; ring).
    rewrite sqrt_Rsqr_abs, Rabs_left1 by exact Hx. ring.
Qed.

(* the formula of the unrepaired code is undefined exactly on the antimeridian ray Y = 0, X <= 0 *)
Lemma longitude_half_angle_none_iff X Y :
  longitude_half_angle ROps X Y = None <-> (Y = 0 /\ X <= 0).
Proof.
  unfold longitude_half_angle. cbn [nadd neqb nzero ROps].
  destruct (Reqb (X + hnorm ROps X Y) 0) eqn:E1; destruct (Reqb Y 0) eqn:E2; cbn [andb].
  - apply Reqb_true in E1. split; [intros _; apply half_angle_denominator_zero_iff; exact E1|reflexivity].
  - split; [discriminate|]. intros [Hy _]. apply Reqb_true in Hy. congruence.
  - split; [discriminate|]. intros HH. apply half_angle_denominator_zero_iff in HH.
    apply Reqb_true in HH. congruence.
  - split; [discriminate|]. intros [Hy _]. apply Reqb_true in Hy. congruence.
Qed.

(* off the ray, for points written in polar form, it agrees with the true longitude *)
Lemma longitude_half_angle_value r lon : 0 < r -> - PI < lon < PI ->
  longitude_half_angle ROps (r * cos lon) (r * sin lon) = Some lon.
Proof.
  intros Hr Hl. unfold longitude_half_angle. rewrite hnorm_scaled by lra.
  cbn [nadd neqb nzero ROps nmul natan ndiv ntwo n_one].
  assert (Hh : - PI / 2 < lon / 2 < PI / 2) by lra.
  pose proof (cos_pos_lat _ Hh) as Ch.
  assert (Ec : cos lon = 2 * cos (lon / 2) * cos (lon / 2) - 1).
  { replace lon with (2 * (lon / 2)) at 1 by field. rewrite cos_2a_cos. ring. }
  assert (Es : sin lon = 2 * sin (lon / 2) * cos (lon / 2)).
  { replace lon with (2 * (lon / 2)) at 1 by field. apply sin_2a. }
  assert (Hd : 0 < r * cos lon + r).
  { rewrite Ec. assert (P : 0 < r * (cos (lon / 2) * cos (lon / 2))) by (apply Rmult_lt_0_compat; [lra|nra]). lra. }
  replace (Reqb (r * cos lon + r) 0) with false.
  2:{ symmetry. destruct (Reqb (r * cos lon + r) 0) eqn:E; [apply Reqb_true in E; lra|reflexivity]. }
  cbn [andb]. f_equal.
  replace (r * sin lon / (r * cos lon + r)) with (sin (lon / 2) / cos (lon / 2)).
  - rewrite atan_tan_quot by exact Hh. field.
  - rewrite Ec in Hd. rewrite Es, Ec. field. split; lra.
Qed.

(* witness: the ECEF point (-5e6, 0, 3e6) has no longitude under the unrepaired formula, for any ellipsoid and fuel *)
Lemma half_angle_refuted fuel (el : ellipsoid (T:=R)) :
  toWGS84_half_angle ROps fuel el (mkV3 (-5000000) 0 3000000) = None.
Proof.
  unfold toWGS84_half_angle. cbn [vx vy].
  rewrite (proj2 (longitude_half_angle_none_iff (-5000000) 0)); [reflexivity|split; lra].
Qed.
