(* AnglesFloat.v — the two angle normalisers of EulerAngles.hpp in IEEE-754 binary64 (Scalar = double).
   The SAME generic model (AnglesModel.v: between0And2Pi, betweenMinusPiAndPi) is instantiated at the rounded
   dictionary B64Ops of GridMapFloat.v: + and - are the real operation followed by ONE rounding to nearest-even in
   FLT(-1074, 53), comparisons and negation are exact, npi is the double nearest to pi (M_PI), and fmod is the exact
   real remainder x - y*trunc(x/y) — which is proved here to be a floating-point number whenever x and y are
   (Rfmod_fmt, any precision), so leaving it unrounded in the dictionary is faithful to std::fmod.
     M_PI64  = rnd64 PI = 884279719003555 * 2^-48 (0x1.921fb54442d18p+1),  1.2246e-16 < pi - M_PI64 < 1.2247e-16
     M_2PI64 = 2 * M_PI64 (exact doubling) < 2*pi
   Results: between0And2Pi returns r in the CLOSED interval [0, M_2PI64] with |r - (v - k*M_2PI64)| <= 2^-51 (one
   rounding; none when fmod(v) >= 0 or fmod(v) <= -M_PI64), and r = M_2PI64 is attained for every v in (-2^-51, 0);
   betweenMinusPiAndPi returns r in [-M_PI64, M_PI64] with r = v - k*M_2PI64 EXACTLY (both conditional operations fall
   under Sterbenz' lemma). *)
From Coq Require Import Reals ZArith Lra Lia.
From Flocq Require Import Core Relative Sterbenz Div_sqrt_error.
From Interval Require Import Tactic.
From Romea Require Import Num NumR AnglesModel AnglesRoundtrip GridMapFloat.
Local Open Scope R_scope.

Local Instance prec53_ang : Prec_gt_0 53.
Proof. now unfold Prec_gt_0. Qed.

Local Instance prec24_ang : Prec_gt_0 24.
Proof. now unfold Prec_gt_0. Qed.

Local Notation fexp64 := (FLT_exp (-1074) 53).
Local Notation bp := (bpow radix2).

(* ---------- the constants and the two functions as executed in double ---------- *)
Definition M_PI64 : R := rnd64 PI.              (* M_PI: the double nearest to pi *)
Definition M_2PI64 : R := 2 * M_PI64.           (* M_2PI = 2 * M_PI *)
Definition b02_64 (v : R) : R := between0And2Pi B64Ops idR idR v.
Definition bpi_64 (v : R) : R := betweenMinusPiAndPi B64Ops idR idR v.
Local Notation Pd := M_PI64.
Local Notation Td := M_2PI64.

(* ---------- general facts: exponent / ulp of a binary64 number, a rounding computed from its neighbour ---------- *)
Lemma cexp64 x e : bp (e - 1) <= Rabs x < bp e -> (-1074 <= e - 53)%Z -> cexp radix2 fexp64 x = (e - 53)%Z.
Proof. intros H He. unfold cexp. rewrite (mag_unique radix2 x e H). unfold FLT_exp. lia. Qed.

Lemma ulp64 x e : bp (e - 1) <= Rabs x < bp e -> (-1074 <= e - 53)%Z -> ulp radix2 fexp64 x = bp (e - 53).
Proof.
  intros H He. rewrite ulp_neq_0.
  - f_equal. apply cexp64; assumption.
  - intros ->. rewrite Rabs_R0 in H. pose proof (bpow_gt_0 radix2 (e - 1)). lra.
Qed.

Lemma rnd64_id x : b64 x -> rnd64 x = x.
Proof. apply rnd_id; exact prec53_ang. Qed.

Lemma rnd64_le x y : b64 y -> x <= y -> rnd64 x <= y.
Proof. intros Fy H. rewrite <- (rnd_id 53 (-1074) y Fy). apply rnd_le; [exact prec53_ang|exact H]. Qed.

Lemma rnd64_ge x y : b64 y -> y <= x -> y <= rnd64 x.
Proof. intros Fy H. rewrite <- (rnd_id 53 (-1074) y Fy). apply rnd_le; [exact prec53_ang|exact H]. Qed.

(* x within half a unit in the last place of m * 2^e (and in that binade) rounds to it; any format *)
Lemma rnd_near prec emin x m e : bp (e + prec - 1) <= Rabs x < bp (e + prec) -> (emin <= e)%Z ->
  Rabs (x * bp (- e) - IZR m) < / 2 -> frnd prec emin x = IZR m * bp e.
Proof.
  intros H He Hm. unfold frnd, round, F2R, scaled_mantissa, cexp. cbn [Fnum Fexp].
  rewrite (mag_unique radix2 x (e + prec) H).
  replace (FLT_exp emin prec (e + prec)) with e by (unfold FLT_exp; lia).
  rewrite (Znearest_imp _ _ m Hm). reflexivity.
Qed.

Lemma rnd64_near x m e : bp (e + 52) <= Rabs x < bp (e + 53) -> (-1074 <= e)%Z ->
  Rabs (x * bp (- e) - IZR m) < / 2 -> rnd64 x = IZR m * bp e.
Proof. intros H He Hm. apply rnd_near; [replace (e + 53 - 1)%Z with (e + 52)%Z by lia; exact H|exact He|exact Hm]. Qed.

(* ---------- std::fmod is exact: the remainder of two floating-point numbers is a floating-point number ----------
   (any precision, any y — also y < 0 and y = 0 where Rfmod x 0 = x; Flocq's format_REM_ZR) *)
Lemma Rfmod_fmt prec emin (Hp : Prec_gt_0 prec) x y :
  ffmt prec emin x -> ffmt prec emin y -> ffmt prec emin (Rfmod x y).
Proof.
  intros Hx Hy. unfold Rfmod, ffmt.
  replace (x - y * IZR (Ztrunc (x / y))) with (x - IZR (Ztrunc (x / y)) * y) by ring.
  apply format_REM_ZR; auto with typeclass_instances.
Qed.

Lemma Rfmod_b64 x y : b64 x -> b64 y -> b64 (Rfmod x y).
Proof. apply Rfmod_fmt. exact prec53_ang. Qed.

Lemma Rfmod_b32 x y : b32 x -> b32 y -> b32 (Rfmod x y).
Proof. apply Rfmod_fmt. exact prec24_ang. Qed.

(* sign and magnitude of the remainder, divisor y > 0 *)
Lemma Rfmod_spec x y : 0 < y ->
  (0 <= x -> 0 <= Rfmod x y < y) /\ (x <= 0 -> - y < Rfmod x y <= 0).
Proof.
  intros Hy. unfold Rfmod. set (q := x / y).
  assert (Hx : x = y * q) by (unfold q; field; lra).
  split; intros H.
  - assert (Hq : 0 <= q) by (unfold q; apply Rmult_le_pos; [lra|left; apply Rinv_0_lt_compat; lra]).
    rewrite (Ztrunc_floor q Hq). pose proof (Zfloor_lb q). pose proof (Zfloor_ub q).
    clearbody q. subst x. split; nra.
  - assert (Hq : q <= 0).
    { unfold q. assert (0 < / y) by (apply Rinv_0_lt_compat; lra). unfold Rdiv. nra. }
    rewrite (Ztrunc_ceil q Hq). pose proof (Zceil_ub q). pose proof (Zceil_lb q).
    clearbody q. subst x. split; nra.
Qed.

Lemma Rfmod_abs x y : 0 < y -> - y < Rfmod x y < y.
Proof.
  intros Hy. destruct (Rfmod_spec x y Hy) as [A B].
  destruct (Rle_dec 0 x) as [P|P]; [specialize (A P); lra|]. assert (Q : x <= 0) by lra. specialize (B Q). lra.
Qed.

(* on the asserted domain |x| < 2*y the quotient truncates to -1, 0 or 1 *)
Lemma Ztrunc_small x y : 0 < y -> Rabs x < 2 * y -> (-1 <= Ztrunc (x / y) <= 1)%Z.
Proof.
  intros Hy Hx. set (q := x / y).
  assert (E : x = y * q) by (unfold q; field; lra).
  assert (Hq : -2 < q < 2).
  { apply Rabs_lt_inv in Hx. clearbody q. subst x. split; nra. }
  clearbody q. destruct (Rle_dec 0 q) as [P|P].
  - rewrite (Ztrunc_floor q P). split.
    + assert (0 <= Zfloor q)%Z by (apply Zfloor_lub; simpl; exact P). lia.
    + assert (Zfloor q < 2)%Z; [|lia]. apply lt_IZR. pose proof (Zfloor_lb q). lra.
  - assert (Q : q <= 0) by lra. rewrite (Ztrunc_ceil q Q). split.
    + assert (-2 < Zceil q)%Z; [|lia]. apply lt_IZR. pose proof (Zceil_ub q). lra.
    + assert (Zceil q <= 0)%Z by (apply Zceil_glb; simpl; exact Q). lia.
Qed.

(* ---------- M_PI and M_2PI ---------- *)
Definition M_PI64_q : R := 884279719003555 / 281474976710656.      (* 884279719003555 * 2^-48 *)
Local Notation Pq := M_PI64_q.

Lemma Pq_dyadic : Pq = IZR 884279719003555 * bp (-48).
Proof. unfold M_PI64_q. simpl. lra. Qed.

Lemma Pq_b64 : b64 Pq.
Proof. apply (fmt_dyadic 53 (-1074) Pq 884279719003555 (-48) Pq_dyadic); [reflexivity|lia]. Qed.

(* M_PI is 0x1.921fb54442d18p+1: pi lies strictly between that double and the midpoint to its successor *)
Lemma M_PI64_val : Pd = Pq.
Proof.
  unfold M_PI64, rnd64. apply Rle_antisym.
  - unfold frnd. apply round_N_le_midp; [auto with typeclass_instances|exact Pq_b64|].
    assert (B : 2 <= Pq < 4) by (unfold M_PI64_q; lra).
    rewrite succ_eq_pos by lra.
    rewrite (ulp64 Pq 2); [|rewrite Rabs_pos_eq by lra; simpl; lra|lia].
    replace (bp (2 - 53)) with (/ 2251799813685248) by (simpl; lra).
    unfold M_PI64_q. interval with (i_prec 100).
  - rewrite <- (rnd_id 53 (-1074) Pq Pq_b64) at 1. apply rnd_le; [exact prec53_ang|].
    unfold M_PI64_q. interval with (i_prec 100).
Qed.

Lemma M_PI64_b64 : b64 Pd.
Proof. rewrite M_PI64_val. exact Pq_b64. Qed.

(* the enclosure of the representation error of M_PI; in particular M_PI < pi *)
Lemma M_PI64_err : 12246 / 100000000000000000000 < PI - Pd < 12247 / 100000000000000000000.
Proof. rewrite M_PI64_val. unfold M_PI64_q. split; interval with (i_prec 100). Qed.

Lemma M_PI64_err_half_ulp : Rabs (Pd - PI) <= bp (-52).
Proof.
  pose proof M_PI64_err as E. replace (bp (-52)) with (/ 4503599627370496) by (simpl; lra).
  rewrite Rabs_left by lra. lra.
Qed.

Lemma M_PI64_box : 314 / 100 < Pd < 315 / 100.
Proof. rewrite M_PI64_val. unfold M_PI64_q. lra. Qed.

Lemma M_2PI64_dyadic : Td = IZR 884279719003555 * bp (-47).
Proof. unfold M_2PI64. rewrite M_PI64_val, Pq_dyadic. simpl. lra. Qed.

(* 2 * M_PI is a double: the doubling is exact *)
Lemma M_2PI64_b64 : b64 Td.
Proof. apply (fmt_dyadic 53 (-1074) Td 884279719003555 (-47) M_2PI64_dyadic); [reflexivity|lia]. Qed.

Lemma M_2PI64_box : 628 / 100 < Td < 630 / 100.
Proof. unfold M_2PI64. pose proof M_PI64_box. lra. Qed.

Lemma M_2PI64_lt_2pi : Td < 2 * PI.
Proof. unfold M_2PI64. pose proof M_PI64_err. lra. Qed.

(* the model's constant m_2pi, evaluated in binary64 (2 = 1 + 1 and 2 * M_PI are exact) *)
Lemma m_2pi_b64 : m_2pi B64Ops = Td.
Proof.
  unfold m_2pi, ntwo, B64Ops. cbn [nmul nadd n_one npi FlOps]. unfold fl_mul, fl_add.
  replace (1 + 1) with (IZR 2) by (simpl; lra).
  rewrite (rnd_id 53 (-1074) (IZR 2)) by (apply fmt_int; simpl; lia).
  change (frnd 53 (-1074) PI) with Pd. replace (IZR 2 * Pd) with Td by (unfold M_2PI64; simpl; lra).
  apply rnd_id. exact M_2PI64_b64.
Qed.

Lemma b02_64_unf v :
  b02_64 v = if Rltb (Rfmod v Td) 0 then rnd64 (Rfmod v Td + Td) else Rfmod v Td.
Proof. unfold b02_64, between0And2Pi, idR. rewrite m_2pi_b64. reflexivity. Qed.

Lemma bpi_64_unf v :
  bpi_64 v = if Rltb (Rfmod v Td) (- Pd) then rnd64 (Rfmod v Td + Td)
             else if Rltb Pd (Rfmod v Td) then rnd64 (Rfmod v Td - Td) else Rfmod v Td.
Proof. unfold bpi_64, betweenMinusPiAndPi, idR. rewrite m_2pi_b64. reflexivity. Qed.

(* ---------- one rounding of a number in [0, M_2PI]: error at most half an ulp of M_2PI = 2^-51 ---------- *)
Lemma ulp_M_2PI64 : ulp radix2 fexp64 Td = bp (-50).
Proof.
  pose proof M_2PI64_box. rewrite (ulp64 Td 3); [reflexivity| |lia].
  rewrite Rabs_pos_eq by lra. simpl. lra.
Qed.

Lemma rnd64_err_below_2pi x : 0 <= x <= Td -> Rabs (rnd64 x - x) <= bp (-51).
Proof.
  intros Hx. pose proof M_2PI64_box.
  eapply Rle_trans; [apply error_le_half_ulp; auto with typeclass_instances|].
  assert (U : ulp radix2 fexp64 x <= bp (-50)).
  { rewrite <- ulp_M_2PI64. apply ulp_le; auto with typeclass_instances. rewrite !Rabs_pos_eq by lra. lra. }
  replace (bp (-51)) with (/ 2 * bp (-50)) by (simpl; lra). lra.
Qed.

(* ---------- between0And2Pi in binary64 ---------- *)
Lemma b02_64_spec v : b64 v ->
  exists k : Z,
    0 <= b02_64 v <= Td /\ b64 (b02_64 v) /\
    Rabs (b02_64 v - (v - IZR k * Td)) <= bp (-51) /\
    (0 <= Rfmod v Td \/ Rfmod v Td <= - Pd -> b02_64 v = v - IZR k * Td) /\
    (Rabs v < 2 * Td -> (-2 <= k <= 1)%Z).
Proof.
  intros Fv. pose proof M_2PI64_box as BT. pose proof M_PI64_box as BP.
  assert (HT : 0 < Td) by lra.
  assert (Fm : b64 (Rfmod v Td)) by (apply Rfmod_b64; [exact Fv|exact M_2PI64_b64]).
  destruct (Rfmod_spec v Td HT) as [Hpos Hneg]. pose proof (Rfmod_abs v Td HT) as Habs.
  assert (Ek : Rfmod v Td = v - Td * IZR (Ztrunc (v / Td))) by reflexivity.
  rewrite b02_64_unf. set (value := Rfmod v Td) in *. set (k0 := Ztrunc (v / Td)) in *.
  assert (Hk0 : Rabs v < 2 * Td -> (-1 <= k0 <= 1)%Z) by (intros Hd; exact (Ztrunc_small v Td HT Hd)).
  destruct (Rltb value 0) eqn:E.
  - apply Rltb_true in E. exists (k0 - 1)%Z.
    assert (Hx : 0 <= value + Td <= Td) by lra.
    assert (Ex : v - IZR (k0 - 1) * Td = value + Td) by (rewrite minus_IZR, Ek; ring).
    rewrite Ex. split; [split|split; [|split; [|split]]].
    + apply rnd64_ge; [apply (fmt_int 53 (-1074) 0); simpl; lia|lra].
    + apply rnd64_le; [exact M_2PI64_b64|lra].
    + apply fmt_rnd. exact prec53_ang.
    + apply rnd64_err_below_2pi. exact Hx.
    + intros [H|H]; [lra|]. apply rnd_id.
      replace (value + Td) with (Td - (- value)) by ring.
      refine (sterbenz radix2 fexp64 Td (- value) M_2PI64_b64 (generic_format_opp _ _ _ Fm) _).
      unfold M_2PI64 in *. lra.
    + intros Hd. specialize (Hk0 Hd). lia.
  - apply Rltb_false in E. exists k0.
    assert (Ex : v - IZR k0 * Td = value) by (rewrite Ek; ring).
    rewrite Ex. split; [split; lra|split; [exact Fm|split; [|split]]].
    + replace (value - value) with 0 by ring. rewrite Rabs_R0. apply bpow_ge_0.
    + intros _. reflexivity.
    + intros Hd. specialize (Hk0 Hd). lia.
Qed.

(* distance to the congruence modulo the TRUE 2*pi *)
Lemma cong_true_2pi r v k e :
  Rabs (r - (v - IZR k * Td)) <= e ->
  Rabs (r - (v - IZR k * (2 * PI))) <= e + IZR (Z.abs k) * (2 * Rabs (Pd - PI)).
Proof.
  intros H. replace (r - (v - IZR k * (2 * PI))) with ((r - (v - IZR k * Td)) + IZR k * (2 * (PI - Pd)))
    by (unfold M_2PI64; ring).
  eapply Rle_trans; [apply Rabs_triang|]. apply Rplus_le_compat; [exact H|].
  rewrite Rabs_mult, abs_IZR, Rabs_mult, (Rabs_pos_eq 2) by lra. rewrite (Rabs_minus_sym PI Pd). lra.
Qed.

Lemma cong_true_2pi_num r v k e : (Z.abs k <= 2)%Z ->
  Rabs (r - (v - IZR k * Td)) <= e ->
  Rabs (r - (v - IZR k * (2 * PI))) <= e + 49 / 100000000000000000.
Proof.
  intros Hk H. eapply Rle_trans; [apply (cong_true_2pi r v k e H)|].
  pose proof M_PI64_err as E. rewrite (Rabs_left (Pd - PI)) by lra.
  assert (0 <= IZR (Z.abs k) <= 2) by (split; [apply IZR_le; lia|apply IZR_le in Hk; exact Hk]).
  nra.
Qed.

(* the closed upper end is attained: every v in (-2^-51, 0) is sent to M_2PI itself *)
Lemma b02_64_reaches_2pi v : - bp (-51) < v < 0 -> b02_64 v = Td.
Proof.
  intros [Hl Hu]. pose proof M_2PI64_box as BT.
  assert (B51 : bp (-51) = / 2251799813685248) by (simpl; lra). rewrite B51 in Hl.
  assert (Hq : Ztrunc (v / Td) = 0%Z).
  { assert (Q : -1 < v / Td <= 0).
    { assert (0 < / Td) by (apply Rinv_0_lt_compat; lra). unfold Rdiv. split; [|nra].
      apply Rmult_lt_reg_r with Td; [lra|]. rewrite Rmult_assoc, Rinv_l by lra. lra. }
    rewrite Ztrunc_ceil by lra. apply Zceil_imp. simpl. lra. }
  assert (Ev : Rfmod v Td = v) by (unfold Rfmod; rewrite Hq; simpl; ring).
  rewrite b02_64_unf, Ev.
  assert (L : Rltb v 0 = true) by (apply Rltb_true; exact Hu). rewrite L.
  rewrite M_2PI64_dyadic at 2.
  replace (IZR 884279719003555 * bp (-47)) with (IZR 7074237752028440 * bp (-50)) by (simpl; lra).
  apply rnd64_near; [|lia|].
  - rewrite Rabs_pos_eq by lra. simpl. lra.
  - replace ((v + Td) * bp (- -50) - IZR 7074237752028440) with (v * bp 50).
    2:{ rewrite M_2PI64_dyadic. simpl. lra. }
    replace (bp 50) with 1125899906842624 by (simpl; lra).
    rewrite Rabs_left by lra. lra.
Qed.

(* ---------- betweenMinusPiAndPi in binary64: both conditional operations are exact (Sterbenz) ---------- *)
Lemma bpi_64_spec v : b64 v ->
  exists k : Z,
    - Pd <= bpi_64 v <= Pd /\ b64 (bpi_64 v) /\
    bpi_64 v = v - IZR k * Td /\
    (Rabs v < 2 * Td -> (-2 <= k <= 2)%Z).
Proof.
  intros Fv. pose proof M_2PI64_box as BT. pose proof M_PI64_box as BP.
  assert (HT : 0 < Td) by lra.
  assert (Fm : b64 (Rfmod v Td)) by (apply Rfmod_b64; [exact Fv|exact M_2PI64_b64]).
  pose proof (Rfmod_abs v Td HT) as Habs.
  assert (Ek : Rfmod v Td = v - Td * IZR (Ztrunc (v / Td))) by reflexivity.
  rewrite bpi_64_unf. set (value := Rfmod v Td) in *. set (k0 := Ztrunc (v / Td)) in *.
  assert (Hk0 : Rabs v < 2 * Td -> (-1 <= k0 <= 1)%Z) by (intros Hd; exact (Ztrunc_small v Td HT Hd)).
  assert (HTP : Td = 2 * Pd) by reflexivity.
  destruct (Rltb value (- Pd)) eqn:E.
  - apply Rltb_true in E. exists (k0 - 1)%Z.
    assert (Ex : v - IZR (k0 - 1) * Td = value + Td) by (rewrite minus_IZR, Ek; ring).
    assert (Fx : b64 (value + Td)).
    { replace (value + Td) with (Td - (- value)) by ring.
      refine (sterbenz radix2 fexp64 Td (- value) M_2PI64_b64 (generic_format_opp _ _ _ Fm) _); [lra]. }
    rewrite Ex, (rnd64_id _ Fx). split; [split; lra|split; [exact Fx|split; [reflexivity|]]].
    intros Hd. specialize (Hk0 Hd). lia.
  - apply Rltb_false in E. destruct (Rltb Pd value) eqn:E2.
    + apply Rltb_true in E2. exists (k0 + 1)%Z.
      assert (Ex : v - IZR (k0 + 1) * Td = value - Td) by (rewrite plus_IZR, Ek; ring).
      assert (Fx : b64 (value - Td)).
      { refine (sterbenz radix2 fexp64 value Td Fm M_2PI64_b64 _). lra. }
      rewrite Ex, (rnd64_id _ Fx). split; [split; lra|split; [exact Fx|split; [reflexivity|]]].
      intros Hd. specialize (Hk0 Hd). lia.
    + apply Rltb_false in E2. exists k0.
      assert (Ex : v - IZR k0 * Td = value) by (rewrite Ek; ring).
      rewrite Ex. split; [split; lra|split; [exact Fm|split; [reflexivity|]]].
      intros Hd. specialize (Hk0 Hd). lia.
Qed.

(* ---------- the statements of Properties_C10.v: on the asserted domain |v| < M_4PI = 2 * M_2PI ---------- *)
Lemma b02_64_full v : b64 v -> Rabs v < 2 * Td ->
  exists k : Z, (-2 <= k <= 1)%Z /\
    0 <= b02_64 v <= Td /\ Td < 2 * PI /\ b64 (b02_64 v) /\
    Rabs (b02_64 v - (v - IZR k * Td)) <= bp (-51) /\
    (0 <= Rfmod v Td \/ Rfmod v Td <= - Pd -> b02_64 v = v - IZR k * Td) /\
    Rabs (b02_64 v - (v - IZR k * (2 * PI))) <= bp (-51) + IZR (Z.abs k) * (2 * Rabs (Pd - PI)) /\
    Rabs (b02_64 v - (v - IZR k * (2 * PI))) <= 94 / 100000000000000000.
Proof.
  intros Fv Hd. destruct (b02_64_spec v Fv) as (k & Hr & Fr & He & Hx & Hk). specialize (Hk Hd).
  exists k. split; [exact Hk|]. split; [exact Hr|]. split; [exact M_2PI64_lt_2pi|]. split; [exact Fr|].
  split; [exact He|]. split; [exact Hx|]. split; [exact (cong_true_2pi _ _ _ _ He)|].
  assert (Hk2 : (Z.abs k <= 2)%Z) by lia. pose proof (cong_true_2pi_num _ _ k _ Hk2 He) as Hn.
  replace (bp (-51)) with (/ 2251799813685248) in Hn by (simpl; lra). lra.
Qed.

Lemma bpi_64_full v : b64 v -> Rabs v < 2 * Td ->
  exists k : Z, (-2 <= k <= 2)%Z /\
    - Pd <= bpi_64 v <= Pd /\ Pd < PI /\ b64 (bpi_64 v) /\
    bpi_64 v = v - IZR k * Td /\
    Rabs (bpi_64 v - (v - IZR k * (2 * PI))) <= IZR (Z.abs k) * (2 * Rabs (Pd - PI)) /\
    Rabs (bpi_64 v - (v - IZR k * (2 * PI))) <= 49 / 100000000000000000.
Proof.
  intros Fv Hd. destruct (bpi_64_spec v Fv) as (k & Hr & Fr & He & Hk). specialize (Hk Hd).
  assert (H0 : Rabs (bpi_64 v - (v - IZR k * Td)) <= 0).
  { rewrite He. replace (v - IZR k * Td - (v - IZR k * Td)) with 0 by ring. rewrite Rabs_R0. lra. }
  exists k. split; [exact Hk|]. split; [exact Hr|]. split; [pose proof M_PI64_err; lra|]. split; [exact Fr|].
  split; [exact He|]. split.
  - pose proof (cong_true_2pi _ _ _ _ H0). lra.
  - assert (Hk2 : (Z.abs k <= 2)%Z) by lia. pose proof (cong_true_2pi_num _ _ k _ Hk2 H0). lra.
Qed.

(* ---------- concrete binary64 inputs ---------- *)
Lemma Rfmod_small x y : 0 < y -> Rabs x < y -> Rfmod x y = x.
Proof.
  intros Hy Hx. unfold Rfmod. apply Rabs_lt_inv in Hx.
  assert (Q : -1 < x / y < 1).
  { split; apply Rmult_lt_reg_r with y; try lra; unfold Rdiv; rewrite Rmult_assoc, Rinv_l by lra; lra. }
  assert (E : Ztrunc (x / y) = 0%Z).
  { destruct (Rle_dec 0 (x / y)) as [P|P].
    - rewrite Ztrunc_floor by exact P. apply Zfloor_imp. simpl. lra.
    - rewrite Ztrunc_ceil by lra. apply Zceil_imp. simpl. lra. }
  rewrite E. simpl. ring.
Qed.

Lemma Rfmod_one x y : 0 < y -> y <= x < 2 * y -> Rfmod x y = x - y.
Proof.
  intros Hy Hx. unfold Rfmod.
  assert (Q : 1 <= x / y < 2).
  { split; [apply Rmult_le_reg_r with y|apply Rmult_lt_reg_r with y]; try lra;
      unfold Rdiv; rewrite Rmult_assoc, Rinv_l by lra; lra. }
  assert (E : Ztrunc (x / y) = 1%Z).
  { rewrite Ztrunc_floor by lra. apply Zfloor_imp. simpl. lra. }
  rewrite E. simpl. ring.
Qed.

Lemma b64_m1 : b64 (-1).
Proof. apply (fmt_int 53 (-1074) (-1)); simpl; lia. Qed.
Lemma b64_7 : b64 7.
Proof. apply (fmt_int 53 (-1074) 7); simpl; lia. Qed.
Lemma b64_4 : b64 4.
Proof. apply (fmt_int 53 (-1074) 4); simpl; lia. Qed.
Lemma b64_tiny : b64 (- bp (-70)).
Proof. apply (fmt_dyadic 53 (-1074) _ (-1) (-70)); [simpl; lra|simpl; lia|lia]. Qed.

(* -1 -> 2*M_PI - 1 (the sum happens to be exact) *)
Lemma b02_64_ex_m1 : b02_64 (-1) = Td - 1.
Proof.
  pose proof M_2PI64_box. rewrite b02_64_unf, Rfmod_small by (try rewrite Rabs_left; lra).
  assert (L : Rltb (-1) 0 = true) by (apply Rltb_true; lra). rewrite L.
  replace (-1 + Td) with (Td - 1) by ring. apply rnd64_id.
  apply (fmt_dyadic 53 (-1074) _ 5948337845185816 (-50)); [rewrite M_2PI64_dyadic; simpl; lra|simpl; lia|lia].
Qed.

(* 7 -> 7 - 2*M_PI (no addition: exact) *)
Lemma b02_64_ex_7 : b02_64 7 = 7 - Td.
Proof.
  pose proof M_2PI64_box. rewrite b02_64_unf, Rfmod_one by lra.
  assert (L : Rltb (7 - Td) 0 = false) by (apply Rltb_false; lra). rewrite L. reflexivity.
Qed.

(* -2^-70 (about -8.5e-22) -> M_2PI itself *)
Lemma b02_64_ex_tiny : b02_64 (- bp (-70)) = Td.
Proof.
  apply b02_64_reaches_2pi. split.
  - apply Ropp_lt_contravar. apply bpow_lt. lia.
  - pose proof (bpow_gt_0 radix2 (-70)). lra.
Qed.

(* -3*2^-52: the sum is rounded (to the predecessor of M_2PI), the error is exactly 2^-52, half of the bound *)
Lemma b02_64_ex_rounded :
  b02_64 (- 3 * bp (-52)) = Td - bp (-50) /\ b02_64 (- 3 * bp (-52)) - (- 3 * bp (-52) + Td) = - bp (-52).
Proof.
  pose proof M_2PI64_box.
  assert (B52 : bp (-52) = / 4503599627370496) by (simpl; lra).
  assert (B50 : bp (-50) = / 1125899906842624) by (simpl; lra).
  assert (E : b02_64 (- 3 * bp (-52)) = Td - bp (-50)).
  { rewrite b02_64_unf, Rfmod_small by (try rewrite Rabs_left; rewrite ?B52; lra).
    assert (L : Rltb (- 3 * bp (-52)) 0 = true) by (apply Rltb_true; rewrite B52; lra). rewrite L.
    replace (Td - bp (-50)) with (IZR 7074237752028439 * bp (-50)) by (rewrite M_2PI64_dyadic; simpl; lra).
    apply rnd64_near; [|lia|].
    - rewrite B52, Rabs_pos_eq by lra. simpl. lra.
    - replace ((- 3 * bp (-52) + Td) * bp (- -50) - IZR 7074237752028439) with (/ 4).
      2:{ rewrite M_2PI64_dyadic. simpl. lra. }
      rewrite Rabs_pos_eq by lra. lra. }
  split; [exact E|]. rewrite E, B52, B50. lra.
Qed.

(* 4 -> 4 - 2*M_PI, -4 -> 2*M_PI - 4;  both ends of [-M_PI, M_PI] are attained *)
Lemma bpi_64_ex_4 : bpi_64 4 = 4 - Td /\ bpi_64 (-4) = Td - 4.
Proof.
  pose proof M_2PI64_box. pose proof M_PI64_box. split.
  - rewrite bpi_64_unf, Rfmod_small by (try rewrite Rabs_pos_eq; lra).
    assert (L1 : Rltb 4 (- Pd) = false) by (apply Rltb_false; lra).
    assert (L2 : Rltb Pd 4 = true) by (apply Rltb_true; lra). rewrite L1, L2. apply rnd64_id.
    apply (fmt_dyadic 53 (-1074) _ (-2570638124657944) (-50)); [rewrite M_2PI64_dyadic; simpl; lra|simpl; lia|lia].
  - rewrite bpi_64_unf, Rfmod_small by (try rewrite Rabs_left; lra).
    assert (L1 : Rltb (-4) (- Pd) = true) by (apply Rltb_true; lra). rewrite L1.
    replace (-4 + Td) with (Td - 4) by ring. apply rnd64_id.
    apply (fmt_dyadic 53 (-1074) _ 2570638124657944 (-50)); [rewrite M_2PI64_dyadic; simpl; lra|simpl; lia|lia].
Qed.

Lemma bpi_64_ex_ends : bpi_64 Pd = Pd /\ bpi_64 (- Pd) = - Pd.
Proof.
  pose proof M_2PI64_box. pose proof M_PI64_box. assert (Td = 2 * Pd) by reflexivity. split.
  - rewrite bpi_64_unf, Rfmod_small by (try rewrite Rabs_pos_eq; lra).
    assert (L1 : Rltb Pd (- Pd) = false) by (apply Rltb_false; lra).
    assert (L2 : Rltb Pd Pd = false) by (apply Rltb_false; lra). rewrite L1, L2. reflexivity.
  - rewrite bpi_64_unf, Rfmod_small by (try rewrite Rabs_left; lra).
    assert (L1 : Rltb (- Pd) (- Pd) = false) by (apply Rltb_false; lra).
    assert (L2 : Rltb Pd (- Pd) = false) by (apply Rltb_false; lra). rewrite L1, L2. reflexivity.
Qed.

(* ---------- Scalar = float: the computation is the same (in double), only the RETURN rounds to binary32 ----------
   the float nearest to M_2PI is 13176795 * 2^-21 = 6.2831855, which is ABOVE the real 2*pi *)
Definition b02_32 (v : R) : R := between0And2Pi B64Ops idR rnd32 v.

Lemma b02_32_unf v : b02_32 v = rnd32 (b02_64 v).
Proof. reflexivity. Qed.

Lemma M_2PI32_val : rnd32 Td = 13176795 / 2097152.
Proof.
  pose proof M_2PI64_box.
  replace (13176795 / 2097152) with (IZR 13176795 * bp (-21)) by (simpl; lra).
  unfold rnd32. apply rnd_near; [|lia|].
  - rewrite Rabs_pos_eq by lra. simpl. lra.
  - rewrite M_2PI64_dyadic.
    replace (IZR 884279719003555 * bp (-47) * bp (- -21) - IZR 13176795)
      with (- (24607325 / 67108864)) by (simpl; lra).
    rewrite Rabs_left by lra. lra.
Qed.

Lemma b02_32_range v : b64 v -> 0 <= b02_32 v <= 13176795 / 2097152.
Proof.
  intros Fv. destruct (b02_64_spec v Fv) as (k & [H0 H1] & _). rewrite b02_32_unf, <- M_2PI32_val.
  assert (Z0 : rnd32 0 = 0) by (apply (rnd_id 24 (-149)); apply (fmt_int 24 (-149) 0); simpl; lia).
  split.
  - rewrite <- Z0. apply (rnd_le 24 (-149)); first [exact H0|exact prec24_ang].
  - apply (rnd_le 24 (-149)); first [exact H1|exact prec24_ang].
Qed.

Lemma b02_32_exceeds_2pi v : - bp (-51) < v < 0 ->
  b02_32 v = 13176795 / 2097152 /\ 2 * PI + 17 / 100000000 < b02_32 v.
Proof.
  intros Hv. rewrite b02_32_unf, (b02_64_reaches_2pi v Hv), M_2PI32_val. split; [reflexivity|].
  interval with (i_prec 60).
Qed.
