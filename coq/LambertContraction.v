(* LambertContraction.v — the latitude iteration of LambertConverter::computeLatitude is a global contraction
   with factor e^2/(1-e^2); accuracy of the value returned on exit (C03). *)
From Coq Require Import Reals Lra.
From Coquelicot Require Import Coquelicot.
From Romea Require Import Num NumR GeodesyModel GeodesyProofs LambertModel LambertProofs.
Local Open Scope R_scope.

Definition step_u (L e x : R) : R := Rpower ((1 + e * sin x) / (1 - e * sin x)) (e / 2) * exp L.

Definition step_deriv (L e x : R) : R :=
  2 * step_u L e x / (1 + step_u L e x * step_u L e x) * (e * e * cos x / (1 - e * e * (sin x * sin x))).

Lemma latitude_step_derivative L e x : 0 <= e < 1 ->
  is_derive (fun t => latitude_step ROps L e t) x (step_deriv L e x).
Proof.
  intros He. destruct (es_bounds e x He) as [Em Ep]. pose proof (one_minus_e2s2_pos e x He) as E2.
  unfold latitude_step, half_pi, ntwo, step_deriv, step_u. cbn. unfold Rpower.
  auto_derive.
  - split; [lra|]. split; [|exact I].
    replace (1 + - (e * sin x)) with (1 - e * sin x) by ring.
    apply Rmult_lt_0_compat; [lra|]. apply Rinv_0_lt_compat. lra.
  - replace ((1 + e * sin x) / (1 - e * sin x)) with ((1 + e * sin x) * / (1 + - (e * sin x))) by (unfold Rdiv, Rminus; reflexivity).
    replace (e / 2) with (e / (1 + 1)) by (unfold Rdiv; replace (1 + 1) with 2 by ring; reflexivity).
    set (A := exp (e / (1 + 1) * ln ((1 + e * sin x) * / (1 + - (e * sin x))))).
    assert (Ap : 0 < A) by apply exp_pos. set (E := exp L). assert (Epos : 0 < E) by apply exp_pos.
    set (s := sin x) in *. set (c := cos x).
    assert (U : 0 < 1 + A * E * (A * E)) by nra.
    field. repeat split; try lra.
Qed.

Lemma step_deriv_bound L e x : 0 <= e < 1 -> Rabs (step_deriv L e x) <= e * e / (1 - e * e).
Proof.
  intros He. pose proof (one_minus_e2s2_pos e x He) as E2.
  unfold step_deriv. set (u := step_u L e x).
  assert (Up : 0 < u) by (unfold u, step_u, Rpower; apply Rmult_lt_0_compat; apply exp_pos).
  assert (D : 0 < 1 + u * u) by nra.
  assert (B1 : 0 <= 2 * u / (1 + u * u) <= 1).
  { split.
    - apply Rmult_le_pos; [lra|]. left. apply Rinv_0_lt_compat. exact D.
    - apply (Rmult_le_reg_r (1 + u * u)); [exact D|].
      unfold Rdiv. rewrite Rmult_assoc, Rinv_l by lra.
      pose proof (Rle_0_sqr (u - 1)) as Sq. unfold Rsqr in Sq. lra. }
  assert (Ee : 0 < 1 - e * e) by nra.
  assert (S1 : sin x * sin x <= 1) by apply sin_sq_le_1.
  assert (B2 : Rabs (e * e * cos x / (1 - e * e * (sin x * sin x))) <= e * e / (1 - e * e)).
  { unfold Rdiv. rewrite Rabs_mult, Rabs_mult. rewrite (Rabs_pos_eq (e * e)) by nra.
    rewrite (Rabs_pos_eq (/ _)) by (left; apply Rinv_0_lt_compat; exact E2).
    assert (C1 : Rabs (cos x) <= 1) by (apply Rabs_le; pose proof (COS_bound x); lra).
    assert (I1 : / (1 - e * e * (sin x * sin x)) <= / (1 - e * e)).
    { apply Rinv_le_contravar; [exact Ee|]. assert (0 <= e * e) by nra. nra. }
    assert (0 < / (1 - e * e * (sin x * sin x))) by (apply Rinv_0_lt_compat; exact E2).
    assert (0 <= Rabs (cos x)) by apply Rabs_pos. assert (0 <= e * e) by nra.
    apply Rle_trans with (e * e * 1 * / (1 - e * e * (sin x * sin x))).
    - apply Rmult_le_compat_r; [lra|]. apply Rmult_le_compat_l; lra.
    - rewrite Rmult_1_r. apply Rmult_le_compat_l; lra. }
  rewrite Rabs_mult. rewrite (Rabs_pos_eq (2 * u / (1 + u * u))) by lra.
  assert (0 <= Rabs (e * e * cos x / (1 - e * e * (sin x * sin x)))) by apply Rabs_pos.
  nra.
Qed.

(* global Lipschitz bound by the mean value theorem *)
Lemma latitude_step_lipschitz L e x y : 0 <= e < 1 ->
  Rabs (latitude_step ROps L e y - latitude_step ROps L e x) <= e * e / (1 - e * e) * Rabs (y - x).
Proof.
  intros He.
  destruct (MVT_gen (fun t => latitude_step ROps L e t) x y (step_deriv L e)) as [c [_ Hc]].
  - intros t _. apply latitude_step_derivative. exact He.
  - intros t _. apply derivable_continuous_pt. apply ex_derive_Reals_0.
    exists (step_deriv L e t). apply latitude_step_derivative. exact He.
  - rewrite Hc, Rabs_mult. apply Rmult_le_compat_r; [apply Rabs_pos|]. apply step_deriv_bound. exact He.
Qed.

(* accuracy on exit: for e <= 1/10 the value returned by computeLatitude on the isometric latitude of lat is
   within EPSILON/98 of lat *)
Lemma computeLatitude_accuracy fuel e lat r : 0 <= e <= / 10 -> - PI / 2 < lat < PI / 2 ->
  computeLatitude ROps fuel (isolat e lat) e = Some r ->
  Rabs (r - lat) <= lambert_eps ROps / 98.
Proof.
  intros He Hl Hr. assert (He' : 0 <= e < 1) by lra.
  unfold computeLatitude in Hr. apply latitude_iter_exit in Hr. destruct Hr as [prev [Er Hd]].
  pose proof (latitude_step_fixed_point e lat He' Hl) as Fix.
  set (q := e * e / (1 - e * e)).
  assert (Ee : 0 < 1 - e * e) by nra.
  assert (Hq : 0 <= q < 1).
  { unfold q. split.
    - apply Rmult_le_pos; [nra|]. left. apply Rinv_0_lt_compat. exact Ee.
    - apply (Rmult_lt_reg_r (1 - e * e)); [exact Ee|]. unfold Rdiv. rewrite Rmult_assoc, Rinv_l by lra. nra. }
  assert (Hq99 : q <= / 99).
  { unfold q. apply (Rmult_le_reg_r (1 - e * e)); [exact Ee|]. unfold Rdiv. rewrite Rmult_assoc, Rinv_l by lra. nra. }
  pose proof (contraction_exit_error (fun t => latitude_step ROps (isolat e lat) e t) q (lambert_eps ROps) prev lat Hq Fix) as C.
  cbv beta in C. rewrite <- Er in C.
  assert (Lip : Rabs (r - latitude_step ROps (isolat e lat) e lat) <= q * Rabs (prev - lat)).
  { rewrite Er. apply latitude_step_lipschitz. exact He'. }
  specialize (C Lip (Rlt_le _ _ Hd)).
  pose proof lambert_eps_bounds as [Ep _].
  eapply Rle_trans; [exact C|].
  (* q/(1-q) <= 1/98 *)
  assert (M : q / (1 - q) <= / 98).
  { apply (Rmult_le_reg_r (1 - q)); [lra|]. unfold Rdiv. rewrite Rmult_assoc, Rinv_l by lra. lra. }
  replace (q * lambert_eps ROps / (1 - q)) with (q / (1 - q) * lambert_eps ROps) by (field; lra).
  unfold Rdiv at 2. rewrite (Rmult_comm (lambert_eps ROps)). apply Rmult_le_compat_r; lra.
Qed.

(* ------------------------------------------------------------------ termination within the fuel *)
Lemma latitude_step_range L e x : 0 <= e < 1 -> - PI / 2 < latitude_step ROps L e x < PI / 2.
Proof.
  intros He. unfold latitude_step, half_pi, ntwo. cbn.
  set (u := Rpower ((1 + e * sin x) / (1 - e * sin x)) (e / (1 + 1)) * exp L).
  assert (Up : 0 < u) by (unfold u, Rpower; apply Rmult_lt_0_compat; apply exp_pos).
  pose proof (atan_bound u) as [_ B]. assert (0 < atan u) by (rewrite <- atan_0; apply atan_increasing; exact Up).
  replace (1 + 1) with 2 by ring. lra.
Qed.

Lemma latitude_start_range L : - PI / 2 < (1 + 1) * atan (exp L) - PI / (1 + 1) < PI / 2.
Proof.
  pose proof (exp_pos L) as Ep. pose proof (atan_bound (exp L)) as [_ B].
  assert (0 < atan (exp L)) by (rewrite <- atan_0; apply atan_increasing; exact Ep).
  replace (1 + 1) with 2 by ring. lra.
Qed.

Lemma latitude_iter_terminates fuel L e x : 0 <= e < 1 ->
  (e * e / (1 - e * e)) ^ fuel * Rabs (latitude_step ROps L e x - x) < lambert_eps ROps ->
  exists r, latitude_iter ROps (S fuel) L e x = Some r.
Proof.
  intros He. set (q := e * e / (1 - e * e)).
  assert (Hq : 0 <= q).
  { unfold q. apply Rmult_le_pos; [nra|]. left. apply Rinv_0_lt_compat. nra. }
  revert x. induction fuel as [|f IH]; intros x Hd.
  - cbn [latitude_iter]. cbn [nltb nabs nsub ROps]. rewrite (proj2 (Rltb_true _ _)); [eexists; reflexivity|].
    cbn [pow] in Hd. lra.
  - cbn [latitude_iter]. cbn [nltb nabs nsub ROps].
    destruct (Rltb (Rabs (latitude_step ROps L e x - x)) (lambert_eps ROps)) eqn:E; [eexists; reflexivity|].
    apply IH.
    pose proof (latitude_step_lipschitz L e x (latitude_step ROps L e x) He) as Lip. fold q in Lip.
    assert (P : 0 <= q ^ f) by (apply pow_le; exact Hq).
    eapply Rle_lt_trans; [|exact Hd]. cbn [pow].
    replace (q * q ^ f * Rabs (latitude_step ROps L e x - x)) with (q ^ f * (q * Rabs (latitude_step ROps L e x - x))) by ring.
    apply Rmult_le_compat_l; [exact P|exact Lip].
Qed.

Lemma latitude_iter_more_fuel fuel k L e x r :
  latitude_iter ROps fuel L e x = Some r -> latitude_iter ROps (fuel + k) L e x = Some r.
Proof.
  revert x. induction fuel as [|f IH]; intros x; [cbn [latitude_iter]; discriminate|].
  change (S f + k)%nat with (S (f + k)). cbn [latitude_iter].
  destruct (nltb ROps _ _); [intros H; exact H|apply IH].
Qed.

(* for e <= 1/10 the loop of computeLatitude exits within 8 passes, whatever the isometric latitude *)
Lemma computeLatitude_terminates L e k : 0 <= e <= / 10 -> exists r, computeLatitude ROps (8 + k) L e = Some r.
Proof.
  intros He. assert (He' : 0 <= e < 1) by lra.
  unfold computeLatitude. unfold half_pi, ntwo. cbn [nmul nsub natan nexp ndiv nadd n_one npi ROps].
  set (x0 := (1 + 1) * atan (exp L) - PI / (1 + 1)).
  destruct (latitude_iter_terminates 7 L e x0 He') as [r Hr].
  - pose proof (latitude_step_range L e x0 He') as R1. pose proof (latitude_start_range L) as R0. fold x0 in R0.
    assert (D : Rabs (latitude_step ROps L e x0 - x0) < 4).
    { apply Rabs_def1; pose proof PI_4 as P4; pose proof PI_RGT_0; lra. }
    set (q := e * e / (1 - e * e)).
    assert (Ee : 0 < 1 - e * e) by nra.
    assert (Hq : 0 <= q <= / 99).
    { unfold q. split.
      - apply Rmult_le_pos; [nra|]. left. apply Rinv_0_lt_compat. exact Ee.
      - apply (Rmult_le_reg_r (1 - e * e)); [exact Ee|]. unfold Rdiv. rewrite Rmult_assoc, Rinv_l by lra. nra. }
    assert (Q7 : q ^ 7 <= (/ 99) ^ 7) by (apply pow_incr; exact Hq).
    assert (Q0 : 0 <= q ^ 7) by (apply pow_le; lra).
    assert (Eps : lambert_eps ROps = / 1000000000000).
    { unfold lambert_eps, RepoConstants.lambert_epsilon_m, RepoConstants.lambert_epsilon_e. eval_dec. lra. }
    rewrite Eps.
    apply Rle_lt_trans with ((/ 99) ^ 7 * 4).
    + apply Rmult_le_compat; [exact Q0|apply Rabs_pos|exact Q7|lra].
    + cbn [pow]. lra.
  - exists r. change (8 + k)%nat with (8 + k)%nat. apply latitude_iter_more_fuel. exact Hr.
Qed.
