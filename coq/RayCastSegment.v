(* RayCastSegment.v — C14: every cell visited by the walk is met by the segment (exact arithmetic).
   Ghost parameter T = the ray parameter at which the current cell was entered; invariant: the point of the ray at T
   lies in the closed current cell and, for every axis that has not reached the end index, the stored crossing
   parameter is the parameter at which the ray meets the border of the current cell in the direction of travel. *)
From Coq Require Import Reals ZArith List Bool Arith Lia Lra.
From Romea Require Import Num NumR GridMapModel RayCastModel RayCastProofs.
Import ListNotations.
Local Open Scope R_scope.

(* ------------------------------------------------------------------ the chosen axis has a minimal parameter *)
Lemma pick_weak_min d cell e tmax : (d = 2 \/ d = 3)%nat ->
  length cell = d -> length e = d -> length tmax = d ->
  (forall i, (i < d)%nat -> nth i cell 0%Z <> nth i e 0%Z -> nth i tmax 0 < M) ->
  (exists j, (j < d)%nat /\ nth j cell 0%Z <> nth j e 0%Z) ->
  let i := pick ROps (eff_tmax ROps cell e tmax) in
  forall k, (k < d)%nat -> nth k cell 0%Z <> nth k e 0%Z -> nth i tmax 0 <= nth k tmax 0.
Proof.
  intros Hd Lc Le Lt Hfin [j [Hj Hne]]. fold M in *.
  destruct Hd as [-> | ->].
  - destruct cell as [|c0 [|c1 [|]]]; try discriminate. destruct e as [|e0 [|e1 [|]]]; try discriminate.
    destruct tmax as [|t0 [|t1 [|]]]; try discriminate.
    pose proof (Hfin 0%nat ltac:(lia)) as F0. pose proof (Hfin 1%nat ltac:(lia)) as F1. cbn [nth] in F0, F1.
    cbv zeta. unfold eff_tmax, pick. cbn [combine map nltb ROps]. fold M.
    destruct (Z.eqb_spec c0 e0) as [E0|E0]; destruct (Z.eqb_spec c1 e1) as [E1|E1];
      try specialize (F0 E0); try specialize (F1 E1).
    + exfalso. destruct j as [|[|j]]; cbn in Hne; try lia; congruence.
    + replace (Rltb M t1) with false by (symmetry; apply Rltb_false; lra).
      intros [|[|k]] Hk Hk2; cbn [nth] in *; try lia; try lra; congruence.
    + replace (Rltb t0 M) with true by (symmetry; apply Rltb_true; lra).
      intros [|[|k]] Hk Hk2; cbn [nth] in *; try lia; try lra; congruence.
    + destruct (Rltb t0 t1) eqn:C; [apply Rltb_true in C|apply Rltb_false in C];
        intros [|[|k]] Hk Hk2; cbn [nth] in *; try lia; lra.
  - destruct cell as [|c0 [|c1 [|c2 [|]]]]; try discriminate. destruct e as [|e0 [|e1 [|e2 [|]]]]; try discriminate.
    destruct tmax as [|t0 [|t1 [|t2 [|]]]]; try discriminate.
    pose proof (Hfin 0%nat ltac:(lia)) as F0. pose proof (Hfin 1%nat ltac:(lia)) as F1. pose proof (Hfin 2%nat ltac:(lia)) as F2.
    cbn [nth] in F0, F1, F2.
    cbv zeta. unfold eff_tmax, pick. cbn [combine map nltb ROps]. fold M.
    destruct (Z.eqb_spec c0 e0) as [E0|E0]; destruct (Z.eqb_spec c1 e1) as [E1|E1]; destruct (Z.eqb_spec c2 e2) as [E2|E2];
      try specialize (F0 E0); try specialize (F1 E1); try specialize (F2 E2).
    + exfalso. destruct j as [|[|[|j]]]; cbn in Hne; try lia; congruence.
    + replace (Rltb M M) with false by (symmetry; apply Rltb_false; lra).
      replace (Rltb M t2) with false by (symmetry; apply Rltb_false; lra).
      intros [|[|[|k]]] Hk Hk2; cbn [nth] in *; try lia; try lra; congruence.
    + replace (Rltb M t1) with false by (symmetry; apply Rltb_false; lra).
      replace (Rltb t1 M) with true by (symmetry; apply Rltb_true; lra).
      intros [|[|[|k]]] Hk Hk2; cbn [nth] in *; try lia; try lra; congruence.
    + replace (Rltb M t1) with false by (symmetry; apply Rltb_false; lra).
      destruct (Rltb t1 t2) eqn:C; [apply Rltb_true in C|apply Rltb_false in C];
        intros [|[|[|k]]] Hk Hk2; cbn [nth] in *; try lia; try lra; congruence.
    + replace (Rltb t0 M) with true by (symmetry; apply Rltb_true; lra).
      intros [|[|[|k]]] Hk Hk2; cbn [nth] in *; try lia; try lra; congruence.
    + replace (Rltb t0 M) with true by (symmetry; apply Rltb_true; lra).
      destruct (Rltb t0 t2) eqn:C; [apply Rltb_true in C|apply Rltb_false in C];
        intros [|[|[|k]]] Hk Hk2; cbn [nth] in *; try lia; try lra; congruence.
    + destruct (Rltb t0 t1) eqn:C; [apply Rltb_true in C|apply Rltb_false in C].
      * replace (Rltb t0 M) with true by (symmetry; apply Rltb_true; lra).
        intros [|[|[|k]]] Hk Hk2; cbn [nth] in *; try lia; try lra; congruence.
      * replace (Rltb t1 M) with true by (symmetry; apply Rltb_true; lra).
        intros [|[|[|k]]] Hk Hk2; cbn [nth] in *; try lia; try lra; congruence.
    + destruct (Rltb t0 t1) eqn:C; [apply Rltb_true in C|apply Rltb_false in C].
      * destruct (Rltb t0 t2) eqn:C2; [apply Rltb_true in C2|apply Rltb_false in C2];
          intros [|[|[|k]]] Hk Hk2; cbn [nth] in *; try lia; lra.
      * destruct (Rltb t1 t2) eqn:C2; [apply Rltb_true in C2|apply Rltb_false in C2];
          intros [|[|[|k]]] Hk Hk2; cbn [nth] in *; try lia; lra.
Qed.

Lemma nhalf_R_local : nhalf ROps = 1 / 2.
Proof. unfold nhalf, ntwo. cbn. lra. Qed.

(* ------------------------------------------------------------------ geometry of the walk *)
Section Seg.
Variable d : nat.
Hypothesis Hd : (d = 2 \/ d = 3)%nat.
Variables (r rho : R) (org o dirv : list R) (eidx step : list Z) (tdelta : list R) (B : R).
Hypothesis Hr : 0 < r.
Hypothesis Hrho : 0 < rho.
Hypothesis Le : length eidx = d.
Hypothesis Ls : length step = d.
Hypothesis Ld : length tdelta = d.
Hypothesis HB : B < M.
Hypothesis Hdelta : forall i, (i < d)%nat -> 0 <= nth i tdelta 0.

Definition lo (i : nat) (c : Z) : R := nth i org 0 + IZR c * r.
Definition hi (i : nat) (c : Z) : R := nth i org 0 + (IZR c + 1) * r.
Definition pos (i : nat) (t : R) : R := nth i o 0 + t * nth i dirv 0.

(* the end point (ray parameter rho) lies in the closed end cell *)
Hypothesis Hend : forall i, (i < d)%nat -> lo i (nth i eidx 0%Z) <= pos i rho <= hi i (nth i eidx 0%Z).
(* step = sign of the direction; the increment is the parameter length of one cell *)
Hypothesis Hstep : forall i, (i < d)%nat ->
  (nth i step 0%Z = 1%Z /\ 0 < nth i dirv 0 /\ nth i tdelta 0 * nth i dirv 0 = r) \/
  (nth i step 0%Z = (-1)%Z /\ nth i dirv 0 < 0 /\ nth i tdelta 0 * nth i dirv 0 = - r) \/
  (nth i step 0%Z = 0%Z /\ nth i dirv 0 = 0).

Definition ginv (T : R) (st : list Z * list R) : Prop :=
  let '(cell, tmax) := st in
  0 <= T <= rho /\
  (forall i, (i < d)%nat -> lo i (nth i cell 0%Z) <= pos i T <= hi i (nth i cell 0%Z)) /\
  (forall i, (i < d)%nat -> nth i cell 0%Z <> nth i eidx 0%Z ->
     T <= nth i tmax 0 /\
     (nth i step 0%Z = 1%Z -> pos i (nth i tmax 0) = hi i (nth i cell 0%Z)) /\
     (nth i step 0%Z = (-1)%Z -> pos i (nth i tmax 0) = lo i (nth i cell 0%Z))).

Definition meets (cell : list Z) : Prop :=
  exists t, 0 <= t <= rho /\ forall i, (i < d)%nat -> lo i (nth i cell 0%Z) <= pos i t <= hi i (nth i cell 0%Z).

Lemma ginv_meets T st : ginv T st -> meets (fst st).
Proof. destruct st as [cell tmax]. intros (HT & Hin & _). exists T. split; assumption. Qed.

(* a non-finished axis' next crossing is legitimate: it happens no later than the end of the segment *)
Lemma crossing_legit T cell tmax i : ginv T (cell, tmax) -> winv d eidx step tdelta B (cell, tmax) -> (i < d)%nat ->
  nth i cell 0%Z <> nth i eidx 0%Z -> nth i tmax 0 <= rho.
Proof.
  intros (HT & Hin & Hcr) (Lc & Lt & Hsign & _) Hi Hne.
  destruct (Hcr i Hi Hne) as (H1 & Hup & Hdn). specialize (Hsign i Hi). specialize (Hend i Hi).
  unfold remaining in Hsign. unfold lo, hi, pos in *.
  destruct (Hstep i Hi) as [(S & D & _)|[(S & D & _)|(S & D)]].
  - specialize (Hup S). rewrite S in Hsign.
    assert (Hlt : (nth i cell 0 < nth i eidx 0)%Z) by lia.
    assert (IZR (nth i cell 0%Z) + 1 <= IZR (nth i eidx 0%Z)) by (rewrite <- (plus_IZR _ 1); apply IZR_le; lia).
    assert (nth i tmax 0 * nth i dirv 0 <= rho * nth i dirv 0) by nra. nra.
  - specialize (Hdn S). rewrite S in Hsign.
    assert (Hlt : (nth i eidx 0 < nth i cell 0)%Z) by lia.
    assert (IZR (nth i eidx 0%Z) + 1 <= IZR (nth i cell 0%Z)) by (rewrite <- (plus_IZR _ 1); apply IZR_le; lia).
    assert (rho * nth i dirv 0 <= nth i tmax 0 * nth i dirv 0) by nra. nra.
  - exfalso. rewrite S in Hsign. lia.
Qed.

Lemma seg_step T st : ginv T st -> winv d eidx step tdelta B st -> (0 < potential d eidx (fst st))%Z ->
  let j := pick ROps (eff_tmax ROps (fst st) eidx (snd st)) in
  ginv (nth j (snd st) 0) (next ROps eidx step tdelta st).
Proof.
  destruct st as [cell tmax]. intros G W Hpot. cbn [fst snd] in *.
  pose proof G as (HT & Hin & Hcr). pose proof W as (Lc & Lt & Hsign & Hfin).
  assert (Hex : exists j, (j < d)%nat /\ nth j cell 0%Z <> nth j eidx 0%Z).
  { destruct (sumf_pos_ex d (remaining eidx cell)) as [j [Hj Hr']]; [intros; unfold remaining; lia|exact Hpot|].
    exists j. split; [exact Hj|]. unfold remaining in Hr'. lia. }
  assert (HfinM : forall i, (i < d)%nat -> nth i cell 0%Z <> nth i eidx 0%Z -> nth i tmax 0 < M).
  { intros i Hi Hne. assert (Hr' : (0 < remaining eidx cell i)%Z) by (unfold remaining; lia).
    specialize (Hfin i Hi Hr'). specialize (Hdelta i Hi).
    assert (0 <= IZR (remaining eidx cell i) * nth i tdelta 0) by (apply Rmult_le_pos; [apply IZR_le; lia|exact Hdelta]). lra. }
  destruct (pick_not_exhausted d cell eidx tmax Hd Lc Le Lt HfinM Hex) as [Hj Hjne].
  pose proof (pick_weak_min d cell eidx tmax Hd Lc Le Lt HfinM Hex) as Hmin.
  cbv zeta in *. set (j := pick ROps (eff_tmax ROps cell eidx tmax)) in *.
  set (T' := nth j tmax 0).
  destruct (Hcr j Hj Hjne) as (HTj & Hupj & Hdnj).
  assert (HT'rho : T' <= rho) by (apply (crossing_legit T cell tmax j G W Hj Hjne)).
  assert (HTT' : T <= T') by exact HTj.
  unfold next. fold j. unfold ginv.
  assert (Hnew : nth j (upd cell j (fun v => (v + nth j step 0)%Z)) 0%Z = (nth j cell 0 + nth j step 0)%Z)
    by (rewrite nth_upd_same by lia; reflexivity).
  assert (Hoth : forall k, k <> j -> nth k (upd cell j (fun v => (v + nth j step 0)%Z)) 0%Z = nth k cell 0%Z)
    by (intros k Hk; rewrite nth_upd_other by lia; reflexivity).
  assert (Htnew : nth j (upd tmax j (fun t => nadd ROps t (nth j tdelta (nzero ROps)))) 0 = T' + nth j tdelta 0)
    by (rewrite nth_upd_same by lia; reflexivity).
  assert (Htoth : forall k, k <> j -> nth k (upd tmax j (fun t => nadd ROps t (nth j tdelta (nzero ROps)))) 0 = nth k tmax 0)
    by (intros k Hk; rewrite nth_upd_other by lia; reflexivity).
  pose proof (Hsign j Hj) as Hsj. unfold remaining in Hsj.
  split; [lra|]. split.
  - (* the point at T' lies in the new cell *)
    intros k Hk. destruct (Nat.eq_dec k j) as [->|Hkj].
    + rewrite Hnew. unfold lo, hi, pos in *. fold T'.
      destruct (Hstep j Hj) as [(S & D & Dl)|[(S & D & Dl)|(S & D)]].
      * specialize (Hupj S). rewrite S. rewrite plus_IZR. fold T' in Hupj. simpl (IZR 1). nra.
      * specialize (Hdnj S). rewrite S. rewrite plus_IZR. fold T' in Hdnj. simpl (IZR (-1)). nra.
      * exfalso. rewrite S in Hsj. lia.
    + rewrite Hoth by exact Hkj. specialize (Hin k Hk).
      destruct (Z.eq_dec (nth k cell 0%Z) (nth k eidx 0%Z)) as [Ek|Ek].
      * (* finished axis: convexity between the position at T and the end point *)
        specialize (Hend k Hk). rewrite <- Ek in Hend. unfold lo, hi, pos in *.
        destruct (Rle_dec 0 (nth k dirv 0)) as [P|P]; nra.
      * destruct (Hcr k Hk Ek) as (HTk & Hupk & Hdnk). specialize (Hmin k Hk Ek). fold T' in Hmin.
        unfold lo, hi, pos in *.
        destruct (Hstep k Hk) as [(S & D & Dl)|[(S & D & Dl)|(S & D)]].
        -- specialize (Hupk S). nra.
        -- specialize (Hdnk S). nra.
        -- rewrite D in *. lra.
  - (* crossing parameters of the non-finished axes *)
    intros k Hk Hne. destruct (Nat.eq_dec k j) as [->|Hkj].
    + rewrite Hnew in *. rewrite Htnew. specialize (Hdelta j Hj). split; [lra|].
      unfold lo, hi, pos in *. fold T' in Hupj, Hdnj.
      destruct (Hstep j Hj) as [(S & D & Dl)|[(S & D & Dl)|(S & D)]].
      * specialize (Hupj S). rewrite S. rewrite plus_IZR. simpl (IZR 1). split; intros; [nra|lia].
      * specialize (Hdnj S). rewrite S. rewrite plus_IZR. simpl (IZR (-1)). split; intros; [lia|nra].
      * exfalso. rewrite S in Hsj. lia.
    + rewrite Hoth in * by exact Hkj. rewrite Htoth by exact Hkj.
      destruct (Hcr k Hk Hne) as (HTk & Hupk & Hdnk). specialize (Hmin k Hk Hne). fold T' in Hmin.
      split; [lra|]. split; assumption.
Qed.

(* every cell produced by the walk is met by the segment *)
Lemma walk_meets : forall n T st, ginv T st -> winv d eidx step tdelta B st -> potential d eidx (fst st) = Z.of_nat n ->
  Forall meets (iter_cast ROps n eidx step tdelta st).
Proof.
  induction n as [|n IH]; intros T st G W Hpot; cbn [iter_cast]; [constructor|].
  pose proof (seg_step T st G W ltac:(lia)) as G'. cbv zeta in G'.
  destruct (next_step d Hd eidx step tdelta B Le Ls Ld HB Hdelta st W ltac:(lia)) as (W' & Hpot' & _).
  constructor.
  - eapply ginv_meets. exact G'.
  - eapply IH; [exact G'|exact W'|lia].
Qed.

(* the whole cast: every visited cell (the origin cell included) is met by the segment *)
Theorem cast_cells_meet_segment (c : caster (T:=R)) :
  length (rc_oidx c) = d -> length (rc_tmax c) = d -> rc_eidx c = eidx -> rc_step c = step -> rc_tdelta c = tdelta ->
  (forall i, (i < d)%nat -> (nth i eidx 0 - nth i (rc_oidx c) 0 = nth i step 0 * Z.abs (nth i eidx 0 - nth i (rc_oidx c) 0))%Z) ->
  (forall i, (i < d)%nat -> (0 < Z.abs (nth i eidx 0 - nth i (rc_oidx c) 0))%Z ->
     nth i (rc_tmax c) 0 + IZR (Z.abs (nth i eidx 0 - nth i (rc_oidx c) 0)%Z) * nth i tdelta 0 <= B) ->
  ginv 0 (rc_oidx c, rc_tmax c) ->
  Forall meets (cast_cells ROps c).
Proof.
  intros Lo Lt Ee Es Ed Hsign Hbound G.
  assert (W : winv d eidx step tdelta B (rc_oidx c, rc_tmax c)).
  { unfold winv. split; [exact Lo|]. split; [exact Lt|]. split; [exact Hsign|exact Hbound]. }
  unfold cast_cells. rewrite Ee, Es, Ed. constructor.
  - exact (ginv_meets 0 _ G).
  - apply (walk_meets _ 0); [exact G|exact W|].
    unfold potential, remaining. unfold ncells. rewrite Ee. rewrite (fold_abs_sumf d) by assumption.
    assert (0 <= RayCastProofs.sumf d (fun i => Z.abs (nth i eidx 0 - nth i (rc_oidx c) 0)%Z))%Z by (apply sumf_nonneg; intros; lia).
    cbn [fst]. rewrite Z2Nat.id by lia. lia.
Qed.
End Seg.

(* what setEndPoint stores makes the invariant true at T = 0, per axis: the first crossing parameter is where the
   ray meets the border of the origin cell in the direction of travel, and it is not negative *)
Lemma axis_setup_crossing (a : axis (T:=R)) (oc dirc : R) (oi : Z) :
  0 < ax_r a ->
  ax_org a + IZR oi * ax_r a <= oc <= ax_org a + (IZR oi + 1) * ax_r a ->
  let '(st, tm, td) := axis_setup ROps a oc oi dirc in
  (st = 1%Z -> 0 < dirc /\ 0 <= tm /\ oc + tm * dirc = ax_org a + (IZR oi + 1) * ax_r a /\ td * dirc = ax_r a) /\
  (st = (-1)%Z -> dirc < 0 /\ 0 <= tm /\ oc + tm * dirc = ax_org a + IZR oi * ax_r a /\ td * dirc = - ax_r a) /\
  (st = 0%Z -> dirc = 0).
Proof.
  intros Hr Hin. unfold axis_setup. cbn [nltb nzero ROps].
  destruct (Rltb 0 dirc) eqn:E1; [apply Rltb_true in E1|apply Rltb_false in E1].
  - cbn [Z.eqb]. unfold gm_centre. cbn [nadd nmul nsub ndiv nofZ nabs ROps]. rewrite nhalf_R_local.
    split; [intros _|split; intros; discriminate || lia].
    split; [exact E1|]. rewrite Rabs_right by lra.
    assert (Hd0 : dirc <> 0) by lra.
    split; [|split; [field; exact Hd0|field; exact Hd0]].
    apply Rmult_le_pos; [|left; apply Rinv_0_lt_compat; exact E1]. simpl (IZR 1). lra.
  - destruct (Rltb dirc 0) eqn:E2; [apply Rltb_true in E2|apply Rltb_false in E2].
    + cbn [Z.eqb]. unfold gm_centre. cbn [nadd nmul nsub ndiv nofZ nabs ROps]. rewrite nhalf_R_local.
      split; [intros; discriminate|]. split; [intros _|intros; discriminate].
      split; [exact E2|]. rewrite Rabs_left by lra.
      assert (Hd0 : dirc <> 0) by lra.
      split; [|split; [field; exact Hd0|field; exact Hd0]].
      replace ((ax_org a + (IZR oi + 1 / 2) * ax_r a + IZR (-1) * ax_r a * (1 / 2) - oc) / dirc)
        with ((oc - (ax_org a + IZR oi * ax_r a)) * / (- dirc)) by (simpl (IZR (-1)); field; exact Hd0).
      apply Rmult_le_pos; [lra|left; apply Rinv_0_lt_compat; lra].
    + cbn [Z.eqb]. split; [intros; discriminate|]. split; [intros; discriminate|]. intros _. lra.
Qed.
