(* PoseCovProofs.v — lemmas for C11 (reductions, embedding, SE(3) action, ellipse) and the matrix algebra
   used by C12 (J*C*J^T symmetric PSD, least-squares covariance). Real-number instance. *)
From Coq Require Import Reals ZArith Lra Lia Psatz Nsatz Arith Bool.
From Romea Require Import Num NumR AnglesModel AnglesProofs AnglesRoundtrip PoseCovModel.
Local Open Scope R_scope.

Notation rsum := (nsum ROps).

(* ---------------- finite sums ---------------- *)
Lemma rsum_S n f : rsum (S n) f = rsum n f + f n.
Proof. reflexivity. Qed.
Lemma rsum_ext n f g : (forall i, (i < n)%nat -> f i = g i) -> rsum n f = rsum n g.
Proof. induction n; intros H; [reflexivity|]. rewrite !rsum_S, IHn, H by (intros; try apply H; lia). reflexivity. Qed.
Lemma rsum_plus n f g : rsum n (fun i => f i + g i) = rsum n f + rsum n g.
Proof. induction n; [cbn; lra|]. rewrite !rsum_S, IHn. lra. Qed.
Lemma rsum_scal n c f : rsum n (fun i => c * f i) = c * rsum n f.
Proof. induction n; [cbn; lra|]. rewrite !rsum_S, IHn. lra. Qed.
Lemma rsum_scal_r n c f : rsum n (fun i => f i * c) = rsum n f * c.
Proof. induction n; [cbn; lra|]. rewrite !rsum_S, IHn. lra. Qed.
Lemma rsum_zero n : rsum n (fun _ => 0) = 0.
Proof. induction n; [reflexivity|]. rewrite rsum_S, IHn. lra. Qed.
Lemma rsum_swap n m (f : nat -> nat -> R) :
  rsum n (fun i => rsum m (fun j => f i j)) = rsum m (fun j => rsum n (fun i => f i j)).
Proof.
  induction n.
  - cbn. symmetry. apply rsum_zero.
  - rewrite rsum_S, IHn. rewrite <- rsum_plus. apply rsum_ext. intros. reflexivity.
Qed.
(* a sum with a single non-zero index *)
Lemma rsum_single n k f : (k < n)%nat -> (forall i, (i < n)%nat -> i <> k -> f i = 0) -> rsum n f = f k.
Proof.
  induction n; intros Hk H; [lia|]. rewrite rsum_S.
  destruct (Nat.eq_dec k n) as [->|Hne].
  - rewrite (rsum_ext n f (fun _ => 0)), rsum_zero by (intros; apply H; lia). lra.
  - rewrite IHn by (try lia; intros; apply H; lia). rewrite (H n) by lia. lra.
Qed.

Definition gsym (n : nat) (c : mat R) : Prop := forall i j, (i < n)%nat -> (j < n)%nat -> c i j = c j i.
Definition quad (n : nat) (c : mat R) (x : vec R) : R := rsum n (fun i => rsum n (fun j => x i * c i j * x j)).
Definition gpsd (n : nat) (c : mat R) : Prop := forall x, 0 <= quad n c x.

(* ---------------- Matrix.hpp: selection and embedding ---------------- *)
Lemma se2_selects (c : mat R) :
  toSe2Covariance c 0%nat 0%nat = c 0%nat 0%nat /\ toSe2Covariance c 0%nat 1%nat = c 0%nat 1%nat /\ toSe2Covariance c 0%nat 2%nat = c 0%nat 5%nat /\
  toSe2Covariance c 1%nat 0%nat = c 1%nat 0%nat /\ toSe2Covariance c 1%nat 1%nat = c 1%nat 1%nat /\ toSe2Covariance c 1%nat 2%nat = c 1%nat 5%nat /\
  toSe2Covariance c 2%nat 0%nat = c 5%nat 0%nat /\ toSe2Covariance c 2%nat 1%nat = c 5%nat 1%nat /\ toSe2Covariance c 2%nat 2%nat = c 5%nat 5%nat.
Proof. repeat split. Qed.

Lemma lt3_cases i : (i < 3)%nat -> i = 0%nat \/ i = 1%nat \/ i = 2%nat.
Proof. lia. Qed.
Lemma lt6_cases i : (i < 6)%nat -> i = 0%nat \/ i = 1%nat \/ i = 2%nat \/ i = 3%nat \/ i = 4%nat \/ i = 5%nat.
Proof. lia. Qed.

Lemma se2_of_se3_id (c : mat R) i j : (i < 3)%nat -> (j < 3)%nat ->
  toSe2Covariance (toSe3Covariance ROps c) i j = c i j.
Proof.
  intros Hi Hj. destruct (lt3_cases i Hi) as [Ei|[Ei|Ei]]; subst i; destruct (lt3_cases j Hj) as [Ej|[Ej|Ej]]; subst j; reflexivity.
Qed.

Lemma se3_embedding (c : mat R) :
  (forall i j, (i < 3)%nat -> (j < 3)%nat -> toSe3Covariance ROps c (sel3 i) (sel3 j) = c i j) /\
  (forall i j, (i < 6)%nat -> (j < 6)%nat -> is_planar i && is_planar j = false -> toSe3Covariance ROps c i j = 0).
Proof.
  split.
  - intros i j Hi Hj. destruct (lt3_cases i Hi) as [Ei|[Ei|Ei]]; subst i; destruct (lt3_cases j Hj) as [Ej|[Ej|Ej]]; subst j; reflexivity.
  - intros i j _ _ H. unfold toSe3Covariance. rewrite H. reflexivity.
Qed.

Lemma se2_sym c : gsym 6 c -> gsym 3 (toSe2Covariance c).
Proof.
  intros H i j Hi Hj. unfold toSe2Covariance. apply H;
    [destruct (lt3_cases i Hi) as [Ei|[Ei|Ei]]; subst i|destruct (lt3_cases j Hj) as [Ej|[Ej|Ej]]; subst j]; cbn; lia.
Qed.
Lemma se3_sym c : gsym 3 c -> gsym 6 (toSe3Covariance ROps c).
Proof.
  intros H i j Hi Hj. unfold toSe3Covariance.
  destruct (lt6_cases i Hi) as [Ei|[Ei|[Ei|[Ei|[Ei|Ei]]]]]; subst i; destruct (lt6_cases j Hj) as [Ej|[Ej|[Ej|[Ej|[Ej|Ej]]]]]; subst j;
    cbn; try reflexivity; apply H; lia.
Qed.

Definition embed3 (x : vec R) : vec R := fun i =>
  match i with 0%nat => x 0%nat | 1%nat => x 1%nat | 5%nat => x 2%nat | _ => 0 end.
Definition pad3 (x : vec R) : vec R := fun i =>
  match i with 0%nat => x 0%nat | 1%nat => x 1%nat | 2%nat => x 2%nat | _ => 0 end.

Lemma se2_quad c x : quad 3 (toSe2Covariance c) x = quad 6 c (embed3 x).
Proof. unfold quad, toSe2Covariance, embed3. cbn. ring. Qed.
Lemma se2_psd c : gpsd 6 c -> gpsd 3 (toSe2Covariance c).
Proof. intros H x. rewrite se2_quad. apply H. Qed.

Lemma se3_quad c x : quad 6 (toSe3Covariance ROps c) x = quad 3 c (fun i => x (sel3 i)).
Proof. unfold quad, toSe3Covariance. cbn. ring. Qed.
Lemma se3_psd c : gpsd 3 c -> gpsd 6 (toSe3Covariance ROps c).
Proof. intros H x. rewrite se3_quad. apply H. Qed.

Lemma block3_quad c x : quad 3 (fun i j => c i j) x = quad 6 c (pad3 x).
Proof. unfold quad, pad3. cbn. ring. Qed.
Lemma position3_sym_psd (p : pose3 (T:=R)) :
  (gsym 6 (p3_cov p) -> gsym 3 (q3_cov (toPosition3D p))) /\ (gpsd 6 (p3_cov p) -> gpsd 3 (q3_cov (toPosition3D p))).
Proof.
  split.
  - intros H i j Hi Hj. cbn. apply H; lia.
  - intros H x. unfold toPosition3D. cbn [q3_cov]. rewrite block3_quad. apply H.
Qed.

(* reductions keep exactly the planar components *)
Lemma reductions_keep_planar (p : pose3 (T:=R)) (t : twist3 (T:=R)) :
  p2_x (toPose2D p) = v0 (p3_pos p) /\ p2_y (toPose2D p) = v1 (p3_pos p) /\ p2_yaw (toPose2D p) = v2 (p3_ori p) /\
  p2_cov (toPose2D p) = toSe2Covariance (p3_cov p) /\
  t2_vx (toTwist2D t) = v0 (t3_lin t) /\ t2_vy (toTwist2D t) = v1 (t3_lin t) /\ t2_w (toTwist2D t) = v2 (t3_ang t) /\
  t2_cov (toTwist2D t) = toSe2Covariance (t3_cov t) /\
  toPoseAndTwist2D (p, t) = (toPose2D p, toTwist2D t) /\
  q3_pos (toPosition3D p) = p3_pos p /\ (forall i j, q3_cov (toPosition3D p) i j = p3_cov p i j).
Proof. repeat split. Qed.

(* ---------------- SE(3) action on the mean ---------------- *)
Definition act_mean (l : mat3 R) (t pos ori : vec3 R) := pose_transform_mean ROps ROps idR idR l t pos ori.
Definition rot_of (e : vec3 R) : mat3 R := rot_zyx (v0 e) (v1 e) (v2 e).

Lemma vec3_ext (a b : vec3 R) : v0 a = v0 b -> v1 a = v1 b -> v2 a = v2 b -> a = b.
Proof. destruct a, b; cbn; intros; subst; reflexivity. Qed.

Lemma action_position_identity t pos ori : t = mkV3 0 0 0 -> fst (act_mean (mid3 ROps) t pos ori) = pos.
Proof. intros ->. destruct pos as [x y z]. unfold act_mean, pose_transform_mean, vadd3, mvmul3, mid3. cbn [fst]. rcbn. f_equal; ring. Qed.

Lemma action_position_compose l t l' t' pos ori ori' :
  fst (act_mean l' t' (fst (act_mean l t pos ori)) ori') =
  fst (act_mean (mmul3 ROps l' l) (vadd3 ROps (mvmul3 ROps l' t) t') pos ori).
Proof.
  destruct pos as [x y z], t as [a b c], t' as [a' b' c'].
  unfold act_mean, pose_transform_mean, vadd3, mvmul3, mmul3. cbn [fst]. rcbn. f_equal; ring.
Qed.

Lemma mtrans3_mul (a b : mat3 R) : mtrans3 (mmul3 ROps a b) = mmul3 ROps (mtrans3 b) (mtrans3 a).
Proof. unfold mtrans3, mmul3. rcbn. f_equal; ring. Qed.
Lemma det3_mul (a b : mat3 R) : det3 ROps (mmul3 ROps a b) = det3 ROps a * det3 ROps b.
Proof. unfold det3, mmul3. rcbn. ring. Qed.

Lemma proper_mul a b : proper_rotation a -> proper_rotation b -> proper_rotation (mmul3 ROps a b).
Proof.
  intros [Ha Da] [Hb Db]. split.
  - rewrite mtrans3_mul, mmul3_assoc, <- (mmul3_assoc (mtrans3 a) a b), Ha, mmul3_id_l. exact Hb.
  - rewrite det3_mul, Da, Db. ring.
Qed.

Lemma proper_id : proper_rotation (mid3 ROps).
Proof. unfold proper_rotation, mmul3, mtrans3, mid3, det3. rcbn. split; [f_equal; ring|ring]. Qed.

(* attitude: the reported angles describe the rotation l * R(angles), off gimbal lock *)
Lemma action_attitude l t pos ori : proper_rotation l -> Rabs (m20 (mmul3 ROps l (rot_of ori))) < 1 ->
  exists e, snd (act_mean l t pos ori) = Some e /\ rot_of e = mmul3 ROps l (rot_of ori).
Proof.
  intros Hl Hg.
  destruct (rotation_roundtrip_lemma (mmul3 ROps l (rot_of ori)) (proper_mul _ _ Hl (rzyx_proper _ _ _)) Hg) as [e [E1 E2]].
  exists e. split; [|exact E2].
  unfold act_mean, pose_transform_mean. cbn [snd].
  change (sR (smart_init ROps (v0 ori) (v1 ori) (v2 ori))) with (rot_of ori).
  exact E1.
Qed.

Lemma action_attitude_identity t pos ori : Rabs (m20 (rot_of ori)) < 1 ->
  exists e, snd (act_mean (mid3 ROps) t pos ori) = Some e /\ rot_of e = rot_of ori.
Proof.
  intros H. destruct (action_attitude (mid3 ROps) t pos ori proper_id) as [e [E1 E2]].
  - rewrite mmul3_id_l. exact H.
  - exists e. split; [exact E1|]. rewrite E2. apply mmul3_id_l.
Qed.

Lemma action_attitude_compose l t l' t' pos ori :
  proper_rotation l -> proper_rotation l' ->
  Rabs (m20 (mmul3 ROps l (rot_of ori))) < 1 -> Rabs (m20 (mmul3 ROps (mmul3 ROps l' l) (rot_of ori))) < 1 ->
  exists e1 e2 e3,
    snd (act_mean l t pos ori) = Some e1 /\
    snd (act_mean l' t' (fst (act_mean l t pos ori)) e1) = Some e2 /\
    snd (act_mean (mmul3 ROps l' l) (vadd3 ROps (mvmul3 ROps l' t) t') pos ori) = Some e3 /\
    rot_of e2 = rot_of e3 /\ rot_of e3 = mmul3 ROps (mmul3 ROps l' l) (rot_of ori).
Proof.
  intros Hl Hl' G1 G2.
  destruct (action_attitude l t pos ori Hl G1) as [e1 [E1 R1]].
  assert (G2' : Rabs (m20 (mmul3 ROps l' (rot_of e1))) < 1) by (rewrite R1, <- mmul3_assoc; exact G2).
  destruct (action_attitude l' t' (fst (act_mean l t pos ori)) e1 Hl' G2') as [e2 [E2 R2]].
  destruct (action_attitude (mmul3 ROps l' l) (vadd3 ROps (mvmul3 ROps l' t) t') pos ori (proper_mul _ _ Hl' Hl) G2) as [e3 [E3 R3]].
  exists e1, e2, e3. repeat split; try assumption.
  rewrite R2, R1, R3, mmul3_assoc. reflexivity.
Qed.

(* ---------------- ellipse ---------------- *)
Definition svd2_contract (c : mat2 R) (r : (R * R) * mat2 R) : Prop :=
  let '((s0, s1), u) := r in
  0 <= s1 <= s0 /\
  a00 u * a00 u + a10 u * a10 u = 1 /\ a01 u * a01 u + a11 u * a11 u = 1 /\ a00 u * a01 u + a10 u * a11 u = 0 /\
  a00 c = a00 u * s0 * a00 u + a01 u * s1 * a01 u /\
  a01 c = a00 u * s0 * a10 u + a01 u * s1 * a11 u /\
  a10 c = a10 u * s0 * a00 u + a11 u * s1 * a01 u /\
  a11 c = a10 u * s0 * a10 u + a11 u * s1 * a11 u.

Lemma orth2_rows a b c d : a * a + c * c = 1 -> b * b + d * d = 1 -> a * b + c * d = 0 ->
  b * b = c * c /\ d * d = a * a /\ b * d = - (a * c).
Proof. intros H1 H2 H3. repeat split; nsatz. Qed.

Lemma ellipse_reconstructs svd c sigma : 0 < sigma -> svd2_contract c (svd c) ->
  let e := ellipse_of_cov ROps svd c sigma in
  let th := e_orientation e in let mj := e_major e in let mn := e_minor e in
  0 <= mn <= mj /\
  (cos th * cos th * (mj * mj) + sin th * sin th * (mn * mn)) / (sigma * sigma) = a00 c /\
  (cos th * sin th * (mj * mj - mn * mn)) / (sigma * sigma) = a01 c /\
  (cos th * sin th * (mj * mj - mn * mn)) / (sigma * sigma) = a10 c /\
  (sin th * sin th * (mj * mj) + cos th * cos th * (mn * mn)) / (sigma * sigma) = a11 c.
Proof.
  intros Hs. unfold svd2_contract, ellipse_of_cov. destruct (svd c) as [[s0 s1] u].
  intros [Hord [O1 [O2 [O3 [C00 [C01 [C10 C11]]]]]]]. cbn [e_orientation e_major e_minor]. rcbn.
  destruct (orth2_rows _ _ _ _ O1 O2 O3) as [Q1 [Q2 Q3]].
  assert (Hn : a00 u * a00 u + a10 u * a10 u = 1 * 1) by lra.
  destruct (atan2_polar (a00 u) (a10 u) 1 ltac:(lra) Hn) as [_ [Hc Hsn]].
  rewrite Rmult_1_l in Hc, Hsn. rewrite Hc, Hsn.
  assert (H0 : 0 <= s0) by lra.
  assert (M2 : sqrt s0 * sigma * (sqrt s0 * sigma) = s0 * (sigma * sigma)) by (pose proof (sqrt_sqrt s0 H0); nra).
  assert (N2 : sqrt s1 * sigma * (sqrt s1 * sigma) = s1 * (sigma * sigma)) by (pose proof (sqrt_sqrt s1 ltac:(lra)); nra).
  rewrite M2, N2.
  assert (Hss : sigma * sigma <> 0) by nra.
  split.
  - pose proof (sqrt_pos s1). pose proof (sqrt_le_1_alt s1 s0 ltac:(lra)). split; nra.
  - rewrite C00, C01, C10, C11. repeat split.
    + replace (a01 u * s1 * a01 u) with (s1 * (a10 u * a10 u)) by (rewrite <- Q1; ring). field; lra.
    + replace (a01 u * s1 * a11 u) with (s1 * - (a00 u * a10 u)) by (rewrite <- Q3; ring). field; lra.
    + replace (a11 u * s1 * a01 u) with (s1 * - (a00 u * a10 u)) by (rewrite <- Q3; ring). field; lra.
    + replace (a11 u * s1 * a11 u) with (s1 * (a00 u * a00 u)) by (rewrite <- Q2; ring). field; lra.
Qed.
