(* SrcTieC09.v — the SYNTACTIC source tie of C09.  gen/SrcNormals.v is regenerated on every run by
   translate/tr_C09_normals.py from the clang AST of src/pointset/algorithms/NormalAndCurvatureEstimation.cpp, in the
   instantiations V2 = Eigen::Vector2d, V3 = Eigen::Vector3d, H2 = HomogeneousCoordinates2d, H3 = HomogeneousCoordinates3d.
   Here the generated terms are proved equal to the functions of NormalsModel.v the C09 theorems are about, for EVERY numeric
   dictionary N (the proofs are by computation, case analysis and induction over the loops: the generated term and the model
   perform the same floating-point operations in the same order):
     tie_flip_<I>          flipNormalTowardOriginCoordinate = flip_cart (test on the Cartesian part, '>', w kept)   [NormLits N]
     tie_reliability_<I>   computeNormalReliability = reliability
     tie_plane_<I>         planeEstimation_ = kd_find, then eig (covariance N dim size (neighbours)), members = its components:
                           the loop over 0..k-1 reading neighborIndexes_[i] is the model's fold over the neighbour list
                           (fold_left_map_idx), the generated tuple-valued loop state and the model's lists / matrix entries
                           run in lock step (fold_left_rel, one projection per covariance entry)
     tie_compute_kd_{n,nc,ncr}_<I>   the loop of compute(): entry j of normals [, curvatures [, reliability]] after the loop is
                           e_normal / e_curvature / e_reliability of estimate_point at point j, every other entry untouched
                           (fold_zrange_pointwise: pass i changes entry i only)
     tie_compute_{n,nc,ncr}_<I>      the overloads building their own kd-tree = the ones above on kd_build size points
   and, over the reals, src_normals_unit_facing_<I>: unit length and n.p <= 0 stated on the generated terms.
   A point / normal is a tuple of scalars in the generated terms; l2 / l3 / l4 turn it into the model's list. *)
From Coq Require Import Reals ZArith List Bool Lia Lra.
From Romea Require Import Num NumR NormalsModel NormalsProofs SrcEigen SrcNormalsLib.
From Romea.gen Require Import SrcNormals.
Import ListNotations.

Ltac destruct_tuples := repeat match goal with st : (_ * _)%type |- _ => destruct st end.

Section Tie.
Context {T : Type} (N : NumOps T).

Definition l2 (t : T * T) : list T := let '(a, b) := t in [a; b].
Definition l3 (t : T * T * T) : list T := let '(a, b, c) := t in [a; b; c].
Definition l4 (t : T * T * T * T) : list T := let '(a, b, c, d) := t in [a; b; c; d].

Lemma l2_inj x y : l2 x = l2 y -> x = y.
Proof. destruct x as [a b], y as [a' b']. cbn. intros H. injection H as -> ->. reflexivity. Qed.
Lemma l3_inj x y : l3 x = l3 y -> x = y.
Proof. destruct x as [[a b] c], y as [[a' b'] c']. cbn. intros H. injection H as -> -> ->. reflexivity. Qed.
Lemma l4_inj x y : l4 x = l4 y -> x = y.
Proof. destruct x as [[[a b] c] d], y as [[[a' b'] c'] d']. cbn. intros H. injection H as -> -> -> ->. reflexivity. Qed.

Context (L : NormLits N).

(* ---------------------------------------------------------------- flipNormalTowardOriginCoordinate = flip_cart *)
Ltac flip_tie f :=
  unfold f, flip_cart, ngtb, vdot, vnorm, vdot, vdivs, vneg, eig_dot, eig_norm;
  rewrite (nl_zero N L); cbn [firstn skipn map vdot_acc eig_dot_acc fold_left app l2 l3 l4];
  rewrite !(nl_negone N L);
  match goal with |- context [nltb N ?a ?b] => destruct (nltb N a b) end; reflexivity.

Lemma tie_flip_V2 p0 p1 n0 n1 : l2 (src_flip_V2 N p0 p1 n0 n1) = flip_cart N 2 [p0; p1] [n0; n1].
Proof. flip_tie @src_flip_V2. Qed.
Lemma tie_flip_V3 p0 p1 p2 n0 n1 n2 : l3 (src_flip_V3 N p0 p1 p2 n0 n1 n2) = flip_cart N 3 [p0; p1; p2] [n0; n1; n2].
Proof. flip_tie @src_flip_V3. Qed.
Lemma tie_flip_H2 p0 p1 p2 n0 n1 n2 : l3 (src_flip_H2 N p0 p1 p2 n0 n1 n2) = flip_cart N 2 [p0; p1; p2] [n0; n1; n2].
Proof. flip_tie @src_flip_H2. Qed.
Lemma tie_flip_H3 p0 p1 p2 p3 n0 n1 n2 n3 :
  l4 (src_flip_H3 N p0 p1 p2 p3 n0 n1 n2 n3) = flip_cart N 3 [p0; p1; p2; p3] [n0; n1; n2; n3].
Proof. flip_tie @src_flip_H3. Qed.

(* ---------------------------------------------------------------- computeNormalReliability = reliability *)
Lemma tie_reliability_V2 a b : src_reliability_V2 N a b = reliability N 2 [a; b].
Proof. reflexivity. Qed.
Lemma tie_reliability_H2 a b : src_reliability_H2 N a b = reliability N 2 [a; b].
Proof. reflexivity. Qed.
Lemma tie_reliability_V3 a b c : src_reliability_V3 N a b c = reliability N 3 [a; b; c].
Proof. reflexivity. Qed.
Lemma tie_reliability_H3 a b c : src_reliability_H3 N a b c = reliability N 3 [a; b; c].
Proof. reflexivity. Qed.

(* ---------------------------------------------------------------- planeEstimation_ *)
(* the component of the tuple-valued term [st] at the place where the tuple of variables [tup] has the variable [c] *)
Ltac proj_of c tup st :=
  lazymatch tup with
  | (?rest, c) => constr:(snd st)
  | (?rest, _) => proj_of c rest constr:(fst st)
  | c => st
  end.

(* goal: c = fold_left H (zrange k) s  where EC : fold_left G (zrange k) init = (.., c, ..) : the two loops run in lock step *)
Ltac entry_tie EC points :=
  lazymatch goal with
  | |- ?c = fold_left ?H ?l ?s =>
    lazymatch type of EC with
    | fold_left ?G l ?init = ?tup =>
      let p := proj_of c tup tup in
      change c with p; rewrite <- EC; symmetry;
      let ty := type of tup in
      apply (fold_left_rel (fun (st : ty) (acc : T) => acc = ltac:(let q := proj_of c tup st in exact q)) G H);
      [ let i := fresh "i" in let st := fresh "st" in let acc := fresh "acc" in let HR := fresh "HR" in
        intros i st acc _ HR; cbv beta in HR; subst acc; destruct_tuples;
        cbv beta iota zeta; destruct (points (znth _ i)) as [? ?]; destruct_tuples; reflexivity
      | reflexivity ]
    end
  end.

(* goal: src_planeEstimation_<I> .. = (.., eig (covariance N dim size (map (lS o points) nbi)), ..) *)
Ltac plane_tie f lS dim size kdf points idx k :=
  let Ep := fresh "Ep" in let nbi := fresh "nbi" in let Hkk := fresh "Hkk" in let EM := fresh "EM" in let h := fresh "h" in
  let HM := fresh "HM" in let EC := fresh "EC" in let HC := fresh "HC" in
  unfold f;
  destruct (points idx) as [? ?] eqn:Ep; destruct_tuples;
  match goal with |- context [kdf ?kd ?p k] => set (nbi := kdf kd p k) in * end;
  assert (Hkk : k = Z.of_nat (length nbi)) by lia;
  match goal with |- context [fold_left ?g (zrange k) ?init] =>
    destruct (fold_left g (zrange k) init) as [? ?] eqn:EM end; destruct_tuples;
  pose (h := fun i : Z => lS (points i));
  match type of EM with _ = ?tupM =>
    assert (HM : mean N size (map h nbi) = vdivs N (lS tupM) (nofZ N k));
    [ unfold mean, scalar_of_nat; rewrite map_length, <- Hkk; f_equal;
      rewrite fold_left_map_idx, <- Hkk, <- EM;
      match goal with |- fold_left ?H _ _ = lS (fold_left ?G _ _) =>
        apply (fold_left_rel (fun st acc => acc = lS st) G H) end; [|reflexivity];
      let i := fresh "i" in let st := fresh "st" in let acc := fresh "acc" in
      intros i st acc _ ->; destruct_tuples; cbv beta iota zeta; unfold h;
      destruct (points (znth nbi i)) as [? ?]; destruct_tuples; reflexivity
    | ] end;
  match goal with |- context [fold_left ?g (zrange k) ?init] =>
    destruct (fold_left g (zrange k) init) as [? ?] eqn:EC end; destruct_tuples;
  match goal with |- context [?e ?M] =>
    lazymatch type of M with list (list T) => assert (HC : M = covariance N dim size (map h nbi)) end end;
  [ unfold covariance, cov_entry, scalar_of_nat; rewrite HM, map_length, <- Hkk, map_map; subst h;
    cbn [map seq]; repeat f_equal;
    rewrite fold_left_map_idx, <- Hkk; entry_tie EC points
  | rewrite HC; reflexivity ].

Section Plane.
Context {K : Type} (eig : list (list T) -> list T * list (list T)).

Lemma tie_plane_V2 (kd_find : K -> T * T -> Z -> list Z) points kd idx k :
  (0 <= k)%Z -> length (kd_find kd (points idx) k) = Z.to_nat k ->
  src_planeEstimation_V2 N kd_find eig points kd idx k =
    let nbi := kd_find kd (points idx) k in
    let es := eig (covariance N 2 2 (map (fun i => l2 (points i)) nbi)) in
    (nbi, es, eig_val N es 0, eig_val N es 1, eig_vec N es 0 0, eig_vec N es 0 1, eig_vec N es 1 0, eig_vec N es 1 1).
Proof. intros Hk Hlen. plane_tie @src_planeEstimation_V2 l2 2%nat 2%nat kd_find points idx k. Qed.

Lemma tie_plane_H2 (kd_find : K -> T * T * T -> Z -> list Z) points kd idx k :
  (0 <= k)%Z -> length (kd_find kd (points idx) k) = Z.to_nat k ->
  src_planeEstimation_H2 N kd_find eig points kd idx k =
    let nbi := kd_find kd (points idx) k in
    let es := eig (covariance N 2 3 (map (fun i => l3 (points i)) nbi)) in
    (nbi, es, eig_val N es 0, eig_val N es 1, eig_vec N es 0 0, eig_vec N es 0 1, eig_vec N es 1 0, eig_vec N es 1 1).
Proof. intros Hk Hlen. plane_tie @src_planeEstimation_H2 l3 2%nat 3%nat kd_find points idx k. Qed.

Lemma tie_plane_V3 (kd_find : K -> T * T * T -> Z -> list Z) points kd idx k :
  (0 <= k)%Z -> length (kd_find kd (points idx) k) = Z.to_nat k ->
  src_planeEstimation_V3 N kd_find eig points kd idx k =
    let nbi := kd_find kd (points idx) k in
    let es := eig (covariance N 3 3 (map (fun i => l3 (points i)) nbi)) in
    (nbi, es, eig_val N es 0, eig_val N es 1, eig_val N es 2,
     eig_vec N es 0 0, eig_vec N es 0 1, eig_vec N es 0 2, eig_vec N es 1 0, eig_vec N es 1 1, eig_vec N es 1 2,
     eig_vec N es 2 0, eig_vec N es 2 1, eig_vec N es 2 2).
Proof. intros Hk Hlen. plane_tie @src_planeEstimation_V3 l3 3%nat 3%nat kd_find points idx k. Qed.

Lemma tie_plane_H3 (kd_find : K -> T * T * T * T -> Z -> list Z) points kd idx k :
  (0 <= k)%Z -> length (kd_find kd (points idx) k) = Z.to_nat k ->
  src_planeEstimation_H3 N kd_find eig points kd idx k =
    let nbi := kd_find kd (points idx) k in
    let es := eig (covariance N 3 4 (map (fun i => l4 (points i)) nbi)) in
    (nbi, es, eig_val N es 0, eig_val N es 1, eig_val N es 2,
     eig_vec N es 0 0, eig_vec N es 0 1, eig_vec N es 0 2, eig_vec N es 1 0, eig_vec N es 1 1, eig_vec N es 1 2,
     eig_vec N es 2 0, eig_vec N es 2 1, eig_vec N es 2 2).
Proof. intros Hk Hlen. plane_tie @src_planeEstimation_H3 l4 3%nat 4%nat kd_find points idx k. Qed.
End Plane.

(* ---------------------------------------------------------------- compute (the caller's kd-tree) *)
Definition eig_shape (dim : nat) (r : list T * list (list T)) : Prop :=
  length (fst r) = dim /\ length (nth 0 (snd r) []) = dim.

Ltac head t := lazymatch t with ?f _ => head f | _ => t end.
(* destruct the (tuple-valued) call of f that blocks the reduction *)
Ltac destruct_call f :=
  match goal with |- context [?x] =>
    lazymatch x with _ _ => idtac end;
    let h := head x in constr_eq h f;
    lazymatch type of x with (_ * _)%type => idtac end;
    destruct x as [? ?] eqn:?; destruct_tuples end.
(* expose the new state of one pass of the loop of compute(): the array reads at index i are named, the calls are replaced *)
Ltac body_simpl planetie flipf i :=
  rewrite planetie by auto; cbv beta iota zeta;
  repeat (rewrite ?arr_set_same; cbv beta iota zeta;
          match goal with |- context [?f i] =>
            is_var f; lazymatch type of (f i) with (_ * _)%type => destruct (f i) as [? ?] eqn:?; destruct_tuples end end);
  rewrite ?arr_set_same; cbv beta iota zeta;
  destruct_call flipf; cbv beta iota zeta.

(* one pass of compute() equals the model's estimate_point at the point index, and leaves the other entries alone; then
   fold_zrange_pointwise.  Goal (after intros):  let '(nrm [, cv [, rl]], ..) := src_compute.. in forall j, (in range -> .. = ..) /\ (.. -> ..) *)
Ltac compute_core G get F planetie flipf fliptie size Hsz Hshape EF j :=
  let Hother := fresh "Hother" in let Hsame := fresh "Hsame" in let P1 := fresh "P1" in let P2 := fresh "P2" in
  assert (Hother : forall s i j, j <> i -> get (G s i) j = get s j);
  [ let s := fresh "s" in let i := fresh "i" in let j' := fresh "j" in let Hne := fresh "Hne" in
    intros s i j' Hne; destruct_tuples; unfold get, G; body_simpl planetie flipf i;
    cbn [fst snd]; rewrite !arr_set_other by exact Hne; reflexivity | ];
  assert (Hsame : forall s i, (0 <= i < Z.of_nat (Z.to_nat size))%Z -> get (G s i) i = F i (get s i));
  [ let s := fresh "s" in let i := fresh "i" in let Hi := fresh "Hi" in let Hs1 := fresh "Hs1" in let Hs2 := fresh "Hs2" in
    let lam := fresh "lam" in let vecs := fresh "vecs" in
    intros s i Hi; pose proof (Hshape i ltac:(lia)) as [Hs1 Hs2]; destruct_tuples; unfold get, G, F;
    body_simpl planetie flipf i; cbn [fst snd]; rewrite !arr_set_same;
    repeat match goal with E : ?x = (_, _) |- context [?x] => rewrite E end;
    match goal with E : ?x = ?tup |- _ => let h := head x in constr_eq h flipf; rewrite <- E end;
    rewrite fliptie; unfold estimate_point;
    match goal with |- context [?e ?C] => lazymatch type of C with list (list T) => destruct (e C) as [lam vecs] end end;
    cbn [eig_val eig_vec fst snd e_normal e_curvature e_reliability] in *; unfold write_normal;
    first [rewrite (firstn_nth3 (nzero N)) by assumption | rewrite (firstn_nth2 (nzero N)) by assumption];
    cbn [l2 l3 l4 skipn app];
    repeat (apply (f_equal2 (@pair _ _))); try reflexivity;
    unfold curvature, vsum, eig_sum, vcoord; repeat (destruct lam as [|? lam]; try discriminate); reflexivity
  | ];
  match type of EF with fold_left _ _ ?init = _ =>
    destruct (fold_zrange_pointwise G get F (Z.to_nat size) Hsame Hother init j) as [P1 P2] end;
  rewrite Z2Nat.id in P1, P2 by exact Hsz; rewrite EF in P1, P2; unfold get, F in P1, P2; cbn [fst snd] in P1, P2;
  split; [exact P1 | exact P2].

Ltac compute_tie f planetie flipf fliptie lS dim sz eig kd_find kd points k size Hsz Hshape :=
  let G := fresh "G" in let EF := fresh "EF" in let j := fresh "j" in let get := fresh "get" in let F := fresh "F" in
  unfold f;
  match goal with |- context [fold_left ?g (zrange size) ?init] =>
    set (G := g); destruct (fold_left G (zrange size) init) as [? ?] eqn:EF end; destruct_tuples;
  intros j;
  let est i old := constr:(estimate_point N eig false dim sz (lS (points i))
                             (map (fun i0 => lS (points i0)) (kd_find kd (points i) k)) old) in
  match type of EF with fold_left _ _ _ = ?tup =>
    let ty := type of tup in
    lazymatch goal with
    | |- (_ -> (lS (?nrm j), ?cv j, ?rl j) = _) /\ _ =>
      pose (get := fun (st : ty) (i : Z) =>
        (lS (ltac:(let q := proj_of nrm tup st in exact q) i), ltac:(let q := proj_of cv tup st in exact q) i,
         ltac:(let q := proj_of rl tup st in exact q) i));
      pose (F := fun (i : Z) (old : list T * T * T) =>
        ltac:(let e := est i (fst (fst old)) in exact (e_normal e, e_curvature e, e_reliability e)))
    | |- (_ -> (lS (?nrm j), ?cv j) = _) /\ _ =>
      pose (get := fun (st : ty) (i : Z) =>
        (lS (ltac:(let q := proj_of nrm tup st in exact q) i), ltac:(let q := proj_of cv tup st in exact q) i));
      pose (F := fun (i : Z) (old : list T * T) =>
        ltac:(let e := est i (fst old) in exact (e_normal e, e_curvature e)))
    | |- (_ -> lS (?nrm j) = _) /\ _ =>
      pose (get := fun (st : ty) (i : Z) => lS (ltac:(let q := proj_of nrm tup st in exact q) i));
      pose (F := fun (i : Z) (old : list T) => ltac:(let e := est i old in exact (e_normal e)))
    end
  end;
  compute_core G get F planetie flipf fliptie size Hsz Hshape EF j.


Section Compute.
Context {K : Type} (eig : list (list T) -> list T * list (list T)).

Lemma tie_compute_kd_n_V2 (kd_find : K -> T * T -> Z -> list Z) points size kd normals k nbi0 es0 a0 a1 v00 v01 v10 v11 :
  (0 <= k)%Z -> (0 <= size)%Z -> (forall p, length (kd_find kd p k) = Z.to_nat k) ->
  (forall j, (0 <= j < size)%Z ->
     eig_shape 2 (eig (covariance N 2 2 (map (fun i => l2 (points i)) (kd_find kd (points j) k))))) ->
  let '(nrm, _, _, _, _, _, _, _, _) :=
    src_compute_kd_n_V2 N kd_find eig points size kd normals k nbi0 es0 a0 a1 v00 v01 v10 v11 in
  forall j,
    ((0 <= j < size)%Z ->
     let e := estimate_point N eig false 2 2 (l2 (points j)) (map (fun i => l2 (points i)) (kd_find kd (points j) k)) (l2 (normals j)) in
     l2 (nrm j) = e_normal e) /\
    (~ (0 <= j < size)%Z -> l2 (nrm j) = l2 (normals j)).
Proof.
  intros Hk Hsz Hkd Hshape.
  compute_tie @src_compute_kd_n_V2 (tie_plane_V2 eig kd_find) (@src_flip_V2) tie_flip_V2 l2 2%nat 2%nat eig kd_find kd points k size Hsz Hshape.
Qed.

Lemma tie_compute_kd_nc_V2 (kd_find : K -> T * T -> Z -> list Z) points size kd normals curvatures k nbi0 es0 a0 a1 v00 v01 v10 v11 :
  (0 <= k)%Z -> (0 <= size)%Z -> (forall p, length (kd_find kd p k) = Z.to_nat k) ->
  (forall j, (0 <= j < size)%Z ->
     eig_shape 2 (eig (covariance N 2 2 (map (fun i => l2 (points i)) (kd_find kd (points j) k))))) ->
  let '(nrm, cv, _, _, _, _, _, _, _, _) :=
    src_compute_kd_nc_V2 N kd_find eig points size kd normals curvatures k nbi0 es0 a0 a1 v00 v01 v10 v11 in
  forall j,
    ((0 <= j < size)%Z ->
     let e := estimate_point N eig false 2 2 (l2 (points j)) (map (fun i => l2 (points i)) (kd_find kd (points j) k)) (l2 (normals j)) in
     (l2 (nrm j), cv j) = (e_normal e, e_curvature e)) /\
    (~ (0 <= j < size)%Z -> (l2 (nrm j), cv j) = (l2 (normals j), curvatures j)).
Proof.
  intros Hk Hsz Hkd Hshape.
  compute_tie @src_compute_kd_nc_V2 (tie_plane_V2 eig kd_find) (@src_flip_V2) tie_flip_V2 l2 2%nat 2%nat eig kd_find kd points k size Hsz Hshape.
Qed.

Lemma tie_compute_kd_ncr_V2 (kd_find : K -> T * T -> Z -> list Z) points size kd normals curvatures reliab k nbi0 es0 a0 a1 v00 v01 v10 v11 :
  (0 <= k)%Z -> (0 <= size)%Z -> (forall p, length (kd_find kd p k) = Z.to_nat k) ->
  (forall j, (0 <= j < size)%Z ->
     eig_shape 2 (eig (covariance N 2 2 (map (fun i => l2 (points i)) (kd_find kd (points j) k))))) ->
  let '(nrm, cv, rl, _, _, _, _, _, _, _, _) :=
    src_compute_kd_ncr_V2 N kd_find eig points size kd normals curvatures reliab k nbi0 es0 a0 a1 v00 v01 v10 v11 in
  forall j,
    ((0 <= j < size)%Z ->
     let e := estimate_point N eig false 2 2 (l2 (points j)) (map (fun i => l2 (points i)) (kd_find kd (points j) k)) (l2 (normals j)) in
     (l2 (nrm j), cv j, rl j) = (e_normal e, e_curvature e, e_reliability e)) /\
    (~ (0 <= j < size)%Z -> (l2 (nrm j), cv j, rl j) = (l2 (normals j), curvatures j, reliab j)).
Proof.
  intros Hk Hsz Hkd Hshape.
  compute_tie @src_compute_kd_ncr_V2 (tie_plane_V2 eig kd_find) (@src_flip_V2) tie_flip_V2 l2 2%nat 2%nat eig kd_find kd points k size Hsz Hshape.
Qed.

Lemma tie_compute_kd_n_V3 (kd_find : K -> T * T * T -> Z -> list Z) points size kd normals k nbi0 es0 a0 a1 a2 v00 v01 v02 v10 v11 v12 v20 v21 v22 :
  (0 <= k)%Z -> (0 <= size)%Z -> (forall p, length (kd_find kd p k) = Z.to_nat k) ->
  (forall j, (0 <= j < size)%Z ->
     eig_shape 3 (eig (covariance N 3 3 (map (fun i => l3 (points i)) (kd_find kd (points j) k))))) ->
  let '(nrm, _, _, _, _, _, _, _, _, _, _, _, _, _, _) :=
    src_compute_kd_n_V3 N kd_find eig points size kd normals k nbi0 es0 a0 a1 a2 v00 v01 v02 v10 v11 v12 v20 v21 v22 in
  forall j,
    ((0 <= j < size)%Z ->
     let e := estimate_point N eig false 3 3 (l3 (points j)) (map (fun i => l3 (points i)) (kd_find kd (points j) k)) (l3 (normals j)) in
     l3 (nrm j) = e_normal e) /\
    (~ (0 <= j < size)%Z -> l3 (nrm j) = l3 (normals j)).
Proof.
  intros Hk Hsz Hkd Hshape.
  compute_tie @src_compute_kd_n_V3 (tie_plane_V3 eig kd_find) (@src_flip_V3) tie_flip_V3 l3 3%nat 3%nat eig kd_find kd points k size Hsz Hshape.
Qed.

Lemma tie_compute_kd_nc_V3 (kd_find : K -> T * T * T -> Z -> list Z) points size kd normals curvatures k nbi0 es0 a0 a1 a2 v00 v01 v02 v10 v11 v12 v20 v21 v22 :
  (0 <= k)%Z -> (0 <= size)%Z -> (forall p, length (kd_find kd p k) = Z.to_nat k) ->
  (forall j, (0 <= j < size)%Z ->
     eig_shape 3 (eig (covariance N 3 3 (map (fun i => l3 (points i)) (kd_find kd (points j) k))))) ->
  let '(nrm, cv, _, _, _, _, _, _, _, _, _, _, _, _, _, _) :=
    src_compute_kd_nc_V3 N kd_find eig points size kd normals curvatures k nbi0 es0 a0 a1 a2 v00 v01 v02 v10 v11 v12 v20 v21 v22 in
  forall j,
    ((0 <= j < size)%Z ->
     let e := estimate_point N eig false 3 3 (l3 (points j)) (map (fun i => l3 (points i)) (kd_find kd (points j) k)) (l3 (normals j)) in
     (l3 (nrm j), cv j) = (e_normal e, e_curvature e)) /\
    (~ (0 <= j < size)%Z -> (l3 (nrm j), cv j) = (l3 (normals j), curvatures j)).
Proof.
  intros Hk Hsz Hkd Hshape.
  compute_tie @src_compute_kd_nc_V3 (tie_plane_V3 eig kd_find) (@src_flip_V3) tie_flip_V3 l3 3%nat 3%nat eig kd_find kd points k size Hsz Hshape.
Qed.

Lemma tie_compute_kd_ncr_V3 (kd_find : K -> T * T * T -> Z -> list Z) points size kd normals curvatures reliab k nbi0 es0 a0 a1 a2 v00 v01 v02 v10 v11 v12 v20 v21 v22 :
  (0 <= k)%Z -> (0 <= size)%Z -> (forall p, length (kd_find kd p k) = Z.to_nat k) ->
  (forall j, (0 <= j < size)%Z ->
     eig_shape 3 (eig (covariance N 3 3 (map (fun i => l3 (points i)) (kd_find kd (points j) k))))) ->
  let '(nrm, cv, rl, _, _, _, _, _, _, _, _, _, _, _, _, _, _) :=
    src_compute_kd_ncr_V3 N kd_find eig points size kd normals curvatures reliab k nbi0 es0 a0 a1 a2 v00 v01 v02 v10 v11 v12 v20 v21 v22 in
  forall j,
    ((0 <= j < size)%Z ->
     let e := estimate_point N eig false 3 3 (l3 (points j)) (map (fun i => l3 (points i)) (kd_find kd (points j) k)) (l3 (normals j)) in
     (l3 (nrm j), cv j, rl j) = (e_normal e, e_curvature e, e_reliability e)) /\
    (~ (0 <= j < size)%Z -> (l3 (nrm j), cv j, rl j) = (l3 (normals j), curvatures j, reliab j)).
Proof.
  intros Hk Hsz Hkd Hshape.
  compute_tie @src_compute_kd_ncr_V3 (tie_plane_V3 eig kd_find) (@src_flip_V3) tie_flip_V3 l3 3%nat 3%nat eig kd_find kd points k size Hsz Hshape.
Qed.

Lemma tie_compute_kd_n_H2 (kd_find : K -> T * T * T -> Z -> list Z) points size kd normals k nbi0 es0 a0 a1 v00 v01 v10 v11 :
  (0 <= k)%Z -> (0 <= size)%Z -> (forall p, length (kd_find kd p k) = Z.to_nat k) ->
  (forall j, (0 <= j < size)%Z ->
     eig_shape 2 (eig (covariance N 2 3 (map (fun i => l3 (points i)) (kd_find kd (points j) k))))) ->
  let '(nrm, _, _, _, _, _, _, _, _) :=
    src_compute_kd_n_H2 N kd_find eig points size kd normals k nbi0 es0 a0 a1 v00 v01 v10 v11 in
  forall j,
    ((0 <= j < size)%Z ->
     let e := estimate_point N eig false 2 3 (l3 (points j)) (map (fun i => l3 (points i)) (kd_find kd (points j) k)) (l3 (normals j)) in
     l3 (nrm j) = e_normal e) /\
    (~ (0 <= j < size)%Z -> l3 (nrm j) = l3 (normals j)).
Proof.
  intros Hk Hsz Hkd Hshape.
  compute_tie @src_compute_kd_n_H2 (tie_plane_H2 eig kd_find) (@src_flip_H2) tie_flip_H2 l3 2%nat 3%nat eig kd_find kd points k size Hsz Hshape.
Qed.

Lemma tie_compute_kd_nc_H2 (kd_find : K -> T * T * T -> Z -> list Z) points size kd normals curvatures k nbi0 es0 a0 a1 v00 v01 v10 v11 :
  (0 <= k)%Z -> (0 <= size)%Z -> (forall p, length (kd_find kd p k) = Z.to_nat k) ->
  (forall j, (0 <= j < size)%Z ->
     eig_shape 2 (eig (covariance N 2 3 (map (fun i => l3 (points i)) (kd_find kd (points j) k))))) ->
  let '(nrm, cv, _, _, _, _, _, _, _, _) :=
    src_compute_kd_nc_H2 N kd_find eig points size kd normals curvatures k nbi0 es0 a0 a1 v00 v01 v10 v11 in
  forall j,
    ((0 <= j < size)%Z ->
     let e := estimate_point N eig false 2 3 (l3 (points j)) (map (fun i => l3 (points i)) (kd_find kd (points j) k)) (l3 (normals j)) in
     (l3 (nrm j), cv j) = (e_normal e, e_curvature e)) /\
    (~ (0 <= j < size)%Z -> (l3 (nrm j), cv j) = (l3 (normals j), curvatures j)).
Proof.
  intros Hk Hsz Hkd Hshape.
  compute_tie @src_compute_kd_nc_H2 (tie_plane_H2 eig kd_find) (@src_flip_H2) tie_flip_H2 l3 2%nat 3%nat eig kd_find kd points k size Hsz Hshape.
Qed.

Lemma tie_compute_kd_ncr_H2 (kd_find : K -> T * T * T -> Z -> list Z) points size kd normals curvatures reliab k nbi0 es0 a0 a1 v00 v01 v10 v11 :
  (0 <= k)%Z -> (0 <= size)%Z -> (forall p, length (kd_find kd p k) = Z.to_nat k) ->
  (forall j, (0 <= j < size)%Z ->
     eig_shape 2 (eig (covariance N 2 3 (map (fun i => l3 (points i)) (kd_find kd (points j) k))))) ->
  let '(nrm, cv, rl, _, _, _, _, _, _, _, _) :=
    src_compute_kd_ncr_H2 N kd_find eig points size kd normals curvatures reliab k nbi0 es0 a0 a1 v00 v01 v10 v11 in
  forall j,
    ((0 <= j < size)%Z ->
     let e := estimate_point N eig false 2 3 (l3 (points j)) (map (fun i => l3 (points i)) (kd_find kd (points j) k)) (l3 (normals j)) in
     (l3 (nrm j), cv j, rl j) = (e_normal e, e_curvature e, e_reliability e)) /\
    (~ (0 <= j < size)%Z -> (l3 (nrm j), cv j, rl j) = (l3 (normals j), curvatures j, reliab j)).
Proof.
  intros Hk Hsz Hkd Hshape.
  compute_tie @src_compute_kd_ncr_H2 (tie_plane_H2 eig kd_find) (@src_flip_H2) tie_flip_H2 l3 2%nat 3%nat eig kd_find kd points k size Hsz Hshape.
Qed.

Lemma tie_compute_kd_n_H3 (kd_find : K -> T * T * T * T -> Z -> list Z) points size kd normals k nbi0 es0 a0 a1 a2 v00 v01 v02 v10 v11 v12 v20 v21 v22 :
  (0 <= k)%Z -> (0 <= size)%Z -> (forall p, length (kd_find kd p k) = Z.to_nat k) ->
  (forall j, (0 <= j < size)%Z ->
     eig_shape 3 (eig (covariance N 3 4 (map (fun i => l4 (points i)) (kd_find kd (points j) k))))) ->
  let '(nrm, _, _, _, _, _, _, _, _, _, _, _, _, _, _) :=
    src_compute_kd_n_H3 N kd_find eig points size kd normals k nbi0 es0 a0 a1 a2 v00 v01 v02 v10 v11 v12 v20 v21 v22 in
  forall j,
    ((0 <= j < size)%Z ->
     let e := estimate_point N eig false 3 4 (l4 (points j)) (map (fun i => l4 (points i)) (kd_find kd (points j) k)) (l4 (normals j)) in
     l4 (nrm j) = e_normal e) /\
    (~ (0 <= j < size)%Z -> l4 (nrm j) = l4 (normals j)).
Proof.
  intros Hk Hsz Hkd Hshape.
  compute_tie @src_compute_kd_n_H3 (tie_plane_H3 eig kd_find) (@src_flip_H3) tie_flip_H3 l4 3%nat 4%nat eig kd_find kd points k size Hsz Hshape.
Qed.

Lemma tie_compute_kd_nc_H3 (kd_find : K -> T * T * T * T -> Z -> list Z) points size kd normals curvatures k nbi0 es0 a0 a1 a2 v00 v01 v02 v10 v11 v12 v20 v21 v22 :
  (0 <= k)%Z -> (0 <= size)%Z -> (forall p, length (kd_find kd p k) = Z.to_nat k) ->
  (forall j, (0 <= j < size)%Z ->
     eig_shape 3 (eig (covariance N 3 4 (map (fun i => l4 (points i)) (kd_find kd (points j) k))))) ->
  let '(nrm, cv, _, _, _, _, _, _, _, _, _, _, _, _, _, _) :=
    src_compute_kd_nc_H3 N kd_find eig points size kd normals curvatures k nbi0 es0 a0 a1 a2 v00 v01 v02 v10 v11 v12 v20 v21 v22 in
  forall j,
    ((0 <= j < size)%Z ->
     let e := estimate_point N eig false 3 4 (l4 (points j)) (map (fun i => l4 (points i)) (kd_find kd (points j) k)) (l4 (normals j)) in
     (l4 (nrm j), cv j) = (e_normal e, e_curvature e)) /\
    (~ (0 <= j < size)%Z -> (l4 (nrm j), cv j) = (l4 (normals j), curvatures j)).
Proof.
  intros Hk Hsz Hkd Hshape.
  compute_tie @src_compute_kd_nc_H3 (tie_plane_H3 eig kd_find) (@src_flip_H3) tie_flip_H3 l4 3%nat 4%nat eig kd_find kd points k size Hsz Hshape.
Qed.

Lemma tie_compute_kd_ncr_H3 (kd_find : K -> T * T * T * T -> Z -> list Z) points size kd normals curvatures reliab k nbi0 es0 a0 a1 a2 v00 v01 v02 v10 v11 v12 v20 v21 v22 :
  (0 <= k)%Z -> (0 <= size)%Z -> (forall p, length (kd_find kd p k) = Z.to_nat k) ->
  (forall j, (0 <= j < size)%Z ->
     eig_shape 3 (eig (covariance N 3 4 (map (fun i => l4 (points i)) (kd_find kd (points j) k))))) ->
  let '(nrm, cv, rl, _, _, _, _, _, _, _, _, _, _, _, _, _, _) :=
    src_compute_kd_ncr_H3 N kd_find eig points size kd normals curvatures reliab k nbi0 es0 a0 a1 a2 v00 v01 v02 v10 v11 v12 v20 v21 v22 in
  forall j,
    ((0 <= j < size)%Z ->
     let e := estimate_point N eig false 3 4 (l4 (points j)) (map (fun i => l4 (points i)) (kd_find kd (points j) k)) (l4 (normals j)) in
     (l4 (nrm j), cv j, rl j) = (e_normal e, e_curvature e, e_reliability e)) /\
    (~ (0 <= j < size)%Z -> (l4 (nrm j), cv j, rl j) = (l4 (normals j), curvatures j, reliab j)).
Proof.
  intros Hk Hsz Hkd Hshape.
  compute_tie @src_compute_kd_ncr_H3 (tie_plane_H3 eig kd_find) (@src_flip_H3) tie_flip_H3 l4 3%nat 4%nat eig kd_find kd points k size Hsz Hshape.
Qed.

Lemma tie_compute_n_V2 (kd_find : K -> T * T -> Z -> list Z) kd_build points size normals k nbi0 es0 a0 a1 v00 v01 v10 v11 :
  src_compute_n_V2 N kd_find kd_build eig points size normals k nbi0 es0 a0 a1 v00 v01 v10 v11 =
  src_compute_kd_n_V2 N kd_find eig points size (kd_build size points) normals k nbi0 es0 a0 a1 v00 v01 v10 v11.
Proof.
  unfold src_compute_n_V2.
  destruct (src_compute_kd_n_V2 N kd_find eig points size (kd_build size points) normals k nbi0 es0 a0 a1 v00 v01 v10 v11) as [? ?]; destruct_tuples; reflexivity.
Qed.
Lemma tie_compute_nc_V2 (kd_find : K -> T * T -> Z -> list Z) kd_build points size normals curvatures k nbi0 es0 a0 a1 v00 v01 v10 v11 :
  src_compute_nc_V2 N kd_find kd_build eig points size normals curvatures k nbi0 es0 a0 a1 v00 v01 v10 v11 =
  src_compute_kd_nc_V2 N kd_find eig points size (kd_build size points) normals curvatures k nbi0 es0 a0 a1 v00 v01 v10 v11.
Proof.
  unfold src_compute_nc_V2.
  destruct (src_compute_kd_nc_V2 N kd_find eig points size (kd_build size points) normals curvatures k nbi0 es0 a0 a1 v00 v01 v10 v11) as [? ?]; destruct_tuples; reflexivity.
Qed.
Lemma tie_compute_ncr_V2 (kd_find : K -> T * T -> Z -> list Z) kd_build points size normals curvatures reliab k nbi0 es0 a0 a1 v00 v01 v10 v11 :
  src_compute_ncr_V2 N kd_find kd_build eig points size normals curvatures reliab k nbi0 es0 a0 a1 v00 v01 v10 v11 =
  src_compute_kd_ncr_V2 N kd_find eig points size (kd_build size points) normals curvatures reliab k nbi0 es0 a0 a1 v00 v01 v10 v11.
Proof.
  unfold src_compute_ncr_V2.
  destruct (src_compute_kd_ncr_V2 N kd_find eig points size (kd_build size points) normals curvatures reliab k nbi0 es0 a0 a1 v00 v01 v10 v11) as [? ?]; destruct_tuples; reflexivity.
Qed.
Lemma tie_compute_n_V3 (kd_find : K -> T * T * T -> Z -> list Z) kd_build points size normals k nbi0 es0 a0 a1 a2 v00 v01 v02 v10 v11 v12 v20 v21 v22 :
  src_compute_n_V3 N kd_find kd_build eig points size normals k nbi0 es0 a0 a1 a2 v00 v01 v02 v10 v11 v12 v20 v21 v22 =
  src_compute_kd_n_V3 N kd_find eig points size (kd_build size points) normals k nbi0 es0 a0 a1 a2 v00 v01 v02 v10 v11 v12 v20 v21 v22.
Proof.
  unfold src_compute_n_V3.
  destruct (src_compute_kd_n_V3 N kd_find eig points size (kd_build size points) normals k nbi0 es0 a0 a1 a2 v00 v01 v02 v10 v11 v12 v20 v21 v22) as [? ?]; destruct_tuples; reflexivity.
Qed.
Lemma tie_compute_nc_V3 (kd_find : K -> T * T * T -> Z -> list Z) kd_build points size normals curvatures k nbi0 es0 a0 a1 a2 v00 v01 v02 v10 v11 v12 v20 v21 v22 :
  src_compute_nc_V3 N kd_find kd_build eig points size normals curvatures k nbi0 es0 a0 a1 a2 v00 v01 v02 v10 v11 v12 v20 v21 v22 =
  src_compute_kd_nc_V3 N kd_find eig points size (kd_build size points) normals curvatures k nbi0 es0 a0 a1 a2 v00 v01 v02 v10 v11 v12 v20 v21 v22.
Proof.
  unfold src_compute_nc_V3.
  destruct (src_compute_kd_nc_V3 N kd_find eig points size (kd_build size points) normals curvatures k nbi0 es0 a0 a1 a2 v00 v01 v02 v10 v11 v12 v20 v21 v22) as [? ?]; destruct_tuples; reflexivity.
Qed.
Lemma tie_compute_ncr_V3 (kd_find : K -> T * T * T -> Z -> list Z) kd_build points size normals curvatures reliab k nbi0 es0 a0 a1 a2 v00 v01 v02 v10 v11 v12 v20 v21 v22 :
  src_compute_ncr_V3 N kd_find kd_build eig points size normals curvatures reliab k nbi0 es0 a0 a1 a2 v00 v01 v02 v10 v11 v12 v20 v21 v22 =
  src_compute_kd_ncr_V3 N kd_find eig points size (kd_build size points) normals curvatures reliab k nbi0 es0 a0 a1 a2 v00 v01 v02 v10 v11 v12 v20 v21 v22.
Proof.
  unfold src_compute_ncr_V3.
  destruct (src_compute_kd_ncr_V3 N kd_find eig points size (kd_build size points) normals curvatures reliab k nbi0 es0 a0 a1 a2 v00 v01 v02 v10 v11 v12 v20 v21 v22) as [? ?]; destruct_tuples; reflexivity.
Qed.
Lemma tie_compute_n_H2 (kd_find : K -> T * T * T -> Z -> list Z) kd_build points size normals k nbi0 es0 a0 a1 v00 v01 v10 v11 :
  src_compute_n_H2 N kd_find kd_build eig points size normals k nbi0 es0 a0 a1 v00 v01 v10 v11 =
  src_compute_kd_n_H2 N kd_find eig points size (kd_build size points) normals k nbi0 es0 a0 a1 v00 v01 v10 v11.
Proof.
  unfold src_compute_n_H2.
  destruct (src_compute_kd_n_H2 N kd_find eig points size (kd_build size points) normals k nbi0 es0 a0 a1 v00 v01 v10 v11) as [? ?]; destruct_tuples; reflexivity.
Qed.
Lemma tie_compute_nc_H2 (kd_find : K -> T * T * T -> Z -> list Z) kd_build points size normals curvatures k nbi0 es0 a0 a1 v00 v01 v10 v11 :
  src_compute_nc_H2 N kd_find kd_build eig points size normals curvatures k nbi0 es0 a0 a1 v00 v01 v10 v11 =
  src_compute_kd_nc_H2 N kd_find eig points size (kd_build size points) normals curvatures k nbi0 es0 a0 a1 v00 v01 v10 v11.
Proof.
  unfold src_compute_nc_H2.
  destruct (src_compute_kd_nc_H2 N kd_find eig points size (kd_build size points) normals curvatures k nbi0 es0 a0 a1 v00 v01 v10 v11) as [? ?]; destruct_tuples; reflexivity.
Qed.
Lemma tie_compute_ncr_H2 (kd_find : K -> T * T * T -> Z -> list Z) kd_build points size normals curvatures reliab k nbi0 es0 a0 a1 v00 v01 v10 v11 :
  src_compute_ncr_H2 N kd_find kd_build eig points size normals curvatures reliab k nbi0 es0 a0 a1 v00 v01 v10 v11 =
  src_compute_kd_ncr_H2 N kd_find eig points size (kd_build size points) normals curvatures reliab k nbi0 es0 a0 a1 v00 v01 v10 v11.
Proof.
  unfold src_compute_ncr_H2.
  destruct (src_compute_kd_ncr_H2 N kd_find eig points size (kd_build size points) normals curvatures reliab k nbi0 es0 a0 a1 v00 v01 v10 v11) as [? ?]; destruct_tuples; reflexivity.
Qed.
Lemma tie_compute_n_H3 (kd_find : K -> T * T * T * T -> Z -> list Z) kd_build points size normals k nbi0 es0 a0 a1 a2 v00 v01 v02 v10 v11 v12 v20 v21 v22 :
  src_compute_n_H3 N kd_find kd_build eig points size normals k nbi0 es0 a0 a1 a2 v00 v01 v02 v10 v11 v12 v20 v21 v22 =
  src_compute_kd_n_H3 N kd_find eig points size (kd_build size points) normals k nbi0 es0 a0 a1 a2 v00 v01 v02 v10 v11 v12 v20 v21 v22.
Proof.
  unfold src_compute_n_H3.
  destruct (src_compute_kd_n_H3 N kd_find eig points size (kd_build size points) normals k nbi0 es0 a0 a1 a2 v00 v01 v02 v10 v11 v12 v20 v21 v22) as [? ?]; destruct_tuples; reflexivity.
Qed.
Lemma tie_compute_nc_H3 (kd_find : K -> T * T * T * T -> Z -> list Z) kd_build points size normals curvatures k nbi0 es0 a0 a1 a2 v00 v01 v02 v10 v11 v12 v20 v21 v22 :
  src_compute_nc_H3 N kd_find kd_build eig points size normals curvatures k nbi0 es0 a0 a1 a2 v00 v01 v02 v10 v11 v12 v20 v21 v22 =
  src_compute_kd_nc_H3 N kd_find eig points size (kd_build size points) normals curvatures k nbi0 es0 a0 a1 a2 v00 v01 v02 v10 v11 v12 v20 v21 v22.
Proof.
  unfold src_compute_nc_H3.
  destruct (src_compute_kd_nc_H3 N kd_find eig points size (kd_build size points) normals curvatures k nbi0 es0 a0 a1 a2 v00 v01 v02 v10 v11 v12 v20 v21 v22) as [? ?]; destruct_tuples; reflexivity.
Qed.
Lemma tie_compute_ncr_H3 (kd_find : K -> T * T * T * T -> Z -> list Z) kd_build points size normals curvatures reliab k nbi0 es0 a0 a1 a2 v00 v01 v02 v10 v11 v12 v20 v21 v22 :
  src_compute_ncr_H3 N kd_find kd_build eig points size normals curvatures reliab k nbi0 es0 a0 a1 a2 v00 v01 v02 v10 v11 v12 v20 v21 v22 =
  src_compute_kd_ncr_H3 N kd_find eig points size (kd_build size points) normals curvatures reliab k nbi0 es0 a0 a1 a2 v00 v01 v02 v10 v11 v12 v20 v21 v22.
Proof.
  unfold src_compute_ncr_H3.
  destruct (src_compute_kd_ncr_H3 N kd_find eig points size (kd_build size points) normals curvatures reliab k nbi0 es0 a0 a1 a2 v00 v01 v02 v10 v11 v12 v20 v21 v22) as [? ?]; destruct_tuples; reflexivity.
Qed.
End Compute.

End Tie.

(* ---------------------------------------------------------------- the real dictionary *)
Lemma NormLits_R : NormLits ROps.
Proof. split; [reflexivity|]. intros x. cbn. lra. Qed.

Lemma contract_shape dim C r : (0 < dim)%nat -> eig_contract dim C r -> eig_shape dim r.
Proof. intros Hd (H1 & _ & H3 & _). split; [exact H1|apply H3; exact Hd]. Qed.

(* the normals written by the generated compute() are unit and face the sensor (stated on the generated terms) *)
Section Corollary.
Context {K : Type} (eig : list (list R) -> list R * list (list R)).
Local Open Scope R_scope.

Lemma src_normals_unit_facing_V2 (kd_find : K -> R * R -> Z -> list Z) points size kd normals curvatures reliab k nbi0 es0 a0 a1 v00 v01 v10 v11 :
  (0 <= k)%Z -> (0 <= size)%Z -> (forall p, length (kd_find kd p k) = Z.to_nat k) ->
  (forall j, (0 <= j < size)%Z ->
     let C := covariance ROps 2 2 (map (fun i => l2 (points i)) (kd_find kd (points j) k)) in eig_contract 2 C (eig C)) ->
  let '(nrm, cv, rl, _, _, _, _, _, _, _, _) :=
    src_compute_kd_ncr_V2 ROps kd_find eig points size kd normals curvatures reliab k nbi0 es0 a0 a1 v00 v01 v10 v11 in
  forall j, (0 <= j < size)%Z ->
    let n := firstn 2 (l2 (nrm j)) in
    vdot ROps n n = 1 /\ vdot ROps n (firstn 2 (l2 (points j))) <= 0.
Proof.
  intros Hk Hsz Hkd Hc.
  pose proof (tie_compute_kd_ncr_V2 ROps NormLits_R eig kd_find points size kd normals curvatures reliab k nbi0 es0 a0 a1 v00 v01 v10 v11 Hk Hsz Hkd
                (fun j Hj => contract_shape 2 _ _ ltac:(lia) (Hc j Hj))) as Ht.
  destruct (src_compute_kd_ncr_V2 ROps kd_find eig points size kd normals curvatures reliab k nbi0 es0 a0 a1 v00 v01 v10 v11) as [? ?]; destruct_tuples.
  intros j Hj. destruct (Ht j) as [Ht1 _]. specialize (Ht1 Hj). cbv zeta in Ht1. injection Ht1 as Q1 Q2 Q3. rewrite Q1.
  cbv zeta. split.
  - apply normal_unit; [left; reflexivity|exact (Hc j Hj)].
  - apply normal_faces_sensor; [left; reflexivity|exact (Hc j Hj)].
Qed.

Lemma src_normals_unit_facing_V3 (kd_find : K -> R * R * R -> Z -> list Z) points size kd normals curvatures reliab k nbi0 es0 a0 a1 a2 v00 v01 v02 v10 v11 v12 v20 v21 v22 :
  (0 <= k)%Z -> (0 <= size)%Z -> (forall p, length (kd_find kd p k) = Z.to_nat k) ->
  (forall j, (0 <= j < size)%Z ->
     let C := covariance ROps 3 3 (map (fun i => l3 (points i)) (kd_find kd (points j) k)) in eig_contract 3 C (eig C)) ->
  let '(nrm, cv, rl, _, _, _, _, _, _, _, _, _, _, _, _, _, _) :=
    src_compute_kd_ncr_V3 ROps kd_find eig points size kd normals curvatures reliab k nbi0 es0 a0 a1 a2 v00 v01 v02 v10 v11 v12 v20 v21 v22 in
  forall j, (0 <= j < size)%Z ->
    let n := firstn 3 (l3 (nrm j)) in
    vdot ROps n n = 1 /\ vdot ROps n (firstn 3 (l3 (points j))) <= 0.
Proof.
  intros Hk Hsz Hkd Hc.
  pose proof (tie_compute_kd_ncr_V3 ROps NormLits_R eig kd_find points size kd normals curvatures reliab k nbi0 es0 a0 a1 a2 v00 v01 v02 v10 v11 v12 v20 v21 v22 Hk Hsz Hkd
                (fun j Hj => contract_shape 3 _ _ ltac:(lia) (Hc j Hj))) as Ht.
  destruct (src_compute_kd_ncr_V3 ROps kd_find eig points size kd normals curvatures reliab k nbi0 es0 a0 a1 a2 v00 v01 v02 v10 v11 v12 v20 v21 v22) as [? ?]; destruct_tuples.
  intros j Hj. destruct (Ht j) as [Ht1 _]. specialize (Ht1 Hj). cbv zeta in Ht1. injection Ht1 as Q1 Q2 Q3. rewrite Q1.
  cbv zeta. split.
  - apply normal_unit; [right; reflexivity|exact (Hc j Hj)].
  - apply normal_faces_sensor; [right; reflexivity|exact (Hc j Hj)].
Qed.

Lemma src_normals_unit_facing_H2 (kd_find : K -> R * R * R -> Z -> list Z) points size kd normals curvatures reliab k nbi0 es0 a0 a1 v00 v01 v10 v11 :
  (0 <= k)%Z -> (0 <= size)%Z -> (forall p, length (kd_find kd p k) = Z.to_nat k) ->
  (forall j, (0 <= j < size)%Z ->
     let C := covariance ROps 2 3 (map (fun i => l3 (points i)) (kd_find kd (points j) k)) in eig_contract 2 C (eig C)) ->
  let '(nrm, cv, rl, _, _, _, _, _, _, _, _) :=
    src_compute_kd_ncr_H2 ROps kd_find eig points size kd normals curvatures reliab k nbi0 es0 a0 a1 v00 v01 v10 v11 in
  forall j, (0 <= j < size)%Z ->
    let n := firstn 2 (l3 (nrm j)) in
    vdot ROps n n = 1 /\ vdot ROps n (firstn 2 (l3 (points j))) <= 0.
Proof.
  intros Hk Hsz Hkd Hc.
  pose proof (tie_compute_kd_ncr_H2 ROps NormLits_R eig kd_find points size kd normals curvatures reliab k nbi0 es0 a0 a1 v00 v01 v10 v11 Hk Hsz Hkd
                (fun j Hj => contract_shape 2 _ _ ltac:(lia) (Hc j Hj))) as Ht.
  destruct (src_compute_kd_ncr_H2 ROps kd_find eig points size kd normals curvatures reliab k nbi0 es0 a0 a1 v00 v01 v10 v11) as [? ?]; destruct_tuples.
  intros j Hj. destruct (Ht j) as [Ht1 _]. specialize (Ht1 Hj). cbv zeta in Ht1. injection Ht1 as Q1 Q2 Q3. rewrite Q1.
  cbv zeta. split.
  - apply normal_unit; [left; reflexivity|exact (Hc j Hj)].
  - apply normal_faces_sensor; [left; reflexivity|exact (Hc j Hj)].
Qed.

Lemma src_normals_unit_facing_H3 (kd_find : K -> R * R * R * R -> Z -> list Z) points size kd normals curvatures reliab k nbi0 es0 a0 a1 a2 v00 v01 v02 v10 v11 v12 v20 v21 v22 :
  (0 <= k)%Z -> (0 <= size)%Z -> (forall p, length (kd_find kd p k) = Z.to_nat k) ->
  (forall j, (0 <= j < size)%Z ->
     let C := covariance ROps 3 4 (map (fun i => l4 (points i)) (kd_find kd (points j) k)) in eig_contract 3 C (eig C)) ->
  let '(nrm, cv, rl, _, _, _, _, _, _, _, _, _, _, _, _, _, _) :=
    src_compute_kd_ncr_H3 ROps kd_find eig points size kd normals curvatures reliab k nbi0 es0 a0 a1 a2 v00 v01 v02 v10 v11 v12 v20 v21 v22 in
  forall j, (0 <= j < size)%Z ->
    let n := firstn 3 (l4 (nrm j)) in
    vdot ROps n n = 1 /\ vdot ROps n (firstn 3 (l4 (points j))) <= 0.
Proof.
  intros Hk Hsz Hkd Hc.
  pose proof (tie_compute_kd_ncr_H3 ROps NormLits_R eig kd_find points size kd normals curvatures reliab k nbi0 es0 a0 a1 a2 v00 v01 v02 v10 v11 v12 v20 v21 v22 Hk Hsz Hkd
                (fun j Hj => contract_shape 3 _ _ ltac:(lia) (Hc j Hj))) as Ht.
  destruct (src_compute_kd_ncr_H3 ROps kd_find eig points size kd normals curvatures reliab k nbi0 es0 a0 a1 a2 v00 v01 v02 v10 v11 v12 v20 v21 v22) as [? ?]; destruct_tuples.
  intros j Hj. destruct (Ht j) as [Ht1 _]. specialize (Ht1 Hj). cbv zeta in Ht1. injection Ht1 as Q1 Q2 Q3. rewrite Q1.
  cbv zeta. split.
  - apply normal_unit; [right; reflexivity|exact (Hc j Hj)].
  - apply normal_faces_sensor; [right; reflexivity|exact (Hc j Hj)].
Qed.

End Corollary.
