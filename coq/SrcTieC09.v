(* SrcTieC09.v — the SYNTACTIC source tie of C09.  gen/SrcNormals.v is regenerated on every run by
   translate/tr_C09_normals.py from the clang AST of src/pointset/algorithms/NormalAndCurvatureEstimation.cpp. *)
From Coq Require Import ZArith List Bool Lia.
From Romea Require Import Num NormalsModel SrcEigen SrcNormalsLib.
From Romea.gen Require Import SrcNormals.
Import ListNotations.

Section Tie.
Context {T : Type} (N : NumOps T).

Definition l2 (t : T * T) : list T := let '(a, b) := t in [a; b].
Definition l3 (t : T * T * T) : list T := let '(a, b, c) := t in [a; b; c].
Definition l4 (t : T * T * T * T) : list T := let '(a, b, c, d) := t in [a; b; c; d].

Context (L : NormLits N).

(* ---------------------------------------------------------------- flipNormalTowardOriginCoordinate = flip_cart *)
Ltac flip_tie f :=
  unfold f, flip_cart, ngtb, vdot, vnorm, vdot, vdivs, vneg, eig_dot, eig_norm;
  rewrite (nl_zero N L); cbn [firstn skipn map vdot_acc eig_dot_acc fold_left app l2 l3 l4];
  rewrite !(nl_negone N L);
  match goal with |- context [nltb N ?a ?b] => destruct (nltb N a b) end; reflexivity.

Lemma tie_flip_V2 p0 p1 n0 n1 : l2 (src_flip_V2 N p0 p1 n0 n1) = flip_cart N 2 [p0; p1] [n0; n1].
Proof. flip_tie @src_flip_V2. Qed.
Lemma tie_flip_V3 p0 p1 p2 n0 n1 n2 : l3 (src_flip_V3 N p0 p1 p2 n0 n1 n2) = flip_cart N 3 [p0; p1; p2] [n0; n1; n2].
Proof. flip_tie @src_flip_V3. Qed.
Lemma tie_flip_H2 p0 p1 p2 n0 n1 n2 : l3 (src_flip_H2 N p0 p1 p2 n0 n1 n2) = flip_cart N 2 [p0; p1; p2] [n0; n1; n2].
Proof. flip_tie @src_flip_H2. Qed.
Lemma tie_flip_H3 p0 p1 p2 p3 n0 n1 n2 n3 :
  l4 (src_flip_H3 N p0 p1 p2 p3 n0 n1 n2 n3) = flip_cart N 3 [p0; p1; p2; p3] [n0; n1; n2; n3].
Proof. flip_tie @src_flip_H3. Qed.

(* ---------------------------------------------------------------- computeNormalReliability = reliability *)
Lemma tie_reliability_V2 a b : src_reliability_V2 N a b = reliability N 2 [a; b].
Proof. reflexivity. Qed.
Lemma tie_reliability_H2 a b : src_reliability_H2 N a b = reliability N 2 [a; b].
Proof. reflexivity. Qed.
Lemma tie_reliability_V3 a b c : src_reliability_V3 N a b c = reliability N 3 [a; b; c].
Proof. reflexivity. Qed.
Lemma tie_reliability_H3 a b c : src_reliability_H3 N a b c = reliability N 3 [a; b; c].
Proof. reflexivity. Qed.

(* ---------------------------------------------------------------- planeEstimation_ *)
(* the component of the tuple-valued term [st] at the place where the tuple of variables [tup] has the variable [c] *)
Ltac proj_of c tup st :=
  lazymatch tup with
  | (?rest, c) => constr:(snd st)
  | (?rest, _) => proj_of c rest constr:(fst st)
  | c => st
  end.
Ltac destruct_tuples := repeat match goal with st : (_ * _)%type |- _ => destruct st end.

(* goal: c = fold_left H (zrange k) s  where EC : fold_left G (zrange k) init = (.., c, ..) : the two loops run in lock step *)
Ltac entry_tie EC points :=
  lazymatch goal with
  | |- ?c = fold_left ?H ?l ?s =>
    lazymatch type of EC with
    | fold_left ?G l ?init = ?tup =>
      let p := proj_of c tup tup in
      change c with p; rewrite <- EC; symmetry;
      let ty := type of tup in
      apply (fold_left_rel (fun (st : ty) (acc : T) => acc = ltac:(let q := proj_of c tup st in exact q)) G H);
      [ let i := fresh "i" in let st := fresh "st" in let acc := fresh "acc" in let HR := fresh "HR" in
        intros i st acc _ HR; cbv beta in HR; subst acc; destruct_tuples;
        cbv beta iota zeta; destruct (points (znth _ i)) as [? ?]; destruct_tuples; reflexivity
      | reflexivity ]
    end
  end.

(* goal: src_planeEstimation_<I> .. = (.., eig (covariance N dim size (map (lS o points) nbi)), ..) *)
Ltac plane_tie f lS dim size kdf points idx k :=
  let Ep := fresh "Ep" in let nbi := fresh "nbi" in let Hkk := fresh "Hkk" in let EM := fresh "EM" in let h := fresh "h" in
  let HM := fresh "HM" in let EC := fresh "EC" in let HC := fresh "HC" in
  unfold f;
  destruct (points idx) as [? ?] eqn:Ep; destruct_tuples;
  match goal with |- context [kdf ?kd ?p k] => set (nbi := kdf kd p k) in * end;
  assert (Hkk : k = Z.of_nat (length nbi)) by lia;
  match goal with |- context [fold_left ?g (zrange k) ?init] =>
    destruct (fold_left g (zrange k) init) as [? ?] eqn:EM end; destruct_tuples;
  pose (h := fun i : Z => lS (points i));
  match type of EM with _ = ?tupM =>
    assert (HM : mean N size (map h nbi) = vdivs N (lS tupM) (nofZ N k));
    [ unfold mean, scalar_of_nat; rewrite map_length, <- Hkk; f_equal;
      rewrite fold_left_map_idx, <- Hkk, <- EM;
      match goal with |- fold_left ?H _ _ = lS (fold_left ?G _ _) =>
        apply (fold_left_rel (fun st acc => acc = lS st) G H) end; [|reflexivity];
      let i := fresh "i" in let st := fresh "st" in let acc := fresh "acc" in
      intros i st acc _ ->; destruct_tuples; cbv beta iota zeta; unfold h;
      destruct (points (znth nbi i)) as [? ?]; destruct_tuples; reflexivity
    | ] end;
  match goal with |- context [fold_left ?g (zrange k) ?init] =>
    destruct (fold_left g (zrange k) init) as [? ?] eqn:EC end; destruct_tuples;
  match goal with |- context [?e ?M] =>
    lazymatch type of M with list (list T) => assert (HC : M = covariance N dim size (map h nbi)) end end;
  [ unfold covariance, cov_entry, scalar_of_nat; rewrite HM, map_length, <- Hkk, map_map; subst h;
    cbn [map seq]; repeat f_equal;
    rewrite fold_left_map_idx, <- Hkk; entry_tie EC points
  | rewrite HC; reflexivity ].

Section Plane.
Context {K : Type} (eig : list (list T) -> list T * list (list T)).

Lemma tie_plane_V2 (kd_find : K -> T * T -> Z -> list Z) points kd idx k :
  (0 <= k)%Z -> length (kd_find kd (points idx) k) = Z.to_nat k ->
  src_planeEstimation_V2 N kd_find eig points kd idx k =
    let nbi := kd_find kd (points idx) k in
    let es := eig (covariance N 2 2 (map (fun i => l2 (points i)) nbi)) in
    (nbi, es, eig_val N es 0, eig_val N es 1, eig_vec N es 0 0, eig_vec N es 0 1, eig_vec N es 1 0, eig_vec N es 1 1).
Proof. intros Hk Hlen. plane_tie @src_planeEstimation_V2 l2 2%nat 2%nat kd_find points idx k. Qed.

Lemma tie_plane_H2 (kd_find : K -> T * T * T -> Z -> list Z) points kd idx k :
  (0 <= k)%Z -> length (kd_find kd (points idx) k) = Z.to_nat k ->
  src_planeEstimation_H2 N kd_find eig points kd idx k =
    let nbi := kd_find kd (points idx) k in
    let es := eig (covariance N 2 3 (map (fun i => l3 (points i)) nbi)) in
    (nbi, es, eig_val N es 0, eig_val N es 1, eig_vec N es 0 0, eig_vec N es 0 1, eig_vec N es 1 0, eig_vec N es 1 1).
Proof. intros Hk Hlen. plane_tie @src_planeEstimation_H2 l3 2%nat 3%nat kd_find points idx k. Qed.

Lemma tie_plane_V3 (kd_find : K -> T * T * T -> Z -> list Z) points kd idx k :
  (0 <= k)%Z -> length (kd_find kd (points idx) k) = Z.to_nat k ->
  src_planeEstimation_V3 N kd_find eig points kd idx k =
    let nbi := kd_find kd (points idx) k in
    let es := eig (covariance N 3 3 (map (fun i => l3 (points i)) nbi)) in
    (nbi, es, eig_val N es 0, eig_val N es 1, eig_val N es 2,
     eig_vec N es 0 0, eig_vec N es 0 1, eig_vec N es 0 2, eig_vec N es 1 0, eig_vec N es 1 1, eig_vec N es 1 2,
     eig_vec N es 2 0, eig_vec N es 2 1, eig_vec N es 2 2).
Proof. intros Hk Hlen. plane_tie @src_planeEstimation_V3 l3 3%nat 3%nat kd_find points idx k. Qed.

Lemma tie_plane_H3 (kd_find : K -> T * T * T * T -> Z -> list Z) points kd idx k :
  (0 <= k)%Z -> length (kd_find kd (points idx) k) = Z.to_nat k ->
  src_planeEstimation_H3 N kd_find eig points kd idx k =
    let nbi := kd_find kd (points idx) k in
    let es := eig (covariance N 3 4 (map (fun i => l4 (points i)) nbi)) in
    (nbi, es, eig_val N es 0, eig_val N es 1, eig_val N es 2,
     eig_vec N es 0 0, eig_vec N es 0 1, eig_vec N es 0 2, eig_vec N es 1 0, eig_vec N es 1 1, eig_vec N es 1 2,
     eig_vec N es 2 0, eig_vec N es 2 1, eig_vec N es 2 2).
Proof. intros Hk Hlen. plane_tie @src_planeEstimation_H3 l4 3%nat 4%nat kd_find points idx k. Qed.
End Plane.

End Tie.
