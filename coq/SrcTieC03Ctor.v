(* SrcTieC03Ctor.v — the four CONSTRUCTORS of LambertConverter regenerated from the clang AST of the current
   src/geodesy/LambertConverter.cpp (gen/SrcLambertCtor.v, written on every run by translate/tr_C03_ctor.py) store what the
   model's converter holds: the projection constants (longitude0, n, c, xs, ys) the theorems of Properties_C03.v take as
   [pr : projection] and the eccentricity they take as [e] — for a converter built from secant / tangent parameters and an
   ellipsoid: pr = computeProjectionParameters(parameters, ellipsoid) and e = ellipsoid.e (the FIRST eccentricity, the one
   the projection constants were computed with; not e2).  For every numeric dictionary: nothing arithmetic is compared.

   The generated terms return the data members by name: (c_, e_, longitude0_, n_, xs_, ys_); the two overloads of
   computeProjectionParameters are their function arguments F_secant / F_tangent, instantiated here with
   LambertModel.secant_projection / tangent_projection (tied to the source's bodies in SrcTie.v). *)
From Coq Require Import Reals ZArith.
From Romea Require Import Num NumR GeodesyModel LambertModel SrcTie SrcTieC03.
From Romea.gen Require Import SrcFunsC03 SrcLambertCtor.

Section Tie.
Context {T : Type} (N : NumOps T).

(* the data members of a converter holding the projection constants pr and the eccentricity e, in the generated order *)
Definition lambert_fields (pr : projection (T:=T)) (e : T) : (T * T * T * T * T * T)%type :=
  (p_c pr, e, p_lon0 pr, p_n pr, p_xs pr, p_ys pr).

Lemma tie_ctor_scalars Fs Ft lon0 n c xs ys e :
  src_ctor_scalars N Fs Ft lon0 n c xs ys e = lambert_fields (mkProj lon0 n c xs ys) e.
Proof. reflexivity. Qed.

Lemma tie_ctor_projection Fs Ft pr e : src_ctor_projection N Fs Ft pr e = lambert_fields pr e.
Proof. reflexivity. Qed.

Lemma tie_ctor_secant Fs Ft sp el : src_ctor_secant N Fs Ft sp el = lambert_fields (Fs sp el) (el_e el).
Proof. reflexivity. Qed.

Lemma tie_ctor_tangent Fs Ft tp el : src_ctor_tangent N Fs Ft tp el = lambert_fields (Ft tp el) (el_e el).
Proof. reflexivity. Qed.

Lemma tie_constructors (sp : secant_params (T:=T)) (tp : tangent_params (T:=T)) (el : ellipsoid (T:=T)) :
  src_ctor_secant N (secant_projection N) (tangent_projection N) sp el = lambert_fields (secant_projection N sp el) (el_e el) /\
  src_ctor_tangent N (secant_projection N) (tangent_projection N) tp el = lambert_fields (tangent_projection N tp el) (el_e el).
Proof. split; reflexivity. Qed.

End Tie.

(* over the reals, end to end: toLambert as the source computes it, on the data members the source's secant / tangent
   constructor stores, is the model's toLambert with the model's projection constants and the ellipsoid's first eccentricity *)
Lemma tie_constructed_toLambert (el : ellipsoid (T:=R)) (w : wgs84 (T:=R)) :
  (forall sp : secant_params (T:=R),
     let '(c, e, lon0, n, xs, ys) := src_ctor_secant ROps (secant_projection ROps) (tangent_projection ROps) sp el in
     src_toLambert ROps c e lon0 n (w_lat w) (w_lon w) xs ys =
     (let v := toLambert ROps (secant_projection ROps sp el) (el_e el) w in (v2x v, v2y v))) /\
  (forall tp : tangent_params (T:=R),
     let '(c, e, lon0, n, xs, ys) := src_ctor_tangent ROps (secant_projection ROps) (tangent_projection ROps) tp el in
     src_toLambert ROps c e lon0 n (w_lat w) (w_lon w) xs ys =
     (let v := toLambert ROps (tangent_projection ROps tp el) (el_e el) w in (v2x v, v2y v))).
Proof.
  split; intros p.
  - rewrite tie_ctor_secant. unfold lambert_fields. cbv zeta. apply tie_toLambert.
  - rewrite tie_ctor_tangent. unfold lambert_fields. cbv zeta. apply tie_toLambert.
Qed.

(* ... and the same for the inverse map toWGS84 (latitude loop included, every fuel) *)
Lemma tie_constructed_toWGS84 fuel (el : ellipsoid (T:=R)) (v : vec2 (T:=R)) :
  (forall sp : secant_params (T:=R),
     let '(c, e, lon0, n, xs, ys) := src_ctor_secant ROps (secant_projection ROps) (tangent_projection ROps) sp el in
     src_lambertToWGS84 ROps fuel c e lon0 n (v2x v) (v2y v) xs ys =
     match toWGS84 ROps fuel (secant_projection ROps sp el) (el_e el) v with None => None | Some w => Some (w_lat w, w_lon w) end) /\
  (forall tp : tangent_params (T:=R),
     let '(c, e, lon0, n, xs, ys) := src_ctor_tangent ROps (secant_projection ROps) (tangent_projection ROps) tp el in
     src_lambertToWGS84 ROps fuel c e lon0 n (v2x v) (v2y v) xs ys =
     match toWGS84 ROps fuel (tangent_projection ROps tp el) (el_e el) v with None => None | Some w => Some (w_lat w, w_lon w) end).
Proof.
  split; intros p.
  - rewrite tie_ctor_secant. unfold lambert_fields. cbv zeta. apply tie_lambertToWGS84.
  - rewrite tie_ctor_tangent. unfold lambert_fields. cbv zeta. apply tie_lambertToWGS84.
Qed.
